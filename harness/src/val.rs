//! The harness's own value AST (mirrors the model's `val`), conversion to/from IDLValue, canonical
//! s-expressions, generation of inhabitants, and an independent encoder of the binary format
//! (type table + M) with knobs for unusual but legal layouts and for hostile ones.
use crate::rng::Rng;
use crate::sx::{self, Sx};
use crate::ty::{Env, T};
use candid::types::value::{IDLField, IDLValue, VariantValue};
use candid::types::Label;
use candid::{Int, Nat, Principal};
use num_bigint::{BigInt, BigUint};
use std::str::FromStr;

#[derive(Clone, Debug, PartialEq)]
pub enum V {
    Null, Reserved, Bool(bool),
    Nat(BigUint), Int(BigInt),
    NatN(u32, u64), IntN(u32, i64),
    F32(u32), F64(u64),
    Text(Vec<u8>),
    Opt(Option<Box<V>>),
    Vec(Vec<V>),
    Rec(Vec<(u32, V)>),
    Variant(u32, Box<V>),
    Principal(Vec<u8>), Service(Vec<u8>), Func(Vec<u8>, Vec<u8>),
}

impl V {
    pub fn sx(&self) -> String {
        match self {
            V::Null => "null".into(), V::Reserved => "reserved".into(),
            V::Bool(b) => format!("(bool {})", *b as u8),
            V::Nat(n) => format!("(nat {})", n), V::Int(z) => format!("(int {})", z),
            V::NatN(b, n) => format!("(n{} {})", b, n), V::IntN(b, z) => format!("(i{} {})", b, z),
            V::F32(x) => format!("(f32 {})", x), V::F64(x) => format!("(f64 {})", x),
            V::Text(b) => format!("(text {})", sx::hex(b)),
            V::Opt(None) => "none".into(), V::Opt(Some(v)) => format!("(some {})", v.sx()),
            V::Vec(vs) => format!("(vec{})", vs.iter().map(|v| format!(" {}", v.sx())).collect::<String>()),
            V::Rec(fs) => format!("(rec{})", fs.iter().map(|(i, v)| format!(" ({} {})", i, v.sx())).collect::<String>()),
            V::Variant(i, v) => format!("(variant {} {})", i, v.sx()),
            V::Principal(b) => format!("(principal {})", sx::hex(b)),
            V::Service(b) => format!("(service {})", sx::hex(b)),
            V::Func(b, m) => format!("(func {} {})", sx::hex(b), sx::hex(m)),
        }
    }
    pub fn from_sx(s: &Sx) -> V {
        match s {
            Sx::A(a) => match a.as_str() { "null" => V::Null, "reserved" => V::Reserved, "none" => V::Opt(None), x => panic!("val atom {}", x) },
            Sx::L(_) => {
                let a = s.args();
                match s.head() {
                    "bool" => V::Bool(a[0].atom() == "1"),
                    "nat" => V::Nat(BigUint::from_str(a[0].atom()).unwrap()),
                    "int" => V::Int(BigInt::from_str(a[0].atom()).unwrap()),
                    "n8" | "n16" | "n32" | "n64" => V::NatN(s.head()[1..].parse().unwrap(), a[0].atom().parse().unwrap()),
                    "i8" | "i16" | "i32" | "i64" => V::IntN(s.head()[1..].parse().unwrap(), a[0].atom().parse().unwrap()),
                    "f32" => V::F32(a[0].atom().parse().unwrap()),
                    "f64" => V::F64(a[0].atom().parse().unwrap()),
                    "text" => V::Text(sx::unhex(a[0].atom())),
                    "some" => V::Opt(Some(Box::new(V::from_sx(&a[0])))),
                    "vec" => V::Vec(a.iter().map(V::from_sx).collect()),
                    "rec" => V::Rec(a.iter().map(|f| (f.list()[0].atom().parse().unwrap(), V::from_sx(&f.list()[1]))).collect()),
                    "variant" => V::Variant(a[0].atom().parse().unwrap(), Box::new(V::from_sx(&a[1]))),
                    "principal" => V::Principal(sx::unhex(a[0].atom())),
                    "service" => V::Service(sx::unhex(a[0].atom())),
                    "func" => V::Func(sx::unhex(a[0].atom()), sx::unhex(a[1].atom())),
                    h => panic!("val head {}", h),
                }
            }
        }
    }
    /// IDLValue -> V (Blob is a vector of nat8; labels by id; the variant index is dropped)
    pub fn from_idl(v: &IDLValue) -> V {
        match v {
            IDLValue::Bool(b) => V::Bool(*b), IDLValue::Null => V::Null, IDLValue::Reserved => V::Reserved,
            IDLValue::Text(s) => V::Text(s.as_bytes().to_vec()),
            IDLValue::Number(s) => V::Text(format!("#number:{}", s).into_bytes()),
            IDLValue::Float64(f) => V::F64(f.to_bits()), IDLValue::Float32(f) => V::F32(f.to_bits()),
            IDLValue::Opt(x) => V::Opt(Some(Box::new(V::from_idl(x)))), IDLValue::None => V::Opt(None),
            IDLValue::Vec(vs) => V::Vec(vs.iter().map(V::from_idl).collect()),
            IDLValue::Blob(b) => V::Vec(b.iter().map(|x| V::NatN(8, *x as u64)).collect()),
            IDLValue::Record(fs) => V::Rec(fs.iter().map(|f| (f.id.get_id(), V::from_idl(&f.val))).collect()),
            IDLValue::Variant(vv) => V::Variant(vv.0.id.get_id(), Box::new(V::from_idl(&vv.0.val))),
            IDLValue::Principal(p) => V::Principal(p.as_slice().to_vec()),
            IDLValue::Service(p) => V::Service(p.as_slice().to_vec()),
            IDLValue::Func(p, m) => V::Func(p.as_slice().to_vec(), m.as_bytes().to_vec()),
            IDLValue::Int(i) => V::Int(i.0.clone()), IDLValue::Nat(n) => V::Nat(n.0.clone()),
            IDLValue::Nat8(x) => V::NatN(8, *x as u64), IDLValue::Nat16(x) => V::NatN(16, *x as u64),
            IDLValue::Nat32(x) => V::NatN(32, *x as u64), IDLValue::Nat64(x) => V::NatN(64, *x),
            IDLValue::Int8(x) => V::IntN(8, *x as i64), IDLValue::Int16(x) => V::IntN(16, *x as i64),
            IDLValue::Int32(x) => V::IntN(32, *x as i64), IDLValue::Int64(x) => V::IntN(64, *x),
        }
    }
    /// V -> IDLValue with numeric labels (variant index = position in the type is unknown here: 0)
    pub fn to_idl(&self) -> IDLValue {
        match self {
            V::Null => IDLValue::Null, V::Reserved => IDLValue::Reserved, V::Bool(b) => IDLValue::Bool(*b),
            V::Nat(n) => IDLValue::Nat(Nat(n.clone())), V::Int(z) => IDLValue::Int(Int(z.clone())),
            V::NatN(8, n) => IDLValue::Nat8(*n as u8), V::NatN(16, n) => IDLValue::Nat16(*n as u16),
            V::NatN(32, n) => IDLValue::Nat32(*n as u32), V::NatN(_, n) => IDLValue::Nat64(*n),
            V::IntN(8, n) => IDLValue::Int8(*n as i8), V::IntN(16, n) => IDLValue::Int16(*n as i16),
            V::IntN(32, n) => IDLValue::Int32(*n as i32), V::IntN(_, n) => IDLValue::Int64(*n),
            V::F32(x) => IDLValue::Float32(f32::from_bits(*x)), V::F64(x) => IDLValue::Float64(f64::from_bits(*x)),
            V::Text(b) => IDLValue::Text(String::from_utf8(b.clone()).expect("utf8 text")),
            V::Opt(None) => IDLValue::None, V::Opt(Some(v)) => IDLValue::Opt(Box::new(v.to_idl())),
            V::Vec(vs) => IDLValue::Vec(vs.iter().map(|v| v.to_idl()).collect()),
            V::Rec(fs) => IDLValue::Record(fs.iter().map(|(i, v)| IDLField { id: Label::Id(*i), val: v.to_idl() }).collect()),
            V::Variant(i, v) => IDLValue::Variant(VariantValue(Box::new(IDLField { id: Label::Id(*i), val: v.to_idl() }), 0)),
            V::Principal(b) => IDLValue::Principal(Principal::from_slice(b)),
            V::Service(b) => IDLValue::Service(Principal::from_slice(b)),
            V::Func(b, m) => IDLValue::Func(Principal::from_slice(b), String::from_utf8(m.clone()).expect("utf8 method")),
        }
    }
    /// like to_idl, but every vector made of nat8 values only is handed over as IDLValue::Blob (what the text parser and the
    /// decoder produce for blobs)
    pub fn to_idl_blob(&self) -> IDLValue {
        match self {
            V::Vec(vs) if !vs.is_empty() && vs.iter().all(|v| matches!(v, V::NatN(8, _))) => IDLValue::Blob(vs.iter().map(|v| match v { V::NatN(_, n) => *n as u8, _ => 0 }).collect()),
            V::Opt(Some(v)) => IDLValue::Opt(Box::new(v.to_idl_blob())),
            V::Vec(vs) => IDLValue::Vec(vs.iter().map(|v| v.to_idl_blob()).collect()),
            V::Rec(fs) => IDLValue::Record(fs.iter().map(|(i, v)| IDLField { id: Label::Id(*i), val: v.to_idl_blob() }).collect()),
            V::Variant(i, v) => IDLValue::Variant(VariantValue(Box::new(IDLField { id: Label::Id(*i), val: v.to_idl_blob() }), 0)),
            _ => self.to_idl(),
        }
    }
    /// like to_idl, but every record lists its fields in DESCENDING id order (a hand-built IDLValue need not be sorted)
    pub fn to_idl_rev(&self) -> IDLValue {
        match self {
            V::Opt(Some(v)) => IDLValue::Opt(Box::new(v.to_idl_rev())),
            V::Vec(vs) => IDLValue::Vec(vs.iter().map(|v| v.to_idl_rev()).collect()),
            V::Rec(fs) => IDLValue::Record(fs.iter().rev().map(|(i, v)| IDLField { id: Label::Id(*i), val: v.to_idl_rev() }).collect()),
            V::Variant(i, v) => IDLValue::Variant(VariantValue(Box::new(IDLField { id: Label::Id(*i), val: v.to_idl_rev() }), 0)),
            _ => self.to_idl(),
        }
    }
    pub fn size(&self) -> usize {
        1 + match self {
            V::Opt(Some(v)) | V::Variant(_, v) => v.size(),
            V::Vec(vs) => vs.iter().map(|v| v.size()).sum(),
            V::Rec(fs) => fs.iter().map(|f| f.1.size()).sum(),
            _ => 0,
        }
    }
}
pub fn vals_sx(vs: &[V]) -> String { vs.iter().map(|v| v.sx()).collect::<Vec<_>>().join(" ") }

// ---------------------------------------------------------------------------------------------------------
pub fn lookup<'a>(env: &'a Env, x: &str) -> Option<&'a T> { env.iter().find(|d| d.0 == x).map(|d| &d.1) }
pub fn trace<'a>(env: &'a Env, t: &'a T) -> Option<&'a T> {
    let mut t = t; let mut n = 0;
    while let T::Var(x) = t { t = lookup(env, x)?; n += 1; if n > env.len() + 1 { return None; } }
    Some(t)
}

const TEXTS: &[&str] = &["", "a", "hello", "\u{0}", "\"q\"\\", "é\u{7f}", "\u{1F600}x", "line\nbreak", "tab\t", "\u{fffd}\u{d7ff}"];
fn gen_big(r: &mut Rng) -> BigUint {
    match r.below(6) {
        0 => BigUint::from(r.below(200)),
        1 => BigUint::from(r.next()),
        2 => { let k = *r.pick(&[7u32, 14, 63, 64, 127, 128, 200]) as usize; (BigUint::from(1u8) << k) + r.below(3) - 1u8 }
        3 => BigUint::from(0u8),
        _ => { let k = r.range(1, 20) as usize; BigUint::from_bytes_le(&r.bytes(k)) }
    }
}
/// when set, gen_val produces no empty vectors (an empty vector decodes at ANY vector type, which hides element-type mismatches)
pub static NONEMPTY_VECS: std::sync::atomic::AtomicBool = std::sync::atomic::AtomicBool::new(false);
/// an inhabitant of t (None if the budget runs out on an uninhabited or too deep type)
pub fn gen_val(r: &mut Rng, env: &Env, t: &T, budget: u32) -> Option<V> {
    let t = trace(env, t)?;
    if budget == 0 {
        let ne = NONEMPTY_VECS.load(std::sync::atomic::Ordering::Relaxed);
        return match t { T::Opt(_) => Some(V::Opt(None)), T::Vec(_) if !ne => Some(V::Vec(vec![])), T::Prim(_) => gen_val(r, env, t, 1), _ => None };
    }
    let b = budget - 1;
    Some(match t {
        T::Prim(p) => match *p {
            "null" => V::Null, "reserved" => V::Reserved, "bool" => V::Bool(r.coin(1, 2)),
            "nat" => V::Nat(gen_big(r)),
            "int" => { let m = BigInt::from(gen_big(r)); V::Int(if r.coin(1, 2) { -m } else { m }) }
            "nat8" => V::NatN(8, { let rx = r.below(256); *r.pick(&[0, 1, 127, 128, 255, rx]) }),
            "nat16" => V::NatN(16, { let rx = r.below(65536); *r.pick(&[0, 255, 256, 65535, rx]) }),
            "nat32" => V::NatN(32, { let rx = r.below(1 << 32); *r.pick(&[0, u32::MAX as u64, rx]) }),
            "nat64" => V::NatN(64, { let rx = r.next(); *r.pick(&[0, u64::MAX, 1 << 63, rx]) }),
            "int8" => V::IntN(8, { let rx = r.below(256) as i64 - 128; *r.pick(&[0i64, -1, -128, 127, rx]) }),
            "int16" => V::IntN(16, { let rx = r.below(65536) as i64 - 32768; *r.pick(&[0i64, -1, -32768, 32767, rx]) }),
            "int32" => V::IntN(32, { let rx = r.next() as i32 as i64; *r.pick(&[0i64, -1, i32::MIN as i64, i32::MAX as i64, rx]) }),
            "int64" => V::IntN(64, { let rx = r.next() as i64; *r.pick(&[0i64, -1, i64::MIN, i64::MAX, rx]) }),
            "float32" => V::F32({ let rx = r.next() as u32; *r.pick(&[0u32, 0x8000_0000, 0x3f80_0000, 0x7f80_0000, 0x7fc0_0001, 0xffc0_1234, rx]) }),
            "float64" => V::F64({ let rx = r.next(); *r.pick(&[0u64, 1 << 63, 0x3ff0_0000_0000_0000, 0x7ff0_0000_0000_0000, 0x7ff8_0000_0000_0001, rx]) }),
            "text" => V::Text(r.pick(TEXTS).as_bytes().to_vec()),
            "principal" => { let k = *r.pick(&[0usize, 1, 10, 29]); V::Principal(r.bytes(k)) }
            "empty" => return None,
            _ => return None,
        },
        T::Var(_) => unreachable!(),
        T::Opt(x) => if r.coin(1, 3) { V::Opt(None) } else { match gen_val(r, env, x, b) { Some(v) => V::Opt(Some(Box::new(v))), None => V::Opt(None) } },
        T::Vec(x) => {
            let ne = NONEMPTY_VECS.load(std::sync::atomic::Ordering::Relaxed);
            let n = if ne { *r.pick(&[1usize, 1, 2, 3]) } else { *r.pick(&[0usize, 0, 1, 2, 3, 12]) };
            let mut vs = vec![];
            for _ in 0..n { match gen_val(r, env, x, b) { Some(v) => vs.push(v), None => break } }
            if ne && vs.is_empty() { return None; }
            V::Vec(vs)
        }
        T::Rec(fs) => { let mut o = vec![]; for (i, ft) in fs { o.push((*i, gen_val(r, env, ft, b)?)); } V::Rec(o) }
        T::Variant(fs) => {
            if fs.is_empty() { return None; }
            let start = r.below(fs.len() as u64) as usize;
            for k in 0..fs.len() { let (i, ft) = &fs[(start + k) % fs.len()]; if let Some(v) = gen_val(r, env, ft, b) { return Some(V::Variant(*i, Box::new(v))); } }
            return None;
        }
        T::Func(..) => { let k = *r.pick(&[0usize, 3, 29]); let b = r.bytes(k); V::Func(b, r.pick(&["", "f", "méthode"]).as_bytes().to_vec()) }
        T::Serv(_) => { let k = *r.pick(&[0usize, 3, 29]); V::Service(r.bytes(k)) }
        T::Class(..) => return None,
    })
}

// ---------------------------------------------------------------------------------------------------------
// independent encoder
pub fn leb(mut n: u128, out: &mut Vec<u8>) { loop { let b = (n & 0x7f) as u8; n >>= 7; if n == 0 { out.push(b); break } else { out.push(b | 0x80) } } }
pub fn leb_pad(n: u128, pad: usize, out: &mut Vec<u8>) {
    let mut v = vec![]; leb(n, &mut v);
    if pad > 0 { let l = v.len(); v[l - 1] |= 0x80; for _ in 1..pad { v.push(0x80); } v.push(0); }
    out.extend(v);
}
pub fn sleb(n: i128, out: &mut Vec<u8>) {
    let mut n = n;
    loop { let b = (n & 0x7f) as u8; n >>= 7; let done = (n == 0 && b & 0x40 == 0) || (n == -1 && b & 0x40 != 0); if done { out.push(b); break } else { out.push(b | 0x80) } }
}
fn leb_big(n: &BigUint, out: &mut Vec<u8>) {
    let mut n = n.clone(); let m = BigUint::from(128u8);
    loop { let b = (&n % &m).to_u32_digits().first().copied().unwrap_or(0) as u8; n /= &m; if n == BigUint::from(0u8) { out.push(b); break } else { out.push(b | 0x80) } }
}
fn sleb_big(z: &BigInt, out: &mut Vec<u8>) {
    let mut z = z.clone();
    loop {
        let m: BigInt = &z & BigInt::from(0x7f); let b = m.to_u32_digits().1.first().copied().unwrap_or(0) as u8;
        z >>= 7;
        let done = (z == BigInt::from(0) && b & 0x40 == 0) || (z == BigInt::from(-1) && b & 0x40 != 0);
        if done { out.push(b); break } else { out.push(b | 0x80) }
    }
}
fn prim_code(p: &str) -> i128 {
    match p { "null" => -1, "bool" => -2, "nat" => -3, "int" => -4, "nat8" => -5, "nat16" => -6, "nat32" => -7, "nat64" => -8,
        "int8" => -9, "int16" => -10, "int32" => -11, "int64" => -12, "float32" => -13, "float64" => -14, "text" => -15,
        "reserved" => -16, "empty" => -17, "principal" => -24, x => panic!("prim {}", x) }
}
/// Type table builder: every definition of `env` that is a constructor gets an entry (in env order, plus a
/// rotation), anonymous composite types get fresh entries; aliases of primitives and of other names are chased.
pub struct Table { pub entries: Vec<Vec<u8>>, index: Vec<(T, usize)>, names: Vec<(String, usize)>, env: Env }
impl Table {
    pub fn new(env: &Env) -> Table { Table { entries: vec![], index: vec![], names: vec![], env: env.clone() } }
    /// reference to type t as an sleb number
    pub fn reference(&mut self, t: &T) -> i128 {
        match t {
            T::Prim(p) => prim_code(p),
            T::Var(x) => {
                if let Some((_, i)) = self.names.iter().find(|d| d.0 == *x) { return *i as i128; }
                let body = lookup(&self.env, x).unwrap_or_else(|| panic!("unbound {}", x)).clone();
                match body {
                    T::Prim(_) | T::Var(_) => self.reference(&body),
                    _ => { let i = self.entries.len(); self.entries.push(vec![]); self.names.push((x.clone(), i)); let e = self.entry(&body); self.entries[i] = e; i as i128 }
                }
            }
            _ => {
                if let Some((_, i)) = self.index.iter().find(|d| d.0 == *t) { return *i as i128; }
                let i = self.entries.len(); self.entries.push(vec![]); self.index.push((t.clone(), i));
                let e = self.entry(t); self.entries[i] = e; i as i128
            }
        }
    }
    fn entry(&mut self, t: &T) -> Vec<u8> {
        let mut o = vec![];
        match t {
            T::Opt(x) => { let r = self.reference(x); o.push(0x6e); sleb(r, &mut o); }
            T::Vec(x) => { let r = self.reference(x); o.push(0x6d); sleb(r, &mut o); }
            T::Rec(fs) | T::Variant(fs) => {
                let refs: Vec<i128> = fs.iter().map(|f| self.reference(&f.1)).collect();
                o.push(if matches!(t, T::Rec(_)) { 0x6c } else { 0x6b });
                leb(fs.len() as u128, &mut o);
                for ((i, _), r) in fs.iter().zip(refs) { leb(*i as u128, &mut o); sleb(r, &mut o); }
            }
            T::Func(a, rt, m) => {
                let ra: Vec<i128> = a.iter().map(|x| self.reference(x)).collect();
                let rr: Vec<i128> = rt.iter().map(|x| self.reference(x)).collect();
                o.push(0x6a); leb(ra.len() as u128, &mut o); for r in ra { sleb(r, &mut o); }
                leb(rr.len() as u128, &mut o); for r in rr { sleb(r, &mut o); }
                o.push(m.len() as u8); o.extend(m.iter());
            }
            T::Serv(ms) => {
                let refs: Vec<i128> = ms.iter().map(|m| self.reference(&m.1)).collect();
                o.push(0x69); leb(ms.len() as u128, &mut o);
                for ((n, _), r) in ms.iter().zip(refs) { leb(n.len() as u128, &mut o); o.extend(n.as_bytes()); sleb(r, &mut o); }
            }
            T::Prim(_) | T::Var(_) | T::Class(..) => panic!("not a table entry: {:?}", t),
        }
        o
    }
}
pub fn enc_val(env: &Env, v: &V, t: &T, o: &mut Vec<u8>, pad: usize) {
    let t = trace(env, t).expect("trace");
    match (v, t) {
        (V::Null, _) | (V::Reserved, _) => {}
        (V::Bool(b), _) => o.push(*b as u8),
        (V::Nat(n), _) => leb_big(n, o),
        (V::Int(z), _) => sleb_big(z, o),
        (V::NatN(b, n), _) => o.extend(&n.to_le_bytes()[..(*b / 8) as usize]),
        (V::IntN(b, n), _) => o.extend(&n.to_le_bytes()[..(*b / 8) as usize]),
        (V::F32(x), _) => o.extend(&x.to_le_bytes()),
        (V::F64(x), _) => o.extend(&x.to_le_bytes()),
        (V::Text(b), _) => { leb_pad(b.len() as u128, pad, o); o.extend(b); }
        (V::Opt(None), _) => o.push(0),
        (V::Opt(Some(w)), T::Opt(x)) => { o.push(1); enc_val(env, w, x, o, pad); }
        (V::Vec(vs), T::Vec(x)) => { leb_pad(vs.len() as u128, pad, o); for w in vs { enc_val(env, w, x, o, pad); } }
        (V::Rec(fs), T::Rec(ts)) => { for ((_, w), (_, ft)) in fs.iter().zip(ts) { enc_val(env, w, ft, o, pad); } }
        (V::Variant(i, w), T::Variant(ts)) => { let k = ts.iter().position(|f| f.0 == *i).expect("tag"); leb_pad(k as u128, pad, o); enc_val(env, w, &ts[k].1, o, pad); }
        (V::Principal(b), _) | (V::Service(b), _) => { o.push(1); leb(b.len() as u128, o); o.extend(b); }
        (V::Func(b, m), _) => { o.push(1); o.push(1); leb(b.len() as u128, o); o.extend(b); leb(m.len() as u128, o); o.extend(m); }
        (v, t) => panic!("enc_val mismatch {:?} {:?}", v, t),
    }
}
/// a complete message: DIDL, table, argument types, values
pub fn message(env: &Env, ts: &[T], vs: &[V], pad: usize) -> Vec<u8> {
    let mut tb = Table::new(env);
    let refs: Vec<i128> = ts.iter().map(|t| tb.reference(t)).collect();
    let mut o = b"DIDL".to_vec();
    leb_pad(tb.entries.len() as u128, pad, &mut o);
    for e in &tb.entries { o.extend(e); }
    leb(refs.len() as u128, &mut o);
    for r in refs { sleb(r, &mut o); }
    for (v, t) in vs.iter().zip(ts) { enc_val(env, v, t, &mut o, pad); }
    o
}
