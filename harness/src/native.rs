//! A corpus of Rust types with a Candid mapping, and the operations of C01 / C06 / C07 / C08 on them.
//! Every operation is generic in the Rust type; `dispatch(name, ..)` selects the monomorphic instance by the
//! corpus name.  Values are never built by hand: a value of type X is obtained by decoding a message that the
//! harness's independent encoder (val.rs) wrote for a generated abstract value at X's Candid type.
use crate::ops::c07::{config, laws, Out};
use crate::sx;
use crate::ty::{Env, T};
use crate::val::{vals_sx, V};
use candid::de::IDLDeserialize;
use candid::types::bounded_vec::BoundedVec;
use candid::types::Type;
use candid::{CandidType, DecoderConfig, Deserialize, IDLArgs, Int, Nat, Principal, Reserved, TypeEnv};
use std::collections::{BTreeMap, BTreeSet, HashMap, VecDeque};
use std::fmt::Debug;

// ---------------------------------------------------------------------------------------------------------
// corpus types
#[derive(CandidType, Deserialize, Debug, PartialEq, Clone)]
pub struct Pair { a: Nat, b: Option<String> }
#[derive(CandidType, Deserialize, Debug, PartialEq, Clone)]
pub struct Renamed { #[serde(rename = "class")] x: u8, #[serde(rename = "a b")] y: Int, #[serde(rename = "\u{e9}t\u{e9}")] z: bool }
#[derive(CandidType, Deserialize, Debug, PartialEq, Clone)]
pub struct Données { x: u8, suite: Option<Box<Données>> }
#[derive(CandidType, Deserialize, Debug, PartialEq, Clone)]
pub enum État { Arrêt, Marche(Nat), Voisin(Box<Données>) }
#[allow(non_camel_case_types)]
#[derive(CandidType, Deserialize, Debug, PartialEq, Clone)]
pub struct r#type { r#fn: u8, class_: Int }
#[derive(CandidType, Deserialize, Debug, PartialEq, Clone)]
pub struct Tup(Nat, i8, String);
#[derive(CandidType, Deserialize, Debug, PartialEq, Clone)]
pub struct Newt(Int);
#[derive(CandidType, Deserialize, Debug, PartialEq, Clone)]
pub struct NewtNat(Nat);
#[derive(CandidType, Deserialize, Debug, PartialEq, Clone)]
pub struct NewtU32(u32);
#[derive(CandidType, Deserialize, Debug, PartialEq, Clone)]
pub struct UnitS;
#[derive(CandidType, Deserialize, Debug, PartialEq, Clone)]
pub enum Shape { Dot, Circle(u32), Rect { w: Nat, h: Nat }, Two(i8, String), Many(Vec<Shape>) }
#[derive(CandidType, Deserialize, Debug, PartialEq, Clone)]
pub enum Color { Red, Green, #[serde(rename = "deep blue")] Blue }
#[derive(CandidType, Deserialize, Debug, PartialEq, Clone)]
pub struct Gen<A, B> { item: A, more: Vec<A>, other: Option<B> }
#[derive(CandidType, Deserialize, Debug, PartialEq, Clone)]
pub struct List { head: Int, tail: Option<Box<List>> }
#[derive(CandidType, Deserialize, Debug, PartialEq, Clone)]
pub enum Tree { Leaf(Nat), Node(Box<Tree>, Box<Tree>) }
#[derive(CandidType, Deserialize, Debug, PartialEq, Clone)]
pub struct Rose { label: String, kids: Vec<Rose> }
#[derive(CandidType, Deserialize, Debug, PartialEq, Clone)]
pub struct WithOpts { a: Option<Nat>, b: Option<Vec<u8>>, c: Option<Option<i16>>, z: Reserved, n: () }
#[derive(CandidType, Deserialize, Debug, PartialEq, Clone)]
pub struct Wide { f0: u8, f1: u16, f2: u32, f3: u64, f4: i8, f5: i16, f6: i32, f7: i64, f8: bool, f9: String, fa: Nat, fb: Int }
#[derive(CandidType, Deserialize, Debug, PartialEq, Clone)]
pub struct Floats { x: f32, y: f64, v: Vec<f64> }
#[derive(CandidType, Deserialize, Debug, PartialEq, Clone)]
pub struct Refs { p: Principal, f: FnRef, s: SvRef, ps: Vec<Principal>, fs: Vec<FnRef> }
#[derive(CandidType, Deserialize, Debug, PartialEq, Clone)]
pub struct Maps { m1: BTreeMap<String, Nat>, m2: BTreeMap<Int, Nat>, m3: BTreeMap<Principal, Int>, m4: BTreeMap<u8, Vec<Int>> }
#[derive(CandidType, Deserialize, Debug, PartialEq, Clone)]
pub struct Nested { m: BTreeMap<String, Vec<Pair>>, o: Option<Option<Nat>>, t: (Nat, (Int, String)), a: [u16; 3] }
#[derive(CandidType, Deserialize, Debug, PartialEq, Clone)]
pub struct Big128 { u: u128, i: i128, v: Vec<u128>, o: Option<i128> }
#[derive(CandidType, Deserialize, Debug, PartialEq, Clone)]
pub struct Bytes { b: serde_bytes::ByteBuf, v: Vec<u8>, o: Option<serde_bytes::ByteBuf> }
#[derive(CandidType, Deserialize, Debug, PartialEq, Clone)]
pub enum Res2 { Ok(Nat), Err(String) }
#[derive(CandidType, Deserialize, Debug, PartialEq, Clone)]
pub struct Boxes { a: Vec<Box<u32>>, b: Vec<std::rc::Rc<i64>>, c: Box<Vec<u16>>, d: Vec<NewtU32>, e: std::sync::Arc<Nat> }
#[derive(CandidType, Deserialize, Debug, PartialEq, Clone)]
pub struct Mutual1 { next: Option<Box<Mutual2>>, tag: u8 }
#[derive(CandidType, Deserialize, Debug, PartialEq, Clone)]
pub struct Mutual2 { back: Vec<Mutual1>, n: Nat }

// raw identifiers: the derive macro has to use the unescaped name everywhere (label, id, sort key)
#[derive(CandidType, Deserialize, Debug, PartialEq, Clone)]
pub struct RawIds { r#type: u8, r#fn: Nat, r#in: String, r#match: bool, a: Int, r#ref: Option<u8>, zz: Vec<u16> }
#[derive(CandidType, Deserialize, Debug, PartialEq, Clone)]
#[allow(non_camel_case_types)]
pub enum RawEnum { r#type, r#struct { r#ref: u8, r#loop: Nat, b: Int }, r#move(u8, Nat), Plain(Vec<RawIds>) }

candid::define_function!(pub FnRef : (Nat, Option<Pair>) -> (String) query);
candid::define_service!(pub SvRef : { "get" : candid::func!((Nat) -> (Int) query); "set" : candid::func!((Vec<u8>) -> ()) });
// method names whose order by name differs from their order by hash, by length and by case (methods are sorted by NAME on the wire)
candid::define_service!(pub SvMany : { "b" : candid::func!(() -> ()); "aa" : candid::func!((Nat) -> ()); "Zeta" : candid::func!(() -> (Int) query);
    "long_method_name" : candid::func!((String) -> (String)); "\u{e9}t\u{e9}" : candid::func!(() -> () oneway); "a" : candid::func!((SvRef) -> ()) });

type BV3 = BoundedVec<3, { candid::types::bounded_vec::UNBOUNDED }, { candid::types::bounded_vec::UNBOUNDED }, u64>;
type BVT = BoundedVec<{ candid::types::bounded_vec::UNBOUNDED }, 100, { candid::types::bounded_vec::UNBOUNDED }, Vec<u8>>;
type BVU = BoundedVec<{ candid::types::bounded_vec::UNBOUNDED }, 16, { candid::types::bounded_vec::UNBOUNDED }, u64>;
type BVE = BoundedVec<{ candid::types::bounded_vec::UNBOUNDED }, { candid::types::bounded_vec::UNBOUNDED }, 30, Vec<u8>>;

// ---------------------------------------------------------------------------------------------------------
/// the Candid type of X in the harness's own representation: everything inline, a knot (recursion point) becomes a
/// variable named after the Rust type, bound in the environment to the type the memo holds for it
fn conv(t: &Type, env: &mut Env) -> T {
    use candid::types::TypeInner;
    match t.as_ref() {
        TypeInner::Knot(id) => {
            let name = format!("K_{}", id).replace(|c: char| !c.is_ascii_alphanumeric() && c != '_', "_");
            if !env.iter().any(|d| d.0 == name) {
                env.push((name.clone(), T::Prim("empty")));     // placeholder while converting the body
                let body = candid::types::internal::find_type(id).expect("knot in the memo");
                let b = conv(&body, env);
                let k = env.iter().position(|d| d.0 == name).unwrap();
                env[k].1 = b;
            }
            T::Var(name)
        }
        TypeInner::Opt(x) => T::opt(conv(x, env)),
        TypeInner::Vec(x) => T::vec(conv(x, env)),
        TypeInner::Record(fs) => T::rec(fs.iter().map(|f| (f.id.get_id(), conv(&f.ty, env))).collect()),
        TypeInner::Variant(fs) => T::variant(fs.iter().map(|f| (f.id.get_id(), conv(&f.ty, env))).collect()),
        TypeInner::Func(f) => T::Func(f.args.iter().map(|a| conv(a, env)).collect(), f.rets.iter().map(|a| conv(a, env)).collect(),
            f.modes.iter().map(|m| match m { candid::types::FuncMode::Query => 1, candid::types::FuncMode::Oneway => 2, _ => 3 }).collect()),
        TypeInner::Service(ms) => T::serv(ms.iter().map(|(n, t)| (n.clone(), conv(t, env))).collect()),
        _ => T::from_type(t),
    }
}
pub fn type_of<X: CandidType>() -> (Env, T, TypeEnv, Type) {
    let mut env: Env = vec![];
    let t = conv(&X::ty(), &mut env);
    let tenv = crate::ty::to_env(&env);
    let ty = t.to_type();
    (env, t, tenv, ty)
}

fn value_of<X: CandidType>(x: &X) -> Result<V, String> {
    let b = candid::encode_one(x).map_err(|e| format!("encode: {}", e))?;
    let a = IDLArgs::from_bytes(&b).map_err(|e| format!("untyped decode of own encoding: {}", e))?;
    if a.args.len() != 1 { return Err("arity".into()); }
    Ok(V::from_idl(&a.args[0]))
}

fn decode_cfg<'a, X>(b: &'a [u8], cfg: &DecoderConfig) -> candid::Result<(X, DecoderConfig)>
where X: CandidType + Deserialize<'a> {
    let mut de = IDLDeserialize::new_with_config(b, cfg)?;
    let x = de.get_value::<X>()?;
    de.done()?;
    let c = de.get_config().compute_cost(cfg);
    Ok((x, c))
}
fn is_quota(e: &candid::Error) -> bool { format!("{:?}", e).contains("exceeds the limit") }

fn native_op<X>(op: &str, a: &[&str]) -> String
where X: CandidType + for<'de> Deserialize<'de> + Debug + PartialEq {
    match op {
        // native decoding of a message, as an abstract value: compared with the specification's decoder at X's type
        "c08.native" | "m.c08.native" => {
            let b = sx::unhex(a[2]);
            match decode_cfg::<X>(&b, &DecoderConfig::new()) {
                Ok((x, _)) => match value_of(&x) { Ok(v) => format!("(ok {})", v.sx()), Err(e) => format!("(reencode-failed {})", e) },
                Err(_) => "(err)".into(),
            }
        }
        // the native encoding of the decoded value: the model checks that it is a well-formed message of that value at X's type
        "c01.wf" => {
            let vs: Vec<V> = sx::parse(a[2]).list().iter().map(V::from_sx).collect();
            let (env, t, _, _) = type_of::<X>();
            let msg = crate::val::message(&env, &[t], &vs, 0);
            match decode_cfg::<X>(&msg, &DecoderConfig::new()) {
                Ok((x, _)) => match candid::encode_one(&x) {
                    Ok(b2) => if sx::hex(&b2) == a[3] { "(ok)".into() } else { "(bytes-changed-or-nondeterministic)".into() },
                    Err(_) => if a[3] == "err" { "(err)".into() } else { "(bytes-changed-or-nondeterministic)".into() },
                },
                Err(_) => if a[3] == "err" { "(err)".into() } else { "(bytes-changed-or-nondeterministic)".into() },
            }
        }
        // the type environment exported for X (TypeContainer, what export_service! uses) printed as .did text parses, checks, and
        // every definition and the service are equal to the exported ones; printing is deterministic
        "p.c12.export" => {
            use candid::types::{Type, TypeInner, Function};
            let mut tc = candid::types::internal::TypeContainer::new();
            let t = tc.add::<X>();
            let f: Type = TypeInner::Func(Function { modes: vec![], args: vec![t.clone()], rets: vec![t.clone(), TypeInner::Opt(t).into()] }).into();
            let svc: Type = TypeInner::Service(vec![("m".to_string(), f)]).into();
            let printed = candid::pretty::candid::compile(&tc.env, &Some(svc.clone()));
            if printed != candid::pretty::candid::compile(&tc.env, &Some(svc.clone())) { return "FAIL printing is not deterministic".into(); }
            match crate::ops::c12::load(&printed) {
                Err(e) => format!("FAIL exported interface does not check: {} :: {}", e, printed),
                Ok(re) => match crate::ops::c12::same_program(&(tc.env.clone(), Some(svc)), &re) { Ok(()) => "ok".into(), Err(e) => format!("FAIL exported interface changes when printed and re-checked: {} :: {}", e, printed) },
            }
        }
        "encode_of" => {
            // helper for the generator: hex of the native encoding of the value decoded from message a[0], or "err"
            let b = sx::unhex(a[0]);
            match decode_cfg::<X>(&b, &DecoderConfig::new()) { Ok((x, _)) => candid::encode_one(&x).map(|b| sx::hex(&b)).unwrap_or("err".into()), Err(_) => "err".into() }
        }
        // v -> x -> bytes -> x' : x' = x, nothing left unread, and the bytes are stable
        "p.c01.roundtrip" => {
            let b = sx::unhex(a[0]);
            let x = match decode_cfg::<X>(&b, &DecoderConfig::new()) { Ok((x, _)) => x, Err(e) => return format!("FAIL cannot decode the independent message: {}", e) };
            let b2 = match candid::encode_one(&x) { Ok(b) => b, Err(e) => return format!("FAIL encode: {}", e) };
            let x2 = match decode_cfg::<X>(&b2, &DecoderConfig::new()) { Ok((x, _)) => x, Err(e) => return format!("FAIL decode of own encoding: {}", e) };
            let b3 = match candid::encode_one(&x2) { Ok(b) => b, Err(e) => return format!("FAIL re-encode: {}", e) };
            if b3 != b2 { return "FAIL bytes differ after a round trip".into(); }
            let nan = format!("{:?}", x).contains("NaN");
            if !nan && x2 != x { return format!("FAIL decoded value differs: {:?} vs {:?}", x, x2); }
            // through Decode!/Encode! macros and decode_one as well
            match candid::decode_one::<X>(&b2) { Ok(x3) => if !nan && x3 != x { return "FAIL decode_one differs".into(); }, Err(e) => return format!("FAIL decode_one: {}", e) }
            match (value_of(&x), value_of(&x2)) { (Ok(v1), Ok(v2)) if v1 == v2 => "ok".into(), (a, b) => format!("FAIL abstract values differ {:?} {:?}", a, b) }
        }
        // a trace of everything observable about one encode/decode, used to compare histories
        "trace" => {
            // the OUTCOME of one decode + encode + decode: success, the abstract value, and whether the round trip returns it.
            // (The bytes and the printed type may legitimately depend on what was derived before: a recursive type is unrolled from
            // wherever the derivation entered it; they denote the same type.)
            let b = sx::unhex(a[0]);
            match decode_cfg::<X>(&b, &DecoderConfig::new()) {
                Ok((x, _)) => {
                    let v = value_of(&x).map(|v| v.sx()).unwrap_or_else(|e| format!("reencode-failed {}", e));
                    let rt = match candid::encode_one(&x).ok().and_then(|b2| decode_cfg::<X>(&b2, &DecoderConfig::new()).ok()) { Some((x2, _)) => x2 == x || format!("{:?}", x).contains("NaN"), None => false };
                    format!("dec=ok roundtrip={} value={}", rt, v)
                }
                Err(_) => "dec=err".to_string(),
            }
        }
        // native decoding succeeds exactly when untyped decoding at X's type does, with the same abstract value
        "p.c08.agree" | "p.c08.agree.empty-vec-at-map" | "p.c08.agree.map-entry-shape" | "p.c08.agree.empty-vec-at-bytes" => {
            let b = sx::unhex(a[0]);
            let (_, _, tenv, ty) = type_of::<X>();
            let native = decode_cfg::<X>(&b, &DecoderConfig::new()).map(|(x, _)| value_of(&x));
            let untyped = IDLArgs::from_bytes_with_types(&b, &tenv, &[ty]);
            match (native, untyped) {
                (Ok(Ok(v)), Ok(u)) => if u.args.len() == 1 && V::from_idl(&u.args[0]) == v { "ok".into() } else { format!("FAIL values differ: native {} untyped {}", v.sx(), u) },
                (Ok(Err(e)), _) => format!("FAIL {}", e),
                (Err(_), Err(_)) => "ok".into(),
                (Ok(Ok(v)), Err(e)) => format!("FAIL native accepts {} but untyped rejects: {}", v.sx(), e),
                (Err(e), Ok(u)) => format!("FAIL native rejects ({}) but untyped accepts {}", e, u),
            }
        }
        // bounded vectors, fixed arrays and 128-bit integers have host limits: native may reject what untyped accepts, never the converse,
        // and when both accept the values agree
        "p.c08.agree.limits" => {
            let b = sx::unhex(a[0]);
            let (_, _, tenv, ty) = type_of::<X>();
            let native = decode_cfg::<X>(&b, &DecoderConfig::new()).map(|(x, _)| value_of(&x));
            let untyped = IDLArgs::from_bytes_with_types(&b, &tenv, &[ty]);
            match (native, untyped) {
                (Ok(Ok(v)), Ok(u)) => if u.args.len() == 1 && V::from_idl(&u.args[0]) == v { "ok".into() } else { format!("FAIL values differ: native {} untyped {}", v.sx(), u) },
                (Ok(Err(e)), _) => format!("FAIL {}", e),
                (Err(_), _) => "ok".into(),
                (Ok(Ok(v)), Err(e)) => format!("FAIL native accepts {} but untyped rejects: {}", v.sx(), e),
            }
        }
        // arbitrary bytes: a value or an error (a panic is caught by the caller and reported), under any configuration
        "p.c06.fuzz" => {
            let b = sx::unhex(a[0]);
            let mut cfg = config(crate::ops::c07::quota_of(a[1]), crate::ops::c07::quota_of(a[2]));
            cfg.set_full_error_message(a[3] == "1");
            let r = decode_cfg::<X>(&b, &cfg);
            if let Ok((x, _)) = &r { let _ = candid::encode_one(x); }
            if a[1] == "-" { let _ = candid::decode_one::<X>(&b); }
            "ok".into()
        }
        // the cost reported by the public entry points: decode_args_with_config_debug reports what IDLDeserialize charged
        // (surplus arguments included), quotas equal to the reported cost suffice, one unit less on either does not
        "p.c07.api" => {
            let b = sx::unhex(a[0]);
            let cfg = config(Some(1 << 50), Some(1 << 50));
            let direct = decode_cfg::<X>(&b, &cfg);
            let api = candid::utils::decode_args_with_config_debug::<(X,)>(&b, &cfg);
            match (direct, api) {
                (Ok((x, c)), Ok(((y,), c2))) => {
                    if x != y && !format!("{:?}", x).contains("NaN") { return "FAIL values differ".into(); }
                    if c.decoding_quota != c2.decoding_quota || c.skipping_quota != c2.skipping_quota { return format!("FAIL reported cost {:?}/{:?} differs from the cost charged {:?}/{:?}", c2.decoding_quota, c2.skipping_quota, c.decoding_quota, c.skipping_quota); }
                    let (d, s) = (c2.decoding_quota.unwrap(), c2.skipping_quota.unwrap());
                    if candid::utils::decode_args_with_config::<(X,)>(&b, &config(Some(d), Some(s))).is_err() { return "FAIL quotas equal to the reported cost do not suffice".into(); }
                    if d > 0 && candid::utils::decode_args_with_config::<(X,)>(&b, &config(Some(d - 1), Some(s))).is_ok() { return "FAIL decoding quota below the reported cost suffices".into(); }
                    if s > 0 && candid::utils::decode_args_with_config::<(X,)>(&b, &config(Some(d), Some(s - 1))).is_ok() { return "FAIL skipping quota below the reported cost suffices".into(); }
                    if candid::utils::decode_one_with_config::<X>(&b, &config(Some(d), Some(s))).is_err() { return "FAIL decode_one_with_config under the reported cost".into(); }
                    "ok".into()
                }
                (Err(_), Err(_)) => "ok".into(),
                (Ok(_), Err(e)) => format!("FAIL the API rejects what IDLDeserialize accepts: {}", e),
                (Err(e), Ok(_)) => format!("FAIL the API accepts what IDLDeserialize rejects: {}", e),
            }
        }
        // the quota laws of C07 for native decoding
        "p.c07.native" => {
            let b = sx::unhex(a[0]);
            laws(&|qd, qs| match decode_cfg::<X>(&b, &config(qd, qs)) {
                Ok((x, c)) => match value_of(&x) { Ok(v) => Out::Ok(vec![v], c.decoding_quota, c.skipping_quota), Err(_) => Out::Err },
                Err(e) => if is_quota(&e) { Out::Quota } else { Out::Err },
            })
        }
        // two arguments of X's type on one IDLDeserialize: what the SECOND, natively decoded argument costs (both counters)
        // does not depend on whether the first was read natively or as an untyped IDLValue
        "p.c07.mixed" => {
            let vs: Vec<V> = sx::parse(a[0]).list().iter().map(V::from_sx).collect();
            if vs.len() != 1 { return "ok".into(); }
            let (env, t, _, _) = type_of::<X>();
            let msg = crate::val::message(&env, &[t.clone(), t], &[vs[0].clone(), vs[0].clone()], 0);
            let cfg = config(Some(1 << 40), Some(1 << 40));
            let run = |untyped_first: bool| -> Result<(usize, usize), String> {
                let mut de = IDLDeserialize::new_with_config(&msg, &cfg).map_err(|e| e.to_string())?;
                if untyped_first { de.get_value::<candid::types::value::IDLValue>().map_err(|e| e.to_string())?; } else { de.get_value::<X>().map_err(|e| e.to_string())?; }
                let c1 = de.get_config().compute_cost(&cfg);
                de.get_value::<X>().map_err(|e| e.to_string())?;
                let c2 = de.get_config().compute_cost(&cfg);
                de.done().map_err(|e| e.to_string())?;
                Ok((c2.decoding_quota.unwrap_or(0) - c1.decoding_quota.unwrap_or(0), c2.skipping_quota.unwrap_or(0) - c1.skipping_quota.unwrap_or(0)))
            };
            match (run(false), run(true)) {
                (Ok(n), Ok(u)) => if n == u { "ok".into() } else { format!("FAIL the second argument costs {:?} after a native first argument and {:?} after an untyped one", n, u) },
                (Err(_), Err(_)) => "ok".into(),
                (Ok(_), Err(e)) => format!("FAIL decodes after a native first argument but not after an untyped one: {}", e),
                (Err(e), Ok(_)) => format!("FAIL decodes after an untyped first argument but not after a native one: {}", e),
            }
        }
        _ => format!("(unknown-native-op {})", op),
    }
}

macro_rules! corpus {
    ($($name:literal => $t:ty),* $(,)?) => {
        pub const NAMES: &[&str] = &[$($name),*];
        pub fn dispatch(name: &str, op: &str, a: &[&str]) -> Option<String> {
            match name { $($name => Some(native_op::<$t>(op, a)),)* _ => None }
        }
        pub fn types(name: &str) -> Option<(Env, T)> {
            match name { $($name => { let (e, t, _, _) = type_of::<$t>(); Some((e, t)) })* _ => None }
        }
    };
}

corpus! {
    "bool" => bool, "u8" => u8, "u16" => u16, "u32" => u32, "u64" => u64, "i8" => i8, "i16" => i16, "i32" => i32, "i64" => i64,
    "f32" => f32, "f64" => f64, "u128" => u128, "i128" => i128, "Nat" => Nat, "Int" => Int, "String" => String, "unit" => (),
    "Principal" => Principal, "Reserved" => Reserved,
    "Opt<Nat>" => Option<Nat>, "Opt<Opt<Int>>" => Option<Option<Int>>, "Opt<String>" => Option<String>, "Opt<Vec<u8>>" => Option<Vec<u8>>,
    "Vec<bool>" => Vec<bool>, "Vec<u8>" => Vec<u8>, "Vec<u16>" => Vec<u16>, "Vec<u32>" => Vec<u32>, "Vec<u64>" => Vec<u64>,
    "Vec<i8>" => Vec<i8>, "Vec<i16>" => Vec<i16>, "Vec<i32>" => Vec<i32>, "Vec<i64>" => Vec<i64>, "Vec<f32>" => Vec<f32>, "Vec<f64>" => Vec<f64>,
    "Vec<Nat>" => Vec<Nat>, "Vec<Int>" => Vec<Int>, "Vec<String>" => Vec<String>, "Vec<unit>" => Vec<()>, "Vec<Reserved>" => Vec<Reserved>,
    "Vec<Principal>" => Vec<Principal>, "Vec<Opt<Nat>>" => Vec<Option<Nat>>, "Vec<Vec<Nat>>" => Vec<Vec<Nat>>, "Vec<Vec<u8>>" => Vec<Vec<u8>>,
    "Vec<u128>" => Vec<u128>, "Vec<(Nat,Int)>" => Vec<(Nat, Int)>, "Vec<UnitS>" => Vec<UnitS>, "Vec<NewtNat>" => Vec<NewtNat>, "Vec<NewtU32>" => Vec<NewtU32>,
    "VecDeque<Int>" => VecDeque<Int>, "BTreeSet<Nat>" => BTreeSet<Nat>, "BTreeSet<String>" => BTreeSet<String>,
    "Map<String,Nat>" => BTreeMap<String, Nat>, "Map<String,String>" => BTreeMap<String, String>, "Map<String,Int>" => BTreeMap<String, Int>,
    "Map<Int,Nat>" => BTreeMap<Int, Nat>, "Map<Nat,Int>" => BTreeMap<Nat, Int>, "Map<Nat,Nat>" => BTreeMap<Nat, Nat>, "Map<Int,Int>" => BTreeMap<Int, Int>,
    "Map<Principal,Int>" => BTreeMap<Principal, Int>, "Map<u8,String>" => BTreeMap<u8, String>, "Map<i64,Nat>" => BTreeMap<i64, Nat>,
    "Map<String,Vec<u8>>" => BTreeMap<String, Vec<u8>>, "Map<String,Map<Int,Nat>>" => BTreeMap<String, BTreeMap<Int, Nat>>,
    "Map<Int,Map<String,Nat>>" => BTreeMap<Int, BTreeMap<String, Nat>>, "Map<String,Opt<Nat>>" => BTreeMap<String, Option<Nat>>,
    "Map<Nat,Vec<Int>>" => BTreeMap<Nat, Vec<Int>>, "Map<(Nat,Int),Nat>" => BTreeMap<(Nat, Int), Nat>, "Map<String,Pair>" => BTreeMap<String, Pair>,
    "(Nat,Int)" => (Nat, Int), "(u8,String,Opt<Nat>)" => (u8, String, Option<Nat>), "[u8;4]" => [u8; 4], "[Nat;2]" => [Nat; 2], "[u32;3]" => [u32; 3],
    "Box<Nat>" => Box<Nat>, "ByteBuf" => serde_bytes::ByteBuf, "Result<Nat,String>" => std::result::Result<Nat, String>,
    "Pair" => Pair, "Renamed" => Renamed, "Tup" => Tup, "Newt" => Newt, "UnitS" => UnitS, "Shape" => Shape, "Color" => Color,
    "Gen<Nat,Int>" => Gen<Nat, Int>, "Gen<u8,Pair>" => Gen<u8, Pair>, "List" => List, "Tree" => Tree, "Rose" => Rose, "WithOpts" => WithOpts,
    "Wide" => Wide, "Floats" => Floats, "Refs" => Refs, "Maps" => Maps, "Nested" => Nested, "Big128" => Big128, "Bytes" => Bytes, "Res2" => Res2,
    "RawIds" => RawIds, "RawEnum" => RawEnum, "Vec<RawEnum>" => Vec<RawEnum>,
    "Boxes" => Boxes, "Mutual1" => Mutual1, "Mutual2" => Mutual2, "Vec<Shape>" => Vec<Shape>, "Opt<List>" => Option<List>, "Vec<Tree>" => Vec<Tree>,
    "Opt<Box<List>>" => Option<Box<List>>, "Vec<Opt<Box<List>>>" => Vec<Option<Box<List>>>, "Gen<Opt<Box<List>>,Tree>" => Gen<Option<Box<List>>, Tree>,
    "Box<Tree>" => Box<Tree>, "Opt<Box<Mutual2>>" => Option<Box<Mutual2>>, "Vec<Rose>" => Vec<Rose>, "(Vec<Nat>,Int)" => (Vec<Nat>, Int),
    "(BTreeSet<Nat>,Int,Vec<Int>,Nat)" => (BTreeSet<Nat>, Int, Vec<Int>, Nat), "(Vec<u8>,u8,Vec<u64>,i64)" => (Vec<u8>, u8, Vec<u64>, i64),
    "BV3" => BV3, "BVT" => BVT, "BVE" => BVE, "BVU" => BVU, "FnRef" => FnRef, "SvRef" => SvRef, "Vec<FnRef>" => Vec<FnRef>,
    "SvMany" => SvMany, "Opt<SvMany>" => Option<SvMany>,
    "Donnees" => Données, "Etat" => État, "Gen<Etat,Donnees>" => Gen<État, Données>, "Vec<Etat>" => Vec<État>, "RawType" => r#type,
}

/// corpus types with host limits beyond the Candid type (128-bit integers, bounded vectors, fixed-size arrays)
/// two DISTINCT types whose std::any::type_name coincide (types local to sibling blocks of one function): each round-trips,
/// both in one message, and one after the other on the same thread -- type identity must not go by the printed name
pub fn same_name() -> String {
    fn check<A, B>(a: A, b: B) -> Result<(), String>
    where A: CandidType + for<'d> Deserialize<'d> + PartialEq + Debug + Clone, B: CandidType + for<'d> Deserialize<'d> + PartialEq + Debug + Clone {
        if std::any::type_name::<A>() != std::any::type_name::<B>() { return Err("the two local types do not share a type_name (the case is void)".into()); }
        let m = candid::encode_args((a.clone(), b.clone())).map_err(|e| format!("encode both: {}", e))?;
        let (a2, b2): (A, B) = candid::decode_args(&m).map_err(|e| format!("both in one message: {}", e))?;
        if a2 != a || b2 != b { return Err("both in one message: values differ".into()); }
        let (ma, mb) = (candid::encode_one(&a).map_err(|e| e.to_string())?, candid::encode_one(&b).map_err(|e| e.to_string())?);
        let b3: B = candid::decode_one(&mb).map_err(|e| format!("B alone: {}", e))?;
        let a3: A = candid::decode_one(&ma).map_err(|e| format!("A after B was decoded: {}", e))?;
        let b4: B = candid::decode_one(&mb).map_err(|e| format!("B after A was decoded: {}", e))?;
        if a3 != a || b3 != b || b4 != b { return Err("one after the other: values differ".into()); }
        let (m2, _) = (candid::encode_args((b.clone(), a.clone())).map_err(|e| format!("encode both, other order: {}", e))?, ());
        let (b5, a5): (B, A) = candid::decode_args(&m2).map_err(|e| format!("both in one message, other order: {}", e))?;
        if a5 != a || b5 != b { return Err("other order: values differ".into()); }
        Ok(())
    }
    let a = { #[derive(CandidType, Deserialize, Debug, PartialEq, Clone)] struct Sample { x: u8, y: String } Sample { x: 7, y: "seven".into() } };
    let b = { #[derive(CandidType, Deserialize, Debug, PartialEq, Clone)] struct Sample { flag: bool, items: Vec<Int>, next: Option<Nat> } Sample { flag: true, items: vec![Int::from(-3), Int::from(4)], next: Some(Nat::from(9u32)) } };
    let c = { #[derive(CandidType, Deserialize, Debug, PartialEq, Clone)] enum Sample { A, B(u16) } Sample::B(515) };
    match check(a.clone(), b.clone()).and_then(|_| check(b, c.clone())).and_then(|_| check(c, a)) { Ok(()) => "ok".into(), Err(e) => format!("FAIL {}", e) }
}

pub fn has_host_limits(name: &str) -> bool {
    name.contains("128") || name.starts_with("BV") || name.starts_with('[') || name == "Nested"
}

// ---------------------------------------------------------------------------------------------------------
// borrowed types: the value borrows from the message, so the generic entry (which needs DeserializeOwned) does not fit
pub fn borrowed(name: &str, op: &str, a: &[&str]) -> Option<String> {
    let b = sx::unhex(a[0]);
    fn agree<'a, X: CandidType + Deserialize<'a>>(b: &'a [u8], show: &dyn Fn(&X) -> V, ty: Type) -> String {
        let native = decode_cfg::<X>(b, &DecoderConfig::new()).map(|(x, _)| show(&x));
        let untyped = IDLArgs::from_bytes_with_types(b, &TypeEnv::new(), &[ty]);
        match (native, untyped) {
            (Ok(v), Ok(u)) => if u.args.len() == 1 && V::from_idl(&u.args[0]) == v { "ok".into() } else { format!("FAIL values differ: native {} untyped {}", v.sx(), u) },
            (Err(_), Err(_)) => "ok".into(),
            (Ok(v), Err(e)) => format!("FAIL native accepts {} but untyped rejects: {}", v.sx(), e),
            (Err(e), Ok(u)) => format!("FAIL native rejects ({}) but untyped accepts {}", e, u),
        }
    }
    if op == "p.c06.fuzz" {
        let _ = match name {
            "&[u8]" => decode_cfg::<&[u8]>(&b, &DecoderConfig::new()).map(|_| ()),
            "&str" => decode_cfg::<&str>(&b, &DecoderConfig::new()).map(|_| ()),
            _ => return None,
        };
        return Some("ok".into());
    }
    if op != "p.c08.agree" && op != "p.c08.agree.empty-vec-at-bytes" { return None; }
    let bytes_v = |x: &[u8]| V::Vec(x.iter().map(|b| V::NatN(8, *b as u64)).collect());
    Some(match name {
        "&[u8]" => agree::<&[u8]>(&b, &|x| bytes_v(x), <&[u8]>::ty()),
        "&str" => agree::<&str>(&b, &|x| V::Text(x.as_bytes().to_vec()), <&str>::ty()),
        "&Bytes" => agree::<&serde_bytes::Bytes>(&b, &|x| bytes_v(x), <&serde_bytes::Bytes>::ty()),
        "Cow<str>" => agree::<std::borrow::Cow<str>>(&b, &|x| V::Text(x.as_bytes().to_vec()), <std::borrow::Cow<str>>::ty()),
        _ => return None,
    })
}
pub const BORROWED: &[&str] = &["&[u8]", "&str", "&Bytes", "Cow<str>"];
pub fn borrowed_type(name: &str) -> T { match name { "&[u8]" | "&Bytes" => T::vec(T::p("nat8")), _ => T::p("text") } }

pub fn show_vals(vs: &[V]) -> String { if vs.is_empty() { "(ok)".into() } else { format!("(ok {})", vals_sx(vs)) } }
