//! The harness's own type AST: generated here, converted to candid `Type`s, to the model's s-expressions
//! (DESIGN.md Appendix D) and to .did source text.
use crate::rng::Rng;
use crate::sx::{self, Sx};
use candid::types::{Field, FuncMode, Function, Label, Type, TypeInner};
use candid::TypeEnv;

#[derive(Clone, Debug, PartialEq, Eq, Hash, PartialOrd, Ord)]
pub enum T {
    Prim(&'static str),
    Var(String),
    Opt(Box<T>),
    Vec(Box<T>),
    Rec(Vec<(u32, T)>),
    Variant(Vec<(u32, T)>),
    Func(Vec<T>, Vec<T>, Vec<u8>), // modes: 1 query, 2 oneway, 3 composite_query
    Serv(Vec<(String, T)>),
    Class(Vec<T>, Box<T>),
}
pub type Env = Vec<(String, T)>;

pub const PRIMS: &[&str] = &["null", "bool", "nat", "int", "nat8", "nat16", "nat32", "nat64", "int8", "int16", "int32", "int64",
    "float32", "float64", "text", "reserved", "empty", "principal"];

impl T {
    pub fn p(s: &'static str) -> T { T::Prim(s) }
    pub fn var(s: &str) -> T { T::Var(s.to_string()) }
    pub fn opt(t: T) -> T { T::Opt(Box::new(t)) }
    pub fn vec(t: T) -> T { T::Vec(Box::new(t)) }
    pub fn rec(mut fs: Vec<(u32, T)>) -> T { fs.sort_by_key(|f| f.0); T::Rec(fs) }
    pub fn variant(mut fs: Vec<(u32, T)>) -> T { fs.sort_by_key(|f| f.0); T::Variant(fs) }
    pub fn serv(mut ms: Vec<(String, T)>) -> T { ms.sort_by(|a, b| a.0.cmp(&b.0)); T::Serv(ms) }

    pub fn to_type(&self) -> Type {
        match self {
            T::Prim(p) => match *p {
                "null" => TypeInner::Null, "bool" => TypeInner::Bool, "nat" => TypeInner::Nat, "int" => TypeInner::Int,
                "nat8" => TypeInner::Nat8, "nat16" => TypeInner::Nat16, "nat32" => TypeInner::Nat32, "nat64" => TypeInner::Nat64,
                "int8" => TypeInner::Int8, "int16" => TypeInner::Int16, "int32" => TypeInner::Int32, "int64" => TypeInner::Int64,
                "float32" => TypeInner::Float32, "float64" => TypeInner::Float64, "text" => TypeInner::Text,
                "reserved" => TypeInner::Reserved, "empty" => TypeInner::Empty, "principal" => TypeInner::Principal,
                x => panic!("prim {}", x),
            }.into(),
            T::Var(x) => TypeInner::Var(x.clone()).into(),
            T::Opt(t) => TypeInner::Opt(t.to_type()).into(),
            T::Vec(t) => TypeInner::Vec(t.to_type()).into(),
            T::Rec(fs) => TypeInner::Record(fs.iter().map(|(i, t)| Field { id: Label::Id(*i).into(), ty: t.to_type() }).collect()).into(),
            T::Variant(fs) => TypeInner::Variant(fs.iter().map(|(i, t)| Field { id: Label::Id(*i).into(), ty: t.to_type() }).collect()).into(),
            T::Func(a, r, m) => TypeInner::Func(Function {
                args: a.iter().map(|t| t.to_type()).collect(), rets: r.iter().map(|t| t.to_type()).collect(),
                modes: m.iter().map(|x| match x { 1 => FuncMode::Query, 2 => FuncMode::Oneway, _ => FuncMode::CompositeQuery }).collect(),
            }).into(),
            T::Serv(ms) => TypeInner::Service(ms.iter().map(|(n, t)| (n.clone(), t.to_type())).collect()).into(),
            T::Class(a, t) => TypeInner::Class(a.iter().map(|t| t.to_type()).collect(), t.to_type()).into(),
        }
    }
    pub fn from_type(t: &Type) -> T {
        match t.as_ref() {
            TypeInner::Null => T::p("null"), TypeInner::Bool => T::p("bool"), TypeInner::Nat => T::p("nat"), TypeInner::Int => T::p("int"),
            TypeInner::Nat8 => T::p("nat8"), TypeInner::Nat16 => T::p("nat16"), TypeInner::Nat32 => T::p("nat32"), TypeInner::Nat64 => T::p("nat64"),
            TypeInner::Int8 => T::p("int8"), TypeInner::Int16 => T::p("int16"), TypeInner::Int32 => T::p("int32"), TypeInner::Int64 => T::p("int64"),
            TypeInner::Float32 => T::p("float32"), TypeInner::Float64 => T::p("float64"), TypeInner::Text => T::p("text"),
            TypeInner::Reserved => T::p("reserved"), TypeInner::Empty => T::p("empty"), TypeInner::Principal => T::p("principal"),
            TypeInner::Var(x) => T::Var(x.clone()),
            TypeInner::Opt(t) => T::opt(T::from_type(t)),
            TypeInner::Vec(t) => T::vec(T::from_type(t)),
            TypeInner::Record(fs) => T::Rec(fs.iter().map(|f| (f.id.get_id(), T::from_type(&f.ty))).collect()),
            TypeInner::Variant(fs) => T::Variant(fs.iter().map(|f| (f.id.get_id(), T::from_type(&f.ty))).collect()),
            TypeInner::Func(f) => T::Func(f.args.iter().map(T::from_type).collect(), f.rets.iter().map(T::from_type).collect(),
                f.modes.iter().map(|m| match m { FuncMode::Query => 1, FuncMode::Oneway => 2, FuncMode::CompositeQuery => 3 }).collect()),
            TypeInner::Service(ms) => T::Serv(ms.iter().map(|(n, t)| (n.clone(), T::from_type(t))).collect()),
            TypeInner::Class(a, t) => T::Class(a.iter().map(T::from_type).collect(), Box::new(T::from_type(t))),
            TypeInner::Future => T::Prim("future"),
            TypeInner::Unknown => T::Prim("unknown"),
            TypeInner::Knot(_) => T::Prim("knot"),
        }
    }
    pub fn sx(&self) -> String {
        let l = |v: &Vec<T>| v.iter().map(|t| t.sx()).collect::<Vec<_>>().join(" ");
        match self {
            T::Prim(p) => p.to_string(),
            T::Var(x) => format!("(var {})", sx::hex(x.as_bytes())),
            T::Opt(t) => format!("(opt {})", t.sx()),
            T::Vec(t) => format!("(vec {})", t.sx()),
            T::Rec(fs) => format!("(rec{})", fs.iter().map(|(i, t)| format!(" ({} {})", i, t.sx())).collect::<String>()),
            T::Variant(fs) => format!("(variant{})", fs.iter().map(|(i, t)| format!(" ({} {})", i, t.sx())).collect::<String>()),
            T::Func(a, r, m) => format!("(func ({}) ({}) ({}))", l(a), l(r), m.iter().map(|x| x.to_string()).collect::<Vec<_>>().join(" ")),
            T::Serv(ms) => format!("(serv{})", ms.iter().map(|(n, t)| format!(" ({} {})", sx::hex(n.as_bytes()), t.sx())).collect::<String>()),
            T::Class(a, t) => format!("(class ({}) {})", l(a), t.sx()),
        }
    }
    pub fn from_sx(s: &Sx) -> T {
        match s {
            Sx::A(a) => T::Prim(PRIMS.iter().find(|p| **p == a.as_str()).copied().unwrap_or_else(|| panic!("prim {}", a))),
            Sx::L(_) => {
                let a = s.args();
                let fields = |a: &[Sx]| a.iter().map(|f| (f.list()[0].atom().parse::<u32>().unwrap(), T::from_sx(&f.list()[1]))).collect::<Vec<_>>();
                let tys = |x: &Sx| x.list().iter().map(T::from_sx).collect::<Vec<_>>();
                match s.head() {
                    "var" => T::Var(String::from_utf8(sx::unhex(a[0].atom())).unwrap()),
                    "opt" => T::opt(T::from_sx(&a[0])),
                    "vec" => T::vec(T::from_sx(&a[0])),
                    "rec" => T::Rec(fields(a)),
                    "variant" => T::Variant(fields(a)),
                    "func" => T::Func(tys(&a[0]), tys(&a[1]), a[2].list().iter().map(|m| m.atom().parse().unwrap()).collect()),
                    "serv" => T::Serv(a.iter().map(|f| (String::from_utf8(sx::unhex(f.list()[0].atom())).unwrap(), T::from_sx(&f.list()[1]))).collect()),
                    "class" => T::Class(tys(&a[0]), Box::new(T::from_sx(&a[1]))),
                    h => panic!("type head {}", h),
                }
            }
        }
    }
    /// Candid source text
    pub fn did(&self) -> String {
        let l = |v: &Vec<T>| v.iter().map(|t| t.did()).collect::<Vec<_>>().join(", ");
        match self {
            T::Prim(p) => p.to_string(),
            T::Var(x) => x.clone(),
            T::Opt(t) => format!("opt {}", t.did()),
            T::Vec(t) => format!("vec {}", t.did()),
            T::Rec(fs) => format!("record {{ {} }}", fs.iter().map(|(i, t)| format!("{} : {}", i, t.did())).collect::<Vec<_>>().join("; ")),
            T::Variant(fs) => format!("variant {{ {} }}", fs.iter().map(|(i, t)| format!("{} : {}", i, t.did())).collect::<Vec<_>>().join("; ")),
            T::Func(a, r, m) => format!("func ({}) -> ({}){}", l(a), l(r), m.iter().map(|x| match x { 1 => " query", 2 => " oneway", _ => " composite_query" }).collect::<String>()),
            T::Serv(ms) => format!("service {}", T::did_methods(ms)),
            T::Class(a, t) => format!("({}) -> {}", l(a), match t.as_ref() { T::Serv(ms) => T::did_methods(ms), o => o.did() }),
        }
    }
    fn did_methods(ms: &[(String, T)]) -> String {
        format!("{{ {} }}", ms.iter().map(|(n, t)| format!("\"{}\" : {}", n, match t { T::Func(..) => t.did()[5..].to_string(), o => o.did() })).collect::<Vec<_>>().join("; "))
    }
    pub fn size(&self) -> usize {
        1 + match self {
            T::Opt(t) | T::Vec(t) => t.size(),
            T::Rec(fs) | T::Variant(fs) => fs.iter().map(|f| f.1.size()).sum(),
            T::Func(a, r, _) => a.iter().chain(r.iter()).map(|t| t.size()).sum(),
            T::Serv(ms) => ms.iter().map(|m| m.1.size()).sum(),
            T::Class(a, t) => a.iter().map(|t| t.size()).sum::<usize>() + t.size(),
            _ => 0,
        }
    }
    pub fn mentions_var(&self) -> bool {
        match self {
            T::Var(_) => true,
            T::Opt(t) | T::Vec(t) => t.mentions_var(),
            T::Rec(fs) | T::Variant(fs) => fs.iter().any(|f| f.1.mentions_var()),
            T::Func(a, r, _) => a.iter().chain(r.iter()).any(|t| t.mentions_var()),
            T::Serv(ms) => ms.iter().any(|m| m.1.mentions_var()),
            T::Class(a, t) => a.iter().any(|t| t.mentions_var()) || t.mentions_var(),
            _ => false,
        }
    }
    pub fn has_opt(&self) -> bool {
        match self {
            T::Opt(_) => true,
            T::Vec(t) => t.has_opt(),
            T::Rec(fs) | T::Variant(fs) => fs.iter().any(|f| f.1.has_opt()),
            T::Func(a, r, _) => a.iter().chain(r.iter()).any(|t| t.has_opt()),
            T::Serv(ms) => ms.iter().any(|m| m.1.has_opt()),
            T::Class(a, t) => a.iter().any(|t| t.has_opt()) || t.has_opt(),
            _ => false,
        }
    }
    /// the same type with the field lists of every record / variant and the method lists of every service in a random order
    /// (field order carries no meaning: `TypeInner::Record(Vec<Field>)` can be built in any order)
    pub fn shuffled(&self, r: &mut Rng) -> T {
        fn sh<X>(r: &mut Rng, mut v: Vec<X>) -> Vec<X> { for i in (1..v.len()).rev() { let j = r.below(i as u64 + 1) as usize; v.swap(i, j); } v }
        match self {
            T::Prim(_) | T::Var(_) => self.clone(),
            T::Opt(t) => T::Opt(Box::new(t.shuffled(r))),
            T::Vec(t) => T::Vec(Box::new(t.shuffled(r))),
            T::Rec(fs) => { let v = fs.iter().map(|(i, t)| (*i, t.shuffled(r))).collect(); T::Rec(sh(r, v)) }
            T::Variant(fs) => { let v = fs.iter().map(|(i, t)| (*i, t.shuffled(r))).collect(); T::Variant(sh(r, v)) }
            T::Func(a, rt, m) => T::Func(a.iter().map(|t| t.shuffled(r)).collect(), rt.iter().map(|t| t.shuffled(r)).collect(), m.clone()),
            T::Serv(ms) => { let v = ms.iter().map(|(n, t)| (n.clone(), t.shuffled(r))).collect(); T::Serv(sh(r, v)) }
            T::Class(a, t) => T::Class(a.iter().map(|t| t.shuffled(r)).collect(), Box::new(t.shuffled(r))),
        }
    }
    /// every occurrence of the sub-term `target` replaced by `with`
    pub fn replace_subterm(&self, target: &T, with: &T) -> T {
        if self == target { return with.clone(); }
        match self {
            T::Prim(_) | T::Var(_) => self.clone(),
            T::Opt(t) => T::Opt(Box::new(t.replace_subterm(target, with))),
            T::Vec(t) => T::Vec(Box::new(t.replace_subterm(target, with))),
            T::Rec(fs) => T::Rec(fs.iter().map(|(i, t)| (*i, t.replace_subterm(target, with))).collect()),
            T::Variant(fs) => T::Variant(fs.iter().map(|(i, t)| (*i, t.replace_subterm(target, with))).collect()),
            T::Func(a, rt, m) => T::Func(a.iter().map(|t| t.replace_subterm(target, with)).collect(), rt.iter().map(|t| t.replace_subterm(target, with)).collect(), m.clone()),
            T::Serv(ms) => T::Serv(ms.iter().map(|(n, t)| (n.clone(), t.replace_subterm(target, with))).collect()),
            T::Class(a, t) => T::Class(a.iter().map(|t| t.replace_subterm(target, with)).collect(), Box::new(t.replace_subterm(target, with))),
        }
    }
    /// proper composite sub-terms (not the type itself, no leaves)
    pub fn proper_subterms(&self) -> Vec<T> {
        fn go(t: &T, top: bool, out: &mut Vec<T>) {
            if !top && !matches!(t, T::Prim(_) | T::Var(_)) { out.push(t.clone()); }
            match t {
                T::Opt(x) | T::Vec(x) => go(x, false, out),
                T::Rec(fs) | T::Variant(fs) => for f in fs { go(&f.1, false, out) },
                T::Func(a, r, _) => for x in a.iter().chain(r.iter()) { go(x, false, out) },
                T::Serv(ms) => for m in ms { go(&m.1, false, out) },
                T::Class(a, x) => { for y in a { go(y, false, out) } go(x, false, out) }
                _ => {}
            }
        }
        let mut out = vec![]; go(self, true, &mut out); out
    }
    pub fn mentions(&self, name: &str) -> bool {
        match self {
            T::Var(x) => x == name,
            T::Prim(_) => false,
            T::Opt(t) | T::Vec(t) => t.mentions(name),
            T::Rec(fs) | T::Variant(fs) => fs.iter().any(|f| f.1.mentions(name)),
            T::Func(a, r, _) => a.iter().chain(r.iter()).any(|t| t.mentions(name)),
            T::Serv(ms) => ms.iter().any(|m| m.1.mentions(name)),
            T::Class(a, t) => a.iter().any(|t| t.mentions(name)) || t.mentions(name),
        }
    }
    pub fn rename(&self, f: &dyn Fn(&str) -> String) -> T {
        match self {
            T::Prim(_) => self.clone(),
            T::Var(x) => T::Var(f(x)),
            T::Opt(t) => T::opt(t.rename(f)),
            T::Vec(t) => T::vec(t.rename(f)),
            T::Rec(fs) => T::Rec(fs.iter().map(|(i, t)| (*i, t.rename(f))).collect()),
            T::Variant(fs) => T::Variant(fs.iter().map(|(i, t)| (*i, t.rename(f))).collect()),
            T::Func(a, r, m) => T::Func(a.iter().map(|t| t.rename(f)).collect(), r.iter().map(|t| t.rename(f)).collect(), m.clone()),
            T::Serv(ms) => T::Serv(ms.iter().map(|(n, t)| (n.clone(), t.rename(f))).collect()),
            T::Class(a, t) => T::Class(a.iter().map(|t| t.rename(f)).collect(), Box::new(t.rename(f))),
        }
    }
}

pub fn env_sx(e: &Env) -> String {
    format!("({})", e.iter().map(|(n, t)| format!("({} {})", sx::hex(n.as_bytes()), t.sx())).collect::<Vec<_>>().join(" "))
}
pub fn env_from_sx(s: &str) -> Env {
    sx::parse(s).list().iter().map(|d| (String::from_utf8(sx::unhex(d.list()[0].atom())).unwrap(), T::from_sx(&d.list()[1]))).collect()
}
pub fn to_env(e: &Env) -> TypeEnv {
    let mut te = TypeEnv::new();
    for (n, t) in e { te.0.insert(n.clone(), t.to_type()); }
    te
}
pub fn env_did(e: &Env) -> String { e.iter().map(|(n, t)| format!("type {} = {};\n", n, t.did())).collect() }

// ---------------------------------------------------------------------------------------------------------
// generators
pub struct GenCfg { pub max_depth: u32, pub refs: bool, pub var_bias: u64 }

pub const DATA_PRIMS: &[&str] = &["null", "bool", "nat", "int", "nat8", "int16", "nat64", "int64", "float32", "float64", "text", "reserved", "empty", "principal"];

/// a random type over the variables `vars`
pub fn gen_type(r: &mut Rng, vars: &[String], depth: u32, cfg: &GenCfg) -> T {
    let leaf = depth == 0 || r.coin(1, 4);
    if leaf {
        if !vars.is_empty() && r.coin(cfg.var_bias, 10) { return T::Var(r.pick(vars).clone()); }
        return T::Prim(*r.pick(DATA_PRIMS));
    }
    let d = depth - 1;
    match r.below(if cfg.refs { 8 } else { 6 }) {
        0 => T::opt(gen_type(r, vars, d, cfg)),
        1 => T::vec(gen_type(r, vars, d, cfg)),
        2 | 3 => { let n = r.range(0, 3) as usize; T::rec(gen_fields(r, vars, d, cfg, n)) }
        4 | 5 => { let n = r.range(1, 3) as usize; T::variant(gen_fields(r, vars, d, cfg, n)) }
        6 => gen_func(r, vars, d, cfg),
        _ => gen_serv(r, vars, d, cfg),
    }
}
pub fn gen_fields(r: &mut Rng, vars: &[String], d: u32, cfg: &GenCfg, n: usize) -> Vec<(u32, T)> {
    let mut ids: Vec<u32> = vec![];
    while ids.len() < n {
        let i = match r.below(4) { 0 => r.below(3) as u32, 1 => 100 + r.below(3) as u32, 2 => ids.len() as u32, _ => r.below(6) as u32 };
        if !ids.contains(&i) { ids.push(i); }
    }
    ids.into_iter().map(|i| (i, gen_type(r, vars, d, cfg))).collect()
}
pub fn gen_func(r: &mut Rng, vars: &[String], d: u32, cfg: &GenCfg) -> T {
    let na = r.range(0, 2) as usize; let nr = r.range(0, 2) as usize;
    let modes = match r.below(5) { 0 => vec![1], 1 => vec![3], 2 => vec![2], _ => vec![] };
    let rets = if modes == vec![2] { vec![] } else { (0..nr).map(|_| gen_type(r, vars, d, cfg)).collect() };
    T::Func((0..na).map(|_| gen_type(r, vars, d, cfg)).collect(), rets, modes)
}
pub fn gen_serv(r: &mut Rng, vars: &[String], d: u32, cfg: &GenCfg) -> T {
    let n = r.range(0, 3) as usize;
    let names = ["f", "g", "get", "set"];
    let mut ms: Vec<(String, T)> = vec![];
    for k in 0..n { ms.push((names[k].to_string(), gen_func(r, vars, d.min(1), cfg))); }
    T::serv(ms)
}
/// an environment of k definitions with direct and mutual recursion, alias chains (never a cycle of aliases)
pub fn gen_env(r: &mut Rng, k: usize, cfg: &GenCfg) -> Env {
    let names: Vec<String> = (0..k).map(|i| format!("{}", (b'A' + i as u8) as char)).collect();
    let mut env = vec![];
    for (i, n) in names.iter().enumerate() {
        let t = if i + 1 < k && r.coin(1, 8) {
            T::Var(names[i + 1].clone())   // alias of a later definition: chains but no cycle
        } else {
            loop {
                let t = gen_type(r, &names, cfg.max_depth, cfg);
                if !matches!(t, T::Var(_)) { break t; }
            }
        };
        env.push((n.clone(), t));
    }
    env
}
/// one random "upgrade step" t -> t' intended to give t' <: t or t <: t' or an unrelated near miss
pub fn mutate_type(r: &mut Rng, t: &T, vars: &[String], cfg: &GenCfg) -> T {
    match t {
        T::Rec(fs) if r.coin(2, 3) => {
            let mut fs = fs.clone();
            match r.below(5) {
                0 => { let id = 200 + r.below(3) as u32; if !fs.iter().any(|f| f.0 == id) { fs.push((id, T::opt(gen_type(r, vars, 1, cfg)))); } }
                1 => { let id = 300 + r.below(3) as u32; if !fs.iter().any(|f| f.0 == id) { fs.push((id, gen_type(r, vars, 1, cfg))); } }
                2 if !fs.is_empty() => { let k = r.below(fs.len() as u64) as usize; fs.remove(k); }
                _ if !fs.is_empty() => { let k = r.below(fs.len() as u64) as usize; fs[k].1 = mutate_type(r, &fs[k].1, vars, cfg); }
                _ => {}
            }
            T::rec(fs)
        }
        T::Variant(fs) if r.coin(2, 3) => {
            let mut fs = fs.clone();
            match r.below(4) {
                0 => { let id = 200 + r.below(3) as u32; if !fs.iter().any(|f| f.0 == id) { fs.push((id, gen_type(r, vars, 1, cfg))); } }
                1 if fs.len() > 1 => { let k = r.below(fs.len() as u64) as usize; fs.remove(k); }
                _ => { let k = r.below(fs.len() as u64) as usize; fs[k].1 = mutate_type(r, &fs[k].1, vars, cfg); }
            }
            T::variant(fs)
        }
        T::Opt(x) if r.coin(1, 2) => T::opt(mutate_type(r, x, vars, cfg)),
        T::Vec(x) if r.coin(2, 3) => T::vec(mutate_type(r, x, vars, cfg)),
        T::Func(a, rt, m) if r.coin(2, 3) => {
            let (mut a, mut rt, mut m) = (a.clone(), rt.clone(), m.clone());
            match r.below(6) {
                0 => a.push(T::opt(gen_type(r, vars, 1, cfg))),
                1 => { a.pop(); }
                2 => rt.push(gen_type(r, vars, 1, cfg)),
                3 => { rt.pop(); }
                4 => { m = if m.is_empty() { vec![1] } else { vec![] }; }
                _ => { if !a.is_empty() { let k = r.below(a.len() as u64) as usize; a[k] = mutate_type(r, &a[k], vars, cfg); } else if !rt.is_empty() { let k = r.below(rt.len() as u64) as usize; rt[k] = mutate_type(r, &rt[k], vars, cfg); } }
            }
            if m == vec![2] { rt.clear(); }
            T::Func(a, rt, m)
        }
        T::Serv(ms) if r.coin(2, 3) => {
            let mut ms = ms.clone();
            match r.below(3) {
                0 => { if !ms.iter().any(|x| x.0 == "h") { ms.push(("h".into(), gen_func(r, vars, 1, cfg))); } }
                1 if !ms.is_empty() => { let k = r.below(ms.len() as u64) as usize; ms.remove(k); }
                _ if !ms.is_empty() => { let k = r.below(ms.len() as u64) as usize; ms[k].1 = mutate_type(r, &ms[k].1, vars, cfg); if !matches!(ms[k].1, T::Func(..)) { ms[k].1 = gen_func(r, vars, 1, cfg); } }
                _ => {}
            }
            T::serv(ms)
        }
        T::Prim("nat") if r.coin(1, 2) => T::p("int"),
        T::Prim("int") if r.coin(1, 3) => T::p("nat"),
        _ => match r.below(5) {
            0 => T::opt(t.clone()),
            1 => T::p("reserved"),
            2 => gen_type(r, vars, 1, cfg),
            3 => T::p("text"),
            _ => t.clone(),
        },
    }
}
