//! impl_runner: runs the real dfinity/candid crates (path deps on /repo, rebuilt from the working tree)
//! on generated cases and prints canonical results, one per line.
//!
//!   impl_runner gen <prop> <tier> <seed> <outfile>   generate cases for a property, evaluate, write
//!         lines  id \t op \t arg... \t => \t result       (ops starting with "p." are direct property
//!         predicates on the implementation: their result must be "ok")
//!   impl_runner eval                                   read  id \t op \t arg...  from stdin, print id \t result
#![allow(clippy::all)]
#![allow(dead_code, non_snake_case, non_camel_case_types, unused_imports)]
mod rng;
mod sx;
mod ty;
mod val;
mod ops;
mod native;

use std::io::{BufRead, Write};
use std::panic;

/// bytes ever requested from the allocator (cumulative), for the allocation bound of C06
pub static ALLOCATED: std::sync::atomic::AtomicUsize = std::sync::atomic::AtomicUsize::new(0);
struct Counting;
unsafe impl std::alloc::GlobalAlloc for Counting {
    unsafe fn alloc(&self, l: std::alloc::Layout) -> *mut u8 { ALLOCATED.fetch_add(l.size(), std::sync::atomic::Ordering::Relaxed); std::alloc::System.alloc(l) }
    unsafe fn dealloc(&self, p: *mut u8, l: std::alloc::Layout) { std::alloc::System.dealloc(p, l) }
    unsafe fn realloc(&self, p: *mut u8, l: std::alloc::Layout, n: usize) -> *mut u8 { if n > l.size() { ALLOCATED.fetch_add(n - l.size(), std::sync::atomic::Ordering::Relaxed); } std::alloc::System.realloc(p, l, n) }
}
#[global_allocator]
static GLOBAL: Counting = Counting;

pub struct Emit {
    pub lines: Vec<String>,
    pub nontrivial: Vec<u64>,
    pub stats: std::collections::BTreeMap<String, u64>,
    next: u64,
    /// the case being evaluated, rewritten before every evaluation: what an abort (which no catch_unwind sees) was working on
    cur: Option<std::fs::File>,
}
impl Emit {
    pub fn case(&mut self, op: &str, args: &[String]) {
        if let Some(f) = &mut self.cur {
            use std::io::{Seek, SeekFrom};
            let mut l = String::from(op);
            for a in args { l.push('\t'); l.push_str(a); }
            l.push('\n');
            let _ = f.seek(SeekFrom::Start(0));
            let _ = f.set_len(0);
            let _ = f.write_all(l.as_bytes());
        }
        CASE_STARTED.store(now_secs(), std::sync::atomic::Ordering::Relaxed);
        let res = eval_caught(op, &args.iter().map(|s| s.as_str()).collect::<Vec<_>>());
        CASE_STARTED.store(0, std::sync::atomic::Ordering::Relaxed);
        self.next += 1;
        let mut l = format!("{}\t{}", self.next, op);
        for a in args { l.push('\t'); l.push_str(a); }
        l.push_str("\t=>\t");
        l.push_str(&res);
        self.lines.push(l);
    }
    /// a case whose implementation result was computed by the generator itself (a batch build): recorded as is
    pub fn case_with_result(&mut self, op: &str, args: &[String], res: &str, nt: bool) {
        self.next += 1;
        let mut l = format!("{}\t{}", self.next, op);
        for a in args { l.push('\t'); l.push_str(a); }
        l.push_str("\t=>\t");
        l.push_str(res);
        self.lines.push(l);
        if nt { self.nt(); }
    }
    /// mark the most recent case as non-trivial by the property's stated rule
    pub fn nt(&mut self) { self.nontrivial.push(self.next); }
    pub fn case_nt(&mut self, op: &str, args: &[String], nt: bool) { self.case(op, args); if nt { self.nt() } }
    pub fn stat(&mut self, k: &str) { *self.stats.entry(k.to_string()).or_insert(0) += 1; }
    pub fn stat_n(&mut self, k: &str, n: u64) { *self.stats.entry(k.to_string()).or_insert(0) += n; }
}

/// when the case being evaluated started (seconds since the epoch; 0 = none): a watchdog thread aborts the process when one
/// evaluation of the implementation takes longer than HARNESS_CASE_TIMEOUT seconds (default 120) -- the orchestrator then reports
/// the case named in the .cur file
pub static CASE_STARTED: std::sync::atomic::AtomicU64 = std::sync::atomic::AtomicU64::new(0);
fn now_secs() -> u64 { std::time::SystemTime::now().duration_since(std::time::UNIX_EPOCH).map(|d| d.as_secs()).unwrap_or(1).max(1) }
fn start_watchdog() {
    let limit: u64 = std::env::var("HARNESS_CASE_TIMEOUT").ok().and_then(|s| s.parse().ok()).unwrap_or(120);
    std::thread::spawn(move || loop {
        std::thread::sleep(std::time::Duration::from_secs(1));
        let t = CASE_STARTED.load(std::sync::atomic::Ordering::Relaxed);
        if t != 0 && now_secs().saturating_sub(t) > limit {
            eprintln!("[watchdog] one evaluation exceeded {} s: giving up on this run", limit);
            std::process::exit(97);
        }
    });
}

pub fn eval_caught(op: &str, args: &[&str]) -> String {
    let r = panic::catch_unwind(panic::AssertUnwindSafe(|| ops::eval(op, args)));
    match r {
        Ok(Some(s)) => s,
        Ok(None) => format!("(unknown-op {})", op),
        Err(_) => "(panic)".to_string(),
    }
}

fn main() {
    if std::env::var("HARNESS_PANIC_MSG").is_err() { panic::set_hook(Box::new(|_| {})); }
    let argv: Vec<String> = std::env::args().collect();
    match argv.get(1).map(|s| s.as_str()) {
        Some("gen") => {
            start_watchdog();
            let prop = &argv[2];
            let tier = &argv[3];
            let seed: u64 = argv[4].parse().expect("seed");
            let out = &argv[5];
            let mut em = Emit { lines: vec![], nontrivial: vec![], stats: Default::default(), next: 0, cur: std::fs::File::create(format!("{}.cur", out)).ok() };
            let mut rng = rng::Rng::new(seed);
            ops::generate(prop, tier == "thorough", &mut rng, &mut em);
            let mut f = std::io::BufWriter::new(std::fs::File::create(out).expect("create"));
            for l in &em.lines { writeln!(f, "{}", l).unwrap(); }
            for i in &em.nontrivial { writeln!(f, "#nt\t{}", i).unwrap(); }
            for (k, v) in &em.stats { writeln!(f, "#stat\t{}\t{}", k, v).unwrap(); }
        }
        Some("eval") => {
            let stdin = std::io::stdin();
            let stdout = std::io::stdout();
            let mut o = stdout.lock();
            for line in stdin.lock().lines() {
                let line = line.unwrap();
                if line.is_empty() { continue; }
                let parts: Vec<&str> = line.split('\t').collect();
                if parts.len() < 2 { continue; }
                let res = eval_caught(parts[1], &parts[2..]);
                writeln!(o, "{}\t{}", parts[0], res).unwrap();
            }
        }
        _ => { eprintln!("usage: impl_runner gen <prop> <tier> <seed> <out> | eval"); std::process::exit(2); }
    }
}
