//! C07: decoding quotas bound the work and never change the result.
//! `c07.decode*` ops are compared with the cost-threading mirror model De.v (values AND both costs, exactly);
//! `p.c07.*` ops are the property's laws evaluated on the implementation alone.
use crate::ops::c02::{hostile, mutate_bytes, rename_env, tys_from, tys_sx};
use crate::ty::{env_from_sx, env_sx, gen_env, gen_type, mutate_type, Env, GenCfg, T};
use crate::val::{gen_val, message, vals_sx, V};
use crate::{rng::Rng, sx, Emit};
use candid::de::IDLDeserialize;
use candid::types::{Field, FuncMode, Function, Label, Type, TypeInner};
use candid::{DecoderConfig, IDLValue, TypeEnv};
use std::collections::BTreeMap;

pub type Names = BTreeMap<u32, String>;
pub fn names_from(s: &str) -> Names {
    sx::parse(s).list().iter().map(|p| (p.list()[0].atom().parse().unwrap(), String::from_utf8(sx::unhex(p.list()[1].atom())).unwrap())).collect()
}
pub fn names_sx(n: &Names) -> String { format!("({})", n.iter().map(|(i, s)| format!("({} {})", i, sx::hex(s.as_bytes()))).collect::<Vec<_>>().join(" ")) }
fn label(i: u32, names: &Names) -> Label { match names.get(&i) { Some(s) => Label::Named(s.clone()), None => Label::Id(i) } }
/// like T::to_type, but the ids listed in `names` are spelled as names
pub fn to_type_named(t: &T, names: &Names) -> Type {
    match t {
        T::Opt(t) => TypeInner::Opt(to_type_named(t, names)).into(),
        T::Vec(t) => TypeInner::Vec(to_type_named(t, names)).into(),
        T::Rec(fs) => TypeInner::Record(fs.iter().map(|(i, t)| Field { id: label(*i, names).into(), ty: to_type_named(t, names) }).collect()).into(),
        T::Variant(fs) => TypeInner::Variant(fs.iter().map(|(i, t)| Field { id: label(*i, names).into(), ty: to_type_named(t, names) }).collect()).into(),
        T::Func(a, r, m) => TypeInner::Func(Function {
            args: a.iter().map(|t| to_type_named(t, names)).collect(), rets: r.iter().map(|t| to_type_named(t, names)).collect(),
            modes: m.iter().map(|x| match x { 1 => FuncMode::Query, 2 => FuncMode::Oneway, _ => FuncMode::CompositeQuery }).collect(),
        }).into(),
        T::Serv(ms) => TypeInner::Service(ms.iter().map(|(n, t)| (n.clone(), to_type_named(t, names))).collect()).into(),
        _ => t.to_type(),
    }
}
pub fn to_env_named(e: &Env, names: &Names) -> TypeEnv {
    let mut m = BTreeMap::new();
    for (n, t) in e { m.insert(n.clone(), to_type_named(t, names)); }
    TypeEnv(m)
}

pub fn quota_of(s: &str) -> Option<usize> { if s == "-" { None } else { Some(s.parse().unwrap()) } }
pub fn q_sx(q: Option<usize>) -> String { match q { None => "-".into(), Some(n) => n.to_string() } }
pub fn config(qd: Option<usize>, qs: Option<usize>) -> DecoderConfig {
    let mut c = DecoderConfig::new();
    if let Some(n) = qd { c.set_decoding_quota(n); }
    if let Some(n) = qs { c.set_skipping_quota(n); }
    c
}

#[derive(Clone, Debug, PartialEq)]
pub enum Out { Ok(Vec<V>, Option<usize>, Option<usize>), Quota, Err }
impl Out {
    pub fn sx(&self) -> String {
        match self {
            Out::Ok(vs, d, s) => format!("(ok ({}) {} {})", vals_sx(vs), q_sx(*d), q_sx(*s)),
            Out::Quota => "(quota)".into(),
            Out::Err => "(err)".into(),
        }
    }
}
fn classify(e: &candid::Error) -> Out { if format!("{:?}", e).contains("exceeds the limit") { Out::Quota } else { Out::Err } }

/// IDLArgs::from_bytes_with_types_with_config, keeping the deserializer to read the cost
pub fn decode_typed(b: &[u8], env: &TypeEnv, tys: &[Type], cfg: &DecoderConfig) -> Out {
    let mut de = match IDLDeserialize::new_with_config(b, cfg) { Ok(d) => d, Err(e) => return classify(&e) };
    let mut vs = vec![];
    for t in tys {
        match de.get_value_with_type(env, t) { Ok(v) => vs.push(V::from_idl(&v)), Err(e) => return classify(&e) }
    }
    if let Err(e) = de.done() { return classify(&e); }
    let c = de.get_config().compute_cost(cfg);
    Out::Ok(vs, c.decoding_quota, c.skipping_quota)
}
/// IDLArgs::from_bytes_with_config
pub fn decode_untyped(b: &[u8], cfg: &DecoderConfig) -> Out {
    let mut de = match IDLDeserialize::new_with_config(b, cfg) { Ok(d) => d, Err(e) => return classify(&e) };
    let mut vs = vec![];
    while !de.is_done() {
        match de.get_value::<IDLValue>() { Ok(v) => vs.push(V::from_idl(&v)), Err(e) => return classify(&e) }
    }
    if let Err(e) = de.done() { return classify(&e); }
    let c = de.get_config().compute_cost(cfg);
    Out::Ok(vs, c.decoding_quota, c.skipping_quota)
}

const BIG: usize = 1 << 50;

/// the property's laws for one decoding function `f(qd, qs)`
pub fn laws(f: &dyn Fn(Option<usize>, Option<usize>) -> Out) -> String {
    let base = f(None, None);
    let big = f(Some(BIG), Some(BIG));
    match (&base, &big) {
        (Out::Ok(v0, _, _), Out::Ok(v1, Some(d), Some(s))) => {
            if v0 != v1 { return "metered-result-differs".into(); }
            let (d, s) = (*d, *s);
            let nvals: usize = v0.iter().map(|v| v.size()).sum();
            if d < nvals { return format!("decoding-cost-{}-below-values-{}", d, nvals); }
            let mut grid: Vec<(Option<usize>, Option<usize>)> = vec![];
            let around = |x: usize| { let mut v = vec![Some(x), Some(x + 1), Some(x + 7), None, Some(0), Some(x / 2)]; if x > 0 { v.push(Some(x - 1)); } v };
            for qd in around(d) { for qs in around(s) { grid.push((qd, qs)); } }
            for (qd, qs) in grid {
                let r = f(qd, qs);
                let enough = qd.map_or(true, |q| q >= d) && qs.map_or(true, |q| q >= s);
                match r {
                    Out::Quota => { if enough { return format!("quota-error-with-sufficient-quota d={} s={} qd={:?} qs={:?}", d, s, qd, qs); } }
                    Out::Err => return format!("non-quota-error-under-quota qd={:?} qs={:?}", qd, qs),
                    Out::Ok(v, cd, cs) => {
                        if !enough { return format!("success-below-cost d={} s={} qd={:?} qs={:?}", d, s, qd, qs); }
                        if v != *v0 { return format!("result-differs qd={:?} qs={:?}", qd, qs); }
                        if cd != qd.map(|_| d) || cs != qs.map(|_| s) { return format!("cost-depends-on-quota d={} s={} got {:?} {:?}", d, s, cd, cs); }
                    }
                }
            }
            "ok".into()
        }
        (Out::Ok(..), _) => "metered-fails-with-huge-quota".into(),
        (Out::Err, Out::Err) => {
            // an unmetered failure: under any quota the outcome is a failure too
            for (qd, qs) in [(Some(0), Some(0)), (Some(50), Some(10)), (Some(1000), None), (None, Some(100)), (Some(100000), Some(100000))] {
                if let Out::Ok(..) = f(qd, qs) { return format!("succeeds-only-when-metered qd={:?} qs={:?}", qd, qs); }
            }
            "ok".into()
        }
        _ => format!("base={} big={}", base.sx(), big.sx()),
    }
}

/// the cost model documented with DecoderConfig::set_decoding_quota, for a value at its own type (labels are numeric: |k| = 4)
pub fn doc_cost(env: &Env, v: &V, t: &T, table_len: usize, fuel: u32) -> usize {
    if fuel == 0 { return 0; }
    let t = match crate::val::trace(env, t) { Some(t) => t, None => return 0 };
    let leb = |n: &num_bigint::BigUint| { let mut o = vec![]; let mut n = n.clone(); loop { let b = (&n & num_bigint::BigUint::from(0x7fu8)); n >>= 7; let _ = b; o.push(0u8); if n == num_bigint::BigUint::from(0u8) { break; } } o.len() };
    match (v, t) {
        (V::Nat(n), _) => leb(n),
        (V::Int(z), _) => { let mut b = vec![]; candid::Int(z.clone()).encode(&mut b).unwrap(); b.len() }
        (V::NatN(b, _), _) | (V::IntN(b, _), _) => (*b / 8) as usize,
        (V::F32(_), _) => 4, (V::F64(_), _) => 8,
        (V::Bool(_), _) | (V::Null, _) | (V::Reserved, _) => 1,
        (V::Text(s), _) => 1 + s.len(),
        (V::Opt(None), _) => 2,
        (V::Opt(Some(x)), T::Opt(t1)) => 2 + doc_cost(env, x, t1, table_len, fuel - 1),
        (V::Vec(xs), T::Vec(t1)) => 2 + 3 * xs.len() + xs.iter().map(|x| doc_cost(env, x, t1, table_len, fuel - 1)).sum::<usize>(),
        (V::Rec(fs), T::Rec(ts)) => 2 + fs.iter().map(|(i, x)| 7 + 4 + ts.iter().find(|f| f.0 == *i).map(|f| doc_cost(env, x, &f.1, table_len, fuel - 1)).unwrap_or(0)).sum::<usize>(),
        (V::Variant(i, x), T::Variant(ts)) => 2 + 5 + 4 + ts.iter().find(|f| f.0 == *i).map(|f| doc_cost(env, x, &f.1, table_len, fuel - 1)).unwrap_or(0),
        (V::Principal(b), _) => std::cmp::max(30, b.len()),
        (V::Service(b), _) => 2 + std::cmp::max(30, b.len()) + table_len,
        (V::Func(b, m), _) => 2 + std::cmp::max(30, b.len()) + 1 + m.len() + table_len,
        _ => 0,
    }
}
/// the constant of "a small constant multiple of the documented cost model" that the checks enforce
pub const DOC_FACTOR: usize = 4;

pub fn eval(op: &str, a: &[&str]) -> Option<String> {
    Some(match op {
        "c07.decode" => {
            let env = env_from_sx(a[0]); let ts = tys_from(a[1]); let names = names_from(a[2]); let b = sx::unhex(a[3]);
            let tys: Vec<Type> = ts.iter().map(|t| to_type_named(t, &names)).collect();
            decode_typed(&b, &to_env_named(&env, &names), &tys, &config(quota_of(a[4]), quota_of(a[5]))).sx()
        }
        "c07.decode_untyped" => decode_untyped(&sx::unhex(a[0]), &config(quota_of(a[1]), quota_of(a[2]))).sx(),
        "p.c07.laws" => {
            let env = env_from_sx(a[0]); let ts = tys_from(a[1]); let names = names_from(a[2]); let b = sx::unhex(a[3]);
            let tys: Vec<Type> = ts.iter().map(|t| to_type_named(t, &names)).collect();
            let e = to_env_named(&env, &names);
            laws(&|qd, qs| decode_typed(&b, &e, &tys, &config(qd, qs)))
        }
        "p.c07.upper" => {
            // a message written at types ts for values vs, decoded at exactly those types: both costs stay within
            // DOC_FACTOR times the documented model (skipping counter: values only; decoding counter: 4*header + 50x values)
            let env = env_from_sx(a[0]); let ts = tys_from(a[1]); let vs: Vec<V> = sx::parse(a[2]).list().iter().map(V::from_sx).collect(); let b = sx::unhex(a[3]);
            let tys: Vec<Type> = ts.iter().map(|t| t.to_type()).collect();
            let e = crate::ty::to_env(&env);
            let mut c = std::io::Cursor::new(&b[..]);
            let hdr = { use binread::BinRead; match candid::binary_parser::Header::read_args(&mut c, (None,)) { Ok(h) => h, Err(_) => return Some("header".into()) } };
            let table_len = match hdr.to_types() { Ok((te, _)) => te.0.len() + env.len(), Err(_) => return Some("header".into()) };
            let hlen = c.position() as usize;
            let model: usize = vs.iter().zip(&ts).map(|(v, t)| doc_cost(&env, v, t, table_len, 40)).sum();
            match decode_typed(&b, &e, &tys, &config(Some(BIG), Some(BIG))) {
                Out::Ok(got, Some(d), Some(s)) => {
                    if got != vs { return Some("decoded-values-differ".into()); }
                    if s > DOC_FACTOR * model { return Some(format!("skipping-cost {} > {} * model {}", s, DOC_FACTOR, model)); }
                    if d > DOC_FACTOR * (4 * hlen + 50 * model) { return Some(format!("decoding-cost {} > {} * (4*{} + 50*{})", d, DOC_FACTOR, hlen, model)); }
                    "ok".to_string()
                }
                o => format!("unexpected {}", o.sx()),
            }
        }
        "p.c07.laws_untyped" => { let b = sx::unhex(a[0]); laws(&|qd, qs| decode_untyped(&b, &config(qd, qs))) }
        _ => return None,
    })
}

// ---------------------------------------------------------------------------------------------------------
const POOL: &[(u32, &str)] = &[(1, "a"), (2, "bc"), (4, "key"), (100, "value"), (101, "some_long_field_name"), (200, "op"), (300, "\u{e9}lan")];
fn remap_id(i: u32) -> u32 { match POOL.iter().find(|p| p.0 == i) { Some(p) => candid::idl_hash(p.1), None => i } }
fn remap_t(t: &T) -> T {
    match t {
        T::Opt(x) => T::opt(remap_t(x)), T::Vec(x) => T::vec(remap_t(x)),
        T::Rec(fs) => T::rec(fs.iter().map(|(i, t)| (remap_id(*i), remap_t(t))).collect()),
        T::Variant(fs) => T::variant(fs.iter().map(|(i, t)| (remap_id(*i), remap_t(t))).collect()),
        T::Func(a, r, m) => T::Func(a.iter().map(remap_t).collect(), r.iter().map(remap_t).collect(), m.clone()),
        T::Serv(ms) => T::Serv(ms.iter().map(|(n, t)| (n.clone(), remap_t(t))).collect()),
        T::Class(a, t) => T::Class(a.iter().map(remap_t).collect(), Box::new(remap_t(t))),
        _ => t.clone(),
    }
}
fn remap_v(v: &V) -> V {
    match v {
        V::Opt(Some(x)) => V::Opt(Some(Box::new(remap_v(x)))),
        V::Vec(vs) => V::Vec(vs.iter().map(remap_v).collect()),
        V::Rec(fs) => { let mut f: Vec<(u32, V)> = fs.iter().map(|(i, v)| (remap_id(*i), remap_v(v))).collect(); f.sort_by_key(|x| x.0); V::Rec(f) }
        V::Variant(i, x) => V::Variant(remap_id(*i), Box::new(remap_v(x))),
        _ => v.clone(),
    }
}
fn remap_env(e: &Env) -> Env { e.iter().map(|(n, t)| (n.clone(), remap_t(t))).collect() }
fn all_names() -> Names { POOL.iter().map(|p| (candid::idl_hash(p.1), p.1.to_string())).collect() }

fn emit_quota_cases(em: &mut Emit, r: &mut Rng, env: &Env, tes: &[T], names: &Names, hexmsg: &str, nt: bool) {
    let b = sx::unhex(hexmsg);
    let tys: Vec<Type> = tes.iter().map(|t| to_type_named(t, names)).collect();
    let e = to_env_named(env, names);
    let args = |qd: Option<usize>, qs: Option<usize>| vec![env_sx(env), tys_sx(tes), names_sx(names), hexmsg.to_string(), q_sx(qd), q_sx(qs)];
    em.case_nt("c07.decode", &args(Some(BIG), Some(BIG)), nt);
    em.case("c07.decode", &args(None, None));
    if let Out::Ok(_, Some(d), Some(s)) = decode_typed(&b, &e, &tys, &config(Some(BIG), Some(BIG))) {
        em.stat("typed.ok");
        em.stat_n("typed.cost.skipping.total", s as u64);
        for (qd, qs) in [(Some(d), Some(s)), (Some(d.saturating_sub(1)), Some(s)), (Some(d), Some(s.saturating_sub(1))), (None, Some(s)), (Some(d), None),
                         (Some(d / 2), None), (None, Some(s / 2)), (Some(r.below(d as u64 + 1) as usize), Some(r.below(s as u64 + 1) as usize))] {
            em.case_nt("c07.decode", &args(qd, qs), nt);
        }
    } else { em.stat("typed.err"); }
    em.case_nt("p.c07.laws", &[env_sx(env), tys_sx(tes), names_sx(names), hexmsg.to_string()], nt);
}

pub fn generate(thorough: bool, r: &mut Rng, em: &mut Emit) {
    let scale = if thorough { 15 } else { 1 };
    for b in hostile(r) {
        let h = sx::hex(&b);
        em.case_nt("c07.decode_untyped", &[h.clone(), "100000".into(), "100000".into()], true);
        em.case_nt("c07.decode_untyped", &[h.clone(), "60".into(), "3".into()], true);
        em.case_nt("p.c07.laws_untyped", &[h], true);
    }
    for round in 0..120 * scale {
        let cfg = GenCfg { max_depth: 2, refs: round % 4 == 0, var_bias: 4 };
        let k = r.range(0, 4) as usize;
        let ew = remap_env(&gen_env(r, k, &cfg));
        let wnames: Vec<String> = ew.iter().map(|d| d.0.clone()).collect();
        let nargs = r.range(0, 3) as usize;
        let mut tws = vec![]; let mut vs = vec![];
        for _ in 0..nargs {
            for _try in 0..5 {
                let t = remap_t(&gen_type(r, &wnames, 2, &cfg));
                if let Some(v) = gen_val(r, &ew, &t, 5) { tws.push(t); vs.push(v); break; }
            }
        }
        let pad = if r.coin(1, 6) { r.range(1, 2) as usize } else { 0 };
        let msg = message(&ew, &tws, &vs, pad);
        let hexmsg = sx::hex(&msg);
        let nt = vs.iter().any(|v| v.size() > 1);
        em.stat(&format!("msg.args.{}", tws.len()));
        em.stat_n("msg.values", vs.iter().map(|v| v.size() as u64).sum());
        // untyped decoding
        em.case_nt("c07.decode_untyped", &[hexmsg.clone(), q_sx(Some(BIG)), q_sx(Some(BIG))], nt);
        em.case("c07.decode_untyped", &[hexmsg.clone(), "-".into(), "-".into()]);
        if let Out::Ok(_, Some(d), Some(s)) = decode_untyped(&msg, &config(Some(BIG), Some(BIG))) {
            for (qd, qs) in [(Some(d), Some(s)), (Some(d - 1), Some(s)), (Some(d), Some(s.saturating_sub(1))), (None, Some(s / 2)), (Some(d / 3), None)] {
                em.case_nt("c07.decode_untyped", &[hexmsg.clone(), q_sx(qd), q_sx(qs)], nt);
            }
        }
        em.case_nt("p.c07.laws_untyped", &[hexmsg.clone()], nt);
        // expected types: the same (renamed), with names or numeric labels
        let (ee, f) = rename_env(&ew, "_");
        let same: Vec<T> = tws.iter().map(|t| t.rename(&f)).collect();
        let enames: Vec<String> = ee.iter().map(|d| d.0.clone()).collect();
        let names = if r.coin(2, 3) { all_names() } else { Names::new() };
        emit_quota_cases(em, r, &ee, &same, &names, &hexmsg, nt);
        // (references over an uninhabited record cycle do not decode at their own type: known finding of C10)
        let c10_finding = crate::ops::c03::has_record_cycle(&ee) && same.iter().any(|t| crate::ops::c03::has_ref(&ee, t, 3));
        if pad == 0 && !c10_finding { em.case_nt("p.c07.upper", &[env_sx(&ee), tys_sx(&same), format!("({})", vals_sx(&vs)), hexmsg.clone()], nt); }
        for variant in 0..3 {
            let ee2: Env = ee.iter().map(|(n, t)| { let m = if r.coin(1, 2) { remap_t(&mutate_type(r, t, &enames, &cfg)) } else { t.clone() }; (n.clone(), if matches!(m, T::Var(_)) { t.clone() } else { m }) }).collect();
            let mut tes: Vec<T> = same.iter().map(|t| if r.coin(2, 3) { remap_t(&mutate_type(r, t, &enames, &cfg)) } else { t.clone() }).collect();
            match variant {
                1 => { tes.push(T::opt(gen_type(r, &enames, 1, &cfg))); if r.coin(1, 2) { tes.push(T::p("reserved")); } }
                2 => { tes.pop(); }
                _ => {}
            }
            em.stat("expected.mutated");
            emit_quota_cases(em, r, &ee2, &tes, &names, &hexmsg, true);
        }
        // a byte-level mutant or two: quotas on malformed input
        for _ in 0..2 {
            let m = mutate_bytes(r, &msg);
            let hm = sx::hex(&m);
            em.stat("bytes.mutant");
            // a mutated count can ask for 2^60 zero-sized values: only a quota stops that, so the unmetered runs are left out then
            em.case_nt("c07.decode_untyped", &[hm.clone(), "20000000".into(), "400000".into()], true);
            if decode_untyped(&m, &config(Some(20_000_000), None)) != Out::Quota {
                em.case_nt("c07.decode_untyped", &[hm.clone(), q_sx(Some(BIG)), q_sx(Some(BIG))], true);
                em.case_nt("p.c07.laws_untyped", &[hm.clone()], true);
            } else { em.stat("bytes.mutant.metered-only"); }
            em.case_nt("c07.decode", &[env_sx(&ee), tys_sx(&same), names_sx(&names), hm, "100000".into(), "2000".into()], true);
        }
    }
    // the native entry points on the corpus: laws and reported cost, on messages with and without surplus arguments
    {
        let cfgn = GenCfg { max_depth: 2, refs: false, var_bias: 0 };
        for name in crate::native::NAMES {
            if crate::native::has_host_limits(name) { continue; }
            let (env, t) = crate::native::types(name).unwrap();
            for k in 0..(2 * scale as u32) {
                let v = match gen_val(r, &env, &t, 3 + k % 3) { Some(v) => v, None => continue };
                // the same value twice on one deserializer: the second, native read costs the same whether the first was native or untyped
                em.case_nt("p.c07.mixed", &[name.replace(' ', "~"), format!("({})", v.sx())], true);
                let mut ts = vec![t.clone()]; let mut vs = vec![v];
                let surplus = r.below(3);
                for _ in 0..surplus { let t2 = gen_type(r, &[], 2, &cfgn); if let Some(v2) = gen_val(r, &env, &t2, 4) { ts.push(t2); vs.push(v2); } }
                let m = message(&env, &ts, &vs, 0);
                let tn = name.replace(' ', "~");
                em.stat(&format!("native.surplus-args.{}", ts.len() - 1));
                em.case_nt("p.c07.api", &[tn.clone(), sx::hex(&m)], true);
                em.case_nt("p.c07.native", &[tn, sx::hex(&m)], true);
            }
        }
    }
    // vectors of zero-sized and primitive elements, big numbers: the fast paths and the "not free" rule
    let shapes: Vec<(T, Box<dyn Fn(usize) -> V>)> = vec![
        (T::p("null"), Box::new(|_| V::Null)),
        (T::p("reserved"), Box::new(|_| V::Reserved)),
        (T::rec(vec![]), Box::new(|_| V::Rec(vec![]))),
        (T::p("nat8"), Box::new(|i| V::NatN(8, i as u64 % 256))),
        (T::p("int16"), Box::new(|i| V::IntN(16, i as i64 - 3))),
        (T::p("nat64"), Box::new(|i| V::NatN(64, i as u64 * 1000003))),
        (T::p("bool"), Box::new(|i| V::Bool(i % 2 == 0))),
        (T::p("float64"), Box::new(|i| V::F64(i as u64))),
        (T::p("nat"), Box::new(|i| V::Nat(num_bigint::BigUint::from(i as u64) << (i % 80)))),
        (T::p("int"), Box::new(|i| V::Int(-(num_bigint::BigInt::from(i as u64) << (i % 70))))),
        (T::p("text"), Box::new(|i| V::Text(vec![b'x'; i % 5]))),
        (T::opt(T::p("null")), Box::new(|i| V::Opt(if i % 2 == 0 { None } else { Some(Box::new(V::Null)) }))),
    ];
    for (te, mk) in shapes.iter() {
        for n in [0usize, 1, 2, 7, 40 * scale as usize] {
            let t = T::vec(te.clone());
            let v = V::Vec((0..n).map(|i| mk(i)).collect());
            let msg = message(&vec![], &[t.clone()], &[v], 0);
            let h = sx::hex(&msg);
            em.stat("vec.shapes");
            em.case_nt("c07.decode_untyped", &[h.clone(), q_sx(Some(BIG)), q_sx(Some(BIG))], true);
            em.case_nt("p.c07.laws_untyped", &[h.clone()], true);
            emit_quota_cases(em, r, &vec![], &[t.clone()], &Names::new(), &h, true);
            // decoded at a supertype: vec of opt / reserved, and skipped entirely
            emit_quota_cases(em, r, &vec![], &[T::vec(T::opt(te.clone()))], &Names::new(), &h, true);
            emit_quota_cases(em, r, &vec![], &[T::vec(T::p("reserved"))], &Names::new(), &h, true);
            emit_quota_cases(em, r, &vec![], &[], &Names::new(), &h, true);
            emit_quota_cases(em, r, &vec![], &[T::opt(T::vec(T::p("principal")))], &Names::new(), &h, true);
            if matches!(te, T::Prim("nat")) { emit_quota_cases(em, r, &vec![], &[T::vec(T::p("int"))], &Names::new(), &h, true); }
        }
    }
}
