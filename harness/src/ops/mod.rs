use crate::{rng::Rng, Emit};
pub mod c15;

pub fn eval(op: &str, args: &[&str]) -> Option<String> {
    let prop = op.trim_start_matches("p.");
    let prop = prop.split('.').next().unwrap_or("");
    match prop {
        "c15" => c15::eval(op, args),
        _ => None,
    }
}

pub fn generate(prop: &str, thorough: bool, rng: &mut Rng, em: &mut Emit) {
    match prop {
        "C15" => c15::generate(thorough, rng, em),
        _ => panic!("unknown property {}", prop),
    }
}
