use crate::{rng::Rng, Emit};
pub mod c01;
pub mod c02;
pub mod c03;
pub mod c05;
pub mod c07;
pub mod c09;
pub mod c11;
pub mod c12;
pub mod c15;
pub mod c16;
pub mod c17;
pub mod c18;
pub mod c20;

pub fn eval(op: &str, args: &[&str]) -> Option<String> {
    // "m." ops are the same implementation operation, compared with the implementation-mirroring model
    let op = op.strip_prefix("m.").unwrap_or(op);
    let prop = op.trim_start_matches("p.");
    let prop = prop.split('.').next().unwrap_or("");
    match prop {
        "c01" | "c06" | "c08" => c01::eval(op, args),
        "c02" => c02::eval(op, args),
        "c03" | "c04" | "c10" => c03::eval(op, args),
        "c05" => c05::eval(op, args),
        "c07" => if op == "p.c07.native" || op == "p.c07.api" || op == "p.c07.mixed" { c01::eval(op, args) } else { c07::eval(op, args) },
        "c09" => c09::eval(op, args),
        "c11" => c11::eval(op, args),
        "c12" | "c13" | "c14" => c12::eval(op, args),
        "c15" => c15::eval(op, args),
        "c16" => c16::eval(op, args),
        "c17" | "c19" => c17::eval(op, args),
        "c18" => c18::eval(op, args),
        "c20" => c20::eval(op, args),
        _ => None,
    }
}

pub fn generate(prop: &str, thorough: bool, rng: &mut Rng, em: &mut Emit) {
    match prop {
        "C01" | "C06" | "C08" => c01::generate(prop, thorough, rng, em),
        "C02" => c02::generate(thorough, rng, em),
        "C03" => { c03::generate(prop, thorough, rng, em); c01::generate("C03native", thorough, rng, em) }
        "C04" | "C10" => c03::generate(prop, thorough, rng, em),
        "C05" => c05::generate(thorough, rng, em),
        "C07" => c07::generate(thorough, rng, em),
        "C09" => c09::generate(thorough, rng, em),
        "C11" => c11::generate(thorough, rng, em),
        "C12" | "C13" | "C14" => c12::generate(prop, thorough, rng, em),
        "C15" => c15::generate(thorough, rng, em),
        "C16" => c16::generate(thorough, rng, em),
        "C17" | "C19" => c17::generate(prop, thorough, rng, em),
        "C18" => c18::generate(thorough, rng, em),
        "C20" => c20::generate(thorough, rng, em),
        _ => panic!("unknown property {}", prop),
    }
}
