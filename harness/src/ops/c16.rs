//! C16: principal text form (ic_principal) and the 29-byte limit at every constructor.
use crate::{rng::Rng, sx, Emit};
use candid::{Decode, IDLArgs, IDLValue, Principal};
use ic_principal::PrincipalError;
use std::str::FromStr;

fn kind(e: &PrincipalError) -> &'static str {
    match e {
        PrincipalError::BytesTooLong() => "bytes-too-long",
        PrincipalError::InvalidBase32() => "invalid-base32",
        PrincipalError::TextTooShort() => "too-short",
        PrincipalError::TextTooLong() => "too-long",
        PrincipalError::CheckSequenceNotMatch() => "crc",
        PrincipalError::AbnormalGrouped(_) => "grouping",
    }
}
fn leb(mut n: u64, out: &mut Vec<u8>) { loop { let b = (n & 0x7f) as u8; n >>= 7; if n == 0 { out.push(b); break } else { out.push(b | 0x80) } } }

pub fn eval(op: &str, a: &[&str]) -> Option<String> {
    Some(match op {
        "c16.to_text" => match Principal::try_from_slice(&sx::unhex(a[0])) {
            Ok(p) => format!("(ok {})", sx::hex(p.to_text().as_bytes())),
            Err(e) => format!("(err {})", kind(&e)),
        },
        "c16.from_text" => {
            let t = String::from_utf8(sx::unhex(a[0])).unwrap();
            let r1 = Principal::from_text(&t);
            // the other textual entry points are the same function
            let r2 = Principal::from_str(&t);
            let r3 = Principal::try_from(t.as_str());
            if r1 != r2 || r1 != r3 { return Some("(entry-points-differ)".into()); }
            match r1 { Ok(p) => format!("(ok {})", sx::hex(p.as_slice())), Err(e) => format!("(err {})", kind(&e)) }
        }
        "c16.try_from_slice" => {
            let b = sx::unhex(a[0]);
            let r1 = Principal::try_from_slice(&b);
            let r2 = Principal::try_from(b.as_slice());
            let r3 = Principal::try_from(b.clone());
            if r1 != r2 || r1 != r3 { return Some("(entry-points-differ)".into()); }
            // from_slice panics on the same inputs try_from_slice rejects (documented)
            let panics = std::panic::catch_unwind(|| Principal::from_slice(&b)).is_err();
            if panics != r1.is_err() { return Some("(from-slice-differs)".into()); }
            match r1 { Ok(p) => format!("(ok {})", sx::hex(p.as_slice())), Err(e) => format!("(err {})", kind(&e)) }
        }
        "c16.wire" => {
            // binary form: DIDL, no table, one arg of type principal, flag 01, LEB length, bytes
            let b = sx::unhex(a[0]);
            let mut m = b"DIDL\x00\x01\x68\x01".to_vec();
            leb(b.len() as u64, &mut m);
            m.extend_from_slice(&b);
            let untyped = IDLArgs::from_bytes(&m).ok().and_then(|x| match &x.args[0] { IDLValue::Principal(p) => Some(p.as_slice().to_vec()), _ => None });
            let native = Decode!(&m, Principal).ok().map(|p| p.as_slice().to_vec());
            if untyped != native { return Some("(native-untyped-differ)".into()); }
            match untyped { Some(v) => format!("(ok {})", sx::hex(&v)), None => "(err)".into() }
        }
        "p.c16.roundtrip" => {
            let b = sx::unhex(a[0]);
            let p = Principal::from_slice(&b);
            let t = p.to_text();
            if Principal::from_text(&t) != Ok(p) { return Some("FAIL from_text(to_text)".into()); }
            if Principal::from_text(t.to_uppercase()) != Ok(p) { return Some("FAIL upper-case text".into()); }
            if t != t.to_lowercase() { return Some("FAIL text not lower-case".into()); }
            if t.split('-').enumerate().any(|(i, g)| g.is_empty() || g.len() > 5 || (g.len() < 5 && i + 1 != t.split('-').count())) { return Some("FAIL grouping".into()); }
            if format!("{}", p) != t { return Some("FAIL display".into()); }
            // through the candid text and binary forms
            let v = IDLArgs::new(&[IDLValue::Principal(p)]);
            if IDLArgs::from_bytes(&v.to_bytes().unwrap()).ok() != Some(v.clone()) { return Some("FAIL binary roundtrip".into()); }
            if candid_parser::parse_idl_args(&v.to_string()).ok() != Some(v) { return Some("FAIL candid text roundtrip".into()); }
            "ok".into()
        }
        _ => return None,
    })
}

const EDIT_ALPHABET: &[u8] = b"abcdefghijklmnopqrstuvwxyz234567ABCDEFGHIJKLMNOPQRSTUVWXYZ0189-";

pub fn generate(thorough: bool, r: &mut Rng, em: &mut Emit) {
    let scale = if thorough { 10 } else { 1 };
    let mut blobs: Vec<Vec<u8>> = vec![vec![]];
    for b in 0..=255u8 { blobs.push(vec![b]); }
    for b0 in 0..=255u8 { for b1 in 0..=255u8 { if thorough || r.coin(1, 64) { blobs.push(vec![b0, b1]); } } }
    for _ in 0..300 * scale { let n = r.range(0, 40) as usize; blobs.push(r.bytes(n)); }
    for n in [28usize, 29, 30, 31] { blobs.push(vec![0; n]); blobs.push(vec![0xff; n]); blobs.push(r.bytes(n)); }
    for b in &blobs {
        let h = sx::hex(b);
        em.case_nt("c16.to_text", &[h.clone()], b.len() >= 2);
        em.case_nt("c16.try_from_slice", &[h.clone()], b.len() >= 2);
        em.case_nt("c16.wire", &[h.clone()], b.len() >= 2);
        if b.len() <= 29 { em.case_nt("p.c16.roundtrip", &[h.clone()], b.len() >= 2); }
        em.stat(&format!("bytes.len.{}", (b.len() + 4) / 5 * 5));
    }
    // texts: canonical ones and their edits
    let mut texts: Vec<Vec<u8>> = vec![];
    for _ in 0..(40 * scale) {
        let n = *r.pick(&[0usize, 1, 2, 3, 4, 5, 6, 9, 10, 28, 29, 30, 31]);
        let b = r.bytes(n);
        // canonical text computed by the implementation for <= 29 bytes; for longer ones build the text by hand below
        if let Ok(p) = Principal::try_from_slice(&b) {
            let t = p.to_text().into_bytes();
            texts.push(t.clone());
            // every single-character substitution at a few positions, or all positions for short texts
            for pos in 0..t.len() {
                if t.len() > 12 && !r.coin(1, 6) { continue; }
                for &c in EDIT_ALPHABET { if c != t[pos] { let mut e = t.clone(); e[pos] = c; texts.push(e); em.stat("edit.subst"); } }
            }
            for pos in 0..t.len() { if t[pos].is_ascii_lowercase() { let mut e = t.clone(); e[pos] = e[pos].to_ascii_uppercase(); texts.push(e); em.stat("edit.case"); } }
            for pos in 0..=t.len() { let mut e = t.clone(); e.insert(pos, b'-'); texts.push(e); em.stat("edit.dash-insert"); }
            for pos in 0..t.len() { let mut e = t.clone(); e.remove(pos); texts.push(e); em.stat("edit.delete"); }
            for pos in 1..t.len() { texts.push(t[..pos].to_vec()); em.stat("edit.truncate"); }
            texts.push(t.iter().filter(|c| **c != b'-').cloned().collect());
            let mut e = t.clone(); e.extend_from_slice("é".as_bytes()); texts.push(e);
            let mut e = t.clone(); e.push(b'='); texts.push(e);
            texts.push(t.to_ascii_uppercase());
            // non-ASCII characters that Unicode case mapping or compatibility folding sends to ASCII letters/digits/dash:
            // a parser that normalises with anything but ASCII case folding accepts them
            let ts = String::from_utf8(t.clone()).unwrap();
            for (from, to) in [('s', "\u{17f}"), ('i', "\u{131}"), ('k', "\u{212a}"), ('a', "\u{ff41}"), ('a', "\u{430}"), ('-', "\u{2010}"), ('-', "\u{2212}"),
                               ('2', "\u{ff12}"), ('e', "\u{435}"), ('o', "\u{3bf}"), ('i', "\u{130}")] {
                for (pos, ch) in ts.char_indices() {
                    if ch == from { let mut e = String::new(); e.push_str(&ts[..pos]); e.push_str(to); e.push_str(&ts[pos + 1..]); texts.push(e.into_bytes()); em.stat("edit.unicode-lookalike"); }
                }
            }
            if let Some(pos) = ts.find("ss") { let e = format!("{}\u{df}{}", &ts[..pos], &ts[pos + 2..]); texts.push(e.into_bytes()); em.stat("edit.unicode-lookalike"); }
        }
    }
    for _ in 0..100 * scale { let n = r.range(0, 70) as usize; texts.push((0..n).map(|_| *r.pick(EDIT_ALPHABET)).collect()); em.stat("text.random"); }
    for t in &texts { em.case_nt("c16.from_text", &[sx::hex(t)], t.len() >= 8); }
}
