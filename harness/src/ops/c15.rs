//! C15: names and numeric ids are identified by the spec's hash, at every entry point.
use crate::{rng::Rng, sx, sx::Sx, Emit};
use candid::types::{Label, Type, TypeInner};
use candid::{CandidType, Decode, Encode, IDLArgs, IDLValue, TypeEnv};
use serde::Deserialize;
use std::str::FromStr;

pub const COLLIDING: &[(&str, &str)] = &[
    ("kviccgm", "jmst"), ("_nvs", "ayadrnc"), ("vmgunot", "ugidop"), ("rf_kdyb", "kmoz"),
    ("ryaxgi", "zni_ajs"), ("kdelwlv", "_ixpkjb"), ("ghfydvm", "axub_ye"), ("jqeuynh", "ijefx_e"),
    ("vtfvsux", "jyyzgsd"), ("urdexjw", "vydtyyz"), ("zulmbdn", "pxdyphe"), ("gpvowqf", "inovv"),
];
pub const KEYWORDS: &[&str] = &[
    "import", "service", "func", "type", "opt", "vec", "record", "variant", "blob", "principal", "nat", "nat8",
    "nat16", "nat32", "nat64", "int", "int8", "int16", "int32", "int64", "float32", "float64", "bool", "text",
    "null", "reserved", "empty", "oneway", "query", "composite_query",
];

// ---- label <-> s-expression ---------------------------------------------------------------
#[derive(Clone, Debug)]
pub enum L { Id(u32), Named(String), Unnamed(u32) }
impl L {
    pub fn sx(&self) -> String {
        match self {
            L::Id(n) => format!("(id {})", n),
            L::Unnamed(n) => format!("(unnamed {})", n),
            L::Named(s) => format!("(named {})", sx::hex(s.as_bytes())),
        }
    }
    pub fn from(s: &Sx) -> L {
        match s.head() {
            "id" => L::Id(s.args()[0].atom().parse().unwrap()),
            "unnamed" => L::Unnamed(s.args()[0].atom().parse().unwrap()),
            "named" => L::Named(String::from_utf8(sx::unhex(s.args()[0].atom())).unwrap()),
            h => panic!("bad label {}", h),
        }
    }
    pub fn label(&self) -> Label {
        match self { L::Id(n) => Label::Id(*n), L::Unnamed(n) => Label::Unnamed(*n), L::Named(s) => Label::Named(s.clone()) }
    }
    /// Candid source text of the label
    pub fn did(&self) -> String {
        match self { L::Id(n) | L::Unnamed(n) => n.to_string(), L::Named(s) => quote_name(s) }
    }
}
pub fn quote_name(s: &str) -> String {
    let mut o = String::from("\"");
    for c in s.chars() {
        if c.is_ascii_alphanumeric() || c == '_' || c == ' ' { o.push(c) } else { o.push_str(&format!("\\u{{{:x}}}", c as u32)) }
    }
    o.push('"');
    o
}
fn labels_sx(ls: &[L]) -> String { format!("({})", ls.iter().map(|l| l.sx()).collect::<Vec<_>>().join(" ")) }
fn labels_from(s: &str) -> Vec<L> { sx::parse(s).list().iter().map(L::from).collect() }
fn ids_ok(ids: impl Iterator<Item = u32>) -> String {
    let v: Vec<String> = ids.map(|i| i.to_string()).collect();
    if v.is_empty() { "(ok)".into() } else { format!("(ok {})", v.join(" ")) }
}
fn leb(mut n: u64, out: &mut Vec<u8>) {
    loop { let b = (n & 0x7f) as u8; n >>= 7; if n == 0 { out.push(b); break } else { out.push(b | 0x80) } }
}

// ---- derive corpus: field names known to the harness and to the model ---------------------------
#[derive(CandidType, Deserialize)] struct D0 { a: u8, b: u8, c: u8 }
#[derive(CandidType, Deserialize)] struct D1 { zebra: u8, apple: u8, mango: u8, kiwi: u8 }
#[derive(CandidType, Deserialize)] struct D2 { r#type: u8, r#fn: u8, normal: u8 }
#[derive(CandidType, Deserialize)] struct D3 { #[serde(rename = "x y")] a: u8, #[serde(rename = "\u{e9}t\u{e9}")] b: u8, #[serde(rename = "0")] c: u8 }
#[derive(CandidType, Deserialize)] struct D4 { name: u8, id: u8, owner: u8, created_at: u8, controllers: u8, memo: u8 }
#[derive(CandidType, Deserialize)] struct D5(u8, u16, u32);
#[derive(CandidType, Deserialize)] enum D6 { Ok, Err, Pending, #[serde(rename = "weird name")] Odd }
#[derive(CandidType, Deserialize)] enum D7 { A(u8), B { x: u8, y: u8 }, C, r#Self_ }
#[derive(CandidType, Deserialize)] struct D8 { kviccgm: u8, zzz: u8, aaa: u8 }
#[derive(CandidType, Deserialize)] struct D9 { _underscore: u8, __double: u8, CamelCase: u8, UPPER: u8 }
#[derive(CandidType, Deserialize)] struct D10 { #[serde(rename = "\u{1F600}")] smile: u8, #[serde(rename = "")] empty: u8 }
#[derive(CandidType, Deserialize)] enum D11 { #[serde(rename = "a")] X, #[serde(rename = "b")] Y, #[serde(rename = "A")] Z }
// non-ASCII renames whose order by id differs from their order under a char-wise (not byte-wise) hash
#[derive(CandidType, Deserialize, Default)] struct D12 { nom: u8, #[serde(rename = "pr\u{e9}nom")] prenom: u8, #[serde(rename = "\u{e2}ge")] age: u8 }
#[derive(CandidType, Deserialize, Default)] struct D13 { #[serde(rename = "\u{540d}\u{524d}")] a: u8, #[serde(rename = "\u{5e74}\u{9f62}")] b: u8, #[serde(rename = "\u{4f4f}\u{6240}")] c: u8, nom: u8 }
#[derive(CandidType, Deserialize)] enum D14 { #[serde(rename = "gr\u{f6}\u{df}e")] A, #[serde(rename = "gross")] B, #[serde(rename = "Stra\u{df}e")] C, #[serde(rename = "caf\u{e9}")] D }
#[derive(CandidType, Deserialize, Default)] struct D15 { #[serde(rename = "\u{43a}\u{43b}\u{44e}\u{447}")] k: u8, #[serde(rename = "\u{437}\u{43d}\u{430}\u{447}\u{435}\u{43d}\u{438}\u{435}")] v: u8, id: u8, #[serde(rename = "na\u{ef}ve")] n: u8, #[serde(rename = "ma\u{f1}ana")] m: u8 }

pub fn derive_corpus() -> Vec<(Type, Vec<L>)> {
    let n = |s: &str| L::Named(s.to_string());
    vec![
        (D0::ty(), vec![n("a"), n("b"), n("c")]),
        (D1::ty(), vec![n("zebra"), n("apple"), n("mango"), n("kiwi")]),
        (D2::ty(), vec![n("type"), n("fn"), n("normal")]),
        (D3::ty(), vec![n("x y"), n("\u{e9}t\u{e9}"), n("0")]),
        (D4::ty(), vec![n("name"), n("id"), n("owner"), n("created_at"), n("controllers"), n("memo")]),
        (D5::ty(), vec![L::Id(0), L::Id(1), L::Id(2)]),
        (D6::ty(), vec![n("Ok"), n("Err"), n("Pending"), n("weird name")]),
        (D7::ty(), vec![n("A"), n("B"), n("C"), n("Self_")]),
        (D8::ty(), vec![n("kviccgm"), n("zzz"), n("aaa")]),
        (D9::ty(), vec![n("_underscore"), n("__double"), n("CamelCase"), n("UPPER")]),
        (D10::ty(), vec![n("\u{1F600}"), n("")]),
        (D11::ty(), vec![n("a"), n("b"), n("A")]),
        (D12::ty(), vec![n("nom"), n("pr\u{e9}nom"), n("\u{e2}ge")]),
        (D13::ty(), vec![n("\u{540d}\u{524d}"), n("\u{5e74}\u{9f62}"), n("\u{4f4f}\u{6240}"), n("nom")]),
        (D14::ty(), vec![n("gr\u{f6}\u{df}e"), n("gross"), n("Stra\u{df}e"), n("caf\u{e9}")]),
        (D15::ty(), vec![n("\u{43a}\u{43b}\u{44e}\u{447}"), n("\u{437}\u{43d}\u{430}\u{447}\u{435}\u{43d}\u{438}\u{435}"), n("id"), n("na\u{ef}ve"), n("ma\u{f1}ana")]),
    ]
}
fn field_ids(t: &Type) -> Option<Vec<u32>> {
    match t.as_ref() {
        TypeInner::Record(fs) | TypeInner::Variant(fs) => Some(fs.iter().map(|f| f.id.get_id()).collect()),
        _ => None,
    }
}

pub fn eval(op: &str, a: &[&str]) -> Option<String> {
    Some(match op {
        "c15.hash" => {
            let s = String::from_utf8(sx::unhex(a[0])).unwrap();
            candid::idl_hash(&s).to_string()
        }
        "c15.label" => {
            let x = L::from(&sx::parse(a[0])).label();
            let y = L::from(&sx::parse(a[1])).label();
            use std::hash::{Hash, Hasher};
            let hh = |l: &Label| { let mut h = std::collections::hash_map::DefaultHasher::new(); l.hash(&mut h); h.finish() };
            let c = match x.cmp(&y) { std::cmp::Ordering::Less => "lt", std::cmp::Ordering::Equal => "eq", std::cmp::Ordering::Greater => "gt" };
            format!("{} {} {} {}", x.get_id(), (x == y) as u8, c, (hh(&x) == hh(&y)) as u8)
        }
        "c15.did_record" | "c15.did_variant" => {
            let ls = labels_from(a[0]);
            let kw = if op == "c15.did_record" { "record" } else { "variant" };
            let src = format!("{} {{ {} }}", kw, ls.iter().map(|l| format!("{} : nat", l.did())).collect::<Vec<_>>().join("; "));
            match candid_parser::syntax::IDLType::from_str(&src) {
                Err(_) => "(err)".into(),
                Ok(ast) => match candid_parser::typing::ast_to_type(&TypeEnv::new(), &ast) {
                    Err(_) => "(err)".into(),
                    Ok(t) => ids_ok(field_ids(&t).unwrap().into_iter()),
                },
            }
        }
        "c15.val_record" => {
            let ls = labels_from(a[0]);
            let src = format!("record {{ {} }}", ls.iter().map(|l| format!("{} = 1", l.did())).collect::<Vec<_>>().join("; "));
            match candid_parser::parse_idl_value(&src) {
                Err(_) => "(err)".into(),
                Ok(IDLValue::Record(fs)) => ids_ok(fs.iter().map(|f| f.id.get_id())),
                Ok(_) => "(other)".into(),
            }
        }
        "c15.header_record" | "c15.header_variant" => {
            let ids: Vec<u64> = sx::parse(a[0]).list().iter().map(|x| x.atom().parse().unwrap()).collect();
            let rec = op == "c15.header_record";
            let mut b = b"DIDL\x01".to_vec();
            b.push(if rec { 0x6c } else { 0x6b });
            leb(ids.len() as u64, &mut b);
            for i in &ids { leb(*i, &mut b); b.push(0x7d); }
            b.extend_from_slice(&[1, 0]);
            if rec { for _ in &ids { b.push(0) } } else { b.extend_from_slice(&[0, 0]) }
            match IDLArgs::from_bytes(&b) {
                Ok(args) => match &args.args[0] {
                    IDLValue::Record(fs) => ids_ok(fs.iter().map(|f| f.id.get_id())),
                    IDLValue::Variant(v) => format!("(ok {})", v.0.id.get_id()),
                    _ => "(other)".into(),
                },
                Err(_) => "(err)".into(),
            }
        }
        "c15.derive" => {
            let i: usize = a[0].parse().unwrap();
            let c = derive_corpus();
            ids_ok(field_ids(&c[i].0).unwrap().into_iter())
        }
        "c15.macro" => {
            // the type-construction macros on fixed literal label sets (compile-time tokens); index selects the instance
            use candid::{record, variant};
            let i: usize = a[0].parse().unwrap();
            // the macros reject a collision by panicking (documented): canonicalised to (err)
            let r = std::panic::catch_unwind(|| -> Type { match i {
                0 => record! { zebra: u8::ty(); apple: u8::ty(); 5: u8::ty() },
                1 => variant! { b: u8::ty(); a: u8::ty(); 4294967295: u8::ty() },
                2 => record! { kviccgm: u8::ty(); jmst: u8::ty() },
                3 => variant! { _nvs: u8::ty(); ayadrnc: u8::ty() },
                4 => record! { a: u8::ty(); 97: u8::ty() },
                5 => record! { inovv: u8::ty(); 3189572266: u8::ty(); zz: u8::ty() },
                _ => record! { b: u8::ty(); 98: u8::ty(); c: u8::ty() },
            }});
            match r { Ok(t) => ids_ok(field_ids(&t).unwrap().into_iter()), Err(_) => "(err)".into() }
        }
        "p.c15.derive_encode" => {
            // a derived type's encoding must be accepted by the header parser (ids ascending) and decode to itself
            let i: usize = a[0].parse().unwrap();
            fn rt<T: CandidType + for<'a> Deserialize<'a>>(v: T) -> String {
                let b = match Encode!(&v) { Ok(b) => b, Err(e) => return format!("FAIL encode {}", e) };
                if let Err(e) = IDLArgs::from_bytes(&b) { return format!("FAIL untyped decode of derived encoding: {}", e); }
                match Decode!(&b, T) { Ok(w) => if Encode!(&w).ok().as_ref() == Some(&b) { "ok".into() } else { "FAIL re-encoding differs".into() }, Err(e) => format!("FAIL native decode: {}", e) }
            }
            match i {
                0 => rt(D0 { a: 1, b: 2, c: 3 }), 1 => rt(D1 { zebra: 1, apple: 2, mango: 3, kiwi: 4 }), 2 => rt(D2 { r#type: 1, r#fn: 2, normal: 3 }),
                3 => rt(D3 { a: 1, b: 2, c: 3 }), 4 => rt(D4 { name: 1, id: 2, owner: 3, created_at: 4, controllers: 5, memo: 6 }), 5 => rt(D5(1, 2, 3)),
                6 => rt(D6::Odd), 7 => rt(D7::B { x: 1, y: 2 }), 8 => rt(D8 { kviccgm: 1, zzz: 2, aaa: 3 }), 9 => rt(D9 { _underscore: 1, __double: 2, CamelCase: 3, UPPER: 4 }),
                10 => rt(D10 { smile: 1, empty: 2 }), 11 => rt(D11::Z), 12 => rt(D12 { nom: 1, prenom: 2, age: 3 }), 13 => rt(D13 { a: 1, b: 2, c: 3, nom: 4 }),
                14 => rt(D14::C), _ => rt(D15 { k: 1, v: 2, id: 3, n: 4, m: 5 }),
            }
        }
        "p.c15.cross" => {
            // value with named fields <-> type with numeric ids, through the wire, both directions
            let ls = labels_from(a[0]);
            let named: Vec<candid::types::value::IDLField> = ls.iter().enumerate()
                .map(|(k, l)| candid::types::value::IDLField { id: l.label(), val: IDLValue::Nat8(k as u8) }).collect();
            let mut by_id: Vec<candid::types::value::IDLField> = ls.iter().enumerate()
                .map(|(k, l)| candid::types::value::IDLField { id: Label::Id(l.label().get_id()), val: IDLValue::Nat8(k as u8) }).collect();
            by_id.sort_unstable_by_key(|f| f.id.get_id());
            let mut named_sorted = named.clone();
            named_sorted.sort_unstable_by_key(|f| f.id.get_id());
            let ty_named: Type = TypeInner::Record(named_sorted.iter().map(|f| candid::types::Field { id: f.id.clone().into(), ty: TypeInner::Nat8.into() }).collect()).into();
            let ty_id: Type = TypeInner::Record(by_id.iter().map(|f| candid::types::Field { id: f.id.clone().into(), ty: TypeInner::Nat8.into() }).collect()).into();
            let env = TypeEnv::new();
            let v_named = IDLArgs::new(&[IDLValue::Record(named_sorted.clone())]);
            let v_id = IDLArgs::new(&[IDLValue::Record(by_id.clone())]);
            let b1 = match v_named.to_bytes() { Ok(b) => b, Err(e) => return Some(format!("FAIL encode-named {}", e)) };
            let b2 = match v_id.to_bytes() { Ok(b) => b, Err(e) => return Some(format!("FAIL encode-id {}", e)) };
            if b1 != b2 { return Some("FAIL bytes-differ".into()); }
            let d1 = match IDLArgs::from_bytes_with_types(&b1, &env, &[ty_id.clone()]) { Ok(d) => d, Err(e) => return Some(format!("FAIL named-at-id {}", e)) };
            let d2 = match IDLArgs::from_bytes_with_types(&b2, &env, &[ty_named.clone()]) { Ok(d) => d, Err(e) => return Some(format!("FAIL id-at-named {}", e)) };
            if d1 != v_id || d2 != v_named || d1 != d2 { return Some("FAIL values-differ".into()); }
            // typed encoding with names against id-typed annotation
            match v_named.to_bytes_with_types(&env, &[ty_id]) { Ok(b) if b == b1 => {}, Ok(_) => return Some("FAIL typed-bytes".into()), Err(e) => return Some(format!("FAIL typed-encode {}", e)) }
            "ok".into()
        }
        _ => return None,
    })
}

fn gen_name(r: &mut Rng) -> String {
    match r.below(10) {
        0 => KEYWORDS[r.below(KEYWORDS.len() as u64) as usize].to_string(),
        1 => { let p = COLLIDING[r.below(COLLIDING.len() as u64) as usize]; if r.coin(1, 2) { p.0.into() } else { p.1.into() } }
        2 => r.below(5_000_000_000).to_string(),                                   // numeric-looking name
        3 | 4 => { // arbitrary unicode
            let n = r.range(0, 6);
            (0..n).map(|_| loop {
                let c = match r.below(4) { 0 => r.below(0x80), 1 => r.below(0x800), 2 => r.below(0x10000), _ => r.below(0x110000) } as u32;
                if let Some(ch) = char::from_u32(c) { break ch }
            }).collect()
        }
        _ => { // ascii identifier
            let n = r.range(1, 12);
            let al = b"abcdefghijklmnopqrstuvwxyzABCDEFGHIJKLMNOPQRSTUVWXYZ_0123456789";
            (0..n).map(|i| { let k = if i == 0 { 53 } else { al.len() as u64 }; al[r.below(k) as usize] as char }).collect()
        }
    }
}
fn gen_label(r: &mut Rng) -> L {
    match r.below(6) {
        0 => L::Id(match r.below(4) { 0 => r.below(4) as u32, 1 => u32::MAX - r.below(3) as u32, _ => r.next() as u32 }),
        1 => L::Unnamed(r.below(10) as u32),
        _ => L::Named(gen_name(r)),
    }
}
fn gen_labels(r: &mut Rng, em: &mut Emit) -> Vec<L> {
    let n = r.range(0, 6) as usize;
    let mut v: Vec<L> = (0..n).map(|_| gen_label(r)).collect();
    match r.below(5) {
        0 if !v.is_empty() => { // inject a collision: same name twice, name + its id, or a colliding pair
            let k = r.below(v.len() as u64) as usize;
            let dup = match (&v[k], r.below(2)) {
                (L::Named(s), 0) => L::Id(candid::idl_hash(s)),
                (x, _) => x.clone(),
            };
            em.stat("labels.injected_dup");
            v.push(dup);
        }
        1 => { let p = COLLIDING[r.below(COLLIDING.len() as u64) as usize]; v.push(L::Named(p.0.into())); v.push(L::Named(p.1.into())); em.stat("labels.colliding_pair"); }
        _ => {}
    }
    // shuffle
    for i in (1..v.len()).rev() { let j = r.below(i as u64 + 1) as usize; v.swap(i, j); }
    v
}

pub fn generate(thorough: bool, r: &mut Rng, em: &mut Emit) {
    let scale = if thorough { 20 } else { 1 };
    // fixed corpus first
    for (a, b) in COLLIDING { em.case("c15.hash", &[sx::hex(a.as_bytes())]); em.case("c15.hash", &[sx::hex(b.as_bytes())]); }
    for k in KEYWORDS { em.case("c15.hash", &[sx::hex(k.as_bytes())]); }
    em.case("c15.hash", &[sx::hex(b"")]);
    for (i, (_, names)) in derive_corpus().iter().enumerate() {
        em.case_nt("c15.derive", &[i.to_string(), labels_sx(names)], true);
        em.case_nt("p.c15.derive_encode", &[i.to_string()], true);
    }
    for i in 0..7 { em.case("c15.macro", &[i.to_string()]); }
    for _ in 0..3000 * scale {
        let s = gen_name(r);
        em.stat(if s.is_ascii() { "hash.ascii" } else { "hash.unicode" });
        em.case_nt("c15.hash", &[sx::hex(s.as_bytes())], s.len() >= 2);
    }
    for _ in 0..1500 * scale {
        let (x, y) = (gen_label(r), gen_label(r));
        let y = if r.coin(1, 4) { match &x { L::Named(s) => L::Id(candid::idl_hash(s)), o => o.clone() } } else { y };
        let nt = [&x, &y].iter().any(|l| matches!(l, L::Named(s) if s.len() >= 2));
        em.case_nt("c15.label", &[x.sx(), y.sx()], nt);
    }
    // text values / types that mix named, numeric and positional fields: a positional field continues from the id OF THE NAME
    // before it (the model of the grammar action numbers it from the hash)
    for _ in 0..300 * scale {
        let n = r.range(2, 5);
        let ls: Vec<String> = (0..n).map(|_| match r.below(6) {
            0 | 1 => format!("(named {})", sx::hex(gen_name(r).as_bytes())),
            2 => format!("(id {})", r.below(1000)),
            _ => "(unnamed)".to_string() }).collect();
        em.stat("value.named-then-positional");
        em.case_nt("c13.record_ids", &[format!("({})", ls.join(" "))], true);
    }
    for _ in 0..600 * scale {
        let ls = gen_labels(r, em);
        let nt = ls.iter().any(|l| matches!(l, L::Named(s) if s.len() >= 2));
        let ops = ["c15.did_record", "c15.did_variant", "c15.val_record"];
        for op in ops {
            if op == "c15.did_variant" || !ls.iter().any(|l| matches!(l, L::Unnamed(_))) {
                let ls2: Vec<L> = ls.iter().map(|l| match l { L::Unnamed(n) => L::Id(*n), o => o.clone() }).collect();
                em.case_nt(op, &[labels_sx(&ls2)], nt);
            }
        }
        let mut ids: Vec<u32> = ls.iter().map(|l| l.label().get_id()).collect();
        if r.coin(2, 3) { ids.sort_unstable(); }
        let idsx = format!("({})", ids.iter().map(|i| i.to_string()).collect::<Vec<_>>().join(" "));
        em.case_nt("c15.header_record", &[idsx.clone()], ids.len() >= 2);
        if !ids.is_empty() { em.case_nt("c15.header_variant", &[idsx], ids.len() >= 2); }
        // cross-form predicate only on label sets with unique ids
        let mut s = ids.clone(); s.sort_unstable(); s.dedup();
        if s.len() == ls.len() {
            em.stat("cross.unique_sets");
            em.case_nt("p.c15.cross", &[labels_sx(&ls)], nt);
        }
    }
}
