//! C12 (print .did and re-check), C13 (parsers are total), C14 (type checker accepts exactly the well-formed programs).
use crate::ty::{env_from_sx, env_sx, gen_env, gen_func, gen_serv, gen_type, to_env, Env, GenCfg, T};
use crate::{rng::Rng, sx, Emit};
use candid::types::subtype::{equal, Gamma};
use candid::TypeEnv;
use candid_parser::syntax::{IDLInitArgs, IDLMergedProg, IDLProg, IDLType, IDLTypes};
use candid_parser::{check_prog, utils::CandidSource};
use std::collections::HashMap;
use std::str::FromStr;

/// names used as field / method names: ids in generated programs that equal the hash of one of these are printed by name
pub const NAME_POOL: &[&str] = &["a", "b", "name", "id", "record", "opt", "service", "func", "type", "vec", "query", "oneway", "blob", "principal",
    "nat", "null", "reserved", "empty", "import", "composite_query", "a b", "x-y", "1a", "", "héllo", "日本", "\"q\"", "back\\slash", "new\nline", "tab\t",
    "*/", "${x}", "_", "_0", "__", "A", "Self", "self", "fn", "class", "return", "async", "await", "let", "var", "function", "constructor", "prototype",
    "Type", "Ref", "Use", "Match", "loop_count", "fooBar", "__proto__", "a\u{0}1", "\u{0}7", "IDL", "toString", "hasOwnProperty"];
thread_local! { static NAMES: HashMap<u32, &'static str> = NAME_POOL.iter().map(|n| (candid::idl_hash(n), *n)).collect(); }
pub fn quote(s: &str) -> String {
    let bare = !s.is_empty() && s.is_ascii() && s.chars().enumerate().all(|(i, c)| if i == 0 { c.is_ascii_alphabetic() || c == '_' } else { c.is_ascii_alphanumeric() || c == '_' })
        && !crate::ops::c15::KEYWORDS.contains(&s);
    if bare { s.to_string() } else { crate::ops::c15::quote_name(s) }
}
fn label(i: u32) -> String { NAMES.with(|m| m.get(&i).map(|n| quote(n)).unwrap_or_else(|| i.to_string())) }

/// .did text of a type with pool names for labels and quoted method names where needed
pub fn did(t: &T) -> String {
    let l = |v: &Vec<T>| v.iter().map(did).collect::<Vec<_>>().join(", ");
    match t {
        T::Prim(p) => p.to_string(),
        T::Var(x) => x.clone(),
        T::Opt(t) => format!("opt {}", did(t)),
        T::Vec(t) => format!("vec {}", did(t)),
        T::Rec(fs) => format!("record {{ {} }}", fs.iter().map(|(i, t)| format!("{} : {}", label(*i), did(t))).collect::<Vec<_>>().join("; ")),
        T::Variant(fs) => format!("variant {{ {} }}", fs.iter().map(|(i, t)| format!("{} : {}", label(*i), did(t))).collect::<Vec<_>>().join("; ")),
        T::Func(a, r, m) => format!("func ({}) -> ({}){}", l(a), l(r), m.iter().map(|x| match x { 1 => " query", 2 => " oneway", _ => " composite_query" }).collect::<String>()),
        T::Serv(ms) => format!("service {}", methods(ms)),
        T::Class(a, t) => format!("({}) -> {}", l(a), match t.as_ref() { T::Serv(ms) => methods(ms), o => did(o) }),
    }
}
fn methods(ms: &[(String, T)]) -> String {
    format!("{{ {} }}", ms.iter().map(|(n, t)| format!("{} : {}", quote(n), match t { T::Func(..) => did(t)[5..].to_string(), o => did(o) })).collect::<Vec<_>>().join("; "))
}
pub fn program(env: &Env, actor: &Option<T>) -> String {
    let mut s: String = env.iter().map(|(n, t)| format!("type {} = {};\n", n, did(t))).collect();
    if let Some(a) = actor { s.push_str(&format!("service : {};\n", match a { T::Serv(ms) => methods(ms), o => did(o) })); }
    s
}
pub fn actor_from(a: &str) -> Option<T> { if a == "-" { None } else { Some(T::from_sx(&sx::parse(a))) } }
pub fn actor_sx(a: &Option<T>) -> String { a.as_ref().map(|t| t.sx()).unwrap_or("-".into()) }

pub fn load(text: &str) -> Result<(TypeEnv, Option<candid::types::Type>), String> {
    let ast = IDLProg::from_str(text).map_err(|e| format!("parse: {}", e))?;
    let mut env = TypeEnv::new();
    let actor = check_prog(&mut env, &ast).map_err(|e| format!("check: {}", e))?;
    Ok((env, actor))
}
/// structural equality of two checked programs: same definition names, each definition equal, actors equal
pub fn same_program(a: &(TypeEnv, Option<candid::types::Type>), b: &(TypeEnv, Option<candid::types::Type>)) -> Result<(), String> {
    let (e1, a1) = a; let (e2, a2) = b;
    let k1: Vec<&String> = e1.0.keys().collect(); let k2: Vec<&String> = e2.0.keys().collect();
    if k1 != k2 { return Err(format!("definition names differ: {:?} vs {:?}", k1, k2)); }
    let mut env = e1.clone();
    // rename the second environment apart and compare definition-wise
    let dummy: candid::types::Type = candid::types::TypeInner::Null.into();
    let _ = env.merge_type(e2.clone(), dummy);
    for k in k1 {
        let t1: candid::types::Type = candid::types::TypeInner::Var(k.to_string()).into();
        let t2: candid::types::Type = candid::types::TypeInner::Var(format!("{}/1", k)).into();
        let mut g = Gamma::new();
        equal(&mut g, &env, &t1, &t2).map_err(|e| format!("definition {} differs: {}", k, e))?;
    }
    match (a1, a2) {
        (None, None) => Ok(()),
        (Some(x), Some(y)) => {
            let tau: std::collections::BTreeMap<String, String> = e2.0.keys().map(|k| (k.clone(), format!("{}/1", k))).collect();
            let y2 = y.subst(&tau);
            let mut g = Gamma::new();
            equal(&mut g, &env, x, &y2).map_err(|e| format!("actor differs: {}", e))
        }
        _ => Err("one program has a main service and the other has none".into()),
    }
}

pub fn eval(op: &str, a: &[&str]) -> Option<String> {
    Some(match op {
        "c14.check" => {
            let env = env_from_sx(a[0]); let actor = actor_from(a[1]);
            match load(&program(&env, &actor)) { Ok(_) => "1".into(), Err(_) => "0".into() }
        }
        "p.c14.rejects" => { let t = String::from_utf8(sx::unhex(a[0])).unwrap(); match load(&t) { Ok(_) => "FAIL ill-formed program accepted".into(), Err(_) => "ok".into() } }
        "p.c14.accepts" => { let t = String::from_utf8(sx::unhex(a[0])).unwrap(); match load(&t) { Ok(_) => "ok".into(), Err(e) => format!("FAIL well-formed program rejected: {}", e) } }
        "p.c14.closed" => {
            // on an accepted program: tracing every name, subtyping every definition with itself and encoding the actor type terminate without panic
            let env = env_from_sx(a[0]); let actor = actor_from(a[1]);
            let (te, act) = match load(&program(&env, &actor)) { Ok(x) => x, Err(_) => return Some("ok".into()) };
            for (k, t) in te.0.iter() {
                if te.trace_type(t).is_err() { return Some(format!("FAIL trace_type fails on accepted definition {}", k)); }
                let mut g = Gamma::new();
                if candid::types::subtype::subtype(&mut g, &te, t, t).is_err() { return Some(format!("FAIL {} is not a subtype of itself", k)); }
            }
            if let Some(t) = act { if te.as_service(&t).is_err() { return Some("FAIL accepted actor is not a service".into()); } }
            "ok".into()
        }
        "p.c12.export" => return crate::native::dispatch(a[0], op, a),
        "p.c12.roundtrip" => {
            let env = env_from_sx(a[0]); let actor = actor_from(a[1]);
            let text = program(&env, &actor);
            let orig = match load(&text) { Ok(x) => x, Err(e) => return Some(format!("FAIL generated program does not check: {} :: {}", e, text)) };
            // type-level printer
            let printed = candid::pretty::candid::compile(&orig.0, &orig.1);
            if printed != candid::pretty::candid::compile(&orig.0, &orig.1) { return Some("FAIL printing is not deterministic".into()); }
            let re = match load(&printed) { Ok(x) => x, Err(e) => return Some(format!("FAIL printed program does not check: {} :: {}", e, printed)) };
            if let Err(e) = same_program(&orig, &re) { return Some(format!("FAIL type-level printer: {} :: {}", e, printed)); }
            // syntax-tree printer
            let ast = IDLProg::from_str(&text).unwrap();
            let printed2 = candid_parser::syntax::pretty_print(&IDLMergedProg::new(ast));
            let re2 = match load(&printed2) { Ok(x) => x, Err(e) => return Some(format!("FAIL syntax-tree printer output does not check: {} :: {}", e, printed2)) };
            if let Err(e) = same_program(&orig, &re2) { return Some(format!("FAIL syntax-tree printer: {} :: {}", e, printed2)); }
            // the upgrade entry point agrees that the printed interface is equal
            if orig.1.is_some() {
                if let Err(e) = candid_parser::utils::service_equal(CandidSource::Text(&text), CandidSource::Text(&printed)) { return Some(format!("FAIL service_equal(original, printed): {}", e)); }
            }
            "ok".into()
        }
        "p.c13.total" => {
            // a[0] = entry point, a[1] = input (hex of UTF-8): must return Ok or Err; a panic is caught by the caller
            let t = String::from_utf8_lossy(&sx::unhex(a[1])).to_string();
            match a[0] {
                "prog" => { if let Ok(p) = IDLProg::from_str(&t) { let mut env = TypeEnv::new(); let _ = check_prog(&mut env, &p); } }
                "type" => { if let Ok(ty) = IDLType::from_str(&t) { let _ = candid_parser::typing::ast_to_type(&TypeEnv::new(), &ty); } }
                "types" => { let _ = IDLTypes::from_str(&t); }
                "initargs" => { if let Ok(p) = IDLInitArgs::from_str(&t) { let mut env = TypeEnv::new(); let _ = candid_parser::typing::check_init_args(&mut env, &TypeEnv::new(), &p); } }
                "value" => { if let Ok(v) = candid_parser::parse_idl_value(&t) { let _ = format!("{}", v); } }
                "args" => { if let Ok(v) = candid_parser::parse_idl_args(&t) { let _ = format!("{}", v); let _ = v.to_bytes(); } }
                "test" => { let _ = candid_parser::test::Test::from_str(&t); }
                _ => return None,
            }
            "ok".into()
        }
        "c13.record_ids" => {
            // labels: (id N) | (named HEX) | (unnamed): the ids the value grammar assigns, or err
            let ls = sx::parse(a[0]);
            let mk = |val: &str, sep: &str| -> String {
                let fields: Vec<String> = ls.list().iter().map(|l| match l.head() {
                    "id" => format!("{} {} {}", l.args()[0].atom(), sep, val),
                    "named" => format!("{} {} {}", crate::ops::c15::quote_name(&String::from_utf8(sx::unhex(l.args()[0].atom())).unwrap()), sep, val),
                    _ => val.to_string(),
                }).collect();
                format!("record {{ {} }}", fields.join("; "))
            };
            let src = mk("1", "=");
            let tsrc = mk("nat", ":");
            let v = match candid_parser::parse_idl_value(&src) {
                Ok(candid::IDLValue::Record(fs)) => format!("(ok{})", fs.iter().map(|f| format!(" {}", f.id.get_id())).collect::<String>()),
                Ok(_) => "(other)".into(), Err(_) => "(err)".into() };
            // the type grammar must assign the same ids
            let t = match IDLType::from_str(&tsrc).ok().and_then(|x| candid_parser::typing::ast_to_type(&TypeEnv::new(), &x).ok()) {
                Some(ty) => match ty.as_ref() { candid::types::TypeInner::Record(fs) => format!("(ok{})", fs.iter().map(|f| format!(" {}", f.id.get_id())).collect::<String>()), _ => "(other)".into() },
                None => "(err)".into() };
            if v == t { v } else { format!("(value-and-type-grammar-differ {} {})", v, t) }
        }
        _ => return None,
    })
}

// ---------------------------------------------------------------------------------------------------------
fn pool_id(r: &mut Rng) -> u32 { let n: &str = *r.pick(NAME_POOL); candid::idl_hash(n) }
/// replace some numeric field ids by ids that print as pool names
fn sprinkle_names(r: &mut Rng, t: &T) -> T {
    match t {
        T::Rec(fs) | T::Variant(fs) => {
            let mut out: Vec<(u32, T)> = vec![];
            for (i, ft) in fs { let id = if r.coin(1, 2) { pool_id(r) } else { *i }; if !out.iter().any(|f| f.0 == id) { out.push((id, sprinkle_names(r, ft))); } }
            if matches!(t, T::Rec(_)) { T::rec(out) } else { if out.is_empty() { out.push((0, T::p("null"))); } T::variant(out) }
        }
        T::Opt(x) => T::opt(sprinkle_names(r, x)), T::Vec(x) => T::vec(sprinkle_names(r, x)),
        T::Func(a, rt, m) => T::Func(a.iter().map(|x| sprinkle_names(r, x)).collect(), rt.iter().map(|x| sprinkle_names(r, x)).collect(), m.clone()),
        T::Serv(ms) => { let mut out: Vec<(String, T)> = vec![]; for (n, ft) in ms { let name = if r.coin(1, 2) { (*r.pick(NAME_POOL)).to_string() } else { n.clone() }; if !out.iter().any(|f| f.0 == name) { out.push((name, sprinkle_names(r, ft))); } } T::serv(out) }
        o => o.clone(),
    }
}
const DEF_NAMES: &[&str] = &["A", "B", "C", "D", "List", "t", "class", "class_", "return", "Self", "type_", "opt_", "Result", "_x", "IDL", "IDL_", "Principal"];
pub fn gen_program(r: &mut Rng, with_actor: bool) -> (Env, Option<T>) {
    let cfg = GenCfg { max_depth: 2, refs: true, var_bias: 4 };
    let k = r.range(0, 5) as usize;
    let e0 = gen_env(r, k, &cfg);
    // rename definitions to odd identifiers
    // sometimes the names come from ONE OR TWO FAMILIES  w, w_, w__, w___  of a word some target language reserves:
    // whatever a generator appends or strips to get out of the way of the reserved word must keep the family apart
    const FAMILY_WORDS: &[&str] = &["class", "return", "IDL", "async", "let", "fn", "enum", "Self", "self", "await", "function", "var", "loop", "object", "actor", "label", "Principal"];
    let fam: Vec<String> = if r.coin(1, 3) {
        let mut v = vec![];
        for _ in 0..r.range(1, 3) { let w: &str = *r.pick(FAMILY_WORDS); for u in 0..4 { let n = format!("{}{}", w, "_".repeat(u)); if !v.contains(&n) { v.push(n); } } }
        v.push("A".into()); v.push("B".into()); v
    } else { vec![] };
    let mut pool: Vec<&str> = if fam.is_empty() { DEF_NAMES.to_vec() } else { fam.iter().map(|s| s.as_str()).collect() };
    let mut map: HashMap<String, String> = HashMap::new();
    for (n, _) in &e0 { let i = r.below(pool.len() as u64) as usize; map.insert(n.clone(), pool.remove(i).to_string()); }
    let f = |s: &str| map.get(s).cloned().unwrap_or(s.to_string());
    let mut env: Env = e0.iter().map(|(n, t)| (f(n), sprinkle_names(r, &t.rename(&f)))).collect();
    let names: Vec<String> = env.iter().map(|d| d.0.clone()).collect();
    let actor = if with_actor {
        let s0 = gen_serv(r, &names, 2, &cfg); let s = sprinkle_names(r, &s0);
        // the service inline, or given by a definition (whose name may be a reserved word of a target language)
        let body = if !pool.is_empty() && r.coin(1, 3) {
            let i = r.below(pool.len() as u64) as usize; let n = pool.remove(i).to_string();
            // ... and sometimes a service that refers to itself (a method handing out, or taking, the service)
            let s = match (&s, r.below(3)) {
                (T::Serv(ms), 0) | (T::Serv(ms), 1) => {
                    let mut ms = ms.clone();
                    let me = T::var(&n);
                    let f = if r.coin(1, 2) { T::Func(vec![], vec![me], vec![]) } else { T::Func(vec![T::opt(me)], vec![], vec![]) };
                    ms.push(("me".to_string(), f)); T::serv(ms)
                }
                _ => s,
            };
            env.push((n.clone(), s));
            // ... reached through one more name (an alias of the definition)
            if !pool.is_empty() && r.coin(1, 3) {
                let j = r.below(pool.len() as u64) as usize; let al = pool.remove(j).to_string();
                env.push((al.clone(), T::var(&n))); T::var(&al)
            } else { T::var(&n) }
        } else { s };
        // sometimes a service constructor, with no, one or two init arguments
        Some(match r.below(4) {
            0 => { let k = r.below(3) as usize; T::Class((0..k).map(|_| gen_type(r, &names, 1, &cfg)).collect(), Box::new(body)) }
            _ => body,
        })
    } else { None };
    (env, actor)
}

fn faults(r: &mut Rng, env: &Env, actor: &Option<T>) -> Vec<(Env, Option<T>, &'static str)> {
    let mut out = vec![];
    let cfg = GenCfg { max_depth: 1, refs: false, var_bias: 0 };
    // undefined name
    { let mut e = env.clone(); e.push(("U1".into(), T::rec(vec![(0, T::var("Undefined"))]))); out.push((e, actor.clone(), "undefined-name")); }
    // duplicate definition
    if !env.is_empty() { let mut e = env.clone(); let d = e[r.below(e.len() as u64) as usize].clone(); e.push(d); out.push((e, actor.clone(), "duplicate-definition")); }
    // alias cycle of length n
    { let n = r.range(1, 5) as usize; let mut e = env.clone(); for i in 0..n { e.push((format!("Cy{}", i), T::Var(format!("Cy{}", (i + 1) % n)))); } out.push((e, actor.clone(), "alias-cycle")); }
    // alias chain into a cycle
    { let mut e = env.clone(); e.push(("Ch0".into(), T::var("Ch1"))); e.push(("Ch1".into(), T::var("Ch2"))); e.push(("Ch2".into(), T::var("Ch1"))); out.push((e, actor.clone(), "alias-chain-into-cycle")); }
    // duplicate field id
    { let mut e = env.clone(); e.push(("Dup".into(), T::Rec(vec![(7, T::p("nat")), (7, T::p("text"))]))); out.push((e, actor.clone(), "duplicate-field-id")); }
    { let mut e = env.clone(); e.push(("DupV".into(), T::opt(T::Variant(vec![(3, T::p("nat")), (3, T::p("nat"))])))); out.push((e, actor.clone(), "duplicate-variant-id")); }
    // non-function method through an alias chain, at definition level and inside a function argument
    { let mut e = env.clone(); e.push(("Fa".into(), T::var("Fb"))); e.push(("Fb".into(), T::p("nat"))); e.push(("Sv".into(), T::Serv(vec![("m".into(), T::var("Fa"))]))); out.push((e, actor.clone(), "non-function-method")); }
    { let mut e = env.clone(); e.push(("Fb".into(), T::vec(T::p("nat")))); e.push(("G".into(), T::Func(vec![T::Serv(vec![("m".into(), T::var("Fb"))])], vec![], vec![]))); out.push((e, actor.clone(), "non-function-method-nested")); }
    // the same fault with the offending name also used elsewhere, under every relative order of the definitions and methods
    // (a checker that remembers names it has already validated must still check them as method types)
    {
        let mut pool = vec!["Aa", "Mm", "Zz", "Bb", "Yy"];
        for i in (1..pool.len()).rev() { let j = r.below(i as u64 + 1) as usize; pool.swap(i, j); }
        let (holder, svc, alias, link, inner) = (pool[0], pool[1], pool[2], pool[3], pool[4]);
        let nonfunc = r.pick(&[T::p("text"), T::opt(T::p("nat")), T::rec(vec![]), T::Serv(vec![])]).clone();
        let f_using = |x: &str| T::Func(vec![T::var(x)], vec![], vec![]);
        match r.below(6) {
            4 | 5 => { // the service sits INSIDE a definition: in a function's arguments or results, under opt / vec / record / variant
                let mut e = env.clone();
                let mut t = T::Serv(vec![("m".into(), T::var(alias))]);
                for _ in 0..r.range(1, 4) {
                    t = match r.below(7) {
                        0 => T::Func(vec![], vec![t], vec![]), 1 => T::Func(vec![t], vec![], vec![]), 2 => T::opt(t), 3 => T::vec(t),
                        4 => T::rec(vec![(1, t)]), 5 => T::variant(vec![(1, t)]), _ => T::Func(vec![T::p("nat")], vec![T::p("text"), t], vec![1]),
                    };
                }
                e.push((holder.into(), t));
                e.push((alias.into(), nonfunc));
                out.push((e, actor.clone(), "non-function-method-nested"));
            }
            0 => { // another definition refers to the alias
                let mut e = env.clone();
                e.push((holder.into(), T::rec(vec![(0, T::var(alias))])));
                e.push((svc.into(), T::Serv(vec![("m".into(), T::var(alias))])));
                e.push((alias.into(), nonfunc));
                out.push((e, actor.clone(), "non-function-method-shared-alias"));
            }
            1 => { // the method is bound to an inner link of an alias chain
                let mut e = env.clone();
                e.push((alias.into(), T::var(link))); e.push((link.into(), T::var(inner))); e.push((inner.into(), nonfunc));
                e.push((svc.into(), T::Serv(vec![("m".into(), T::var(link))])));
                out.push((e, actor.clone(), "non-function-method-inner-link"));
            }
            2 => { // another method of the same service mentions the alias (before or after in method order)
                let mut e = env.clone();
                let other = if r.coin(1, 2) { "a" } else { "z" };
                e.push((svc.into(), T::serv(vec![(other.into(), f_using(alias)), ("m".into(), T::var(alias))])));
                e.push((alias.into(), nonfunc));
                out.push((e, actor.clone(), "non-function-method-sibling-use"));
            }
            _ => { // in the main actor
                let mut e = env.clone();
                e.push((alias.into(), nonfunc));
                e.push((holder.into(), T::vec(T::var(alias))));
                let other = if r.coin(1, 2) { "a" } else { "z" };
                out.push((e, Some(T::serv(vec![(other.into(), f_using(alias)), ("m".into(), T::var(alias))])), "non-function-method-actor"));
            }
        }
    }
    // oneway with a result; two annotations
    { let mut e = env.clone(); e.push(("Ow".into(), T::Func(vec![], vec![T::p("nat")], vec![2]))); out.push((e, actor.clone(), "oneway-with-result")); }
    { let mut e = env.clone(); e.push(("Two".into(), T::Func(vec![], vec![], vec![1, 3]))); out.push((e, actor.clone(), "two-annotations")); }
    // duplicate method name
    { let mut e = env.clone(); let f = gen_func(r, &[], 1, &cfg); e.push(("Dm".into(), T::Serv(vec![("m".into(), f.clone()), ("m".into(), f)]))); out.push((e, actor.clone(), "duplicate-method")); }
    // main actor that is not a service
    { let mut e = env.clone(); e.push(("NotS".into(), T::rec(vec![]))); out.push((e.clone(), Some(T::var("NotS")), "actor-not-service")); out.push((e, Some(T::Class(vec![], Box::new(T::var("NotS")))), "class-not-service")); }
    out
}

const TOKENS: &[&str] = &["type", "service", "func", "record", "variant", "opt", "vec", "blob", "principal", "import", "query", "oneway", "composite_query",
    "null", "nat", "int", "nat8", "text", "bool", "reserved", "empty", "float64", "true", "false",
    "{", "}", "(", ")", ";", ",", ":", "=", "->", ".", "==", "!=", "!:", "+", "-", "A", "B", "x", "_", "\"s\"", "\"\\u{41}\"", "\"\\0\"", "\"\\zz\"", "\"", "\"\\\u{e9}\"", "\"\\\u{1F600}", "\"a\\\u{80}", "\"\\", "'\\\u{e9}'",
    "0", "1", "42", "4294967295", "4294967296", "0x1F", "0X1F", "0x", "00_", "1_000", "1__0", "1.5", "1e10", "1e", ".5", "5.", "0xFFFFFFFF", "0x100000000",
    "123456789012345678901234567890123456789012345678901234567890", "/*", "*/", "//", "\n", " ", "\u{e9}", "\u{1F600}", "\0", "principal \"aaaaa-aa\"", "principal \"zz\"", "blob \"\\ff\""];

/// (entry point, text with the slot marked by a section sign)
const SLOT_TEMPLATES: &[(&str, &str)] = &[
    ("prog", "type T = record { \u{a7} : nat };"), ("prog", "type T = record { \u{a7} : nat; \u{a7} : nat };"), ("prog", "type T = variant { \u{a7} };"),
    ("prog", "type T = variant { \u{a7} : nat; b };"), ("prog", "type T = func (\u{a7} : nat) -> ();"), ("prog", "type T = func () -> (\u{a7} : nat, text);"),
    ("prog", "service : { \u{a7} : () -> () };"), ("prog", "service : (\u{a7} : nat) -> {};"), ("prog", "service : (\u{a7} : nat, \u{a7} : text) -> { f : (\u{a7} : int) -> () };"),
    ("prog", "type T = service { \u{a7} : func () -> () };"), ("prog", "import \u{a7};"), ("prog", "import service \u{a7};"), ("prog", "type \u{a7} = nat;"),
    ("prog", "// \u{a7}\ntype T = nat;"), ("prog", "/* \u{a7} */ type T = record { /* \u{a7} */ a : nat };"),
    ("type", "record { \u{a7} : nat }"), ("type", "variant { \u{a7} }"), ("type", "func (\u{a7} : nat) -> (\u{a7} : nat)"), ("type", "service { \u{a7} : () -> () }"), ("type", "record { \u{a7}; \u{a7} }"),
    ("types", "(\u{a7} : nat, \u{a7} : text)"), ("types", "(\u{a7})"),
    ("initargs", "(\u{a7} : nat)"), ("initargs", "type T = nat; (\u{a7} : T, \u{a7} : T)"),
    ("value", "\u{a7}"), ("value", "record { \u{a7} = 1 }"), ("value", "record { \u{a7}; \u{a7} }"), ("value", "variant { \u{a7} }"), ("value", "variant { \u{a7} = \u{a7} }"),
    ("value", "blob \u{a7}"), ("value", "principal \u{a7}"), ("value", "service \u{a7}"), ("value", "func \u{a7}.\u{a7}"), ("value", "func \"aaaaa-aa\".\u{a7}"), ("value", "vec { \u{a7}; \u{a7} }"), ("value", "opt \u{a7}"),
    ("value", "(\u{a7} : nat)"), ("value", "(\u{a7} : nat8)"), ("value", "(\u{a7} : int)"), ("value", "(\u{a7} : int64)"), ("value", "(\u{a7} : float32)"), ("value", "(\u{a7} : float64)"), ("value", "(\u{a7} : text)"),
    ("value", "-\u{a7}"), ("value", "+\u{a7}"), ("value", "\u{a7}.\u{a7}"), ("value", "\u{a7}e\u{a7}"), ("value", "0x\u{a7}"),
    ("args", "(\u{a7})"), ("args", "(\u{a7}, \u{a7})"), ("args", "(record { \u{a7} = \u{a7} })"), ("args", "(variant { \u{a7} = null })"), ("args", "(\u{a7} : nat)"),
    ("test", "assert blob \u{a7} : (nat);"), ("test", "assert \u{a7} : (nat);"), ("test", "assert \u{a7} == \u{a7} : (text);"), ("test", "assert blob \"DIDL\" !: () \u{a7};"),
    ("test", "type T = record { \u{a7} : nat }; assert \"(1)\" : (T) \u{a7};"), ("test", "assert \"(1)\" : (\u{a7} : nat);"), ("test", "import \u{a7}; assert \"()\" : ();"),
];
const EDGE_TEXTS: &[&str] = &["\"\"", "\"\\u{0}\"", "\"\\u{10FFFF}\"", "\"\\u{110000}\"", "\"\\u{D800}\"", "\"\\u{FFFFFFFF}\"", "\"\\u{100000000}\"", "\"\\u{100000041}\"",
    "\"\\u{FFFFFFFFFFFFFFFFFFFFFFFF}\"", "\"\\u{0_0_4_1}\"", "\"\\u{41_}\"", "\"\\u{_41}\"", "\"\\u{}\"", "\"\\u{0000000000000041}\"", "\"\\ff\"", "\"\\FF\\00\"", "\"\\f\"", "\"\\n\\t\\r\\\"\\'\\\\\"",
    "\"0\"", "\"1\"", "\"4294967295\"", "\"4294967296\"", "\"00\"", "\"+1\"", "\"-0\"", "\" \"", "\"\u{e9}\"", "\"\u{1F600}\"", "\"record\"", "\"null\"", "\"_\"", "\"_1_\"", "\"_4294967296_\"",
    "\"aaaaa-aa\"", "\"2vxsx-fae\"", "\"AAAAA-AA\"", "\"a\"", "\"DIDL\\00\\00\"", "a", "_", "_0_", "record", "id_9", "nan", "inf"];
const EDGE_NUMBERS: &[&str] = &["0", "00", "0_0", "255", "256", "65535", "65536", "4294967295", "4294967296", "9223372036854775807", "9223372036854775808",
    "18446744073709551615", "18446744073709551616", "340282366920938463463374607431768211455", "340282366920938463463374607431768211456",
    "99999999999999999999999999999999999999999999999999999999999999999999999999999999", "0x0", "0xff", "0xFFFFFFFF", "0x1_0000_0000", "0XFF", "0x", "0x_1", "1_", "1__0", "_1",
    "1.", "1.5", ".5", "1e10", "1e309", "1e-400", "1e", "1e+", "1.5e3", "0x1p10", "0x1.8p1", "0x.8p1", "0x1p", "1e99999999999999999999", "-0", "+0", "-1", "-0x1", "- 1", "1 . 5", "3.4028236e38", "1.7976931348623159e308"];

pub fn generate(prop: &str, thorough: bool, r: &mut Rng, em: &mut Emit) {
    let scale = if thorough { 15 } else { 1 };
    match prop {
        "C14" => {
            for _ in 0..120 * scale {
                let wa = r.coin(2, 3); let (env, actor) = gen_program(r, wa);
                em.stat("program.wellformed");
                em.case_nt("c14.check", &[env_sx(&env), actor_sx(&actor)], !env.is_empty());
                em.case_nt("p.c14.accepts", &[sx::hex(program(&env, &actor).as_bytes())], !env.is_empty());
                em.case_nt("p.c14.closed", &[env_sx(&env), actor_sx(&actor)], !env.is_empty());
                for (e, a, kind) in faults(r, &env, &actor) {
                    em.stat(&format!("fault.{}", kind));
                    em.case_nt("c14.check", &[env_sx(&e), actor_sx(&a)], true);
                    em.case_nt("p.c14.rejects", &[sx::hex(program(&e, &a).as_bytes())], true);
                }
            }
            // text-level faults that the id-based AST cannot express
            let texts_bad = ["type T = record { kviccgm : nat; jmst : nat };", "type T = variant { _nvs; ayadrnc };", "type T = record { a : nat; 97 : text };",
                "type T = func (a : nat, a : text) -> ();", "service : { f : (x : nat) -> (x : nat, x : nat) };", "type T = record { 1 : nat; nat; 2 : nat; nat; 3 : text };",
                "type T = record { 0 : nat; nat };  type U = record { nat; 0 : nat };", "service : { \"f\" : () -> (); f : () -> () };", "type S = service { f : nat };",
                "type T = T;", "type A = B; type B = A;", "service : nat;", "type T = nat; type T = nat;", "type F = func () -> () query oneway;", "type F = func () -> (nat) oneway;",
                "service : (nat) -> nat;", "type T = record { 4294967295 : nat; text };"];
            for t in texts_bad { em.case_nt("p.c14.rejects", &[sx::hex(t.as_bytes())], true); }
            let texts_ok = ["type T = record { a : nat; 98 : text };", "type F = func (a : nat, b : text) -> (a : nat);", "type T = record { 4294967294 : nat; text };",
                "type T = record { 4294967295 : nat };", "type T = opt T;", "type T = vec T;", "type A = B; type B = opt A;", "type S = service { f : F }; type F = func () -> ();",
                "type F = G; type G = func () -> () oneway; service : { m : F };", "type S = service {}; service : (S) -> S;", "type T = record { T };", ""];
            for t in texts_ok { em.case_nt("p.c14.accepts", &[sx::hex(t.as_bytes())], true); }
        }
        "C12" => {
            for _ in 0..150 * scale {
                let wa = r.coin(3, 4); let (env, actor) = gen_program(r, wa);
                em.stat(if actor.is_some() { "program.with-actor" } else { "program.no-actor" });
                em.case_nt("p.c12.roundtrip", &[env_sx(&env), actor_sx(&actor)], !env.is_empty() || actor.is_some());
            }
            // "the same holds for type environments exported from Rust types": every type of the native corpus
            for n in crate::native::NAMES { em.stat("export.rust-type"); em.case_nt("p.c12.export", &[n.to_string()], true); }
        }
        _ => { // C13
            let entries = ["prog", "type", "types", "initargs", "value", "args", "test"];
            // record numbering: boundary ids and shorthand fields (correspondence with the model of the grammar action)
            for _ in 0..150 * scale {
                let n = r.range(0, 5);
                let ls: Vec<String> = (0..n).map(|_| match r.below(8) {
                    0 => "(id 4294967295)".to_string(), 1 => "(id 4294967294)".to_string(), 2 | 3 => "(unnamed)".to_string(),
                    4 => format!("(id {})", r.below(4)), 5 => format!("(named {})", sx::hex(r.pick(&["a", "b", "zz"]).as_bytes())), _ => "(unnamed)".to_string() }).collect();
                em.case_nt("c13.record_ids", &[format!("({})", ls.join(" "))], n >= 2);
            }
            for _ in 0..1500 * scale {
                // token soup
                let n = r.range(1, 14);
                let mut s = String::new();
                for _ in 0..n { let t: &str = *r.pick(TOKENS); s.push_str(t); if r.coin(3, 4) { s.push(' '); } }
                let e: &str = *r.pick(&entries[..]);
                em.stat("soup");
                em.case_nt("p.c13.total", &[e.to_string(), sx::hex(s.as_bytes())], true);
            }
            for _ in 0..300 * scale {
                // grammar-directed sentence with one token deleted / duplicated / replaced
                let (env, actor) = gen_program(r, true);
                let text = program(&env, &actor);
                let toks: Vec<&str> = text.split_whitespace().collect();
                if toks.is_empty() { continue; }
                let mut m: Vec<String> = toks.iter().map(|x| x.to_string()).collect();
                let i = r.below(m.len() as u64) as usize;
                match r.below(3) { 0 => { m.remove(i); } 1 => { let x = m[i].clone(); m.insert(i, x); } _ => { let t: &str = *r.pick(TOKENS); m[i] = t.to_string(); } }
                em.stat("sentence-mutant");
                em.case_nt("p.c13.total", &["prog".to_string(), sx::hex(m.join(" ").as_bytes())], true);
                em.case_nt("p.c13.total", &["initargs".to_string(), sx::hex(m.join(" ").as_bytes())], true);
            }
            // every literal slot of the grammars crossed with a pool of boundary literals (quoted texts and numbers): a semantic action
            // that indexes, parses or folds the token text meets the empty text, escapes whose value does not fit, numbers at and
            // past every width
            for (entry, tpl) in SLOT_TEMPLATES {
                for lit in EDGE_TEXTS.iter().chain(EDGE_NUMBERS.iter()) {
                    let text = tpl.replace('\u{a7}', lit);
                    em.stat("slot-template");
                    em.case_nt("p.c13.total", &[entry.to_string(), sx::hex(text.as_bytes())], true);
                }
            }
            // nesting up to 128
            for depth in [10usize, 64, 100, 127, 128] {
                let ty = format!("{}nat{}", "opt ".repeat(depth), "");
                em.case_nt("p.c13.total", &["type".into(), sx::hex(ty.as_bytes())], true);
                let v = format!("({}null{})", "opt ".repeat(depth), "");
                em.case_nt("p.c13.total", &["args".into(), sx::hex(v.as_bytes())], true);
                let rec = format!("{}nat{}", "record { a : ".repeat(depth), " }".repeat(depth));
                em.case_nt("p.c13.total", &["prog".into(), sx::hex(format!("type T = {};", rec).as_bytes())], true);
                let vv = format!("({}1{})", "vec { ".repeat(depth), " }".repeat(depth));
                em.case_nt("p.c13.total", &["args".into(), sx::hex(vv.as_bytes())], true);
            }
        }
    }
    let _ = to_env;
}
