//! C17 (the generated JavaScript denotes the same interface) and C19 (all generators total, deterministic, closed, no injection).
//!   c17.order    <env> <actor>                       definition order and recursion set (analysis.rs)  -- compared with the model
//!   c17.denotes  <env> <actor> <factory> <init>      the type graph node builds from the generated JS -- the model decides structural equality
//!   p.c17.* / p.c19.*                                 predicates on the implementation alone
use crate::ops::c12::{actor_from, actor_sx, gen_program, load, program, quote};
use crate::ty::{env_from_sx, env_sx, Env, T};
use crate::{rng::Rng, sx, Emit};
use candid::TypeEnv;
use candid_parser::bindings::{analysis, javascript, motoko, rust, typescript};
use candid_parser::configs::Configs;
use candid_parser::syntax::{IDLMergedProg, IDLProg};
use std::str::FromStr;

type Checked = (TypeEnv, Option<candid::types::Type>, IDLMergedProg);
fn load_full(text: &str) -> Result<Checked, String> {
    let ast = IDLProg::from_str(text).map_err(|e| format!("parse: {}", e))?;
    let mut env = TypeEnv::new();
    let actor = candid_parser::check_prog(&mut env, &ast).map_err(|e| format!("check: {}", e))?;
    Ok((env, actor, IDLMergedProg::new(ast)))
}
fn hexname(s: &str) -> String { sx::hex(s.as_bytes()) }

/// run the generated JavaScript under node against the abstract IDL builder: Ok((factory, init)) each "env \t type"
fn node_eval(js: &str) -> Result<(String, String), String> {
    let dir = std::env::temp_dir();
    let path = dir.join(format!("verif_c17_{}_{:?}.js", std::process::id(), std::thread::current().id()));
    std::fs::write(&path, js).map_err(|e| e.to_string())?;
    let stub = concat!(env!("CARGO_MANIFEST_DIR"), "/js/idl_stub.js");
    let out = std::process::Command::new("node").arg(stub).arg(&path).output().map_err(|e| format!("node: {}", e));
    let _ = std::fs::remove_file(&path);
    let out = out?;
    let text = String::from_utf8_lossy(&out.stdout).to_string();
    let mut f = None; let mut i = None;
    for l in text.lines() {
        if let Some(r) = l.strip_prefix("factory\t") { f = Some(r.to_string()); }
        if let Some(r) = l.strip_prefix("init\t") { i = Some(r.to_string()); }
        if let Some(r) = l.strip_prefix("error\t") { return Err(format!("js: {}", r)); }
    }
    match (f, i) { (Some(f), Some(i)) => Ok((f, i)), _ => Err(format!("js: no output ({})", String::from_utf8_lossy(&out.stderr).lines().next().unwrap_or(""))) }
}
fn js_of(env: &Env, actor: &Option<T>) -> Result<String, String> {
    let (te, a, _) = load_full(&program(env, actor))?;
    Ok(javascript::compile(&te, &a))
}
pub fn denotes(env: &Env, actor: &Option<T>) -> (String, String) {
    match js_of(env, actor).and_then(|js| node_eval(&js)) {
        Ok((f, i)) => (f.replace('\t', " "), i.replace('\t', " ")),
        Err(e) => (format!("error:{}", e.replace(['\t', '\n'], " ")), "-".into()),
    }
}

// ---- lexers that blank out comments and string literals of a target language, to see what text is CODE -------------
fn strip(text: &str, lang: &str) -> String {
    let b: Vec<char> = text.chars().collect();
    let mut out = String::new();
    let mut i = 0;
    let nested = lang == "mo" || lang == "rs";
    while i < b.len() {
        let c = b[i];
        let next = if i + 1 < b.len() { b[i + 1] } else { '\0' };
        if c == '/' && next == '/' { while i < b.len() && b[i] != '\n' { i += 1; } continue; }
        if c == '/' && next == '*' {
            let mut depth = 1; i += 2;
            while i < b.len() && depth > 0 {
                if b[i] == '*' && i + 1 < b.len() && b[i + 1] == '/' { depth -= 1; i += 2; }
                else if nested && b[i] == '/' && i + 1 < b.len() && b[i + 1] == '*' { depth += 1; i += 2; }
                else { i += 1; }
            }
            out.push(' '); continue;
        }
        if lang == "rs" && c == 'r' && (next == '"' || next == '#') {
            // raw string r#"..."#
            let mut j = i + 1; let mut hashes = 0;
            while j < b.len() && b[j] == '#' { hashes += 1; j += 1; }
            if j < b.len() && b[j] == '"' {
                j += 1;
                'outer: while j < b.len() {
                    if b[j] == '"' { let mut k = 0; while k < hashes && j + 1 + k < b.len() && b[j + 1 + k] == '#' { k += 1; } if k == hashes { j += 1 + hashes; break 'outer; } }
                    j += 1;
                }
                i = j; out.push_str("\"\""); continue;
            }
        }
        let is_quote = c == '"' || ((lang == "js" || lang == "ts") && (c == '\'' || c == '`'));
        if is_quote {
            let q = c; i += 1;
            while i < b.len() && b[i] != q { if b[i] == '\\' { i += 1; } if (lang == "js" || lang == "ts") && q != '`' && i < b.len() && b[i] == '\n' { break; } i += 1; }
            i += 1; out.push_str("\"\""); continue;
        }
        if lang == "rs" && c == '\'' {
            // char literal or lifetime
            if next == '\\' { let mut j = i + 2; while j < b.len() && b[j] != '\'' { j += 1; } i = j + 1; out.push(' '); continue; }
            if i + 2 < b.len() && b[i + 2] == '\'' { i += 3; out.push(' '); continue; }
        }
        out.push(c); i += 1;
    }
    out
}

const MARK: &str = "INJ3CT";
/// programs whose comments and quoted names try to break out of the comment / string they are printed in
fn hostile_programs() -> Vec<String> {
    let payloads = ["*/ INJ3CT /*", "\"; INJ3CT; \"", "'); INJ3CT; ('", "` + INJ3CT + `", "${INJ3CT}", "\\", "\\' INJ3CT '", "*/", "/* INJ3CT", "--> INJ3CT", "\u{2028} INJ3CT", "\r INJ3CT", "#[INJ3CT]", "{{INJ3CT}}", "}}} INJ3CT {{{"];
    let mut out = vec![];
    for p in payloads.iter() {
        let name = crate::ops::c15::quote_name(p);
        let doc = p.replace(['\n', '\r'], " ");
        out.push(format!("// {doc}\ntype T = record {{\n  // {doc}\n  {name} : nat;\n  // second {doc}\n  b : variant {{ {name} ; c : text }};\n}};\n// {doc}\nservice : {{\n  // {doc}\n  {name} : (T) -> (T) query;\n  // {doc}\n  g : () -> ();\n}}\n"));
        out.push(format!("// {doc}\ntype S = service {{ {name} : () -> (); f : (record {{ {name} : nat }}) -> () }};\n// {doc}\nservice : (S) -> S\n"));
    }
    out
}
fn is_ident(s: &str) -> bool { !s.is_empty() && s.chars().enumerate().all(|(i, c)| if i == 0 { c.is_ascii_alphabetic() || c == '_' } else { c.is_ascii_alphanumeric() || c == '_' }) }

fn compile_target(target: &str, c: &Checked) -> String {
    let (env, actor, prog) = c;
    match target {
        "js" => javascript::compile(env, actor),
        "ts" => typescript::compile(env, actor, prog),
        "mo" => motoko::compile(env, actor, prog),
        _ => { let cfg = rust::Config::new(Configs::from_str("").unwrap()); let mut ext = rust::ExternalConfig::default(); ext.0.insert("canister_id".into(), "aaaaa-aa".into()); rust::compile(&cfg, env, actor, prog, ext).0 }
    }
}

pub fn eval(op: &str, a: &[&str]) -> Option<String> {
    Some(match op {
        "c17.order" => {
            let env = env_from_sx(a[0]); let actor = actor_from(a[1]);
            let (te, act, _) = match load_full(&program(&env, &actor)) { Ok(x) => x, Err(e) => return Some(format!("(load-error {})", e)) };
            let act = act?;
            let defs = match analysis::chase_actor(&te, &act) { Ok(d) => d, Err(_) => return Some("(err)".into()) };
            let recs = match analysis::infer_rec(&te, &defs) { Ok(d) => d, Err(_) => return Some("(err)".into()) };
            format!("(ok ({}) ({}))", defs.iter().map(|d| hexname(d)).collect::<Vec<_>>().join(" "), recs.iter().map(|d| hexname(d)).collect::<Vec<_>>().join(" "))
        }
        "c17.denotes" => {
            let env = env_from_sx(a[0]); let actor = actor_from(a[1]);
            let (f, i) = denotes(&env, &actor);
            if f.starts_with("error:") { format!("({})", f) } else if f == a[2] && i == a[3] { "(ok)".into() } else { "(nondeterministic)".into() }
        }
        "p.c17.idents" => {
            // every `const X` of the generated JavaScript is declared once, is not a reserved word, and nothing but declared names,
            // IDL members and the module's own vocabulary appears as a bare identifier
            let env = env_from_sx(a[0]); let actor = actor_from(a[1]);
            let js = match js_of(&env, &actor) { Ok(j) => j, Err(e) => return Some(format!("FAIL {}", e)) };
            let code = strip(&js, "js");
            let reserved = ["abstract","arguments","await","boolean","break","byte","case","catch","char","class","continue","debugger","default","delete","do","double","else","enum","eval","extends","false","final","finally","float","for","function","goto","if","implements","import","in","instanceof","int","interface","let","long","native","new","null","package","private","protected","public","short","static","super","switch","synchronized","this","throw","throws","transient","true","try","typeof","var","void","volatile","while","with","yield"];
            let toks: Vec<String> = code.split(|c: char| !(c.is_alphanumeric() || c == '_' || c == '$')).filter(|t| !t.is_empty()).map(|t| t.to_string()).collect();
            // the two factories are separate scopes
            for part in code.split("export const ") {
                let mut declared: Vec<String> = vec![];
                let ptoks: Vec<&str> = part.split(|c: char| !(c.is_alphanumeric() || c == '_' || c == '$')).filter(|t| !t.is_empty()).collect();
                for w in ptoks.windows(2) { if w[0] == "const" { if declared.contains(&w[1].to_string()) { return Some(format!("FAIL {} declared twice", w[1])); } declared.push(w[1].to_string()); } }
                for d in &declared { if reserved.contains(&d.as_str()) { return Some(format!("FAIL reserved word {} declared", d)); } }
            }
            for t in &toks {
                if reserved.contains(&t.as_str()) { return Some(format!("FAIL reserved word {} used as an identifier", t)); }
            }
            "ok".into()
        }
        "p.c19.total" => {
            // a[0] target, a[1] program text (hex): returns, twice the same
            let text = String::from_utf8(sx::unhex(a[1])).ok()?;
            let c = match load_full(&text) { Ok(c) => c, Err(e) => return Some(format!("FAIL not a checked program: {}", e)) };
            let o1 = compile_target(a[0], &c); let o2 = compile_target(a[0], &c);
            let c2 = load_full(&text).ok()?; let o3 = compile_target(a[0], &c2);
            if o1 != o2 || o1 != o3 { return Some("FAIL output differs between runs".into()); }
            // JavaScript / TypeScript: no name is defined twice (each of the two JavaScript factories is its own scope)
            if a[0] == "js" || a[0] == "ts" {
                let code = strip(&o1, a[0]);
                for part in (if a[0] == "js" { code.split("export const ").collect::<Vec<_>>() } else { vec![code.as_str()] }) {
                    let toks: Vec<&str> = part.split(|c: char| !(c.is_alphanumeric() || c == '_' || c == '$')).filter(|t| !t.is_empty()).collect();
                    let mut declared: Vec<&str> = vec![];
                    for w in toks.windows(3) {
                        let d = if a[0] == "js" { if w[0] == "const" { Some(w[1]) } else { None } } else if w[0] == "export" && (w[1] == "type" || w[1] == "interface") { Some(w[2]) } else { None };
                        if let Some(d) = d { if declared.contains(&d) { return Some(format!("FAIL {} is defined twice", d)); } declared.push(d); }
                    }
                }
            }
            "ok".into()
        }
        "p.c19.inject" => {
            // nothing taken from a comment or a quoted name ends up as code: the marker never survives removing comments and strings
            let text = String::from_utf8(sx::unhex(a[1])).ok()?;
            let c = match load_full(&text) { Ok(c) => c, Err(e) => return Some(format!("FAIL not a checked program: {}", e)) };
            let out = compile_target(a[0], &c);
            let code = strip(&out, a[0]);
            if code.contains(MARK) { format!("FAIL marker in code: {}", code.lines().find(|l| l.contains(MARK)).unwrap_or("").trim()) } else { "ok".into() }
        }
        "p.c19.methods" => {
            // the main service's methods are renamed to unique tokens meth<k>q: the output mentions each exactly as often as the target
            // mentions a method (once; the Rust binding twice: the function and the name it calls)
            let text = String::from_utf8(sx::unhex(a[1])).ok()?;
            let c = match load_full(&text) { Ok(c) => c, Err(e) => return Some(format!("FAIL not a checked program: {}", e)) };
            let out = compile_target(a[0], &c);
            let n: usize = a[2].parse().ok()?;
            let expect = if a[0] == "rs" { 2 } else { 1 };
            for k in 0..n { let m = format!("meth{}q", k); let cnt = out.matches(&m).count(); if cnt != expect { return Some(format!("FAIL method {} mentioned {} times, expected {}", m, cnt, expect)); } }
            "ok".into()
        }
        "c19.esc_doc" => {
            // the TypeScript binding's doc comment for one line of documentation, as printed
            let line = String::from_utf8(sx::unhex(a[0])).ok()?;
            let text = format!("// {}\ntype T = nat;\nservice : {{ f : (T) -> () }}\n", line);
            let c = match load_full(&text) { Ok(c) => c, Err(e) => return Some(format!("(load-error {})", e)) };
            let out = compile_target("ts", &c);
            match out.lines().skip_while(|l| l.trim() != "/**").nth(1) {
                Some(l) => format!("(ok {})", sx::hex(l.strip_prefix(" * ").unwrap_or(l).as_bytes())),
                None => "(no-doc-comment)".into(),
            }
        }
        "p.c19.escape_debug" => {
            // every scalar value in [a0, a1): its escape_debug, in first and in later position of a string, has the shape esc_ok
            let lo: u32 = a[0].parse().ok()?; let hi: u32 = a[1].parse().ok()?;
            let plain = |c: char| !matches!(c, '\'' | '"' | '\\' | '\n' | '\r');
            let ok = |e: &str| { let cs: Vec<char> = e.chars().collect(); match cs.len() { 0 => false, 1 => plain(cs[0]), _ => cs[0] == '\\' && cs[1] != '\n' && cs[1] != '\r' && cs[2..].iter().all(|c| plain(*c)) } };
            for u in lo..hi {
                if let Some(c) = char::from_u32(u) {
                    let first = c.to_string().escape_debug().to_string();
                    let later = format!("x{}", c).escape_debug().to_string();
                    if !ok(&first) { return Some(format!("FAIL U+{:04X} in first position escapes to {:?}", u, first)); }
                    if !later.starts_with('x') || !ok(&later[1..]) { return Some(format!("FAIL U+{:04X} in later position escapes to {:?}", u, later)); }
                }
            }
            "ok".into()
        }
        "p.c19.keywords" => {
            // a[0] target, a[1] a reserved word k of the target: a program that uses k as a type name, a field label, a variant tag and a
            // method name must not have ONE more bare occurrence of k in its output than the same program with a neutral name
            let k = a[1];
            let candid_kw = crate::ops::c15::KEYWORDS.contains(&k);
            let prog2 = |n: &str, as_type: bool| -> String {
                let l = crate::ops::c15::quote_name(n);
                let tyname = if !as_type || candid_kw || !is_ident(n) { "Tq".to_string() } else { n.to_string() };
                let meth = if is_ident(n) { l.clone() } else { "mq".to_string() };
                format!("type {t} = record {{ {l} : nat; b : variant {{ {l}; c : opt {t} }} }};\ntype Uq = vec {t};\nservice : {{ {m} : ({t}) -> (Uq) }}\n", t = tyname, l = l, m = meth)
            };
            let count = |text: &str, w: &str| strip(text, a[0]).split(|c: char| !(c.is_alphanumeric() || c == '_' || c == '#' || c == '$')).filter(|t| *t == w).count();
            // (a word the Candid grammar itself reserves cannot name a type: it is then used as label, tag and method only)
            let as_type = load_full(&prog2(k, true)).is_ok();
            let prog = |n: &str| prog2(n, as_type);
            let with_k = match load_full(&prog(k)) { Ok(c) => compile_target(a[0], &c), Err(e) => return Some(format!("FAIL not a checked program: {}", e)) };
            let neutral = match load_full(&prog("zzq")) { Ok(c) => compile_target(a[0], &c), Err(e) => return Some(format!("FAIL {}", e)) };
            let (ck, cn) = (count(&with_k, k), count(&neutral, k));
            if ck == cn { "ok".into() } else { format!("FAIL the reserved word {} appears {} times as a bare token, {} times when the program does not use it", k, ck, cn) }
        }
        "c19.show" => {
            let text = String::from_utf8(sx::unhex(a[1])).ok()?;
            let c = match load_full(&text) { Ok(c) => c, Err(e) => return Some(format!("FAIL {}", e)) };
            if a[0] == "rs.types" {
                let cfg = rust::Config::new(Configs::from_str("").unwrap());
                let (out, _) = rust::emit_bindgen(&cfg, &c.0, &c.1, &c.2);
                return Some(format!("{}\n--methods--\n{}", out.type_defs, out.methods.iter().map(|m| format!("{} {:?} -> {:?} mode={}", m.name, m.args, m.rets, m.mode)).collect::<Vec<_>>().join("\n")).replace('\n', "\u{1}"));
            }
            compile_target(a[0], &c).replace('\n', "\u{1}")
        }
        "p.c19.closed.js" => {
            // the JavaScript evaluates: every name it uses is declared before use or declared recursive first
            let env = env_from_sx(a[0]); let actor = actor_from(a[1]);
            let (f, _) = denotes(&env, &actor);
            if f.starts_with("error:") { format!("FAIL {}", f) } else { "ok".into() }
        }
        _ => return None,
    })
}

fn docs_program(env: &Env, actor: &Option<T>) -> (String, usize) {
    // one method per line, each with its own doc marker
    let mut s: String = env.iter().map(|(n, t)| format!("// about {}\ntype {} = {};\n", n, n, crate::ops::c12::did(t))).collect();
    let mut k = 0;
    if let Some(a) = actor {
        let (args, body) = match a { T::Class(args, b) => (Some(args.clone()), (**b).clone()), o => (None, o.clone()) };
        let head = match &args { Some(a) => format!("service : ({}) -> ", a.iter().map(crate::ops::c12::did).collect::<Vec<_>>().join(", ")), None => "service : ".into() };
        match body {
            T::Serv(ms) => {
                s.push_str(&head); s.push_str("{\n");
                for (_, t) in &ms { s.push_str(&format!("  // about method {}\n  meth{}q : {};\n", k, k, match t { T::Func(..) => crate::ops::c12::did(t)[5..].to_string(), o => crate::ops::c12::did(o) })); k += 1; }
                s.push_str("}\n");
            }
            o => { s.push_str(&head); s.push_str(&crate::ops::c12::did(&o)); s.push_str(";\n"); }
        }
    }
    (s, k)
}

/// turn the main service into a constructor whose 2-3 init arguments mention the same definitions
fn share_init_args(r: &mut Rng, env: &Env, actor: &Option<T>) -> Option<T> {
    if env.is_empty() { return None; }
    let body = match actor.as_ref()? { T::Class(_, b) => (**b).clone(), o => o.clone() };
    let d = |r: &mut Rng| T::var(&env[r.below(env.len() as u64) as usize].0);
    let d0 = d(r);
    let mut args = vec![d0.clone(), T::opt(d0.clone())];
    if r.coin(1, 2) { args.push(T::rec(vec![(0, d(r)), (1, T::vec(d0))])); }
    Some(T::Class(args, Box::new(body)))
}

pub fn generate(prop: &str, thorough: bool, r: &mut Rng, em: &mut Emit) {
    let scale = if thorough { 10 } else { 1 };
    match prop {
        "C17" => {
            for _ in 0..(60 * scale) {
                let (env, mut actor) = gen_program(r, true);
                if actor.is_none() { continue; }
                if r.coin(1, 3) { if let Some(a) = share_init_args(r, &env, &actor) { actor = Some(a); em.stat("init-args-share-definitions"); } }
                let nt = !env.is_empty();
                em.stat(&format!("defs.{}", env.len().min(5)));
                em.case_nt("c17.order", &[env_sx(&env), actor_sx(&actor)], nt);
                let (f, i) = denotes(&env, &actor);
                em.case_nt("c17.denotes", &[env_sx(&env), actor_sx(&actor), f, i], nt);
                em.case_nt("p.c17.idents", &[env_sx(&env), actor_sx(&actor)], nt);
            }
        }
        _ => { // C19
            for _ in 0..(40 * scale) {
                let wa = r.coin(3, 4);
                let (env, mut actor) = gen_program(r, wa);
                if r.coin(1, 3) { if let Some(a) = share_init_args(r, &env, &actor) { actor = Some(a); em.stat("init-args-share-definitions"); } }
                let text = program(&env, &actor);
                let h = sx::hex(text.as_bytes());
                let nt = !env.is_empty();
                let methods_of = |a: &Option<T>| -> Vec<(String, T)> { match a { Some(T::Serv(ms)) => ms.clone(), Some(T::Class(_, b)) => match &**b { T::Serv(ms) => ms.clone(), _ => vec![] }, _ => vec![] } };
                let _ = methods_of;
                fn all_methods_ident(t: &T) -> bool {
                    match t {
                        T::Serv(ms) => ms.iter().all(|m| is_ident(&m.0) && all_methods_ident(&m.1)),
                        T::Opt(x) | T::Vec(x) => all_methods_ident(x),
                        T::Rec(fs) | T::Variant(fs) => fs.iter().all(|f| all_methods_ident(&f.1)),
                        T::Func(a, r, _) => a.iter().chain(r.iter()).all(all_methods_ident),
                        T::Class(a, b) => a.iter().all(all_methods_ident) && all_methods_ident(b),
                        _ => true,
                    }
                }
                let mo_ok = env.iter().all(|d| all_methods_ident(&d.1)) && actor.as_ref().map_or(true, all_methods_ident);
                for target in ["js", "ts", "mo", "rs"] {
                    if target == "mo" && !mo_ok { em.stat("motoko.skipped-non-identifier-method"); continue; }
                    em.case_nt("p.c19.total", &[target.into(), h.clone()], nt);
                }
                if actor.is_some() { em.case_nt("p.c19.closed.js", &[env_sx(&env), actor_sx(&actor)], nt); }
                let (dt, n) = docs_program(&env, &actor);
                if n > 0 {
                    let dh = sx::hex(dt.as_bytes());
                    for target in ["js", "ts", "mo", "rs"] {
                        if target == "mo" && !mo_ok { continue; }
                        em.case_nt("p.c19.methods", &[target.into(), dh.clone(), n.to_string()], true);
                    }
                }
            }
            for p in hostile_programs() {
                let h = sx::hex(p.as_bytes());
                for target in ["js", "ts", "rs"] {
                    em.stat("hostile");
                    em.case_nt("p.c19.total", &[target.into(), h.clone()], true);
                    em.case_nt("p.c19.inject", &[target.into(), h.clone()], true);
                }
            }
            for k in 0..0x11u32 { em.case_nt("p.c19.escape_debug", &[(k * 0x10000).to_string(), ((k + 1) * 0x10000).to_string()], true); }
            for line in ["*/", "**/", "*/*/", "a*/b", "* /", "*\\/", "*", "/", "/*", "*/ */ **/ /* */", "\u{e9}*/\u{1F600}", "x", "***///"] {
                em.case_nt("c19.esc_doc", &[sx::hex(line.as_bytes())], true);
            }
            for _ in 0..(60 * scale) {
                let n = r.range(1, 12) as usize;
                let line: String = (0..n).map(|_| *r.pick(&['*', '/', '*', '/', 'a', '\\', ' ', '\u{e9}'])).collect();
                let line = line.trim().to_string();
                if line.is_empty() { continue; }
                em.case_nt("c19.esc_doc", &[sx::hex(line.as_bytes())], true);
            }
            // reserved words of each target used as names (the tables are the targets' own, copied here: dropping a word from the
            // generator's table, or failing to find it there, lets the word through)
            const JS_KW: &[&str] = &["abstract","arguments","await","boolean","break","byte","case","catch","char","class","const","continue","debugger","default","delete","do","double","else","enum","eval","export","extends","false","final","finally","float","for","function","goto","if","implements","import","in","instanceof","int","interface","let","long","native","new","null","package","private","protected","public","return","short","static","super","switch","synchronized","this","throw","throws","transient","true","try","typeof","var","void","volatile","while","with","yield"];
            const MO_KW: &[&str] = &["actor","and","async","assert","await","break","case","catch","class","continue","composite","debug","debug_show","else","false","flexible","for","from_candid","func","if","in","import","module","not","null","object","or","label","let","loop","private","public","query","return","shared","stable","switch","system","try","throw","to_candid","true","type","var","while","with"];
            const RS_KW: &[&str] = &["as","break","const","continue","crate","else","enum","extern","false","fn","for","if","impl","in","let","loop","match","mod","move","mut","pub","ref","return","self","Self","static","struct","super","trait","true","type","unsafe","use","where","while","async","await","dyn","abstract","become","box","do","final","macro","override","priv","typeof","unsized","virtual","yield","try"];
            for k in JS_KW { em.case_nt("p.c19.keywords", &["js".into(), k.to_string()], true); em.case_nt("p.c19.keywords", &["ts".into(), k.to_string()], true); }
            for k in MO_KW { em.case_nt("p.c19.keywords", &["mo".into(), k.to_string()], true); }
            for k in RS_KW { em.case_nt("p.c19.keywords", &["rs".into(), k.to_string()], true); }
            // Motoko needs identifier method names: hostile comments only
            for doc in ["*/ INJ3CT /*", "\" INJ3CT", "/* INJ3CT", "*/"] {
                let p = format!("// {doc}\ntype T = record {{\n  // {doc}\n  a : nat;\n}};\n// {doc}\nservice : {{\n  // {doc}\n  f : (T) -> (T) query;\n}}\n");
                let h = sx::hex(p.as_bytes());
                em.case_nt("p.c19.total", &["mo".into(), h.clone()], true);
                em.case_nt("p.c19.inject", &["mo".into(), h], true);
            }
        }
    }
}
