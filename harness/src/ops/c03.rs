//! C03 / C10 / C04 on the untyped API: typed and untyped encoding is well-formed (checked by the model's
//! decoder), annotate_type, and "accepted subtyping means decoding at the supertype cannot fail".
use crate::ty::{env_from_sx, env_sx, gen_env, gen_type, mutate_type, to_env, Env, GenCfg, T};
use crate::val::{gen_val, vals_sx, V};
use crate::{rng::Rng, sx, Emit};
use candid::types::subtype::{subtype_with_config, Gamma, OptReport};
use candid::types::value::IDLValue;
use candid::IDLArgs;

fn tys_sx(ts: &[T]) -> String { format!("({})", ts.iter().map(|t| t.sx()).collect::<Vec<_>>().join(" ")) }
fn tys_from(s: &str) -> Vec<T> { sx::parse(s).list().iter().map(T::from_sx).collect() }
fn vals_from(s: &str) -> Vec<V> { sx::parse(s).list().iter().map(V::from_sx).collect() }
fn vlist(vs: &[V]) -> String { format!("({})", vals_sx(vs)) }

fn encode_typed(env: &Env, ts: &[T], vs: &[V]) -> Option<Vec<u8>> {
    let args = IDLArgs::new(&vs.iter().map(|v| v.to_idl()).collect::<Vec<_>>());
    let tys: Vec<candid::types::Type> = ts.iter().map(|t| t.to_type()).collect();
    args.to_bytes_with_types(&to_env(env), &tys).ok()
}
fn encode_typed_rev(env: &Env, ts: &[T], vs: &[V]) -> Option<Vec<u8>> {
    let args = IDLArgs::new(&vs.iter().map(|v| v.to_idl_rev()).collect::<Vec<_>>());
    let tys: Vec<candid::types::Type> = ts.iter().map(|t| t.to_type()).collect();
    args.to_bytes_with_types(&to_env(env), &tys).ok()
}
fn has_wide_record(v: &V) -> bool {
    match v { V::Rec(fs) => fs.len() >= 2 || fs.iter().any(|f| has_wide_record(&f.1)), V::Opt(Some(x)) | V::Variant(_, x) => has_wide_record(x), V::Vec(xs) => xs.iter().any(has_wide_record), _ => false }
}
fn encode_untyped(vs: &[V]) -> Option<Vec<u8>> {
    IDLArgs::new(&vs.iter().map(|v| v.to_idl()).collect::<Vec<_>>()).to_bytes().ok()
}
fn sub(env: &Env, a: &T, b: &T) -> bool {
    let mut g = Gamma::new();
    subtype_with_config(OptReport::Silence, &mut g, &to_env(env), &a.to_type(), &b.to_type()).is_ok()
}
/// v1 ~ v2 for the least congruence with  opt v ~ null
fn approx(a: &V, b: &V) -> bool {
    match (a, b) {
        (V::Opt(_), V::Opt(None)) | (V::Opt(None), V::Opt(_)) => true,
        (V::Opt(Some(x)), V::Opt(Some(y))) => approx(x, y),
        (V::Vec(x), V::Vec(y)) => x.len() == y.len() && x.iter().zip(y).all(|(p, q)| approx(p, q)),
        (V::Rec(x), V::Rec(y)) => x.len() == y.len() && x.iter().zip(y).all(|(p, q)| p.0 == q.0 && approx(&p.1, &q.1)),
        (V::Variant(i, x), V::Variant(j, y)) => i == j && approx(x, y),
        (x, y) => x == y,
    }
}

pub fn eval(op: &str, a: &[&str]) -> Option<String> {
    Some(match op {
        "c03.wf" => {
            // the bytes in a[3] were produced by typed encoding at generation time: re-encode and compare
            let (env, ts, vs) = (env_from_sx(a[0]), tys_from(a[1]), vals_from(a[2]));
            match (encode_typed(&env, &ts, &vs), a[3]) {
                (None, "err") => "(err)".into(),
                (Some(b), h) if sx::hex(&b) == h && encode_typed(&env, &ts, &vs) == Some(b.clone()) => "(ok)".into(),
                (Some(_), _) => "(bytes-changed-or-nondeterministic)".into(),
                (None, _) => "(err)".into(),
            }
        }
        "c03.wf.rev" => {
            // the same values handed over with every record's fields in descending order: the message must not depend on it
            let (env, ts, vs) = (env_from_sx(a[0]), tys_from(a[1]), vals_from(a[2]));
            match (encode_typed_rev(&env, &ts, &vs), a[3]) {
                (None, "err") => "(err)".into(),
                (Some(b), h) if sx::hex(&b) == h => "(ok)".into(),
                (Some(_), _) => "(bytes-changed-or-nondeterministic)".into(),
                (None, _) => "(err)".into(),
            }
        }
        "c10.annotate.rev" => {
            let p = a[0] == "1"; let env = env_from_sx(a[1]); let t = T::from_sx(&sx::parse(a[2])); let v = V::from_sx(&sx::parse(a[3]));
            match v.to_idl_rev().annotate_type(p, &to_env(&env), &t.to_type()) { Ok(w) => format!("(ok {})", V::from_idl(&w).sx()), Err(_) => "(err)".into() }
        }
        "c03.encode" => {
            // the bytes of the typed encoder, compared byte for byte with the model's mirror of TypeSerialize + M
            let (env, ts, vs) = (env_from_sx(a[0]), tys_from(a[1]), vals_from(a[2]));
            match encode_typed(&env, &ts, &vs) { Some(b) => sx::hex(&b), None => "(err)".into() }
        }
        "c03.wf_untyped" => {
            let vs = vals_from(a[0]);
            match (encode_untyped(&vs), a[1]) {
                (None, "err") => "(err)".into(),
                (Some(b), h) if sx::hex(&b) == h && encode_untyped(&vs) == Some(b.clone()) => "(ok)".into(),
                (Some(_), _) => "(bytes-changed-or-nondeterministic)".into(),
                (None, _) => "(err)".into(),
            }
        }
        "c10.annotate" | "c10.annotate.blob" => {
            let p = a[0] == "1"; let env = env_from_sx(a[1]); let t = T::from_sx(&sx::parse(a[2])); let v = V::from_sx(&sx::parse(a[3]));
            let iv = if op.ends_with(".blob") { v.to_idl_blob() } else { v.to_idl() };
            match iv.annotate_type(p, &to_env(&env), &t.to_type()) { Ok(w) => format!("(ok {})", V::from_idl(&w).sx()), Err(_) => "(err)".into() }
        }
        "p.c10.roundtrip" | "p.c10.roundtrip.ref-over-record-cycle" | "p.c10.roundtrip.blob" => {
            // v : t  =>  annotate keeps it, typed encoding then decoding at t (and with no expected type) returns it
            let env = env_from_sx(a[0]); let t = T::from_sx(&sx::parse(a[1])); let v = V::from_sx(&sx::parse(a[2]));
            let te = to_env(&env); let ty = t.to_type();
            let iv = if op.ends_with(".blob") { v.to_idl_blob() } else { v.to_idl() };
            let an = match iv.annotate_type(true, &te, &ty) { Ok(w) => w, Err(e) => return Some(format!("FAIL annotate rejects an inhabitant: {}", e)) };
            if V::from_idl(&an) != v { return Some("FAIL annotate changes the value".into()); }
            let an2 = match iv.annotate_type(false, &te, &ty) { Ok(w) => w, Err(e) => return Some(format!("FAIL annotate(false) rejects an inhabitant: {}", e)) };
            if V::from_idl(&an2) != v { return Some("FAIL annotate(false) changes the value".into()); }
            let b = match IDLArgs::new(&[iv.clone()]).to_bytes_with_types(&te, &[ty.clone()]) { Ok(b) => b, Err(e) => return Some(format!("FAIL typed encoding rejects an inhabitant: {}", e)) };
            match IDLArgs::from_bytes_with_types(&b, &te, &[ty.clone()]) {
                Ok(d) => if V::from_idl(&d.args[0]) != v { return Some("FAIL decode at t differs".into()); },
                Err(e) => return Some(format!("FAIL decode at t: {}", e)),
            }
            match IDLArgs::from_bytes(&b) {
                Ok(d) => if d.args.len() != 1 || V::from_idl(&d.args[0]) != v { return Some("FAIL decode with no expected type differs".into()); },
                Err(e) => return Some(format!("FAIL untyped decode: {}", e)),
            }
            "ok".into()
        }
        "p.c04.sound" | "p.c04.sound.opt-cycle" | "p.c04.sound.ref-over-record-cycle" => {
            // subtype(t, t') accepted  =>  every v : t, encoded at t, decodes at t' to a value the annotator accepts at t'
            let env = env_from_sx(a[0]); let t = T::from_sx(&sx::parse(a[1])); let t2 = T::from_sx(&sx::parse(a[2])); let v = V::from_sx(&sx::parse(a[3]));
            if !sub(&env, &t, &t2) { return Some("ok".into()); }
            let te = to_env(&env);
            let b = match encode_typed(&env, &[t.clone()], &[v.clone()]) { Some(b) => b, None => return Some("FAIL cannot encode inhabitant".into()) };
            match IDLArgs::from_bytes_with_types(&b, &te, &[t2.to_type()]) {
                Err(e) => Some(format!("FAIL checker accepts t <: t' but decoding at t' fails: {}", e)).unwrap(),
                Ok(d) => match d.args[0].annotate_type(true, &te, &t2.to_type()) {
                    Ok(w) if V::from_idl(&w) == V::from_idl(&d.args[0]) => "ok".into(),
                    Ok(_) => "FAIL decoded value is changed by annotation at t'".into(),
                    Err(e) => format!("FAIL decoded value is not of type t': {}", e),
                },
            }
        }
        "c04.sub_implies_coerce" => {
            let env = env_from_sx(a[0]); let t = T::from_sx(&sx::parse(a[1])); let t2 = T::from_sx(&sx::parse(a[2]));
            if sub(&env, &t, &t2) { "1".into() } else { "0".into() }
        }
        "p.c04.chain" | "p.c04.chain.opt-cycle" | "p.c04.chain.ref-over-record-cycle" => {
            // t <: t' <: t'': decoding via t' and re-encoding differs from decoding directly at t'' only by opt ~ null
            let env = env_from_sx(a[0]);
            let (t, t1, t2) = (T::from_sx(&sx::parse(a[1])), T::from_sx(&sx::parse(a[2])), T::from_sx(&sx::parse(a[3])));
            let v = V::from_sx(&sx::parse(a[4]));
            if !(sub(&env, &t, &t1) && sub(&env, &t1, &t2) && sub(&env, &t, &t2)) { return Some("ok".into()); }
            let te = to_env(&env);
            let b = match encode_typed(&env, &[t.clone()], &[v.clone()]) { Some(b) => b, None => return Some("FAIL cannot encode inhabitant".into()) };
            let direct = match IDLArgs::from_bytes_with_types(&b, &te, &[t2.to_type()]) { Ok(d) => V::from_idl(&d.args[0]), Err(e) => return Some(format!("FAIL direct decode: {}", e)) };
            let mid = match IDLArgs::from_bytes_with_types(&b, &te, &[t1.to_type()]) { Ok(d) => d, Err(e) => return Some(format!("FAIL decode at the intermediate type: {}", e)) };
            let b2 = match mid.to_bytes_with_types(&te, &[t1.to_type()]) { Ok(b) => b, Err(e) => return Some(format!("FAIL re-encode at the intermediate type: {}", e)) };
            let via = match IDLArgs::from_bytes_with_types(&b2, &te, &[t2.to_type()]) { Ok(d) => V::from_idl(&d.args[0]), Err(e) => return Some(format!("FAIL decode of the re-encoded value: {}", e)) };
            if approx(&direct, &via) { "ok".into() } else { format!("FAIL direct {} vs via {}", direct.sx(), via.sx()) }
        }
        _ => return None,
    })
}

/// untyped encoding infers a vector's element type from its first element: only values whose vectors are
/// uniform in that sense can be encoded without an explicit type
fn uniform(v: &IDLValue) -> bool {
    match v {
        IDLValue::Vec(vs) => vs.iter().all(uniform) && vs.windows(2).all(|w| w[0].value_ty() == w[1].value_ty()),
        IDLValue::Opt(x) => uniform(x),
        IDLValue::Record(fs) => fs.iter().all(|f| uniform(&f.val)),
        IDLValue::Variant(x) => uniform(&x.0.val),
        _ => true,
    }
}
/// does some definition reach itself through record fields only (inline or named)? The header parser replaces
/// such table entries by `empty` (replace_empty)
fn rec_cycle(env: &Env, t: &T, stack: &mut Vec<String>) -> bool {
    match t {
        T::Var(x) => {
            if stack.contains(x) { return true; }
            match env.iter().find(|d| d.0 == *x) { Some(d) => { stack.push(x.clone()); let r = rec_cycle(env, &d.1, stack); stack.pop(); r } None => false }
        }
        T::Rec(fs) => fs.iter().any(|f| rec_cycle(env, &f.1, stack)),
        _ => false,
    }
}
pub fn has_record_cycle(env: &Env) -> bool { env.iter().any(|(n, _)| rec_cycle(env, &T::var(n), &mut vec![])) }
pub fn has_ref(env: &Env, t: &T, depth: u32) -> bool {
    match t {
        T::Func(..) | T::Serv(_) => true,
        T::Var(x) => depth > 0 && env.iter().find(|d| d.0 == *x).map(|d| has_ref(env, &d.1, depth - 1)).unwrap_or(false),
        T::Opt(x) | T::Vec(x) => has_ref(env, x, depth),
        T::Rec(fs) | T::Variant(fs) => fs.iter().any(|f| has_ref(env, &f.1, depth)),
        _ => false,
    }
}
fn near_miss(r: &mut Rng, v: &V) -> V {
    match v {
        V::NatN(8, n) => V::NatN(16, *n), V::NatN(_, n) => V::NatN(8, *n & 0xff),
        V::IntN(8, n) => V::IntN(32, *n), V::IntN(_, n) => V::IntN(8, *n as i8 as i64),
        V::Nat(n) => V::Int(n.clone().into()), V::Int(_) => V::Text(b"1".to_vec()),
        V::Rec(fs) if !fs.is_empty() => { let mut f = fs.clone(); let k = r.below(f.len() as u64) as usize; if r.coin(1, 2) { f.remove(k); } else { f[k].1 = near_miss(r, &f[k].1); } V::Rec(f) }
        V::Variant(i, w) => if r.coin(1, 2) { V::Variant(i + 77, w.clone()) } else { V::Variant(*i, Box::new(near_miss(r, w))) },
        V::Vec(vs) if !vs.is_empty() => { let mut f = vs.clone(); let k = r.below(f.len() as u64) as usize; f[k] = near_miss(r, &f[k]); V::Vec(f) }
        V::Opt(Some(w)) => V::Opt(Some(Box::new(near_miss(r, w)))),
        V::Principal(b) => V::Service(b.clone()), V::Service(b) => V::Func(b.clone(), b"m".to_vec()), V::Func(b, _) => V::Principal(b.clone()),
        V::Text(_) => V::Bool(true), V::Bool(_) => V::Null, V::Null => V::Bool(false),
        V::F32(x) => V::NatN(32, *x as u64), V::F64(x) => V::NatN(64, *x),
        o => V::Rec(vec![(0, o.clone())]),
    }
}

/// does some definition reach itself through `opt` (and names) only?  (type O = opt O: known finding of C04)
pub fn opt_cycle(env: &Env) -> bool {
    fn go(env: &Env, t: &T, target: &str, seen: &mut Vec<String>) -> bool {
        match t {
            T::Var(x) => { if x == target { return true; } if seen.contains(x) { return false; } seen.push(x.clone()); env.iter().find(|d| &d.0 == x).map_or(false, |d| go(env, &d.1, target, seen)) }
            T::Opt(x) => go(env, x, target, seen),
            _ => false,
        }
    }
    env.iter().any(|d| match &d.1 { T::Opt(x) => go(env, x, &d.0, &mut vec![]), T::Var(_) => false, _ => false })
}
/// replace every non-negative `int` value (at a position whose declared type is int) by the equal `nat` value
fn nat_for_int(env: &Env, v: &V, t: &T, fuel: u32) -> V {
    if fuel == 0 { return v.clone(); }
    let t = match crate::val::trace(env, t) { Some(t) => t, None => return v.clone() };
    match (v, t) {
        (V::Int(z), T::Prim("int")) => match z.to_biguint() { Some(n) => V::Nat(n), None => v.clone() },
        (V::Opt(Some(x)), T::Opt(t1)) => V::Opt(Some(Box::new(nat_for_int(env, x, t1, fuel - 1)))),
        (V::Vec(xs), T::Vec(t1)) => V::Vec(xs.iter().map(|x| nat_for_int(env, x, t1, fuel - 1)).collect()),
        (V::Rec(fs), T::Rec(ts)) => V::Rec(fs.iter().map(|(i, x)| match ts.iter().find(|f| f.0 == *i) { Some(f) => (*i, nat_for_int(env, x, &f.1, fuel - 1)), None => (*i, x.clone()) }).collect()),
        (V::Variant(i, x), T::Variant(ts)) => match ts.iter().find(|f| f.0 == *i) { Some(f) => V::Variant(*i, Box::new(nat_for_int(env, x, &f.1, fuel - 1))), None => v.clone() },
        _ => v.clone(),
    }
}

pub fn generate(prop: &str, thorough: bool, r: &mut Rng, em: &mut Emit) {
    let scale = if thorough { 15 } else { 1 };
    if prop == "C10" {
        // byte vectors whose element type is nat8 only through chains of definitions, in both value representations
        let env: Env = vec![("byte".into(), T::p("nat8")), ("octet".into(), T::var("byte")), ("w".into(), T::var("octet")),
                            ("bytes".into(), T::vec(T::var("w"))), ("alias".into(), T::var("bytes")), ("n16".into(), T::p("nat16"))];
        let es = env_sx(&env);
        let tys = [T::vec(T::p("nat8")), T::vec(T::var("byte")), T::vec(T::var("octet")), T::vec(T::var("w")), T::var("bytes"), T::var("alias"),
                   T::opt(T::vec(T::var("octet"))), T::rec(vec![(0, T::vec(T::var("w"))), (1, T::var("alias"))]), T::vec(T::vec(T::var("octet"))), T::vec(T::var("n16"))];
        for t in tys.iter() {
            for _ in 0..(6 * scale) {
                if let Some(v) = gen_val(r, &env, t, 5) {
                    for op in ["c10.annotate", "c10.annotate.blob"] {
                        em.case_nt(op, &["1".into(), es.clone(), t.sx(), v.sx()], true);
                        em.case_nt(op, &["0".into(), es.clone(), t.sx(), v.sx()], true);
                    }
                    em.case_nt("p.c10.roundtrip", &[es.clone(), t.sx(), v.sx()], true);
                    em.case_nt("p.c10.roundtrip.blob", &[es.clone(), t.sx(), v.sx()], true);
                    em.stat("byte-vector-alias-chain");
                }
            }
        }
    }
    for round in 0..200 * scale {
        let cfg = GenCfg { max_depth: 2, refs: round % 4 == 0, var_bias: 4 };
        let k = r.range(0, 4) as usize;
        let env = gen_env(r, k, &cfg);
        let names: Vec<String> = env.iter().map(|d| d.0.clone()).collect();
        let es = env_sx(&env);
        let mut ts = vec![]; let mut vs = vec![];
        for _ in 0..r.range(1, 3) {
            for _try in 0..5 {
                let t = if !names.is_empty() && r.coin(1, 3) { { let n: &String = r.pick(&names[..]); T::var(n) } } else { gen_type(r, &names, 2, &cfg) };
                if let Some(v) = gen_val(r, &env, &t, 4) { ts.push(t); vs.push(v); break; }
            }
        }
        if ts.is_empty() { continue; }
        let big = vs.iter().any(|v| v.size() > 2);
        match prop {
            "C03" => {
                let b = encode_typed(&env, &ts, &vs);
                em.case_nt("c03.wf", &[es.clone(), tys_sx(&ts), vlist(&vs), b.map(|b| sx::hex(&b)).unwrap_or("err".into())], big);
                em.case_nt("m.c03.encode", &[es.clone(), tys_sx(&ts), vlist(&vs)], big);
                if vs.iter().any(has_wide_record) {
                    em.stat("records-in-descending-field-order");
                    let b = encode_typed_rev(&env, &ts, &vs);
                    em.case_nt("c03.wf.rev", &[es.clone(), tys_sx(&ts), vlist(&vs), b.map(|b| sx::hex(&b)).unwrap_or("err".into())], true);
                }
                if vs.iter().all(|v| uniform(&v.to_idl())) {
                    let b = encode_untyped(&vs);
                    em.case_nt("c03.wf_untyped", &[vlist(&vs), b.map(|b| sx::hex(&b)).unwrap_or("err".into())], big);
                } else { em.stat("untyped.skipped-non-uniform"); }
                // the same values handed over in their subtype representation: a non-negative int given as a nat value
                // (annotation converts it; what is written must be SLEB128 under the declared int)
                let vs2: Vec<V> = vs.iter().zip(&ts).map(|(v, t)| nat_for_int(&env, v, t, 6)).collect();
                if vs2 != vs {
                    em.stat("nat-value-at-int");
                    let b = encode_typed(&env, &ts, &vs2);
                    em.case_nt("c03.wf", &[es.clone(), tys_sx(&ts), vlist(&vs2), b.map(|b| sx::hex(&b)).unwrap_or("err".into())], true);
                }
                let mut bad = vs.clone(); let k = r.below(bad.len() as u64) as usize; bad[k] = near_miss(r, &bad[k]);
                if !matches!((&bad[k], &vs[k]), (V::F64(_), _)) {
                    let b = encode_typed(&env, &ts, &bad);
                    em.stat("near-miss");
                    em.case_nt("c03.wf", &[es.clone(), tys_sx(&ts), vlist(&bad), b.map(|b| sx::hex(&b)).unwrap_or("err".into())], true);
                }
            }
            "C10" => {
                for (t, v) in ts.iter().zip(&vs) {
                    em.case_nt("c10.annotate", &["1".into(), es.clone(), t.sx(), v.sx()], v.size() > 2);
                    em.case_nt("c10.annotate", &["0".into(), es.clone(), t.sx(), v.sx()], v.size() > 2);
                    if has_wide_record(v) { em.stat("records-in-descending-field-order"); em.case_nt("c10.annotate.rev", &["1".into(), es.clone(), t.sx(), v.sx()], true); em.case_nt("c10.annotate.rev", &["0".into(), es.clone(), t.sx(), v.sx()], true); }
                    // known finding: reference types whose signature mentions an uninhabited record cycle
                    let cls = if has_record_cycle(&env) && has_ref(&env, t, 3) { "p.c10.roundtrip.ref-over-record-cycle" } else { "p.c10.roundtrip" };
                    em.case_nt(cls, &[es.clone(), t.sx(), v.sx()], v.size() > 2);
                    let bad = near_miss(r, v);
                    if !matches!(bad, V::F64(_)) {
                        em.stat("near-miss");
                        em.case_nt("c10.annotate", &["1".into(), es.clone(), t.sx(), bad.sx()], true);
                        em.case_nt("c10.annotate", &["0".into(), es.clone(), t.sx(), bad.sx()], true);
                    }
                    // vectors of nat8 handed over in the blob representation (what the text parser and the decoder produce)
                    if v.to_idl_blob() != v.to_idl() {
                        em.stat("blob-representation");
                        em.case_nt("c10.annotate.blob", &["1".into(), es.clone(), t.sx(), v.sx()], true);
                        em.case_nt("c10.annotate.blob", &["0".into(), es.clone(), t.sx(), v.sx()], true);
                        if cls == "p.c10.roundtrip" { em.case_nt("p.c10.roundtrip.blob", &[es.clone(), t.sx(), v.sx()], true); }
                    }
                    // annotate at a mutated type (liberal mode exercises the opt rules)
                    let t2 = mutate_type(r, t, &names, &cfg);
                    // (a float64 VALUE at a float32 type is converted by the annotator -- that is how float literals of the text
                    // format get their width; the model has no floating-point rounding, so these are left out)
                    fn has_f64(v: &V) -> bool { match v { V::F64(_) => true, V::Opt(Some(x)) | V::Variant(_, x) => has_f64(x), V::Vec(xs) => xs.iter().any(has_f64), V::Rec(fs) => fs.iter().any(|f| has_f64(&f.1)), _ => false } }
                    fn has_f32(t: &T) -> bool { match t { T::Prim("float32") => true, T::Opt(x) | T::Vec(x) => has_f32(x), T::Rec(fs) | T::Variant(fs) => fs.iter().any(|f| has_f32(&f.1)), _ => false } }
                    if has_f64(v) && (has_f32(&t2) || env.iter().any(|d| has_f32(&d.1))) { em.stat("skipped.float64-value-at-float32"); continue; }
                    em.case_nt("c10.annotate", &["0".into(), es.clone(), t2.sx(), v.sx()], true);
                    em.case_nt("c10.annotate", &["1".into(), es.clone(), t2.sx(), v.sx()], true);
                }
            }
            _ => { // C04
                // an opt-only cycle (type O = opt O) makes the decoder try `opt` inside `opt` without end: known finding, own class
                let oc = opt_cycle(&env);
                // a reference type whose signature mentions an uninhabited record cycle does not decode at its own type: known finding of C10
                let rc = has_record_cycle(&env) && (ts.iter().any(|t| has_ref(&env, t, 4)) || env.iter().any(|d| has_ref(&env, &d.1, 4)));
                let (sound, chain) = if oc { ("p.c04.sound.opt-cycle", "p.c04.chain.opt-cycle") } else if rc { ("p.c04.sound.ref-over-record-cycle", "p.c04.chain.ref-over-record-cycle") } else { ("p.c04.sound", "p.c04.chain") };
                // the same pair of named types needed twice in one query: first where a failure is absorbed (under opt: the
                // probe of the special opt rule), then where it is not (a required field, an element, a case) -- a checker that
                // keeps what it assumed during the failed probe accepts the second occurrence
                if names.len() >= 2 && !oc && !rc {
                    for _ in 0..3 {
                        let (x, y) = ({ let n: &String = r.pick(&names[..]); T::var(n) }, { let n: &String = r.pick(&names[..]); T::var(n) });
                        let (t, t2) = match r.below(4) {
                            0 => (T::rec(vec![(0, T::opt(x.clone())), (1, x.clone())]), T::rec(vec![(0, T::opt(y.clone())), (1, y.clone())])),
                            1 => (T::rec(vec![(0, T::opt(x.clone())), (1, T::vec(x.clone()))]), T::rec(vec![(0, T::opt(y.clone())), (1, T::vec(y.clone()))])),
                            2 => (T::rec(vec![(0, T::opt(T::vec(x.clone()))), (7, T::Variant(vec![(3, x.clone())]))]), T::rec(vec![(0, T::opt(T::vec(y.clone()))), (7, T::Variant(vec![(3, y.clone())]))])),
                            _ => (T::rec(vec![(0, T::opt(T::rec(vec![(5, x.clone())]))), (1, T::opt(x.clone())), (2, x.clone())]), T::rec(vec![(0, T::opt(T::rec(vec![(5, y.clone())]))), (1, T::opt(y.clone())), (2, y.clone())])),
                        };
                        if let Some(v) = gen_val(r, &env, &t, 4) {
                            em.stat("probe-then-required");
                            em.case_nt("p.c04.sound", &[es.clone(), t.sx(), t2.sx(), v.sx()], true);
                        }
                    }
                }
                for (t, v) in ts.iter().zip(&vs) {
                    let t1 = mutate_type(r, t, &names, &cfg);
                    let t2 = mutate_type(r, &t1, &names, &cfg);
                    em.case_nt(sound, &[es.clone(), t.sx(), t1.sx(), v.sx()], true);
                    em.case_nt(sound, &[es.clone(), t.sx(), t2.sx(), v.sx()], true);
                    em.case_nt(chain, &[es.clone(), t.sx(), t1.sx(), t2.sx(), v.sx()], true);
                    // supertypes by added fields whose types are optional only through names, at ids before / between / after the
                    // wire's; and a required field added under an opt (accepted by the opt rule, answered by null)
                    {
                        let (defs, extras) = crate::ops::c02::optional_defs();
                        let mut env2 = env.clone(); env2.extend(defs);
                        let es2 = env_sx(&env2);
                        for _ in 0..2 {
                            let t3 = crate::ops::c02::insert_fields(r, t, &extras);
                            if &t3 != t { em.stat("supertype.inserted-fields"); em.case_nt(sound, &[es2.clone(), t.sx(), t3.sx(), v.sx()], true); }
                            let t4 = T::opt(crate::ops::c02::insert_fields(r, t, &extras));
                            em.case_nt(sound, &[es2.clone(), T::opt(t.clone()).sx(), t4.sx(), V::Opt(Some(Box::new(v.clone()))).sx()], true);
                            em.case_nt(sound, &[es2.clone(), t.sx(), t4.sx(), v.sx()], true);
                        }
                    }
                    // the model's view of the same decode: the value must be the spec's coercion
                    if let Some(b) = encode_typed(&env, &[t.clone()], &[v.clone()]) {
                        em.case_nt("c02.decode", &[es.clone(), tys_sx(&[t1.clone()]), sx::hex(&b)], true);
                        em.case_nt("c04.sub_implies_coerce", &[es.clone(), t.sx(), t1.sx(), v.sx()], true);
                    }
                }
            }
        }
    }
}
