//! C18: the generated Rust binding defines types with the same Candid meaning.
//! Generated bindings are compiled -- one crate per program in a scratch workspace under /verif/work/c18, one cargo build for
//! all -- and each crate prints, for every item the binding defines and for every method's argument / result tuple, the Candid
//! type the derive macro computes.  The model decides structural equality with the source (c18.denotes).
use crate::ops::c12::{actor_sx, did, gen_program, program};
use crate::ty::{env_sx, Env, T};
use crate::{rng::Rng, sx, Emit};
use candid_parser::bindings::rust;
use candid_parser::configs::Configs;
use candid_parser::syntax::{IDLMergedProg, IDLProg};
use std::collections::BTreeMap;
use std::str::FromStr;

const MAIN_TEMPLATE: &str = r##"#![allow(dead_code, non_camel_case_types, non_snake_case, unused_imports, clippy::all)]
use candid::{self, CandidType, Deserialize, Principal};
use candid::types::{Type, TypeInner};
mod defs {
    #![allow(dead_code, non_camel_case_types, non_snake_case, unused_imports)]
    use candid::{self, CandidType, Deserialize, Principal};
//TYPE_DEFS
}
use defs::*;
fn hex(b: &[u8]) -> String { if b.is_empty() { "-".into() } else { b.iter().map(|x| format!("{:02x}", x)).collect() } }
fn conv(t: &Type, env: &mut Vec<(String, String)>) -> String {
    match t.as_ref() {
        TypeInner::Knot(id) => {
            let name = format!("K_{}", id).replace(|c: char| !c.is_ascii_alphanumeric() && c != '_', "_");
            if !env.iter().any(|d| d.0 == name) {
                env.push((name.clone(), String::new()));
                let body = candid::types::internal::find_type(id).expect("knot");
                let b = conv(&body, env);
                let k = env.iter().position(|d| d.0 == name).unwrap();
                env[k].1 = b;
            }
            format!("(var {})", hex(name.as_bytes()))
        }
        TypeInner::Opt(x) => format!("(opt {})", conv(x, env)),
        TypeInner::Vec(x) => format!("(vec {})", conv(x, env)),
        TypeInner::Record(fs) => { let mut v: Vec<(u32, String)> = fs.iter().map(|f| (f.id.get_id(), conv(&f.ty, env))).collect(); v.sort_by_key(|x| x.0); format!("(rec{})", v.iter().map(|(i, t)| format!(" ({} {})", i, t)).collect::<String>()) }
        TypeInner::Variant(fs) => { let mut v: Vec<(u32, String)> = fs.iter().map(|f| (f.id.get_id(), conv(&f.ty, env))).collect(); v.sort_by_key(|x| x.0); format!("(variant{})", v.iter().map(|(i, t)| format!(" ({} {})", i, t)).collect::<String>()) }
        TypeInner::Func(f) => format!("(func ({}) ({}) ({}))", f.args.iter().map(|a| conv(a, env)).collect::<Vec<_>>().join(" "), f.rets.iter().map(|a| conv(a, env)).collect::<Vec<_>>().join(" "),
            f.modes.iter().map(|m| match m { candid::types::FuncMode::Query => "1", candid::types::FuncMode::Oneway => "2", _ => "3" }).collect::<Vec<_>>().join(" ")),
        TypeInner::Service(ms) => { let mut v: Vec<(Vec<u8>, String)> = ms.iter().map(|(n, t)| (n.as_bytes().to_vec(), conv(t, env))).collect(); v.sort(); format!("(serv{})", v.iter().map(|(n, t)| format!(" ({} {})", hex(n), t)).collect::<String>()) }
        TypeInner::Null => "null".into(), TypeInner::Bool => "bool".into(), TypeInner::Nat => "nat".into(), TypeInner::Int => "int".into(),
        TypeInner::Nat8 => "nat8".into(), TypeInner::Nat16 => "nat16".into(), TypeInner::Nat32 => "nat32".into(), TypeInner::Nat64 => "nat64".into(),
        TypeInner::Int8 => "int8".into(), TypeInner::Int16 => "int16".into(), TypeInner::Int32 => "int32".into(), TypeInner::Int64 => "int64".into(),
        TypeInner::Float32 => "float32".into(), TypeInner::Float64 => "float64".into(), TypeInner::Text => "text".into(), TypeInner::Reserved => "reserved".into(),
        TypeInner::Empty => "empty".into(), TypeInner::Principal => "principal".into(),
        other => format!("(unsupported {:?})", other),
    }
}
fn item<X: CandidType>(name: &str) {
    let mut env = vec![];
    let t = conv(&X::ty(), &mut env);
    println!("ITEM\t{}\t({})\t{}", name, env.iter().map(|(n, b)| format!("({} {})", hex(n.as_bytes()), b)).collect::<Vec<_>>().join(" "), t);
}
fn main() {
//ITEMS
}
"##;

struct Bound { defs: String, items: Vec<String>, methods: Vec<(String, Vec<String>, Vec<String>)> }
fn bind(text: &str) -> Result<Bound, String> {
    let ast = IDLProg::from_str(text).map_err(|e| format!("parse: {}", e))?;
    let mut env = candid::TypeEnv::new();
    let actor = candid_parser::check_prog(&mut env, &ast).map_err(|e| format!("check: {}", e))?;
    let prog = IDLMergedProg::new(ast);
    let cfg = rust::Config::new(Configs::from_str("").unwrap());
    let (out, _) = rust::emit_bindgen(&cfg, &env, &actor, &prog);
    let mut items = vec![];
    let toks: Vec<&str> = out.type_defs.split(|c: char| !(c.is_alphanumeric() || c == '_' || c == '!' || c == '#')).filter(|t| !t.is_empty()).collect();
    for w in toks.windows(3) {
        if w[0] == "pub" && (w[1] == "struct" || w[1] == "enum" || w[1] == "type") { items.push(w[2].to_string()); }
        if (w[0] == "define_function!" || w[0] == "define_service!") && w[1] == "pub" { items.push(w[2].to_string()); }
    }
    let methods = out.methods.iter().map(|m| (m.original_name.clone(), m.args.iter().map(|a| a.1.clone()).collect(), m.rets.clone())).collect();
    Ok(Bound { defs: out.type_defs, items, methods })
}
fn crate_source(b: &Bound) -> String {
    let mut items = String::new();
    for i in &b.items { items.push_str(&format!("    item::<{}>(\"{}\");\n", i, i)); }
    for (k, (_, args, rets)) in b.methods.iter().enumerate() {
        items.push_str(&format!("    item::<({})>(\"#args{}\");\n", args.iter().map(|a| format!("{},", a)).collect::<String>(), k));
        items.push_str(&format!("    item::<({})>(\"#rets{}\");\n", rets.iter().map(|a| format!("{},", a)).collect::<String>(), k));
    }
    MAIN_TEMPLATE.replace("//TYPE_DEFS", &b.defs).replace("//ITEMS", &items)
}

fn work_dir() -> std::path::PathBuf { std::path::Path::new(env!("CARGO_MANIFEST_DIR")).parent().unwrap().join("work").join("c18") }

/// build one workspace with a crate per program; returns per program Ok(item lines) or Err(first compiler error)
fn build_and_run(sources: &[String]) -> Vec<Result<Vec<String>, String>> {
    let root = work_dir().join(format!("ws{}", std::process::id()));
    let _ = std::fs::remove_dir_all(&root);
    std::fs::create_dir_all(&root).unwrap();
    let members: Vec<String> = (0..sources.len()).map(|i| format!("\"p{}\"", i)).collect();
    std::fs::write(root.join("Cargo.toml"), format!("[workspace]\nresolver = \"2\"\nmembers = [{}]\n[profile.dev]\ndebug = 0\nopt-level = 0\nincremental = false\n", members.join(", "))).unwrap();
    let _ = std::fs::copy(std::path::Path::new(env!("CARGO_MANIFEST_DIR")).join("Cargo.lock"), root.join("Cargo.lock"));
    for (i, src) in sources.iter().enumerate() {
        let d = root.join(format!("p{}", i));
        std::fs::create_dir_all(d.join("src")).unwrap();
        std::fs::write(d.join("Cargo.toml"), format!("[package]\nname = \"p{}\"\nversion = \"0.1.0\"\nedition = \"2021\"\n[dependencies]\ncandid = {{ path = \"/repo/rust/candid\", features = [\"all\"] }}\nserde = {{ version = \"1\", features = [\"derive\"] }}\nserde_bytes = \"0.11\"\n", i)).unwrap();
        std::fs::write(d.join("src").join("main.rs"), src).unwrap();
    }
    let target = work_dir().join("target");
    let out = std::process::Command::new("cargo").args(["build", "--offline", "--workspace", "--keep-going", "--message-format", "short"])
        .current_dir(&root).env("CARGO_TARGET_DIR", &target).env("CARGO_NET_OFFLINE", "true").env_remove("RUSTFLAGS").output();
    let log = match out { Ok(o) => String::from_utf8_lossy(&o.stderr).to_string(), Err(e) => format!("cargo: {}", e) };
    let mut res = vec![];
    for i in 0..sources.len() {
        let bin = target.join("debug").join(format!("p{}", i));
        let err_line = log.lines().find(|l| l.starts_with(&format!("p{}/", i)) && l.contains("error")).map(|l| l.to_string());
        if let Some(e) = err_line { res.push(Err(e)); let _ = std::fs::remove_file(&bin); continue; }
        match std::process::Command::new(&bin).output() {
            Ok(o) if o.status.success() => res.push(Ok(String::from_utf8_lossy(&o.stdout).lines().filter(|l| l.starts_with("ITEM\t")).map(|l| l.to_string()).collect())),
            Ok(o) => res.push(Err(format!("the compiled binding aborted: {}", String::from_utf8_lossy(&o.stderr).lines().next().unwrap_or("")))),
            Err(e) => res.push(Err(format!("not built: {} ({})", e, log.lines().filter(|l| l.contains("error")).next().unwrap_or("")))),
        }
        let _ = std::fs::remove_file(&bin);
    }
    let _ = std::fs::remove_dir_all(&root);
    res
}

/// Pascal case as the binding derives type names from definition names (split at non-alphanumerics, capitalise each piece)
fn pascal(s: &str) -> String {
    s.split(|c: char| !c.is_ascii_alphanumeric()).filter(|p| !p.is_empty()).map(|p| { let mut c = p.chars(); c.next().map(|f| f.to_ascii_uppercase().to_string() + c.as_str()).unwrap_or_default() }).collect()
}

pub fn eval(op: &str, a: &[&str]) -> Option<String> {
    match op {
        // re-evaluation (replay): rebuild the single program and look the item up again
        "c18.denotes" | "c18.denotes.name-collision" | "c18.denotes.numeric-label" | "c18.denotes.one-tuple" => {
            let text = String::from_utf8(sx::unhex(a[0])).ok()?;
            let b = match bind(&text) { Ok(b) => b, Err(e) => return Some(format!("(bind-error {})", e)) };
            let r = build_and_run(&[crate_source(&b)]).pop()?;
            Some(match r {
                Err(e) => format!("(compile-error {})", e.replace('\t', " ")),
                Ok(lines) => { let want = a[2]; match lines.iter().find(|l| l.split('\t').nth(1) == Some(want)) { Some(l) => { let f: Vec<&str> = l.split('\t').collect(); if f[2] == a[4] && f[3] == a[5] { "(ok)".into() } else { "(changed)".into() } } None => "(item-missing)".into() } }
            })
        }
        _ => None,
    }
}

/// labels that stay distinct under snake / Pascal case conversion and cannot clash with a definition name
const SAFE_LABELS: &[&str] = &["a", "Type", "name", "Ref", "b", "fn", "id", "loop_count", "Use", "Match", "self"];
fn safe_ids(t: &T) -> T {
    // every label becomes a plain name (numeric labels other than tuple positions are a known finding of their own)
    let named = |fs: &Vec<(u32, T)>| -> Vec<(u32, T)> { fs.iter().enumerate().map(|(k, (_, t))| (candid::idl_hash(SAFE_LABELS[k % SAFE_LABELS.len()]), safe_ids(t))).collect() };
    match t {
        T::Opt(x) => T::opt(safe_ids(x)), T::Vec(x) => T::vec(safe_ids(x)),
        T::Rec(fs) => T::rec(named(fs)),      // (tuples are written positionally in the directed programs only: the printer here spells id 0 as the label "")
        T::Variant(fs) => T::variant(named(fs)),
        T::Func(a, r, md) => T::Func(a.iter().map(safe_ids).collect(), r.iter().map(safe_ids).collect(), md.clone()),
        T::Serv(ms) => T::Serv(ms.iter().map(|(n, t)| (n.clone(), safe_ids(t))).collect()),
        _ => t.clone(),
    }
}
fn reachable(env: &Env, roots: &[T]) -> Vec<String> {
    fn go(env: &Env, t: &T, seen: &mut Vec<String>) {
        match t {
            T::Var(x) => if !seen.contains(x) { seen.push(x.clone()); if let Some(d) = env.iter().find(|d| &d.0 == x) { go(env, &d.1, seen); } },
            T::Opt(x) | T::Vec(x) => go(env, x, seen),
            T::Rec(fs) | T::Variant(fs) => for f in fs { go(env, &f.1, seen) },
            T::Func(a, r, _) => for x in a.iter().chain(r.iter()) { go(env, x, seen) },
            T::Serv(ms) => for m in ms { go(env, &m.1, seen) },
            T::Class(a, b) => { for x in a { go(env, x, seen) } go(env, b, seen) }
            _ => {}
        }
    }
    let mut seen = vec![]; for r in roots { go(env, r, &mut seen); } seen
}
/// records / variants with numeric labels that are not tuple positions: the binding prints the field as _N_ and the derive macro
/// hashes that NAME (known finding)
/// a record with the single positional field: printed as a one-field tuple struct, which the derive macro treats as the field's type
pub const ONE_TUPLES: &[&str] = &[
    "type A = record { nat };\nservice : { f : (A) -> () }\n",
    "service : { f : (record { text }) -> (record { record { bool } }) }\n",
];
pub const NUMERIC_LABELS: &[&str] = &[
    "type R = record { 2 : nat; a : bool };\nservice : { f : (R) -> () }\n",
    "type V = variant { 7 : nat; b };\nservice : { f : () -> (V) query }\n",
    "service : { f : (record { 1 : int; 5 : text }) -> () }\n",
];
/// the three name collisions recorded as known findings (each keyed by its exact program)
pub const KNOWN_COLLISIONS: &[&str] = &[
    "type a_b = record { c : record { x : nat } };\ntype a = record { b_c : record { y : text } };\nservice : { f : (a_b) -> (a) }\n",
    "type t = record { fooBar : nat; foo_bar : text };\nservice : { get : () -> (t) query }\n",
    "type return = variant { \"\" : service { f : () -> () }; b : nat };\nservice : { g : (return) -> () }\n",
];

pub fn generate(thorough: bool, r: &mut Rng, em: &mut Emit) {
    let n = if thorough { 120 } else { 24 };
    let _ = (SAFE_LABELS, gen_program);
    let mut progs: Vec<(Env, Option<T>, String, Bound, u8)> = vec![];
    let mut tries = 0;
    while progs.len() < n && tries < 20 * n {
        tries += 1;
        let cfg = crate::ty::GenCfg { max_depth: 2, refs: tries % 3 == 0, var_bias: 4 };
        let k = r.range(1, 4) as usize;
        let env: Env = crate::ty::gen_env(r, k, &cfg).iter().map(|(n, t)| (n.clone(), safe_ids(t))).collect();
        let names: Vec<String> = env.iter().map(|d| d.0.clone()).collect();
        let serv = safe_ids(&crate::ty::gen_serv(r, &names, 2, &cfg));
        let actor = if r.coin(1, 4) { T::Class(vec![T::var(&names[0]), T::opt(T::var(&names[0]))], Box::new(serv)) } else { serv };
        let text = program(&env, &Some(actor.clone()));
        if crate::ops::c12::load(&text).is_err() { em.stat("not-well-formed"); continue; }
        match bind(&text) { Ok(b) => progs.push((env, Some(actor), text, b, 0)), Err(_) => { em.stat("bind-failed"); } }
    }
    // directed programs: nested anonymous types at several paths, keywords, numeric and non-ASCII labels, recursion needing Box
    let directed = ["type t = record { \"type\" : bool; \"\u{e9}t\u{e9}\" : nat8; \"fn\" : opt t; self : vec t };\nservice : { get : () -> (t) query }\n",
                    "type List = opt record { head : nat; tail : List };\ntype Tree = variant { leaf : nat; node : record { Tree; Tree } };\nservice : (List) -> { walk : (Tree) -> (vec List) }\n",
                    "type r = variant { Ok : nat; Err : text };\ntype s = service { get : (func (nat) -> (r) query) -> (opt s) };\nservice : s\n",
                    "type node = record { kids : vec node; up : opt node; tag : variant { red; black : record { depth : nat8 } } };\nservice : { f : (node, record { node; nat }) -> (variant { a : node; b }) }\n",
                    "type tree = vec tree;\nservice : { f : (tree) -> () }\n",
                    "type forest = vec bush;\ntype bush = vec forest;\nservice : { f : (forest) -> (bush) }\n",
                    "type a = vec b;\ntype b = opt a;\nservice : { f : (a) -> (b) }\n",
                    "type r = record { Type : nat; Match : text; Loop : bool; Ref : opt r; \"Use\" : vec r; \"Self\" : nat8; \"fn\" : int };\nservice : { get : () -> (r) query }\n",
                    "type pair = record { nat; text };\ntype triple = record { pair; opt pair; vec record { int; bool } };\nservice : { f : (pair) -> (triple) }\n",
                    // look-alikes of Result: the Ok / Err pair plus another case, or one of the two alone, named and anonymous
                    "type Status = variant { Ok : nat; Err : text; Pending };\ntype Half = variant { Ok : nat };\nservice : { poll : () -> (Status) query; raw : () -> (variant { ok : nat; err : text; other : bool }); half : (Half) -> (variant { Err : text; Retry : nat }) }\n",
                    // anonymous service and function types in nested positions whose signatures mention anonymous records / variants
                    "type hub = record { sink : service { publish : (record { topic : text; body : blob }) -> (variant { queued; rejected : text }) }; owner : principal };\nservice : { hub : () -> (hub) query; sub : (opt service { note : (record { level : nat8; tags : vec text }) -> () }) -> () }\n",
                    "type cb = func (record { code : nat16; why : opt text }) -> (variant { again; done : record { at : nat64 } }) query;\ntype reg = record { on : cb; also : vec func (variant { x; y : int }) -> () oneway };\nservice : { register : (reg) -> (opt cb) }\n"];
    for (text, known) in directed.iter().map(|t| (*t, 0u8)).chain(KNOWN_COLLISIONS.iter().map(|t| (*t, 1u8))).chain(NUMERIC_LABELS.iter().map(|t| (*t, 2u8))).chain(ONE_TUPLES.iter().map(|t| (*t, 3u8))) {
        if let Ok(b) = bind(text) { if let Ok((te, act)) = crate::ops::c12::load(text) {
            let env: Env = te.0.iter().map(|(k, v)| (k.clone(), T::from_type(v))).collect();
            progs.push((env, act.map(|a| T::from_type(&a)), text.to_string(), b, known));
        } }
    }
    let sources: Vec<String> = progs.iter().map(|p| crate_source(&p.3)).collect();
    let results = build_and_run(&sources);
    for ((env, actor, text, b, known), res) in progs.iter().zip(results) {
        let th = sx::hex(text.as_bytes());
        let _ = BTreeMap::<String, ()>::new();
        let op = match *known { 1 => "c18.denotes.name-collision", 2 => "c18.denotes.numeric-label", 3 => "c18.denotes.one-tuple", _ => "c18.denotes" };
        em.stat(match *known { 1 => "program.known-name-collision", 2 => "program.known-numeric-label", _ => "program" });
        let reach = reachable(env, &actor.iter().cloned().collect::<Vec<_>>());
        let lines = match res {
            Err(e) => { em.case_with_result(op, &[th.clone(), env_sx(env), "#compile".into(), "-".into(), "-".into(), "-".into()], &format!("(compile-error {})", e.replace('\t', " ")), true); continue; }
            Ok(l) => l,
        };
        let find = |name: &str| lines.iter().find(|l| l.split('\t').nth(1) == Some(name)).map(|l| { let f: Vec<&str> = l.split('\t').collect(); (f[2].to_string(), f[3].to_string()) });
        // every definition: the item named after it has its type
        for (dname, dty) in env.iter() {
            // (a definition the main service does not reach is not emitted)
            if !reach.contains(dname) { em.stat("definition.unreachable"); continue; }
            let want = pascal(dname);
            let (renv, rty) = find(&want).unwrap_or(("-".into(), "(missing)".into()));
            em.case_with_result(op, &[th.clone(), env_sx(env), want, dty.sx(), renv, rty], "(ok)", true);
        }
        // every method of the main service: argument and result tuples
        let ms: Vec<(String, T)> = match actor { Some(T::Serv(ms)) => ms.clone(), Some(T::Class(_, b)) => match &**b { T::Serv(ms) => ms.clone(), T::Var(x) => match crate::val::trace(env, &T::var(x)) { Some(T::Serv(ms)) => ms.clone(), _ => vec![] }, _ => vec![] },
                                     Some(T::Var(x)) => match crate::val::trace(env, &T::var(x)) { Some(T::Serv(ms)) => ms.clone(), _ => vec![] }, _ => vec![] };
        for (k, (mname, _, _)) in b.methods.iter().enumerate() {
            let fty = ms.iter().find(|m| &m.0 == mname).map(|m| m.1.clone());
            let (args, rets) = match fty.as_ref().and_then(|t| crate::val::trace(env, t)) { Some(T::Func(a, r, _)) => (a.clone(), r.clone()), _ => { em.stat("method-not-found"); continue; } };
            let tuple = |ts: &Vec<T>| T::rec(ts.iter().enumerate().map(|(i, t)| (i as u32, t.clone())).collect());
            for (tag, want, n) in [(format!("#args{}", k), tuple(&args), args.len()), (format!("#rets{}", k), tuple(&rets), rets.len())] {
                if n == 0 { continue; }         // (the Rust unit type stands for "no values"; nothing to compare)
                let (renv, rty) = find(&tag).unwrap_or(("-".into(), "(missing)".into()));
                em.case_with_result(op, &[th.clone(), env_sx(env), tag, want.sx(), renv, rty], "(ok)", true);
            }
        }
    }
    let _ = (actor_sx, did);
}
