//! C11: printing values as Candid text and parsing them back.
use crate::{rng::Rng, sx, Emit};
use candid::types::value::{IDLField, IDLValue, VariantValue};
use candid::types::Label;
use candid::{IDLArgs, Int, Nat, Principal, TypeEnv};

/// is the scalar printed literally by the text printer at this position? (std's escape_debug tables are the oracle P)
fn literal_flags(s: &str) -> Vec<bool> {
    let mut out = vec![];
    let mut first = true;
    for c in s.chars() {
        if c == '\0' { out.push(false); first = true; continue; }
        let printed = if first { c.to_string().escape_debug().to_string() } else { let t = format!("a{}", c).escape_debug().to_string(); t[1..].to_string() };
        out.push(printed == c.to_string());
        first = false;
    }
    out
}
fn scalars_sx(s: &str) -> String {
    let fl = literal_flags(s);
    format!("({})", s.chars().zip(fl).map(|(c, l)| format!("({} {})", c as u32, l as u8)).collect::<Vec<_>>().join(" "))
}
fn text_of_scalars(a: &str) -> String { sx::parse(a).list().iter().map(|p| char::from_u32(p.list()[0].atom().parse().unwrap()).unwrap()).collect() }

pub fn eval(op: &str, a: &[&str]) -> Option<String> {
    Some(match op {
        "c11.print_text" => { // Display of a text value: "( <literal> )"
            let s = text_of_scalars(a[0]);
            let out = format!("{}", IDLValue::Text(s));
            sx::hex(out.as_bytes())
        }
        "c11.print_label" => { // a variant tag through Display: "variant { <label> = true }"
            let s = text_of_scalars(a[0]);
            let v = IDLValue::Variant(VariantValue(Box::new(IDLField { id: Label::Named(s), val: IDLValue::Bool(true) }), 0));
            let out = format!("{}", v);
            let inner = out.trim_start_matches("variant {").trim_end_matches('}').trim();
            let lab = inner.strip_suffix("= true").map(|x| x.trim_end()).unwrap_or(inner);
            sx::hex(lab.as_bytes())
        }
        "c11.lex_text" | "c11.lex_blob" => {
            let src = String::from_utf8(sx::unhex(a[0])).unwrap();
            let full = if op == "c11.lex_blob" { format!("blob {}", src) } else { src };
            match candid_parser::parse_idl_value(&full) {
                Ok(IDLValue::Text(s)) => format!("(ok {})", sx::hex(s.as_bytes())),
                Ok(IDLValue::Blob(b)) => format!("(ok {})", sx::hex(&b)),
                Ok(_) => "(other)".into(),
                Err(_) => "(err)".into(),
            }
        }
        "c11.print_blob" => {
            let b = sx::unhex(a[0]);
            let out = format!("{:?}", IDLValue::Blob(b));
            sx::hex(out.trim_start_matches("blob ").as_bytes())
        }
        "c11.pp_num" => sx::hex(candid::utils::pp_num_str(a[0]).as_bytes()),
        "c11.lex_num" => {
            let src = String::from_utf8(sx::unhex(a[0])).unwrap();
            match candid_parser::parse_idl_value(&src) { Ok(IDLValue::Number(n)) => format!("(ok {})", n), Ok(_) => "(other)".into(), Err(_) => "(err)".into() }
        }
        "p.c11.roundtrip" => {
            // a[0] = index into the deterministic value stream, a[1] = seed: regenerate, print (Display and Debug), parse, annotate
            let mut r = Rng::new(a[1].parse().unwrap());
            let v = gen_value(&mut r, 3);
            let _ = a[0];
            let args = IDLArgs::new(&[v.clone()]);
            let tys = args.get_types();
            let env = TypeEnv::new();
            for (which, text) in [("display", format!("{}", args)), ("debug", format!("{:?}", args))] {
                if which == "display" && format!("{}", args) != text { return Some("FAIL printing is not deterministic".into()); }
                let parsed = match candid_parser::parse_idl_args(&text) { Ok(p) => p, Err(e) => return Some(format!("FAIL {} output does not parse: {} :: {}", which, e, text)) };
                let ann = match parsed.annotate_types(true, &env, &tys) { Ok(p) => p, Err(e) => return Some(format!("FAIL {} output does not annotate: {} :: {}", which, e, text)) };
                if !same(&ann.args[0], &v) { return Some(format!("FAIL {} round trip differs: {}", which, text)); }
            }
            "ok".into()
        }
        _ => return None,
    })
}
/// equality with floats compared bit for bit and Blob ~ vec nat8
fn same(a: &IDLValue, b: &IDLValue) -> bool { crate::val::V::from_idl(a) == crate::val::V::from_idl(b) && label_names(a) == label_names(b) }
fn label_names(v: &IDLValue) -> Vec<String> {
    let mut out = vec![];
    fn go(v: &IDLValue, out: &mut Vec<String>) {
        match v {
            IDLValue::Opt(x) => go(x, out),
            IDLValue::Vec(vs) => vs.iter().for_each(|x| go(x, out)),
            IDLValue::Record(fs) => fs.iter().for_each(|f| { out.push(format!("{:?}", f.id.get_id())); go(&f.val, out) }),
            IDLValue::Variant(x) => { out.push(format!("{:?}", x.0.id.get_id())); go(&x.0.val, out) }
            IDLValue::Func(_, m) => out.push(m.clone()),
            _ => {}
        }
    }
    go(v, &mut out);
    out
}

const SPECIAL: &[u32] = &[0, 1, 7, 9, 10, 13, 27, 31, 32, 34, 39, 92, 96, 127, 128, 159, 160, 173, 0x300, 0x301, 0x200b, 0x200d, 0x202e, 0x2028, 0xd7ff, 0xe000, 0xfeff, 0xfffd, 0xffff, 0x10000, 0x1f600, 0xe0001, 0x10ffff];
pub fn gen_text(r: &mut Rng) -> String {
    let n = *r.pick(&[0usize, 1, 1, 2, 3, 5, 8]);
    (0..n).map(|_| loop {
        let c = match r.below(6) { 0 => *r.pick(SPECIAL), 1 => r.below(128) as u32, 2 => 0x30 + r.below(0x50) as u32, 3 => r.below(0x800) as u32, 4 => r.below(0x10000) as u32, _ => r.below(0x110000) as u32 };
        if let Some(ch) = char::from_u32(c) { break ch }
    }).collect()
}
fn gen_label(r: &mut Rng) -> Label {
    match r.below(6) {
        0 => Label::Id(r.below(5) as u32), 1 => Label::Id(r.next() as u32),
        2 => Label::Named((*r.pick(crate::ops::c15::KEYWORDS)).to_string()),      // every word the grammar reserves
        3 => Label::Named(gen_text(r)),
        _ => Label::Named((*r.pick(&["a", "b", "c", "name", "_x", "X1", "id", "héllo", "a b", "1a", ""])).to_string()),
    }
}
fn gen_big(r: &mut Rng) -> num_bigint::BigUint {
    match r.below(4) { 0 => num_bigint::BigUint::from(r.below(2000)), 1 => num_bigint::BigUint::from(r.next()), _ => { let k = r.range(1, 24) as usize; num_bigint::BigUint::from_bytes_le(&r.bytes(k)) } }
}
pub fn gen_value(r: &mut Rng, depth: u32) -> IDLValue {
    let leaf = depth == 0 || r.coin(1, 3);
    if leaf {
        return match r.below(18) {
            0 => IDLValue::Null, 1 => IDLValue::Bool(r.coin(1, 2)), 2 => IDLValue::Text(gen_text(r)), 3 => IDLValue::None, 4 => IDLValue::Reserved,
            5 => IDLValue::Nat(Nat(gen_big(r))),
            6 => { let m = num_bigint::BigInt::from(gen_big(r)); IDLValue::Int(Int(if r.coin(1, 2) { -m } else { m })) }
            7 => IDLValue::Nat8(r.next() as u8), 8 => IDLValue::Nat16(r.next() as u16), 9 => IDLValue::Nat32(r.next() as u32), 10 => IDLValue::Nat64(r.next()),
            11 => IDLValue::Int8(r.next() as i8), 12 => IDLValue::Int32(r.next() as i32), 13 => IDLValue::Int64(r.next() as i64),
            14 => { let x = *r.pick(&[0.0f64, -0.0, 1.0, -1.5, 1e300, 5e-324, 123456789.125, 0.1, 1e21, 3.0e-7]); IDLValue::Float64(if r.coin(1, 3) { f64::from_bits(r.next()) } else { x }).pipe_finite() }
            15 => { let x = *r.pick(&[0.0f32, -0.0, 1.0, 2.5, 3.4e38, 1e-45, 0.1]); IDLValue::Float32(x) }
            16 => { let k = *r.pick(&[0usize, 1, 4, 29]); IDLValue::Principal(Principal::from_slice(&r.bytes(k))) }
            _ => { let k = *r.pick(&[0usize, 1, 3, 12, 40]); let ascii = r.coin(1, 2); IDLValue::Blob((0..k).map(|_| if ascii { *r.pick(b"abcXYZ 09\"'`\\\n\t~") } else { r.next() as u8 }).collect()) }
        };
    }
    let d = depth - 1;
    match r.below(7) {
        0 => IDLValue::Opt(Box::new(gen_value(r, d))),
        1 => { // homogeneous vectors, below and above the abbreviation threshold
            let n = *r.pick(&[0usize, 1, 2, 3, 10, 11, 12]);
            let proto = gen_value(r, d.min(1));
            let mut vs = vec![];
            for _ in 0..n { vs.push(match &proto { IDLValue::Nat8(_) => IDLValue::Nat8(r.next() as u8), IDLValue::Text(_) => IDLValue::Text(gen_text(r)), IDLValue::Nat(_) => IDLValue::Nat(Nat(gen_big(r))), o => o.clone() }); }
            IDLValue::Vec(vs)
        }
        2 | 3 => {
            let n = r.range(0, 4) as usize;
            let mut fs: Vec<IDLField> = vec![];
            for _ in 0..n { let id = gen_label(r); if !fs.iter().any(|f| f.id.get_id() == id.get_id()) { fs.push(IDLField { id, val: gen_value(r, d) }); } }
            fs.sort_unstable_by_key(|f| f.id.get_id());
            IDLValue::Record(fs)
        }
        4 => { // tuple-like record
            let n = r.range(1, 3) as usize;
            IDLValue::Record((0..n).map(|i| IDLField { id: Label::Id(i as u32), val: gen_value(r, d) }).collect())
        }
        5 => IDLValue::Variant(VariantValue(Box::new(IDLField { id: gen_label(r), val: if r.coin(1, 3) { IDLValue::Null } else { gen_value(r, d) } }), 0)),
        _ => { let k = *r.pick(&[0usize, 2, 29]); let p = Principal::from_slice(&r.bytes(k)); if r.coin(1, 2) { IDLValue::Service(p) } else { IDLValue::Func(p, match gen_label(r) { Label::Named(s) => s, _ => "m".into() }) } }
    }
}
trait PipeFinite { fn pipe_finite(self) -> Self; }
impl PipeFinite for IDLValue {
    fn pipe_finite(self) -> Self { match self { IDLValue::Float64(f) if !f.is_finite() => IDLValue::Float64(1.5), o => o } }
}

pub fn generate(thorough: bool, r: &mut Rng, em: &mut Emit) {
    let scale = if thorough { 20 } else { 1 };
    // every scalar below U+0800 (quick) / all 1 112 064 scalars in thorough, spread over the shards: one string of 64 scalars per case
    let mut block: Vec<char> = vec![];
    let total: u32 = if thorough { 0x110000 } else { 0x800 };
    let mut c = 0u32;
    while c < total {
        if let Some(ch) = char::from_u32(c) { block.push(ch); }
        if block.len() == 64 || c + 1 == total {
            if !thorough || r.coin(1, 16) || c < 0x3000 {
                let s: String = block.iter().collect();
                em.case_nt("c11.print_text", &[scalars_sx(&s)], true);
                let printed = format!("{}", IDLValue::Text(s.clone()));
                em.case_nt("c11.lex_text", &[sx::hex(printed.as_bytes())], true);
                // char followed by a hex digit (the \0a family), each alone
                for ch in block.iter().take(if thorough { 4 } else { 64 }) {
                    let t = format!("{}a", ch);
                    let printed = format!("{}", IDLValue::Text(t));
                    em.case_nt("c11.lex_text", &[sx::hex(printed.as_bytes())], false);
                }
            }
            block.clear();
        }
        c += 1;
    }
    // adjacency: every ordered pair (and, sampled / in thorough all, triples) over the characters that the escaping and the
    // lexer treat specially -- an escape applied to already escaped text, or read across a character boundary, shows only here
    let alpha: Vec<char> = vec!['\\', '0', 'u', '{', '}', '"', '\'', 'n', 't', 'r', '\0', 'a', 'x', '4', '1', ' ', '\n'];
    for &x in &alpha { for &y in &alpha {
        let s: String = [x, y].iter().collect();
        em.stat("text.adjacent");
        em.case_nt("c11.print_text", &[scalars_sx(&s)], true);
        em.case_nt("c11.print_label", &[scalars_sx(&s)], true);
        let printed = format!("{}", IDLValue::Text(s.clone()));
        em.case_nt("c11.lex_text", &[sx::hex(printed.as_bytes())], true);
        for &z in &alpha {
            if !thorough && !r.coin(1, 6) { continue; }
            let s3: String = [x, y, z].iter().collect();
            em.case_nt("c11.print_text", &[scalars_sx(&s3)], true);
            em.case_nt("c11.print_label", &[scalars_sx(&s3)], true);
        }
    } }
    // every reserved word of the grammar as a label (it has to be quoted), next to near-misses that need no quotes
    for k in crate::ops::c15::KEYWORDS {
        for s in [k.to_string(), format!("{}_", k), format!("_{}", k), k.to_uppercase(), format!("{}1", k)] {
            em.stat("label.keyword-or-near-miss");
            em.case_nt("c11.print_label", &[scalars_sx(&s)], true);
        }
    }
    for _ in 0..400 * scale {
        let s = gen_text(r);
        em.stat("text.random");
        em.case_nt("c11.print_text", &[scalars_sx(&s)], s.chars().count() >= 2);
        em.case_nt("c11.print_label", &[scalars_sx(&s)], s.chars().count() >= 2);
        let printed = format!("{}", IDLValue::Text(s.clone()));
        em.case_nt("c11.lex_text", &[sx::hex(printed.as_bytes())], true);
        // hand-made sources: escapes of every kind, valid and malformed
        let esc = ["\\n", "\\t", "\\\\", "\\\"", "\\'", "\\u{41}", "\\u{1_F600}", "\\u{}", "\\u{d800}", "\\u{110000}", "\\u{_1}", "\\u{g}", "\\41", "\\4", "\\zz", "\\0", "\\0a", "\\e9", "\\c3\\a9", "\\ff", "\\b", "\\u", "\\u{41", "x", "é", "\u{1F600}", "\\\n", "\\é", "\\\u{1F600}", "\\\u{80}", "\\"];
        let n = r.range(0, 4);
        let mut src = String::from("\"");
        for _ in 0..n { let e: &str = *r.pick(&esc[..]); src.push_str(e); if r.coin(1, 3) { src.push_str(&gen_text(r).replace('\\', "").replace('"', "")); } }
        if !r.coin(1, 10) { src.push('"'); }
        em.stat("source.handmade");
        em.case_nt("c11.lex_text", &[sx::hex(src.as_bytes())], true);
        em.case_nt("c11.lex_blob", &[sx::hex(src.as_bytes())], true);
    }
    for _ in 0..200 * scale {
        let k = *r.pick(&[0usize, 1, 2, 5, 16, 40]);
        let ascii = r.coin(1, 2);
        let b: Vec<u8> = (0..k).map(|_| if ascii { *r.pick(b"abcXYZ 09\"'`\\\n\t\r~!") } else { r.next() as u8 }).collect();
        em.case_nt("c11.print_blob", &[sx::hex(&b)], k >= 2);
        let printed = format!("{:?}", IDLValue::Blob(b));
        em.case_nt("c11.lex_blob", &[sx::hex(printed.trim_start_matches("blob ").as_bytes())], k >= 2);
    }
    for _ in 0..200 * scale {
        let k = r.range(1, 40) as usize;
        let ds: String = (0..k).map(|i| if i == 0 { (b'1' + r.below(9) as u8) as char } else { (b'0' + r.below(10) as u8) as char }).collect();
        em.case_nt("c11.pp_num", &[ds.clone()], k > 3);
        let grouped = candid::utils::pp_num_str(&ds);
        em.case_nt("c11.lex_num", &[sx::hex(grouped.as_bytes())], k > 3);
        let mut odd = ds.clone(); if k > 1 { let p = r.range(1, k as u64 - 1) as usize; odd.insert(p, '_'); if r.coin(1, 3) { odd.insert(p, '_'); } }
        em.case_nt("c11.lex_num", &[sx::hex(odd.as_bytes())], true);
    }
    for i in 0..600 * scale {
        let seed = r.next() % 1_000_000_007;
        em.case_nt("p.c11.roundtrip", &[i.to_string(), seed.to_string()], true);
    }
}
