//! C20: randomly generated arguments always inhabit the requested types.
//!   c20.inhabits <env> <types> <vals>   the values random::any returned, checked by the model's has_type
//!   p.c20.*                             predicates on the implementation alone
use crate::ops::c02::{tys_from, tys_sx};
use crate::ty::{env_from_sx, env_sx, gen_env, gen_type, to_env, Env, GenCfg, T};
use crate::val::{gen_val, vals_sx, V};
use crate::{rng::Rng, sx, Emit};
use candid::types::Type;
use candid::IDLArgs;
use candid_parser::configs::Configs;
use std::str::FromStr;

fn run(env: &Env, ts: &[T], cfg: &str, seed: &[u8]) -> Result<IDLArgs, String> {
    let configs = Configs::from_str(cfg).map_err(|e| format!("config: {}", e))?;
    // (labels that are hashes of these words are spelled as names, so that configuration paths such as tail.list can match)
    let names: crate::ops::c07::Names = ["tail", "head", "stop", "more", "fork", "a", "b", "name", "id"].iter().map(|n| (candid::idl_hash(n), n.to_string())).collect();
    let tys: Vec<Type> = ts.iter().map(|t| crate::ops::c07::to_type_named(t, &names)).collect();
    candid_parser::random::any(seed, configs, &crate::ops::c07::to_env_named(env, &names), &tys, &None).map_err(|e| format!("{}", e))
}
fn seed_of(s: &str) -> Vec<u8> { sx::unhex(s) }

/// run one predicate in a child process: a stack overflow there is an outcome, not the end of the run
fn in_child(op: &str, a: &[&str]) -> String {
    use std::io::Write;
    let exe = match std::env::current_exe() { Ok(e) => e, Err(_) => return "(no-exe)".into() };
    let mut child = match std::process::Command::new(exe).arg("eval").stdin(std::process::Stdio::piped()).stdout(std::process::Stdio::piped()).stderr(std::process::Stdio::null()).spawn() { Ok(c) => c, Err(_) => return "(spawn-failed)".into() };
    let line = format!("1\t{}\t{}\n", op, a.join("\t"));
    let _ = child.stdin.take().map(|mut s| s.write_all(line.as_bytes()));
    match child.wait_with_output() {
        Ok(o) if o.status.success() => String::from_utf8_lossy(&o.stdout).lines().next().and_then(|l| l.split_once('\t').map(|x| x.1.to_string())).unwrap_or("(no-answer)".into()),
        Ok(o) => format!("(abort {:?})", o.status.code()),
        Err(_) => "(wait-failed)".into(),
    }
}

/// every operation runs on a thread with a 1 GiB stack: recursion through vectors is as deep as the entropy lasts (a known finding of
/// its own), and neither the generator's nor the annotator's stack use on such values may decide -- by a few bytes either way --
/// whether a case of another kind runs to its end
pub fn eval(op: &str, a: &[&str]) -> Option<String> {
    if op.contains(".child") { return eval_inner(op, a); }
    let (op2, args): (String, Vec<String>) = (op.to_string(), a.iter().map(|s| s.to_string()).collect());
    let h = std::thread::Builder::new().stack_size(1 << 30).spawn(move || { let v: Vec<&str> = args.iter().map(|s| s.as_str()).collect(); eval_inner(&op2, &v) }).ok()?;
    match h.join() { Ok(r) => r, Err(_) => Some("(panic)".into()) }
}
fn eval_inner(op: &str, a: &[&str]) -> Option<String> {
    Some(match op {
        "c20.inhabits" => {
            // a[0] env, a[1] types, a[2] config (hex), a[3] seed, a[4] the values random::any returned when the case was generated
            let env = env_from_sx(a[0]); let ts = tys_from(a[1]);
            let cfg = String::from_utf8(sx::unhex(a[2])).ok()?;
            match run(&env, &ts, &cfg, &seed_of(a[3])) {
                Ok(args) => { let vs: Vec<V> = args.args.iter().map(V::from_idl).collect(); if format!("({})", vals_sx(&vs)) == a[4] { "(ok)".into() } else { "(nondeterministic)".into() } }
                Err(_) => if a[4] == "err" { "(err)".into() } else { "(nondeterministic)".into() },
            }
        }
        "p.c20.inhabits" | "p.c20.inhabits.child.uninhabited-cycle" => {
            // an error, or values that annotate against the types unchanged (both modes) and encode at them; never a panic
            let env = env_from_sx(a[0]); let ts = tys_from(a[1]);
            let cfg = String::from_utf8(sx::unhex(a[2])).ok()?;
            if op != "p.c20.inhabits" { return Some(in_child("p.c20.inhabits", a)); }
            let tys: Vec<Type> = ts.iter().map(|t| t.to_type()).collect();
            let te = to_env(&env);
            match run(&env, &ts, &cfg, &seed_of(a[3])) {
                Err(_) => "ok".into(),
                Ok(args) => {
                    if args.args.len() != tys.len() { return Some(format!("FAIL {} values for {} types", args.args.len(), tys.len())); }
                    for (v, t) in args.args.iter().zip(&tys) {
                        for mode in [true, false] {
                            match v.annotate_type(mode, &te, t) {
                                Ok(w) => if V::from_idl(&w) != V::from_idl(v) { return Some(format!("FAIL annotate({}) changes {} at {}", mode, v, t)); },
                                Err(e) => return Some(format!("FAIL annotate({}) rejects {} at {}: {}", mode, v, t, e)),
                            }
                        }
                    }
                    match args.to_bytes_with_types(&te, &tys) {
                        Ok(b) => match IDLArgs::from_bytes_with_types(&b, &te, &tys) {
                            Ok(d) => { let x: Vec<V> = d.args.iter().map(V::from_idl).collect(); let y: Vec<V> = args.args.iter().map(V::from_idl).collect(); if x == y { "ok".into() } else { "FAIL decoding the encoding differs".into() } }
                            Err(e) => format!("FAIL the encoding does not decode: {}", e),
                        },
                        Err(e) => format!("FAIL does not encode at the requested types: {}", e),
                    }
                }
            }
        }
        "p.c20.deterministic" => {
            let env = env_from_sx(a[0]); let ts = tys_from(a[1]);
            let cfg = String::from_utf8(sx::unhex(a[2])).ok()?;
            let r1 = run(&env, &ts, &cfg, &seed_of(a[3])).map(|a| a.to_string()); let r2 = run(&env, &ts, &cfg, &seed_of(a[3])).map(|a| a.to_string());
            if r1 == r2 { "ok".into() } else { "FAIL two runs differ".into() }
        }
        "p.c20.bounds" => {
            // with depth d, size s, width w at the root: every vector and text has at most w elements, numbers are within the range
            let env = env_from_sx(a[0]); let ts = tys_from(a[1]);
            let cfg = String::from_utf8(sx::unhex(a[2])).ok()?;
            let w: usize = a[4].parse().ok()?; let ranged = a[5] != "-"; let lo: i64 = if ranged { a[5].parse().ok()? } else { 0 }; let hi: i64 = if ranged { a[6].parse().ok()? } else { 0 };
            fn chk(v: &V, w: usize, lo: i64, hi: i64, ranged: bool) -> Result<(), String> {
                use num_traits::ToPrimitive;
                if !ranged { if let V::Int(_) | V::IntN(..) | V::Nat(_) | V::NatN(..) = v { return Ok(()); } }
                match v {
                    V::Vec(xs) => { if xs.len() > w { return Err(format!("vector of {} elements, width {}", xs.len(), w)); } for x in xs { chk(x, w, lo, hi, ranged)?; } Ok(()) }
                    V::Text(t) => if String::from_utf8_lossy(t).chars().count() > w { Err(format!("text of {} characters, width {}", t.len(), w)) } else { Ok(()) },
                    V::Opt(Some(x)) | V::Variant(_, x) => chk(x, w, lo, hi, ranged),
                    V::Rec(fs) => { for f in fs { chk(&f.1, w, lo, hi, ranged)?; } Ok(()) }
                    V::Int(z) => match z.to_i128() { Some(z) if z >= lo as i128 && z <= hi as i128 => Ok(()), _ => Err(format!("int {} outside {}..={}", z, lo, hi)) },
                    V::IntN(_, z) => if *z >= lo && *z <= hi { Ok(()) } else { Err(format!("int {} outside {}..={}", z, lo, hi)) },
                    V::Nat(n) => match n.to_i128() { Some(n) if n >= lo.max(0) as i128 && n <= hi as i128 => Ok(()), _ => Err(format!("nat {} outside {}..={}", n, lo, hi)) },
                    V::NatN(_, n) => if (*n as i128) >= lo.max(0) as i128 && (*n as i128) <= hi as i128 { Ok(()) } else { Err(format!("nat {} outside {}..={}", n, lo, hi)) },
                    _ => Ok(()),
                }
            }
            match run(&env, &ts, &cfg, &seed_of(a[3])) {
                Err(_) => "ok".into(),
                Ok(args) => { for v in &args.args { if let Err(e) = chk(&V::from_idl(v), w, lo, hi, ranged) { return Some(format!("FAIL {}", e)); } } "ok".into() }
            }
        }
        "p.c20.depth" | "p.c20.depth.vec-recursion" => {
            // a[4] = bound: no returned value nests deeper (the configured depth plus what a smallest value of the types needs)
            let env = env_from_sx(a[0]); let ts = tys_from(a[1]);
            let cfg = String::from_utf8(sx::unhex(a[2])).ok()?;
            let bound: usize = a[4].parse().ok()?;
            fn depth(v: &V) -> usize { 1 + match v { V::Opt(Some(x)) | V::Variant(_, x) => depth(x), V::Vec(xs) => xs.iter().map(depth).max().unwrap_or(0), V::Rec(fs) => fs.iter().map(|f| depth(&f.1)).max().unwrap_or(0), _ => 0 } }
            match run(&env, &ts, &cfg, &seed_of(a[3])) {
                Err(_) => "ok".into(),
                Ok(args) => { let d = args.args.iter().map(|v| depth(&V::from_idl(v))).max().unwrap_or(0); if d <= bound { "ok".into() } else { format!("FAIL a value nests {} deep, bound {}", d, bound) } }
            }
        }
        "p.c20.succeeds" => {
            // for types that have values, do not mention `empty` and are not vector-recursive, and a valid configuration:
            // generation returns values (running into the recursion limit instead means it did not stop at the configured depth)
            let env = env_from_sx(a[0]); let ts = tys_from(a[1]);
            let cfg = String::from_utf8(sx::unhex(a[2])).ok()?;
            match run(&env, &ts, &cfg, &seed_of(a[3])) { Ok(_) => "ok".into(), Err(e) => format!("FAIL no value: {}", e.lines().next().unwrap_or("")) }
        }
        "p.c20.config_value" => {
            // values supplied through the configuration are returned only if they have the type
            let env = env_from_sx(a[0]); let ts = tys_from(a[1]);
            let cfg = String::from_utf8(sx::unhex(a[2])).ok()?;
            let tys: Vec<Type> = ts.iter().map(|t| t.to_type()).collect(); let te = to_env(&env);
            match run(&env, &ts, &cfg, &seed_of(a[3])) {
                Err(_) => "ok".into(),
                Ok(args) => { for (v, t) in args.args.iter().zip(&tys) { if v.annotate_type(false, &te, t).is_err() { return Some(format!("FAIL a configured value {} was returned at type {}", v, t)); } } "ok".into() }
            }
        }
        _ => return None,
    })
}

/// does some definition reach itself through a vector WITHOUT passing an opt or a variant (the choice points that stop at the
/// depth limit)?  Generation then recurses as deep as the entropy lasts: known finding
fn vec_recursive(env: &Env) -> bool {
    fn go(env: &Env, t: &T, under_vec: bool, target: &str, seen: &mut Vec<(String, bool)>) -> bool {
        match t {
            T::Var(x) => { if x == target && under_vec { return true; } if seen.contains(&(x.clone(), under_vec)) { return false; } seen.push((x.clone(), under_vec)); env.iter().find(|d| &d.0 == x).map_or(false, |d| go(env, &d.1, under_vec, target, seen)) }
            T::Vec(x) => go(env, x, true, target, seen),
            T::Rec(fs) => fs.iter().any(|f| go(env, &f.1, under_vec, target, seen)),
            _ => false,      // opt and variant are choice points: the limit stops the recursion there
        }
    }
    env.iter().any(|d| go(env, &d.1, false, &d.0, &mut vec![]))
}
fn inhabited(r: &mut Rng, env: &Env, t: &T) -> bool { (0..6).any(|_| gen_val(r, env, t, 6).is_some()) }
fn mentions_empty(env: &Env, t: &T, fuel: u32) -> bool {
    if fuel == 0 { return false; }
    match t {
        T::Prim("empty") => true,
        T::Var(x) => env.iter().find(|d| &d.0 == x).map_or(false, |d| mentions_empty(env, &d.1, fuel - 1)),
        T::Opt(x) | T::Vec(x) => mentions_empty(env, x, fuel - 1),
        T::Rec(fs) | T::Variant(fs) => fs.iter().any(|f| mentions_empty(env, &f.1, fuel - 1)),
        _ => false,
    }
}

/// the values random::any returns for this case, checked by the MODEL's has_type (strict: a nat value is not an int value)
fn emit_model_inhabits(em: &mut Emit, env: &Env, ts: &[T], c: &str, seed: &[u8], args: &[String]) {
    let vals = { let (e2, t2, c2, s2) = (env.clone(), ts.to_vec(), c.to_string(), seed.to_vec()); std::thread::Builder::new().stack_size(1 << 30).spawn(move || match std::panic::catch_unwind(std::panic::AssertUnwindSafe(|| run(&e2, &t2, &c2, &s2))).unwrap_or(Err("panic".into())) { Ok(a) => format!("({})", vals_sx(&a.args.iter().map(V::from_idl).collect::<Vec<_>>())), Err(_) => "err".to_string() }).unwrap().join().unwrap_or("err".into()) };
    let mut a3 = args.to_vec(); a3.push(vals);
    em.case_nt("c20.inhabits", &a3, true);
}

pub fn generate(thorough: bool, r: &mut Rng, em: &mut Emit) {
    let scale = if thorough { 10 } else { 1 };
    let configs: Vec<(String, usize, i64, i64)> = vec![
        ("".into(), 10, i64::MIN, i64::MAX),
        ("depth = 3\nsize = 10\n".into(), 10, i64::MIN, i64::MAX),
        ("depth = 0\nsize = 0\nwidth = 2\n".into(), 2, i64::MIN, i64::MAX),
        ("depth = -3\nsize = -5\nwidth = 0\n".into(), 0, i64::MIN, i64::MAX),
        ("width = 3\nrange = [-5, 5]\n".into(), 3, -5, 5),
        ("range = [0, 0]\ntext = \"emoji\"\nwidth = 4\n".into(), 4, 0, 0),
        ("range = [250, 70000]\nwidth = 1\n".into(), 1, 250, 70000),
        ("text = \"name\"\ndepth = 20\nsize = 1000\nwidth = 5\n".into(), usize::MAX, i64::MIN, i64::MAX),
        ("text = \"path\"\n".into(), usize::MAX, i64::MIN, i64::MAX),
        ("text = \"name.cn\"\nwidth = 2\n".into(), usize::MAX, i64::MIN, i64::MAX),
    ];
    for round in 0..(16 * scale) {
        let cfg = GenCfg { max_depth: 2, refs: round % 3 == 0, var_bias: 4 };
        let k = r.range(0, 4) as usize;
        let env = gen_env(r, k, &cfg);
        let names: Vec<String> = env.iter().map(|d| d.0.clone()).collect();
        let n = r.range(1, 3) as usize;
        let ts: Vec<T> = (0..n).map(|_| if !names.is_empty() && r.coin(1, 2) { let n: &String = r.pick(&names[..]); T::var(n) } else { gen_type(r, &names, 2, &cfg) }).collect();
        // types with no value at all: recursion through records / single-arm variants never ends (known finding: stack overflow), and
        // `empty` has none by definition
        let all_inhabited = ts.iter().all(|t| inhabited(r, &env, t)) && env.iter().all(|d| inhabited(r, &env, &T::var(&d.0)));
        for (ci, (c, w, lo, hi)) in configs.iter().enumerate() {
            let slen = *r.pick(&[0usize, 1, 7, 64, 512, 2048]);
            let seed = r.bytes(slen);
            let args = vec![env_sx(&env), tys_sx(&ts), sx::hex(c.as_bytes()), sx::hex(&seed)];
            let nt = true;
            if !all_inhabited {
                if ci < 2 { em.stat("uninhabited.child"); em.case_nt("p.c20.inhabits.child.uninhabited-cycle", &args, nt); }
                continue;
            }
            em.stat(&format!("seed.len.{}", slen));
            em.case_nt("p.c20.inhabits", &args, nt);
            em.case_nt("p.c20.deterministic", &args, nt);
            if *w != usize::MAX { let mut a2 = args.clone(); a2.push(w.to_string()); if *lo == i64::MIN { a2.push("-".into()); a2.push("-".into()); } else { a2.push(lo.to_string()); a2.push(hi.to_string()); } em.case_nt("p.c20.bounds", &a2, nt); }
            if !vec_recursive(&env) && !ts.iter().any(|t| mentions_empty(&env, t, 8)) && !env.iter().any(|d| mentions_empty(&env, &d.1, 8)) && !c.contains("name") && !c.contains("path") {
                em.case_nt("p.c20.succeeds", &args, nt);
            }
            // nesting bound: the configured depth (10 by default) plus what the smallest values of these small types need
            let d: i64 = c.lines().find_map(|l| l.strip_prefix("depth = ").and_then(|x| x.trim().parse().ok())).unwrap_or(10);
            let mut a4 = args.clone(); a4.push((d.max(0) as usize + 12).to_string());
            em.case_nt(if vec_recursive(&env) { "p.c20.depth.vec-recursion" } else { "p.c20.depth" }, &a4, nt);
            let vals = { let (e2, t2, c2, s2) = (env.clone(), ts.clone(), c.clone(), seed.clone()); std::thread::Builder::new().stack_size(1 << 30).spawn(move || match std::panic::catch_unwind(std::panic::AssertUnwindSafe(|| run(&e2, &t2, &c2, &s2))).unwrap_or(Err("panic".into())) { Ok(a) => format!("({})", vals_sx(&a.args.iter().map(V::from_idl).collect::<Vec<_>>())), Err(_) => "err".to_string() }).unwrap().join().unwrap_or("err".into()) };
            let mut a3 = args.clone(); a3.push(vals);
            em.case_nt("c20.inhabits", &a3, nt);
        }
    }
    // depth configured for a path (one and two segments) on a recursive type: it is not re-applied at every level of the recursion
    {
        let env: Env = vec![("list".into(), T::opt(T::rec(vec![(candid::idl_hash("head"), T::p("nat")), (candid::idl_hash("tail"), T::var("list"))]))),
                            ("queue".into(), T::rec(vec![(candid::idl_hash("tail"), T::var("list"))])),
                            ("tree".into(), T::variant(vec![(candid::idl_hash("stop"), T::p("null")), (candid::idl_hash("more"), T::vec(T::var("tree"))), (candid::idl_hash("fork"), T::rec(vec![(0, T::var("tree")), (1, T::var("tree"))]))]))];
        for c in ["list = { depth = 2 }\n", "[\"tail.list\"]\ndepth = 2\n", "tail.list = { depth = 2 }\n", "tail.list = { depth = 2, size = 50 }\n", "depth = 4\n", "tree = { depth = 4 }\n", "[tree]\ndepth = 3\nsize = 5\n"] {
            for t in [T::var("list"), T::var("queue"), T::opt(T::var("queue")), T::var("tree"), T::rec(vec![(0, T::var("tree")), (1, T::var("list"))])] {
                for slen in [64usize, 512, 2048] {
                    let args = vec![env_sx(&env), tys_sx(&[t.clone()]), sx::hex(c.as_bytes()), sx::hex(&r.bytes(slen))];
                    em.case_nt("p.c20.inhabits", &args, true);
                    em.case_nt("p.c20.succeeds", &args, true);
                    let mut a4 = args.clone(); a4.push("22".into());      // (the largest depth configured here is 10 by default)
                    em.case_nt("p.c20.depth", &a4, true);
                }
            }
        }
    }
    // a recursive variant whose only finite alternatives mention ONE named type more than once: the size estimate that picks the
    // alternatives allowed at the depth / size limit must not take the second mention for recursion
    for _ in 0..(6 * scale) {
        let h = |s: &str| candid::idl_hash(s);
        let acc = match r.below(3) { 0 => T::rec(vec![(h("id"), T::p("nat"))]), 1 => T::rec(vec![(h("id"), T::p("nat8")), (h("name"), T::p("text"))]), _ => T::variant(vec![(h("a"), T::p("null")), (h("b"), T::p("nat"))]) };
        let base = match r.below(3) { 0 => T::rec(vec![(h("a"), T::var("acc")), (h("b"), T::var("acc"))]), 1 => T::rec(vec![(0, T::var("acc")), (1, T::opt(T::var("acc"))), (2, T::var("acc"))]), _ => T::rec(vec![(h("head"), T::var("acc")), (h("tail"), T::rec(vec![(h("a"), T::var("acc"))]))]) };
        let again = match r.below(3) { 0 => T::rec(vec![(0, T::var("op")), (1, T::var("op"))]), 1 => T::rec(vec![(h("tail"), T::var("op"))]), _ => T::rec(vec![(h("head"), T::var("acc")), (h("tail"), T::var("op"))]) };
        // random ids: which alternative comes first in id order varies
        let (i1, i2) = loop { let a = r.below(5000) as u32; let b = r.below(5000) as u32; if a != b { break (a, b); } };
        let mut alts = vec![(i1, base), (i2, again)];
        if r.coin(1, 3) { let i3 = 5000 + r.below(100) as u32; alts.push((i3, T::rec(vec![(0, T::var("acc")), (1, T::var("acc")), (2, T::var("op"))]))); }
        let env: Env = vec![("acc".into(), acc), ("op".into(), T::variant(alts))];
        for c in ["", "depth = 2\n", "depth = 3\nsize = 10\n", "depth = 1\nsize = 3\n", "op = { depth = 2 }\n"] {
            for t in [T::var("op"), T::rec(vec![(0, T::var("op")), (1, T::var("acc"))]), T::opt(T::var("op"))] {
                for seed in [vec![], vec![0xffu8; 64], vec![0u8; 64], r.bytes(64), r.bytes(512), r.bytes(2048)] {
                    let args = vec![env_sx(&env), tys_sx(&[t.clone()]), sx::hex(c.as_bytes()), sx::hex(&seed)];
                    em.stat("recursive-variant.base-mentions-a-name-twice");
                    em.case_nt("p.c20.inhabits", &args, true);
                    em.case_nt("p.c20.succeeds", &args, true);
                    let d: i64 = c.lines().find_map(|l| l.strip_prefix("depth = ").and_then(|x| x.trim().parse().ok())).unwrap_or(10);
                    let mut a4 = args.clone(); a4.push((d.max(0) as usize + 12).to_string());
                    em.case_nt("p.c20.depth", &a4, true);
                }
            }
        }
    }
    // one literal supplied through the configuration for positions of DIFFERENT types: each use is checked against its own type
    {
        let h = |s: &str| candid::idl_hash(s);
        let ints = ["nat", "int", "nat8", "int16", "nat64", "int64"];
        let mut progs: Vec<(T, String)> = vec![
            (T::rec(vec![(h("a"), T::rec(vec![(h("id"), T::p("nat"))])), (h("b"), T::rec(vec![(h("id"), T::p("int32"))]))]), "id.value = [\"42\"]\n".into()),
            (T::rec(vec![(h("a"), T::p("nat8")), (h("b"), T::vec(T::p("int16")))]), "nat8.value = [\"7\"]\nint16.value = [\"7\", \"-7\"]\n".into()),
            (T::rec(vec![(h("a"), T::opt(T::p("nat"))), (h("b"), T::opt(T::opt(T::p("nat")))), (h("id"), T::p("null"))]), "a.value = [\"null\"]\nb.value = [\"null\"]\nid.value = [\"null\"]\n".into()),
            (T::rec(vec![(h("a"), T::vec(T::p("nat8"))), (h("b"), T::vec(T::p("nat16")))]), "a.value = [\"vec { 1; 2 }\"]\nb.value = [\"vec { 1; 2 }\"]\n".into()),
        ];
        for _ in 0..(4 * scale) {
            let p1: &str = *r.pick(&ints[..]); let p2 = loop { let p: &str = *r.pick(&ints[..]); if p != p1 { break p; } };
            // plain literals and literals that carry their own annotation (a nat-annotated literal at an int position is
            // converted by the check against the type; an annotation that does not fit the position is an error)
            let lits = ["1", "7", "0", "100", "(100 : nat)", "(7 : nat)", "(70 : nat)", "(5 : int)", "(-3 : int)", "(9 : nat8)", "(1 : int64)"]; let l1: &str = *r.pick(&lits[..]); let l2: &str = *r.pick(&lits[..]);
            let t = T::rec(vec![(0, T::Prim(p1)), (1, T::vec(T::Prim(p2))), (2, T::opt(T::Prim(p1))), (3, T::Prim(p2))]);
            progs.push((t, format!("{}.value = [{:?}, {:?}]\n{}.value = [{:?}, {:?}]\n", p1, l1, l2, p2, l2, l1)));
        }
        for (t, c) in progs {
            for seed in [vec![], vec![1u8, 2, 3], vec![0xffu8; 64], r.bytes(16), r.bytes(64), r.bytes(256)] {
                let args = vec![env_sx(&vec![]), tys_sx(&[t.clone()]), sx::hex(c.as_bytes()), sx::hex(&seed)];
                em.stat("configured-literal.shared-by-two-types");
                em.case_nt("p.c20.config_value", &args, true);
                em.case_nt("p.c20.inhabits", &args, true);
                emit_model_inhabits(em, &vec![], &[t.clone()], &c, &seed, &args);
            }
        }
    }
    // configured values: well-typed, ill-typed, unparsable
    for (t, vals) in [(T::p("int"), vec!["(100 : nat)", "(64 : nat)", "(127 : nat)", "(5 : int)", "(-5 : int)", "7", "(7 : nat8)"]),
                      (T::vec(T::p("int")), vec!["vec { (100 : nat); 2 }", "vec { (70 : nat) }"]), (T::opt(T::p("int")), vec!["opt (100 : nat)", "opt (3 : int)"]),
                      (T::rec(vec![(0, T::p("int")), (1, T::p("nat"))]), vec!["record { (100 : nat); (100 : nat) }", "record { (1 : int); (1 : int) }"]),
                      (T::p("nat"), vec!["(100 : nat)", "(5 : int)", "(3 : nat8)"]),
                      (T::p("nat8"), vec!["42", "300", "\"x\"", "(", "-1"]), (T::opt(T::p("text")), vec!["null", "opt \"a\"", "\"a\"", "opt 5"]),
                      (T::vec(T::p("int")), vec!["vec { 1; -2 }", "vec { 1.5 }", "blob \"ab\""]), (T::rec(vec![(0, T::p("bool"))]), vec!["record { true }", "record { 0 = 1 }", "record {}"])] {
        for v in vals.iter() {
            let c = format!("value = [{:?}]\n", v);
            let seed = r.bytes(16);
            let args = vec![env_sx(&vec![]), tys_sx(&[t.clone()]), sx::hex(c.as_bytes()), sx::hex(&seed)];
            em.case_nt("p.c20.config_value", &args, true);
            em.case_nt("p.c20.inhabits", &args, true);
            emit_model_inhabits(em, &vec![], &[t.clone()], &c, &seed, &args);
        }
    }
    // invalid configurations are errors, not panics: range with l > r, unknown text kind, negative width
    for c in ["range = [5, 1]\n", "text = \"klingon\"\n", "range = [300, 200]\nwidth = 2\n", "depth = -100\n", "size = -100\nwidth = 100\n"] {
        for t in [T::p("nat8"), T::p("int"), T::p("text"), T::vec(T::p("int16")), T::opt(T::p("nat"))] {
            let args = vec![env_sx(&vec![]), tys_sx(&[t]), sx::hex(c.as_bytes()), sx::hex(&r.bytes(32))];
            em.case_nt("p.c20.inhabits", &args, true);
        }
    }
    // types with no values: an error, not a panic
    for t in [T::p("empty"), T::variant(vec![]), T::variant(vec![(0, T::p("empty"))]), T::opt(T::p("empty")), T::vec(T::p("empty")), T::rec(vec![(0, T::p("empty"))]),
              T::opt(T::variant(vec![(1, T::p("empty")), (2, T::p("empty"))])), T::variant(vec![(0, T::p("empty")), (1, T::p("nat"))])] {
        for c in ["", "depth = 0\n", "depth = 0\nsize = 0\n"] {
            for slen in [0usize, 16] {
                let args = vec![env_sx(&vec![]), tys_sx(&[t.clone()]), sx::hex(c.as_bytes()), sx::hex(&r.bytes(slen))];
                em.case_nt("p.c20.inhabits", &args, true);
            }
        }
    }
    let _ = mentions_empty;
}
