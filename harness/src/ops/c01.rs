//! C01 / C06 / C08 on the native corpus (native.rs).
//!   c08.native  <type> <env> <types> <hex>      native decoding as an abstract value  -- compared with the specification's decoder
//!   c01.wf      <type> <env> <types> <vals> <hex> native encoding of the decoded value  -- the model checks it is a well-formed message
//!   p.*                                          predicates on the implementation alone
use crate::native::{self, BORROWED, NAMES};
use crate::ops::c02::{hostile, mutate_bytes, tys_sx};
use crate::ops::c07::{config, decode_untyped, Out};
use crate::ty::{env_sx, gen_type, mutate_type, Env, GenCfg, T};
use crate::val::{gen_val, message, vals_sx, V};
use crate::{rng::Rng, sx, Emit};
use num_bigint::{BigInt, BigUint};

pub fn eval(op: &str, a: &[&str]) -> Option<String> {
    match op {
        "p.c01.history" => {
            // a[0] type, a[1] message, a[2] history ((type hex) ...): the trace of one decode+encode is the same on a fresh thread
            // and after the history ran on the thread (type derivations, encodes, decodes of other types, new builders)
            let tn = a[0].to_string(); let h = a[1].to_string();
            let hist: Vec<(String, String)> = sx::parse(a[2]).list().iter().map(|p| (String::from_utf8(sx::unhex(p.list()[0].atom())).unwrap(), p.list()[1].atom().to_string())).collect();
            let (tn1, h1) = (tn.clone(), h.clone());
            let fresh = std::thread::spawn(move || native::dispatch(&tn1, "trace", &[&h1])).join().ok()??;
            let after = std::thread::spawn(move || {
                for (t, m) in &hist {
                    let _ = native::dispatch(t, "trace", &[m]);
                    let _ = candid::ser::IDLBuilder::new();
                    let _ = native::types(t);
                }
                native::dispatch(&tn, "trace", &[&h])
            }).join().ok()??;
            Some(if fresh == after { "ok".into() } else { format!("FAIL history changes the outcome: fresh [{}] after [{}]", fresh, after) })
        }
        "p.c06.smallstack" => {
            // the same fuzz evaluation on a 256 KiB thread stack: deep nesting must be an error, not a stack overflow
            let args: Vec<String> = a.iter().map(|s| s.to_string()).collect();
            let r = std::thread::Builder::new().stack_size(256 * 1024).spawn(move || {
                let v: Vec<&str> = args.iter().map(|s| s.as_str()).collect();
                std::panic::catch_unwind(std::panic::AssertUnwindSafe(|| native::dispatch(v[0], "p.c06.fuzz", &v[1..]))).ok().flatten()
            }).ok()?.join();
            Some(match r { Ok(Some(s)) => s, Ok(None) => "(panic)".into(), Err(_) => "(panic)".into() })
        }
        "p.c06.untyped.smallstack" => {
            let args: Vec<String> = a.iter().map(|s| s.to_string()).collect();
            let r = std::thread::Builder::new().stack_size(256 * 1024).spawn(move || {
                let v: Vec<&str> = args.iter().map(|s| s.as_str()).collect();
                std::panic::catch_unwind(std::panic::AssertUnwindSafe(|| eval("p.c06.untyped", &v))).ok().flatten()
            }).ok()?.join();
            Some(match r { Ok(Some(s)) => s, _ => "(panic)".into() })
        }
        "p.c06.untyped" => {
            // IDLArgs::from_bytes* under the same configurations
            let b = sx::unhex(a[0]);
            let mut cfg = config(crate::ops::c07::quota_of(a[1]), crate::ops::c07::quota_of(a[2]));
            cfg.set_full_error_message(a[3] == "1");
            let _ = candid::IDLArgs::from_bytes_with_config(&b, &cfg);
            let _ = candid::IDLArgs::from_bytes_with_types_with_config(&b, &candid::TypeEnv::new(), &[candid::types::TypeInner::Reserved.into()], &cfg);
            Some("ok".into())
        }
        "p.c01.same_name" => {
            // on this thread (whatever ran before) and on a fresh one
            let here = native::same_name();
            let fresh = std::thread::spawn(native::same_name).join().unwrap_or("FAIL panic".into());
            Some(if here == "ok" { fresh } else { here })
        }
        "p.c06.refshare" => {
            // a func reference whose argument type is shared over a[0] levels (every level mentions the next one twice), decoded at a
            // separately spelled, equal expected type under a decoding quota: the work is bounded by the quota, not by 2^levels
            let n: usize = a[0].parse().ok()?;
            let chain = |pre: &str| -> Env { (0..=n).map(|i| (format!("{}{}", pre, i), if i == n { T::p("nat") } else { T::rec(vec![(0, T::var(&format!("{}{}", pre, i + 1))), (1, T::var(&format!("{}{}", pre, i + 1)))]) })).collect() };
            let (wenv, eenv) = (chain("W"), chain("E"));
            let (wt, et) = (T::Func(vec![T::var("W0")], vec![], vec![]), T::Func(vec![T::var("E0")], vec![], vec![]));
            let msg = message(&wenv, &[wt], &[V::Func(vec![1, 2], b"m".to_vec())], 0);
            let cfg = config(Some(100_000), Some(100_000));
            let t0 = std::time::Instant::now();
            let r = candid::IDLArgs::from_bytes_with_types_with_config(&msg, &crate::ty::to_env(&eenv), &[et.to_type()], &cfg);
            let ms = t0.elapsed().as_millis();
            if ms > 8000 { return Some(format!("FAIL {} ms under a decoding quota of 100000 for a {}-byte message ({} levels of shared types)", ms, msg.len(), n)); }
            Some(match r { Ok(_) => "ok".into(), Err(e) => format!("FAIL a reference at an equal type is rejected: {}", e.to_string().lines().next().unwrap_or("")) })
        }
        "p.c08.bounded" => {
            // a[0] bounded vector type, a[1] message of a vector: native decoding accepts it exactly when it is within the limits
            let b = sx::unhex(a[1]);
            let xs = match candid::IDLArgs::from_bytes(&b) { Ok(v) if v.args.len() == 1 => match V::from_idl(&v.args[0]) { V::Vec(xs) => xs, _ => return Some("not-a-vector".into()) }, _ => return Some("untyped-decode-failed".into()) };
            // data_size: u64 = 8; Vec<u8> = size_of::<Vec<u8>>() (24) + length
            let size = |x: &V| match x { V::Vec(b) => 24 + b.len(), _ => 8 };
            let total: usize = xs.iter().map(size).sum();
            let within = match a[0] {
                "BV3" => xs.len() <= 3, "BVT" => total <= 100, "BVU" => total <= 16, "BVE" => xs.iter().all(|x| size(x) <= 30),
                _ => return None,
            };
            let native = native::dispatch(a[0], "c08.native", &["-", "-", a[1]]).unwrap_or_default();
            let ok = native.starts_with("(ok");
            Some(if ok == within { "ok".into() } else { format!("FAIL {} elements, total data size {}: within the limits = {}, native decoding = {}", xs.len(), total, within, native) })
        }
        "p.c06.alloc" => {
            // a[0] type, a[1] message, a[2] decoding quota: bytes allocated while decoding stay below a constant + a multiple of
            // the input length + a multiple of the quota
            let b = sx::unhex(a[1]); let q: usize = a[2].parse().ok()?;
            let before = crate::ALLOCATED.load(std::sync::atomic::Ordering::SeqCst);
            let _ = native::dispatch(a[0], "p.c06.fuzz", &[a[1], a[2], "-", "0"]);
            let used = crate::ALLOCATED.load(std::sync::atomic::Ordering::SeqCst) - before;
            let bound = (4 << 20) + 256 * b.len() + 256 * q;
            Some(if used <= bound { "ok".into() } else { format!("FAIL allocated {} bytes > {} (input {} bytes, quota {})", used, bound, b.len(), q) })
        }
        _ => {
            if a.is_empty() { return None; }
            let tn = a[0].replace('~', " ");
            // every native operation runs twice: on this thread (whose type memo has seen whatever ran before) and on a fresh thread
            // (empty memo, so that type derivation starts at this very type); the two answers must be the same
            let here = native::dispatch(&tn, op, &a[1..]).or_else(|| native::borrowed(&tn, op, &a[1..]))?;
            if op == "p.c06.fuzz" || op == "p.c07.native" || op == "p.c07.api" || op == "p.c07.mixed" { return Some(here); }
            let (tn2, op2, rest): (String, String, Vec<String>) = (tn.clone(), op.to_string(), a[1..].iter().map(|s| s.to_string()).collect());
            let fresh = std::thread::spawn(move || { let v: Vec<&str> = rest.iter().map(|s| s.as_str()).collect(); native::dispatch(&tn2, &op2, &v).or_else(|| native::borrowed(&tn2, &op2, &v)) }).join();
            match fresh {
                Ok(Some(f)) if f == here => Some(here),
                Ok(Some(f)) => Some(format!("(history-dependent here: {} fresh-thread: {})", here, f)),
                _ => Some(format!("(history-dependent here: {} fresh-thread: panic)", here)),
            }
        }
    }
}

/// keep big numbers within 100 bits so that 128-bit host integers hold them
fn clamp(v: &V) -> V {
    match v {
        V::Nat(n) => V::Nat(n & ((BigUint::from(1u8) << 100) - 1u8)),
        V::Int(z) => { let m = BigInt::from(1u8) << 100; V::Int(z % m) }
        V::Opt(Some(x)) => V::Opt(Some(Box::new(clamp(x)))),
        V::Vec(xs) => V::Vec(xs.iter().map(clamp).collect()),
        V::Rec(fs) => V::Rec(fs.iter().map(|(i, x)| (*i, clamp(x))).collect()),
        V::Variant(i, x) => V::Variant(*i, Box::new(clamp(x))),
        _ => v.clone(),
    }
}
/// a type with a similar byte layout: text <-> blob, nat <-> nat8, principal <-> blob, int <-> nat, nat64 <-> int64 ...
/// one field of one record (at any depth) gets a larger id that the record does not use
fn renumber_field(r: &mut Rng, t: &T) -> T {
    fn count(t: &T) -> usize { match t { T::Rec(fs) => (if fs.is_empty() { 0 } else { 1 }) + fs.iter().map(|f| count(&f.1)).sum::<usize>(), T::Variant(fs) => fs.iter().map(|f| count(&f.1)).sum(), T::Opt(x) | T::Vec(x) => count(x), _ => 0 } }
    fn go(r: &mut Rng, t: &T, k: &mut isize) -> T {
        match t {
            T::Rec(fs) => {
                let mut fs: Vec<(u32, T)> = fs.clone();
                if !fs.is_empty() { *k -= 1; if *k == -1 { let j = r.below(fs.len() as u64) as usize; let mx = fs.iter().map(|f| f.0).max().unwrap_or(0); fs[j].0 = mx.saturating_add(1 + r.below(200) as u32); return T::rec(fs); } }
                T::rec(fs.iter().map(|(i, x)| (*i, go(r, x, k))).collect())
            }
            T::Variant(fs) => T::variant(fs.iter().map(|(i, x)| (*i, go(r, x, k))).collect()),
            T::Opt(x) => T::opt(go(r, x, k)), T::Vec(x) => T::vec(go(r, x, k)),
            o => o.clone(),
        }
    }
    let n = count(t); if n == 0 { return t.clone(); }
    let mut k = r.below(n as u64) as isize;
    go(r, t, &mut k)
}
fn lookalike(r: &mut Rng, t: &T) -> T {
    match t {
        T::Prim(p) => {
            let alt: &[T] = match *p {
                "text" => &[T::Vec(Box::new(T::Prim("nat8")))], "nat" => &[T::Prim("nat8"), T::Prim("int"), T::Prim("nat64")],
                "int" => &[T::Prim("nat"), T::Prim("int8"), T::Prim("int64")], "nat8" => &[T::Prim("nat"), T::Prim("int8"), T::Prim("bool")],
                "principal" => &[T::Vec(Box::new(T::Prim("nat8"))), T::Prim("text")], "nat64" => &[T::Prim("int64"), T::Prim("float64"), T::Prim("nat")],
                "bool" => &[T::Prim("nat8")], "null" => &[T::Prim("reserved")], "nat16" => &[T::Prim("int16")], "nat32" => &[T::Prim("float32"), T::Prim("int32")],
                _ => &[],
            };
            if alt.is_empty() || !r.coin(2, 3) { t.clone() } else { r.pick(alt).clone() }
        }
        T::Vec(x) if **x == T::Prim("nat8") && r.coin(1, 2) => T::Prim("text"),
        T::Opt(x) => T::opt(lookalike(r, x)),
        T::Vec(x) => T::vec(lookalike(r, x)),
        T::Rec(fs) => T::rec(fs.iter().map(|(i, t)| (*i, lookalike(r, t))).collect()),
        T::Variant(fs) => T::variant(fs.iter().map(|(i, t)| (*i, lookalike(r, t))).collect()),
        _ => t.clone(),
    }
}
fn key_cmp(a: &V, b: &V) -> std::cmp::Ordering {
    use std::cmp::Ordering::*;
    match (a, b) {
        (V::Text(x), V::Text(y)) => x.cmp(y),
        (V::Nat(x), V::Nat(y)) => x.cmp(y), (V::Int(x), V::Int(y)) => x.cmp(y),
        (V::NatN(_, x), V::NatN(_, y)) => x.cmp(y), (V::IntN(_, x), V::IntN(_, y)) => x.cmp(y),
        (V::Principal(x), V::Principal(y)) => x.len().cmp(&y.len()).then(x.cmp(y)),
        (V::Rec(x), V::Rec(y)) => { for (p, q) in x.iter().zip(y) { let c = key_cmp(&p.1, &q.1); if c != Equal { return c; } } x.len().cmp(&y.len()) }
        _ => Equal,
    }
}
/// every vector of pairs is put in key order with duplicate keys removed (what a BTreeMap holds); with `sets`, every vector is
fn canon_maps(v: &V, sets: bool) -> V {
    match v {
        V::Opt(Some(x)) => V::Opt(Some(Box::new(canon_maps(x, sets)))),
        V::Variant(i, x) => V::Variant(*i, Box::new(canon_maps(x, sets))),
        V::Rec(fs) => V::Rec(fs.iter().map(|(i, x)| (*i, canon_maps(x, sets))).collect()),
        V::Vec(xs) => {
            let mut ys: Vec<V> = xs.iter().map(|x| canon_maps(x, sets)).collect();
            let pairs = !ys.is_empty() && ys.iter().all(|y| matches!(y, V::Rec(fs) if fs.len() == 2 && fs[0].0 == 0 && fs[1].0 == 1));
            if pairs {
                ys.sort_by(|a, b| match (a, b) { (V::Rec(x), V::Rec(y)) => key_cmp(&x[0].1, &y[0].1), _ => std::cmp::Ordering::Equal });
                ys.dedup_by(|a, b| match (&*a, &*b) { (V::Rec(x), V::Rec(y)) => key_cmp(&x[0].1, &y[0].1) == std::cmp::Ordering::Equal, _ => false });
            } else if sets { ys.sort_by(key_cmp); ys.dedup_by(|a, b| key_cmp(a, b) == std::cmp::Ordering::Equal); }
            V::Vec(ys)
        }
        _ => v.clone(),
    }
}
fn resize(v: &V, n: usize, fill: V) -> V { match v { V::Vec(xs) => { let mut ys = xs.clone(); ys.resize(n, fill); V::Vec(ys) } _ => v.clone() } }
/// make a generated abstract value inhabit the RUST type (fixed array lengths, bounded vectors, map key order)
fn fit(name: &str, v: &V) -> V {
    let v = canon_maps(v, name.contains("Set"));
    match name {
        "[u8;4]" => resize(&v, 4, V::NatN(8, 7)), "[Nat;2]" => resize(&v, 2, V::Nat(BigUint::from(5u8))), "[u32;3]" => resize(&v, 3, V::NatN(32, 9)),
        "BV3" => match &v { V::Vec(xs) => V::Vec(xs.iter().take(3).cloned().collect()), _ => v },
        "BVT" => match &v { V::Vec(xs) => { let mut tot = 0usize; let mut ys = vec![]; for x in xs { if let V::Vec(b) = x { if tot + 24 + b.len() > 100 { break; } tot += 24 + b.len(); } ys.push(x.clone()); } V::Vec(ys) } _ => v },
        "BVE" => match &v { V::Vec(xs) => V::Vec(xs.iter().map(|x| match x { V::Vec(b) => V::Vec(b.iter().take(6).cloned().collect()), _ => x.clone() }).collect()), _ => v },
        "BVU" => match &v { V::Vec(xs) => V::Vec(xs.iter().take(2).cloned().collect()), _ => v },
        "Nested" => match &v { V::Rec(fs) => V::Rec(fs.iter().map(|(i, x)| if *i == candid::idl_hash("a") { (*i, resize(x, 3, V::NatN(16, 1))) } else { (*i, x.clone()) }).collect()), _ => v },
        _ => v,
    }
}
/// keep the entry records of pair vectors (maps, vectors of pairs) at exactly the fields {0, 1} of the original type: the shape of
/// a map entry is covered separately (known finding of C08)
fn keep_pairs(orig: &T, m: &T) -> T {
    match (orig, m) {
        (T::Vec(o), T::Vec(x)) => match (&**o, &**x) {
            (T::Rec(of), T::Rec(mf)) if of.len() == 2 && of[0].0 == 0 && of[1].0 == 1 => {
                let pick = |i: u32, d: &T| mf.iter().find(|f| f.0 == i).map(|f| keep_pairs(d, &f.1)).unwrap_or(d.clone());
                T::vec(T::rec(vec![(0, pick(0, &of[0].1)), (1, pick(1, &of[1].1))]))
            }
            _ => T::vec(keep_pairs(o, x)),
        },
        (T::Opt(o), T::Opt(x)) => T::opt(keep_pairs(o, x)),
        (T::Rec(of), T::Rec(mf)) => T::rec(mf.iter().map(|(i, t)| (*i, of.iter().find(|f| f.0 == *i).map(|f| keep_pairs(&f.1, t)).unwrap_or(t.clone()))).collect()),
        (T::Variant(of), T::Variant(mf)) => T::variant(mf.iter().map(|(i, t)| (*i, of.iter().find(|f| f.0 == *i).map(|f| keep_pairs(&f.1, t)).unwrap_or(t.clone()))).collect()),
        _ => m.clone(),
    }
}
fn tn_arg(name: &str) -> String { name.replace(' ', "~") }

fn gen_msg(r: &mut Rng, env: &Env, t: &T, budget: u32, pad: usize) -> Option<(V, Vec<u8>)> { gen_msg_s(r, env, t, budget, pad, false) }
fn gen_msg_s(r: &mut Rng, env: &Env, t: &T, budget: u32, pad: usize, sets: bool) -> Option<(V, Vec<u8>)> {
    for _ in 0..4 { if let Some(v) = gen_val(r, env, t, budget) { let v = canon_maps(&clamp(&v), sets); let m = message(env, &[t.clone()], &[v.clone()], pad); return Some((v, m)); } }
    None
}
fn bounded(m: &[u8]) -> bool { decode_untyped(m, &config(Some(20_000_000), None)) != Out::Quota }

pub fn generate(prop: &str, thorough: bool, r: &mut Rng, em: &mut Emit) {
    let scale = if thorough { 10 } else { 1 };
    let cfg = GenCfg { max_depth: 2, refs: true, var_bias: 3 };
    // messages of every corpus type at its own type: (name, value, message)
    let mut pool: Vec<(String, V, Vec<u8>)> = vec![];
    for name in NAMES {
        let (env, t) = native::types(name).unwrap();
        for k in 0..(3 * scale) {
            if let Some((v, _)) = gen_msg(r, &env, &t, 3 + (k % 4) as u32, 0) { let v = fit(name, &v); let m = message(&env, &[t.clone()], &[v.clone()], 0); pool.push((name.to_string(), v, m)); }
        }
    }
    match prop {
        "C01" => {
            em.stat("same-named-local-types"); em.case_nt("p.c01.same_name", &["-".to_string()], true);
            for (name, v, m) in &pool {
                let (env, t) = native::types(name).unwrap();
                let tn = tn_arg(name); let h = sx::hex(m);
                let nt = v.size() > 1;
                em.stat(&format!("type.{}", name.split('<').next().unwrap_or(name)));
                em.case_nt("p.c01.roundtrip", &[tn.clone(), h.clone()], nt);
                em.case_nt("c08.native", &[tn.clone(), env_sx(&env), tys_sx(&[t.clone()]), h.clone()], nt);
                let b2 = native::dispatch(name, "encode_of", &[&h]).unwrap_or("err".into());
                em.case_nt("c01.wf", &[tn.clone(), env_sx(&env), tys_sx(&[t.clone()]), format!("({})", v.sx()), b2], nt);
                // histories: what ran before on the thread must not matter
                let n = r.range(1, 6) as usize;
                let hist: Vec<String> = (0..n).map(|_| { let p = r.pick(&pool[..]); format!("({} {})", sx::hex(p.0.as_bytes()), sx::hex(&p.2)) }).collect();
                em.case_nt("p.c01.history", &[tn.clone(), h.clone(), format!("({})", hist.join(" "))], nt);
            }
        }
        "C03native" => {
            // C03 speaks of messages "from native values" too: what the native encoder writes for every corpus value is
            // decoded by the model's M^-1 at the Rust type's Candid type
            for (name, v, m) in &pool {
                let (env, t) = native::types(name).unwrap();
                let tn = tn_arg(name); let h = sx::hex(m);
                em.stat("native.wf");
                let b2 = native::dispatch(name, "encode_of", &[&h]).unwrap_or("err".into());
                em.case_nt("c01.wf", &[tn.clone(), env_sx(&env), tys_sx(&[t.clone()]), format!("({})", v.sx()), b2], v.size() > 1);
            }
        }
        "C08" => {
            for (name, v, m) in &pool {
                let (env, t) = native::types(name).unwrap();
                let vars: Vec<String> = env.iter().map(|d| d.0.clone()).collect();
                let tn = tn_arg(name); let nt = v.size() > 1;
                let agree = if native::has_host_limits(name) { "p.c08.agree.limits" } else { "p.c08.agree" };
                em.stat(&format!("type.{}", name.split('<').next().unwrap_or(name)));
                let mut emit = |em: &mut Emit, msg: &[u8], nt: bool| {
                    let h = sx::hex(msg);
                    em.case_nt(agree, &[tn.clone(), h.clone()], nt);
                    if !native::has_host_limits(name) { em.case_nt("c08.native", &[tn.clone(), env_sx(&env), tys_sx(&[t.clone()]), h], nt); }
                };
                emit(em, m, nt);
                // the same value with padded lengths
                emit(em, &message(&env, &[t.clone()], &[v.clone()], 1), nt);
                // wire type a mutated version of the type (sub/supertypes and near misses), or a look-alike
                for k in 0..8 {
                    // (with element types that differ, an empty vector is the known finding below: keep those apart)
                    crate::val::NONEMPTY_VECS.store(true, std::sync::atomic::Ordering::Relaxed);
                    // k >= 6: one record field renumbered to a larger id (the receiver's field is missing, the sender's is surplus)
                    let t2 = keep_pairs(&t, &if k < 3 { mutate_type(r, &t, &vars, &cfg) } else if k < 6 { lookalike(r, &t) } else { renumber_field(r, &t) });
                    if let Some((_, m2)) = gen_msg_s(r, &env, &t2, 4, 0, name.contains("Set")) { em.stat(if k < 3 { "wire.mutated" } else if k < 6 { "wire.lookalike" } else { "wire.field-renumbered" }); emit(em, &m2, true); }
                }
                crate::val::NONEMPTY_VECS.store(true, std::sync::atomic::Ordering::Relaxed);
                // definitions mutated as well (recursive types)
                if !env.is_empty() {
                    let env2: Env = env.iter().map(|(n, d)| { let m = keep_pairs(d, &if r.coin(1, 2) { lookalike(r, d) } else { mutate_type(r, d, &vars, &cfg) }); (n.clone(), if matches!(m, T::Var(_)) { d.clone() } else { m }) }).collect();
                    if let Some((_, m2)) = gen_msg(r, &env2, &t, 4, 0) { em.stat("wire.env-mutated"); emit(em, &m2, true); }
                }
                crate::val::NONEMPTY_VECS.store(false, std::sync::atomic::Ordering::Relaxed);
                // (fixed-size arrays are in scope only with a matching length: no byte-level mutants for them)
                let mb = mutate_bytes(r, m);
                let unordered = name.contains("Map") || name.contains("Set") || *name == "Nested" || name.contains("Byte");   // a mutated key changes the map's order, a mutated type table reaches the empty-vector findings
                if bounded(&mb) && !name.starts_with('[') && !unordered { em.stat("bytes.mutant"); emit(em, &mb, true); }
            }
            // known finding: an EMPTY vector whose element type is not a pair decodes untyped at a map's type (no element to coerce)
            // but the native map visitor insists on a pair element type
            for name in ["Map<u8,String>", "Map<String,Nat>", "Map<Int,Nat>"] {
                for wt in [T::vec(T::p("float32")), T::vec(T::p("text")), T::vec(T::rec(vec![(0, T::p("nat8"))]))] {
                    let m = message(&vec![], &[wt.clone()], &[V::Vec(vec![])], 0);
                    em.case_nt("p.c08.agree.empty-vec-at-map", &[tn_arg(name), sx::hex(&m)], true);
                }
            }
            for name in ["Map<u8,String>", "Map<String,Opt<Nat>>", "Map<Int,Nat>"] {
                let (_, t) = native::types(name).unwrap();
                if let T::Vec(e) = &t { if let T::Rec(fs) = &**e {
                    let extra = T::vec(T::rec(vec![fs[0].clone(), fs[1].clone(), (300, T::p("text"))]));
                    let only_key = T::vec(T::rec(vec![fs[0].clone()]));
                    crate::val::NONEMPTY_VECS.store(true, std::sync::atomic::Ordering::Relaxed);
                    for wt in [extra, only_key] { if let Some((_, m)) = gen_msg(r, &vec![], &wt, 4, 0) { em.case_nt("p.c08.agree.map-entry-shape", &[tn_arg(name), sx::hex(&m)], true); } }
                    crate::val::NONEMPTY_VECS.store(false, std::sync::atomic::Ordering::Relaxed);
                } }
            }
            // bounded vectors: lengths and data sizes at, just below and just above every limit
            for n in 0..7usize {
                let m = message(&vec![], &[T::vec(T::p("nat64"))], &[V::Vec((0..n).map(|i| V::NatN(64, i as u64)).collect())], 0);
                em.case_nt("p.c08.bounded", &["BV3".into(), sx::hex(&m)], true);
                em.case_nt("p.c08.bounded", &["BVU".into(), sx::hex(&m)], true);
                for len in [0usize, 1, 5, 6, 7, 30] {
                    let m = message(&vec![], &[T::vec(T::vec(T::p("nat8")))], &[V::Vec((0..n).map(|_| V::Vec((0..len).map(|k| V::NatN(8, k as u64)).collect())).collect())], 0);
                    em.case_nt("p.c08.bounded", &["BVE".into(), sx::hex(&m)], true);
                    em.case_nt("p.c08.bounded", &["BVT".into(), sx::hex(&m)], true);
                }
            }
            for lens in [vec![1usize, 1, 1, 1], vec![1, 1, 1, 2], vec![0, 0, 0, 4], vec![76], vec![77], vec![26, 26], vec![26, 27], vec![52], vec![0, 0, 0, 0], vec![0, 0, 0, 0, 0]] {
                let m = message(&vec![], &[T::vec(T::vec(T::p("nat8")))], &[V::Vec(lens.iter().map(|l| V::Vec((0..*l).map(|k| V::NatN(8, k as u64 % 256)).collect())).collect())], 0);
                em.case_nt("p.c08.bounded", &["BVT".into(), sx::hex(&m)], true);
            }
            for name in BORROWED {
                let t = native::borrowed_type(name);
                for _ in 0..(6 * scale) {
                    for t2 in [t.clone(), lookalike(r, &t), T::vec(T::p("nat8")), T::p("text"), T::vec(T::p("int8")), T::p("principal"), T::vec(T::p("nat"))] {
                        crate::val::NONEMPTY_VECS.store(t2 != T::vec(T::p("nat8")), std::sync::atomic::Ordering::Relaxed);
                        if let Some((_, m)) = gen_msg(r, &vec![], &t2, 4, 0) { em.case_nt("p.c08.agree", &[tn_arg(name), sx::hex(&m)], true); }
                    }
                }
                crate::val::NONEMPTY_VECS.store(false, std::sync::atomic::Ordering::Relaxed);
                // hand-written messages: NON-empty vectors of element types that have no values or no bytes (vec empty, vec null, vec reserved,
                // vec record {}) and vectors of byte-sized look-alikes, with as many payload bytes as the count claims
                {
                    let h = |s: &str| hex::decode(s.replace(' ', "")).unwrap();
                    for m in ["4449444c 01 6d 6f 01 00 02 01 02", "4449444c 01 6d 6f 01 00 01 00", "4449444c 01 6d 7f 01 00 02 01 02", "4449444c 01 6d 70 01 00 03 61 62 63",
                              "4449444c 02 6d 01 6c 00 01 00 02 61 62", "4449444c 01 6d 7e 01 00 02 00 01", "4449444c 01 6d 77 01 00 02 61 62", "4449444c 01 6d 7b 01 00 02 61 62",
                              "4449444c 00 01 71 02 61 62", "4449444c 01 6e 7b 01 00 01 61", "4449444c 01 6d 6f 01 00 00"] {
                        em.stat("borrowed.hand-written");
                        em.case_nt(if m.ends_with("01 00 00") { "p.c08.agree.empty-vec-at-bytes" } else { "p.c08.agree" }, &[tn_arg(name), sx::hex(&h(m))], true);
                    }
                }
                // known finding: the empty vector of another element type, accepted untyped at vec nat8, rejected by byte buffers
                if *name != "&str" && *name != "Cow<str>" {
                    for wt in [T::vec(T::p("int8")), T::vec(T::p("nat")), T::vec(T::p("text"))] {
                        em.case_nt("p.c08.agree.empty-vec-at-bytes", &[tn_arg(name), sx::hex(&message(&vec![], &[wt], &[V::Vec(vec![])], 0))], true);
                    }
                }
            }
        }
        _ => { // C06
            let quotas = [("-", "-"), ("100000", "10000"), ("500", "50"), ("10", "3"), ("0", "0"), ("-", "100")];
            let mut inputs: Vec<Vec<u8>> = hostile(r);
            for _ in 0..(40 * scale) { let n = r.range(0, 40) as usize; let mut b = b"DIDL".to_vec(); b.extend(r.bytes(n)); inputs.push(b); inputs.push(r.bytes(n)); }
            // zero-size element bombs, deep nesting, huge counts, over-long LEB128
            let h = |s: &str| hex::decode(s.replace(' ', "")).unwrap();
            inputs.push(h("4449444c 01 6d 7f 01 00 ffffffff0f"));
            inputs.push(h("4449444c 01 6d 70 01 00 ffffffffffffffff7f"));
            inputs.push(h("4449444c 02 6d 01 6c 00 01 00 ffffff7f"));
            inputs.push(h("4449444c 01 6d 7d 01 00 ffffffffffffffffff01"));
            inputs.push(h("4449444c 01 6d 71 01 00 ffffffffffffffff7f"));
            inputs.push(h("4449444c 00 01 7d 808080808080808080808080808080808080808001"));
            inputs.push(h("4449444c 00 01 7c ffffffffffffffffffffffffffffffffffffff7f"));
            // lengths of ONE text / blob / method name near 2^64 (position + length overflows): safe to decode without a quota
            let mut safe: Vec<Vec<u8>> = vec![];
            for len in ["ffffffffffffffffff01", "feffffffffffffffff01", "f0ffffffffffffffff01", "ffffffffffffffff7f", "80808080808080808001", "ffffffffffffffffff00"] {
                safe.push(h(&format!("4449444c 00 01 71 {}", len)));
                safe.push(h(&format!("4449444c 00 01 71 {} 6869", len)));
                safe.push(h(&format!("4449444c 01 6d 7b 01 00 {}", len)));
                safe.push(h(&format!("4449444c 00 02 71 7d {} 05", len)));
                safe.push(h(&format!("4449444c 01 6a 00 00 00 01 00 01 01 00 {}", len)));
                safe.push(h(&format!("4449444c 01 6e 71 01 00 01 {}", len)));
            }
            // references with deeply SHARED signatures at a separately spelled expected type, under a quota (graded: a checker that forgets
            // what it has proved needs 2^levels comparisons; the smaller levels fail by the time limit before the larger ones hang)
            for n in [4usize, 12, 18, 22, 24, 26] { em.stat("reference.shared-signature"); em.case_nt("p.c06.refshare", &[n.to_string()], true); }
            // long chains in the TYPE TABLE: table_i = record { 0 : table_(i+1) } ... record {}   and   opt / vec chains
            for n in [100usize, 1000, 4000, 9990] {
                for (code, tail) in [(0x6cu8, vec![0x6cu8, 0x00]), (0x6e, vec![0x6e, 0x7f]), (0x6d, vec![0x6d, 0x7f])] {
                    let mut b = b"DIDL".to_vec(); crate::val::leb(n as u128, &mut b);
                    for i in 0..n - 1 { b.push(code); if code == 0x6c { b.push(1); b.push(0); } crate::val::sleb((i + 1) as i128, &mut b); }   // (type references are SLEB128)
                    b.extend(&tail);
                    b.push(1); b.push(0);
                    b.push(0);                       // opt chain: null; vec chain: empty; record chain: no bytes needed (one spare byte)
                    safe.push(b);
                }
            }
            for depth in [50usize, 500, 5000, 40000] {
                let mut b = b"DIDL".to_vec(); b.push(1); b.push(0x6e); b.push(0); b.push(1); b.push(0); b.extend(std::iter::repeat(1u8).take(depth)); b.push(0);
                inputs.push(b);                                                        // type O = opt O; value some(some(...))
                let mut b = b"DIDL".to_vec(); b.push(1); b.push(0x6d); b.push(0); b.push(1); b.push(0); b.extend(std::iter::repeat(1u8).take(depth)); b.push(0);
                inputs.push(b);                                                        // type V = vec V; value [[[...]]]
            }
            for (name, v07, m) in &pool {
                let tn = tn_arg(name);
                em.stat(&format!("type.{}", name.split('<').next().unwrap_or(name)));
                let mut cases: Vec<Vec<u8>> = vec![m.clone()];
                for _ in 0..3 { cases.push(mutate_bytes(r, m)); }
                let other = r.pick(&pool[..]); cases.push(other.2.clone());
                let i = r.below(inputs.len() as u64) as usize; cases.push(inputs[i].clone());
                for c in &cases {
                    let hx = sx::hex(c);
                    let metered_only = !bounded(c);
                    for (qd, qs) in quotas.iter() {
                        if metered_only && *qd == "-" { continue; }
                        let full = if r.coin(1, 2) { "1" } else { "0" };
                        em.case_nt("p.c06.fuzz", &[tn.clone(), hx.clone(), qd.to_string(), qs.to_string(), full.to_string()], true);
                    }
                    em.case_nt("p.c06.alloc", &[tn.clone(), hx.clone(), "1000".into()], true);
                    if r.coin(1, 4) { em.case_nt("p.c06.smallstack", &[tn.clone(), hx.clone(), "100000".into(), "10000".into(), "0".into()], true); }
                }
                // the quota laws on native decoding of the valid message
                em.case_nt("p.c07.native", &[tn.clone(), sx::hex(m)], true);
                em.case_nt("p.c07.mixed", &[tn.clone(), format!("({})", v07.sx())], true);
            }
            for b in &safe {
                let hx = sx::hex(b);
                for name in ["String", "Vec<u8>", "ByteBuf", "Opt<String>", "Reserved", "Nat", "FnRef", "Pair", "unit", "Opt<List>"] {
                    for (qd, qs) in [("-", "-"), ("100000", "10000")] {
                        em.case_nt("p.c06.fuzz", &[tn_arg(name), hx.clone(), qd.into(), qs.into(), "0".into()], true);
                        em.case_nt("p.c06.smallstack", &[tn_arg(name), hx.clone(), qd.into(), qs.into(), "1".into()], true);
                    }
                }
                for name in ["&[u8]", "&str"] { em.case_nt("p.c06.fuzz", &[tn_arg(name), hx.clone()], true); }
                em.case_nt("p.c06.untyped", &[hx.clone(), "-".into(), "-".into(), "1".into()], true);
                em.case_nt("p.c06.untyped.smallstack", &[hx.clone(), "-".into(), "-".into(), "0".into()], true);
                em.stat("input.length-near-2^64-or-long-type-chain");
            }
            for b in &inputs {
                let hx = sx::hex(b);
                for name in ["Nested", "Vec<unit>", "Vec<Vec<Nat>>", "Opt<List>", "Tree", "u128", "Map<String,Nat>", "Vec<Reserved>", "Vec<u64>", "String", "Reserved", "Rose", "Vec<UnitS>"] {
                    em.case_nt("p.c06.fuzz", &[tn_arg(name), hx.clone(), "100000".into(), "10000".into(), "0".into()], true);
                    em.case_nt("p.c06.smallstack", &[tn_arg(name), hx.clone(), "1000000".into(), "100000".into(), "1".into()], true);
                    em.case_nt("p.c06.alloc", &[tn_arg(name), hx.clone(), "1000".into()], true);
                }
                em.case_nt("p.c06.untyped", &[hx.clone(), "100000".into(), "10000".into(), "1".into()], true);
                em.case_nt("p.c06.untyped", &[hx.clone(), "50".into(), "5".into(), "0".into()], true);
                em.stat("input.hostile-or-random");
            }
        }
    }
}
