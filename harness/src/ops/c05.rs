//! C05: subtype / equality / upgrade checks decide the spec relation, independent of order, names and history.
use crate::ty::{self, env_did, env_from_sx, env_sx, gen_env, gen_type, mutate_type, to_env, Env, GenCfg, T};
use crate::{rng::Rng, sx, Emit};
use candid::types::subtype::{equal, subtype_check_all, subtype_with_config, Gamma, OptReport};
use candid_parser::utils::{service_compatibility_report, service_compatible, service_equal, CandidSource};

fn b(x: bool) -> &'static str { if x { "1" } else { "0" } }
fn ty_of(s: &str) -> T { T::from_sx(&sx::parse(s)) }
fn sub(env: &Env, a: &T, bb: &T) -> bool {
    let mut g = Gamma::new();
    subtype_with_config(OptReport::Silence, &mut g, &to_env(env), &a.to_type(), &bb.to_type()).is_ok()
}
fn eq(env: &Env, a: &T, bb: &T) -> bool {
    let mut g = Gamma::new();
    equal(&mut g, &to_env(env), &a.to_type(), &bb.to_type()).is_ok()
}
fn prog(env: &Env, actor: &T) -> String { format!("{}service : {};\n", env_did(env), match actor { T::Serv(_) => actor.did()[8..].to_string(), o => o.did() }) }

pub fn eval(op: &str, a: &[&str]) -> Option<String> {
    Some(match op {
        "c05.sub" => { let e = env_from_sx(a[0]); b(sub(&e, &ty_of(a[1]), &ty_of(a[2]))).into() }
        "c05.sub_warn" => {
            // the default entry point (OptReport::Warning; the warning text goes to stderr)
            let e = env_from_sx(a[0]); let mut g = Gamma::new();
            b(candid::types::subtype::subtype(&mut g, &to_env(&e), &ty_of(a[1]).to_type(), &ty_of(a[2]).to_type()).is_ok()).into()
        }
        "c05.equal" => { let e = env_from_sx(a[0]); b(eq(&e, &ty_of(a[1]), &ty_of(a[2]))).into() }
        "c05.checkall" => {
            let e = env_from_sx(a[0]); let mut g = Gamma::new();
            b(subtype_check_all(&mut g, &to_env(&e), &ty_of(a[1]).to_type(), &ty_of(a[2]).to_type()).is_empty()).into()
        }
        "c05.seq" | "c05.seq_equal" | "c05.seq_checkall" => {
            // a sequence of queries sharing ONE memo
            let e = env_from_sx(a[0]); let te = to_env(&e);
            let mut g = Gamma::new();
            let mut out = String::new();
            for q in sx::parse(a[1]).list() {
                let (x, y) = (T::from_sx(&q.list()[0]).to_type(), T::from_sx(&q.list()[1]).to_type());
                let r = match op {
                    "c05.seq" => subtype_with_config(OptReport::Silence, &mut g, &te, &x, &y).is_ok(),
                    "c05.seq_equal" => equal(&mut g, &te, &x, &y).is_ok(),
                    _ => subtype_check_all(&mut g, &te, &x, &y).is_empty(),
                };
                out.push_str(b(r));
            }
            out
        }
        "c05.memo" => {
            // the memoising checkers as they are: a history of queries sharing ONE gamma; answers, then the final contents of gamma
            let e = env_from_sx(a[0]); let te = to_env(&e);
            let mut g = Gamma::new();
            let mut out = String::new();
            let mut stopped = false;
            for q in sx::parse(a[2]).list() {
                let (x, y) = (T::from_sx(&q.list()[0]).to_type(), T::from_sx(&q.list()[1]).to_type());
                let r = std::panic::catch_unwind(std::panic::AssertUnwindSafe(|| match a[1] {
                    "equal" => equal(&mut g, &te, &x, &y).is_ok(),
                    "error" => subtype_with_config(OptReport::Error, &mut g, &te, &x, &y).is_ok(),
                    _ => subtype_with_config(OptReport::Silence, &mut g, &te, &x, &y).is_ok(),
                }));
                match r { Ok(v) => out.push_str(b(v)), Err(_) => { out.push('P'); stopped = true; break; } }
            }
            if !stopped {
                let mut ps: Vec<String> = g.iter().map(|(x, y)| format!("({} {})", T::from_type(x).sx(), T::from_type(y).sx())).collect();
                ps.sort();
                out.push_str(" | "); out.push_str(&ps.join(" "));
            }
            out
        }
        "p.c05.order" => {
            // the answer does not depend on the order of fields / methods: a[1..3] the pair, a[3..5] the same pair with shuffled lists
            let e = env_from_sx(a[0]);
            let (x, y, x2, y2) = (ty_of(a[1]), ty_of(a[2]), ty_of(a[3]), ty_of(a[4]));
            let want = sub(&e, &x, &y);
            if sub(&e, &x2, &y2) != want { return Some(format!("FAIL subtype answers {} on the sorted lists and {} on a permutation", want, !want)); }
            let mut g = Gamma::new();
            if subtype_check_all(&mut g, &to_env(&e), &x2.to_type(), &y2.to_type()).is_empty() != want { return Some("FAIL the report disagrees on a permutation".into()); }
            "ok".into()
        }
        "c05.compat" | "c05.compat_report" | "c05.service_equal" => {
            // new = (env1, actor1), old = (env2, actor2)
            let (e1, a1, e2, a2) = (env_from_sx(a[0]), ty_of(a[1]), env_from_sx(a[2]), ty_of(a[3]));
            let (p1, p2) = (prog(&e1, &a1), prog(&e2, &a2));
            match op {
                "c05.compat" => match service_compatible(CandidSource::Text(&p1), CandidSource::Text(&p2)) { Ok(()) => "1".into(), Err(_) => "0".into() },
                "c05.compat_report" => match service_compatibility_report(CandidSource::Text(&p1), CandidSource::Text(&p2)) { Ok(v) => b(v.is_empty()).into(), Err(_) => "(load-error)".into() },
                _ => match service_equal(CandidSource::Text(&p1), CandidSource::Text(&p2)) { Ok(()) => "1".into(), Err(_) => "0".into() },
            }
        }
        "p.c05.refl" => { let e = env_from_sx(a[0]); let t = ty_of(a[1]); if sub(&e, &t, &t) && eq(&e, &t, &t) { "ok".into() } else { "FAIL not reflexive".into() } }
        "p.c05.equal_implies_sub" => {
            let e = env_from_sx(a[0]); let (x, y) = (ty_of(a[1]), ty_of(a[2]));
            if eq(&e, &x, &y) && !(sub(&e, &x, &y) && sub(&e, &y, &x)) { "FAIL equal but not subtype both ways".into() } else { "ok".into() }
        }
        "p.c05.rename" => {
            // bijective renaming and reordering of definitions does not change any answer
            let e = env_from_sx(a[0]); let (x, y) = (ty_of(a[1]), ty_of(a[2]));
            let f = |s: &str| format!("zz_{}_r", s.chars().rev().collect::<String>());
            let mut e2: Env = e.iter().map(|(n, t)| (f(n), t.rename(&f))).collect();
            e2.reverse();
            let (x2, y2) = (x.rename(&f), y.rename(&f));
            if sub(&e, &x, &y) != sub(&e2, &x2, &y2) { return Some("FAIL subtype changes under renaming".into()); }
            if eq(&e, &x, &y) != eq(&e2, &x2, &y2) { return Some("FAIL equal changes under renaming".into()); }
            "ok".into()
        }
        "p.c05.report_agrees" => {
            let e = env_from_sx(a[0]); let (x, y) = (ty_of(a[1]), ty_of(a[2]));
            let mut g = Gamma::new();
            let rep = subtype_check_all(&mut g, &to_env(&e), &x.to_type(), &y.to_type());
            if rep.is_empty() != sub(&e, &x, &y) { format!("FAIL report has {} entries but subtype says {}", rep.len(), sub(&e, &x, &y)) } else { "ok".into() }
        }
        "p.c05.trans" => {
            let e = env_from_sx(a[0]); let (x, y, z) = (ty_of(a[1]), ty_of(a[2]), ty_of(a[3]));
            if sub(&e, &x, &y) && sub(&e, &y, &z) && !sub(&e, &x, &z) { "FAIL a <: b and b <: c but not a <: c".into() } else { "ok".into() }
        }
        "p.c05.history" => {
            // the answer to the last query does not depend on earlier successful or failed queries sharing the memo
            let e = env_from_sx(a[0]); let te = to_env(&e);
            let qs: Vec<(T, T)> = sx::parse(a[1]).list().iter().map(|q| (T::from_sx(&q.list()[0]), T::from_sx(&q.list()[1]))).collect();
            let mut g = Gamma::new();
            for (i, (x, y)) in qs.iter().enumerate() {
                let shared = subtype_with_config(OptReport::Silence, &mut g, &te, &x.to_type(), &y.to_type()).is_ok();
                if shared != sub(&e, x, y) { return Some(format!("FAIL query {} answers {} with the shared memo and {} alone", i, shared, !shared)); }
            }
            "ok".into()
        }
        _ => return None,
    })
}

// ---------------------------------------------------------------------------------------------------------
fn corpus() -> Vec<(Env, Vec<(T, T)>)> {
    let r = |fs: Vec<(u32, T)>| T::rec(fs);
    let v = T::var;
    let mut out = vec![];
    // transitivity witness (known finding): record{f:nat} <: record{} <: record{f:null}
    out.push((vec![], vec![(r(vec![(102, T::p("nat"))]), r(vec![])), (r(vec![]), r(vec![(102, T::p("null"))])), (r(vec![(102, T::p("nat"))]), r(vec![(102, T::p("null"))]))]));
    // stale-memo witness: a failed opt probe must not leave its inner assumptions behind
    let e: Env = vec![
        ("N".into(), r(vec![(108, v("M")), (120, T::p("nat"))])), ("M".into(), r(vec![(110, v("N"))])),
        ("N2".into(), r(vec![(108, v("M2")), (120, T::p("text"))])), ("M2".into(), r(vec![(110, v("N2"))])),
    ];
    out.push((e.clone(), vec![
        (r(vec![(112, T::opt(v("N"))), (113, v("M"))]), r(vec![(112, T::opt(v("N2"))), (113, v("M2"))])),
        (r(vec![(113, v("M"))]), r(vec![(113, v("M2"))])),
        (T::opt(v("N")), T::opt(v("N2"))), (v("M"), v("M2")), (v("N"), v("N2")),
    ]));
    // the same with the back edge under opt, queried under an outer opt probe and then again
    let e: Env = vec![
        ("N".into(), r(vec![(108, T::opt(v("M"))), (120, T::p("nat"))])), ("M".into(), r(vec![(110, v("N"))])),
        ("N2".into(), r(vec![(108, T::opt(v("M2"))), (120, T::p("text"))])), ("M2".into(), r(vec![(110, v("N2"))])),
    ];
    out.push((e, vec![
        (r(vec![(112, T::opt(v("N"))), (113, v("M"))]), r(vec![(112, T::opt(v("N2"))), (113, v("M2"))])),
        (r(vec![(112, v("M")), (113, T::opt(v("N")))]), r(vec![(112, v("M2")), (113, T::opt(v("N2")))])),
        (T::Func(vec![], vec![T::opt(v("N")), v("M")], vec![]), T::Func(vec![], vec![T::opt(v("N2")), v("M2")], vec![])),
        (v("M"), v("M2")), (T::opt(v("N")), T::opt(v("N2"))), (v("M"), v("M2")),
    ]));
    // lists: nat list <: int list, both directions via opt
    let e: Env = vec![("L".into(), T::opt(r(vec![(0, T::p("nat")), (1, v("L"))]))), ("K".into(), T::opt(r(vec![(0, T::p("int")), (1, v("K"))])))];
    out.push((e, vec![(v("L"), v("K")), (v("K"), v("L")), (v("L"), v("L"))]));
    // non-opt recursion
    let e: Env = vec![("A".into(), T::variant(vec![(0, T::p("null")), (1, r(vec![(0, T::p("nat")), (1, v("A"))]))])),
                      ("B".into(), T::variant(vec![(0, T::p("null")), (1, r(vec![(0, T::p("int")), (1, v("B"))])), (2, T::p("text"))]))];
    out.push((e, vec![(v("A"), v("B")), (v("B"), v("A")), (T::vec(v("A")), T::vec(v("B")))]));
    // references
    let f1 = T::Func(vec![T::p("nat")], vec![T::p("int")], vec![1]);
    let f2 = T::Func(vec![T::p("int"), T::opt(T::p("text"))], vec![T::p("nat"), T::p("bool")], vec![1]);
    let e: Env = vec![("S".into(), T::serv(vec![("f".into(), f1.clone())])), ("S2".into(), T::serv(vec![("f".into(), f2.clone()), ("g".into(), f1.clone())]))];
    out.push((e, vec![(f2.clone(), f1.clone()), (f1.clone(), f2.clone()), (v("S2"), v("S")), (v("S"), v("S2")), (v("S"), T::p("principal")), (T::p("principal"), v("S"))]));
    out
}

fn no_null(t: &T) -> bool {
    match t {
        T::Prim(p) => *p != "null",
        T::Var(_) => true,
        T::Opt(x) | T::Vec(x) => no_null(x),
        T::Rec(fs) | T::Variant(fs) => fs.iter().all(|f| no_null(&f.1)),
        T::Func(a, r, _) => a.iter().chain(r.iter()).all(no_null),
        T::Serv(ms) => ms.iter().all(|m| no_null(&m.1)),
        T::Class(a, t) => a.iter().all(no_null) && no_null(t),
    }
}

fn queries_sx(qs: &[(T, T)]) -> String { format!("({})", qs.iter().map(|(x, y)| format!("({} {})", x.sx(), y.sx())).collect::<Vec<_>>().join(" ")) }

/// a two-version environment: E plus a mutated, renamed copy; returns interesting pairs
fn gen_upgrade(r: &mut Rng, cfg: &GenCfg) -> (Env, Vec<(T, T)>) {
    let k = r.range(1, 4) as usize;
    let e = gen_env(r, k, cfg);
    let names: Vec<String> = e.iter().map(|d| d.0.clone()).collect();
    let f = |s: &str| format!("{}_", s);
    let mut e2: Env = vec![];
    for (n, t) in &e {
        let t2 = t.rename(&f);
        let names2: Vec<String> = names.iter().map(|s| f(s)).collect();
        let t2 = if r.coin(2, 3) { let m = mutate_type(r, &t2, &names2, cfg); if matches!(m, T::Var(_)) { t2 } else { m } } else { t2 };
        e2.push((f(n), t2));
    }
    let mut all = e.clone(); all.extend(e2);
    let mut pairs = vec![];
    for n in &names { pairs.push((T::var(n), T::Var(f(n)))); pairs.push((T::Var(f(n)), T::var(n))); }
    (all, pairs)
}

/// memo stress: a recursive environment and a copy that differs in ONE leaf, queried through same-shaped composite
/// types that mention several definitions in different positions (under opt, in records, as function results), so
/// that pairs are assumed, completed under assumptions, and fail late
fn gen_memo_stress(r: &mut Rng) -> (Env, Vec<(T, T)>) {
    let k = r.range(2, 4) as usize;
    let names: Vec<String> = (0..k).map(|i| format!("{}", (b'A' + i as u8) as char)).collect();
    let f = |s: &str| format!("{}_", s);
    let leaf = |r: &mut Rng| T::p(*r.pick(&["nat", "int", "text", "bool", "null"]));
    let mut e: Env = vec![];
    for (i, n) in names.iter().enumerate() {
        // every definition is a record or variant that mentions the next definition (cyclically), directly or under opt/vec
        let nxt = T::var(&names[(i + 1) % k]);
        let link = match r.below(4) { 0 => T::opt(nxt), 1 => T::vec(nxt), _ => nxt };
        let mut fs = vec![(1u32, link), (2, leaf(r))];
        if r.coin(1, 2) { let nm: &String = r.pick(&names[..]); let o = T::var(nm); fs.push((3, if r.coin(1, 2) { T::opt(o) } else { o })); }
        if r.coin(1, 2) { fs.swap(0, 1); fs[0].0 = 1; fs[1].0 = 2; }
        e.push((n.clone(), if r.coin(3, 4) { T::rec(fs) } else { fs.push((0, T::p("null"))); T::variant(fs) }));
    }
    let mut e2: Env = e.iter().map(|(n, t)| (f(n), t.rename(&f))).collect();
    // change one leaf of one definition
    let victim = r.below(k as u64) as usize;
    if let T::Rec(fs) | T::Variant(fs) = &mut e2[victim].1 {
        for fld in fs.iter_mut() { if matches!(fld.1, T::Prim(_)) { fld.1 = match &fld.1 { T::Prim("nat") => T::p(*r.pick(&["int", "text"])), T::Prim("int") => T::p("nat"), _ => T::p("nat") }; break; } }
    }
    let mut all = e.clone(); all.extend(e2);
    let cfg = GenCfg { max_depth: 2, refs: r.coin(1, 3), var_bias: 9 };
    let mut qs = vec![];
    for _ in 0..4 {
        let shape = loop { let t = gen_type(r, &names, 2, &cfg); if t.mentions_var() { break t } };
        let (a, b) = (shape.clone(), shape.rename(&f));
        if r.coin(1, 2) { qs.push((a, b)); } else { qs.push((b, a)); }
    }
    for n in &names { if r.coin(1, 2) { qs.push((T::var(n), T::Var(f(n)))); } }
    (all, qs)
}

/// the same recursive type spelled with its name at another point of the cycle: for `A = body` and a composite sub-term S of body,
/// K = S[A := body[S := K]] and A2 = body[S := K] denote the same (infinite) type as A, but walking A against A2 never has a name on
/// both sides at once
fn gen_reanchor(r: &mut Rng) -> Option<(Env, Vec<(T, T)>)> {
    let cfg = GenCfg { max_depth: 3, refs: r.coin(1, 4), var_bias: 7 };
    let k = r.range(1, 3) as usize;
    let mut e = gen_env(r, k, &cfg);
    let idx = r.below(k as u64) as usize;
    let (a, body) = e[idx].clone();
    let cands: Vec<T> = body.proper_subterms().into_iter().filter(|s| s.mentions(&a)).collect();
    if cands.is_empty() { return None; }
    let s = r.pick(&cands[..]).clone();
    let (kname, a2) = (format!("{}k", a), format!("{}2", a));
    let body2 = body.replace_subterm(&s, &T::var(&kname));
    let kdef = { let f = |x: &str| x.to_string(); let _ = f; subst_var(&s, &a, &body2) };
    e.push((kname.clone(), kdef)); e.push((a2.clone(), body2));
    let mut qs = vec![(T::var(&a), T::var(&a2)), (T::var(&a2), T::var(&a)), (T::vec(T::var(&a)), T::vec(T::var(&a2))), (T::var(&kname), s.clone()), (s, T::var(&kname))];
    if r.coin(1, 2) { qs.reverse(); }
    Some((e, qs))
}
fn subst_var(t: &T, name: &str, with: &T) -> T { t.replace_subterm(&T::var(name), with) }

pub fn generate(thorough: bool, r: &mut Rng, em: &mut Emit) {
    let scale = if thorough { 12 } else { 1 };
    // ---- names at shifted points of a cycle
    for _ in 0..150 * scale {
        if let Some((e, qs)) = gen_reanchor(r) {
            let es = env_sx(&e);
            em.stat("reanchored-cycle");
            for (x, y) in &qs {
                em.case_nt("c05.sub", &[es.clone(), x.sx(), y.sx()], true);
                em.case_nt("c05.equal", &[es.clone(), x.sx(), y.sx()], true);
                em.case_nt("c05.checkall", &[es.clone(), x.sx(), y.sx()], true);
            }
            em.case_nt("m.c05.memo", &[es.clone(), "silence".into(), queries_sx(&qs)], true);
            em.case_nt("m.c05.memo", &[es.clone(), "equal".into(), queries_sx(&qs)], true);
            em.case_nt("c05.seq_checkall", &[es.clone(), queries_sx(&qs)], true);
        }
    }
    for _ in 0..60 * scale {
        let (e, qs) = gen_memo_stress(r);
        let es = env_sx(&e);
        em.stat("memo-stress");
        for (x, y) in &qs {
            em.case_nt("c05.sub", &[es.clone(), x.sx(), y.sx()], true);
            em.case_nt("c05.checkall", &[es.clone(), x.sx(), y.sx()], true);
            em.case_nt("c05.equal", &[es.clone(), x.sx(), y.sx()], true);
        }
        em.case_nt("c05.seq", &[es.clone(), queries_sx(&qs)], true);
        em.case_nt("c05.seq_checkall", &[es.clone(), queries_sx(&qs)], true);
        em.case_nt("c05.seq_equal", &[es.clone(), queries_sx(&qs)], true);
        em.case_nt("p.c05.history", &[es.clone(), queries_sx(&qs)], true);
        for mode in ["silence", "error", "equal"] { em.case_nt("m.c05.memo", &[es.clone(), mode.into(), queries_sx(&qs)], true); }
    }
    let nontrivial = |x: &T, y: &T| x.mentions_var() || y.mentions_var() || x.has_opt() || y.has_opt() || x.size() + y.size() > 4;
    // ---- corpus first
    for (e, qs) in corpus() {
        for (x, y) in &qs {
            em.case_nt("c05.sub", &[env_sx(&e), x.sx(), y.sx()], true);
            em.case_nt("c05.equal", &[env_sx(&e), x.sx(), y.sx()], true);
            em.case_nt("c05.checkall", &[env_sx(&e), x.sx(), y.sx()], true);
        }
        em.case_nt("c05.seq", &[env_sx(&e), queries_sx(&qs)], true);
        em.case_nt("c05.seq_checkall", &[env_sx(&e), queries_sx(&qs)], true);
        em.case_nt("p.c05.history", &[env_sx(&e), queries_sx(&qs)], true);
        for mode in ["silence", "error", "equal"] { em.case_nt("m.c05.memo", &[env_sx(&e), mode.into(), queries_sx(&qs)], true); }
        let mut rev = qs.clone(); rev.reverse();
        em.case_nt("c05.seq", &[env_sx(&e), queries_sx(&rev)], true);
        em.case_nt("p.c05.history", &[env_sx(&e), queries_sx(&rev)], true);
    }
    {   // the transitivity witness as a predicate (known finding)
        let (e, qs) = &corpus()[0];
        em.case_nt("p.c05.trans", &[env_sx(e), qs[0].0.sx(), qs[0].1.sx(), qs[1].1.sx()], true);
    }
    // ---- random environments, related and unrelated pairs
    for round in 0..120 * scale {
        let cfg = GenCfg { max_depth: 2 + (round % 2) as u32, refs: round % 3 == 0, var_bias: 4 };
        let (e, mut pairs) = if round % 2 == 0 { gen_upgrade(r, &cfg) } else {
            let k = r.range(0, 4) as usize; (gen_env(r, k, &cfg), vec![])
        };
        let names: Vec<String> = e.iter().map(|d| d.0.clone()).collect();
        for _ in 0..4 {
            let x = gen_type(r, &names, 2, &cfg);
            let y = match r.below(4) { 0 => gen_type(r, &names, 2, &cfg), 1 => x.clone(), _ => mutate_type(r, &x, &names, &cfg) };
            if r.coin(1, 2) { pairs.push((x, y)); } else { pairs.push((y, x)); }
        }
        if names.len() >= 2 { pairs.push((T::var(&names[0]), T::var(&names[1]))); }
        let es = env_sx(&e);
        for (x, y) in &pairs {
            let nt = nontrivial(x, y);
            em.stat(if x.mentions_var() || y.mentions_var() { "pair.recursive-env" } else { "pair.closed" });
            em.case_nt("c05.sub", &[es.clone(), x.sx(), y.sx()], nt);
            em.case_nt("c05.equal", &[es.clone(), x.sx(), y.sx()], nt);
            em.case_nt("c05.checkall", &[es.clone(), x.sx(), y.sx()], nt);
            em.case_nt("p.c05.refl", &[es.clone(), x.sx()], nt);
            em.case_nt("p.c05.equal_implies_sub", &[es.clone(), x.sx(), y.sx()], nt);
            em.case_nt("p.c05.rename", &[es.clone(), x.sx(), y.sx()], nt);
            em.case_nt("p.c05.report_agrees", &[es.clone(), x.sx(), y.sx()], nt);
            if round % 8 == 0 { em.case_nt("c05.sub_warn", &[es.clone(), x.sx(), y.sx()], nt); }
        }
        // sequences sharing one memo: random order, with repetitions
        let mut qs = pairs.clone();
        for i in (1..qs.len()).rev() { let j = r.below(i as u64 + 1) as usize; qs.swap(i, j); }
        if qs.len() > 2 { let d = qs[0].clone(); qs.push(d); }
        em.case_nt("c05.seq", &[es.clone(), queries_sx(&qs)], true);
        em.case_nt("c05.seq_equal", &[es.clone(), queries_sx(&qs)], true);
        em.case_nt("c05.seq_checkall", &[es.clone(), queries_sx(&qs)], true);
        em.case_nt("p.c05.history", &[es.clone(), queries_sx(&qs)], true);
        em.case_nt("m.c05.memo", &[es.clone(), (*r.pick(&["silence", "error", "equal"])).into(), queries_sx(&qs)], true);
        // field / method lists in another order (types built by hand need not be sorted): same answers
        {
            let e2: Env = e.iter().map(|(n, t)| (n.clone(), t.shuffled(r))).collect();
            let es2 = env_sx(&e2);
            for (x, y) in pairs.iter().take(5) {
                let (x2, y2) = (x.shuffled(r), y.shuffled(r));
                em.stat("pair.shuffled-lists");
                em.case_nt("c05.sub", &[es2.clone(), x2.sx(), y2.sx()], true);
                em.case_nt("c05.checkall", &[es2.clone(), x2.sx(), y2.sx()], true);
                em.case_nt("p.c05.order", &[es.clone(), x.sx(), y.sx(), x2.sx(), y2.sx()], true);
            }
            let qs2: Vec<(T, T)> = qs.iter().map(|(x, y)| (x.shuffled(r), y.shuffled(r))).collect();
            em.case_nt("m.c05.memo", &[es2.clone(), "silence".into(), queries_sx(&qs2)], true);
        }
        // chains for transitivity, only where no type mentions `null` (see the known finding)
        if e.iter().all(|d| no_null(&d.1)) {
            for _ in 0..3 {
                let x = gen_type(r, &names, 2, &cfg);
                let y = mutate_type(r, &x, &names, &cfg);
                let z = mutate_type(r, &y, &names, &cfg);
                if no_null(&x) && no_null(&y) && no_null(&z) {
                    em.case_nt("p.c05.trans", &[es.clone(), x.sx(), y.sx(), z.sx()], true);
                    em.case_nt("p.c05.trans", &[es.clone(), z.sx(), y.sx(), x.sx()], true);
                }
            }
        }
    }
    // ---- service upgrade entry points on programs
    for _ in 0..40 * scale {
        let cfg = GenCfg { max_depth: 2, refs: false, var_bias: 3 };
        let k = r.range(0, 3) as usize;
        let e1 = gen_env(r, k, &cfg);
        let names: Vec<String> = e1.iter().map(|d| d.0.clone()).collect();
        let a1 = ty::gen_serv(r, &names, 2, &cfg);
        // the other version: same names (exercises merge_type's renaming), mutated definitions and actor
        let e2: Env = e1.iter().map(|(n, t)| { let m = if r.coin(1, 2) { mutate_type(r, t, &names, &cfg) } else { t.clone() }; (n.clone(), if matches!(m, T::Var(_)) { t.clone() } else { m }) }).collect();
        let a2 = { let m = mutate_type(r, &a1, &names, &cfg); if matches!(m, T::Serv(_)) { m } else { a1.clone() } };
        for (x, y) in [((&e1, &a1), (&e2, &a2)), ((&e2, &a2), (&e1, &a1)), ((&e1, &a1), (&e1, &a1))] {
            for op in ["c05.compat", "c05.compat_report", "c05.service_equal"] {
                em.case_nt(op, &[env_sx(x.0), x.1.sx(), env_sx(y.0), y.1.sx()], true);
            }
        }
    }
    // ---- exhaustive small scope (thorough): all ordered pairs of types from a bounded set over <= 2 definitions
    if thorough {
        let atoms = vec![T::p("nat"), T::p("int"), T::p("null"), T::p("reserved"), T::p("empty"), T::var("A"), T::var("B")];
        let mut tys: Vec<T> = atoms.clone();
        for a in &atoms {
            tys.push(T::opt(a.clone())); tys.push(T::vec(a.clone()));
            tys.push(T::rec(vec![(0, a.clone())])); tys.push(T::variant(vec![(0, a.clone())]));
        }
        for a in &atoms { for c in &atoms { if r.coin(1, 3) { tys.push(T::rec(vec![(0, a.clone()), (1, c.clone())])); tys.push(T::variant(vec![(0, a.clone()), (1, c.clone())])); } } }
        let bodies: Vec<T> = tys.iter().filter(|t| !matches!(t, T::Var(_) | T::Prim(_))).cloned().collect();
        for _ in 0..6 {
            let e: Env = vec![("A".into(), r.pick(&bodies).clone()), ("B".into(), r.pick(&bodies).clone())];
            let es = env_sx(&e);
            for x in &tys { for y in &tys {
                em.case_nt("c05.sub", &[es.clone(), x.sx(), y.sx()], x.mentions_var() || y.mentions_var());
                if r.coin(1, 4) { em.case_nt("c05.equal", &[es.clone(), x.sx(), y.sx()], x.mentions_var() || y.mentions_var()); }
            } }
        }
    }
}
