//! C09: (S)LEB128 codecs for nat / int / u128 / i128, standalone and inside messages, vectors and maps.
use crate::{rng::Rng, sx, Emit};
use candid::{Decode, Encode, IDLArgs, IDLValue, Int, Nat};
use num_bigint::{BigInt, BigUint};
use std::collections::BTreeMap;
use std::io::Cursor;
use std::str::FromStr;

fn ok2<T: std::fmt::Display>(v: T, rest: usize) -> String { format!("(ok {} {})", v, rest) }
fn msg(ty: u8, body: &[u8]) -> Vec<u8> { let mut m = b"DIDL\x00\x01".to_vec(); m.push(ty); m.extend_from_slice(body); m }
fn leb(mut n: u64, out: &mut Vec<u8>) { loop { let b = (n & 0x7f) as u8; n >>= 7; if n == 0 { out.push(b); break } else { out.push(b | 0x80) } } }
fn parts(s: &str) -> Vec<Vec<u8>> { sx::parse(s).list().iter().map(|x| sx::unhex(x.atom())).collect() }
fn list<T: std::fmt::Display>(v: &[T]) -> String { format!("(ok{})", v.iter().map(|x| format!(" {}", x)).collect::<String>()) }

pub const DEC_OPS: &[&str] = &["c09.nat_decode", "c09.int_decode", "c09.dec_u128", "c09.dec_i128"];
pub const MSG_OPS: &[&str] = &["c09.msg_nat", "c09.msg_int", "c09.msg_int_nat", "c09.msg_u128", "c09.msg_i128", "c09.msg_val_nat", "c09.msg_val_int"];

fn dec_direct(op: &str, b: &[u8]) -> Option<(String, usize)> {
    // value as decimal string and number of unread bytes
    let mut c = Cursor::new(b);
    let v = match op {
        "c09.nat_decode" => Nat::decode(&mut c).ok().map(|v| v.to_string().replace('_', "")),
        "c09.int_decode" => Int::decode(&mut c).ok().map(|v| v.to_string().replace('_', "")),
        "c09.dec_u128" => candid::types::leb128::decode_nat(&mut c).ok().map(|v| v.to_string()),
        "c09.dec_i128" => candid::types::leb128::decode_int(&mut c).ok().map(|v| v.to_string()),
        _ => unreachable!(),
    };
    v.map(|v| (v, b.len() - c.position() as usize))
}
fn dec_msg(op: &str, b: &[u8]) -> Option<String> {
    match op {
        "c09.msg_nat" => Decode!(&msg(0x7d, b), Nat).ok().map(|v| v.0.to_string()),
        "c09.msg_int" => Decode!(&msg(0x7c, b), Int).ok().map(|v| v.0.to_string()),
        "c09.msg_int_nat" => Decode!(&msg(0x7d, b), Int).ok().map(|v| v.0.to_string()),
        "c09.msg_u128" => Decode!(&msg(0x7d, b), u128).ok().map(|v| v.to_string()),
        "c09.msg_i128" => Decode!(&msg(0x7c, b), i128).ok().map(|v| v.to_string()),
        "c09.msg_val_nat" => IDLArgs::from_bytes(&msg(0x7d, b)).ok().and_then(|a| match &a.args[0] { IDLValue::Nat(n) => Some(n.0.to_string()), _ => None }),
        "c09.msg_val_int" => IDLArgs::from_bytes(&msg(0x7c, b)).ok().and_then(|a| match &a.args[0] { IDLValue::Int(n) => Some(n.0.to_string()), _ => None }),
        _ => unreachable!(),
    }
}
const P61: u128 = (1u128 << 61) - 1;
fn digest_step(acc: u128, r: &Option<(String, usize)>) -> u128 {
    let code: u128 = match r {
        None => 0,
        Some((v, rest)) => {
            let z = BigInt::from_str(v).unwrap();
            let m = BigInt::from(1_000_003u32);
            let vm: BigInt = ((z % &m) + &m) % &m;
            let vm: u128 = vm.to_string().parse().unwrap();
            vm * 4 + *rest as u128 + 1
        }
    };
    (acc * 1_000_003 + code) % P61
}

pub fn eval(op: &str, a: &[&str]) -> Option<String> {
    Some(match op {
        "c09.nat_decode" | "c09.int_decode" | "c09.dec_u128" | "c09.dec_i128" => {
            match dec_direct(op, &sx::unhex(a[0])) { Some((v, r)) => ok2(v, r), None => "(err)".into() }
        }
        "c09.msg_nat" | "c09.msg_int" | "c09.msg_int_nat" | "c09.msg_u128" | "c09.msg_i128" | "c09.msg_val_nat" | "c09.msg_val_int" => {
            match dec_msg(op, &sx::unhex(a[0])) { Some(v) => format!("(ok {})", v), None => "(err)".into() }
        }
        "c09.sweep3" => {
            // exhaustive over the 65536 three-byte strings starting with byte a[1]; digest of all results
            let b0: u8 = a[1].parse().unwrap();
            let mut acc: u128 = 0;
            for b1 in 0..=255u8 { for b2 in 0..=255u8 { acc = digest_step(acc, &dec_direct(a[0], &[b0, b1, b2])); } }
            acc.to_string()
        }
        "c09.msg_vec_nat" | "c09.msg_vec_int" | "c09.msg_vec_int_nat" => {
            let ps = parts(a[0]);
            let wire = if op == "c09.msg_vec_int" { 0x7c } else { 0x7d };
            let mut m = b"DIDL\x01\x6d".to_vec(); m.push(wire); m.extend_from_slice(&[1, 0]);
            leb(ps.len() as u64, &mut m);
            for p in &ps { m.extend_from_slice(p); }
            if op == "c09.msg_vec_nat" {
                match Decode!(&m, Vec<Nat>) { Ok(v) => list(&v.iter().map(|x| x.0.to_string()).collect::<Vec<_>>()), Err(_) => "(err)".into() }
            } else {
                match Decode!(&m, Vec<Int>) { Ok(v) => list(&v.iter().map(|x| x.0.to_string()).collect::<Vec<_>>()), Err(_) => "(err)".into() }
            }
        }
        "c09.msg_map_int" => {
            // BTreeMap<u8, Int>: vec record { nat8; int }, keys 0,1,2,...
            let ps = parts(a[0]);
            let mut m = b"DIDL\x02\x6d\x01\x6c\x02\x00\x7b\x01\x7c\x01\x00".to_vec();
            leb(ps.len() as u64, &mut m);
            for (k, p) in ps.iter().enumerate() { m.push(k as u8); m.extend_from_slice(p); }
            match Decode!(&m, BTreeMap<u8, Int>) { Ok(v) => list(&v.values().map(|x| x.0.to_string()).collect::<Vec<_>>()), Err(_) => "(err)".into() }
        }
        "c09.enc_nat" => { let n = Nat(BigUint::from_str(a[0]).unwrap()); let mut o = vec![]; n.encode(&mut o).unwrap(); sx::hex(&o) }
        "c09.enc_int" => { let n = Int(BigInt::from_str(a[0]).unwrap()); let mut o = vec![]; n.encode(&mut o).unwrap(); sx::hex(&o) }
        "c09.enc_u128" => { let n: u128 = a[0].parse().unwrap(); let b = Encode!(&n).unwrap(); assert!(b.starts_with(b"DIDL\x00\x01\x7d")); sx::hex(&b[7..]) }
        "c09.enc_i128" => { let n: i128 = a[0].parse().unwrap(); let b = Encode!(&n).unwrap(); assert!(b.starts_with(b"DIDL\x00\x01\x7c")); sx::hex(&b[7..]) }
        "c09.enc_msg_nat" => { let n = Nat(BigUint::from_str(a[0]).unwrap()); let b = Encode!(&n).unwrap(); sx::hex(&b[7..]) }
        "c09.enc_msg_int" => { let n = Int(BigInt::from_str(a[0]).unwrap()); let b = Encode!(&n).unwrap(); sx::hex(&b[7..]) }
        "c09.enc_val_nat" => { let v = IDLArgs::new(&[IDLValue::Nat(Nat(BigUint::from_str(a[0]).unwrap()))]); sx::hex(&v.to_bytes().unwrap()[7..]) }
        "c09.enc_val_int" => { let v = IDLArgs::new(&[IDLValue::Int(Int(BigInt::from_str(a[0]).unwrap()))]); sx::hex(&v.to_bytes().unwrap()[7..]) }
        "p.c09.roundtrip" => {
            let z = BigInt::from_str(a[0]).unwrap();
            let i = Int(z.clone());
            let b = Encode!(&i).unwrap();
            if Decode!(&b, Int).ok() != Some(i.clone()) { return Some("FAIL int roundtrip".into()); }
            if let Ok(v) = a[0].parse::<i128>() {
                let b2 = Encode!(&v).unwrap();
                if b2 != b { return Some("FAIL i128 and Int encodings differ".into()); }
                if Decode!(&b, i128).ok() != Some(v) { return Some("FAIL i128 roundtrip".into()); }
            } else if Decode!(&b, i128).is_ok() { return Some("FAIL i128 accepts out-of-range".into()); }
            if z.sign() != num_bigint::Sign::Minus {
                let n = Nat(z.to_biguint().unwrap());
                let b = Encode!(&n).unwrap();
                if Decode!(&b, Nat).ok() != Some(n.clone()) { return Some("FAIL nat roundtrip".into()); }
                if Decode!(&b, Int).ok() != Some(i.clone()) { return Some("FAIL nat read at int".into()); }
                if let Ok(v) = a[0].parse::<u128>() {
                    if Encode!(&v).unwrap() != b { return Some("FAIL u128 and Nat encodings differ".into()); }
                    if Decode!(&b, u128).ok() != Some(v) { return Some("FAIL u128 roundtrip".into()); }
                } else if Decode!(&b, u128).is_ok() { return Some("FAIL u128 accepts out-of-range".into()); }
            }
            "ok".into()
        }
        _ => return None,
    })
}

fn gen_leb(r: &mut Rng, len: usize) -> Vec<u8> {
    // a terminated string of exactly len bytes with interesting group patterns
    let mut v = Vec::with_capacity(len);
    let style = r.below(6);
    for i in 0..len {
        let last = i + 1 == len;
        let g: u8 = match style {
            0 => 0x00, 1 => 0x7f,
            2 => if i == 0 { r.below(128) as u8 } else { 0 },
            3 => if i == 0 { r.below(128) as u8 } else { 0x7f },
            _ => r.below(128) as u8,
        };
        let g = if last { *r.pick(&[0x00u8, 0x01, 0x02, 0x03, 0x04, 0x3f, 0x40, 0x41, 0x7e, 0x7f, g, g]) }
                else if i + 2 == len && r.coin(1, 2) { *r.pick(&[0x00u8, 0x01, 0x03, 0x40, 0x7e, 0x7f, g]) } else { g };
        v.push(if last { g } else { g | 0x80 });
    }
    v
}

pub const MIRROR_OPS: &[&str] = &["m.c09.nat_decode", "m.c09.int_decode", "m.c09.dec_u128", "m.c09.dec_i128", "m.c09.msg_nat", "m.c09.msg_int", "m.c09.msg_int_nat"];
pub fn generate(thorough: bool, r: &mut Rng, em: &mut Emit) {
    let scale = if thorough { 10 } else { 1 };
    let all_dec: Vec<&str> = DEC_OPS.iter().chain(MSG_OPS.iter()).chain(MIRROR_OPS.iter()).cloned().collect();
    // 1. exhaustive: all strings of length 1 (every op); length 2 (direct decoders; sampled in quick)
    for b in 0..=255u8 { for op in &all_dec { em.case_nt(op, &[sx::hex(&[b])], false); } }
    for b0 in 0..=255u8 { for b1 in 0..=255u8 {
        if thorough || r.coin(1, 16) {
            for op in DEC_OPS { em.case_nt(op, &[sx::hex(&[b0, b1])], b0 >= 0x80); }
        }
    } }
    if thorough {
        // all 2^24 three-byte strings, as digests of 65536 results each; the shard picks its first bytes
        for _ in 0..16 { let b0 = r.below(256); for op in DEC_OPS { em.case_nt("c09.sweep3", &[op.to_string(), b0.to_string()], true); } }
    } else {
        let b0 = 0x80 + r.below(128); em.case_nt("c09.sweep3", &["c09.nat_decode".into(), b0.to_string()], true);
        em.case_nt("c09.sweep3", &["c09.int_decode".into(), b0.to_string()], true);
    }
    // 2. boundary families around 64 and 128 bits, every op, with and without trailing bytes
    for len in [7usize, 8, 9, 10, 11, 17, 18, 19, 20, 21, 22, 37] {
        for _ in 0..60 * scale {
            let mut b = gen_leb(r, len);
            em.stat(&format!("len.{}", len));
            for op in &all_dec { em.case_nt(op, &[sx::hex(&b)], true); }
            if r.coin(1, 3) { let k = r.range(1, 3) as usize; b.extend(r.bytes(k)); for op in DEC_OPS { em.case_nt(op, &[sx::hex(&b)], true); } }
        }
    }
    // 3. random terminated strings up to 40 bytes, unterminated strings, empty input
    for op in &all_dec { em.case(op, &[sx::hex(&[])]); }
    for _ in 0..400 * scale {
        let len = r.range(1, 40) as usize;
        let b = gen_leb(r, len);
        for op in &all_dec { em.case_nt(op, &[sx::hex(&b)], len >= 2); }
        if r.coin(1, 4) {
            let u: Vec<u8> = b.iter().map(|x| x | 0x80).collect();
            em.stat("unterminated");
            for op in &all_dec { em.case_nt(op, &[sx::hex(&u)], true); }
        }
    }
    // 4. inside vectors and maps
    for _ in 0..150 * scale {
        let n = r.range(0, 5) as usize;
        let ps: Vec<Vec<u8>> = (0..n).map(|_| { let l = *r.pick(&[1usize, 1, 2, 5, 9, 10, 11, 19, 25]); gen_leb(r, l) }).collect();
        let arg = format!("({})", ps.iter().map(|p| sx::hex(p)).collect::<Vec<_>>().join(" "));
        for op in ["c09.msg_vec_nat", "c09.msg_vec_int", "c09.msg_vec_int_nat", "c09.msg_map_int"] { em.case_nt(op, &[arg.clone()], n >= 1); }
    }
    // 5. encoders: every integer +-2^k + {-2..2}, k <= 200, and random ones
    let mut ints: Vec<BigInt> = vec![];
    for k in 0..=200u32 { for d in -2i32..=2 { let p = BigInt::from(1) << k; ints.push(&p + d); ints.push(-&p + d); } }
    for _ in 0..200 * scale { let nb = r.range(1, 30) as usize; let z = BigInt::from_signed_bytes_le(&r.bytes(nb)); ints.push(z); }
    if !thorough { // a deterministic third of the boundary integers per shard in quick mode
        let k = r.below(3) as usize; ints = ints.into_iter().enumerate().filter(|(i, _)| i % 3 == k).map(|(_, z)| z).collect();
    }
    for z in &ints {
        let s = z.to_string();
        let big = z.bits() > 62;
        em.case_nt("m.c09.enc_int", &[s.clone()], big); if z.sign() != num_bigint::Sign::Minus { em.case_nt("m.c09.enc_nat", &[s.clone()], big); }
        em.case_nt("c09.enc_int", &[s.clone()], big); em.case_nt("c09.enc_msg_int", &[s.clone()], big); em.case_nt("c09.enc_val_int", &[s.clone()], big);
        if i128::from_str(&s).is_ok() { em.case_nt("c09.enc_i128", &[s.clone()], big); }
        if z.sign() != num_bigint::Sign::Minus {
            em.case_nt("c09.enc_nat", &[s.clone()], big); em.case_nt("c09.enc_msg_nat", &[s.clone()], big); em.case_nt("c09.enc_val_nat", &[s.clone()], big);
            if u128::from_str(&s).is_ok() { em.case_nt("c09.enc_u128", &[s.clone()], big); }
        }
        em.case_nt("p.c09.roundtrip", &[s], big);
    }
}
