//! C02: decoding at an expected type is exactly the specification's coercion (untyped API).
use crate::ty::{env_from_sx, env_sx, gen_env, gen_type, mutate_type, to_env, Env, GenCfg, T};
use crate::val::{self, gen_val, message, vals_sx, V};
use crate::{rng::Rng, sx, Emit};
use binread::BinRead;
use candid::IDLArgs;

pub fn tys_sx(ts: &[T]) -> String { format!("({})", ts.iter().map(|t| t.sx()).collect::<Vec<_>>().join(" ")) }
pub fn tys_from(s: &str) -> Vec<T> { sx::parse(s).list().iter().map(T::from_sx).collect() }
fn show(r: candid::Result<IDLArgs>) -> String {
    match r { Ok(a) => { let vs: Vec<V> = a.args.iter().map(V::from_idl).collect(); if vs.is_empty() { "(ok)".into() } else { format!("(ok {})", vals_sx(&vs)) } } Err(_) => "(err)".into() }
}

pub fn eval(op: &str, a: &[&str]) -> Option<String> {
    Some(match op {
        "c02.decode" => {
            let env = env_from_sx(a[0]); let ts = tys_from(a[1]); let b = sx::unhex(a[2]);
            let tys: Vec<candid::types::Type> = ts.iter().map(|t| t.to_type()).collect();
            show(IDLArgs::from_bytes_with_types(&b, &to_env(&env), &tys))
        }
        "c02.decode_untyped" => show(IDLArgs::from_bytes(&sx::unhex(a[0]))),
        "c02.header" => {
            let b = sx::unhex(a[0]);
            let mut c = std::io::Cursor::new(&b[..]);
            match candid::binary_parser::Header::read_args(&mut c, (None,)) {
                Err(_) => "(err)".into(),
                Ok(h) => match h.to_types() {
                    Err(_) => "(err)".into(),
                    Ok((env, args)) => {
                        let n = env.0.len();
                        let e: Env = (0..n).map(|i| { let k = format!("table{}", i); let t = T::from_type(env.0.get(&k).expect("table entry")); (k, t) }).collect();
                        let ats: Vec<T> = args.iter().map(T::from_type).collect();
                        format!("(ok {} {} {})", env_sx(&e), tys_sx(&ats), b.len() - c.position() as usize)
                    }
                },
            }
        }
        _ => return None,
    })
}

pub fn rename_env(e: &Env, suffix: &str) -> (Env, impl Fn(&str) -> String) {
    let s = suffix.to_string();
    let f = move |x: &str| format!("{}{}", x, s);
    (e.iter().map(|(n, t)| (f(n), t.rename(&f))).collect(), f)
}

pub fn mutate_bytes(r: &mut Rng, b: &[u8]) -> Vec<u8> {
    let mut m = b.to_vec();
    if m.is_empty() { return m; }
    match r.below(9) {
        7 | 8 => {
            // turn the byte at i into the first byte of a ten- or eleven-byte LEB128 number: padded (top byte 0), 2^63 (top byte 1),
            // or out of the 64-bit range (top byte 2..7f); when i is a length or count this is the interesting boundary
            let i = r.below(m.len() as u64) as usize;
            let top = *r.pick(&[0u8, 1, 2, 3, 0x10, 0x40, 0x7f, 0x7e]);
            let fill = if r.coin(1, 8) { 9 } else { 8 };
            let low = m[i] & 0x7f;
            let mut ins = vec![low | 0x80];
            for _ in 0..fill { ins.push(0x80); }
            ins.push(top);
            m.splice(i..i + 1, ins);
        }
        0 => { let i = r.below(m.len() as u64) as usize; m[i] ^= 1 << r.below(8); }
        1 => { let i = r.below(m.len() as u64) as usize; m[i] = r.next() as u8; }
        2 => { let i = r.below(m.len() as u64) as usize; m.remove(i); }
        3 => { let i = r.below(m.len() as u64 + 1) as usize; m.insert(i, r.next() as u8); }
        4 => { let k = r.below(m.len() as u64) as usize; m.truncate(k); }
        5 => { m.push(r.next() as u8); }
        _ => { let i = r.below(m.len() as u64) as usize; m[i] = *r.pick(&[0u8, 1, 2, 0x7f, 0x80, 0xff, 0x6e, 0x6d, 0x6c, 0x6b, 0x7d, 0x71, 0x68]); }
    }
    m
}

pub fn hostile(r: &mut Rng) -> Vec<Vec<u8>> {
    let mut out: Vec<Vec<u8>> = vec![];
    let h = |s: &str| hex::decode(s.replace(' ', "")).unwrap();
    out.push(h("4449444c 00 00"));
    out.push(h("4449444c 00 01 7f"));
    out.push(h("4449444c 00 01 7e 01"));
    out.push(h("4449444c 00 01 7e 02"));                                   // bad bool
    out.push(h("4449444c 00 01 71 02 c328"));                              // bad utf-8
    out.push(h("4449444c 01 6c 02 01 7d 00 7d 01 00 00 00"));              // fields not ascending
    out.push(h("4449444c 01 6c 02 01 7d 01 7d 01 00 00 00"));              // duplicate field id
    out.push(h("4449444c 01 6e 01 01 00 00"));                             // index out of range
    out.push(h("4449444c 01 6e 00 01 00 00"));                             // opt of itself: fine, value none
    out.push(h("4449444c 01 6c 01 00 00 01 00"));                          // record containing itself: empty type
    out.push(h("4449444c 02 6c 01 00 01 6c 01 00 00 01 00"));              // mutually recursive records
    out.push(h("4449444c 01 6e 6f 01 00 00"));                             // unknown opcode -17-... (0x6f = -17 empty ok)
    out.push(h("4449444c 01 6e 67 01 00 00"));                             // -25: invalid reference
    out.push(h("4449444c 01 67 00 01 00"));                                // future type entry (opcode -25, length 0)
    out.push(h("4449444c 01 67 03 aabbcc 01 7f"));                         // future type with payload
    out.push(h("4449444c 02 69 01 01 66 01 6a 00 00 00 01 00 01 00"));     // service with function method
    out.push(h("4449444c 01 69 01 01 66 7d 01 00 01 00"));                 // service method of primitive type
    out.push(h("4449444c 02 69 02 01 67 01 01 66 01 6a 00 00 00 01 00 01 00")); // methods not sorted
    out.push(h("4449444c 01 6a 00 00 02 01 02 01 00"));                    // two annotations
    out.push(h("4449444c 01 6a 00 00 01 04 01 00"));                       // unknown annotation
    out.push(h("4449444c 01 6a 00 00 01 02 01 00 01 01 00 01 61"));        // func value
    out.push(h("4449444c 00 01 68 01 1e 000000000000000000000000000000000000000000000000000000000000")); // principal 30 bytes
    out.push(h("4449444c 00 01 68 00 00"));                                // opaque reference flag
    out.push(h("4449444c 01 6d 7f 01 00 e8 07"));                          // vec null x1000
    out.push(h("4449444c 01 6b 01 00 7f 01 00 01"));                       // variant index out of range
    out.push(h("4449444c 00 02 7d 7d 05"));                                // too few values
    out.push(h("4449444c 00 01 7d 05 00"));                                // trailing byte
    out.push(h("4449444c 00 01 7d 80808080808080808000"));                 // nat padded to 10 bytes
    out.push(h("4449444c 01 6d 7d 01 00 8080808080808080800001"));         // vec length padded to 10 bytes (11 bytes!)
    out.push(h("4449444c 01 6d 7d 01 00 81808080808080808000 05"));        // vec length 1 padded to 10 bytes
    out.push(h("4449444c 80808080808080808000 00"));                       // table length padded to 10 bytes
    out.push(h("4449444c 8080808080808080808000 00"));                     // 11 bytes: too long
    out.push(h("4449444c 91 4e 00"));                                      // table length 10001
    out.push(h("4449444c 00 01 80808080808080808000"));                    // hmm: reference sleb padded
    let _ = r;
    out
}


/// definitions whose bodies are optional only through names (and one that is not optional), and field types using them
pub fn optional_defs() -> (Env, Vec<T>) {
    let defs: Env = vec![
        ("OptNat_".into(), T::opt(T::p("nat"))), ("Null_".into(), T::p("null")), ("Res_".into(), T::p("reserved")),
        ("Chain_".into(), T::var("OptNat_")), ("Chain2_".into(), T::var("Chain_")), ("Nat_".into(), T::p("nat")),
        ("List_".into(), T::opt(T::rec(vec![(0, T::p("nat")), (1, T::var("List_"))]))),
    ];
    let extras = vec![T::var("OptNat_"), T::var("Null_"), T::var("Res_"), T::var("Chain_"), T::var("Chain2_"), T::var("List_"),
                      T::opt(T::p("text")), T::var("Nat_"), T::p("nat")];
    (defs, extras)
}
/// add one or two fields to every record of `t`, at ids before, between and after the existing ones
pub fn insert_fields(r: &mut Rng, t: &T, extras: &[T]) -> T {
    match t {
        T::Rec(fs) => {
            let mut out: Vec<(u32, T)> = fs.iter().map(|(i, t)| (*i, insert_fields(r, t, extras))).collect();
            let n = r.range(1, 2);
            for _ in 0..n {
                let id = match r.below(3) { 0 => r.below(8) as u32, 1 => 50 + r.below(60) as u32, _ => r.next() as u32 };
                if !out.iter().any(|f| f.0 == id) { out.push((id, r.pick(extras).clone())); }
            }
            T::rec(out)
        }
        T::Opt(x) => T::opt(insert_fields(r, x, extras)),
        T::Vec(x) => T::vec(insert_fields(r, x, extras)),
        T::Variant(fs) => T::variant(fs.iter().map(|(i, t)| (*i, insert_fields(r, t, extras))).collect()),
        _ => t.clone(),
    }
}

/// replace random sub-terms of `t` (never the root when `top`) by fresh names bound to them in `defs`
pub fn outline(r: &mut Rng, t: &T, defs: &mut Env, top: bool) -> T {
    let inner = match t {
        T::Opt(x) => T::opt(outline(r, x, defs, false)),
        T::Vec(x) => T::vec(outline(r, x, defs, false)),
        T::Rec(fs) => T::Rec(fs.iter().map(|(i, x)| (*i, outline(r, x, defs, false))).collect()),
        T::Variant(fs) => T::Variant(fs.iter().map(|(i, x)| (*i, outline(r, x, defs, false))).collect()),
        o => o.clone(),
    };
    if !top && !matches!(t, T::Var(_)) && r.coin(1, 3) {
        let n = format!("O{}_", defs.len());
        // sometimes through a chain of two names
        if r.coin(1, 4) { let n2 = format!("O{}x_", defs.len()); defs.push((n.clone(), T::var(&n2))); defs.push((n2, inner)); } else { defs.push((n.clone(), inner)); }
        T::var(&n)
    } else { inner }
}

pub fn generate(thorough: bool, r: &mut Rng, em: &mut Emit) {
    let scale = if thorough { 15 } else { 1 };
    for b in hostile(r) {
        em.case_nt("c02.header", &[sx::hex(&b)], true);
        em.case_nt("c02.decode_untyped", &[sx::hex(&b)], true);
    }
    // values that the reader only SKIPS must be well-formed all the same: a function reference whose method name is not UTF-8
    // (and, as a control, one that is) in a surplus field, under reserved, behind the fall-back of opt, as a surplus argument
    {
        let fty = T::Func(vec![], vec![], vec![]);
        let wire = T::rec(vec![(0, fty.clone()), (1, T::p("nat"))]);
        for name in [&[0xffu8][..], &[0xc3][..], &[0xed, 0xa0, 0x80][..], &[0xc3, 0xa9][..], &[0x66, 0x80][..], &[][..]] {
            for pb in [vec![], vec![1u8, 2, 3]] {
                let v = V::Rec(vec![(0, V::Func(pb.clone(), name.to_vec())), (1, V::Nat(5u32.into()))]);
                let msg = message(&vec![], &[wire.clone()], &[v.clone()], 0);
                let h = sx::hex(&msg);
                em.stat("skipped.func-method-name");
                em.case_nt("c02.decode_untyped", &[h.clone()], true);
                for e in [T::rec(vec![(1, T::p("nat"))]), T::rec(vec![(0, T::p("reserved")), (1, T::p("nat"))]), T::rec(vec![(0, T::opt(T::p("nat"))), (1, T::p("nat"))]),
                          T::rec(vec![(0, T::opt(fty.clone())), (1, T::p("nat"))]), wire.clone(), T::p("reserved"), T::opt(T::p("text"))] {
                    em.case_nt("c02.decode", &["()".to_string(), tys_sx(&[e]), h.clone()], true);
                }
                let msg2 = message(&vec![], &[T::p("nat"), fty.clone()], &[V::Nat(7u32.into()), V::Func(pb.clone(), name.to_vec())], 0);
                em.case_nt("c02.decode", &["()".to_string(), tys_sx(&[T::p("nat")]), sx::hex(&msg2)], true);
            }
        }
    }
    for round in 0..150 * scale {
        let cfg = GenCfg { max_depth: 2, refs: round % 4 == 0, var_bias: 4 };
        let k = r.range(0, 4) as usize;
        let ew = gen_env(r, k, &cfg);
        let names: Vec<String> = ew.iter().map(|d| d.0.clone()).collect();
        let nargs = r.range(0, 3) as usize;
        let mut tws = vec![]; let mut vs = vec![];
        for _ in 0..nargs {
            for _try in 0..5 {
                let t = gen_type(r, &names, 2, &cfg);
                if let Some(v) = gen_val(r, &ew, &t, 4) { tws.push(t); vs.push(v); break; }
            }
        }
        let pad = if r.coin(1, 5) { r.range(1, 3) as usize } else { 0 };
        let msg = message(&ew, &tws, &vs, pad);
        let hexmsg = sx::hex(&msg);
        em.stat(&format!("msg.args.{}", tws.len()));
        em.case_nt("c02.header", &[hexmsg.clone()], !ew.is_empty());
        em.case_nt("c02.decode_untyped", &[hexmsg.clone()], vs.iter().any(|v| v.size() > 1));
        // expected types
        let (ee, f) = rename_env(&ew, "_");
        let same: Vec<T> = tws.iter().map(|t| t.rename(&f)).collect();
        let enames: Vec<String> = ee.iter().map(|d| d.0.clone()).collect();
        em.case_nt("c02.decode", &[env_sx(&ee), tys_sx(&same), hexmsg.clone()], true);
        for variant in 0..4 {
            // definition-wise mutated expected environment and mutated argument types
            let ee2: Env = ee.iter().map(|(n, t)| { let m = if r.coin(1, 2) { mutate_type(r, t, &enames, &cfg) } else { t.clone() }; (n.clone(), if matches!(m, T::Var(_)) { t.clone() } else { m }) }).collect();
            let mut tes: Vec<T> = same.iter().map(|t| if r.coin(2, 3) { mutate_type(r, t, &enames, &cfg) } else { t.clone() }).collect();
            match variant {
                1 => { tes.push(T::opt(gen_type(r, &enames, 1, &cfg))); if r.coin(1, 2) { tes.push(T::p("reserved")); } }
                2 => { tes.pop(); }
                3 => { tes.push(gen_type(r, &enames, 1, &cfg)); }
                _ => {}
            }
            em.stat("expected.mutated");
            em.case_nt("c02.decode", &[env_sx(&ee2), tys_sx(&tes), hexmsg.clone()], true);
        }
        {   // expected records with extra fields at every position (before, between, after the wire fields) whose types are optional
            // directly, through a definition, through a chain of definitions -- or not optional at all (must be rejected)
            let mut ee3 = ee.clone();
            ee3.push(("OptNat_".into(), T::opt(T::p("nat"))));
            ee3.push(("Null_".into(), T::p("null")));
            ee3.push(("Res_".into(), T::p("reserved")));
            ee3.push(("Chain_".into(), T::var("OptNat_")));
            ee3.push(("Chain2_".into(), T::var("Chain_")));
            ee3.push(("Nat_".into(), T::p("nat")));
            ee3.push(("List_".into(), T::opt(T::rec(vec![(0, T::p("nat")), (1, T::var("List_"))]))));
            let extras: [T; 9] = [T::var("OptNat_"), T::var("Null_"), T::var("Res_"), T::var("Chain_"), T::var("Chain2_"), T::var("List_"),
                                  T::opt(T::p("text")), T::var("Nat_"), T::p("nat")];
            let has_rec = |t: &T| { fn go(t: &T) -> bool { match t { T::Rec(_) => true, T::Opt(x) | T::Vec(x) => go(x), T::Variant(fs) => fs.iter().any(|f| go(&f.1)), _ => false } } go(t) };
            if same.iter().any(|t| has_rec(t)) || ee.iter().any(|d| has_rec(&d.1)) {
                for _ in 0..3 {
                    let ee4: Env = ee3.iter().map(|(n, t)| (n.clone(), if n.ends_with("__") || !ee.iter().any(|d| &d.0 == n) { t.clone() } else { insert_fields(r, t, &extras) })).collect();
                    let tes: Vec<T> = same.iter().map(|t| insert_fields(r, t, &extras)).collect();
                    em.stat("expected.inserted-fields");
                    em.case_nt("c02.decode", &[env_sx(&ee4), tys_sx(&tes), hexmsg.clone()], true);
                }
            }
        }
        {   // the same expected types with random sub-terms (leaves included) given names: the meaning is unchanged, but every
            // place that looks at an expected type has to see through the name
            for _ in 0..2 {
                let mut defs: Env = vec![];
                let tes: Vec<T> = same.iter().map(|t| outline(r, t, &mut defs, true)).collect();
                let mut ee5: Env = ee.iter().map(|(n, t)| (n.clone(), outline(r, t, &mut defs, true))).collect();
                if defs.is_empty() { continue; }
                ee5.extend(defs);
                em.stat("expected.outlined");
                em.case_nt("c02.decode", &[env_sx(&ee5), tys_sx(&tes), hexmsg.clone()], true);
            }
        }
        {   // unrelated expected types
            let tes: Vec<T> = (0..nargs).map(|_| gen_type(r, &enames, 2, &cfg)).collect();
            em.case_nt("c02.decode", &[env_sx(&ee), tys_sx(&tes), hexmsg.clone()], true);
        }
        // byte-level mutants, decoded untyped and at the original types
        for _ in 0..6 {
            let m = mutate_bytes(r, &msg);
            // a mutated count of zero-sized elements can ask for 2^60 values: with no quota set the decoder is entitled to try
            // (C06/C07 cover the metered behaviour), so such inputs are left out here
            if crate::ops::c07::decode_untyped(&m, &crate::ops::c07::config(Some(20_000_000), None)) == crate::ops::c07::Out::Quota { em.stat("bytes.mutant.dropped-unbounded-work"); continue; }
            let hm = sx::hex(&m);
            em.stat("bytes.mutant");
            em.case_nt("c02.header", &[hm.clone()], true);
            em.case_nt("c02.decode_untyped", &[hm.clone()], true);
            em.case_nt("c02.decode", &[env_sx(&ee), tys_sx(&same), hm], true);
        }
    }
    let _ = val::leb;
}
