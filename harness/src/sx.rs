//! Canonical s-expression vocabulary shared with the model runner (DESIGN.md Appendix D).
pub fn hex(b: &[u8]) -> String { if b.is_empty() { "-".to_string() } else { hex::encode(b) } }
pub fn unhex(s: &str) -> Vec<u8> { if s == "-" { vec![] } else { hex::decode(s).expect("hex") } }

/// minimal s-expression reader
#[derive(Debug, Clone, PartialEq)]
pub enum Sx { A(String), L(Vec<Sx>) }
impl Sx {
    pub fn atom(&self) -> &str { match self { Sx::A(s) => s, _ => panic!("atom expected: {:?}", self) } }
    pub fn list(&self) -> &[Sx] { match self { Sx::L(v) => v, _ => panic!("list expected: {:?}", self) } }
    pub fn head(&self) -> &str { match self { Sx::A(s) => s, Sx::L(v) => v[0].atom() } }
    pub fn args(&self) -> &[Sx] { match self { Sx::A(_) => &[], Sx::L(v) => &v[1..] } }
}
pub fn parse(s: &str) -> Sx {
    let toks: Vec<String> = s.replace('(', " ( ").replace(')', " ) ").split_whitespace().map(|x| x.to_string()).collect();
    let mut i = 0;
    let r = parse_at(&toks, &mut i);
    assert!(i == toks.len(), "trailing tokens in sexp");
    r
}
fn parse_at(t: &[String], i: &mut usize) -> Sx {
    if t[*i] == "(" {
        *i += 1;
        let mut v = vec![];
        while t[*i] != ")" { v.push(parse_at(t, i)); }
        *i += 1;
        Sx::L(v)
    } else {
        let a = t[*i].clone();
        *i += 1;
        Sx::A(a)
    }
}
