// An abstract IDL builder: evaluating a generated idlFactory / init against it yields a description of the type
// graph, printed in the harness's s-expression form (recursion points become variables %rec<n>).
'use strict';
const fs = require('fs');
const src = fs.readFileSync(process.argv[2], 'utf8');

function hex(buf) { return buf.length === 0 ? '-' : Buffer.from(buf).toString('hex'); }
function idlHash(name) { let h = 0n; for (const b of Buffer.from(name, 'utf8')) { h = (h * 223n + BigInt(b)) % 4294967296n; } return Number(h); }
let recs = [];
const prim = n => ({ sx: () => n });
function fieldId(k) { const m = /^_(\d+)_$/.exec(k); return m ? Number(m[1]) : idlHash(k); }
function fields(o) {
  const fs = Object.keys(o).map(k => [fieldId(k), o[k]]);
  fs.sort((a, b) => a[0] - b[0]);
  return fs.map(f => ` (${f[0]} ${f[1].sx()})`).join('');
}
const MODES = { query: 1, oneway: 2, composite_query: 3 };
const IDL = {
  Null: prim('null'), Bool: prim('bool'), Nat: prim('nat'), Int: prim('int'),
  Nat8: prim('nat8'), Nat16: prim('nat16'), Nat32: prim('nat32'), Nat64: prim('nat64'),
  Int8: prim('int8'), Int16: prim('int16'), Int32: prim('int32'), Int64: prim('int64'),
  Float32: prim('float32'), Float64: prim('float64'), Text: prim('text'), Reserved: prim('reserved'),
  Empty: prim('empty'), Principal: prim('principal'),
  Opt: t => ({ sx: () => `(opt ${t.sx()})` }),
  Vec: t => ({ sx: () => `(vec ${t.sx()})` }),
  Record: o => ({ sx: () => `(rec${fields(o)})` }),
  Variant: o => ({ sx: () => `(variant${fields(o)})` }),
  Tuple: (...ts) => ({ sx: () => '(rec' + ts.map((t, i) => ` (${i} ${t.sx()})`).join('') + ')' }),
  Func: (a, r, m) => ({ sx: () => `(func (${a.map(x => x.sx()).join(' ')}) (${r.map(x => x.sx()).join(' ')}) (${m.map(x => { if (!(x in MODES)) throw new Error('mode ' + x); return MODES[x]; }).join(' ')}))` }),
  Service: o => ({ isService: true, sx: () => {
      const ms = Object.keys(o).map(k => [Buffer.from(k, 'utf8'), o[k]]);
      ms.sort((a, b) => Buffer.compare(a[0], b[0]));
      return '(serv' + ms.map(m => ` (${hex(m[0])} ${m[1].sx()})`).join('') + ')';
  } }),
  Rec: () => { const r = { name: '%rec' + recs.length, body: null, filled: 0,
                          fill(t) { this.body = t; this.filled++; }, getType() { if (!this.body) throw new Error('getType before fill'); return this.body; },
                          sx() { return `(var ${hex(Buffer.from(this.name))})`; } };
               recs.push(r); return r; },
};
function run(name) {
  recs = [];
  // the generated module is ES-module syntax: strip the export keyword and evaluate in a function scope
  // (a module is strict code: legacy octal escapes, duplicate parameters and the like are errors there)
  const body = "'use strict';\n" + src.replace(/^export const /gm, 'const ') + `\nreturn { idlFactory: typeof idlFactory === 'undefined' ? undefined : idlFactory, init: typeof init === 'undefined' ? undefined : init };`;
  const mod = new Function(body)();
  const f = mod[name];
  if (!f) return null;
  const out = f({ IDL });
  // what the factory returns is handed to the agent as the service: it must be the service type itself, not a recursion point
  if (name === 'idlFactory' && !(out && out.isService === true)) throw new Error('the factory does not return a service type' + (out && out.fill ? ' (it returns an IDL.Rec() object)' : ''));
  for (const r of recs) { if (r.filled !== 1) throw new Error(`${r.name} filled ${r.filled} times`); }
  const env = '(' + recs.map(r => `(${hex(Buffer.from(r.name))} ${r.body.sx()})`).join(' ') + ')';
  const ty = Array.isArray(out) ? '(' + out.map(t => t.sx()).join(' ') + ')' : out.sx();
  return env + '\t' + ty;
}
try {
  const a = run('idlFactory'); const b = run('init');
  console.log('factory\t' + a); console.log('init\t' + b);
} catch (e) { console.log('error\t' + String(e).split('\n')[0]); }
