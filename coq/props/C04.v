(* C04 -- Accepted subtyping means decoding at the supertype cannot fail. *)
From Coq Require Import List NArith ZArith.
From CandidV Require Import model.Coerce proofs.SubProofs proofs.WireProofs proofs.CoerceProofs.
Open Scope N_scope.

(* Soundness of subtyping for coercion (spec, Properties):  t <: t'  =>  every v : t coerces to t'.
   Stated for closed, productive, class-free environments with unique field ids (what check_prog and the
   header parser establish: [wf_env], [ty_closed]).  The coercion function is fuel-indexed; [okf] says the
   outcome is a value or fuel exhaustion, never "no coercion" and never an error. *)
Theorem C04_soundness : forall E, wf_env E = true -> forall f v t t',
  ty_closed E t = true -> ty_closed E t' = true -> Sub E t t' -> has_type E v t = true -> okf (coerce f E v t t').
Proof. exact coerce_sound. Qed.

(* ... and the result is a value of t' *)
Theorem C04_result_typed : forall E, wf_env E = true -> forall f v t t',
  ty_closed E t' = true -> has_type E v t = true -> good E t' (coerce f E v t t').
Proof. exact coerce_typed. Qed.

(* the checker the implementation is compared with decides Sub *)
Theorem C04_checker : forall E a b, sub_dec_fast E a b = true <-> Sub E a b.
Proof. exact sub_dec_fast_correct. Qed.

(* non-vacuity: a recursive list type and an upgrade (nat -> int, new optional field) *)
Example C04_ex :
  let E := [([76], TOpt (TRec [(0, TPrim PNat); (1, TVar [76])]));
            ([75], TOpt (TRec [(0, TPrim PInt); (1, TVar [75]); (7, TOpt (TPrim PText))]))] in
  wf_env E = true /\ ty_closed E (TVar [76]) = true /\ ty_closed E (TVar [75]) = true /\ sub_dec_fast E (TVar [76]) (TVar [75]) = true /\
  coerce 20 E (VOpt (Some (VRec [(0, VNat 1); (1, VOpt None)]))) (TVar [76]) (TVar [75])
    = Ok (VOpt (Some (VRec [(0, VInt 1); (1, VOpt None); (7, VOpt None)]))).
Proof. vm_compute. repeat split; reflexivity. Qed.

Print Assumptions C04_soundness.
Print Assumptions C04_result_typed.
Print Assumptions C04_checker.
