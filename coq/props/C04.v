From CandidV Require Import model.Annot.
Theorem C04_placeholder : True. Proof. exact I. Qed.
Print Assumptions C04_placeholder.
