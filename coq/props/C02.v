(* C02 -- Decoding at an expected type is exactly the specification's coercion.
   [spec_decode] (model/Coerce.v) is the "independent decoder written from the specification": header grammar with its
   validation rules, M^-1 at the wire types, the coercion relation as a function, the argument-sequence rule.
   The implementation's fused decode-and-coerce (IDLArgs::from_bytes_with_types / from_bytes, binary_parser::Header)
   is compared with it by the correspondence run; the theorems below are the meta-theory that makes it the right oracle. *)
From Coq Require Import List NArith ZArith.
From CandidV Require Import Consts model.Coerce model.De proofs.WireProofs proofs.CoerceProofs proofs.DeFast proofs.DeSpec proofs.DeCoerce proofs.DeCoerceMain proofs.DeMessage.
Open Scope N_scope.

(* the value decoder inverts the spec's value encoding M at every type: for every well-typed value, any trailing input *)
Theorem C02_value_decoder_inverts_M : forall v E t out f rest,
  has_type E v t = true -> enc_val E v t = Some out -> (vdepth v < f)%nat ->
  dec_val f E t (out ++ rest) = Ok (v, rest).
Proof. exact dec_enc_val. Qed.

(* well-typedness of coercion (spec, Properties):  v : t ~> v' : t'  implies  v' : t'.
   [good] also says that a well-typed value never makes the coercion function go wrong: the only outcomes are
   a value of the expected type, "no coercion" (which an enclosing opt turns into null) or fuel exhaustion. *)
Theorem C02_coerce_welltyped : forall E, wf_env E = true -> forall f v t t',
  ty_closed E t' = true -> has_type E v t = true -> good E t' (coerce f E v t t').
Proof. exact coerce_typed. Qed.

(* round-tripping (spec, Properties): coercing at the same type never fails *)
Theorem C02_coerce_same_type : forall E, wf_env E = true -> forall f v t t' a,
  trace E t = Some a -> trace E t' = Some a -> ty_closed E a = true -> has_type E v t = true -> okf (coerce f E v t t').
Proof. exact coerce_same. Qed.

Example C02_ex_opt_backtracking :   (* opt record {0:nat} read at opt record {0:text}: failed coercion under opt yields null *)
  coerce 10 [] (VOpt (Some (VRec [(0, VNat 5)]))) (TOpt (TRec [(0, TPrim PNat)])) (TOpt (TRec [(0, TPrim PText)])) = Ok (VOpt None).
Proof. vm_compute. reflexivity. Qed.
Example C02_ex_decode :             (* DIDL, no table, one nat argument 5, read at (int, opt text): nat reads at int, missing opt reads as null *)
  spec_decode [] [TPrim PInt; TOpt (TPrim PText)] [68;73;68;76;0;1;125;5] = Ok [VInt 5; VOpt None].
Proof. vm_compute. reflexivity. Qed.

(* The decoder AS IT IS (model/De.v, the single-pass mirror of de.rs that the check compares with IDLDeserialize on values and
   costs): at an expected type that is the wire type up to names it returns exactly what M^-1 returns -- for every
   environment, input and fuel, with the primitive-vector, big-number and blob fast paths, the field merge and the
   back-tracking of opt included. *)
Theorem C02_decoder_is_M_inverse_at_the_wire_type : forall f E u lc e w a bs v r c,
  wf_env E = true -> trace E e = Some a -> trace E w = Some a -> ty_closed E a = true ->
  dec_val f E a bs = Ok (v, r) ->
  exists c', de f E u HV lc e w bs nolim c = (c', Ok (v, r)).
Proof. exact de_at_wire_type. Qed.

(* and for whole messages with no expected types (IDLArgs::from_bytes): whenever the specification's decoder accepts a
   message (whose table is closed), so does the decoder as it is, with the same values *)
Theorem C02_untyped_decoder_is_spec : forall bs Ew tws vs c,
  spec_decode_untyped bs = Ok (Ew, tws, vs) -> wf_env Ew = true -> forallb (ty_closed Ew) tws = true ->
  exists c', de_message_untyped max_type_table_len bs nolim c = (c', Ok vs).
Proof. exact de_message_untyped_is_spec. Qed.

Print Assumptions C02_value_decoder_inverts_M.
Print Assumptions C02_decoder_is_M_inverse_at_the_wire_type.
Print Assumptions C02_untyped_decoder_is_spec.
Print Assumptions C02_coerce_welltyped.
Print Assumptions C02_coerce_same_type.

(* The decoder AS IT IS at a PROPER SUPERTYPE (DeCoerceMain.v): whenever M^-1 is defined on the input at the wire type, the
   single-pass decoder -- with its fast paths, its merge of the two sorted field lists, the variant protocol, the reference
   check and the back-tracking of opt -- returns exactly what the specification's coercion function returns on that value:
   the coerced value, or the subtype-class failure that an enclosing opt turns into null.  [W] tells wire names from the
   names of the expected types; [sides] says that each side mentions its own names only, record fields are in ascending
   order, a table entry is never the primitive null and future types occur on the wire only (DeCoerce.v).
   The decoder's fuel must exceed the coercion function's by the depth of the value: an expected opt around a non-opt wire
   value costs the decoder a level of nesting that the value does not have. *)
Theorem C02_decoder_is_coercion_after_M_inverse : forall E W, wf_env E = true -> sides W E ->
  forall f g u lc e w bs v r c g0,
  ty_closed E e = true -> ty_closed E w = true -> side W false e = true -> side W true w = true ->
  dec_val g0 E w bs = Ok (v, r) -> (f + vdepth v < g)%nat ->
  match coerce f E v w e with
  | Ok v' => snd (de g E u HV lc e w bs nolim c) = Ok (v', r)
  | Err ESub => snd (de g E u HV lc e w bs nolim c) = Err ESub
  | _ => True
  end.
Proof. exact de_is_coerce. Qed.

(* skipping a value (surplus fields and arguments, reserved, the fall-back of opt) consumes exactly what M^-1 consumes *)
Theorem C02_skipping_is_M_inverse : forall g g0 E u h lc w bs v r c, wf_env E = true -> ty_closed E w = true ->
  dec_val g0 E w bs = Ok (v, r) -> (vdepth v < g)%nat ->
  exists c', de g E u h lc w w bs nolim c = (c', Ok (v, r)).
Proof. exact skip_is_dec. Qed.

(* whole messages, IDLArgs::from_bytes_with_types: whenever the message is well-formed at its wire types (header, M^-1 of
   every argument, nothing left over), the decoder as it is returns what the coercion of the argument sequence returns --
   the values, or an error when no coercion exists *)
Theorem C02_typed_decoder_is_coercion : forall Ee lc te tes bs Ew tws vs W c,
  spec_decode_untyped bs = Ok (Ew, tws, vs) ->
  wf_env (Ew ++ Ee) = true -> sides W (Ew ++ Ee) ->
  forallb (ty_closed (Ew ++ Ee)) (te :: tes) = true -> forallb (side W false) (te :: tes) = true ->
  forallb (ty_closed (Ew ++ Ee)) tws = true -> forallb (side W true) tws = true ->
  match coerce_args (decode_fuel (Ew ++ Ee) bs) (Ew ++ Ee) vs tws (te :: tes) with
  | Ok out => exists c', de_message max_type_table_len Ee lc (te :: tes) bs nolim c = (c', Ok out)
  | Err ESub => exists c' e, de_message max_type_table_len Ee lc (te :: tes) bs nolim c = (c', Err e)
  | _ => True
  end.
Proof. exact de_message_is_coercion. Qed.

Theorem C02_typed_decoder_is_spec : forall Ee lc te tes bs Ew tws vs0 vs W c,
  spec_decode_untyped bs = Ok (Ew, tws, vs0) ->
  wf_env (Ew ++ Ee) = true -> sides W (Ew ++ Ee) ->
  forallb (ty_closed (Ew ++ Ee)) (te :: tes) = true -> forallb (side W false) (te :: tes) = true ->
  forallb (ty_closed (Ew ++ Ee)) tws = true -> forallb (side W true) tws = true ->
  spec_decode Ee (te :: tes) bs = Ok vs ->
  exists c', de_message max_type_table_len Ee lc (te :: tes) bs nolim c = (c', Ok vs).
Proof. exact de_message_is_spec. Qed.

(* non-vacuity: record {0 : nat} = {5} through a table entry, read at opt record {0 : int; 1 : opt text} declared in an
   expected environment: every hypothesis of the message theorem holds (the side conditions through their boolean test) *)
Definition C02_ex_msg : list N := [68;73;68;76; 1; 108; 1; 0; 125; 1; 0; 5].
Definition C02_ex_Ee : env := [([82], TRec [(0, TPrim PInt); (1, TOpt (TPrim PText))])].
Example C02_ex_typed_hyps :
  exists Ew tws vs0,
    spec_decode_untyped C02_ex_msg = Ok (Ew, tws, vs0) /\ Ew <> [] /\
    wf_env (Ew ++ C02_ex_Ee) = true /\ sidesb (wire_names Ew) (Ew ++ C02_ex_Ee) = true /\
    forallb (ty_closed (Ew ++ C02_ex_Ee)) [TOpt (TVar [82])] = true /\ forallb (side (wire_names Ew) false) [TOpt (TVar [82])] = true /\
    forallb (ty_closed (Ew ++ C02_ex_Ee)) tws = true /\ forallb (side (wire_names Ew) true) tws = true /\
    spec_decode C02_ex_Ee [TOpt (TVar [82])] C02_ex_msg = Ok [VOpt (Some (VRec [(0, VInt 5); (1, VOpt None)]))] /\
    snd (de_message max_type_table_len C02_ex_Ee no_names [TOpt (TVar [82])] C02_ex_msg nolim (0, 0)) = Ok [VOpt (Some (VRec [(0, VInt 5); (1, VOpt None)]))].
Proof. eexists. eexists. eexists. vm_compute. repeat split; try reflexivity. discriminate. Qed.

Print Assumptions C02_decoder_is_coercion_after_M_inverse.
Print Assumptions C02_skipping_is_M_inverse.
Print Assumptions C02_typed_decoder_is_coercion.
Print Assumptions C02_typed_decoder_is_spec.
