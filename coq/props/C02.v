(* C02 -- Decoding at an expected type is exactly the specification's coercion.
   [spec_decode] (model/Coerce.v) is the "independent decoder written from the specification": header grammar with its
   validation rules, M^-1 at the wire types, the coercion relation as a function, the argument-sequence rule.
   The implementation's fused decode-and-coerce (IDLArgs::from_bytes_with_types / from_bytes, binary_parser::Header)
   is compared with it by the correspondence run; the theorems below are the meta-theory that makes it the right oracle. *)
From Coq Require Import List NArith ZArith.
From CandidV Require Import Consts model.Coerce model.De proofs.WireProofs proofs.CoerceProofs proofs.DeFast proofs.DeSpec.
Open Scope N_scope.

(* the value decoder inverts the spec's value encoding M at every type: for every well-typed value, any trailing input *)
Theorem C02_value_decoder_inverts_M : forall v E t out f rest,
  has_type E v t = true -> enc_val E v t = Some out -> (vdepth v < f)%nat ->
  dec_val f E t (out ++ rest) = Ok (v, rest).
Proof. exact dec_enc_val. Qed.

(* well-typedness of coercion (spec, Properties):  v : t ~> v' : t'  implies  v' : t'.
   [good] also says that a well-typed value never makes the coercion function go wrong: the only outcomes are
   a value of the expected type, "no coercion" (which an enclosing opt turns into null) or fuel exhaustion. *)
Theorem C02_coerce_welltyped : forall E, wf_env E = true -> forall f v t t',
  ty_closed E t' = true -> has_type E v t = true -> good E t' (coerce f E v t t').
Proof. exact coerce_typed. Qed.

(* round-tripping (spec, Properties): coercing at the same type never fails *)
Theorem C02_coerce_same_type : forall E, wf_env E = true -> forall f v t t' a,
  trace E t = Some a -> trace E t' = Some a -> ty_closed E a = true -> has_type E v t = true -> okf (coerce f E v t t').
Proof. exact coerce_same. Qed.

Example C02_ex_opt_backtracking :   (* opt record {0:nat} read at opt record {0:text}: failed coercion under opt yields null *)
  coerce 10 [] (VOpt (Some (VRec [(0, VNat 5)]))) (TOpt (TRec [(0, TPrim PNat)])) (TOpt (TRec [(0, TPrim PText)])) = Ok (VOpt None).
Proof. vm_compute. reflexivity. Qed.
Example C02_ex_decode :             (* DIDL, no table, one nat argument 5, read at (int, opt text): nat reads at int, missing opt reads as null *)
  spec_decode [] [TPrim PInt; TOpt (TPrim PText)] [68;73;68;76;0;1;125;5] = Ok [VInt 5; VOpt None].
Proof. vm_compute. reflexivity. Qed.

(* The decoder AS IT IS (model/De.v, the single-pass mirror of de.rs that the check compares with IDLDeserialize on values and
   costs): at an expected type that is the wire type up to names it returns exactly what M^-1 returns -- for every
   environment, input and fuel, with the primitive-vector, big-number and blob fast paths, the field merge and the
   back-tracking of opt included. *)
Theorem C02_decoder_is_M_inverse_at_the_wire_type : forall f E u lc e w a bs v r c,
  wf_env E = true -> trace E e = Some a -> trace E w = Some a -> ty_closed E a = true ->
  dec_val f E a bs = Ok (v, r) ->
  exists c', de f E u HV lc e w bs nolim c = (c', Ok (v, r)).
Proof. exact de_at_wire_type. Qed.

(* and for whole messages with no expected types (IDLArgs::from_bytes): whenever the specification's decoder accepts a
   message (whose table is closed), so does the decoder as it is, with the same values *)
Theorem C02_untyped_decoder_is_spec : forall bs Ew tws vs c,
  spec_decode_untyped bs = Ok (Ew, tws, vs) -> wf_env Ew = true -> forallb (ty_closed Ew) tws = true ->
  exists c', de_message_untyped max_type_table_len bs nolim c = (c', Ok vs).
Proof. exact de_message_untyped_is_spec. Qed.

Print Assumptions C02_value_decoder_inverts_M.
Print Assumptions C02_decoder_is_M_inverse_at_the_wire_type.
Print Assumptions C02_untyped_decoder_is_spec.
Print Assumptions C02_coerce_welltyped.
Print Assumptions C02_coerce_same_type.
