From CandidV Require Import model.Coerce.
Theorem C02_placeholder : True. Proof. exact I. Qed.
Print Assumptions C02_placeholder.
