(* C02 -- Decoding at an expected type is exactly the specification's coercion.
   [spec_decode] (model/Coerce.v) is the "independent decoder written from the specification": header grammar with its
   validation rules, M^-1 at the wire types, the coercion relation as a function, the argument-sequence rule.
   The implementation's fused decode-and-coerce (IDLArgs::from_bytes_with_types / from_bytes, binary_parser::Header)
   is compared with it by the correspondence run; the theorems below are the meta-theory that makes it the right oracle. *)
From Coq Require Import List NArith ZArith.
From CandidV Require Import model.Coerce proofs.WireProofs proofs.CoerceProofs.
Open Scope N_scope.

(* the value decoder inverts the spec's value encoding M at every type: for every well-typed value, any trailing input *)
Theorem C02_value_decoder_inverts_M : forall v E t out f rest,
  has_type E v t = true -> enc_val E v t = Some out -> (vdepth v < f)%nat ->
  dec_val f E t (out ++ rest) = Ok (v, rest).
Proof. exact dec_enc_val. Qed.

(* well-typedness of coercion (spec, Properties):  v : t ~> v' : t'  implies  v' : t'.
   [good] also says that a well-typed value never makes the coercion function go wrong: the only outcomes are
   a value of the expected type, "no coercion" (which an enclosing opt turns into null) or fuel exhaustion. *)
Theorem C02_coerce_welltyped : forall E, wf_env E = true -> forall f v t t',
  ty_closed E t' = true -> has_type E v t = true -> good E t' (coerce f E v t t').
Proof. exact coerce_typed. Qed.

(* round-tripping (spec, Properties): coercing at the same type never fails *)
Theorem C02_coerce_same_type : forall E, wf_env E = true -> forall f v t t' a,
  trace E t = Some a -> trace E t' = Some a -> ty_closed E a = true -> has_type E v t = true -> okf (coerce f E v t t').
Proof. exact coerce_same. Qed.

Example C02_ex_opt_backtracking :   (* opt record {0:nat} read at opt record {0:text}: failed coercion under opt yields null *)
  coerce 10 [] (VOpt (Some (VRec [(0, VNat 5)]))) (TOpt (TRec [(0, TPrim PNat)])) (TOpt (TRec [(0, TPrim PText)])) = Ok (VOpt None).
Proof. vm_compute. reflexivity. Qed.
Example C02_ex_decode :             (* DIDL, no table, one nat argument 5, read at (int, opt text): nat reads at int, missing opt reads as null *)
  spec_decode [] [TPrim PInt; TOpt (TPrim PText)] [68;73;68;76;0;1;125;5] = Ok [VInt 5; VOpt None].
Proof. vm_compute. reflexivity. Qed.

Print Assumptions C02_value_decoder_inverts_M.
Print Assumptions C02_coerce_welltyped.
Print Assumptions C02_coerce_same_type.
