(* C15 -- Field names and numeric ids are identified consistently by the spec's hash.
   Property theorems only: each is closed by [exact lemma]; assumptions are printed. *)
From Coq Require Import List NArith.
From CandidV Require Import Consts model.Hash proofs.HashProofs.
Open Scope N_scope.

(* the implementation's hash (multiplier and width read from rust/candid/src/lib.rs) is the spec's polynomial *)
Theorem C15_hash_spec : forall bs, idl_hash bs = hash_spec bs.
Proof. exact hash_impl_is_spec. Qed.

(* the candid and candid_derive copies are the same function *)
Theorem C15_copies_agree : forall bs, idl_hash bs = idl_hash_derive bs.
Proof. exact hash_copies_agree. Qed.

Theorem C15_hash_range : forall bs, idl_hash bs < 2 ^ 32.
Proof. exact hash_lt. Qed.

(* label equality / order / hash all factor through the id; a name is identified with its hash *)
Theorem C15_label_named_is_id : forall s,
  label_eqb (LNamed s) (LId (idl_hash s)) = true /\
  label_cmp (LNamed s) (LId (idl_hash s)) = Eq /\
  label_hash (LNamed s) = label_hash (LId (idl_hash s)).
Proof. exact named_is_id. Qed.

Theorem C15_label_eq_equiv : forall a b c,
  label_eqb a a = true /\ label_eqb a b = label_eqb b a /\
  (label_eqb a b = true -> label_eqb b c = true -> label_eqb a c = true) /\
  (label_eqb a b = true -> label_hash a = label_hash b) /\
  (label_cmp a b = Eq <-> label_eqb a b = true).
Proof.
  intros a b c. repeat split.
  - exact (label_eqb_refl a). - exact (label_eqb_sym a b). - exact (label_eqb_trans a b c).
  - exact (label_eq_hash a b). - apply label_cmp_eq. - apply label_cmp_eq.
Qed.

(* sort-then-check_unique rejects exactly the field lists with two equal ids *)
Theorem C15_sorted_unique : forall ids, unique_after_sort ids = true <-> NoDup ids.
Proof. exact unique_after_sort_spec. Qed.

(* what passes that check is, once sorted, accepted by the header parser's ascending test, and conversely *)
Theorem C15_emit_accept : forall ids,
  unique_after_sort ids = true -> strictly_ascending None (sort_ids ids) = true.
Proof. exact sorted_unique_is_ascending. Qed.
Theorem C15_accept_unique : forall ids,
  strictly_ascending None ids = true -> unique_after_sort ids = true.
Proof. exact ascending_is_fixed_by_sort. Qed.

(* non-vacuity: a known colliding pair, and a non-trivial name *)
Example C15_ex_hash : idl_hash [110;97;109;101] = 1224700491.   (* "name" *)
Proof. vm_compute. reflexivity. Qed.

Print Assumptions C15_hash_spec.
Print Assumptions C15_copies_agree.
Print Assumptions C15_hash_range.
Print Assumptions C15_label_named_is_id.
Print Assumptions C15_label_eq_equiv.
Print Assumptions C15_sorted_unique.
Print Assumptions C15_emit_accept.
Print Assumptions C15_accept_unique.
