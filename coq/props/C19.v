(* C19 -- All binding generators are total, deterministic and closed on checked programs.
   Totality and determinism of the four generators are runtime facts of generated-code-heavy Rust (pretty printer, handlebars):
   they are established by the predicate stream only.  Proved here: closure of the definition chase the JavaScript binding uses,
   and that text taken from the program cannot end the comment or string literal it is printed in. *)
From Coq Require Import List NArith.
From CandidV Require Import model.Analysis model.Escape proofs.AnalysisProofs proofs.EscapeProofs.
Open Scope N_scope.

(* closure: every name the output refers to is defined in the output, once *)
Theorem C19_closed : forall E t defs, chase_actor E t = Some defs ->
  (forall x, In x (vars t) -> In x defs) /\
  (forall d, In d defs -> exists b, lookup E d = Some b /\ forall x, In x (vars b) -> In x defs) /\
  NoDup defs.
Proof. exact chase_actor_closed. Qed.

(* a doc comment line, as escaped for the TypeScript block comment, contains no comment terminator -- for every line *)
Theorem C19_doc_comment_stays_closed : forall s, has_close (esc_doc s) = false.
Proof. exact esc_doc_no_close. Qed.

(* a name printed between quotes (JavaScript / TypeScript labels and method names, Rust rename attributes and define_service!
   method names): if every character's escape has the shape esc_ok -- which the check establishes for Rust's escape_debug
   exhaustively, over all 1,112,064 scalar values, in both of its positions -- the target's string scanner ends the literal
   exactly at the closing quote, whatever the name *)
Theorem C19_literal_stays_closed : forall (esc : N -> list N) (q : N), q = 39 \/ q = 34 ->
  (forall c, esc_ok (esc c) = true) ->
  forall s rest, scan_lit q (esc_string esc s ++ q :: rest) = Some rest.
Proof. exact literal_closed. Qed.

Example C19_ex :
  esc_doc [42; 47; 32; 42; 42; 47; 42] = [42; 92; 47; 32; 42; 42; 92; 47; 42] /\
  has_close [32; 42; 47] = true /\
  scan_lit 39 [97; 92; 39; 98; 39; 59] = Some [59] /\ scan_lit 39 [97; 39; 98; 39] = Some [98; 39] /\
  esc_ok [92; 39] = true /\ esc_ok [39] = false /\ esc_ok [92; 117; 123; 101; 57; 125] = true.
Proof. vm_compute. repeat split; reflexivity. Qed.

Print Assumptions C19_closed.
Print Assumptions C19_doc_comment_stays_closed.
Print Assumptions C19_literal_stays_closed.
