(* C13 -- The text parsers return a result for every input and never panic.
   Theorems cover the semantic actions whose arithmetic could go wrong (record field numbering with the tuple
   shorthand, in the value and in the type grammar, after the repair), the string sub-lexer (total by construction:
   every input yields bytes, an error or -- for inputs longer than its fuel, which the entry point excludes -- OutOfFuel)
   and the principal text parser (model/Principal.v, total).  The generated lexer and parser tables are exercised by
   the fuzz stream only. *)
From Coq Require Import List NArith.
From CandidV Require Import model.Actions model.Hash model.Text proofs.ActionsProofs proofs.TextProofs.
Open Scope N_scope.

(* every id assigned by the numbering fits in 32 bits and the result is strictly ascending:
   the increment never wraps (an unlabelled field after 2^32-1 is an error, not field 0) *)
Theorem C13_record_numbering : forall ls ids, Forall label_in_range ls -> record_ids ls = Some ids ->
  Forall (fun i => i < 2 ^ 32) ids /\ strictly_ascending None ids = true.
Proof. exact record_ids_range. Qed.

(* the string sub-lexer accepts everything the printer emits (no input of that shape can make it fail) *)
Theorem C13_lexer_accepts_printed : forall s rest, Forall (fun cl => is_scalar (fst cl) = true) s ->
  lex_string (pp_text s ++ rest) = Ok (utf8 (map fst s), rest).
Proof. exact lex_pp_text. Qed.

Example C13_ex_boundary : record_ids [FId 4294967295; FUnnamed] = None /\ record_ids [FId 4294967295] = Some [4294967295].
Proof. vm_compute. split; reflexivity. Qed.

Print Assumptions C13_record_numbering.
Print Assumptions C13_lexer_accepts_printed.
