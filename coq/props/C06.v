(* C06 -- Decoding arbitrary bytes never panics, crashes or over-allocates.
   Panic-freedom of the real code is NOT a theorem: it is established by the fuzz stream only (debug and release, small
   stacks, every corpus type).  What is proved, on the decoder model De.v and for ALL inputs: the header parser and every
   value reader only ever move forward in the input, and under a quota the number of values a decode returns -- hence what it
   materialises -- is bounded by the quota (zero-sized elements included). *)
From Coq Require Import List NArith ZArith.
From CandidV Require Import model.De model.Leb proofs.LebProofs proofs.DeProofs proofs.DeCost.
Open Scope N_scope.

(* the header parser consumes: what it leaves is never longer than what it was given, for every byte string *)
Theorem C06_header_consumes : forall rp mt bs E ts body, dec_header_gen rp mt bs = Ok (E, ts, body) -> shorter body bs.
Proof. exact dec_header_shorter. Qed.

(* so does every value decode, in either visitor, at any expected / wire type pair *)
Theorem C06_value_consumes : forall f E u h lc e w bs l c c' v r,
  fits bs -> de f E u h lc e w bs l c = (c', Ok (v, r)) -> shorter r bs.
Proof. intros f E u h lc e w bs l c c' v r Hf H. apply de_lower in H; [|exact Hf]. destruct H as [_ H]. exact H. Qed.

(* work and materialised data proportional to the quota: under quota q a successful decode returns at most q value nodes,
   and the budget is never overdrawn on the way (also for runs that end in an error) *)
Theorem C06_values_bounded_by_quota : forall mt Ee lc tes bs qd qs c' vs,
  fits bs -> de_message mt Ee lc tes bs (qd, qs) (0, 0) = (c', Ok vs) ->
  match qd with Some q => nodes_list vs <= q | None => True end /\
  match qs with Some q => nodes_list vs <= q | None => True end.
Proof. exact de_message_values_bounded. Qed.
Theorem C06_budget_never_overdrawn : forall mt Ee lc tes bs l c, within l c -> within l (fst (de_message mt Ee lc tes bs l c)).
Proof. intros mt Ee lc tes bs; exact (resp_de_message mt Ee lc tes bs). Qed.

(* over-long and unterminated LEB128 numbers are errors, never a read past the end *)
Theorem C06_unterminated_leb : forall bs, split_leb bs = None -> nat_decode bs = Err EMal.
Proof. exact nat_decode_unterminated. Qed.

(* a vector announcing 1000000 nulls in three bytes stops on a quota of 100000: the count is paid for element by element *)
Example C06_ex_bomb :
  snd (de_message 10000 [] no_names [TVec (TPrim PNull)] [68; 73; 68; 76; 1; 109; 127; 1; 0; 192; 132; 61] (Some 100000, None) (0, 0)) = Err EQuota.
Proof. vm_compute. reflexivity. Qed.

Print Assumptions C06_header_consumes.
Print Assumptions C06_value_consumes.
Print Assumptions C06_values_bounded_by_quota.
Print Assumptions C06_budget_never_overdrawn.
Print Assumptions C06_unterminated_leb.
