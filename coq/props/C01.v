(* C01 -- Native encode/decode round-trip is the identity, whatever ran before.
   What is proved here is the binary-format core that every native round trip goes through; the Rust-type layer (serde
   impls, the derive macro, the thread-local type memo) is tied to it by the correspondence check: the bytes the native
   encoder writes for a decoded value are checked by the model to be a well-formed message of that value at the Rust
   type's Candid type (c01.wf), and native decoding is compared with the specification's decoder (c08.native). *)
From Coq Require Import List NArith ZArith.
From CandidV Require Import model.Leb model.Hash model.Wire model.De proofs.LebProofs proofs.SlebProofs proofs.HashProofs proofs.WireProofs proofs.CoerceProofs proofs.DeFast proofs.DeSpec.
Open Scope N_scope.

(* M^-1 (M v) = v with nothing left unread but the rest: values of every type, any depth *)
Theorem C01_value_roundtrip : forall v E t out f rest,
  has_type E v t = true -> enc_val E v t = Some out -> (vdepth v < f)%nat ->
  dec_val f E t (out ++ rest) = Ok (v, rest).
Proof. exact dec_enc_val. Qed.

(* the same round trip THROUGH THE MODEL OF THE REAL DECODER (De.v: single pass, fast paths for primitive vectors, big numbers
   and blobs, field merge, cost accounting -- compared with IDLDeserialize on values and costs on every run): what M writes
   for v at t, the decoder reads back as v at t, with nothing but the rest left, in either cost mode, for any label spelling *)
Theorem C01_decoder_roundtrip : forall v E t out f rest u lc c,
  wf_env E = true -> ty_closed E t = true ->
  has_type E v t = true -> enc_val E v t = Some out -> (vdepth v < f)%nat ->
  exists c', de f E u HV lc t t (out ++ rest) nolim c = (c', Ok (v, rest)).
Proof. exact de_roundtrip. Qed.

(* the raw little-endian bulk write / read of primitive vectors *)
Theorem C01_little_endian : forall k n, n < 256 ^ N.of_nat k -> le_val (le_bytes k n) = n.
Proof. exact le_val_bytes. Qed.
Theorem C01_little_endian_len : forall k n, length (le_bytes k n) = k.
Proof. exact le_bytes_len. Qed.

(* unbounded numbers *)
Theorem C01_nat_roundtrip : forall n, leb_val (enc_u n) = n /\ terminated (enc_u n) = true.
Proof. intros n; split; [apply enc_u_value|apply enc_u_terminated]. Qed.
Theorem C01_int_roundtrip : forall z, sleb_val (enc_s z) = z /\ terminated (enc_s z) = true.
Proof. intros z; split; [apply enc_s_value|apply enc_s_terminated]. Qed.

(* one field order for the type table and for the values: sorting unique ids gives the strictly ascending order the header
   parser insists on, and an ascending list is left alone *)
Theorem C01_field_order : forall ids, unique_after_sort ids = true -> strictly_ascending None (sort_ids ids) = true.
Proof. exact sorted_unique_is_ascending. Qed.

Example C01_ex : enc_val [] (VRec [(0, VNat 300); (1, VOpt (Some (VText [104; 105])))]) (TRec [(0, TPrim PNat); (1, TOpt (TPrim PText))])
                 = Some [172; 2; 1; 2; 104; 105]
  /\ dec_val 5 [] (TRec [(0, TPrim PNat); (1, TOpt (TPrim PText))]) [172; 2; 1; 2; 104; 105; 9]
     = Ok (VRec [(0, VNat 300); (1, VOpt (Some (VText [104; 105])))], [9]).
Proof. vm_compute. split; reflexivity. Qed.

Print Assumptions C01_value_roundtrip.
Print Assumptions C01_decoder_roundtrip.
Print Assumptions C01_little_endian.
Print Assumptions C01_nat_roundtrip.
Print Assumptions C01_int_roundtrip.
Print Assumptions C01_field_order.
Print Assumptions C01_little_endian_len.
