(* C07 -- Decoding quotas bound the work and never change the result.
   The theorems are about De.v, the single-pass model of rust/candid/src/de.rs (IDLValue and IgnoredAny visitors) that
   threads both cost counters; the correspondence check compares its values AND both costs, exactly, with
   IDLDeserialize on every generated message and quota pair. *)
From Coq Require Import List NArith ZArith.
From CandidV Require Import model.De proofs.DeProofs proofs.DeCost.
Open Scope N_scope.

(* neutral: with any quotas, decoding at expected types either stops on the quota or is -- values, error class and both
   cost counters -- the unmetered run *)
Theorem C07_neutral : forall mt Ee lc tes bs l c,
  snd (de_message mt Ee lc tes bs l c) = Err EQuota \/ de_message mt Ee lc tes bs l c = de_message mt Ee lc tes bs (None, None) c.
Proof. intros; apply quota_neutral; apply mono_de_message. Qed.

(* monotone: any outcome other than the quota error survives raising either quota (in particular: success is monotone) *)
Theorem C07_monotone : forall mt Ee lc tes bs l l' c,
  le_lim l l' -> snd (de_message mt Ee lc tes bs l c) <> Err EQuota -> de_message mt Ee lc tes bs l' c = de_message mt Ee lc tes bs l c.
Proof. intros mt Ee lc tes bs; exact (mono_de_message mt Ee lc tes bs). Qed.

(* the cost reported for a successful decode does not depend on the quotas supplied (nor do the values) *)
Theorem C07_cost_independent : forall mt Ee lc tes bs l l' c c1 c2 vs1 vs2,
  de_message mt Ee lc tes bs l c = (c1, Ok vs1) -> de_message mt Ee lc tes bs l' c = (c2, Ok vs2) -> c1 = c2 /\ vs1 = vs2.
Proof. intros mt Ee lc tes bs; exact (cost_independent _ (mono_de_message mt Ee lc tes bs)). Qed.

(* the same three laws for decoding with no expected types *)
Theorem C07_untyped_laws : forall mt bs, Mono (de_message_untyped mt bs).
Proof. exact mono_de_message_untyped. Qed.

(* and for a single value at any expected/wire pair, in either visitor, typed or skipping *)
Theorem C07_value_laws : forall f E u h lc e w bs, Mono (de f E u h lc e w bs).
Proof. exact mono_de. Qed.

(* lower bound: every value returned has been charged at least 1 on both counters -- vectors of null, reserved or empty
   records are not free *)
Theorem C07_cost_lower : forall mt Ee lc tes bs l c c' vs,
  fits bs -> de_message mt Ee lc tes bs l c = (c', Ok vs) ->
  fst c + nodes_list vs <= fst c' /\ snd c + nodes_list vs <= snd c'.
Proof. exact de_message_lower. Qed.

(* skipped data: a value skipped by the IgnoredAny visitor (surplus argument, surplus field, mismatched option) is charged
   at least its number of nodes to the SKIPPING counter, and at least as much to the decoding counter *)
Theorem C07_skip_charged : forall f E lc tw bs l c c' v r,
  fits bs -> de f E true HI lc tw tw bs l c = (c', Ok (v, r)) ->
  fst c + nodes v <= fst c' /\ snd c + nodes v <= snd c'.
Proof. intros f E lc tw bs l c c' v r Hf H. apply de_lower in H; [|exact Hf]. destruct H as [H _]. exact H. Qed.

(* the budget is never overdrawn, so under quota q a successful decode returned at most q values *)
Theorem C07_values_bounded : forall mt Ee lc tes bs qd qs c' vs,
  fits bs -> de_message mt Ee lc tes bs (qd, qs) (0, 0) = (c', Ok vs) ->
  match qd with Some q => nodes_list vs <= q | None => True end /\
  match qs with Some q => nodes_list vs <= q | None => True end.
Proof. exact de_message_values_bounded. Qed.

(* non-vacuity: vec { null; null; null } at vec null costs 4*9 + 50*(1 + 1 + 3*(3+1)) on the decoding counter and 14 on the
   skipping counter; with one unit less on either quota it stops on the quota *)
Definition msg_ex : list N := [68; 73; 68; 76; 1; 109; 127; 1; 0; 3].
Example C07_ex_cost :
  de_message 10000 [] no_names [TVec (TPrim PNull)] msg_ex (None, None) (0, 0) = ((736, 14), Ok [VVec [VNull; VNull; VNull]]) /\
  snd (de_message 10000 [] no_names [TVec (TPrim PNull)] msg_ex (Some 736, Some 14) (0, 0)) = Ok [VVec [VNull; VNull; VNull]] /\
  snd (de_message 10000 [] no_names [TVec (TPrim PNull)] msg_ex (Some 735, Some 14) (0, 0)) = Err EQuota /\
  snd (de_message 10000 [] no_names [TVec (TPrim PNull)] msg_ex (Some 736, Some 13) (0, 0)) = Err EQuota /\
  fits msg_ex.
Proof. vm_compute. repeat split; reflexivity. Qed.

Print Assumptions C07_neutral.
Print Assumptions C07_monotone.
Print Assumptions C07_cost_independent.
Print Assumptions C07_untyped_laws.
Print Assumptions C07_value_laws.
Print Assumptions C07_cost_lower.
Print Assumptions C07_skip_charged.
Print Assumptions C07_values_bounded.
