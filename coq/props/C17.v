(* C17 -- The generated JavaScript binding denotes the same service interface.
   The denotation itself is decided on every run by executing the generated JavaScript under node against an abstract IDL
   builder and handing the resulting type graph to eq_dec (structural equality, proved correct in C05).  Proved here, on
   the model of bindings/analysis.rs that the correspondence check compares with the implementation: the emission order. *)
From Coq Require Import List NArith.
From CandidV Require Import model.Analysis model.Sub proofs.AnalysisProofs proofs.SubProofs.
Open Scope N_scope.

(* every definition is declared before it is used, or declared recursive first: a name used by the k-th emitted definition is
   one of the k-1 emitted before it, or is in the set emitted as IDL.Rec() ahead of all definitions *)
Theorem C17_declare_before_use : forall E t defs k d b x, chase_actor E t = Some defs ->
  nth_error defs k = Some d -> lookup E d = Some b -> In x (vars b) ->
  In x (firstn k defs) \/ In x (infer_rec E defs).
Proof. exact js_declare_before_use. Qed.

(* the emitted list is closed -- it has every name the main service (and its init arguments) mentions and every name a listed
   definition mentions -- every listed name is bound, and none is emitted twice *)
Theorem C17_closed : forall E t defs, chase_actor E t = Some defs ->
  (forall x, In x (vars t) -> In x defs) /\
  (forall d, In d defs -> exists b, lookup E d = Some b /\ forall x, In x (vars b) -> In x defs) /\
  NoDup defs.
Proof. exact chase_actor_closed. Qed.

(* reserved words never appear as identifiers and two definitions never share one *)
Theorem C17_ident_injective : forall kw a b, js_ident kw a = js_ident kw b -> a = b.
Proof. exact js_ident_injective. Qed.
Theorem C17_ident_not_reserved : forall kw s, (forall k, In k kw -> trim_us k = k) -> mem_name (js_ident kw s) kw = false.
Proof. exact js_ident_not_reserved. Qed.

(* the decision used to compare the JavaScript's type graph with the program is structural equality itself *)
Theorem C17_equality_decided : forall E a b, eq_dec E a b = true <-> TyEq E a b.
Proof. exact eq_dec_correct. Qed.

(* type List = opt record { head : nat; tail : List }; service : { get : () -> (List) } *)
Example C17_ex :
  let E := [([76], TOpt (TRec [(0, TPrim PNat); (1, TVar [76])]))] in
  chase_actor E (TServ [([103], TFunc [] [TVar [76]] [])]) = Some [[76]] /\ infer_rec E [[76]] = [[76]] /\
  js_ident [[99; 108; 97; 115; 115]] [99; 108; 97; 115; 115] = [99; 108; 97; 115; 115; 95] /\
  js_ident [[99; 108; 97; 115; 115]] [99; 108; 97; 115; 115; 95] = [99; 108; 97; 115; 115; 95; 95].
Proof. vm_compute. repeat split; reflexivity. Qed.

Print Assumptions C17_declare_before_use.
Print Assumptions C17_closed.
Print Assumptions C17_ident_injective.
Print Assumptions C17_ident_not_reserved.
Print Assumptions C17_equality_decided.
