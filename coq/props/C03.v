From CandidV Require Import model.Annot.
Theorem C03_placeholder : True. Proof. exact I. Qed.
Print Assumptions C03_placeholder.
