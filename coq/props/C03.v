(* C03 -- Every encoded message is well-formed per the binary format of the spec.
   What the encoders emit is checked on every run by DECODING it with the model's specification-level decoder
   (header grammar with all side conditions + M^-1) and comparing argument types (bisimilarity, [eq_dec]) and values.
   The theorems state that this decoder is the inverse of the spec's M, so "the model decodes it back" means
   "it is the spec's encoding". *)
From Coq Require Import List NArith ZArith.
From CandidV Require Import model.Leb model.Coerce model.Hash proofs.WireProofs proofs.HashProofs proofs.SubProofs proofs.LebProofs proofs.SlebProofs.
Open Scope N_scope.

Theorem C03_value_roundtrip : forall v E t out f rest,
  has_type E v t = true -> enc_val E v t = Some out -> (vdepth v < f)%nat ->
  dec_val f E t (out ++ rest) = Ok (v, rest).
Proof. exact dec_enc_val. Qed.

(* numbers in M are the minimal (S)LEB128 encodings (C09) *)
Theorem C03_nat_is_leb : forall n, terminated (enc_u n) = true /\ leb_val (enc_u n) = n.
Proof. intros n. split; [apply enc_u_terminated|apply enc_u_value]. Qed.
Theorem C03_int_is_sleb : forall z, terminated (enc_s z) = true /\ sleb_val (enc_s z) = z.
Proof. intros z. split; [apply enc_s_terminated|apply enc_s_value]. Qed.

(* field lists accepted by the header parser are exactly the strictly ascending ones (C15) *)
Theorem C03_header_fields_ascending : forall ids, strictly_ascending None ids = true -> unique_after_sort ids = true.
Proof. exact ascending_is_fixed_by_sort. Qed.

(* the type comparison used on decoded tables decides structural equality up to unfolding *)
Theorem C03_type_comparison : forall E a b, eq_dec E a b = true <-> TyEq E a b.
Proof. exact eq_dec_correct. Qed.

Print Assumptions C03_value_roundtrip.
Print Assumptions C03_nat_is_leb.
Print Assumptions C03_int_is_sleb.
Print Assumptions C03_header_fields_ascending.
Print Assumptions C03_type_comparison.
