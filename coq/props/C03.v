(* C03 -- Every encoded message is well-formed per the binary format of the spec.
   What the encoders emit is checked on every run by DECODING it with the model's specification-level decoder
   (header grammar with all side conditions + M^-1) and comparing argument types (bisimilarity, [eq_dec]) and values.
   The theorems state that this decoder is the inverse of the spec's M, so "the model decodes it back" means
   "it is the spec's encoding". *)
From Coq Require Import List NArith ZArith.
From CandidV Require Import model.Leb model.Coerce model.Hash model.TypeSer proofs.TyProofs proofs.TypeSerProofs proofs.TypeSerNodes proofs.WireProofs proofs.HashProofs proofs.SubProofs proofs.LebProofs proofs.SlebProofs.
Open Scope N_scope.

Theorem C03_value_roundtrip : forall v E t out f rest,
  has_type E v t = true -> enc_val E v t = Some out -> (vdepth v < f)%nat ->
  dec_val f E t (out ++ rest) = Ok (v, rest).
Proof. exact dec_enc_val. Qed.

(* numbers in M are the minimal (S)LEB128 encodings (C09) *)
Theorem C03_nat_is_leb : forall n, terminated (enc_u n) = true /\ leb_val (enc_u n) = n.
Proof. intros n. split; [apply enc_u_terminated|apply enc_u_value]. Qed.
Theorem C03_int_is_sleb : forall z, terminated (enc_s z) = true /\ sleb_val (enc_s z) = z.
Proof. intros z. split; [apply enc_s_terminated|apply enc_s_value]. Qed.

(* field lists accepted by the header parser are exactly the strictly ascending ones (C15) *)
Theorem C03_header_fields_ascending : forall ids, strictly_ascending None ids = true -> unique_after_sort ids = true.
Proof. exact ascending_is_fixed_by_sort. Qed.

(* the type comparison used on decoded tables decides structural equality up to unfolding *)
Theorem C03_type_comparison : forall E a b, eq_dec E a b = true <-> TyEq E a b.
Proof. exact eq_dec_correct. Qed.

(* The encoder's type-table builder AS IT IS (model/TypeSer.v mirrors TypeSerialize::build_type / encode / serialize and is
   compared byte for byte with to_bytes_with_types on every run, op m.c03.encode).  For every environment and argument
   list on which it succeeds -- any sharing, any recursion, any order of definitions:
   the map and the table stay consistent (every index below the table length, every slot reserved for exactly one key
   and filled with the entry of that key's type, nothing left under construction) ... *)
Theorem C03_table_invariant : forall E f ts s,
  build_all f E ([], []) ts = Some s -> Inv E s [] /\ Forall (referable E s) ts.
Proof. exact build_all_inv. Qed.

(* ... and the header it writes is read back by the specification's header grammar, consuming exactly the header:
   a table of [n] entries, each of them a COMPOSITE type (opt, vec, record, variant, func, service; never a primitive,
   never a future type) whose references are primitive codes or indices below [n], followed by one such reference
   per argument.  (Hypotheses, all on the INPUT: the numeric limits of the grammar -- ids below 2^32, counts below 2^64,
   valid UTF-8 method names, at most one mode -- for the sub-terms of the argument types and definitions.) *)
Theorem C03_header_reads : forall E ts h,
  enc_header E ts = Some h ->
  (forall a, In a (nodes E ts) -> wf_ser a) ->
  (Z.of_nat (length (nodes E ts)) < 2 ^ 63)%Z ->
  lenN ts < 2 ^ 64 ->
  exists n es rs,
    length es = n /\ Forall (entry_ok n) es /\ length rs = length ts /\ Forall (idx_ok n) rs /\ forall rest, read_header_raw (h ++ rest) = Ok (es, rs, rest).
Proof. exact enc_header_reads_closed. Qed.

(* every key of the builder's map is a node of the input, and the table is no longer than the node list *)
Theorem C03_table_within_input : forall E ts s,
  build_all (build_fuel E ts) E ([], []) ts = Some s -> keys_in (nodes E ts) s /\ (len s <= length (nodes E ts))%nat.
Proof.
  intros E ts s H. split; [exact (build_all_keys E ts s H)|].
  exact (table_len_le_nodes E ts s (proj1 (build_all_inv _ _ _ _ H)) (build_all_keys E ts s H)).
Qed.

(* non-vacuity: a recursive list type behind two aliases, a function and a service that share it; the header the model
   writes is accepted by the complete header parser (with all its side conditions) and the argument types read back are
   equal, up to unfolding, to the ones given *)
Example C03_header_ex :
  let E := [([108], TOpt (TRec [(0, TPrim PNat); (1, TVar [108])])); ([97], TVar [108]); ([98], TVar [97]);
            ([102], TFunc [TVar [98]; TVec (TVar [108])] [TVar [97]] [1]); ([115], TServ [([103], TVar [102])])] in
  let ts := [TVar [98]; TVar [115]; TVec (TVar [108]); TVar [108]] in
  match enc_header E ts with
  | Some h => match dec_header_raw 10000 (magic ++ h ++ [7; 7]) with
              | Ok (Ew, tws, rest) => list_eqb N.eqb rest [7; 7] && forallb (fun p => eq_dec (Ew ++ E) (fst p) (snd p)) (combine tws ts)
                                      && Nat.eqb (length tws) (length ts)
              | _ => false end
  | None => false
  end = true.
Proof. vm_compute. reflexivity. Qed.

Print Assumptions C03_value_roundtrip.
Print Assumptions C03_nat_is_leb.
Print Assumptions C03_int_is_sleb.
Print Assumptions C03_header_fields_ascending.
Print Assumptions C03_type_comparison.
Print Assumptions C03_table_invariant.
Print Assumptions C03_header_reads.
Print Assumptions C03_table_within_input.
