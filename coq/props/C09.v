(* C09 -- Unbounded and 128-bit integer codecs implement (S)LEB128 exactly.
   Property theorems only; each is closed by [exact lemma]. *)
From Coq Require Import List NArith ZArith.
From CandidV Require Import model.Leb proofs.LebProofs proofs.SlebProofs.
Open Scope N_scope.

(* ---- decoders: every terminated string, minimal or padded, of ANY length ---- *)
Theorem C09_nat_decode_any_length : forall bs rest,
  terminated bs = true -> nat_decode (bs ++ rest) = Ok (leb_val bs, rest).
Proof. exact nat_decode_spec. Qed.

Theorem C09_nat_decode_unterminated : forall bs, split_leb bs = None -> nat_decode bs = Err EMal.
Proof. exact nat_decode_unterminated. Qed.

(* the typed deserializer path: 9-byte fast path, else rewind and Nat::decode; nat read at int *)
Theorem C09_de_nat_fast_path : forall bs rest,
  terminated bs = true -> de_nat (bs ++ rest) = Ok (leb_val bs, rest).
Proof. exact de_nat_spec. Qed.
Theorem C09_de_int_of_nat : forall bs rest,
  terminated bs = true -> de_int_of_nat (bs ++ rest) = Ok (Z.of_N (leb_val bs), rest).
Proof. exact de_int_of_nat_spec. Qed.

(* u128: accepts exactly the strings whose value is below 2^128, in debug and release alike, never Panic *)
Theorem C09_dec_u128 : forall m bs rest,
  terminated bs = true ->
  decode_nat128 m (bs ++ rest) = if leb_val bs <? 2 ^ 128 then Ok (leb_val bs, rest) else Err EOther.
Proof. exact decode_nat128_spec. Qed.
Theorem C09_dec_u128_unterminated : forall m bs, split_leb bs = None -> decode_nat128 m bs = Err EMal.
Proof. exact decode_nat128_unterminated. Qed.

(* ---- encoders: minimal LEB128 of the value ---- *)
Theorem C09_enc_u_value : forall n, leb_val (enc_u n) = n.
Proof. exact enc_u_value. Qed.
Theorem C09_enc_u_terminated : forall n, terminated (enc_u n) = true.
Proof. exact enc_u_terminated. Qed.
Theorem C09_enc_u_minimal : forall bs, bs <> [] -> (length (enc_u (leb_val bs)) <= length bs)%nat.
Proof. exact enc_u_minimal. Qed.
Theorem C09_nat_encode : forall v, nat_encode v = enc_u v.
Proof. exact nat_encode_is_enc_u. Qed.
Theorem C09_u64_encode : forall v, v < 2 ^ 64 -> write_unsigned64 v = enc_u v.
Proof. exact write_unsigned64_is_enc_u. Qed.
Theorem C09_u128_encode : forall v, v < 2 ^ 128 -> encode_nat128 v = enc_u v.
Proof. exact encode_nat128_is_enc_u. Qed.


(* ---- signed side ---- *)
Theorem C09_int_decode_any_length : forall bs rest,
  terminated bs = true -> int_decode (bs ++ rest) = Ok (sleb_val bs, rest).
Proof. exact int_decode_spec. Qed.
Theorem C09_int_decode_unterminated : forall bs, split_leb bs = None -> int_decode bs = Err EMal.
Proof. exact int_decode_unterminated. Qed.
Theorem C09_de_int_fast_path : forall bs rest,
  terminated bs = true -> de_int (bs ++ rest) = Ok (sleb_val bs, rest).
Proof. exact de_int_spec. Qed.
(* i128: accepts exactly the strings whose value is in [-2^127, 2^127), in both build modes, never Panic *)
Theorem C09_dec_i128 : forall m bs rest,
  terminated bs = true ->
  decode_int128 m (bs ++ rest) = if in_i128 (sleb_val bs) then Ok (sleb_val bs, rest) else Err EOther.
Proof. exact decode_int128_spec. Qed.
Theorem C09_dec_i128_unterminated : forall m bs, split_leb bs = None -> decode_int128 m bs = Err EMal.
Proof. exact decode_int128_unterminated. Qed.
Theorem C09_enc_s_value : forall z, sleb_val (enc_s z) = z.
Proof. exact enc_s_value. Qed.
Theorem C09_enc_s_terminated : forall z, terminated (enc_s z) = true.
Proof. exact enc_s_terminated. Qed.
Theorem C09_enc_s_minimal : forall bs, terminated bs = true -> (length (enc_s (sleb_val bs)) <= length bs)%nat.
Proof. exact enc_s_minimal. Qed.
Theorem C09_i64_encode : forall v, (- 2 ^ 63 <= v < 2 ^ 63)%Z -> write_signed64 v = enc_s v.
Proof. exact write_signed64_is_enc_s. Qed.
Theorem C09_i128_encode : forall v, (- 2 ^ 127 <= v < 2 ^ 127)%Z -> encode_int128 v = enc_s v.
Proof. exact encode_int128_is_enc_s. Qed.
(* Int::encode above 64 bits (bit repacking of to_signed_bytes_le) is NOT proved equal to enc_s:
   it is tied to the specification only by the differential run (ops m.c09.enc_int / c09.enc_int). *)
Example C09_ex_int_big : int_encode (2 ^ 70)%Z = enc_s (2 ^ 70)%Z /\ int_encode (- 2 ^ 100 - 5)%Z = enc_s (- 2 ^ 100 - 5)%Z.
Proof. vm_compute. split; reflexivity. Qed.
Example C09_ex_i128_edge : decode_int128 Debug (repeat 128 18 ++ [126]) = Ok ((- 2 ^ 127)%Z, [])
                        /\ decode_int128 Debug (repeat 255 18 ++ [1]) = Ok ((2 ^ 127 - 1)%Z, [])
                        /\ decode_int128 Debug (repeat 128 18 ++ [2]) = Err EOther.
Proof. vm_compute. repeat split; reflexivity. Qed.

(* non-vacuity: padded 2^128 (19 bytes) and the pinned-tree witnesses *)
Example C09_ex_pad : terminated (repeat 128 18 ++ [4]) = true /\ leb_val (repeat 128 18 ++ [4]) = 2 ^ 128.
Proof. vm_compute. split; reflexivity. Qed.
Example C09_ex_u128_rejects : decode_nat128 Debug (repeat 128 18 ++ [4]) = Err EOther
                           /\ decode_nat128 Debug (repeat 128 19 ++ [0]) = Ok (0, []).
Proof. vm_compute. split; reflexivity. Qed.

Print Assumptions C09_nat_decode_any_length.
Print Assumptions C09_nat_decode_unterminated.
Print Assumptions C09_de_nat_fast_path.
Print Assumptions C09_de_int_of_nat.
Print Assumptions C09_dec_u128.
Print Assumptions C09_dec_u128_unterminated.
Print Assumptions C09_enc_u_value.
Print Assumptions C09_enc_u_terminated.
Print Assumptions C09_enc_u_minimal.
Print Assumptions C09_nat_encode.
Print Assumptions C09_u64_encode.
Print Assumptions C09_u128_encode.
Print Assumptions C09_int_decode_any_length.
Print Assumptions C09_int_decode_unterminated.
Print Assumptions C09_de_int_fast_path.
Print Assumptions C09_dec_i128.
Print Assumptions C09_dec_i128_unterminated.
Print Assumptions C09_enc_s_value.
Print Assumptions C09_enc_s_terminated.
Print Assumptions C09_enc_s_minimal.
Print Assumptions C09_i64_encode.
Print Assumptions C09_i128_encode.
