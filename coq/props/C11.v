(* C11 -- Printing a value as Candid text and parsing it back returns the same value (character level).
   The value-level statement (printer token stream vs grammar) is checked on the implementation by a direct
   predicate; the theorems here cover what the predicate can only sample: EVERY Unicode scalar in text, field
   and method names, EVERY byte in blobs, numbers of ANY size. *)
From Coq Require Import List NArith.
From CandidV Require Import model.Text proofs.TextProofs.
Open Scope N_scope.

(* text literals: for every list of scalars, whichever scalars the printer decides to write literally or as
   \u{..} escapes (the [bool] next to each scalar: Unicode tables), the lexer returns exactly its UTF-8 bytes *)
Theorem C11_string : forall s rest, Forall (fun cl => is_scalar (fst cl) = true) s ->
  lex_string (pp_text s ++ rest) = Ok (utf8 (map fst s), rest).
Proof. exact lex_pp_text. Qed.

(* blobs: every byte string, through both branches of the printer *)
Theorem C11_blob : forall bs rest, Forall (fun b => b < 256) bs -> lex_string (pp_blob bs ++ rest) = Ok (bs, rest).
Proof. exact lex_pp_blob. Qed.

(* numbers: digit grouping with '_' is undone by the lexer, for digit strings of any length *)
Theorem C11_number : forall ds, Forall (fun d => d <> 95) ds -> strip_underscores (pp_num_str ds) = ds.
Proof. exact strip_pp_num. Qed.

(* non-vacuity: NUL followed by 'a' (the repaired defect), quotes, backslash, a non-BMP scalar; a quoted keyword *)
Example C11_ex : lex_string (pp_text [(0, false); (97, true); (34, false); (92, false); (128512, true); (1114111, false)])
                 = Ok ([0; 97; 34; 92; 240; 159; 152; 128; 244; 143; 191; 191], []).
Proof. vm_compute. reflexivity. Qed.
Example C11_ex_keyword : ident_string [(111, true); (112, true); (116, true)] = [34; 111; 112; 116; 34]   (* opt -> "opt" *)
                      /\ ident_string [(97, true); (95, true); (49, true)] = [97; 95; 49].                  (* a_1 bare *)
Proof. vm_compute. split; reflexivity. Qed.

Print Assumptions C11_string.
Print Assumptions C11_blob.
Print Assumptions C11_number.
