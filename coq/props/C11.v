From CandidV Require Import model.Text.
Theorem C11_placeholder : True. Proof. exact I. Qed.
Print Assumptions C11_placeholder.
