(* C05 -- Subtype and upgrade checks decide the spec relation, independent of order.
   [Sub] is the greatest relation closed under ONE rule function ([rule], transcribed from spec/Candid.md);
   [sub_dec] is the executable oracle used by the correspondence run against
   subtype / subtype_with_config / subtype_check_all / service_compatible / service_compatibility_report. *)
From Coq Require Import List NArith.
From CandidV Require Import model.Sub model.Memo proofs.SubProofs proofs.MemoProofs proofs.MemoInst proofs.MemoTotal.
Open Scope N_scope.

(* the oracle decides the co-inductive relation, for every environment and every pair of types (no bound) *)
Theorem C05_dec_correct : forall E a b, sub_dec E a b = true <-> Sub E a b.
Proof. exact sub_dec_correct. Qed.

(* the faster procedure used inside the decoder model (reachable pairs only) decides the same relation *)
Theorem C05_dec_fast_correct : forall E a b, sub_dec_fast E a b = true <-> Sub E a b.
Proof. exact sub_dec_fast_correct. Qed.

Theorem C05_eq_dec_correct : forall E a b, eq_dec E a b = true <-> TyEq E a b.
Proof. exact eq_dec_correct. Qed.

Theorem C05_refl : forall E a, Sub E a a.
Proof. exact sub_refl. Qed.

Theorem C05_eq_refl : forall E a, TyEq E a a.
Proof. exact tyeq_refl. Qed.

(* the relation is closed under the rules: every member is justified by one rule application from members *)
Theorem C05_closed_under_rules : forall E a b,
  Sub E a b -> exists S : pair -> bool, (forall q, S q = true -> Sub E (fst q) (snd q)) /\ stepb E S (a, b) = true.
Proof. exact sub_unfold. Qed.

(* rule applications are monotone in their premises, and the answer only depends on premises among the
   sub-term pairs of the environment and the two types: so the answer cannot depend on anything else
   (memo contents, earlier queries, order of definitions) as long as the code agrees with [sub_dec] *)
Theorem C05_rule_monotone : forall E (S S' : pair -> bool) p,
  (forall q, S q = true -> S' q = true) -> stepb E S p = true -> stepb E S' p = true.
Proof. exact stepb_mono. Qed.

(* ---- the implementation's own algorithm (Memo.v mirrors subtype_ / equal_impl with gamma, trail and forget_since) ----
   HISTORIES: whatever was asked before on the same gamma -- successful checks, failed checks, probes of the special
   opt rule that failed half-way -- every answer along the history is the oracle's, and gamma only ever holds pairs of
   the relation.  (answered = no call ran out of fuel [the stack guard, not modelled] or met an unbound name.) *)
Theorem C05_memo_history : forall E f qs g,
  sound_memo E g ->
  let o := sub_history E false f g qs in
  forallb answered (snd o) = true ->
  Forall2 (fun q r => (r = MOk <-> sub_dec E (fst q) (snd q) = true)) qs (snd o) /\ sound_memo E (fst o).
Proof. exact sub_history_correct. Qed.

Theorem C05_memo_equal_history : forall E f qs g,
  sound_eq_memo E g ->
  let o := eq_history E f g qs in
  forallb answered (snd o) = true ->
  Forall2 (fun q r => (r = MOk <-> eq_dec E (fst q) (snd q) = true)) qs (snd o) /\ sound_eq_memo E (fst o).
Proof. exact eq_history_correct. Qed.

(* OptReport::Error only ever answers yes inside the relation (it is stricter by design) *)
Theorem C05_memo_strict_sound : forall E f g a b,
  sound_memo E g -> snd (query plan_sub E true f g a b) = MOk -> Sub E a b.
Proof. exact sub_query_strict_sound. Qed.

(* TOTAL CORRECTNESS of the algorithm (no hypothesis about fuel or panics): when every name among the sub-term nodes of
   the environment and of the types asked about is bound, a history run with at least [fuel_bound] levels of nesting
   answers every query, each answer is the oracle's -- yes exactly for the pairs of the relation, no exactly for the
   others -- and gamma stays sound.  [fuel_bound] = 1 + |N x N| * (2 * largest node + 2) + 2 * largest node: the calls in
   progress that unfold a name are distinct node pairs that were not in gamma, and between two of them the structural
   arms only descend into strictly smaller types. *)
Theorem C05_memo_total_correct : forall E qs g f,
  bound_nodes E (query_types qs) = true -> sound_memo E g -> (fuel_bound E qs <= f)%nat ->
  let o := sub_history E false f g qs in
  Forall2 (fun q r => (r = MOk <-> sub_dec E (fst q) (snd q) = true) /\ (r = MErr <-> sub_dec E (fst q) (snd q) = false)) qs (snd o)
  /\ sound_memo E (fst o).
Proof. exact sub_checker_total_correct. Qed.

Theorem C05_memo_equal_total_correct : forall E qs g f,
  bound_nodes E (query_types qs) = true -> sound_eq_memo E g -> (fuel_bound E qs <= f)%nat ->
  let o := eq_history E f g qs in
  Forall2 (fun q r => (r = MOk <-> eq_dec E (fst q) (snd q) = true) /\ (r = MErr <-> eq_dec E (fst q) (snd q) = false)) qs (snd o)
  /\ sound_eq_memo E (fst o).
Proof. exact eq_checker_total_correct. Qed.

Theorem C05_memo_strict_total : forall E qs g f,
  bound_nodes E (query_types qs) = true -> (fuel_bound E qs <= f)%nat ->
  forallb answered (snd (sub_history E true f g qs)) = true.
Proof. exact strict_checker_total. Qed.

(* non-vacuity: the stale-memo environment has all names bound *)
Example C05_ex_bound :
  let E := [ ([78], TRec [(108, TVar [77]); (120, TPrim PNat)]); ([77], TRec [(110, TVar [78])]);
             ([78;50], TRec [(108, TVar [77;50]); (120, TPrim PText)]); ([77;50], TRec [(110, TVar [78;50])]) ] in
  bound_nodes E (query_types [(TVar [77], TVar [77;50]); (TOpt (TVar [78]), TOpt (TVar [78;50]))]) = true.
Proof. vm_compute. reflexivity. Qed.

(* non-vacuity: the stale-memo history (a failed opt probe followed by the query it must not have poisoned) runs to its
   end in the mirror and answers no / no / yes(opt rule) / no / no *)
Example C05_ex_memo_history :
  let E := [ ([78], TRec [(108, TVar [77]); (120, TPrim PNat)]); ([77], TRec [(110, TVar [78])]);
             ([78;50], TRec [(108, TVar [77;50]); (120, TPrim PText)]); ([77;50], TRec [(110, TVar [78;50])]) ] in
  snd (sub_history E false 200 []
        [ (TRec [(112, TOpt (TVar [78])); (113, TVar [77])], TRec [(112, TOpt (TVar [78;50])); (113, TVar [77;50])]);
          (TRec [(113, TVar [77])], TRec [(113, TVar [77;50])]);
          (TOpt (TVar [78]), TOpt (TVar [78;50]));
          (TVar [77], TVar [77;50]) ])
  = [MErr; MErr; MOk; MErr].
Proof. vm_compute. reflexivity. Qed.

(* FULL STATEMENT (property text): forall E a b c, Sub E a b -> Sub E b c -> Sub E a c.
   It is FALSE of the specification's own rule set; the witness is replayed on the implementation
   (known finding, known_findings.txt): *)
Theorem C05_trans_refuted :
  Sub [] cex_a cex_b /\ Sub [] cex_b cex_c /\ ~ Sub [] cex_a cex_c.
Proof. exact sub_trans_refuted. Qed.

(* non-vacuity: a recursive environment; nat lists are subtypes of int lists in both directions (opt rule) *)
Example C05_ex_lists :
  let E := [([76], TOpt (TRec [(0, TPrim PNat); (1, TVar [76])])); ([75], TOpt (TRec [(0, TPrim PInt); (1, TVar [75])]))] in
  Sub E (TVar [76]) (TVar [75]) /\ Sub E (TVar [75]) (TVar [76]).
Proof. split; apply sub_dec_correct; vm_compute; reflexivity. Qed.
(* the stale-memo witness: the correct answer is "no" *)
Example C05_ex_memo_witness :
  let E := [ ([78], TRec [(108, TVar [77]); (120, TPrim PNat)]); ([77], TRec [(110, TVar [78])]);
             ([78;50], TRec [(108, TVar [77;50]); (120, TPrim PText)]); ([77;50], TRec [(110, TVar [78;50])]) ] in
  ~ Sub E (TRec [(112, TOpt (TVar [78])); (113, TVar [77])]) (TRec [(112, TOpt (TVar [78;50])); (113, TVar [77;50])]).
Proof. intros E H. apply sub_dec_correct in H. vm_compute in H. discriminate. Qed.

Print Assumptions C05_dec_correct.
Print Assumptions C05_dec_fast_correct.
Print Assumptions C05_eq_dec_correct.
Print Assumptions C05_refl.
Print Assumptions C05_eq_refl.
Print Assumptions C05_closed_under_rules.
Print Assumptions C05_rule_monotone.
Print Assumptions C05_trans_refuted.
Print Assumptions C05_memo_history.
Print Assumptions C05_memo_equal_history.
Print Assumptions C05_memo_strict_sound.
Print Assumptions C05_memo_total_correct.
Print Assumptions C05_memo_equal_total_correct.
Print Assumptions C05_memo_strict_total.
