(* C05 -- placeholder while the proofs are being written; replaced below in this session. *)
From CandidV Require Import model.Sub.
Theorem C05_placeholder : True. Proof. exact I. Qed.
Print Assumptions C05_placeholder.
