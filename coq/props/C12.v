(* C12 -- Printing an interface as .did text and re-checking it yields an equal interface.
   The program-level round trip (both printers) is a direct predicate on the implementation; the theorems cover the
   token level that the predicate can only sample: every label, method name and definition name the printers emit
   (bare identifier or quoted string, for EVERY name) lexes back to itself, and the structural equality used to
   compare original and re-checked interfaces is decided correctly. *)
From Coq Require Import List NArith.
From CandidV Require Import model.Text model.Sub proofs.TextProofs proofs.SubProofs.
Open Scope N_scope.

(* a name that needs quoting is printed as a string literal that lexes back to exactly that name *)
Theorem C12_label_tokens : forall s rest, Forall (fun cl => is_scalar (fst cl) = true) s ->
  needs_quote (map fst s) = true -> lex_string (ident_string s ++ rest) = Ok (utf8 (map fst s), rest).
Proof. intros s rest H Hq. unfold ident_string. rewrite Hq. apply lex_pp_text. exact H. Qed.

(* a name printed bare is an ASCII identifier and not a keyword *)
Theorem C12_bare_names : forall s, needs_quote (map fst s) = false ->
  ident_string s = map fst s /\ is_valid_as_id (map fst s) = true /\ existsb (list_eqb N.eqb (map fst s)) keywords = false.
Proof.
  intros s H. unfold ident_string. rewrite H. unfold needs_quote in H. apply orb_false_iff in H as [H1 H2].
  apply negb_false_iff in H1. auto.
Qed.

(* the comparison of original and re-checked interface decides structural equality up to unfolding *)
Theorem C12_equality_decided : forall E a b, eq_dec E a b = true <-> TyEq E a b.
Proof. exact eq_dec_correct. Qed.

Print Assumptions C12_label_tokens.
Print Assumptions C12_bare_names.
Print Assumptions C12_equality_decided.
