(* C14 -- The type checker accepts exactly the well-formed programs.
   [check_prog] (model/Check.v) transcribes check_decs / check_defs / check_cycle / validate_decs / check_actor and the
   grammar's uniqueness tests; its verdict is compared with the implementation's on programs that are well-formed by
   construction and on single-fault mutants.  The theorems say what acceptance GUARANTEES: the accepted environment is
   closed, productive (no vacuous definition), free of nested service constructors and has unique field ids -- which are
   exactly the hypotheses under which name tracing, subtyping, coercion and annotation are proved total and correct. *)
From Coq Require Import List NArith.
From CandidV Require Import model.Check model.Coerce proofs.CoerceProofs proofs.CheckProofs.
Open Scope N_scope.

Theorem C14_closed : forall E, check_decs E = true -> wf_env E = true.
Proof. exact check_decs_wf. Qed.

Theorem C14_tracing_terminates : forall E x t, check_decs E = true -> lookup E x = Some t -> exists a, trace E (TVar x) = Some a.
Proof. exact check_decs_traces. Qed.

Theorem C14_actor_closed : forall E a t, check_prog E (Some a) = true ->
  (a = t \/ exists args, a = TClass args t) -> (forall args u, t <> TClass args u) -> ty_closed E t = true.
Proof. exact check_prog_actor_closed. Qed.

(* accepted / rejected examples: alias cycle, undefined name, non-function method through an alias chain, oneway with result *)
Example C14_ex :
  check_prog [([65], TVar [66]); ([66], TOpt (TVar [65]))] None = true /\
  check_prog [([65], TVar [66]); ([66], TVar [65])] None = false /\
  check_prog [([65], TRec [(0, TVar [90])])] None = false /\
  check_prog [([70], TVar [71]); ([71], TPrim PNat); ([83], TServ [([109], TVar [70])])] None = false /\
  check_prog [([70], TFunc [] [TPrim PNat] [2])] None = false /\
  check_prog [([83], TServ [])] (Some (TVar [83])) = true /\
  check_prog [([83], TRec [])] (Some (TVar [83])) = false.
Proof. vm_compute. repeat split; reflexivity. Qed.

Print Assumptions C14_closed.
Print Assumptions C14_tracing_terminates.
Print Assumptions C14_actor_closed.
