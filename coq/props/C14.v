(* C14 -- The type checker accepts exactly the well-formed programs.
   [check_prog] (model/Check.v) transcribes check_decs / check_defs / check_cycle / validate_decs / check_actor and the
   grammar's uniqueness tests; its verdict is compared with the implementation's on programs that are well-formed by
   construction and on single-fault mutants.  The theorems say what acceptance GUARANTEES: the accepted environment is
   closed, productive (no vacuous definition), free of nested service constructors and has unique field ids -- which are
   exactly the hypotheses under which name tracing, subtyping, coercion and annotation are proved total and correct. *)
From Coq Require Import List NArith.
From CandidV Require Import model.Check model.Coerce model.Memo proofs.CoerceProofs proofs.CheckProofs proofs.MemoProofs proofs.MemoInst proofs.MemoTotal proofs.MemoBridge.
Open Scope N_scope.

Theorem C14_closed : forall E, check_decs E = true -> wf_env E = true.
Proof. exact check_decs_wf. Qed.

Theorem C14_tracing_terminates : forall E x t, check_decs E = true -> lookup E x = Some t -> exists a, trace E (TVar x) = Some a.
Proof. exact check_decs_traces. Qed.

Theorem C14_actor_closed : forall E a t, check_prog E (Some a) = true ->
  (a = t \/ exists args, a = TClass args t) -> (forall args u, t <> TClass args u) -> ty_closed E t = true.
Proof. exact check_prog_actor_closed. Qed.

(* "... so name tracing, subtyping ... on it terminate without panicking": on an environment the checker accepts, and for
   types it accepts against that environment, the memoising subtype checker as it is (Memo.v) answers every query of every
   history within [fuel_bound] levels of nesting, never meets an unbound name, and every answer is the oracle's *)
Theorem C14_subtyping_total : forall E qs g f,
  check_decs E = true ->
  forallb (fun q => check_type E (fst q) && check_type E (snd q)) qs = true ->
  sound_memo E g -> (fuel_bound E qs <= f)%nat ->
  let o := sub_history E false f g qs in
  Forall2 (fun q r => (r = MOk <-> sub_dec E (fst q) (snd q) = true) /\ (r = MErr <-> sub_dec E (fst q) (snd q) = false)) qs (snd o)
  /\ sound_memo E (fst o).
Proof. exact accepted_env_subtyping_total. Qed.

Theorem C14_nodes_bound : forall E ts,
  wf_env E = true -> productive E = true -> forallb (ty_closed E) ts = true -> bound_nodes E ts = true.
Proof. exact bound_nodes_of_closed. Qed.

(* accepted / rejected examples: alias cycle, undefined name, non-function method through an alias chain, oneway with result *)
Example C14_ex :
  check_prog [([65], TVar [66]); ([66], TOpt (TVar [65]))] None = true /\
  check_prog [([65], TVar [66]); ([66], TVar [65])] None = false /\
  check_prog [([65], TRec [(0, TVar [90])])] None = false /\
  check_prog [([70], TVar [71]); ([71], TPrim PNat); ([83], TServ [([109], TVar [70])])] None = false /\
  check_prog [([70], TFunc [] [TPrim PNat] [2])] None = false /\
  check_prog [([83], TServ [])] (Some (TVar [83])) = true /\
  check_prog [([83], TRec [])] (Some (TVar [83])) = false.
Proof. vm_compute. repeat split; reflexivity. Qed.

Print Assumptions C14_closed.
Print Assumptions C14_tracing_terminates.
Print Assumptions C14_actor_closed.
Print Assumptions C14_subtyping_total.
Print Assumptions C14_nodes_bound.
