(* C16 -- Principal text form is a checksummed bijection on 0..29-byte ids. *)
From Coq Require Import List NArith.
From CandidV Require Import Consts model.Principal proofs.PrincipalProofs.
Open Scope N_scope.

(* base32 (value-level model of data-encoding BASE32_NOPAD): decode . encode = id on byte strings *)
Theorem C16_base32_roundtrip : forall bs, bytes_ok bs = true -> b32_decode (b32_encode bs) = Some bs.
Proof. exact b32_roundtrip. Qed.

(* text -> principal -> text and back: every principal of at most MAX_LENGTH_IN_BYTES (read from the source) bytes *)
Theorem C16_to_from : forall bs, bytes_ok bs = true -> (length bs <= max_len)%nat -> from_text (to_text bs) = inl bs.
Proof. exact to_from_text. Qed.

(* every accepted text is, up to letter case, exactly the canonical text of the principal returned,
   and that principal has at most 29 bytes: wrong checksum, wrong grouping, invalid characters and
   over-long payloads are therefore all rejected *)
Theorem C16_canonical : forall s bs, from_text s = inl bs -> map lower s = to_text bs /\ (length bs <= max_len)%nat.
Proof. exact from_text_sound. Qed.

(* conversely every text that is canonical up to case is accepted: the characterisation is exact *)
Theorem C16_accepts : forall s bs,
  bytes_ok bs = true -> (length bs <= max_len)%nat -> map lower s = to_text bs -> from_text s = inl bs.
Proof. exact from_text_complete. Qed.

Theorem C16_one_principal_per_text : forall s1 s2 b1 b2,
  from_text s1 = inl b1 -> from_text s2 = inl b2 -> map lower s1 = map lower s2 -> b1 = b2.
Proof. exact from_text_injective. Qed.

(* shape of the canonical text: lower-case base32 of CRC32 (big endian) followed by the bytes, in groups of five *)
Theorem C16_shape : forall bs, to_text bs = dash5 (map lower (b32_encode (be32 (crc32 bs) ++ bs))).
Proof. reflexivity. Qed.

Theorem C16_slice_limit : forall bs, try_from_slice bs = if (length bs <=? 29)%nat then inl bs else inr PBytesTooLong.
Proof. exact try_from_slice_spec. Qed.

Example C16_ex_anonymous : to_text [4] = [50;118;120;115;120;45;102;97;101] /\ from_text [50;86;120;115;120;45;102;97;101] = inl [4].
Proof. vm_compute. split; reflexivity. Qed.
Example C16_ex_rejects :
  from_text [50;118;120;115;120;102;97;101] = inr PAbnormalGrouped          (* "2vxsxfae": dash missing *)
  /\ from_text [50;118;120;115;121;45;102;97;101] = inr PCheckSequence.      (* one character changed *)
Proof. vm_compute. split; reflexivity. Qed.

Print Assumptions C16_base32_roundtrip.
Print Assumptions C16_to_from.
Print Assumptions C16_canonical.
Print Assumptions C16_accepts.
Print Assumptions C16_one_principal_per_text.
Print Assumptions C16_shape.
Print Assumptions C16_slice_limit.
