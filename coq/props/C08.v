(* C08 -- Native decoding agrees with untyped decoding at the same Candid type.
   The specialised paths are the same code for native and untyped visitors (deserialize_seq / deserialize_blob /
   PrimitiveVecAccess); the theorems are about their model in De.v.  Agreement of the native visitors themselves with the
   specification's decoder is the correspondence check (c08.native) and the predicate p.c08.agree. *)
From Coq Require Import List NArith ZArith.
From CandidV Require Import model.De proofs.DeFast proofs.CoerceProofs.
Open Scope N_scope.

(* the bulk path for primitive vectors is taken only for EQUAL fixed-width element types, and returns exactly what decoding
   the elements one by one returns (values and remaining input; the paths differ only in what they charge) *)
Theorem C08_primitive_vector_path : forall f E u h lc e w p, exact_prim e w = Some p ->
  forall n bs c,
  snd (rep n (fun bs => dom _ <- add_cost u 3; de (S f) E u h lc e w bs) bs nolim c) = read_n (read_prim p) n bs.
Proof. exact prim_vec_fast_is_generic. Qed.
Theorem C08_primitive_vector_guard : forall e w p, exact_prim e w = Some p -> e = TPrim p /\ w = TPrim p /\ fixed p = true.
Proof. exact exact_prim_same. Qed.

(* the big-number path is taken only at (nat,nat), (int,int), (int,nat) and reads each element as the generic path does *)
Theorem C08_bignum_path : forall f E u h lc e w b, big_fast e w = Some b ->
  forall bs c,
  snd (de (S f) E u h lc e w bs nolim c) = snd ((match b with BNat => de_nat u | _ => de_int u w end) bs nolim c).
Proof. exact big_fast_is_generic. Qed.

(* the blob path: one bulk read of n bytes is n reads of a nat8 *)
Theorem C08_blob_path : forall n bs, (n <= length bs)%nat ->
  read_n (read_prim PNat8) n bs = Ok (map (VNatN 8) (firstn n bs), skipn n bs).
Proof. exact blob_is_elementwise. Qed.

(* what is decoded at an expected type has that type *)
Theorem C08_result_welltyped : forall E, wf_env E = true -> forall f v t t',
  ty_closed E t' = true -> has_type E v t = true -> good E t' (coerce f E v t t').
Proof. exact coerce_typed. Qed.

Example C08_ex_guard :
  exact_prim (TPrim PNat8) (TPrim PNat8) = Some PNat8 /\ exact_prim (TPrim PNat8) (TPrim PNat) = None /\
  exact_prim (TPrim PText) (TPrim PText) = None /\ exact_prim (TVar [65]) (TPrim PNat8) = None /\
  big_fast (TPrim PNat) (TPrim PInt) = None /\ big_fast (TPrim PInt) (TPrim PNat) = Some BNatAsInt.
Proof. vm_compute. repeat split; reflexivity. Qed.

Print Assumptions C08_primitive_vector_path.
Print Assumptions C08_primitive_vector_guard.
Print Assumptions C08_bignum_path.
Print Assumptions C08_blob_path.
Print Assumptions C08_result_welltyped.
