(* C10 -- Untyped values survive annotate, encode and decode at their type. *)
From Coq Require Import List NArith ZArith.
From CandidV Require Import model.Annot proofs.WireProofs proofs.CoerceProofs proofs.AnnotProofs.
Open Scope N_scope.

(* annotation keeps every inhabitant unchanged, in both modes (from_parser = true / false) *)
Theorem C10_annotate_id : forall E p v t,
  wf_env E = true -> ty_closed E t = true -> has_type E v t = true -> annotate_top p E v t = Some v.
Proof. exact annotate_top_id. Qed.

(* encode at t then decode at t: M^-1 (M v) = v *)
Theorem C10_encode_decode : forall v E t out f rest,
  has_type E v t = true -> enc_val E v t = Some out -> (vdepth v < f)%nat ->
  dec_val f E t (out ++ rest) = Ok (v, rest).
Proof. exact dec_enc_val. Qed.

(* decoding at the same expected type does not change the value's coercibility *)
Theorem C10_coerce_same_type : forall E, wf_env E = true -> forall f v t t' a,
  trace E t = Some a -> trace E t' = Some a -> ty_closed E a = true -> has_type E v t = true -> okf (coerce f E v t t').
Proof. exact coerce_same. Qed.

(* near misses are rejected by the strict mode: a nat16 at nat8, a missing non-optional field, an unknown tag *)
Example C10_ex_rejects :
  annotate_top true [] (VNatN 16 5) (TPrim PNat8) = None /\
  annotate_top true [] (VRec []) (TRec [(0, TPrim PNat)]) = None /\
  annotate_top true [] (VVariant 3 VNull) (TVariant [(0, TPrim PNull)]) = None /\
  annotate_top true [] (VNat 5) (TPrim PInt) = Some (VInt 5).
Proof. vm_compute. repeat split; reflexivity. Qed.

Print Assumptions C10_annotate_id.
Print Assumptions C10_encode_decode.
Print Assumptions C10_coerce_same_type.
