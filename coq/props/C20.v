(* C20 -- Randomly generated arguments always inhabit the requested types.
   random::any itself (arbitrary's Unstructured, the fake crate, the configuration tree) is not modelled: every value it returns
   in the check is handed to the model's has_type, and these theorems say what being an inhabitant buys -- for ALL values, not
   the generated ones only: it annotates unchanged in both modes, and what it encodes to decodes back to it. *)
From Coq Require Import List NArith ZArith.
From CandidV Require Import model.Annot proofs.WireProofs proofs.CoerceProofs proofs.AnnotProofs.
Open Scope N_scope.

Theorem C20_inhabitant_annotates_unchanged : forall E p v t,
  wf_env E = true -> ty_closed E t = true -> has_type E v t = true -> annotate_top p E v t = Some v.
Proof. exact annotate_top_id. Qed.

Theorem C20_inhabitant_roundtrips : forall v E t out f rest,
  has_type E v t = true -> enc_val E v t = Some out -> (vdepth v < f)%nat ->
  dec_val f E t (out ++ rest) = Ok (v, rest).
Proof. exact dec_enc_val. Qed.

(* has_type is not vacuous and not trivially true: width, range and tag are checked *)
Example C20_ex :
  has_type [] (VVec [VNatN 8 255; VNatN 8 0]) (TVec (TPrim PNat8)) = true /\
  has_type [] (VNatN 8 256) (TPrim PNat8) = false /\
  has_type [] (VVariant 7 VNull) (TVariant [(1, TPrim PNull)]) = false /\
  has_type [([76], TOpt (TRec [(0, TVar [76])]))] (VOpt (Some (VRec [(0, VOpt None)]))) (TVar [76]) = true.
Proof. vm_compute. repeat split; reflexivity. Qed.

Print Assumptions C20_inhabitant_annotates_unchanged.
Print Assumptions C20_inhabitant_roundtrips.
