(* C18 -- The generated Rust binding defines types with the same Candid meaning.
   Whether rustc accepts the generated text and what the derive macro computes for it are facts about the Rust toolchain: the
   check compiles every generated binding and runs it.  What is proved is the decision applied to the result: the Candid type
   each emitted item reports is compared with the source definition by eq_dec, which decides structural (co-inductive)
   equality for every environment and pair of types. *)
From Coq Require Import List NArith.
From CandidV Require Import model.Sub proofs.SubProofs.
Open Scope N_scope.

Theorem C18_equality_decided : forall E a b, eq_dec E a b = true <-> TyEq E a b.
Proof. exact eq_dec_correct. Qed.

Theorem C18_equality_reflexive : forall E t, TyEq E t t.
Proof. exact tyeq_refl. Qed.

(* a renamed, unrolled recursive type is equal; a field id that differs is not *)
Example C18_ex :
  let E := [([76], TOpt (TRec [(0, TPrim PNat); (1, TVar [76])])); ([75], TRec [(0, TPrim PNat); (1, TOpt (TVar [75]))])] in
  eq_dec E (TVar [76]) (TOpt (TVar [75])) = true /\
  eq_dec [] (TRec [(2, TPrim PNat)]) (TRec [(4735500, TPrim PNat)]) = false.
Proof. vm_compute. split; reflexivity. Qed.

Print Assumptions C18_equality_decided.
Print Assumptions C18_equality_reflexive.
