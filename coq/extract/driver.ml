(* model_runner: line server for the extracted Coq model.
   stdin:  id \t op \t arg...      stdout:  id \t result
   Hand-written glue (trusted): s-expression reader, N/Z <-> decimal via Zarith, hex, dispatch. *)
module ZA = Z
open Model

(* ---------- numbers ---------- *)
let rec pos_of_z (z : ZA.t) : positive =
  if ZA.equal z ZA.one then XH
  else if ZA.testbit z 0 then XI (pos_of_z (ZA.shift_right z 1))
  else XO (pos_of_z (ZA.shift_right z 1))
let n_of_z (z : ZA.t) : n = if ZA.sign z = 0 then N0 else Npos (pos_of_z z)
let rec z_of_pos (p : positive) : ZA.t =
  match p with XH -> ZA.one | XO q -> ZA.shift_left (z_of_pos q) 1 | XI q -> ZA.succ (ZA.shift_left (z_of_pos q) 1)
let z_of_n (x : n) : ZA.t = match x with N0 -> ZA.zero | Npos p -> z_of_pos p
let cz_of_z (z : ZA.t) : Model.z =
  if ZA.sign z = 0 then Z0 else if ZA.sign z > 0 then Zpos (pos_of_z z) else Zneg (pos_of_z (ZA.neg z))
let z_of_cz (x : Model.z) : ZA.t = match x with Z0 -> ZA.zero | Zpos p -> z_of_pos p | Zneg p -> ZA.neg (z_of_pos p)
let n_of_string s = n_of_z (ZA.of_string s)
let string_of_n x = ZA.to_string (z_of_n x)
let n_of_int i = n_of_z (ZA.of_int i)
let int_of_n x = ZA.to_int (z_of_n x)
let rec nat_of_int i = if i <= 0 then O else S (nat_of_int (i - 1))

(* ---------- hex ---------- *)
let unhex (s : string) : n list =
  if s = "-" then [] else begin
    let l = String.length s / 2 in
    List.init l (fun i -> n_of_int (int_of_string ("0x" ^ String.sub s (2 * i) 2)))
  end
let hex (bs : n list) : string =
  if bs = [] then "-" else String.concat "" (List.map (fun b -> Printf.sprintf "%02x" (int_of_n b)) bs)

(* ---------- s-expressions ---------- *)
type sx = A of string | L of sx list
let tokenize (s : string) : string list =
  let b = Buffer.create 16 and out = ref [] in
  let flush () = if Buffer.length b > 0 then (out := Buffer.contents b :: !out; Buffer.clear b) in
  String.iter (fun c ->
    match c with
    | '(' | ')' -> flush (); out := String.make 1 c :: !out
    | ' ' | '\t' | '\n' -> flush ()
    | c -> Buffer.add_char b c) s;
  flush (); List.rev !out
let parse_sx (s : string) : sx =
  let rec go toks = match toks with
    | "(" :: r -> let (items, r') = go_list r [] in (L items, r')
    | a :: r -> (A a, r)
    | [] -> failwith "sexp: eof"
  and go_list toks acc = match toks with
    | ")" :: r -> (List.rev acc, r)
    | _ -> let (x, r) = go toks in go_list r (x :: acc)
  in
  let (x, r) = go (tokenize s) in
  if r <> [] then failwith "sexp: trailing"; x
let atom = function A s -> s | L _ -> failwith "atom expected"
let items = function L l -> l | A _ -> failwith "list expected"
let head = function A s -> s | L (A s :: _) -> s | _ -> failwith "head"
let args = function A _ -> [] | L (_ :: r) -> r | L [] -> []

let ok_ids (ids : n list) = if ids = [] then "(ok)" else "(ok " ^ String.concat " " (List.map string_of_n ids) ^ ")"
let b01 b = if b then "1" else "0"

(* ---------- C15 ---------- *)
let label_of (s : sx) : label =
  match head s, args s with
  | "id", [x] -> LId (n_of_string (atom x))
  | "unnamed", [x] -> LUnnamed (n_of_string (atom x))
  | "named", [x] -> LNamed (unhex (atom x))
  | _ -> failwith "label"
let labels_of s = List.map label_of (items (parse_sx s))

let gid (l : label) : n = match l with LNamed s -> hash_spec s | l -> get_id l
let c15 op a =
  match op, a with
  | "c15.hash", [h] ->
      let bs = unhex h in
      (* the oracle is the specification's polynomial; that the code's two copies (constants read from
         the sources) equal it is theorem C15_hash_spec / C15_copies_agree *)
      string_of_n (hash_spec bs)
  | "c15.label", [x; y] ->
      let x = label_of (parse_sx x) and y = label_of (parse_sx y) in
      let c = match N.compare (gid x) (gid y) with Lt -> "lt" | Eq -> "eq" | Gt -> "gt" in
      Printf.sprintf "%s %s %s %s" (string_of_n (gid x)) (b01 (gid x = gid y)) c (b01 (gid x = gid y))
  | ("c15.did_record" | "c15.did_variant" | "c15.val_record"), [ls] ->
      let ids = List.map gid (labels_of ls) in
      if unique_after_sort ids then ok_ids (sort_ids ids) else "(err)"
  | "c15.header_record", [ids] ->
      let ids = List.map (fun x -> n_of_string (atom x)) (items (parse_sx ids)) in
      if strictly_ascending None ids then ok_ids ids else "(err)"
  | "c15.header_variant", [ids] ->
      let ids = List.map (fun x -> n_of_string (atom x)) (items (parse_sx ids)) in
      if strictly_ascending None ids then ok_ids [List.hd ids] else "(err)"
  | "c15.derive", [_; ls] ->
      let ids = List.map gid (labels_of ls) in
      if unique_after_sort ids then ok_ids (sort_ids ids) else "(err)"
  | "c15.macro", [i] ->
      let nm s = LNamed (List.init (String.length s) (fun k -> n_of_int (Char.code s.[k]))) in
      let id s = LId (n_of_string s) in
      let ls = match int_of_string i with
        | 0 -> [nm "zebra"; nm "apple"; id "5"]
        | 1 -> [nm "b"; nm "a"; id "4294967295"]
        | 2 -> [nm "kviccgm"; nm "jmst"]
        | 3 -> [nm "_nvs"; nm "ayadrnc"]
        | 4 -> [nm "a"; id "97"]
        | 5 -> [nm "inovv"; id "3189572266"; nm "zz"]
        | _ -> [nm "b"; id "98"; nm "c"] in
      let ids = List.map gid ls in
      if unique_after_sort ids then ok_ids (sort_ids ids) else "(err)"
  | _ -> "(unknown-op " ^ op ^ ")"



(* ---------- types and environments ---------- *)
let name_of_hex h : n list = unhex h
let prim_of = function
  | "null" -> PNull | "bool" -> PBool | "nat" -> PNat | "int" -> PInt | "nat8" -> PNat8 | "nat16" -> PNat16
  | "nat32" -> PNat32 | "nat64" -> PNat64 | "int8" -> PInt8 | "int16" -> PInt16 | "int32" -> PInt32 | "int64" -> PInt64
  | "float32" -> PFloat32 | "float64" -> PFloat64 | "text" -> PText | "reserved" -> PReserved | "empty" -> PEmpty
  | "principal" -> PPrincipal | s -> failwith ("prim " ^ s)
let rec ty_of (s : sx) : ty =
  match s with
  | A "future" -> TFuture
  | A a -> TPrim (prim_of a)
  | L _ ->
    let fields l = List.map (fun f -> match f with L [i; t] -> (n_of_string (atom i), ty_of t) | _ -> failwith "field") l in
    (match head s, args s with
     | "var", [x] -> TVar (name_of_hex (atom x))
     | "opt", [t] -> TOpt (ty_of t)
     | "vec", [t] -> TVec (ty_of t)
     | "rec", fs -> TRec (fields fs)
     | "variant", fs -> TVariant (fields fs)
     | "func", [a; r; m] -> TFunc (List.map ty_of (items a), List.map ty_of (items r), List.map (fun x -> n_of_string (atom x)) (items m))
     | "serv", ms -> TServ (List.map (fun f -> match f with L [i; t] -> (name_of_hex (atom i), ty_of t) | _ -> failwith "meth") ms)
     | "class", [a; t] -> TClass (List.map ty_of (items a), ty_of t)
     | h, _ -> failwith ("type head " ^ h))
let env_of (s : string) : (n list * ty) list =
  List.map (fun d -> match d with L [x; t] -> (name_of_hex (atom x), ty_of t) | _ -> failwith "env") (items (parse_sx s))
let rec rename_ty (f : n list -> n list) (t : ty) : ty =
  match t with
  | TPrim _ | TFuture -> t
  | TVar x -> TVar (f x)
  | TOpt t -> TOpt (rename_ty f t)
  | TVec t -> TVec (rename_ty f t)
  | TRec fs -> TRec (List.map (fun (i, t) -> (i, rename_ty f t)) fs)
  | TVariant fs -> TVariant (List.map (fun (i, t) -> (i, rename_ty f t)) fs)
  | TFunc (a, r, m) -> TFunc (List.map (rename_ty f) a, List.map (rename_ty f) r, m)
  | TServ ms -> TServ (List.map (fun (i, t) -> (i, rename_ty f t)) ms)
  | TClass (a, t) -> TClass (List.map (rename_ty f) a, rename_ty f t)

(* ---------- C05 ---------- *)
let c05 op a =
  match op, a with
  | ("c05.sub" | "c05.sub_warn" | "c05.checkall"), [e; x; y] ->
      let env = env_of e and x = ty_of (parse_sx x) and y = ty_of (parse_sx y) in
      let r = sub_dec_fast env x y in
      (* both procedures are proved to decide Sub; evaluating both here is a consistency check of the extraction *)
      if op = "c05.sub" && r <> sub_dec env x y then "(model-inconsistent)" else b01 r
  | "c05.equal", [e; x; y] -> b01 (eq_dec (env_of e) (ty_of (parse_sx x)) (ty_of (parse_sx y)))
  | ("c05.seq" | "c05.seq_equal" | "c05.seq_checkall"), [e; qs] ->
      let env = env_of e in
      String.concat "" (List.map (fun q -> match q with
        | L [x; y] -> b01 ((if op = "c05.seq_equal" then eq_dec else sub_dec_fast) env (ty_of x) (ty_of y))
        | _ -> failwith "query") (items (parse_sx qs)))
  | ("c05.compat" | "c05.compat_report" | "c05.service_equal"), [e1; a1; e2; a2] ->
      (* merge_type: the second environment's names are made disjoint from the first one's *)
      let f x = x @ [n_of_int 47; n_of_int 49] in
      let env2 = List.map (fun (x, t) -> (f x, rename_ty f t)) (env_of e2) in
      let env = env_of e1 @ env2 in
      let t1 = ty_of (parse_sx a1) and t2 = rename_ty f (ty_of (parse_sx a2)) in
      b01 ((if op = "c05.service_equal" then eq_dec else sub_dec_fast) env t1 t2)
  | _ -> "(unknown-op " ^ op ^ ")"

(* ---------- C09 ---------- *)
let z_of_string s = cz_of_z (ZA.of_string s)
let string_of_cz x = ZA.to_string (z_of_cz x)
let two128 = ZA.shift_left ZA.one 128
let two127 = ZA.shift_left ZA.one 127
type dres = DOk of ZA.t * n list | DErr | DPanic
(* specification-level decoders: first terminated prefix, its mathematical value, range test *)
let spec_dec (op : string) (bs : n list) : dres =
  match split_leb bs with
  | None -> DErr
  | Some (p, rest) ->
    (match op with
     | "nat" -> DOk (z_of_n (leb_val p), rest)
     | "int" -> DOk (z_of_cz (sleb_val p), rest)
     | "u128" -> let v = z_of_n (leb_val p) in if ZA.lt v two128 then DOk (v, rest) else DErr
     | "i128" -> let v = z_of_cz (sleb_val p) in if ZA.geq v (ZA.neg two127) && ZA.lt v two127 then DOk (v, rest) else DErr
     | _ -> failwith "spec_dec")
let of_res_n (r : (n * n list) res) = match r with Ok (v, rest) -> DOk (z_of_n v, rest) | Err _ -> DErr | Panic -> DPanic | OutOfFuel -> failwith "fuel"
let of_res_z (r : (Model.z * n list) res) = match r with Ok (v, rest) -> DOk (z_of_cz v, rest) | Err _ -> DErr | Panic -> DPanic | OutOfFuel -> failwith "fuel"
let mirror_dec (op : string) (bs : n list) : dres =
  match op with
  | "nat_decode" -> of_res_n (nat_decode bs)
  | "int_decode" -> of_res_z (int_decode bs)
  | "dec_u128" -> of_res_n (decode_nat128 Debug bs)
  | "dec_i128" -> of_res_z (decode_int128 Debug bs)
  | "msg_nat" -> of_res_n (de_nat bs)
  | "msg_int" -> of_res_z (de_int bs)
  | "msg_int_nat" -> of_res_z (de_int_of_nat bs)
  | _ -> failwith "mirror_dec"
let show_direct = function DOk (v, rest) -> Printf.sprintf "(ok %s %d)" (ZA.to_string v) (List.length rest) | DErr -> "(err)" | DPanic -> "(panic)"
let show_msg = function DOk (v, []) -> Printf.sprintf "(ok %s)" (ZA.to_string v) | DOk _ -> "(err)" | DErr -> "(err)" | DPanic -> "(panic)"
let spec_kind = function
  | "c09.nat_decode" | "c09.msg_nat" | "c09.msg_int_nat" | "c09.msg_val_nat" -> "nat"
  | "c09.int_decode" | "c09.msg_int" | "c09.msg_val_int" -> "int"
  | "c09.dec_u128" | "c09.msg_u128" -> "u128"
  | "c09.dec_i128" | "c09.msg_i128" -> "i128"
  | _ -> failwith "spec_kind"
let p61 = ZA.pred (ZA.shift_left ZA.one 61)
let m1000003 = ZA.of_int 1000003
let rec seq_dec kind (ps : n list list) acc =
  match ps with
  | [] -> Some (List.rev acc)
  | p :: r -> (match spec_dec kind p with DOk (v, []) -> seq_dec kind r (v :: acc) | _ -> None)
let c09 op a =
  match op, a with
  | ("c09.nat_decode" | "c09.int_decode" | "c09.dec_u128" | "c09.dec_i128"), [h] -> show_direct (spec_dec (spec_kind op) (unhex h))
  | ("c09.msg_nat" | "c09.msg_int" | "c09.msg_int_nat" | "c09.msg_u128" | "c09.msg_i128" | "c09.msg_val_nat" | "c09.msg_val_int"), [h] ->
      show_msg (spec_dec (spec_kind op) (unhex h))
  | ("m.c09.nat_decode" | "m.c09.int_decode" | "m.c09.dec_u128" | "m.c09.dec_i128"), [h] ->
      show_direct (mirror_dec (String.sub op 6 (String.length op - 6)) (unhex h))
  | ("m.c09.msg_nat" | "m.c09.msg_int" | "m.c09.msg_int_nat"), [h] ->
      show_msg (mirror_dec (String.sub op 6 (String.length op - 6)) (unhex h))
  | "c09.sweep3", [dop; b0] ->
      let kind = spec_kind dop and b0 = n_of_int (int_of_string b0) in
      let acc = ref ZA.zero in
      for b1 = 0 to 255 do for b2 = 0 to 255 do
        let code = match spec_dec kind [b0; n_of_int b1; n_of_int b2] with
          | DOk (v, rest) -> let vm = ZA.erem v m1000003 in ZA.add (ZA.mul vm (ZA.of_int 4)) (ZA.of_int (List.length rest + 1))
          | _ -> ZA.zero in
        acc := ZA.erem (ZA.add (ZA.mul !acc m1000003) code) p61
      done done;
      ZA.to_string !acc
  | ("c09.msg_vec_nat" | "c09.msg_vec_int" | "c09.msg_vec_int_nat" | "c09.msg_map_int"), [ps] ->
      let ps = List.map (fun x -> unhex (atom x)) (items (parse_sx ps)) in
      let kind = if op = "c09.msg_vec_nat" || op = "c09.msg_vec_int_nat" then "nat" else "int" in
      (match seq_dec kind ps [] with
       | Some vs -> "(ok" ^ String.concat "" (List.map (fun v -> " " ^ ZA.to_string v) vs) ^ ")"
       | None -> "(err)")
  | ("c09.enc_nat" | "c09.enc_u128" | "c09.enc_msg_nat" | "c09.enc_val_nat"), [d] -> hex (enc_u (n_of_string d))
  | ("c09.enc_int" | "c09.enc_i128" | "c09.enc_msg_int" | "c09.enc_val_int"), [d] -> hex (enc_s (z_of_string d))
  | "m.c09.enc_nat", [d] -> hex (nat_encode (n_of_string d))
  | "m.c09.enc_int", [d] -> hex (int_encode (z_of_string d))
  | _ -> "(unknown-op " ^ op ^ ")"


(* ---------- C16 ---------- *)
let perr_s = function
  | PInvalidBase32 -> "invalid-base32" | PTextTooShort -> "too-short" | PTextTooLong -> "too-long"
  | PCheckSequence -> "crc" | PAbnormalGrouped -> "grouping" | PBytesTooLong -> "bytes-too-long"
let c16 op a =
  match op, a with
  | "c16.to_text", [h] ->
      (match try_from_slice (unhex h) with Inl bs -> "(ok " ^ hex (to_text bs) ^ ")" | Inr e -> "(err " ^ perr_s e ^ ")")
  | "c16.from_text", [h] ->
      (match from_text (unhex h) with Inl bs -> "(ok " ^ hex bs ^ ")" | Inr e -> "(err " ^ perr_s e ^ ")")
  | "c16.try_from_slice", [h] ->
      (match try_from_slice (unhex h) with Inl bs -> "(ok " ^ hex bs ^ ")" | Inr e -> "(err " ^ perr_s e ^ ")")
  | "c16.wire", [h] ->
      (match try_from_slice (unhex h) with Inl bs -> "(ok " ^ hex bs ^ ")" | Inr _ -> "(err)")
  | _ -> "(unknown-op " ^ op ^ ")"


(* ---------- values ---------- *)
let rec sx_of_ty (t : ty) : string =
  let l ts = String.concat " " (List.map sx_of_ty ts) in
  match t with
  | TPrim p -> (match p with
      | PNull -> "null" | PBool -> "bool" | PNat -> "nat" | PInt -> "int" | PNat8 -> "nat8" | PNat16 -> "nat16"
      | PNat32 -> "nat32" | PNat64 -> "nat64" | PInt8 -> "int8" | PInt16 -> "int16" | PInt32 -> "int32" | PInt64 -> "int64"
      | PFloat32 -> "float32" | PFloat64 -> "float64" | PText -> "text" | PReserved -> "reserved" | PEmpty -> "empty"
      | PPrincipal -> "principal")
  | TVar x -> "(var " ^ hex x ^ ")"
  | TOpt t -> "(opt " ^ sx_of_ty t ^ ")"
  | TVec t -> "(vec " ^ sx_of_ty t ^ ")"
  | TRec fs -> "(rec" ^ String.concat "" (List.map (fun (i, t) -> " (" ^ string_of_n i ^ " " ^ sx_of_ty t ^ ")") fs) ^ ")"
  | TVariant fs -> "(variant" ^ String.concat "" (List.map (fun (i, t) -> " (" ^ string_of_n i ^ " " ^ sx_of_ty t ^ ")") fs) ^ ")"
  | TFunc (a, r, m) -> "(func (" ^ l a ^ ") (" ^ l r ^ ") (" ^ String.concat " " (List.map string_of_n m) ^ "))"
  | TServ ms -> "(serv" ^ String.concat "" (List.map (fun (i, t) -> " (" ^ hex i ^ " " ^ sx_of_ty t ^ ")") ms) ^ ")"
  | TClass (a, t) -> "(class (" ^ l a ^ ") " ^ sx_of_ty t ^ ")"
  | TFuture -> "future"
(* ---------- C05: the memoising checkers as they are (mirror model Memo.v) ----------
   m.c05.memo <env> <silence|error|equal> <queries>: one answer per query (1 / 0 / P panic / F fuel), the history stops at
   the first P or F; then the final contents of gamma, sorted *)
let c05memo a =
  match a with
  | [e; mode; qs] ->
      let env = env_of e in
      let qs = List.map (fun q -> match q with L [x; y] -> (ty_of x, ty_of y) | _ -> failwith "query") (items (parse_sx qs)) in
      let fuel = nat_of_int 4000 in
      let (planf, strict) = match mode with "equal" -> (plan_eq, false) | "error" -> (plan_sub, true) | _ -> (plan_sub, false) in
      let rec go g qs acc = match qs with
        | [] -> (Some g, List.rev acc)
        | (x, y) :: r ->
            let (g', res) = query planf env strict fuel g x y in
            (match res with
             | MOk -> go g' r ("1" :: acc) | MErr -> go g' r ("0" :: acc)
             | MPanic -> (None, List.rev ("P" :: acc)) | MFuel -> (None, List.rev ("F" :: acc))) in
      let (g, rs) = go [] qs [] in
      let ans = String.concat "" rs in
      (match g with
       | None -> ans
       | Some g ->
           (* [history] is the function the theorems are about: it must agree with the fold above *)
           let (g2, rs2) = history planf env strict fuel [] qs in
           let rs2 = String.concat "" (List.map (fun r -> match r with MOk -> "1" | MErr -> "0" | MPanic -> "P" | MFuel -> "F") rs2) in
           if rs2 <> ans || g2 <> g then "(model-inconsistent)" else
           let ps = List.sort compare (List.map (fun (x, y) -> "(" ^ sx_of_ty x ^ " " ^ sx_of_ty y ^ ")") g) in
           ans ^ " | " ^ String.concat " " ps)
  | _ -> "(unknown-op m.c05.memo)"

let rec sx_of_val (v : val0) : string =
  match v with
  | VNull -> "null" | VReserved -> "reserved"
  | VBool b -> "(bool " ^ b01 b ^ ")"
  | VNat n -> "(nat " ^ string_of_n n ^ ")"
  | VInt z -> "(int " ^ string_of_cz z ^ ")"
  | VNatN (b, n) -> "(n" ^ string_of_n b ^ " " ^ string_of_n n ^ ")"
  | VIntN (b, z) -> "(i" ^ string_of_n b ^ " " ^ string_of_cz z ^ ")"
  | VFloat (b, x) -> "(f" ^ string_of_n b ^ " " ^ string_of_n x ^ ")"
  | VText bs -> "(text " ^ hex bs ^ ")"
  | VOpt None -> "none"
  | VOpt (Some w) -> "(some " ^ sx_of_val w ^ ")"
  | VVec vs -> "(vec" ^ String.concat "" (List.map (fun w -> " " ^ sx_of_val w) vs) ^ ")"
  | VRec fs -> "(rec" ^ String.concat "" (List.map (fun (i, w) -> " (" ^ string_of_n i ^ " " ^ sx_of_val w ^ ")") fs) ^ ")"
  | VVariant (i, w) -> "(variant " ^ string_of_n i ^ " " ^ sx_of_val w ^ ")"
  | VPrincipal b -> "(principal " ^ hex b ^ ")"
  | VService b -> "(service " ^ hex b ^ ")"
  | VFunc (b, m) -> "(func " ^ hex b ^ " " ^ hex m ^ ")"
let rec val_of (s : sx) : val0 =
  match s with
  | A "null" -> VNull | A "reserved" -> VReserved | A "none" -> VOpt None
  | A a -> failwith ("val atom " ^ a)
  | L _ ->
    (match head s, args s with
     | "bool", [x] -> VBool (atom x = "1")
     | "nat", [x] -> VNat (n_of_string (atom x))
     | "int", [x] -> VInt (z_of_string (atom x))
     | ("n8" | "n16" | "n32" | "n64"), [x] -> VNatN (n_of_string (String.sub (head s) 1 (String.length (head s) - 1)), n_of_string (atom x))
     | ("i8" | "i16" | "i32" | "i64"), [x] -> VIntN (n_of_string (String.sub (head s) 1 (String.length (head s) - 1)), z_of_string (atom x))
     | "f32", [x] -> VFloat (n_of_int 32, n_of_string (atom x))
     | "f64", [x] -> VFloat (n_of_int 64, n_of_string (atom x))
     | "text", [x] -> VText (unhex (atom x))
     | "some", [x] -> VOpt (Some (val_of x))
     | "vec", xs -> VVec (List.map val_of xs)
     | "rec", fs -> VRec (List.map (fun f -> match f with L [i; x] -> (n_of_string (atom i), val_of x) | _ -> failwith "field") fs)
     | "variant", [i; x] -> VVariant (n_of_string (atom i), val_of x)
     | "principal", [x] -> VPrincipal (unhex (atom x))
     | "service", [x] -> VService (unhex (atom x))
     | "func", [x; m] -> VFunc (unhex (atom x), unhex (atom m))
     | h, _ -> failwith ("val head " ^ h))
let show_vals (vs : val0 list) = if vs = [] then "(ok)" else "(ok " ^ String.concat " " (List.map sx_of_val vs) ^ ")"
let sx_of_env (e : (n list * ty) list) = "(" ^ String.concat " " (List.map (fun (x, t) -> "(" ^ hex x ^ " " ^ sx_of_ty t ^ ")") e) ^ ")"
let tys_of (s : string) : ty list = List.map ty_of (items (parse_sx s))

(* ---------- C02 ---------- *)
let c02 op a =
  match op, a with
  | "c02.decode", [e; ts; h] ->
      (match spec_decode (env_of e) (tys_of ts) (unhex h) with
       | Ok vs -> show_vals vs | Err _ -> "(err)" | Panic -> "(panic)" | OutOfFuel -> "(skip)")
  | "c02.decode_untyped", [h] ->
      (match spec_decode_untyped (unhex h) with
       | Ok ((_, _), vs) -> show_vals vs | Err _ -> "(err)" | Panic -> "(panic)" | OutOfFuel -> "(skip)")
  | "c02.header", [h] ->
      (match dec_header (n_of_int 10000) (unhex h) with
       | Ok ((e, ts), rest) -> Printf.sprintf "(ok %s (%s) %d)" (sx_of_env e) (String.concat " " (List.map sx_of_ty ts)) (List.length rest)
       | Err _ -> "(err)" | Panic -> "(panic)" | OutOfFuel -> "(skip)")
  | _ -> "(unknown-op " ^ op ^ ")"


(* ---------- C03 / C04 / C10 ---------- *)
let vals_of (s : string) : val0 list = List.map val_of (items (parse_sx s))
let c03 op a =
  match op, a with
  | ("c03.wf" | "c03.wf.rev"), [e; ts; vs; b] ->
      let env = env_of e and ts = tys_of ts and vs = vals_of vs in
      (* typed encoding = annotate (strict) then encode; it needs at least as many values as types *)
      let nts = List.length ts in
      if List.length vs < nts then (if b = "err" then "(err)" else "(encoder-accepted-too-few-values)") else
      let vs' = List.filteri (fun i _ -> i < nts) vs in
      (match annotate_args true env vs' ts with
       | None -> "(err)"
       | Some expected ->
         if b = "err" then "(ok-expected)" else
         (match spec_decode_untyped_raw (unhex b) with
          | Ok ((ew, tws), got) ->
              if got <> expected then "(bad-values " ^ String.concat " " (List.map sx_of_val got) ^ ")"
              else if List.length tws <> nts then "(bad-arg-count)"
              else if List.for_all2 (fun tw t -> eq_dec (ew @ env) tw t) tws ts then "(ok)" else "(bad-types)"
          | Err _ -> "(model-rejects-message)" | Panic -> "(panic)" | OutOfFuel -> "(skip)"))
  | "m.c03.encode", [e; ts; vs] ->
      (match enc_message (env_of e) (vals_of vs) (tys_of ts) with Some b -> hex b | None -> "(err)")
  | "c03.wf_untyped", [vs; b] ->
      let vs = vals_of vs in
      if b = "err" then "(err)" else
      (match spec_decode_untyped_raw (unhex b) with
       | Ok (_, got) -> if got = vs then "(ok)" else "(bad-values " ^ String.concat " " (List.map sx_of_val got) ^ ")"
       | Err _ -> "(model-rejects-message)" | Panic -> "(panic)" | OutOfFuel -> "(skip)")
  | ("c10.annotate" | "c10.annotate.blob" | "c10.annotate.rev"), [p; e; t; v] ->
      (match annotate_top (p = "1") (env_of e) (val_of (parse_sx v)) (ty_of (parse_sx t)) with
       | Some w -> "(ok " ^ sx_of_val w ^ ")" | None -> "(err)")
  | "c04.sub_implies_coerce", [e; t; t2; v] ->
      let env = env_of e and t = ty_of (parse_sx t) and t2 = ty_of (parse_sx t2) and v = val_of (parse_sx v) in
      if sub_dec_fast env t t2 then
        (match coerce (nat_of_int (4 * (int_of_n (N.of_nat (vsize v))) + 2 * List.length env + 40)) env v t t2 with
         | Ok w -> if has_type env w t2 then "1" else "(coerced-value-ill-typed)"
         | OutOfFuel -> "(skip)" | _ -> "(model: subtype but no coercion)")
      else "0"
  | _ -> "(unknown-op " ^ op ^ ")"


(* ---------- C11 ---------- *)
(* UTF-8 decoding of source text sent by the harness (always valid: it comes from Rust strings) *)
let scalars_of_utf8 (bs : n list) : n list =
  let b = Array.of_list (List.map int_of_n bs) in
  let len = Array.length b in
  let rec go i acc =
    if i >= len then List.rev acc else
    let c = b.(i) in
    if c < 0x80 then go (i + 1) (n_of_int c :: acc)
    else if c < 0xe0 then go (i + 2) (n_of_int (((c land 0x1f) lsl 6) lor (b.(i+1) land 0x3f)) :: acc)
    else if c < 0xf0 then go (i + 3) (n_of_int (((c land 0x0f) lsl 12) lor ((b.(i+1) land 0x3f) lsl 6) lor (b.(i+2) land 0x3f)) :: acc)
    else go (i + 4) (n_of_int (((c land 0x07) lsl 18) lor ((b.(i+1) land 0x3f) lsl 12) lor ((b.(i+2) land 0x3f) lsl 6) lor (b.(i+3) land 0x3f)) :: acc)
  in go 0 []
let flagged (s : string) : (n * bool) list =
  List.map (fun p -> match p with L [c; l] -> (n_of_string (atom c), atom l = "1") | _ -> failwith "scalar") (items (parse_sx s))
let c11 op a =
  match op, a with
  | "c11.print_text", [s] -> hex (utf8 (pp_text (flagged s)))
  | "c11.print_label", [s] -> hex (utf8 (ident_string (flagged s)))
  | ("c11.lex_text" | "c11.lex_blob"), [h] ->
      (match lex_string (scalars_of_utf8 (unhex h)) with
       | Ok (bs, []) -> if op = "c11.lex_blob" || utf8_valid bs then "(ok " ^ hex bs ^ ")" else "(err)"
       | Ok (_, _) -> "(err)"
       | OutOfFuel -> "(skip)" | _ -> "(err)")
  | "c11.print_blob", [h] -> hex (pp_blob (unhex h))
  | "c11.pp_num", [d] -> hex (pp_num_str (List.init (String.length d) (fun i -> n_of_int (Char.code d.[i]))))
  | "c11.lex_num", [h] ->
      let cs = unhex h in
      let isd c = let c = int_of_n c in c >= 48 && c <= 57 in
      (match cs with
       | c :: r when isd c && List.for_all (fun x -> isd x || int_of_n x = 95) r ->
           "(ok " ^ String.concat "" (List.map (fun x -> String.make 1 (Char.chr (int_of_n x))) (strip_underscores cs)) ^ ")"
       | _ -> "(err)")
  | _ -> "(unknown-op " ^ op ^ ")"


(* ---------- C13 / C14 ---------- *)
let c14 op a =
  match op, a with
  | "c14.check", [e; act] ->
      let actor = if act = "-" then None else Some (ty_of (parse_sx act)) in
      b01 (check_prog (env_of e) actor)
  | "c13.record_ids", [ls] ->
      let lab s = match head s, args s with
        | "id", [x] -> FId (n_of_string (atom x))
        | "named", [x] -> FNamed (unhex (atom x))
        | "unnamed", [] -> FUnnamed
        | _ -> failwith "flabel" in
      (match record_ids (List.map lab (items (parse_sx ls))) with
       | Some ids -> "(ok" ^ String.concat "" (List.map (fun i -> " " ^ string_of_n i) ids) ^ ")"
       | None -> "(err)")
  | _ -> "(unknown-op " ^ op ^ ")"


(* ---------- C07 (also the single-pass decoder of C01/C06/C08) ---------- *)
let quota_of s = if s = "-" then None else Some (n_of_string s)
let names_of (s : string) : n -> n option =
  let l = List.map (fun p -> match p with L [i; x] -> (n_of_string (atom i), n_of_int (List.length (unhex (atom x)))) | _ -> failwith "names") (items (parse_sx s)) in
  fun i -> (try Some (List.assoc i l) with Not_found -> None)
let show_de qd qs r =
  match r with
  | ((d, s), Ok vs) ->
      Printf.sprintf "(ok (%s) %s %s)" (String.concat " " (List.map sx_of_val vs))
        (match qd with None -> "-" | Some _ -> string_of_n d) (match qs with None -> "-" | Some _ -> string_of_n s)
  | (_, Err EQuota) -> "(quota)"
  | (_, Err _) -> "(err)"
  | (_, Panic) -> "(panic)"
  | (_, OutOfFuel) -> "(skip)"
let zero = n_of_int 0
let c07 op a =
  match op, a with
  | "c07.decode", [e; ts; nm; h; qd; qs] ->
      let qd = quota_of qd and qs = quota_of qs in
      show_de qd qs (de_message (max_type_table_len) (env_of e) (names_of nm) (tys_of ts) (unhex h) (qd, qs) (zero, zero))
  | "c07.decode_untyped", [h; qd; qs] ->
      let qd = quota_of qd and qs = quota_of qs in
      show_de qd qs (de_message_untyped (max_type_table_len) (unhex h) (qd, qs) (zero, zero))
  | _ -> "(unknown-op " ^ op ^ ")"

(* ---------- C01 / C08: the native corpus against the same oracles (the Rust type name is ignored here) ---------- *)
let c01 op a =
  match op, a with
  | "c08.native", [_; e; ts; h] -> c02 "c02.decode" [e; ts; h]
  | "c01.wf", [_; e; ts; vs; b] -> c03 "c03.wf" [e; ts; vs; b]
  | _ -> "(unknown-op " ^ op ^ ")"

(* ---------- C17 ---------- *)
let c17 op a =
  match op, a with
  | "c17.order", [e; act] ->
      let env = env_of e and actor = ty_of (parse_sx act) in
      (match chase_actor env actor with
       | None -> "(err)"
       | Some defs ->
           (* the implementation keeps the recursive set in a BTreeSet<&str>: byte order of the names = order of their hex spelling *)
           let recs = List.sort String.compare (List.map hex (infer_rec env defs)) in
           "(ok (" ^ String.concat " " (List.map hex defs) ^ ") (" ^ String.concat " " recs ^ "))")
  | "c17.denotes", [e; act; fac; ini] ->
      if String.length fac >= 6 && String.sub fac 0 6 = "error:" then "(ok)" else
      let env = env_of e and actor = ty_of (parse_sx act) in
      let two s = match parse_sx ("(" ^ s ^ ")") with L [x; y] -> (x, y) | _ -> failwith "two" in
      let sx_env x = List.map (fun d -> match d with L [n; t] -> (unhex (atom n), ty_of t) | _ -> failwith "jsenv") (items x) in
      let (fe, ft) = two fac and (ie, it) = two ini in
      let fenv = sx_env fe and ienv = sx_env ie in
      let jsactor = ty_of ft and jsinit = List.map ty_of (items it) in
      let (args, body) = match actor with TClass (a0, b) -> (a0, b) | t -> ([], t) in
      if not (eq_dec (env @ fenv) body jsactor) then "(service-differs)"
      else if List.length args <> List.length jsinit then "(init-arity-differs)"
      else if List.for_all2 (fun x y -> eq_dec (env @ ienv) x y) args jsinit then "(ok)" else "(init-differs)"
  | "c19.esc_doc", [h] -> "(ok " ^ hex (esc_doc (unhex h)) ^ ")"
  | _ -> "(unknown-op " ^ op ^ ")"

(* ---------- C20 ---------- *)
let c20 op a =
  match op, a with
  | "c20.inhabits", [e; ts; _; _; vs] ->
      if vs = "err" then "(err)" else
      let env = env_of e and ts = tys_of ts and vs = vals_of vs in
      if List.length ts <> List.length vs then "(arity)"
      else if List.for_all2 (fun v t -> has_type env v t) vs ts then "(ok)" else "(not-an-inhabitant)"
  | _ -> "(unknown-op " ^ op ^ ")"

(* ---------- C18 ---------- *)
let c18 op a =
  match a with
  | [_; e; item; want; renv; rty] ->
      if item = "#compile" then "(ok)" else
      if rty = "(missing)" then "(item-missing)" else
      let env = env_of e in
      let renv = List.map (fun d -> match d with L [n; t] -> (unhex (atom n), ty_of t) | _ -> failwith "renv") (items (parse_sx renv)) in
      if eq_dec (env @ renv) (ty_of (parse_sx want)) (ty_of (parse_sx rty)) then "(ok)" else "(differs)"
  | _ -> "(unknown-op " ^ op ^ ")"

let dispatch (op : string) (a : string list) : string =
  let base = if String.length op > 2 && String.sub op 0 2 = "m." then String.sub op 2 (String.length op - 2) else op in
  let prop = try String.sub base 0 (String.index base '.') with Not_found -> base in
  match prop with
  | "c01" | "c08" -> c01 op a
  | "c02" -> c02 op a
  | "c03" | "c04" | "c10" -> c03 op a
  | "c05" -> if op = "m.c05.memo" then c05memo a else c05 op a
  | "c07" -> c07 op a
  | "c09" -> c09 op a
  | "c11" -> c11 op a
  | "c13" | "c14" -> c14 op a
  | "c15" -> c15 op a
  | "c17" | "c19" -> c17 op a
  | "c18" -> c18 op a
  | "c20" -> c20 op a
  | "c16" -> c16 op a
  | _ -> "(unknown-op " ^ op ^ ")"

let () =
  try
    while true do
      let line = input_line stdin in
      if line <> "" then begin
        match String.split_on_char '\t' line with
        | id :: op :: a ->
            let r = (try dispatch op a with
                     | Stack_overflow -> "(model-stack-overflow)"
                     | e -> "(model-exception " ^ Printexc.to_string e ^ ")") in
            print_string id; print_char '\t'; print_string r; print_char '\n'; flush stdout
        | _ -> ()
      end
    done
  with End_of_file -> ()
