(* model_runner: line server for the extracted Coq model.
   stdin:  id \t op \t arg...      stdout:  id \t result
   Hand-written glue (trusted): s-expression reader, N/Z <-> decimal via Zarith, hex, dispatch. *)
module ZA = Z
open Model

(* ---------- numbers ---------- *)
let rec pos_of_z (z : ZA.t) : positive =
  if ZA.equal z ZA.one then XH
  else if ZA.testbit z 0 then XI (pos_of_z (ZA.shift_right z 1))
  else XO (pos_of_z (ZA.shift_right z 1))
let n_of_z (z : ZA.t) : n = if ZA.sign z = 0 then N0 else Npos (pos_of_z z)
let rec z_of_pos (p : positive) : ZA.t =
  match p with XH -> ZA.one | XO q -> ZA.shift_left (z_of_pos q) 1 | XI q -> ZA.succ (ZA.shift_left (z_of_pos q) 1)
let z_of_n (x : n) : ZA.t = match x with N0 -> ZA.zero | Npos p -> z_of_pos p
let cz_of_z (z : ZA.t) : Model.z =
  if ZA.sign z = 0 then Z0 else if ZA.sign z > 0 then Zpos (pos_of_z z) else Zneg (pos_of_z (ZA.neg z))
let z_of_cz (x : Model.z) : ZA.t = match x with Z0 -> ZA.zero | Zpos p -> z_of_pos p | Zneg p -> ZA.neg (z_of_pos p)
let n_of_string s = n_of_z (ZA.of_string s)
let string_of_n x = ZA.to_string (z_of_n x)
let n_of_int i = n_of_z (ZA.of_int i)
let int_of_n x = ZA.to_int (z_of_n x)
let rec nat_of_int i = if i <= 0 then O else S (nat_of_int (i - 1))

(* ---------- hex ---------- *)
let unhex (s : string) : n list =
  if s = "-" then [] else begin
    let l = String.length s / 2 in
    List.init l (fun i -> n_of_int (int_of_string ("0x" ^ String.sub s (2 * i) 2)))
  end
let hex (bs : n list) : string =
  if bs = [] then "-" else String.concat "" (List.map (fun b -> Printf.sprintf "%02x" (int_of_n b)) bs)

(* ---------- s-expressions ---------- *)
type sx = A of string | L of sx list
let tokenize (s : string) : string list =
  let b = Buffer.create 16 and out = ref [] in
  let flush () = if Buffer.length b > 0 then (out := Buffer.contents b :: !out; Buffer.clear b) in
  String.iter (fun c ->
    match c with
    | '(' | ')' -> flush (); out := String.make 1 c :: !out
    | ' ' | '\t' | '\n' -> flush ()
    | c -> Buffer.add_char b c) s;
  flush (); List.rev !out
let parse_sx (s : string) : sx =
  let rec go toks = match toks with
    | "(" :: r -> let (items, r') = go_list r [] in (L items, r')
    | a :: r -> (A a, r)
    | [] -> failwith "sexp: eof"
  and go_list toks acc = match toks with
    | ")" :: r -> (List.rev acc, r)
    | _ -> let (x, r) = go toks in go_list r (x :: acc)
  in
  let (x, r) = go (tokenize s) in
  if r <> [] then failwith "sexp: trailing"; x
let atom = function A s -> s | L _ -> failwith "atom expected"
let items = function L l -> l | A _ -> failwith "list expected"
let head = function A s -> s | L (A s :: _) -> s | _ -> failwith "head"
let args = function A _ -> [] | L (_ :: r) -> r | L [] -> []

let ok_ids (ids : n list) = if ids = [] then "(ok)" else "(ok " ^ String.concat " " (List.map string_of_n ids) ^ ")"
let b01 b = if b then "1" else "0"

(* ---------- C15 ---------- *)
let label_of (s : sx) : label =
  match head s, args s with
  | "id", [x] -> LId (n_of_string (atom x))
  | "unnamed", [x] -> LUnnamed (n_of_string (atom x))
  | "named", [x] -> LNamed (unhex (atom x))
  | _ -> failwith "label"
let labels_of s = List.map label_of (items (parse_sx s))

let gid (l : label) : n = match l with LNamed s -> hash_spec s | l -> get_id l
let c15 op a =
  match op, a with
  | "c15.hash", [h] ->
      let bs = unhex h in
      (* the oracle is the specification's polynomial; that the code's two copies (constants read from
         the sources) equal it is theorem C15_hash_spec / C15_copies_agree *)
      string_of_n (hash_spec bs)
  | "c15.label", [x; y] ->
      let x = label_of (parse_sx x) and y = label_of (parse_sx y) in
      let c = match N.compare (gid x) (gid y) with Lt -> "lt" | Eq -> "eq" | Gt -> "gt" in
      Printf.sprintf "%s %s %s %s" (string_of_n (gid x)) (b01 (gid x = gid y)) c (b01 (gid x = gid y))
  | ("c15.did_record" | "c15.did_variant" | "c15.val_record"), [ls] ->
      let ids = List.map gid (labels_of ls) in
      if unique_after_sort ids then ok_ids (sort_ids ids) else "(err)"
  | "c15.header_record", [ids] ->
      let ids = List.map (fun x -> n_of_string (atom x)) (items (parse_sx ids)) in
      if strictly_ascending None ids then ok_ids ids else "(err)"
  | "c15.header_variant", [ids] ->
      let ids = List.map (fun x -> n_of_string (atom x)) (items (parse_sx ids)) in
      if strictly_ascending None ids then ok_ids [List.hd ids] else "(err)"
  | "c15.derive", [_; ls] ->
      let ids = List.map gid (labels_of ls) in
      if unique_after_sort ids then ok_ids (sort_ids ids) else "(err)"
  | "c15.macro", [i] ->
      let nm s = LNamed (List.init (String.length s) (fun k -> n_of_int (Char.code s.[k]))) in
      let id s = LId (n_of_string s) in
      let ls = match int_of_string i with
        | 0 -> [nm "zebra"; nm "apple"; id "5"]
        | 1 -> [nm "b"; nm "a"; id "4294967295"]
        | 2 -> [nm "kviccgm"; nm "jmst"]
        | 3 -> [nm "_nvs"; nm "ayadrnc"]
        | 4 -> [nm "a"; id "97"]
        | 5 -> [nm "inovv"; id "3189572266"; nm "zz"]
        | _ -> [nm "b"; id "98"; nm "c"] in
      let ids = List.map gid ls in
      if unique_after_sort ids then ok_ids (sort_ids ids) else "(err)"
  | _ -> "(unknown-op " ^ op ^ ")"

let dispatch (op : string) (a : string list) : string =
  let prop = try String.sub op 0 (String.index op '.') with Not_found -> op in
  match prop with
  | "c15" -> c15 op a
  | _ -> "(unknown-op " ^ op ^ ")"

let () =
  try
    while true do
      let line = input_line stdin in
      if line <> "" then begin
        match String.split_on_char '\t' line with
        | id :: op :: a ->
            let r = (try dispatch op a with
                     | Stack_overflow -> "(model-stack-overflow)"
                     | e -> "(model-exception " ^ Printexc.to_string e ^ ")") in
            print_string id; print_char '\t'; print_string r; print_char '\n'
        | _ -> ()
      end
    done
  with End_of_file -> ()
