(* Extraction of the executable model for the correspondence check.
   ExtrOcamlBasic only: bool, option, unit, list, prod, sumbool map to OCaml's own;
   N / Z / positive stay Coq datatypes; no Extract Constant. *)
From Coq Require Extraction.
From Coq Require Import ExtrOcamlBasic.
From CandidV Require Import Consts model.Base model.Hash.
Extraction Language OCaml.
Set Extraction Optimize.
Extraction "model.ml"
  N.add N.mul N.sub N.div N.modulo N.eqb N.ltb N.leb N.compare N.of_nat N.to_nat
  Z.add Z.mul Z.sub Z.opp Z.of_N Z.to_N Z.abs_N Z.ltb Z.leb Z.eqb
  Hash.idl_hash Hash.idl_hash_derive Hash.hash_spec Hash.get_id Hash.label_eqb Hash.label_cmp Hash.label_hash
  Hash.unique_after_sort Hash.sort_ids Hash.strictly_ascending.
