(* Extraction of the executable model for the correspondence check.
   ExtrOcamlBasic only: bool, option, unit, list, prod, sumbool map to OCaml's own;
   N / Z / positive stay Coq datatypes; no Extract Constant. *)
From Coq Require Extraction.
From Coq Require Import ExtrOcamlBasic.
From CandidV Require Import Consts model.Base model.Hash model.Leb model.Principal model.Ty model.Gfp model.Sub model.Memo model.Val model.Wire model.Coerce model.De model.Annot model.TypeSer model.Text model.Check model.Analysis model.Escape model.Actions.
Extraction Language OCaml.
Set Extraction Optimize.
Extraction "model.ml"
  N.add N.mul N.sub N.div N.modulo N.eqb N.ltb N.leb N.compare N.of_nat N.to_nat
  Z.add Z.mul Z.sub Z.opp Z.of_N Z.to_N Z.abs_N Z.ltb Z.leb Z.eqb
  Hash.idl_hash Hash.idl_hash_derive Hash.hash_spec Hash.get_id Hash.label_eqb Hash.label_cmp Hash.label_hash
  Hash.unique_after_sort Hash.sort_ids Hash.strictly_ascending
  Leb.leb_val Leb.sleb_val Leb.terminated Leb.split_leb Leb.enc_u Leb.enc_s
  Leb.write_unsigned64 Leb.encode_nat128 Leb.write_signed64 Leb.encode_int128 Leb.nat_encode Leb.int_encode
  Leb.nat_decode Leb.int_decode Leb.decode_nat128 Leb.decode_int128 Leb.de_nat Leb.de_int Leb.de_int_of_nat
  Principal.to_text Principal.from_text Principal.try_from_slice Principal.crc32 Principal.b32_encode Principal.b32_decode
  Ty.ty_eqb Ty.trace Ty.tuple Sub.sub_dec Sub.sub_dec_fast Sub.eq_dec
  Memo.query Memo.history Memo.plan_sub Memo.plan_eq Memo.sub_history Memo.eq_history
  Val.has_type Wire.enc_val Wire.dec_val Wire.dec_header Wire.table_name Coerce.coerce Coerce.spec_decode Coerce.spec_decode_untyped Coerce.spec_decode_untyped_raw Coerce.decode_fuel
  De.de_message De.de_message_untyped De.de
  Annot.annotate_top Annot.annotate_args Annot.vsize TypeSer.enc_message TypeSer.enc_header
  Text.pp_text Text.ident_string Text.pp_blob Text.lex_string Text.pp_num_str Text.strip_underscores Text.utf8 Text.is_scalar Val.utf8_valid
  Check.check_prog Analysis.chase_actor Analysis.infer_rec Analysis.js_ident Escape.esc_doc Escape.esc_ok Actions.record_ids.
