From Coq Require Import Lia.
From CandidV Require Import model.Leb proofs.LebProofs.
Open Scope Z_scope.

(* ---------- the value of a signed string in terms of the unsigned one ---------- *)
Definition sgn (bs : list N) : Z := if (64 <=? low7 (last bs 0%N))%N then 1 else 0.

Lemma sleb_val_cons b r : r <> [] -> sleb_val (b :: r) = Z.of_N (low7 b) + 128 * sleb_val r.
Proof. destruct r; [congruence|reflexivity]. Qed.

Lemma last_cons (b : N) r d : r <> [] -> last (b :: r) d = last r d.
Proof. destruct r; [congruence|reflexivity]. Qed.

Lemma pow128z_succ k : 128 ^ Z.of_nat (S k) = 128 * 128 ^ Z.of_nat k.
Proof. rewrite Nat2Z.inj_succ, Z.pow_succ_r by lia. reflexivity. Qed.

Lemma sleb_val_leb bs : bs <> [] ->
  sleb_val bs = Z.of_N (leb_val bs) - sgn bs * 128 ^ Z.of_nat (length bs).
Proof.
  induction bs as [|b r IH]; [congruence|]. intros _.
  destruct r as [|b' r'].
  - unfold sgn. cbn [sleb_val leb_val last length]. change (128 ^ Z.of_nat 1) with 128.
    destruct (64 <=? low7 b)%N; lia.
  - assert (Hne : b' :: r' <> []) by discriminate.
    rewrite (leb_val_cons b (b' :: r')), (sleb_val_cons b _ Hne), (IH Hne).
    unfold sgn. rewrite (last_cons b _ 0%N Hne).
    change (length (b :: b' :: r')) with (S (length (b' :: r'))). rewrite pow128z_succ.
    set (X := 128 ^ Z.of_nat (length (b' :: r'))).
    destruct (64 <=? low7 (last (b' :: r') 0))%N; lia.
Qed.

(* ---------- bit facts on Z ---------- *)
Lemma zlor_add a b s : 0 <= a < 2 ^ s -> 0 <= s -> Z.lor a (b * 2 ^ s) = a + b * 2 ^ s.
Proof.
  intros Ha Hs.
  assert (Hl : Z.land a (b * 2 ^ s) = 0).
  { apply Z.bits_inj'. intros i Hi. rewrite Z.land_spec, Z.bits_0.
    destruct (Z.lt_ge_cases i s) as [His|His].
    - rewrite Z.mul_pow2_bits_low by lia. apply andb_false_r.
    - destruct (Z.eq_dec a 0) as [->|Hz]; [now rewrite Z.bits_0|].
      rewrite (Z.bits_above_log2 a i); [reflexivity|lia|].
      assert (Z.log2 a < s) by (apply Z.log2_lt_pow2; lia). lia. }
  rewrite <- Z.lxor_lor by exact Hl. symmetry. apply Z.add_nocarry_lxor. exact Hl.
Qed.

Lemma wrap_s_id bits z : (0 < bits)%N -> - 2 ^ (Z.of_N bits - 1) <= z < 2 ^ (Z.of_N bits - 1) -> wrap_s bits z = z.
Proof.
  intros Hb Hz. unfold wrap_s.
  assert (Hp : 2 ^ Z.of_N bits = 2 * 2 ^ (Z.of_N bits - 1)).
  { replace (Z.of_N bits) with (Z.succ (Z.of_N bits - 1)) at 1 by lia. rewrite Z.pow_succ_r by lia. reflexivity. }
  rewrite Z.mod_small by lia. lia.
Qed.

(* ---------- Int::decode ---------- *)
Lemma collect_last_eq bs last :
  collect_last bs last =
  if cont last then
    match bs with
    | [] => None
    | b :: r => match collect_last r b with Some (g, l, rest) => Some (low7 b :: g, l, rest) | None => None end
    end
  else Some ([], last, bs).
Proof. destruct bs; reflexivity. Qed.

Lemma collect_last_spec r rest : forall b, terminated (b :: r) = true ->
  collect_last (r ++ rest) b = Some (map low7 r, last (b :: r) 0%N, rest).
Proof.
  induction r as [|b' r' IH]; intros b Ht.
  - cbn in Ht. apply negb_true_iff in Ht. rewrite collect_last_eq, Ht. reflexivity.
  - rewrite terminated_cons in Ht by discriminate. apply andb_true_iff in Ht as [Hc Ht].
    change ((b' :: r') ++ rest) with (b' :: (r' ++ rest)).
    rewrite collect_last_eq, Hc. cbv beta iota.
    rewrite IH by exact Ht. reflexivity.
Qed.

Lemma groups_z_len k s : length (groups_of_small_z k s) = k.
Proof. revert s; induction k as [|k IH]; intros s; cbn; [reflexivity|now rewrite IH]. Qed.

Lemma groups_z_val k : forall s, 0 <= s < 128 ^ Z.of_nat k -> Z.of_N (from_radix (groups_of_small_z k s)) = s.
Proof.
  induction k as [|k IH]; intros s Hs.
  - change (128 ^ Z.of_nat 0) with 1 in Hs. cbn. lia.
  - cbn [groups_of_small_z from_radix]. rewrite pow128z_succ in Hs.
    rewrite N2Z.inj_add, N2Z.inj_mul, IH.
    + rewrite Z2N.id by (apply Z.mod_pos_bound; lia). change (Z.of_N 128) with 128.
      pose proof (Z.div_mod s 128). lia.
    + split; [apply Z.div_pos; lia|apply Z.div_lt_upper_bound; lia].
Qed.

Lemma from_radix_app_z g1 g2 :
  Z.of_N (from_radix (g1 ++ g2)) = Z.of_N (from_radix g1) + 128 ^ Z.of_nat (length g1) * Z.of_N (from_radix g2).
Proof.
  rewrite from_radix_app, N2Z.inj_add, N2Z.inj_mul, N2Z.inj_pow. rewrite nat_N_Z. reflexivity.
Qed.

Lemma low7_z b : 0 <= Z.of_N (low7 b) < 128.
Proof. pose proof (low7_lt b). lia. Qed.

(* the slow path: collect all groups, rebuild the magnitude, subtract 2^(7n) when the sign bit is set *)
Lemma int_slow_path k small b r rest :
  terminated (b :: r) = true -> 0 <= small < 128 ^ Z.of_nat k ->
  match collect_last (r ++ rest) b with
  | None => Err EMal
  | Some (g, last, rest') =>
      let groups := groups_of_small_z k small ++ low7 b :: g in
      let mag := Z.of_N (from_radix groups) in
      let v := if (64 <=? low7 last)%N then mag - 2 ^ (7 * Z.of_nat (length groups)) else mag in
      Ok (v, rest')
  end = Ok (small + 128 ^ Z.of_nat k * sleb_val (b :: r), rest).
Proof.
  intros Ht Hs. rewrite collect_last_spec by exact Ht. cbv zeta.
  rewrite from_radix_app_z, groups_z_val by exact Hs. rewrite groups_z_len.
  change (low7 b :: map low7 r) with (map low7 (b :: r)). rewrite from_radix_map_low7.
  rewrite app_length, groups_z_len, map_length.
  rewrite sleb_val_leb by discriminate. unfold sgn.
  replace (2 ^ (7 * Z.of_nat (k + length (b :: r)))) with (128 ^ Z.of_nat k * 128 ^ Z.of_nat (length (b :: r))).
  2:{ rewrite Nat2Z.inj_add, Z.mul_add_distr_l, Z.pow_add_r by lia.
      rewrite !(Z.pow_mul_r 2 7) by lia. reflexivity. }
  destruct (64 <=? low7 (last (b :: r) 0%N))%N; f_equal; f_equal; lia.
Qed.

Lemma pow128_2 k : 128 ^ Z.of_nat k = 2 ^ (7 * Z.of_nat k).
Proof. rewrite Z.pow_mul_r by lia. reflexivity. Qed.

Lemma int_loop_spec bs : forall rest small k,
  terminated bs = true -> (k <= 9)%nat -> 0 <= small < 128 ^ Z.of_nat k ->
  int_decode_loop (bs ++ rest) small (7 * N.of_nat k) k
  = Ok (small + 128 ^ Z.of_nat k * sleb_val bs, rest).
Proof.
  induction bs as [|b r IH]; intros rest small k Ht Hk Hs; [discriminate|].
  change ((b :: r) ++ rest) with (b :: (r ++ rest)).
  pose proof (low7_z b) as Hl.
  assert (Hsh : Z.of_N (7 * N.of_nat k) = 7 * Z.of_nat k) by lia.
  destruct (Nat.eq_dec k 9) as [->|Hne].
  - (* shift = 63 *)
    change (7 * N.of_nat 9)%N with 63%N. cbn [int_decode_loop].
    change (63 <? 57)%N with false. change (63 <? 64)%N with true. cbn [andb].
    change (64 - 63 - 1)%N with 0%N. unfold asr. change (2 ^ Z.of_N 0) with 1. rewrite !Z.div_1_r.
    destruct (cont b) eqn:Hc; cbn [negb].
    + (* more bytes follow: slow path *)
      cbv iota. apply (int_slow_path 9); assumption.
    + destruct r as [|b' r']; [|rewrite terminated_cons in Ht by discriminate; rewrite Hc in Ht; discriminate].
      cbn [app]. change (128 ^ Z.of_nat 9) with (2 ^ 63) in *.
      destruct (64 <=? low7 b)%N eqn:Hsg.
      * destruct (Z.eqb_spec (Z.of_N (low7 b) - 128) (-1)) as [He|He].
        -- assert (Hb : Z.of_N (low7 b) = 127) by lia. rewrite Hb.
           change (wrap_s 64 (127 * 2 ^ Z.of_N 63)) with (-1 * 2 ^ 63).
           rewrite zlor_add by lia. change (63 + 7 <? 64)%N with false. cbn [andb].
           cbn [sleb_val]. rewrite Hsg, Hb. f_equal; f_equal; lia.
        -- cbv iota. pose proof (int_slow_path 9 small b [] rest Ht) as Hsp.
           cbn [app] in Hsp. change (128 ^ Z.of_nat 9) with (2 ^ 63) in Hsp. apply Hsp. exact Hs.
      * destruct (Z.eqb_spec (Z.of_N (low7 b)) 0) as [He|He].
        -- rewrite He. change (wrap_s 64 (0 * 2 ^ Z.of_N 63)) with 0. rewrite Z.lor_0_r.
           change (63 + 7 <? 64)%N with false. cbn [andb].
           cbn [sleb_val]. rewrite Hsg, He. f_equal; f_equal; lia.
        -- cbv iota. pose proof (int_slow_path 9 small b [] rest Ht) as Hsp.
           cbn [app] in Hsp. change (128 ^ Z.of_nat 9) with (2 ^ 63) in Hsp. apply Hsp. exact Hs.
  - (* shift <= 56: the group always fits *)
    assert (Hk8 : (k <= 8)%nat) by lia.
    cbn [int_decode_loop].
    assert (E57 : (7 * N.of_nat k <? 57)%N = true) by (apply N.ltb_lt; lia). rewrite E57.
    rewrite Hsh.
    assert (Hp : 0 < 2 ^ (7 * Z.of_nat k)) by (apply Z.pow_pos_nonneg; lia).
    assert (Hp1 : 128 ^ Z.of_nat (S k) = 128 * 2 ^ (7 * Z.of_nat k)) by (rewrite pow128z_succ, pow128_2; reflexivity).
    assert (Hle : 128 * 2 ^ (7 * Z.of_nat k) <= 2 ^ 63).
    { rewrite <- Hp1, pow128_2. apply Z.pow_le_mono_r; lia. }
    rewrite pow128_2 in Hs.
    rewrite wrap_s_id by (try reflexivity; change (2 ^ (Z.of_N 64 - 1)) with (2 ^ 63); nia).
    rewrite zlor_add by lia.
    destruct r as [|b' r'].
    + cbn in Ht. apply negb_true_iff in Ht. rewrite Ht. cbn [app].
      assert (E64 : (7 * N.of_nat k + 7 <? 64)%N = true) by (apply N.ltb_lt; lia). rewrite E64. cbn [andb].
      replace (Z.of_N (7 * N.of_nat k + 7)) with (7 * Z.of_nat k + 7) by lia.
      rewrite Z.pow_add_r by lia. change (2 ^ 7) with 128.
      cbn [sleb_val]. rewrite pow128_2.
      destruct (64 <=? low7 b)%N.
      * rewrite wrap_s_id by (try reflexivity; change (2 ^ (Z.of_N 64 - 1)) with (2 ^ 63); nia).
        replace (-1 * (2 ^ (7 * Z.of_nat k) * 128)) with (-1 * 2 ^ (7 * Z.of_nat k + 7))
          by (rewrite Z.pow_add_r by lia; change (2 ^ 7) with 128; lia).
        rewrite zlor_add; [|rewrite Z.pow_add_r by lia; change (2 ^ 7) with 128; nia|lia].
        rewrite Z.pow_add_r by lia. change (2 ^ 7) with 128. f_equal; f_equal; lia.
      * f_equal; f_equal; lia.
    + rewrite terminated_cons in Ht by discriminate. apply andb_true_iff in Ht as [Hc Ht]. rewrite Hc.
      replace (7 * N.of_nat k + 7)%N with (7 * N.of_nat (S k))%N by lia.
      rewrite IH; [|exact Ht|lia|rewrite Hp1; nia].
      rewrite (sleb_val_cons b (b' :: r')) by discriminate. rewrite Hp1, pow128_2.
      f_equal; f_equal; lia.
Qed.

Theorem int_decode_spec bs rest :
  terminated bs = true -> int_decode (bs ++ rest) = Ok (sleb_val bs, rest).
Proof.
  intros Ht. unfold int_decode. change 0%N with (7 * N.of_nat 0)%N.
  rewrite int_loop_spec; [|exact Ht|lia|change (128 ^ Z.of_nat 0) with 1; lia].
  change (128 ^ Z.of_nat 0) with 1. f_equal; f_equal; lia.
Qed.

(* ---------- de.rs try_read_leb_i64 and its fall-back ---------- *)
Lemma try_read_i64_spec bs : forall rest result (k : N),
  terminated bs = true -> (k <= 8)%N -> 0 <= result < 2 ^ (7 * Z.of_N k) ->
  try_read_i64 (bs ++ rest) result (7 * k)
  = if (N.of_nat (length bs) + k <=? 9)%N
    then Ok (Some (result + 2 ^ (7 * Z.of_N k) * sleb_val bs, rest)) else Ok None.
Proof.
  induction bs as [|b r IH]; intros rest result k Ht Hk Hr; [discriminate|].
  change ((b :: r) ++ rest) with (b :: (r ++ rest)). cbn [try_read_i64].
  pose proof (low7_z b) as Hl.
  assert (Hsh : Z.of_N (7 * k) = 7 * Z.of_N k) by lia. rewrite Hsh.
  assert (Hp : 0 < 2 ^ (7 * Z.of_N k)) by (apply Z.pow_pos_nonneg; lia).
  assert (Hp1 : 2 ^ (7 * Z.of_N (k + 1)) = 128 * 2 ^ (7 * Z.of_N k)).
  { replace (7 * Z.of_N (k + 1)) with (7 + 7 * Z.of_N k) by lia. rewrite Z.pow_add_r by lia. reflexivity. }
  assert (Hle : 128 * 2 ^ (7 * Z.of_N k) <= 2 ^ 63).
  { rewrite <- Hp1. apply Z.pow_le_mono_r; lia. }
  rewrite wrap_s_id by (try reflexivity; change (2 ^ (Z.of_N 64 - 1)) with (2 ^ 63); nia).
  rewrite zlor_add by lia.
  replace (Z.of_N (7 * k + 7)) with (7 * Z.of_N (k + 1)) by lia.
  destruct r as [|b' r'].
  - cbn in Ht. rewrite Ht. cbn [length].
    assert (E : (N.of_nat 1 + k <=? 9)%N = true) by (apply N.leb_le; lia). rewrite E.
    cbn [sleb_val]. rewrite Hp1.
    destruct (64 <=? low7 b)%N.
    + rewrite wrap_s_id by (try reflexivity; change (2 ^ (Z.of_N 64 - 1)) with (2 ^ 63); nia).
      replace (-1 * (128 * 2 ^ (7 * Z.of_N k))) with (-1 * 2 ^ (7 * Z.of_N (k + 1))) by (rewrite Hp1; lia).
      rewrite zlor_add; [|rewrite Hp1; nia|lia]. rewrite Hp1. do 3 f_equal. lia.
    + do 3 f_equal. lia.
  - rewrite terminated_cons in Ht by discriminate. apply andb_true_iff in Ht as [Hc Ht]. rewrite Hc.
    cbn [negb].
    destruct (N.leb_spec 63 (7 * k + 7)) as [Hb|Hb].
    + assert (k = 8%N) by lia. subst k.
      assert (E : (N.of_nat (length (b :: b' :: r')) + 8 <=? 9)%N = false).
      { apply N.leb_gt. cbn [length]. lia. }
      now rewrite E.
    + replace (7 * k + 7)%N with (7 * (k + 1))%N by lia.
      rewrite IH; [|exact Ht|lia|rewrite Hp1; nia].
      replace (N.of_nat (length (b :: b' :: r')) + k)%N with (N.of_nat (length (b' :: r')) + (k + 1))%N
        by (cbn [length]; lia).
      rewrite Hp1, (sleb_val_cons b (b' :: r')) by discriminate.
      destruct (N.of_nat (length (b' :: r')) + (k + 1) <=? 9)%N; [|reflexivity].
      do 3 f_equal. lia.
Qed.

Theorem de_int_spec bs rest : terminated bs = true -> de_int (bs ++ rest) = Ok (sleb_val bs, rest).
Proof.
  intros Ht. unfold de_int. change 0%N with (7 * 0)%N at 1.
  rewrite try_read_i64_spec; [|exact Ht|lia|cbn; lia].
  destruct (N.of_nat (length bs) + 0 <=? 9)%N; cbn [bind].
  - change (2 ^ (7 * Z.of_N 0)) with 1. rewrite Z.add_0_l, Z.mul_1_l. reflexivity.
  - apply int_decode_spec. exact Ht.
Qed.

(* no terminated prefix: error *)
Lemma collect_last_none r : split_leb r = None -> forall b, cont b = true -> collect_last r b = None.
Proof.
  induction r as [|x r IH]; intros Hs b Hc; rewrite collect_last_eq, Hc; [reflexivity|].
  cbn [split_leb] in Hs. destruct (cont x) eqn:Hx; [|discriminate].
  destruct (split_leb r) as [[? ?]|] eqn:Hr; [discriminate|]. rewrite IH; [reflexivity|reflexivity|exact Hx].
Qed.
Lemma int_decode_loop_none bs : split_leb bs = None -> forall small shift k, int_decode_loop bs small shift k = Err EMal.
Proof.
  induction bs as [|b r IH]; intros Hs small shift k; [reflexivity|].
  cbn [split_leb] in Hs. destruct (cont b) eqn:Hc; [|discriminate].
  destruct (split_leb r) as [[? ?]|] eqn:Hr; [discriminate|].
  cbn [int_decode_loop]. rewrite Hc. cbn [negb]. rewrite andb_false_r.
  destruct (shift <? 57)%N.
  - apply IH. reflexivity.
  - now rewrite (collect_last_none r Hr b Hc).
Qed.
Theorem int_decode_unterminated bs : split_leb bs = None -> int_decode bs = Err EMal.
Proof. intros H. apply int_decode_loop_none. exact H. Qed.

(* ---------- types/leb128.rs::decode_int (i128) ---------- *)
Definition in_i128 (z : Z) : bool := (- 2 ^ 127 <=? z) && (z <? 2 ^ 127).

Lemma sleb_single b : sleb_val [b] = if (64 <=? low7 b)%N then Z.of_N (low7 b) - 128 else Z.of_N (low7 b).
Proof. reflexivity. Qed.

(* phase 3: groups above bit 132 must repeat the sign *)
Lemma int128_tail m bs : forall rest result shift,
  terminated bs = true -> (128 <= shift)%N ->
  decode_int128_loop m (bs ++ rest) result shift
  = if sleb_val bs =? (if result <? 0 then -1 else 0) then Ok (result, rest) else Err EOther.
Proof.
  induction bs as [|b r IH]; intros rest result shift Ht Hs; [discriminate|].
  change ((b :: r) ++ rest) with (b :: (r ++ rest)). cbn [decode_int128_loop].
  assert (E1 : (shift <? 126)%N = false) by (apply N.ltb_ge; lia).
  assert (E2 : (shift =? 126)%N = false) by (apply N.eqb_neq; lia).
  assert (E3 : (shift <? 128)%N = false) by (apply N.ltb_ge; lia).
  assert (E4 : (sat_add7 shift <? 128)%N = false).
  { apply N.ltb_ge. unfold sat_add7. destruct (shift + 7 <? 2 ^ 32)%N; [lia|]. cbv. discriminate. }
  assert (E5 : (128 <= sat_add7 shift)%N) by (apply N.ltb_ge; exact E4).
  rewrite E1, E2, E3, E4. cbn [andb bind].
  pose proof (low7_z b) as Hl.
  set (f := if result <? 0 then -1 else 0).
  assert (Hfill : Z.of_N (if result <? 0 then 127%N else 0%N) = f mod 128).
  { unfold f. destruct (result <? 0); reflexivity. }
  assert (Hf : f = 0 \/ f = -1) by (unfold f; destruct (result <? 0); auto).
  destruct (N.eqb_spec (low7 b) (if result <? 0 then 127%N else 0%N)) as [He|He]; cbn [negb].
  - assert (Hb : Z.of_N (low7 b) = f mod 128) by (rewrite He; exact Hfill).
    destruct r as [|b' r'].
    + cbn in Ht. apply negb_true_iff in Ht. rewrite Ht. cbn [app]. rewrite sleb_single.
      destruct Hf as [Hf|Hf]; rewrite Hf in *; change (0 mod 128) with 0 in Hb; change (-1 mod 128) with 127 in Hb.
      * assert (E : (64 <=? low7 b)%N = false) by (apply N.leb_gt; lia). rewrite E, Hb. reflexivity.
      * assert (E : (64 <=? low7 b)%N = true) by (apply N.leb_le; lia). rewrite E, Hb. reflexivity.
    + rewrite terminated_cons in Ht by discriminate. apply andb_true_iff in Ht as [Hc Ht]. rewrite Hc.
      rewrite IH by (try exact Ht; exact E5). fold f.
      rewrite (sleb_val_cons b (b' :: r')) by discriminate. rewrite Hb.
      destruct Hf as [Hf|Hf]; rewrite Hf; change (0 mod 128) with 0; change (-1 mod 128) with 127.
      * destruct (Z.eqb_spec (sleb_val (b' :: r')) 0) as [E|E].
        -- rewrite E. reflexivity.
        -- destruct (Z.eqb_spec (0 + 128 * sleb_val (b' :: r')) 0); [lia|reflexivity].
      * destruct (Z.eqb_spec (sleb_val (b' :: r')) (-1)) as [E|E].
        -- rewrite E. reflexivity.
        -- destruct (Z.eqb_spec (127 + 128 * sleb_val (b' :: r')) (-1)); [lia|reflexivity].
  - destruct (drain_terminated r rest b Ht) as [x Hx]. rewrite Hx.
    assert (Hne : Z.of_N (low7 b) <> f mod 128).
    { intros H. apply He. apply N2Z.inj. rewrite H, Hfill. reflexivity. }
    replace (sleb_val (b :: r) =? f) with false; [reflexivity|]. symmetry. apply Z.eqb_neq. intros Hv.
    destruct r as [|b' r'].
    + rewrite sleb_single in Hv. destruct (64 <=? low7 b)%N eqn:E;
        destruct Hf as [Hf|Hf]; rewrite Hf in *; change (0 mod 128) with 0 in Hne; change (-1 mod 128) with 127 in Hne; try lia.
    + rewrite (sleb_val_cons b (b' :: r')) in Hv by discriminate.
      destruct Hf as [Hf|Hf]; rewrite Hf in *; change (0 mod 128) with 0 in Hne; change (-1 mod 128) with 127 in Hne; lia.
Qed.

Lemma shl_s_small m (low : Z) (k : N) : (k <= 17)%N -> 0 <= low < 128 ->
  shl_s m 128 low (7 * k) = Ok (low * 2 ^ (7 * Z.of_N k)).
Proof.
  intros Hk Hl. unfold shl_s.
  assert (E : (7 * k <? 128)%N = true) by (apply N.ltb_lt; lia). rewrite E.
  replace (Z.of_N (7 * k)) with (7 * Z.of_N k) by lia.
  assert (Hp : 0 < 2 ^ (7 * Z.of_N k)) by (apply Z.pow_pos_nonneg; lia).
  assert (Hle : 128 * 2 ^ (7 * Z.of_N k) <= 2 ^ 126).
  { replace (128 * 2 ^ (7 * Z.of_N k)) with (2 ^ (7 + 7 * Z.of_N k)) by (rewrite Z.pow_add_r by lia; reflexivity).
    apply Z.pow_le_mono_r; lia. }
  rewrite wrap_s_id; [reflexivity|reflexivity|]. change (2 ^ (Z.of_N 128 - 1)) with (2 * 2 ^ 126). nia.
Qed.

Lemma int128_head m bs : forall rest result (k : N),
  terminated bs = true -> (k <= 18)%N -> 0 <= result < 2 ^ (7 * Z.of_N k) ->
  decode_int128_loop m (bs ++ rest) result (7 * k)
  = let v := result + 2 ^ (7 * Z.of_N k) * sleb_val bs in
    if in_i128 v then Ok (v, rest) else Err EOther.
Proof.
  induction bs as [|b r IH]; intros rest result k Ht Hk Hr; [discriminate|].
  change ((b :: r) ++ rest) with (b :: (r ++ rest)). cbn [decode_int128_loop]. cbv zeta.
  pose proof (low7_z b) as Hl.
  assert (Hp : 0 < 2 ^ (7 * Z.of_N k)) by (apply Z.pow_pos_nonneg; lia).
  assert (Hpow : 2 ^ (7 * Z.of_N k) <= 2 ^ 126) by (apply Z.pow_le_mono_r; lia).
  unfold in_i128. change (2 ^ 127) with (2 * 2 ^ 126).
  destruct (N.eq_dec k 18) as [->|Hne].
  - (* the group at bit 126 *)
    change (7 * 18)%N with 126%N. change (7 * Z.of_N 18) with 126 in *.
    change (126 <? 126)%N with false. change (126 =? 126)%N with true. cbv iota.
    change (126 <? 128)%N with true. cbv iota.
    set (t := sleb_val (b :: r)).
    assert (Hrange : forall u, (- (2 * 2 ^ 126) <=? result + 2 ^ 126 * u) && (result + 2 ^ 126 * u <? 2 * 2 ^ 126) = true
                     <-> -2 <= u <= 1).
    { intros u. rewrite andb_true_iff, Z.leb_le, Z.ltb_lt. split; intros H; nia. }
    destruct ((low7 b / 2 =? 0)%N || (low7 b / 2 =? 63)%N) eqn:Hfit; cbn [negb].
    + (* fits: low in {0,1,126,127}; c = the group read as a signed 2-bit-and-sign value *)
      set (c := if (64 <=? low7 b)%N then Z.of_N (low7 b) - 128 else Z.of_N (low7 b)).
      assert (Hc : (c = 0 \/ c = 1 \/ c = -2 \/ c = -1) /\ Z.of_N (low7 b) = c mod 128).
      { unfold c. apply orb_true_iff in Hfit as [H|H]; apply N.eqb_eq in H.
        - assert (Hb : (low7 b = 0 \/ low7 b = 1)%N).
          { assert (Hdm : (low7 b = 2 * (low7 b / 2) + low7 b mod 2)%N) by (apply N.div_mod; discriminate).
            assert (Hml : (low7 b mod 2 < 2)%N) by (apply N.mod_lt; discriminate).
            rewrite H in Hdm. set (rm := (low7 b mod 2)%N) in *. clearbody rm. clear - Hdm Hml. lia. }
          destruct Hb as [Hb|Hb]; rewrite Hb; cbn; auto.
        - assert (Hb : (low7 b = 126 \/ low7 b = 127)%N).
          { assert (Hdm : (low7 b = 2 * (low7 b / 2) + low7 b mod 2)%N) by (apply N.div_mod; discriminate).
            assert (Hml : (low7 b mod 2 < 2)%N) by (apply N.mod_lt; discriminate).
            rewrite H in Hdm. set (rm := (low7 b mod 2)%N) in *. clearbody rm. clear - Hdm Hml. lia. }
          destruct Hb as [Hb|Hb]; rewrite Hb; cbn; auto 6. }
      destruct Hc as [Hc4 Hcm].
      assert (Hshl : shl_s m 128 (Z.of_N (low7 b)) 126 = Ok (c * 2 ^ 126)).
      { unfold shl_s. change (126 <? 128)%N with true. cbv iota. f_equal. rewrite Hcm.
        destruct Hc4 as [E|[E|[E|E]]]; rewrite E; vm_compute; reflexivity. }
      rewrite Hshl. cbn [bind]. rewrite zlor_add by lia.
      change (sat_add7 126) with 133%N. change (133 <? 128)%N with false. cbn [andb].
      assert (Hneg : (result + c * 2 ^ 126 <? 0) = (c <? 0)).
      { destruct Hc4 as [E|[E|[E|E]]]; rewrite E;
          match goal with |- (?x <? 0) = _ => destruct (Z.ltb_spec x 0) end; try reflexivity; lia. }
      destruct r as [|b' r'].
      * cbn in Ht. apply negb_true_iff in Ht. rewrite Ht. cbn [app].
        assert (Ht' : t = c) by reflexivity. rewrite Ht'.
        assert (E : (- (2 * 2 ^ 126) <=? result + 2 ^ 126 * c) && (result + 2 ^ 126 * c <? 2 * 2 ^ 126) = true)
          by (apply (Hrange c); lia).
        rewrite E. f_equal. f_equal. lia.
      * rewrite terminated_cons in Ht by discriminate. apply andb_true_iff in Ht as [Hcb Ht]. rewrite Hcb.
        rewrite int128_tail by (try exact Ht; lia). rewrite Hneg.
        assert (Ht' : t = Z.of_N (low7 b) + 128 * sleb_val (b' :: r')) by (unfold t; apply sleb_val_cons; discriminate).
        set (s := sleb_val (b' :: r')) in *.
        destruct (Z.eqb_spec s (if c <? 0 then -1 else 0)) as [Es|Es].
        -- assert (Htc : t = c).
           { rewrite Ht', Hcm, Es. destruct Hc4 as [E|[E|[E|E]]]; rewrite E; reflexivity. }
           rewrite Htc.
           assert (E : (- (2 * 2 ^ 126) <=? result + 2 ^ 126 * c) && (result + 2 ^ 126 * c <? 2 * 2 ^ 126) = true)
             by (apply (Hrange c); lia).
           rewrite E. f_equal. f_equal. lia.
        -- assert (E : (- (2 * 2 ^ 126) <=? result + 2 ^ 126 * t) && (result + 2 ^ 126 * t <? 2 * 2 ^ 126) = false).
           { apply not_true_iff_false. rewrite (Hrange t). intros Hin. apply Es.
             rewrite Ht', Hcm in Hin.
             destruct Hc4 as [E|[E|[E|E]]]; rewrite E in *;
               [ change (0 mod 128) with 0 in Hin; change (0 <? 0) with false
               | change (1 mod 128) with 1 in Hin; change (1 <? 0) with false
               | change (-2 mod 128) with 126 in Hin; change (-2 <? 0) with true
               | change (-1 mod 128) with 127 in Hin; change (-1 <? 0) with true ]; cbv iota; lia. }
           rewrite E. reflexivity.
    + (* does not fit: the value is out of range whatever follows *)
      destruct (drain_terminated r rest b Ht) as [x Hx]. rewrite Hx.
      apply orb_false_iff in Hfit as [H0 H63]. apply N.eqb_neq in H0, H63.
      assert (Hb : 2 <= Z.of_N (low7 b) <= 125).
      { assert (Hdm : (low7 b = 2 * (low7 b / 2) + low7 b mod 2)%N) by (apply N.div_mod; discriminate).
        assert (Hml : (low7 b mod 2 < 2)%N) by (apply N.mod_lt; discriminate).
        assert (low7 b / 2 < 64)%N by (apply N.div_lt_upper_bound; lia).
        set (q := (low7 b / 2)%N) in *. set (rm := (low7 b mod 2)%N) in *. lia. }
      assert (E : (- (2 * 2 ^ 126) <=? result + 2 ^ 126 * t) && (result + 2 ^ 126 * t <? 2 * 2 ^ 126) = false).
      { apply not_true_iff_false. rewrite (Hrange t). intros Hin. unfold t in Hin.
        destruct r as [|b' r'].
        - rewrite sleb_single in Hin. destruct (64 <=? low7 b)%N eqn:E; [apply N.leb_le in E|apply N.leb_gt in E]; lia.
        - rewrite (sleb_val_cons b (b' :: r')) in Hin by discriminate. lia. }
      rewrite E. reflexivity.
  - assert (Hk17 : (k <= 17)%N) by lia.
    assert (E1 : (7 * k <? 126)%N = true) by (apply N.ltb_lt; lia). rewrite E1. cbn [negb].
    assert (E2 : (7 * k <? 128)%N = true) by (apply N.ltb_lt; lia). rewrite E2.
    rewrite shl_s_small by assumption. cbn [bind]. rewrite zlor_add by lia.
    assert (Hp1 : 2 ^ (7 * Z.of_N (k + 1)) = 128 * 2 ^ (7 * Z.of_N k)).
    { replace (7 * Z.of_N (k + 1)) with (7 + 7 * Z.of_N k) by lia. rewrite Z.pow_add_r by lia. reflexivity. }
    assert (Hle : 128 * 2 ^ (7 * Z.of_N k) <= 2 ^ 126).
    { rewrite <- Hp1. apply Z.pow_le_mono_r; lia. }
    assert (Hs : sat_add7 (7 * k) = (7 * (k + 1))%N).
    { unfold sat_add7. assert (E : (7 * k + 7 <? 2 ^ 32)%N = true) by (apply N.ltb_lt; change (2^32)%N with 4294967296%N; lia).
      rewrite E. lia. }
    rewrite Hs.
    destruct r as [|b' r'].
    + cbn in Ht. apply negb_true_iff in Ht. rewrite Ht. cbn [app].
      assert (E3 : (7 * (k + 1) <? 128)%N = true) by (apply N.ltb_lt; lia). rewrite E3. cbn [andb].
      rewrite sleb_single.
      destruct (64 <=? low7 b)%N eqn:Hsg.
      * unfold shl_s. rewrite E3. cbn [bind].
        replace (Z.of_N (7 * (k + 1))) with (7 * Z.of_N (k + 1)) by lia. rewrite Hp1.
        rewrite wrap_s_id; [|reflexivity|change (2 ^ (Z.of_N 128 - 1)) with (2 * 2 ^ 126); nia].
        replace (-1 * (128 * 2 ^ (7 * Z.of_N k))) with (-1 * 2 ^ (7 * Z.of_N (k + 1))) by (rewrite Hp1; lia).
        rewrite zlor_add; [|rewrite Hp1; nia|lia]. rewrite Hp1.
        apply N.leb_le in Hsg.
        assert (E : (- (2 * 2 ^ 126) <=? result + 2 ^ (7 * Z.of_N k) * (Z.of_N (low7 b) - 128))
                    && (result + 2 ^ (7 * Z.of_N k) * (Z.of_N (low7 b) - 128) <? 2 * 2 ^ 126) = true).
        { rewrite andb_true_iff, Z.leb_le, Z.ltb_lt. nia. }
        rewrite E. f_equal. f_equal. lia.
      * assert (E : (- (2 * 2 ^ 126) <=? result + 2 ^ (7 * Z.of_N k) * Z.of_N (low7 b))
                    && (result + 2 ^ (7 * Z.of_N k) * Z.of_N (low7 b) <? 2 * 2 ^ 126) = true).
        { rewrite andb_true_iff, Z.leb_le, Z.ltb_lt. nia. }
        rewrite E. f_equal. f_equal. lia.
    + rewrite terminated_cons in Ht by discriminate. apply andb_true_iff in Ht as [Hc Ht]. rewrite Hc.
      rewrite IH; [|exact Ht|lia|rewrite Hp1; nia]. cbv zeta. unfold in_i128. change (2 ^ 127) with (2 * 2 ^ 126).
      rewrite Hp1, (sleb_val_cons b (b' :: r')) by discriminate.
      replace (result + Z.of_N (low7 b) * 2 ^ (7 * Z.of_N k) + 128 * 2 ^ (7 * Z.of_N k) * sleb_val (b' :: r'))
        with (result + 2 ^ (7 * Z.of_N k) * (Z.of_N (low7 b) + 128 * sleb_val (b' :: r'))) by lia.
      reflexivity.
Qed.

Theorem decode_int128_spec m bs rest :
  terminated bs = true ->
  decode_int128 m (bs ++ rest) = if in_i128 (sleb_val bs) then Ok (sleb_val bs, rest) else Err EOther.
Proof.
  intros Ht. unfold decode_int128. change 0%N with (7 * 0)%N.
  rewrite int128_head; [|exact Ht|lia|cbn; lia]. cbv zeta.
  change (2 ^ (7 * Z.of_N 0)) with 1. rewrite Z.add_0_l, Z.mul_1_l. reflexivity.
Qed.

Lemma decode_int128_loop_none m bs : split_leb bs = None -> forall result shift,
  decode_int128_loop m bs result shift = Err EMal.
Proof.
  induction bs as [|b r IH]; intros Hs result shift; [reflexivity|].
  cbn [split_leb] in Hs. destruct (cont b) eqn:Hc; [|discriminate].
  destruct (split_leb r) as [[? ?]|] eqn:Hr; [discriminate|].
  cbn [decode_int128_loop].
  destruct (negb _).
  - now rewrite (drain_none r Hr b Hc).
  - destruct (shift <? 128)%N eqn:E.
    + unfold shl_s at 1. rewrite E. cbn [bind]. rewrite Hc. apply IH. reflexivity.
    + cbn [bind]. rewrite Hc. apply IH. reflexivity.
Qed.
Theorem decode_int128_unterminated m bs : split_leb bs = None -> decode_int128 m bs = Err EMal.
Proof. intros H. apply decode_int128_loop_none. exact H. Qed.

(* ---------- signed encoders ---------- *)
Definition srange (f : nat) (z : Z) : Prop := - (64 * 128 ^ Z.of_nat f) <= z < 64 * 128 ^ Z.of_nat f.

Lemma zmod128_val z : Z.of_N (zmod128 z) = z mod 128.
Proof. unfold zmod128. rewrite Z2N.id; [reflexivity|]. apply Z.mod_pos_bound. lia. Qed.
Lemma zmod128_lt z : (zmod128 z < 128)%N.
Proof. pose proof (zmod128_val z). pose proof (Z.mod_pos_bound z 128). lia. Qed.
Lemma low7_small n : (n < 128)%N -> low7 n = n.
Proof. intros H. unfold low7. apply N.mod_small. exact H. Qed.
Lemma low7_cont n : (n < 128)%N -> low7 (n + 128) = n /\ cont (n + 128) = true /\ cont n = false.
Proof.
  intros H. unfold low7, cont. repeat split.
  - rewrite <- (N.mul_1_l 128) at 1. rewrite N.mod_add by discriminate. apply N.mod_small. exact H.
  - apply N.leb_le. lia.
  - apply N.leb_gt. exact H.
Qed.

Lemma srange_div f z : srange (S f) z -> srange f (z / 128).
Proof.
  unfold srange. rewrite pow128z_succ. intros [H1 H2]. split.
  - apply Z.div_le_lower_bound; lia.
  - apply Z.div_lt_upper_bound; lia.
Qed.

Lemma enc_s_done z :
  let b := zmod128 z in let z' := z / 128 in
  ((z' =? 0) && (b <? 64)%N) || ((z' =? -1) && (64 <=? b)%N) = true <-> -64 <= z < 64.
Proof.
  cbv zeta. pose proof (zmod128_val z) as Hb. pose proof (Z.mod_pos_bound z 128 ltac:(lia)) as Hm.
  pose proof (Z.div_mod z 128 ltac:(lia)) as Hd.
  rewrite orb_true_iff, !andb_true_iff, !Z.eqb_eq, N.ltb_lt, N.leb_le. split.
  - intros [[H1 H2]|[H1 H2]]; lia.
  - intros H. destruct (Z.lt_ge_cases z 0); [right|left]; split; try lia.
Qed.

Lemma enc_s_fuel_spec f : forall z, srange f z ->
  sleb_val (enc_s_fuel f z) = z /\ terminated (enc_s_fuel f z) = true.
Proof.
  assert (Hbase : forall z, -64 <= z < 64 -> sleb_val [zmod128 z] = z /\ terminated [zmod128 z] = true).
  { intros z Hz. pose proof (zmod128_val z) as Hb. pose proof (zmod128_lt z) as Hlt.
    pose proof (Z.div_mod z 128 ltac:(lia)) as Hd. pose proof (Z.mod_pos_bound z 128 ltac:(lia)) as Hm.
    destruct (low7_cont _ Hlt) as (_ & _ & Hc).
    split; [|cbn; now rewrite Hc].
    rewrite sleb_single, low7_small by exact Hlt.
    destruct (Z.lt_ge_cases z 0).
    - assert (z / 128 = -1).
      { assert (z / 128 < 0) by (apply Z.div_lt_upper_bound; lia).
        assert (-1 <= z / 128) by (apply Z.div_le_lower_bound; lia). lia. }
      assert (E : (64 <=? zmod128 z)%N = true) by (apply N.leb_le; lia). rewrite E. lia.
    - assert (z / 128 = 0).
      { assert (z / 128 < 1) by (apply Z.div_lt_upper_bound; lia).
        assert (0 <= z / 128) by (apply Z.div_pos; lia). lia. }
      assert (E : (64 <=? zmod128 z)%N = false) by (apply N.leb_gt; lia). rewrite E. lia. }
  induction f as [|f IH]; intros z Hz.
  - unfold srange in Hz. change (128 ^ Z.of_nat 0) with 1 in Hz. cbn [enc_s_fuel]. apply Hbase. lia.
  - cbn [enc_s_fuel].
    destruct (((z / 128 =? 0) && (zmod128 z <? 64)%N) || ((z / 128 =? -1) && (64 <=? zmod128 z)%N)) eqn:Hd.
    + apply Hbase. apply (enc_s_done z). exact Hd.
    + pose proof (zmod128_lt z) as Hlt. destruct (low7_cont _ Hlt) as (Hl & Hc & _).
      destruct (IH _ (srange_div _ _ Hz)) as [Hv Ht].
      assert (Hne : enc_s_fuel f (z / 128) <> []) by (destruct f; cbn [enc_s_fuel]; cbv zeta; [discriminate|match goal with |- (if ?c then _ else _) <> _ => destruct c end; discriminate]).
      split.
      * rewrite sleb_val_cons by exact Hne. rewrite Hl, Hv, zmod128_val.
        pose proof (Z.div_mod z 128 ltac:(lia)). lia.
      * rewrite terminated_cons by exact Hne. now rewrite Hc, Ht.
Qed.

Lemma enc_s_fuel_ok z : srange (N.to_nat (N.size (Z.abs_N z)) + 1) z.
Proof.
  unfold srange. set (s := N.size (Z.abs_N z)).
  assert (Habs : Z.of_N (Z.abs_N z) < 2 ^ Z.of_N s).
  { pose proof (N.size_gt (Z.abs_N z)) as H. fold s in H. apply N2Z.inj_lt in H. rewrite N2Z.inj_pow in H. exact H. }
  rewrite N2Z.inj_abs_N in Habs.
  assert (Hpow : 2 ^ Z.of_N s <= 64 * 128 ^ Z.of_nat (N.to_nat s + 1)).
  { rewrite pow128_2. change 64 with (2 ^ 6). rewrite <- Z.pow_add_r by lia.
    apply Z.pow_le_mono_r; lia. }
  lia.
Qed.

Theorem enc_s_value z : sleb_val (enc_s z) = z.
Proof. apply enc_s_fuel_spec, enc_s_fuel_ok. Qed.
Theorem enc_s_terminated z : terminated (enc_s z) = true.
Proof. apply enc_s_fuel_spec, enc_s_fuel_ok. Qed.

Lemma enc_s_fuel_length f : forall z k, srange f z -> srange k z -> (length (enc_s_fuel f z) <= S k)%nat.
Proof.
  induction f as [|f IH]; intros z k Hf Hk; cbn [enc_s_fuel]; [cbn; lia|].
  destruct (((z / 128 =? 0) && (zmod128 z <? 64)%N) || ((z / 128 =? -1) && (64 <=? zmod128 z)%N)) eqn:Hd; [cbn; lia|].
  destruct k as [|k].
  - exfalso. unfold srange in Hk. change (128 ^ Z.of_nat 0) with 1 in Hk.
    assert (Hd' : ((z / 128 =? 0) && (zmod128 z <? 64)%N) || ((z / 128 =? -1) && (64 <=? zmod128 z)%N) = true)
      by (apply (enc_s_done z); lia).
    congruence.
  - cbn [length]. apply le_n_S. apply IH; apply srange_div; assumption.
Qed.

Lemma sleb_val_range bs : terminated bs = true -> srange (length bs - 1) (sleb_val bs).
Proof.
  induction bs as [|b r IH]; [discriminate|]. intros Ht.
  destruct r as [|b' r'].
  - unfold srange. cbn [length Nat.sub]. change (128 ^ Z.of_nat 0) with 1.
    rewrite sleb_single. pose proof (low7_z b). destruct (64 <=? low7 b)%N eqn:E; [apply N.leb_le in E|apply N.leb_gt in E]; lia.
  - rewrite terminated_cons in Ht by discriminate. apply andb_true_iff in Ht as [_ Ht].
    specialize (IH Ht). rewrite (sleb_val_cons b (b' :: r')) by discriminate.
    unfold srange in *. replace (length (b :: b' :: r') - 1)%nat with (S (length (b' :: r') - 1)) by (cbn [length]; lia).
    rewrite pow128z_succ. pose proof (low7_z b). lia.
Qed.

Theorem enc_s_minimal bs : terminated bs = true -> (length (enc_s (sleb_val bs)) <= length bs)%nat.
Proof.
  intros Ht. destruct bs as [|b r]; [discriminate|].
  unfold enc_s. replace (length (b :: r)) with (S (length (b :: r) - 1)) by (cbn; lia).
  apply enc_s_fuel_length; [apply enc_s_fuel_ok|apply sleb_val_range; exact Ht].
Qed.

(* the leb128-crate loop (i64) and encode_int (i128) are the spec encoder on their domains *)
Lemma write_signed_is_enc_s f : forall g v, srange f v -> srange g v ->
  write_signed_fuel (S f) v = enc_s_fuel g v.
Proof.
  assert (Hbyte : forall v, (Z.to_N (v mod 256) mod 128)%N = zmod128 v).
  { intros v. unfold zmod128. apply N2Z.inj. rewrite N2Z.inj_mod.
    rewrite !Z2N.id by (apply Z.mod_pos_bound; lia). change (Z.of_N 128) with 128.
    change 256 with (128 * 2). rewrite Z.rem_mul_r by lia.
    rewrite (Z.mul_comm 128), Z.mod_add by lia. apply Z.mod_mod. lia. }
  assert (Hdone : forall v, (v / 64 =? 0) || (v / 64 =? -1) = true <-> -64 <= v < 64).
  { intros v. rewrite orb_true_iff, !Z.eqb_eq. pose proof (Z.div_mod v 64 ltac:(lia)). pose proof (Z.mod_pos_bound v 64 ltac:(lia)).
    split; [intros [H1|H1]; lia|].
    intros H1. destruct (Z.lt_ge_cases v 0); [right|left].
    - assert (v / 64 < 0) by (apply Z.div_lt_upper_bound; lia).
      assert (-1 <= v / 64) by (apply Z.div_le_lower_bound; lia). lia.
    - assert (v / 64 < 1) by (apply Z.div_lt_upper_bound; lia).
      assert (0 <= v / 64) by (apply Z.div_pos; lia). lia. }
  induction f as [|f IH]; intros g v Hf Hg.
  - unfold srange in Hf. change (128 ^ Z.of_nat 0) with 1 in Hf.
    assert (Hd : (v / 64 =? 0) || (v / 64 =? -1) = true) by (apply Hdone; lia).
    cbn [write_signed_fuel]. rewrite Hd, Hbyte.
    destruct g; cbn [enc_s_fuel]; [reflexivity|].
    assert (Hd2 : ((v / 128 =? 0) && (zmod128 v <? 64)%N) || ((v / 128 =? -1) && (64 <=? zmod128 v)%N) = true)
      by (apply (enc_s_done v); lia).
    now rewrite Hd2.
  - change (write_signed_fuel (S (S f)) v) with
      (let byte := Z.to_N (v mod 256) in let v6 := v / 64 in
       if (v6 =? 0) || (v6 =? -1) then [(byte mod 128)%N]
       else (byte mod 128 + 128)%N :: write_signed_fuel (S f) (v6 / 2)).
    cbv zeta. rewrite Hbyte.
    destruct ((v / 64 =? 0) || (v / 64 =? -1)) eqn:Hd.
    + apply Hdone in Hd.
      assert (Hd2 : ((v / 128 =? 0) && (zmod128 v <? 64)%N) || ((v / 128 =? -1) && (64 <=? zmod128 v)%N) = true)
        by (apply (enc_s_done v); lia).
      destruct g; cbn [enc_s_fuel]; [reflexivity|]. now rewrite Hd2.
    + assert (Hnd : ~ (-64 <= v < 64)) by (intros H; apply Hdone in H; congruence).
      assert (Hd2 : ((v / 128 =? 0) && (zmod128 v <? 64)%N) || ((v / 128 =? -1) && (64 <=? zmod128 v)%N) = false).
      { apply not_true_iff_false. intros H. apply (enc_s_done v) in H. contradiction. }
      destruct g as [|g].
      * exfalso. unfold srange in Hg. change (128 ^ Z.of_nat 0) with 1 in Hg. lia.
      * cbn [enc_s_fuel]. rewrite Hd2. f_equal.
        rewrite Z.div_div by lia. change (64 * 2) with 128.
        apply IH; apply srange_div; assumption.
Qed.

Theorem write_signed64_is_enc_s v : - 2 ^ 63 <= v < 2 ^ 63 -> write_signed64 v = enc_s v.
Proof.
  intros H. unfold write_signed64, enc_s. apply (write_signed_is_enc_s 9); [|apply enc_s_fuel_ok].
  unfold srange. change (64 * 128 ^ Z.of_nat 9) with (2 ^ 69).
  assert (2 ^ 63 <= 2 ^ 69) by (apply Z.pow_le_mono_r; lia). lia.
Qed.
Theorem encode_int128_is_enc_s v : - 2 ^ 127 <= v < 2 ^ 127 -> encode_int128 v = enc_s v.
Proof.
  intros H. unfold encode_int128, enc_s. apply (write_signed_is_enc_s 18); [|apply enc_s_fuel_ok].
  unfold srange. change (64 * 128 ^ Z.of_nat 18) with (2 ^ 132).
  assert (2 ^ 127 <= 2 ^ 132) by (apply Z.pow_le_mono_r; lia). lia.
Qed.
