(* M^-1 (M v) = v : decoding the value encoding at the same type returns the value and the rest of the input. *)
From Coq Require Import Lia.
From CandidV Require Import model.Leb model.Wire proofs.LebProofs proofs.SlebProofs proofs.TyProofs.
Open Scope N_scope.

Section ValInd.
  Variable P : val -> Prop.
  Hypothesis HNull : P VNull.
  Hypothesis HReserved : P VReserved.
  Hypothesis HBool : forall b, P (VBool b).
  Hypothesis HNat : forall n, P (VNat n).
  Hypothesis HInt : forall z, P (VInt z).
  Hypothesis HNatN : forall b n, P (VNatN b n).
  Hypothesis HIntN : forall b z, P (VIntN b z).
  Hypothesis HFloat : forall b x, P (VFloat b x).
  Hypothesis HText : forall bs, P (VText bs).
  Hypothesis HNone : P (VOpt None).
  Hypothesis HSome : forall w, P w -> P (VOpt (Some w)).
  Hypothesis HVec : forall vs, Forall P vs -> P (VVec vs).
  Hypothesis HRec : forall fs, Forall (fun f => P (snd f)) fs -> P (VRec fs).
  Hypothesis HVariant : forall i w, P w -> P (VVariant i w).
  Hypothesis HPrincipal : forall bs, P (VPrincipal bs).
  Hypothesis HService : forall bs, P (VService bs).
  Hypothesis HFunc : forall bs m, P (VFunc bs m).
  Fixpoint val_ind' (v : val) : P v :=
    match v with
    | VNull => HNull | VReserved => HReserved | VBool b => HBool b | VNat n => HNat n | VInt z => HInt z
    | VNatN b n => HNatN b n | VIntN b z => HIntN b z | VFloat b x => HFloat b x | VText bs => HText bs
    | VOpt None => HNone
    | VOpt (Some w) => HSome w (val_ind' w)
    | VVec vs => HVec vs ((fix go (l : list val) : Forall P l :=
                   match l with [] => Forall_nil _ | x :: l' => Forall_cons x (val_ind' x) (go l') end) vs)
    | VRec fs => HRec fs ((fix go (l : list (N * val)) : Forall (fun f => P (snd f)) l :=
                   match l with [] => Forall_nil _ | f :: l' => Forall_cons f (val_ind' (snd f)) (go l') end) fs)
    | VVariant i w => HVariant i w (val_ind' w)
    | VPrincipal bs => HPrincipal bs | VService bs => HService bs | VFunc bs m => HFunc bs m
    end.
End ValInd.

Fixpoint vdepth (v : val) : nat :=
  S match v with
    | VOpt (Some w) | VVariant _ w => vdepth w
    | VVec vs => fold_right (fun w a => Nat.max (vdepth w) a) O vs
    | VRec fs => fold_right (fun f a => Nat.max (vdepth (snd f)) a) O fs
    | _ => O
    end.

(* ---------- pieces ---------- *)
Lemma enc_u_len10 n : n < 2 ^ 64 -> (length (enc_u n) <= 10)%nat.
Proof.
  intros H. unfold enc_u. apply (enc_u_fuel_length _ n 9); [apply size_bound|].
  change (128 ^ N.of_nat 10) with (2 ^ 70). eapply N.lt_le_trans; [exact H|]. apply N.pow_le_mono_r; lia.
Qed.

Lemma read_u64_enc n rest : n < 2 ^ 64 -> read_u64 (enc_u n ++ rest) = Ok (n, rest).
Proof.
  intros H. unfold read_u64. rewrite split_leb_app by apply enc_u_terminated. rewrite enc_u_value.
  pose proof (enc_u_len10 n H) as Hl.
  assert (E1 : N.of_nat (length (enc_u n)) <=? 10 = true) by (apply N.leb_le; lia).
  assert (E2 : n <? 2 ^ 64 = true) by (apply N.ltb_lt; exact H).
  now rewrite E1, E2.
Qed.

Lemma take_bytes_app bs rest : take_bytes (N.of_nat (length bs)) (bs ++ rest) = Ok (bs, rest).
Proof.
  unfold take_bytes. rewrite app_length, Nat2N.inj_add.
  assert (E : N.of_nat (length bs) <=? N.of_nat (length bs) + N.of_nat (length rest) = true) by (apply N.leb_le; lia).
  rewrite E, Nat2N.id. rewrite firstn_app, Nat.sub_diag, firstn_all. cbn [firstn]. rewrite app_nil_r.
  rewrite skipn_app, Nat.sub_diag, skipn_all. reflexivity.
Qed.

Lemma le_bytes_len k : forall n, length (le_bytes k n) = k.
Proof. induction k as [|k IH]; intros n; cbn; [reflexivity|now rewrite IH]. Qed.

Lemma le_val_bytes k : forall n, n < 256 ^ N.of_nat k -> le_val (le_bytes k n) = n.
Proof.
  induction k as [|k IH]; intros n Hn.
  - change (256 ^ N.of_nat 0) with 1 in Hn. cbn. lia.
  - cbn [le_bytes le_val]. rewrite Nat2N.inj_succ, N.pow_succ_r' in Hn. rewrite IH.
    + pose proof (N.div_mod n 256). lia.
    + apply N.div_lt_upper_bound; lia.
Qed.

Lemma take_le k n rest : take_bytes (N.of_nat k) (le_bytes k n ++ rest) = Ok (le_bytes k n, rest).
Proof. rewrite <- (le_bytes_len k n) at 1. apply take_bytes_app. Qed.

Lemma principal_bytes_dec bs rest : principal_ok bs = true ->
  dec_principal_bytes (principal_bytes bs ++ rest) = Ok (bs, rest).
Proof.
  intros H. unfold principal_ok in H. apply andb_true_iff in H as [_ Hl]. apply N.leb_le in Hl.
  unfold principal_bytes, dec_principal_bytes. cbn [app]. rewrite <- app_assoc.
  rewrite read_u64_enc by (eapply N.le_lt_trans; [exact Hl|reflexivity]). cbn [bind fst snd].
  assert (E : N.of_nat (length bs) <=? Consts.principal_max_len = true) by (apply N.leb_le; exact Hl).
  rewrite E. apply take_bytes_app.
Qed.

Lemma pow_bits p sg b : prim_bits p = Some (sg, b) -> 2 ^ b = 256 ^ N.of_nat (nbytes b) /\ N.of_nat (nbytes b) = b / 8 /\ 0 < b.
Proof. destruct p; cbn; intros H; inversion H; subst; repeat split; reflexivity. Qed.

Lemma vec_go_roundtrip (E : env) (t1 : ty) f' (vs : list val) :
  Forall (fun v => forall E t bs f rest, has_type E v t = true -> enc_val E v t = Some bs -> (vdepth v < f)%nat ->
                                          dec_val f E t (bs ++ rest) = Ok (v, rest)) vs ->
  forallb (fun w => has_type E w t1) vs = true ->
  (fold_right (fun w a => Nat.max (vdepth w) a) O vs < f')%nat ->
  forall b rest,
  (fix go (vs : list val) : option (list N) :=
     match vs with
     | [] => Some []
     | w :: r => match enc_val E w t1, go r with Some b, Some br => Some (b ++ br) | _, _ => None end
     end) vs = Some b ->
  (fix go (k : nat) (bs : list N) : res (list val * list N) :=
     match k with
     | O => Ok ([], bs)
     | S k' => do wr <- dec_val f' E t1 bs; do rr <- go k' (snd wr); Ok (fst wr :: fst rr, snd rr)
     end) (length vs) (b ++ rest) = Ok (vs, rest).
Proof.
  induction 1 as [|w r Hw Hr IH]; intros Ht Hd b rest He.
  - inversion He; subst. reflexivity.
  - cbn [forallb] in Ht. apply andb_true_iff in Ht as [Htw Htr].
    cbn [fold_right] in Hd.
    destruct (enc_val E w t1) as [bw|] eqn:Ew; [|discriminate].
    match type of He with match ?g with _ => _ end = _ => destruct g as [br|] eqn:Er; [|discriminate] end.
    inversion He; subst. cbn [length]. rewrite <- app_assoc.
    rewrite (Hw E t1 bw f' (br ++ rest) Htw Ew) by lia. cbn [bind fst snd].
    rewrite (IH Htr ltac:(lia) br rest eq_refl). reflexivity.
Qed.

Lemma rec_go_roundtrip (E : env) f' (fs : list (N * val)) :
  Forall (fun fv => forall E t bs f rest, has_type E (snd fv) t = true -> enc_val E (snd fv) t = Some bs -> (vdepth (snd fv) < f)%nat ->
                                          dec_val f E t (bs ++ rest) = Ok (snd fv, rest)) fs ->
  forall ts,
  (fix go (fs : list (N * val)) (ts : list (N * ty)) : bool :=
     match fs, ts with
     | [], [] => true
     | (i, w) :: fr, (j, tj) :: tr => (i =? j) && has_type E w tj && go fr tr
     | _, _ => false
     end) fs ts = true ->
  (fold_right (fun f a => Nat.max (vdepth (snd f)) a) O fs < f')%nat ->
  forall b rest,
  (fix go (fs : list (N * val)) (ts : list (N * ty)) : option (list N) :=
     match fs, ts with
     | [], [] => Some []
     | (i, w) :: fr, (j, tj) :: tr =>
         if i =? j then match enc_val E w tj, go fr tr with Some b, Some br => Some (b ++ br) | _, _ => None end else None
     | _, _ => None
     end) fs ts = Some b ->
  (fix go (ts : list (N * ty)) (bs : list N) : res (list (N * val) * list N) :=
     match ts with
     | [] => Ok ([], bs)
     | (i, ti) :: tr => do wr <- dec_val f' E ti bs; do rr <- go tr (snd wr); Ok ((i, fst wr) :: fst rr, snd rr)
     end) ts (b ++ rest) = Ok (fs, rest).
Proof.
  induction 1 as [|[i w] r Hw Hr IH]; intros [|[j tj] tr] Ht Hd b rest He; try discriminate.
  - inversion He; subst. reflexivity.
  - apply andb_true_iff in Ht as [Ht1 Htr]. apply andb_true_iff in Ht1 as [Hij Htw]. apply N.eqb_eq in Hij. subst j.
    rewrite N.eqb_refl in He. cbn [snd] in Hw. cbn [fold_right snd] in Hd.
    destruct (enc_val E w tj) as [bw|] eqn:Ew; [|discriminate].
    match type of He with match ?g with _ => _ end = _ => destruct g as [br|] eqn:Er; [|discriminate] end.
    inversion He; subst. rewrite <- app_assoc.
    rewrite (Hw E tj bw f' (br ++ rest) Htw Ew) by lia. cbn [bind fst snd].
    rewrite (IH tr Htr ltac:(lia) br rest Er). reflexivity.
Qed.

Lemma index_of_nth i ts : forall k0 k ti, index_of i ts k0 = Some (k, ti) ->
  k0 <= k /\ nth_error ts (N.to_nat (k - k0)) = Some (i, ti) /\ k - k0 < N.of_nat (length ts) /\ find_field i ts = Some ti.
Proof.
  induction ts as [|[j t] r IH]; intros k0 k ti H; [discriminate|].
  cbn [index_of] in H. cbn [find_field]. destruct (N.eqb_spec i j) as [->|Hne].
  - inversion H; subst. rewrite N.sub_diag. cbn. repeat split; try lia.
  - destruct (IH _ _ _ H) as (H1 & H2 & H3 & H4). repeat split; try lia.
    + replace (N.to_nat (k - k0)) with (S (N.to_nat (k - (k0 + 1)))) by lia. exact H2.
    + cbn [length]. lia.
    + exact H4.
Qed.

Theorem dec_enc_val v : forall E t out f rest,
  has_type E v t = true -> enc_val E v t = Some out -> (vdepth v < f)%nat ->
  dec_val f E t (out ++ rest) = Ok (v, rest).
Proof.
  induction v using val_ind'; intros E t out f rest Ht He Hf; (destruct f as [|f']; [cbn in Hf; lia|]);
    cbn [has_type] in Ht; cbn [enc_val] in He; cbn [dec_val];
    (destruct (trace E t) as [t'|]; [|discriminate]).
  - (* null *) destruct t' as [[]| | | | | | | | |]; try discriminate. inversion He; subst. reflexivity.
  - (* reserved *) destruct t' as [[]| | | | | | | | |]; try discriminate. inversion He; subst. reflexivity.
  - (* bool *) destruct t' as [[]| | | | | | | | |]; try discriminate. inversion He; subst. destruct b; reflexivity.
  - (* nat *) destruct t' as [[]| | | | | | | | |]; try discriminate. inversion He; subst.
    rewrite split_leb_app by apply enc_u_terminated. now rewrite enc_u_value.
  - (* int *) destruct t' as [[]| | | | | | | | |]; try discriminate. inversion He; subst.
    rewrite split_leb_app by apply enc_s_terminated. now rewrite enc_s_value.
  - (* natN *) destruct t' as [p| | | | | | | | |]; try discriminate.
    destruct (prim_bits p) as [[sg b']|] eqn:Hp; [|discriminate]. destruct sg; [discriminate|].
    apply andb_true_iff in Ht as [Hb Hn]. apply N.eqb_eq in Hb. subst b'. rewrite N.eqb_refl in He. inversion He; subst.
    destruct (pow_bits _ _ _ Hp) as (Hpow & Hnb & _). apply N.ltb_lt in Hn.
    assert (Hd : dec_val (S f') E t (le_bytes (nbytes b) n ++ rest) = Ok (VNatN b n, rest) -> True) by trivial.
    destruct p; cbn in Hp; inversion Hp; subst; cbn [prim_bits bind];
      (rewrite <- Hnb; rewrite take_le; cbn [bind fst snd]; rewrite le_val_bytes by (rewrite <- Hpow; exact Hn); reflexivity).
  - (* intN *) destruct t' as [p| | | | | | | | |]; try discriminate.
    destruct (prim_bits p) as [[sg b']|] eqn:Hp; [|discriminate]. destruct sg; [|discriminate].
    apply andb_true_iff in Ht as [Ht1 Hhi]. apply andb_true_iff in Ht1 as [Hb Hlo]. apply N.eqb_eq in Hb. subst b'.
    rewrite N.eqb_refl in He. inversion He; subst.
    destruct (pow_bits _ _ _ Hp) as (Hpow & Hnb & Hpos). apply Z.leb_le in Hlo. apply Z.ltb_lt in Hhi.
    assert (H2b : (2 ^ Z.of_N b = 2 * 2 ^ (Z.of_N b - 1))%Z).
    { replace (Z.of_N b) with (Z.succ (Z.of_N b - 1)) at 1 by lia. rewrite Z.pow_succ_r by lia. reflexivity. }
    assert (Hmod : (0 <= z mod 2 ^ Z.of_N b < 2 ^ Z.of_N b)%Z) by (apply Z.mod_pos_bound; lia).
    remember (Z.to_N (z mod 2 ^ Z.of_N b)) as m eqn:Em.
    assert (Hm : Z.of_N m = (z mod 2 ^ Z.of_N b)%Z) by (rewrite Em, Z2N.id; lia).
    clear Em.
    assert (Hmlt : m < 2 ^ b).
    { apply N2Z.inj_lt. rewrite Hm, N2Z.inj_pow. change (Z.of_N 2) with 2%Z. lia. }
    assert (Hres : (if m <? 2 ^ (b - 1) then Z.of_N m else (Z.of_N m - 2 ^ Z.of_N b)%Z) = z).
    { assert (Hpb : Z.of_N (2 ^ (b - 1)) = (2 ^ (Z.of_N b - 1))%Z) by (rewrite N2Z.inj_pow, N2Z.inj_sub by lia; reflexivity).
      destruct (N.ltb_spec m (2 ^ (b - 1))) as [Hl|Hl]; apply N2Z.inj_lt in Hl || apply N2Z.inj_le in Hl; rewrite Hpb, Hm in Hl.
      - destruct (Z.lt_ge_cases z 0).
        + rewrite <- (Z.mod_unique z (2 ^ Z.of_N b) (-1) (z + 2 ^ Z.of_N b)) in Hl by lia. lia.
        + rewrite Hm. apply Z.mod_small. lia.
      - rewrite Hm. destruct (Z.lt_ge_cases z 0).
        + rewrite <- (Z.mod_unique z (2 ^ Z.of_N b) (-1) (z + 2 ^ Z.of_N b)) by lia. lia.
        + rewrite Z.mod_small in Hl by lia. lia. }
    destruct p; cbn in Hp; try discriminate; injection Hp as Hb8; subst b; cbn [prim_bits bind];
      (rewrite <- Hnb; rewrite take_le; cbn [bind fst snd]; rewrite le_val_bytes by (rewrite <- Hpow; exact Hmlt);
       rewrite Hres; reflexivity).
  - (* float *)
    destruct b as [|p0]; [destruct t' as [[]| | | | | | | | |]; discriminate|].
    do 7 (try (destruct p0 as [p0|p0|]; try (destruct t' as [[]| | | | | | | | |]; discriminate))).
    + (* 64 *) destruct t' as [[]| | | | | | | | |]; try discriminate. replace out with (le_bytes 8 x) by congruence. clear He. apply N.ltb_lt in Ht. cbv [prim_bits bind].
      change 8 with (N.of_nat 8) at 1. rewrite take_le. cbv [bind fst snd]. rewrite le_val_bytes by exact Ht. reflexivity.
    + (* 32 *) destruct t' as [[]| | | | | | | | |]; try discriminate. replace out with (le_bytes 4 x) by congruence. clear He. apply N.ltb_lt in Ht. cbv [prim_bits bind].
      change 4 with (N.of_nat 4) at 1. rewrite take_le. cbv [bind fst snd]. rewrite le_val_bytes by exact Ht. reflexivity.
  - (* text *) destruct t' as [[]| | | | | | | | |]; try discriminate.
    destruct (N.of_nat (length bs) <? 2 ^ 64) eqn:Hl; [|discriminate]. inversion He; subst. apply N.ltb_lt in Hl.
    rewrite <- app_assoc, read_u64_enc by exact Hl. cbn [bind fst snd]. rewrite take_bytes_app. cbn [bind fst snd].
    now rewrite Ht.
  - (* none *) destruct t'; try discriminate. inversion He; subst. reflexivity.
  - (* some *) destruct t'; try discriminate.
    destruct (enc_val E v t') as [b|] eqn:Eb; [|discriminate]. inversion He; subst. cbn [app].
    rewrite (IHv E t' b f' rest Ht Eb) by (cbn in Hf; lia). reflexivity.
  - (* vec *) destruct t'; try discriminate.
    match type of He with match ?g with _ => _ end = _ => destruct g as [b|] eqn:Eb; [|discriminate] end.
    destruct (N.of_nat (length vs) <=? max_count) eqn:Hl; [|discriminate]. inversion He; subst. apply N.leb_le in Hl.
    rewrite <- app_assoc, read_u64_enc by (eapply N.le_lt_trans; [exact Hl|reflexivity]). cbn [bind fst snd].
    assert (E1 : max_count <? N.of_nat (length vs) = false) by (apply N.ltb_ge; exact Hl). rewrite E1.
    rewrite Nat2N.id.
    rewrite (vec_go_roundtrip E t' f' vs H Ht ltac:(cbn in Hf; lia) b rest Eb). reflexivity.
  - (* record *) destruct t'; try discriminate.
    rewrite (rec_go_roundtrip E f' fs H fs0 Ht ltac:(cbn in Hf; lia) out rest He). reflexivity.
  - (* variant *) destruct t'; try discriminate.
    destruct (index_of i fs 0) as [[k ti]|] eqn:Hi; [|discriminate].
    destruct (index_of_nth _ _ _ _ _ Hi) as (_ & Hnth & Hlt & Hff). rewrite N.sub_0_r in Hnth, Hlt.
    rewrite Hff in Ht.
    destruct (enc_val E v ti) as [b|] eqn:Eb; [|discriminate].
    destruct (k <? 2 ^ 64) eqn:Hk; [|discriminate]. inversion He; subst. apply N.ltb_lt in Hk.
    rewrite <- app_assoc, read_u64_enc by exact Hk. cbn [bind fst snd].
    apply N.ltb_lt in Hlt. rewrite Hlt, Hnth.
    rewrite (IHv E ti b f' rest Ht Eb) by (cbn in Hf; lia). reflexivity.
  - (* principal *) destruct t' as [[]| | | | | | | | |]; try discriminate.
    replace out with (principal_bytes bs) by congruence. cbv [prim_bits].
    rewrite principal_bytes_dec by exact Ht. reflexivity.
  - (* service *) destruct t'; try discriminate.
    replace out with (principal_bytes bs) by congruence.
    rewrite principal_bytes_dec by exact Ht. reflexivity.
  - (* func *) destruct t'; try discriminate.
    destruct (N.of_nat (length m) <? 2 ^ 64) eqn:Hl; [|discriminate].
    replace out with (1 :: principal_bytes bs ++ enc_u (N.of_nat (length m)) ++ m) by congruence. apply N.ltb_lt in Hl.
    apply andb_true_iff in Ht as [Hp Hm]. cbn [app]. rewrite <- app_assoc.
    rewrite principal_bytes_dec by exact Hp. cbn [bind fst snd]. rewrite <- app_assoc.
    rewrite read_u64_enc by exact Hl. cbn [bind fst snd]. rewrite take_bytes_app. cbn [bind fst snd]. now rewrite Hm.
Qed.
