From CandidV Require Import model.Escape.
From Coq Require Import Lia.
Open Scope N_scope.

(* an escaped doc comment line never closes the comment *)
Lemma esc_doc_no_close_len : forall n s, (length s <= n)%nat -> has_close (esc_doc s) = false /\
  (forall c, c <> 42 -> has_close (c :: esc_doc s) = false).
Proof.
  induction n as [|n IH]; intros s Hn.
  - destruct s; [|cbn in Hn; lia]. cbn. split; [reflexivity|intros; reflexivity].
  - destruct s as [|c r]; [cbn; split; [reflexivity|intros; reflexivity]|].
    cbn [length] in Hn. assert (Hr : (length r <= n)%nat) by lia.
    destruct (IH r Hr) as [H1 H2].
    assert (G : has_close (esc_doc (c :: r)) = false).
    { cbn [esc_doc]. destruct (c =? 42) eqn:E.
      - destruct r as [|d r']; [reflexivity|]. destruct (d =? 47) eqn:F.
        + assert (Hr' : (length r' <= n)%nat) by (cbn in Hr; lia). destruct (IH r' Hr') as [K1 K2].
          cbn [has_close]. cbn [N.eqb Pos.eqb andb orb].
          specialize (K2 47 ltac:(discriminate)). cbn [has_close] in K2 |- *.
          destruct (esc_doc r') as [|e t]; [reflexivity|]. cbn [N.eqb Pos.eqb andb orb] in *. exact K2.
        + apply N.eqb_eq in E. subst c. cbn [has_close].
          destruct (esc_doc (d :: r')) as [|e t] eqn:Q; [reflexivity|].
          assert (e = d).
          { cbn [esc_doc] in Q. destruct (d =? 42) eqn:D.
            - apply N.eqb_eq in D. subst d. destruct r' as [|d2 r2]; [inversion Q; reflexivity|destruct (d2 =? 47); inversion Q; reflexivity].
            - inversion Q; reflexivity. }
          subst e. rewrite F. rewrite andb_false_r. cbn [orb]. exact H1.
      - apply (H2 c). intros ->. discriminate. }
    split; [exact G|]. intros c0 Hc0. cbn [has_close]. destruct (esc_doc (c :: r)) as [|e t] eqn:Q; [reflexivity|].
    apply N.eqb_neq in Hc0. rewrite Hc0. cbn [andb orb]. exact G.
Qed.
Theorem esc_doc_no_close s : has_close (esc_doc s) = false.
Proof. exact (proj1 (esc_doc_no_close_len (length s) s (le_n _))). Qed.

(* a literal whose characters are escaped one by one by an escaping that satisfies esc_ok ends exactly at its closing quote *)
Section Quote.
  Variable esc : N -> list N.
  Variable q : N.
  Hypothesis Hq : q = 39 \/ q = 34.
  Hypothesis Hesc : forall c, esc_ok (esc c) = true.

  Lemma scan_plain l rest : forallb plain l = true -> scan_lit q (l ++ rest) = scan_lit q rest.
  Proof.
    induction l as [|c r IH]; intros H; [reflexivity|]. cbn [forallb] in H. apply andb_true_iff in H as [Hc Hr].
    cbn [app scan_lit]. unfold plain in Hc. apply negb_true_iff in Hc. repeat (apply orb_false_iff in Hc as [Hc ?]).
    assert (c =? q = false) by (destruct Hq as [-> | ->]; assumption).
    rewrite H3. rewrite H1. rewrite H0, H. cbn [orb]. apply IH; exact Hr.
  Qed.
  Lemma scan_esc c rest : scan_lit q (esc c ++ rest) = scan_lit q rest.
  Proof.
    specialize (Hesc c). destruct (esc c) as [|a l]; [discriminate|]. unfold esc_ok in Hesc.
    destruct l as [|d r].
    - apply (scan_plain [a] rest). cbn [forallb]. rewrite Hesc. reflexivity.
    - apply andb_true_iff in Hesc as [Hesc Hr]. apply andb_true_iff in Hesc as [Ha Hd]. apply N.eqb_eq in Ha. subst a.
      cbn [app scan_lit]. assert (92 =? q = false) by (destruct Hq as [-> | ->]; reflexivity). rewrite H. cbn [N.eqb Pos.eqb].
      apply scan_plain; exact Hr.
  Qed.
  Theorem literal_closed s rest : scan_lit q (esc_string esc s ++ q :: rest) = Some rest.
  Proof.
    unfold esc_string. induction s as [|c r IH]; cbn [flat_map app].
    - cbn [scan_lit]. rewrite N.eqb_refl. reflexivity.
    - rewrite <- app_assoc. rewrite scan_esc. exact IH.
  Qed.
End Quote.
