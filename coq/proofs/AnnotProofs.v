(* annotate_type keeps every value that already has the type, in both modes. *)
From Coq Require Import Lia.
From CandidV Require Import model.Annot proofs.TyProofs proofs.WireProofs proofs.CoerceProofs.
Open Scope N_scope.

Lemma annot_vec E p f' t1 (vs : list val) :
  ty_closed E t1 = true ->
  Forall (fun v => forall f t, ty_closed E t = true -> has_type E v t = true -> (vdepth v < f)%nat -> annotate f p E v t = Some v) vs ->
  forallb (fun w => has_type E w t1) vs = true ->
  (fold_right (fun w a => Nat.max (vdepth w) a) O vs < f')%nat ->
  (fix go (vs : list val) : option (list val) :=
     match vs with
     | [] => Some []
     | w :: r => match annotate f' p E w t1, go r with Some w', Some r' => Some (w' :: r') | _, _ => None end
     end) vs = Some vs.
Proof.
  intros Hc1. induction 1 as [|w r Hw Hr IH]; intros Ht Hd; [reflexivity|].
  cbn [forallb] in Ht. apply andb_true_iff in Ht as [Htw Htr]. cbn [fold_right] in Hd.
  rewrite (Hw f' t1 Hc1 Htw) by lia. rewrite IH by (try exact Htr; lia). reflexivity.
Qed.

Lemma annot_rec E p f' (fs : list (N * val)) :
  Forall (fun fv => forall f t, ty_closed E t = true -> has_type E (snd fv) t = true -> (vdepth (snd fv) < f)%nat -> annotate f p E (snd fv) t = Some (snd fv)) fs ->
  forall all ts, forallb (fun f => ty_closed E (snd f)) ts = true -> rec_typed E fs ts = true ->
  (forall i w, In (i, w) fs -> find_val i all = Some w) ->
  (fold_right (fun f a => Nat.max (vdepth (snd f)) a) O fs < f')%nat ->
  (fix go (ts : list (N * ty)) : option (list (N * val)) :=
     match ts with
     | [] => Some []
     | (i, ty) :: r =>
         match (match find_val i all with Some w => Some w | None => default_of E ty end) with
         | Some w => match annotate f' p E w ty, go r with Some w', Some r' => Some ((i, w') :: r') | _, _ => None end
         | None => None
         end
     end) ts = Some fs.
Proof.
  induction 1 as [|[i w] r Hw Hr IH]; intros all [|[j tj] tr] Hcl Ht Hall Hd; cbn [rec_typed] in Ht; try discriminate; [reflexivity|].
  apply andb_true_iff in Ht as [Ht1 Htr]. apply andb_true_iff in Ht1 as [Hij Htw]. apply N.eqb_eq in Hij. subst j.
  cbn [forallb snd] in Hcl. apply andb_true_iff in Hcl as [Hcj Hclr].
  cbn [snd] in Hw. cbn [fold_right snd] in Hd.
  rewrite (Hall i w (or_introl eq_refl)). rewrite (Hw f' tj Hcj Htw) by lia.
  rewrite (IH all tr Hclr Htr (fun k x Hk => Hall k x (or_intror Hk))) by lia. reflexivity.
Qed.

(* in a well-typed record value the ids are those of the type, which are unique: looking a field up finds it *)
Lemma rec_find_all E fs : forall ts, rec_typed E fs ts = true -> uniq_ids (map fst ts) = true ->
  forall i w, In (i, w) fs -> find_val i fs = Some w.
Proof.
  induction fs as [|[j x] r IH]; intros [|[k tk] tr] Ht Hu i w Hin; cbn [rec_typed] in Ht; try discriminate; [destruct Hin|].
  apply andb_true_iff in Ht as [Ht1 Htr]. apply andb_true_iff in Ht1 as [Hjk _]. apply N.eqb_eq in Hjk. subst k.
  cbn [map fst uniq_ids] in Hu. apply andb_true_iff in Hu as [Hn Hu]. cbn [find_val].
  destruct Hin as [Heq|Hin].
  - inversion Heq; subst. now rewrite N.eqb_refl.
  - destruct (N.eqb_spec i j) as [->|Hne]; [|eapply IH; eauto].
    exfalso. apply negb_true_iff in Hn.
    assert (Hex : existsb (N.eqb j) (map fst tr) = true).
    { clear -Htr Hin. revert tr Htr. induction r as [|[a y] r IHr]; intros [|[b tb] tr] Htr; cbn [rec_typed] in Htr; try discriminate; [destruct Hin|].
      apply andb_true_iff in Htr as [H1 H2]. apply andb_true_iff in H1 as [Hab _]. apply N.eqb_eq in Hab. subst b.
      cbn [map fst existsb]. destruct Hin as [Heq|Hin]; [inversion Heq; subst; now rewrite N.eqb_refl|].
      rewrite (IHr Hin tr H2). apply orb_true_r. }
    congruence.
Qed.

Theorem annotate_id E p v : forall f t,
  ty_closed E t = true -> wf_env E = true -> has_type E v t = true -> (vdepth v < f)%nat -> annotate f p E v t = Some v.
Proof.
  intros f t Hc Hwf. revert f t Hc.
  induction v using val_ind'; intros f t Hc Ht Hf; (destruct f as [|f']; [cbn in Hf; lia|]);
    destruct (trace_closed E t Hwf Hc) as (a & Ta & Hca & Hnva);
    rewrite (has_type_trace _ _ _ _ Ta) in Ht; rewrite (has_type_nonvar _ _ _ Hnva) in Ht;
    cbn [annotate]; rewrite Ta.
  - destruct a as [[]| | | | | | | | |]; try discriminate; reflexivity.
  - destruct a as [[]| | | | | | | | |]; try discriminate; reflexivity.
  - destruct a as [[]| | | | | | | | |]; try discriminate; reflexivity.
  - destruct a as [[]| | | | | | | | |]; try discriminate; reflexivity.
  - destruct a as [[]| | | | | | | | |]; try discriminate; reflexivity.
  - destruct a as [q| | | | | | | | |]; try discriminate.
    destruct (prim_bits q) as [[sg b']|] eqn:Hp; [|discriminate]. destruct sg; [discriminate|].
    apply andb_true_iff in Ht as [Hb _]. destruct q; cbn in Hp; try discriminate; inversion Hp; subst; cbn [prim_bits]; now rewrite Hb.
  - destruct a as [q| | | | | | | | |]; try discriminate.
    destruct (prim_bits q) as [[sg b']|] eqn:Hp; [|discriminate]. destruct sg; [|discriminate].
    apply andb_true_iff in Ht as [Ht1 _]. apply andb_true_iff in Ht1 as [Hb _].
    destruct q; cbn in Hp; try discriminate; inversion Hp; subst; cbn [prim_bits]; now rewrite Hb.
  - destruct b as [|p0]; [destruct a as [[]| | | | | | | | |]; discriminate|].
    do 7 (try (destruct p0 as [p0|p0|]; try (destruct a as [[]| | | | | | | | |]; discriminate))).
    + destruct a as [[]| | | | | | | | |]; try discriminate; reflexivity.
    + destruct a as [[]| | | | | | | | |]; try discriminate; reflexivity.
  - destruct a as [[]| | | | | | | | |]; try discriminate; reflexivity.
  - destruct a as [[]| | | | | | | | |]; try discriminate; reflexivity.
  - (* some *) destruct a as [q|x|t1|t1|fs1|fs1|aa ra ma|ms|ia ta|]; try discriminate. cbn [ty_closed] in Hca.
    rewrite (IHv f' t1 Hca Ht) by (cbn in Hf; lia). reflexivity.
  - (* vec *) destruct a as [q|x|t1|t1|fs1|fs1|aa ra ma|ms|ia ta|]; try discriminate. cbn [ty_closed] in Hca.
    rewrite (annot_vec E p f' t1 vs Hca H Ht) by (cbn in Hf; lia). reflexivity.
  - (* record *) destruct a as [q|x|t1|t1|fs1|fs1|aa ra ma|ms|ia ta|]; try discriminate. cbn [ty_closed] in Hca.
    apply andb_true_iff in Hca as [Hca Hu].
    rewrite (annot_rec E p f' fs H fs fs1 Hca Ht (rec_find_all E fs fs1 Ht Hu)) by (cbn in Hf; lia). reflexivity.
  - (* variant *) destruct a as [q|x|t1|t1|fs1|fs1|aa ra ma|ms|ia ta|]; try discriminate. cbn [ty_closed] in Hca.
    apply andb_true_iff in Hca as [Hca _].
    destruct (find_field i fs1) as [ti|] eqn:Hff; [|discriminate].
    rewrite (IHv f' ti (find_field_closed E i fs1 ti Hca Hff) Ht) by (cbn in Hf; lia). reflexivity.
  - destruct a as [[]| | | | | | | | |]; try discriminate; reflexivity.
  - destruct a as [[]| | | | | | | | |]; try discriminate; reflexivity.
  - destruct a as [[]| | | | | | | | |]; try discriminate; reflexivity.
Qed.

Lemma vdepth_le_vsize v : (vdepth v <= vsize v)%nat.
Proof.
  induction v using val_ind'; cbn [vdepth vsize]; try lia.
  - apply le_n_S. induction H as [|w r Hw Hr IH]; cbn [fold_right]; lia.
  - apply le_n_S. induction H as [|[i w] r Hw Hr IH]; cbn [fold_right snd] in *; lia.
Qed.

Theorem annotate_top_id E p v t :
  wf_env E = true -> ty_closed E t = true -> has_type E v t = true -> annotate_top p E v t = Some v.
Proof.
  intros Hwf Hc Ht. unfold annotate_top, annot_fuel. apply annotate_id; try assumption.
  pose proof (vdepth_le_vsize v). lia.
Qed.
