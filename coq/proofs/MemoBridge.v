(* MemoBridge.v -- what the type checker accepts is what the subtype checkers need in order to terminate without a
   panic: every name among the sub-term nodes of an accepted environment (and of types checked against it) is bound. *)
From Coq Require Import Lia.
From CandidV Require Import model.Check model.Coerce model.Memo proofs.TyProofs proofs.SubProofs proofs.CoerceProofs proofs.CheckProofs
  proofs.MemoProofs proofs.MemoInst proofs.MemoTotal.
Open Scope N_scope.

Lemma trace_self_nonvar E t : tvarb t = false -> trace E t <> None.
Proof. intros H. rewrite (trace_self E t H). discriminate. Qed.

Lemma closed_subterms_bound E : forall t, ty_closed E t = true -> forall u, In u (subterms t) -> trace E u <> None.
Proof.
  induction t using ty_ind'; cbn [ty_closed subterms]; intros Hc u Hu.
  - destruct Hu as [<-|[]]. apply trace_self_nonvar. reflexivity.
  - destruct Hu as [<-|[]]. destruct (trace E (TVar x)); [discriminate|discriminate Hc].
  - destruct Hu as [<-|Hu]; [apply trace_self_nonvar; reflexivity|]. apply IHt; assumption.
  - destruct Hu as [<-|Hu]; [apply trace_self_nonvar; reflexivity|]. apply IHt; assumption.
  - destruct Hu as [<-|Hu]; [apply trace_self_nonvar; reflexivity|].
    apply andb_true_iff in Hc as [Hf _]. rewrite forallb_forall in Hf. rewrite Forall_forall in H.
    apply in_flat_map in Hu as [f [Hin Hu]]. exact (H f Hin (Hf f Hin) u Hu).
  - destruct Hu as [<-|Hu]; [apply trace_self_nonvar; reflexivity|].
    apply andb_true_iff in Hc as [Hf _]. rewrite forallb_forall in Hf. rewrite Forall_forall in H.
    apply in_flat_map in Hu as [f [Hin Hu]]. exact (H f Hin (Hf f Hin) u Hu).
  - apply andb_true_iff in Hc as [Ha Hr]. rewrite forallb_forall in Ha, Hr. rewrite Forall_forall in H, H0.
    destruct Hu as [<-|[<-|[<-|Hu]]]; try (apply trace_self_nonvar; reflexivity).
    apply in_app_or in Hu. destruct Hu as [Hu|Hu]; apply in_flat_map in Hu as [x [Hin Hu]].
    + exact (H x Hin (Ha x Hin) u Hu).
    + exact (H0 x Hin (Hr x Hin) u Hu).
  - destruct Hu as [<-|Hu]; [apply trace_self_nonvar; reflexivity|].
    rewrite forallb_forall in Hc. rewrite Forall_forall in H.
    apply in_flat_map in Hu as [f [Hin Hu]]. exact (H f Hin (Hc f Hin) u Hu).
  - discriminate.
  - destruct Hu as [<-|[]]. apply trace_self_nonvar. reflexivity.
Qed.

Theorem bound_nodes_of_closed E ts :
  wf_env E = true -> productive E = true -> forallb (ty_closed E) ts = true -> bound_nodes E ts = true.
Proof.
  intros Hwf Hp Hts. unfold bound_nodes. apply forallb_forall. intros t Ht.
  assert (Hn : trace E t <> None).
  { unfold nodes in Ht. apply in_app_or in Ht. destruct Ht as [Ht|Ht].
    - apply in_flat_map in Ht as [r [Hr Ht]]. rewrite forallb_forall in Hts. exact (closed_subterms_bound E r (Hts r Hr) t Ht).
    - apply in_flat_map in Ht as [d [Hd Ht]]. destruct Ht as [<-|Ht].
      + unfold productive in Hp. rewrite forallb_forall in Hp. specialize (Hp d Hd).
        destruct (trace E (TVar (fst d))); [discriminate|discriminate Hp].
      + unfold wf_env in Hwf. rewrite forallb_forall in Hwf. exact (closed_subterms_bound E (snd d) (Hwf d Hd) t Ht). }
  destruct (trace E t); [reflexivity|congruence].
Qed.

(* accepted by the type checker => the subtype / equality checkers are total and correct on it *)
Theorem accepted_env_subtyping_total E qs g f :
  check_decs E = true ->
  forallb (fun q => check_type E (fst q) && check_type E (snd q)) qs = true ->
  sound_memo E g -> (fuel_bound E qs <= f)%nat ->
  let o := sub_history E false f g qs in
  Forall2 (fun q r => (r = MOk <-> sub_dec E (fst q) (snd q) = true) /\ (r = MErr <-> sub_dec E (fst q) (snd q) = false)) qs (snd o)
  /\ sound_memo E (fst o).
Proof.
  intros Hd Hq Hg Hf. apply sub_checker_total_correct; try assumption.
  pose proof (check_decs_wf E Hd) as Hwf.
  assert (Hp : productive E = true). { unfold check_decs in Hd. apply andb_true_iff in Hd as [_ Hp]. exact Hp. }
  apply bound_nodes_of_closed; try assumption.
  apply forallb_forall. intros t Ht. unfold query_types in Ht. apply in_flat_map in Ht as [q [Hin Ht]].
  rewrite forallb_forall in Hq. specialize (Hq q Hin). apply andb_true_iff in Hq as [H1 H2].
  destruct Ht as [<-|[<-|[]]]; apply check_type_closed; assumption.
Qed.
