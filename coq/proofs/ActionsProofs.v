From Coq Require Import Lia.
From CandidV Require Import model.Actions proofs.HashProofs.
Open Scope N_scope.

Definition label_in_range (l : flabel) : Prop := match l with FId i => i < 2 ^ 32 | _ => True end.

(* every id the numbering assigns fits in 32 bits: the increment never wraps to a small id *)
Lemma assign_ids_range ls : Forall label_in_range ls -> forall next ids,
  (forall c, next = Some c -> c < 2 ^ 32) -> assign_ids next ls = Some ids -> Forall (fun i => i < 2 ^ 32) ids.
Proof.
  induction 1 as [|l r Hl Hr IH]; intros next ids Hn H.
  - inversion H. constructor.
  - assert (Hnext : forall i c, next_of i = Some c -> c < 2 ^ 32).
    { intros i c. unfold next_of. destruct (N.ltb_spec (i + 1) (2 ^ 32)); [intros [= <-]; assumption|discriminate]. }
    destruct l as [i|s|]; cbn [assign_ids] in H.
    + destruct (assign_ids (next_of i) r) as [ids'|] eqn:E; [|discriminate]. inversion H; subst.
      constructor; [exact Hl|]. eapply IH; [|exact E]. apply Hnext.
    + destruct (assign_ids (next_of (idl_hash s)) r) as [ids'|] eqn:E; [|discriminate]. inversion H; subst.
      constructor; [apply hash_lt|]. eapply IH; [|exact E]. apply Hnext.
    + destruct next as [cur|]; [|discriminate].
      destruct (assign_ids (next_of cur) r) as [ids'|] eqn:E; [|discriminate]. inversion H; subst.
      constructor; [apply Hn; reflexivity|]. eapply IH; [|exact E]. apply Hnext.
Qed.

Theorem record_ids_range ls ids : Forall label_in_range ls -> record_ids ls = Some ids ->
  Forall (fun i => i < 2 ^ 32) ids /\ strictly_ascending None ids = true.
Proof.
  intros Hl H. unfold record_ids in H.
  destruct (assign_ids (Some 0) ls) as [raw|] eqn:E; [|discriminate].
  destruct (unique_after_sort raw) eqn:Hu; [|discriminate]. inversion H; subst. split.
  - assert (Hr : Forall (fun i => i < 2 ^ 32) raw).
    { eapply assign_ids_range; [exact Hl| |exact E]. intros c [= <-]. reflexivity. }
    rewrite Forall_forall in Hr |- *. intros x Hx. apply Hr.
    eapply Permutation.Permutation_in; [apply Permutation.Permutation_sym, sort_perm|exact Hx].
  - apply sorted_unique_is_ascending. exact Hu.
Qed.

(* an unlabelled field after the largest id is an error, not field 0 *)
Example after_max_is_error : record_ids [FId 4294967295; FUnnamed] = None /\ record_ids [FId 4294967295] = Some [4294967295]
                             /\ record_ids [FId 4294967294; FUnnamed] = Some [4294967294; 4294967295].
Proof. vm_compute. repeat split; reflexivity. Qed.
