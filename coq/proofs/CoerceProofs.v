(* Coercion: well-typedness, and soundness of subtyping for coercion (Sub t t' => every v : t coerces to t'). *)
From Coq Require Import Lia.
From CandidV Require Import model.Coerce proofs.TyProofs proofs.SubProofs proofs.WireProofs.
Open Scope N_scope.

(* closed, productive, class-free environments: every name that occurs can be traced to a constructor *)
(* no id occurs twice in a record or variant (what the header parser and check_prog establish) *)
Fixpoint uniq_ids (ids : list N) : bool :=
  match ids with [] => true | i :: r => negb (existsb (N.eqb i) r) && uniq_ids r end.

Fixpoint ty_closed (E : env) (t : ty) : bool :=
  match t with
  | TPrim _ | TFuture => true
  | TVar x => match trace E (TVar x) with Some _ => true | None => false end
  | TOpt t | TVec t => ty_closed E t
  | TRec fs | TVariant fs => forallb (fun f => ty_closed E (snd f)) fs && uniq_ids (map fst fs)
  | TFunc a r _ => forallb (ty_closed E) a && forallb (ty_closed E) r
  | TServ ms => forallb (fun f => ty_closed E (snd f)) ms
  | TClass _ _ => false     (* service constructors are not data types: never the type of a value *)
  end.
Definition wf_env (E : env) : bool := forallb (fun d => ty_closed E (snd d)) E.

Definition is_var (t : ty) : bool := match t with TVar _ => true | _ => false end.

Lemma trace_f_nonvar f E : forall t a, trace_f f E t = Some a -> is_var a = false.
Proof.
  induction f as [|f IH]; intros t a H; destruct t; cbn [trace_f] in H; try (inversion H; subst; reflexivity); try discriminate.
  destruct (lookup E x) as [t1|]; [|discriminate]. eapply IH; eauto.
Qed.
Lemma trace_nonvar E t a : trace E t = Some a -> is_var a = false.
Proof. apply trace_f_nonvar. Qed.

Lemma trace_f_closed f E : wf_env E = true -> forall t a, ty_closed E t = true -> trace_f f E t = Some a -> ty_closed E a = true.
Proof.
  intros Hwf. induction f as [|f IH]; intros t a Hc H; destruct t; cbn [trace_f] in H; try (inversion H; subst; exact Hc); try discriminate.
  destruct (lookup E x) as [t1|] eqn:Hl; [|discriminate].
  eapply IH; [|exact H]. destruct (lookup_In _ _ _ Hl) as [y Hy].
  unfold wf_env in Hwf. rewrite forallb_forall in Hwf. exact (Hwf _ Hy).
Qed.

Lemma trace_closed E t : wf_env E = true -> ty_closed E t = true ->
  exists a, trace E t = Some a /\ ty_closed E a = true /\ is_var a = false.
Proof.
  intros Hwf Hc.
  assert (Hex : exists a, trace E t = Some a).
  { destruct t; try (eexists; reflexivity). cbn [ty_closed] in Hc. destruct (trace E (TVar x)); [eauto|discriminate]. }
  destruct Hex as [a Ha]. exists a. split; [exact Ha|]. split.
  - eapply trace_f_closed; eauto.
  - eapply trace_nonvar; eauto.
Qed.

Lemma trace_idem E t a : trace E t = Some a -> trace E a = Some a.
Proof. intros H. apply trace_nonvar in H. destruct a; try reflexivity. discriminate. Qed.

Lemma has_type_trace E v t a : trace E t = Some a -> has_type E v t = has_type E v a.
Proof.
  intros H. pose proof (trace_idem _ _ _ H) as Hi.
  destruct v; cbn [has_type]; rewrite H, Hi; try reflexivity; destruct o; reflexivity.
Qed.

Lemma uniq_find i t fs : uniq_ids (map fst fs) = true -> In (i, t) fs -> find_field i fs = Some t.
Proof.
  induction fs as [|[j u] r IH]; intros Hu Hin; [destruct Hin|].
  cbn [map fst uniq_ids] in Hu. apply andb_true_iff in Hu as [Hn Hu]. cbn [find_field].
  destruct Hin as [Heq|Hin].
  - inversion Heq; subst. now rewrite N.eqb_refl.
  - destruct (N.eqb_spec i j) as [->|Hne]; [|apply IH; assumption].
    exfalso. apply negb_true_iff in Hn. assert (Hex : existsb (N.eqb j) (map fst r) = true).
    { apply existsb_exists. exists j. split; [|apply N.eqb_refl]. apply in_map_iff. exists (j, t). auto. }
    congruence.
Qed.

Lemma find_field_closed E i fs t : forallb (fun f => ty_closed E (snd f)) fs = true -> find_field i fs = Some t -> ty_closed E t = true.
Proof.
  intros H Hf. apply find_field_In in Hf. rewrite forallb_forall in H. exact (H _ Hf).
Qed.

Lemma default_typed E t d : default_of E t = Some d -> has_type E d t = true.
Proof.
  unfold default_of. destruct (trace E t) as [a|] eqn:Ha; [|discriminate].
  intros H. rewrite (has_type_trace _ _ _ _ Ha).
  destruct a as [[]| | | | | | | | |]; inversion H; subst; cbn [has_type trace trace_f]; reflexivity.
Qed.

(* ---------- well-typedness of coercion ---------- *)
Definition good (E : env) (t' : ty) (r : res val) : Prop :=
  match r with Ok v' => has_type E v' t' = true | Err ESub => True | OutOfFuel => True | _ => False end.

Lemma good_trace E t' b r : trace E t' = Some b -> good E b r -> good E t' r.
Proof. intros H. destruct r as [v'|[]| |]; cbn; auto. now rewrite (has_type_trace _ _ _ _ H). Qed.

Lemma has_type_untraceable E v t : trace E t = None -> has_type E v t = false.
Proof. intros H. destruct v; cbn [has_type]; rewrite H; try reflexivity; destruct o; reflexivity. Qed.

Lemma has_type_nonvar E v a : is_var a = false -> has_type E v a =
  match v, a with
  | VNull, TPrim PNull => true
  | VReserved, TPrim PReserved => true
  | VBool _, TPrim PBool => true
  | VNat _, TPrim PNat => true
  | VInt _, TPrim PInt => true
  | VNatN bits n, TPrim p => match prim_bits p with Some (false, b) => (bits =? b) && (n <? 2 ^ b) | _ => false end
  | VIntN bits z, TPrim p => match prim_bits p with
                             | Some (true, b) => (bits =? b) && (- 2 ^ (Z.of_N b - 1) <=? z)%Z && (z <? 2 ^ (Z.of_N b - 1))%Z
                             | _ => false end
  | VFloat 32 x, TPrim PFloat32 => x <? 2 ^ 32
  | VFloat 64 x, TPrim PFloat64 => x <? 2 ^ 64
  | VText bs, TPrim PText => utf8_valid bs
  | VOpt None, TOpt _ => true
  | VOpt (Some w), TOpt t1 => has_type E w t1
  | VVec vs, TVec t1 => forallb (fun w => has_type E w t1) vs
  | VRec fs, TRec ts =>
      (fix go (fs : list (N * val)) (ts : list (N * ty)) : bool :=
         match fs, ts with
         | [], [] => true
         | (i, w) :: fr, (j, tj) :: tr => (i =? j) && has_type E w tj && go fr tr
         | _, _ => false
         end) fs ts
  | VVariant i w, TVariant ts => match find_field i ts with Some ti => has_type E w ti | None => false end
  | VPrincipal bs, TPrim PPrincipal => principal_ok bs
  | VService bs, TServ _ => principal_ok bs
  | VFunc bs m, TFunc _ _ _ => principal_ok bs && utf8_valid m
  | _, _ => false
  end.
Proof.
  intros H. assert (Ht : trace E a = Some a) by (destruct a; try reflexivity; discriminate).
  destruct v; cbn [has_type]; rewrite Ht; reflexivity.
Qed.

Lemma coerce_vec_typed E f' t1 t2 (vs : list val) :
  (forall v, has_type E v t1 = true -> good E t2 (coerce f' E v t1 t2)) ->
  forallb (fun w => has_type E w t1) vs = true ->
  match (fix go (vs : list val) : res (list val) :=
           match vs with
           | [] => Ok []
           | w :: r => do w' <- coerce f' E w t1 t2; do r' <- go r; Ok (w' :: r')
           end) vs with
  | Ok ws => forallb (fun w => has_type E w t2) ws = true
  | Err ESub | OutOfFuel => True
  | _ => False
  end.
Proof.
  intros IH.
  set (go := fix go (vs : list val) {struct vs} : res (list val) :=
           match vs with
           | [] => Ok []
           | w :: r => do w' <- coerce f' E w t1 t2; do r' <- go r; Ok (w' :: r')
           end).
  induction vs as [|w r IHr]; intros Ht; [reflexivity|].
  cbn [forallb] in Ht. apply andb_true_iff in Ht as [Hw Hr].
  specialize (IH w Hw). specialize (IHr Hr).
  change (go (w :: r)) with (do w' <- coerce f' E w t1 t2; do r' <- go r; Ok (w' :: r')).
  destruct (coerce f' E w t1 t2) as [w'|[]| |]; cbn [bind good] in *; try contradiction; auto.
  destruct (go r) as [ws|[]| |]; cbn [bind] in *; try contradiction; auto.
  cbn [forallb]. now rewrite IH, IHr.
Qed.

Definition rec_typed (E : env) :=
  fix go (fs : list (N * val)) (ts : list (N * ty)) : bool :=
    match fs, ts with
    | [], [] => true
    | (i, w) :: fr, (j, tj) :: tr => (i =? j) && has_type E w tj && go fr tr
    | _, _ => false
    end.

Lemma rec_lookup E vs : forall fs1, rec_typed E vs fs1 = true -> forall i,
  (find_field i fs1 = None /\ find_val i vs = None) \/
  (exists tw w, find_field i fs1 = Some tw /\ find_val i vs = Some w /\ has_type E w tw = true).
Proof.
  induction vs as [|[j w] r IH]; intros [|[k tk] tr] H i; cbn [rec_typed] in H; try discriminate.
  - left. split; reflexivity.
  - apply andb_true_iff in H as [H1 Hr]. apply andb_true_iff in H1 as [Hjk Hw]. apply N.eqb_eq in Hjk. subst k.
    cbn [find_field find_val]. destruct (i =? j).
    + right. exists tk, w. auto.
    + apply IH. exact Hr.
Qed.

Lemma coerce_rec_typed E f' fs1 vs :
  (forall v t t', ty_closed E t' = true -> has_type E v t = true -> good E t' (coerce f' E v t t')) ->
  rec_typed E vs fs1 = true ->
  forall fs2, forallb (fun f => ty_closed E (snd f)) fs2 = true ->
  match (fix go (fs2 : list (N * ty)) : res (list (N * val)) :=
           match fs2 with
           | [] => Ok []
           | (i, te) :: r =>
               do w' <- match find_field i fs1, find_val i vs with
                        | Some tw, Some w => coerce f' E w tw te
                        | None, None => match default_of E te with Some d => Ok d | None => Err ESub end
                        | _, _ => Err EOther
                        end;
               do r' <- go r; Ok ((i, w') :: r')
           end) fs2 with
  | Ok ws => rec_typed E ws fs2 = true
  | Err ESub | OutOfFuel => True
  | _ => False
  end.
Proof.
  intros IH Hrt.
  set (go := fix go (fs2 : list (N * ty)) {struct fs2} : res (list (N * val)) :=
           match fs2 with
           | [] => Ok []
           | (i, te) :: r =>
               do w' <- match find_field i fs1, find_val i vs with
                        | Some tw, Some w => coerce f' E w tw te
                        | None, None => match default_of E te with Some d => Ok d | None => Err ESub end
                        | _, _ => Err EOther
                        end;
               do r' <- go r; Ok ((i, w') :: r')
           end).
  induction fs2 as [|[i te] r IHr]; intros Hc; [reflexivity|].
  cbn [forallb snd] in Hc. apply andb_true_iff in Hc as [Hte Hcr]. specialize (IHr Hcr).
  change (go ((i, te) :: r)) with
    (do w' <- match find_field i fs1, find_val i vs with
              | Some tw, Some w => coerce f' E w tw te
              | None, None => match default_of E te with Some d => Ok d | None => Err ESub end
              | _, _ => Err EOther
              end;
     do r' <- go r; Ok ((i, w') :: r')).
  assert (Hstep : good E te (match find_field i fs1, find_val i vs with
              | Some tw, Some w => coerce f' E w tw te
              | None, None => match default_of E te with Some d => Ok d | None => Err ESub end
              | _, _ => Err EOther
              end)).
  { destruct (rec_lookup E vs fs1 Hrt i) as [[H1 H2]|(tw & w & H1 & H2 & H3)]; rewrite H1, H2.
    - destruct (default_of E te) as [d|] eqn:Hd; cbn [good]; [apply default_typed; exact Hd|exact I].
    - apply IH; assumption. }
  destruct (match find_field i fs1, find_val i vs with
              | Some tw, Some w => coerce f' E w tw te
              | None, None => match default_of E te with Some d => Ok d | None => Err ESub end
              | _, _ => Err EOther
              end) as [w'|[]| |]; cbn [bind good] in *; try contradiction; auto.
  destruct (go r) as [ws|[]| |]; cbn [bind] in *; try contradiction; auto.
  cbn [rec_typed]. now rewrite N.eqb_refl, Hstep, IHr.
Qed.

Ltac kill_junk H :=
  try solve [exfalso; match goal with b : N |- _ => destruct b as [|pb]; [discriminate H|]; do 7 (destruct pb as [pb|pb|]; try discriminate H) end];
  try solve [exfalso; match goal with o : option val |- _ => destruct o; discriminate H end].

Theorem coerce_typed E : wf_env E = true -> forall f v t t',
  ty_closed E t' = true -> has_type E v t = true -> good E t' (coerce f E v t t').
Proof.
  intros Hwf. induction f as [|f IH]; intros v t t' Hc Ht; [exact I|].
  cbn [coerce].
  destruct (trace E t) as [a|] eqn:Ta; [|rewrite (has_type_untraceable _ _ _ Ta) in Ht; discriminate].
  destruct (trace_closed E t' Hwf Hc) as (b & Tb & Hcb & Hnvb). rewrite Tb.
  rewrite (has_type_trace _ _ _ _ Ta) in Ht.
  pose proof (trace_nonvar _ _ _ Ta) as Hnva.
  apply (good_trace E t' b _ Tb).
  rewrite (has_type_nonvar E v a Hnva) in Ht.
  destruct b as [q|xb|t2|t2|fs2|fs2|ab rb mb|msb|ib tb|]; try discriminate.
  - (* primitive expected type *)
    destruct q; try (cbn [good]; rewrite has_type_nonvar by reflexivity; reflexivity);
      destruct v; destruct a as [p| | | | | | | | |]; try destruct p; try discriminate; cbn [prim_eqb good]; auto;
      try (rewrite has_type_nonvar by reflexivity; exact Ht);
      kill_junk Ht.
  - (* opt *)
    cbn [ty_closed] in Hcb.
    assert (Hsome : forall w, good E t2 (coerce f E w a t2) ->
              good E (TOpt t2) (match coerce f E w a t2 with Ok w' => Ok (VOpt (Some w')) | Err ESub => Ok (VOpt None) | o => o end)).
    { intros w Hg. destruct (coerce f E w a t2) as [w'|[]| |]; cbn [good] in *; try contradiction; auto;
        rewrite has_type_nonvar by reflexivity; auto. }
    destruct a as [p| |t1| | | | | | |]; try destruct p; try discriminate;
      try (cbn [good]; rewrite has_type_nonvar by reflexivity; reflexivity);
      try (apply Hsome; apply IH; [exact Hcb|rewrite has_type_nonvar by reflexivity; exact Ht]).
    + (* opt t1 *)
      destruct v; try discriminate; kill_junk Ht.
      destruct o as [w|].
      * assert (Hg : good E t2 (coerce f E w t1 t2)) by (apply IH; assumption).
        destruct (coerce f E w t1 t2) as [w'|[]| |]; cbn [good] in *; try contradiction; auto;
          rewrite has_type_nonvar by reflexivity; auto.
      * cbn [good]. rewrite has_type_nonvar by reflexivity. reflexivity.
  - (* vec *)
    cbn [ty_closed] in Hcb.
    destruct v; destruct a as [p| | |t1| | | | | |]; try destruct p; try discriminate; cbn [good]; auto; kill_junk Ht.
    pose proof (coerce_vec_typed E f t1 t2 vs (fun v Hv => IH v t1 t2 Hcb Hv) Ht) as Hv.
    match goal with |- context [bind ?g _] => destruct g as [ws|[]| |] end; cbn [bind good] in *; try contradiction; auto.
    all: try (rewrite has_type_nonvar by reflexivity; exact Hv).
  - (* record *)
    cbn [ty_closed] in Hcb. apply andb_true_iff in Hcb as [Hcb _].
    destruct v; destruct a as [p| | | |fs1| | | | |]; try destruct p; try discriminate; cbn [good]; auto; kill_junk Ht.
    pose proof (coerce_rec_typed E f fs1 fs IH Ht fs2 Hcb) as Hv.
    match goal with |- context [bind ?g _] => destruct g as [ws|[]| |] end; cbn [bind good] in *; try contradiction; auto.
    all: try (rewrite has_type_nonvar by reflexivity; exact Hv).
  - (* variant *)
    cbn [ty_closed] in Hcb. apply andb_true_iff in Hcb as [Hcb _].
    destruct v; destruct a as [p| | | | |fs1| | | |]; try destruct p; try discriminate; cbn [good]; auto; kill_junk Ht.
    destruct (find_field i fs1) as [tw|] eqn:H1; [|discriminate].
    destruct (find_field i fs2) as [te|] eqn:H2; [|exact I].
    assert (Hg : good E te (coerce f E v tw te)) by (apply IH; [eapply find_field_closed; eauto|exact Ht]).
    destruct (coerce f E v tw te) as [w'|[]| |]; cbn [bind good] in *; try contradiction; auto.
    rewrite has_type_nonvar by reflexivity. now rewrite H2.
  - (* func *)
    destruct v; destruct a as [p| | | | | | | | |]; try destruct p; try discriminate; cbn [good]; auto; kill_junk Ht.
    destruct (sub_dec_fast E _ _); cbn [good]; auto; try (rewrite has_type_nonvar by reflexivity; exact Ht).
  - (* service *)
    destruct v; destruct a as [p| | | | | | | | |]; try destruct p; try discriminate; cbn [good]; auto; kill_junk Ht.
    destruct (sub_dec_fast E _ _); cbn [good]; auto; try (rewrite has_type_nonvar by reflexivity; exact Ht).
  - (* future *) destruct v; destruct a as [p| | | | | | | | |]; try destruct p; try discriminate; cbn [good]; auto; kill_junk Ht.
Qed.

(* ---------- soundness of subtyping for coercion ---------- *)
Definition okf {A} (r : res A) : Prop := (exists v', r = Ok v') \/ r = OutOfFuel.

Lemma okf_good E t' r : good E t' r -> (r <> Err ESub) -> okf r.
Proof.
  destruct r as [v'|[]| |]; cbn; intros H Hn; try contradiction.
  - left. eauto.
  - right. reflexivity.
Qed.

Lemma sub_traced E t t' a b : Sub E t t' -> trace E t = Some a -> trace E t' = Some b ->
  a = b \/ exists S : pair -> bool, (forall q, S q = true -> Sub E (fst q) (snd q)) /\ apply_rule (arms E a b) S = true.
Proof.
  intros H Ta Tb. destruct (sub_unfold E t t' H) as [S [HS HF]]. unfold stepb, rule in HF.
  destruct (ty_eqb t t') eqn:E1.
  - apply ty_eqb_spec in E1. subst t'. left. rewrite Ta in Tb. now inversion Tb.
  - rewrite Ta, Tb in HF. destruct (ty_eqb a b) eqn:E2; [left; now apply ty_eqb_spec|right; exists S; auto].
Qed.

Lemma sub_of_traced E t t' a b : Sub E t t' -> trace E t = Some a -> trace E t' = Some b -> Sub E a b.
Proof.
  intros H Ta Tb. destruct (sub_traced E t t' a b H Ta Tb) as [->|[S [HS HF]]]; [apply sub_refl|].
  destruct H as [R [Hab HR]].
  exists (fun p => p = (a, b) \/ Sub E (fst p) (snd p)). split; [left; reflexivity|].
  intros p [->|Hp].
  - exists S. split; [intros q Hq; right; apply HS, Hq|].
    unfold stepb, rule. destruct (ty_eqb a b); [reflexivity|].
    rewrite (trace_idem _ _ _ Ta), (trace_idem _ _ _ Tb). destruct (ty_eqb a b); [reflexivity|exact HF].
  - destruct p as [x y]. destruct (sub_unfold E x y Hp) as [S' [HS' HF']]. exists S'. split; [intros q Hq; right; apply HS', Hq|exact HF'].
Qed.

Lemma okf_vec E f' t1 t2 (vs : list val) :
  (forall w, In w vs -> okf (coerce f' E w t1 t2)) ->
  okf ((fix go (vs : list val) : res (list val) :=
          match vs with
          | [] => Ok []
          | w :: r => do w' <- coerce f' E w t1 t2; do r' <- go r; Ok (w' :: r')
          end) vs).
Proof.
  set (go := fix go (vs : list val) {struct vs} : res (list val) :=
          match vs with
          | [] => Ok []
          | w :: r => do w' <- coerce f' E w t1 t2; do r' <- go r; Ok (w' :: r')
          end).
  induction vs as [|w r IH]; intros H; [left; eexists; reflexivity|].
  change (go (w :: r)) with (do w' <- coerce f' E w t1 t2; do r' <- go r; Ok (w' :: r')).
  destruct (H w (or_introl eq_refl)) as [[w' Hw]|Hw]; rewrite Hw; cbn [bind]; [|right; reflexivity].
  destruct (IH (fun x Hx => H x (or_intror Hx))) as [[r' Hr]|Hr]; rewrite Hr; cbn [bind]; [left; eexists; reflexivity|right; reflexivity].
Qed.

Lemma in_forallb_typed E t1 vs w : forallb (fun w => has_type E w t1) vs = true -> In w vs -> has_type E w t1 = true.
Proof. intros H Hin. rewrite forallb_forall in H. apply H, Hin. Qed.

Lemma okf_rec E f' fs1 vs (fs2 : list (N * ty)) :
  (forall i te, In (i, te) fs2 ->
     okf (match find_field i fs1, find_val i vs with
          | Some tw, Some w => coerce f' E w tw te
          | None, None => match default_of E te with Some d => Ok d | None => Err ESub end
          | _, _ => Err EOther
          end)) ->
  okf ((fix go (fs2 : list (N * ty)) : res (list (N * val)) :=
          match fs2 with
          | [] => Ok []
          | (i, te) :: r =>
              do w' <- match find_field i fs1, find_val i vs with
                       | Some tw, Some w => coerce f' E w tw te
                       | None, None => match default_of E te with Some d => Ok d | None => Err ESub end
                       | _, _ => Err EOther
                       end;
              do r' <- go r; Ok ((i, w') :: r')
          end) fs2).
Proof.
  set (go := fix go (fs2 : list (N * ty)) {struct fs2} : res (list (N * val)) :=
          match fs2 with
          | [] => Ok []
          | (i, te) :: r =>
              do w' <- match find_field i fs1, find_val i vs with
                       | Some tw, Some w => coerce f' E w tw te
                       | None, None => match default_of E te with Some d => Ok d | None => Err ESub end
                       | _, _ => Err EOther
                       end;
              do r' <- go r; Ok ((i, w') :: r')
          end).
  induction fs2 as [|[i te] r IH]; intros H; [left; eexists; reflexivity|].
  change (go ((i, te) :: r)) with
    (do w' <- match find_field i fs1, find_val i vs with
              | Some tw, Some w => coerce f' E w tw te
              | None, None => match default_of E te with Some d => Ok d | None => Err ESub end
              | _, _ => Err EOther
              end;
     do r' <- go r; Ok ((i, w') :: r')).
  destruct (H i te (or_introl eq_refl)) as [[w' Hw]|Hw]; rewrite Hw; cbn [bind]; [|right; reflexivity].
  destruct (IH (fun j tj Hj => H j tj (or_intror Hj))) as [[r' Hr]|Hr]; rewrite Hr; cbn [bind]; [left; eexists; reflexivity|right; reflexivity].
Qed.

Lemma optlike_default E te : optlike E te = true -> exists d, default_of E te = Some d.
Proof.
  unfold optlike, default_of. destruct (trace E te) as [[[]| | | | | | | | |]|]; intros H; try discriminate; eauto.
Qed.

(* coercing at syntactically equal traced types never fails *)
Lemma coerce_same E : wf_env E = true -> forall f v t t' a,
  trace E t = Some a -> trace E t' = Some a -> ty_closed E a = true -> has_type E v t = true -> okf (coerce f E v t t').
Proof.
  intros Hwf. induction f as [|f IH]; intros v t t' a Ta Tb Hca Ht; [right; reflexivity|].
  cbn [coerce]. rewrite Ta, Tb.
  rewrite (has_type_trace _ _ _ _ Ta) in Ht. pose proof (trace_nonvar _ _ _ Ta) as Hnv.
  rewrite (has_type_nonvar E v a Hnv) in Ht.
  destruct a as [p|x|t1|t1|fs1|fs1|aa ra ma|ms|ia ta|]; try discriminate.
  - destruct p; destruct v; try discriminate; try (left; eexists; reflexivity); kill_junk Ht.
  - (* opt *) cbn [ty_closed] in Hca. destruct v; try discriminate; kill_junk Ht. destruct o as [w|]; [|left; eexists; reflexivity].
    assert (Hcl : exists c, trace E t1 = Some c /\ ty_closed E c = true) by (destruct (trace_closed E t1 Hwf Hca) as (c & H1 & H2 & _); eauto).
    destruct Hcl as (c & Tc & Hcc).
    destruct (IH w t1 t1 c Tc Tc Hcc Ht) as [[w' Hw]|Hw]; rewrite Hw; [left; eexists; reflexivity|right; reflexivity].
  - (* vec *) cbn [ty_closed] in Hca. destruct v; try discriminate; kill_junk Ht.
    destruct (trace_closed E t1 Hwf Hca) as (c & Tc & Hcc & _).
    pose proof (okf_vec E f t1 t1 vs (fun w Hw => IH w t1 t1 c Tc Tc Hcc (in_forallb_typed E t1 vs w Ht Hw))) as Hv.
    destruct Hv as [[ws Hws]|Hws]; rewrite Hws; cbn [bind]; [left; eexists; reflexivity|right; reflexivity].
  - (* record *) cbn [ty_closed] in Hca. apply andb_true_iff in Hca as [Hca Huniq]. destruct v; try discriminate; kill_junk Ht.
    assert (Hv : okf ((fix go (fs2 : list (N * ty)) : res (list (N * val)) :=
          match fs2 with
          | [] => Ok []
          | (i, te) :: r =>
              do w' <- match find_field i fs1, find_val i fs with
                       | Some tw, Some w => coerce f E w tw te
                       | None, None => match default_of E te with Some d => Ok d | None => Err ESub end
                       | _, _ => Err EOther
                       end;
              do r' <- go r; Ok ((i, w') :: r')
          end) fs1)).
    { apply okf_rec. intros i te Hin.
      destruct (rec_lookup E fs fs1 Ht i) as [[H1 H2]|(tw & w & H1 & H2 & H3)]; rewrite H1, H2.
      - (* a field of the type always has a value *)
        exfalso. clear -H1 Hin. induction fs1 as [|[j tj] r IHr]; [destruct Hin|].
        cbn [find_field] in H1. destruct (N.eqb_spec i j); [discriminate|].
        destruct Hin as [Hin|Hin]; [inversion Hin; subst; congruence|auto].
      - assert (Hct : ty_closed E tw = true) by (eapply find_field_closed; eauto).
        destruct (trace_closed E tw Hwf Hct) as (c & Tc & Hcc & _).
        rewrite (uniq_find i te fs1 Huniq Hin) in H1. inversion H1; subst tw.
        apply (IH w te te c Tc Tc Hcc H3). }
    destruct Hv as [[ws Hws]|Hws]; rewrite Hws; cbn [bind]; [left; eexists; reflexivity|right; reflexivity].
  - (* variant *) cbn [ty_closed] in Hca. apply andb_true_iff in Hca as [Hca _]. destruct v; try discriminate; kill_junk Ht.
    destruct (find_field i fs1) as [tw|] eqn:H1; [|discriminate].
    assert (Hct : ty_closed E tw = true) by (eapply find_field_closed; eauto).
    destruct (trace_closed E tw Hwf Hct) as (c & Tc & Hcc & _).
    destruct (IH v tw tw c Tc Tc Hcc Ht) as [[w' Hw]|Hw]; rewrite Hw; cbn [bind]; [left; eexists; reflexivity|right; reflexivity].
  - (* func *) destruct v; try discriminate; kill_junk Ht.
    assert (Hs : sub_dec_fast E (TFunc aa ra ma) (TFunc aa ra ma) = true) by (apply sub_dec_fast_correct, sub_refl).
    rewrite Hs. left. eexists. reflexivity.
  - (* service *) destruct v; try discriminate; kill_junk Ht.
    assert (Hs : sub_dec_fast E (TServ ms) (TServ ms) = true) by (apply sub_dec_fast_correct, sub_refl).
    rewrite Hs. left. eexists. reflexivity.
  - (* future: no values *) destruct v; try discriminate; kill_junk Ht.
Qed.

Lemma in_flat_map_present {K} (look : K -> option ty) (mk : (K * ty) -> ty -> pair) (fs : list (K * ty)) k t u :
  In (k, t) fs -> look k = Some u ->
  In (mk (k, t) u) (flat_map (fun f => match look (fst f) with Some x => [mk f x] | None => [] end) fs).
Proof.
  intros Hin Hl. apply in_flat_map. exists (k, t). split; [exact Hin|]. cbn [fst]. rewrite Hl. now left.
Qed.

Theorem coerce_sound E : wf_env E = true -> forall f v t t',
  ty_closed E t = true -> ty_closed E t' = true -> Sub E t t' -> has_type E v t = true -> okf (coerce f E v t t').
Proof.
  intros Hwf. induction f as [|f IH]; intros v t t' Hct Hct' Hsub Ht; [right; reflexivity|].
  destruct (trace_closed E t Hwf Hct) as (a & Ta & Hca & Hnva).
  destruct (trace_closed E t' Hwf Hct') as (b & Tb & Hcb & Hnvb).
  destruct (sub_traced E t t' a b Hsub Ta Tb) as [Heq|[S [HS HF]]].
  { subst b. exact (coerce_same E Hwf (Datatypes.S f) v t t' a Ta Tb Hca Ht). }
  cbn [coerce]. rewrite Ta, Tb.
  rewrite (has_type_trace _ _ _ _ Ta) in Ht. rewrite (has_type_nonvar E v a Hnva) in Ht.
  assert (Hinner : forall w tw te, ty_closed E te = true -> has_type E w tw = true ->
            okf (match coerce f E w tw te with Ok w' => Ok (VOpt (Some w')) | Err ESub => Ok (VOpt None) | o => o end)).
  { intros w tw te Hc Hw. pose proof (coerce_typed E Hwf f w tw te Hc Hw) as Hg.
    destruct (coerce f E w tw te) as [w'|[]| |]; cbn [good] in Hg; try contradiction;
      [left; eexists; reflexivity|left; eexists; reflexivity|right; reflexivity]. }
  destruct b as [q|xb|t2|t2|fs2|fs2|ab rb mb|msb|ib tb|]; try discriminate.
  - (* primitive *)
    destruct q; try (left; eexists; reflexivity);
      destruct a as [p| | | | | | | | |]; try destruct p; cbn [arms apply_rule] in HF; try discriminate;
      destruct v; try discriminate; try (left; eexists; reflexivity); kill_junk Ht.
  - (* opt *)
    cbn [ty_closed] in Hcb.
    destruct a as [p| |t1| | | | | | |]; try destruct p; try discriminate;
      try (left; eexists; reflexivity);
      try (apply Hinner; [exact Hcb|rewrite has_type_nonvar by reflexivity; exact Ht]).
    destruct v; try discriminate; kill_junk Ht. destruct o as [w|]; [|left; eexists; reflexivity].
    apply Hinner; assumption.
  - (* vec *)
    cbn [ty_closed] in Hcb.
    destruct a as [p| | |t1| | | | | |]; try destruct p; cbn [arms apply_rule] in HF; try discriminate;
      try (destruct v; try discriminate; kill_junk Ht).
    cbn [ty_closed] in Hca. cbn [forallb] in HF. rewrite andb_true_r in HF.
    pose proof (okf_vec E f t1 t2 vs (fun w Hw => IH w t1 t2 Hca Hcb (HS _ HF) (in_forallb_typed E t1 vs w Ht Hw))) as Hv.
    destruct Hv as [[ws Hws]|Hws]; rewrite Hws; cbn [bind]; [left; eexists; reflexivity|right; reflexivity].
  - (* record *)
    cbn [ty_closed] in Hcb. apply andb_true_iff in Hcb as [Hcb _].
    destruct a as [p| | | |fs1| | | | |]; try destruct p; cbn [arms apply_rule] in HF; try discriminate;
      try (destruct v; try discriminate; kill_junk Ht).
    cbn [ty_closed] in Hca. apply andb_true_iff in Hca as [Hca _].
    destruct (forallb (fun f0 => match find_field (fst f0) fs1 with Some _ => true | None => optlike E (snd f0) end) fs2) eqn:Hall; [|discriminate].
    cbn [apply_rule] in HF. rewrite forallb_forall in HF, Hall.
    assert (Hv : okf ((fix go (fs2 : list (N * ty)) : res (list (N * val)) :=
          match fs2 with
          | [] => Ok []
          | (i, te) :: r =>
              do w' <- match find_field i fs1, find_val i fs with
                       | Some tw, Some w => coerce f E w tw te
                       | None, None => match default_of E te with Some d => Ok d | None => Err ESub end
                       | _, _ => Err EOther
                       end;
              do r' <- go r; Ok ((i, w') :: r')
          end) fs2)).
    { apply okf_rec. intros i te Hin.
      destruct (rec_lookup E fs fs1 Ht i) as [[H1 H2]|(tw & w & H1 & H2 & H3)]; rewrite H1, H2.
      - specialize (Hall (i, te) Hin). cbn [fst snd] in Hall. rewrite H1 in Hall.
        destruct (optlike_default E te Hall) as [d Hd]. rewrite Hd. left. eexists. reflexivity.
      - apply IH.
        + exact (find_field_closed E i fs1 tw Hca H1).
        + rewrite forallb_forall in Hcb. exact (Hcb (i, te) Hin).
        + apply (HS (tw, te)). apply HF.
          exact (in_flat_map_present (fun k => find_field k fs1) (fun f0 x => (x, snd f0)) fs2 i te tw Hin H1).
        + exact H3. }
    destruct Hv as [[ws Hws]|Hws]; rewrite Hws; cbn [bind]; [left; eexists; reflexivity|right; reflexivity].
  - (* variant *)
    cbn [ty_closed] in Hcb. apply andb_true_iff in Hcb as [Hcb _].
    destruct a as [p| | | | |fs1| | | |]; try destruct p; cbn [arms apply_rule] in HF; try discriminate;
      try (destruct v; try discriminate; kill_junk Ht).
    cbn [ty_closed] in Hca. apply andb_true_iff in Hca as [Hca _].
    destruct (forallb (fun f0 => match find_field (fst f0) fs2 with Some _ => true | None => false end) fs1) eqn:Hall; [|discriminate].
    cbn [apply_rule] in HF. rewrite forallb_forall in HF, Hall.
    destruct (find_field i fs1) as [tw|] eqn:H1; [|discriminate].
    pose proof (find_field_In _ _ _ H1) as Hin.
    specialize (Hall (i, tw) Hin). cbn [fst] in Hall.
    destruct (find_field i fs2) as [te|] eqn:H2; [|discriminate].
    assert (Hok : okf (coerce f E v tw te)).
    { apply IH.
      - exact (find_field_closed E i fs1 tw Hca H1).
      - exact (find_field_closed E i fs2 te Hcb H2).
      - apply (HS (tw, te)). apply HF.
        exact (in_flat_map_present (fun k => find_field k fs2) (fun f0 x => (snd f0, x)) fs1 i tw te Hin H2).
      - exact Ht. }
    destruct Hok as [[w' Hw]|Hw]; rewrite Hw; cbn [bind]; [left; eexists; reflexivity|right; reflexivity].
  - (* func *)
    destruct a as [p| | | | | |aa ra ma| | |]; try destruct p; cbn [arms apply_rule] in HF; try discriminate;
      try (destruct v; try discriminate; kill_junk Ht).
    assert (Hs : sub_dec_fast E (TFunc aa ra ma) (TFunc ab rb mb) = true).
    { apply sub_dec_fast_correct. eapply sub_of_traced; eauto. }
    rewrite Hs. left. eexists. reflexivity.
  - (* service *)
    destruct a as [p| | | | | | |msa| |]; try destruct p; cbn [arms apply_rule] in HF; try discriminate;
      try (destruct v; try discriminate; kill_junk Ht).
    assert (Hs : sub_dec_fast E (TServ msa) (TServ msb) = true).
    { apply sub_dec_fast_correct. eapply sub_of_traced; eauto. }
    rewrite Hs. left. eexists. reflexivity.
  - (* future *)
    destruct a as [p| | | | | | | | |]; try destruct p; cbn [arms apply_rule] in HF; try discriminate;
      try (destruct v; try discriminate; kill_junk Ht).
Qed.
