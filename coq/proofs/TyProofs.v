(* Boilerplate about types: induction principle for the nested inductive, boolean equality, sub-terms. *)
From Coq Require Import Lia.
From CandidV Require Import model.Ty.
Open Scope N_scope.

Section TyInd.
  Variable P : ty -> Prop.
  Hypothesis HPrim : forall p, P (TPrim p).
  Hypothesis HVar : forall x, P (TVar x).
  Hypothesis HOpt : forall t, P t -> P (TOpt t).
  Hypothesis HVec : forall t, P t -> P (TVec t).
  Hypothesis HRec : forall fs, Forall (fun f => P (snd f)) fs -> P (TRec fs).
  Hypothesis HVariant : forall fs, Forall (fun f => P (snd f)) fs -> P (TVariant fs).
  Hypothesis HFunc : forall a r m, Forall P a -> Forall P r -> P (TFunc a r m).
  Hypothesis HServ : forall ms, Forall (fun f => P (snd f)) ms -> P (TServ ms).
  Hypothesis HClass : forall a t, Forall P a -> P t -> P (TClass a t).
  Hypothesis HFuture : P TFuture.

  Fixpoint ty_ind' (t : ty) : P t :=
    match t with
    | TPrim p => HPrim p
    | TVar x => HVar x
    | TOpt t => HOpt t (ty_ind' t)
    | TVec t => HVec t (ty_ind' t)
    | TRec fs => HRec fs ((fix go (l : list (N * ty)) : Forall (fun f => P (snd f)) l :=
                   match l with [] => Forall_nil _ | f :: l' => Forall_cons f (ty_ind' (snd f)) (go l') end) fs)
    | TVariant fs => HVariant fs ((fix go (l : list (N * ty)) : Forall (fun f => P (snd f)) l :=
                   match l with [] => Forall_nil _ | f :: l' => Forall_cons f (ty_ind' (snd f)) (go l') end) fs)
    | TFunc a r m => HFunc a r m
                   ((fix go (l : list ty) : Forall P l :=
                       match l with [] => Forall_nil _ | x :: l' => Forall_cons x (ty_ind' x) (go l') end) a)
                   ((fix go (l : list ty) : Forall P l :=
                       match l with [] => Forall_nil _ | x :: l' => Forall_cons x (ty_ind' x) (go l') end) r)
    | TServ ms => HServ ms ((fix go (l : list (name * ty)) : Forall (fun f => P (snd f)) l :=
                   match l with [] => Forall_nil _ | f :: l' => Forall_cons f (ty_ind' (snd f)) (go l') end) ms)
    | TClass a t => HClass a t
                   ((fix go (l : list ty) : Forall P l :=
                       match l with [] => Forall_nil _ | x :: l' => Forall_cons x (ty_ind' x) (go l') end) a)
                   (ty_ind' t)
    | TFuture => HFuture
    end.
End TyInd.

Lemma prim_eqb_spec a b : prim_eqb a b = true <-> a = b.
Proof. destruct a, b; cbn; split; congruence. Qed.

Lemma list_eqb_spec {A} (e : A -> A -> bool) l1 :
  Forall (fun a => forall b, e a b = true <-> a = b) l1 ->
  forall l2, list_eqb e l1 l2 = true <-> l1 = l2.
Proof.
  induction 1 as [|a r1 Ha _ IH]; intros [|b r2]; cbn; try (split; congruence).
  rewrite andb_true_iff, Ha, IH. split; [intros [-> ->]; reflexivity|intros H; inversion H; auto].
Qed.
Lemma nlist_eqb_spec (a b : list N) : list_eqb N.eqb a b = true <-> a = b.
Proof. apply list_eqb_spec. apply Forall_forall. intros x _ y. apply N.eqb_eq. Qed.
Lemma name_eqb_spec a b : name_eqb a b = true <-> a = b.
Proof. apply nlist_eqb_spec. Qed.
Lemma name_eqb_refl a : name_eqb a a = true.
Proof. now apply name_eqb_spec. Qed.

Lemma ty_eqb_spec a : forall b, ty_eqb a b = true <-> a = b.
Proof.
  induction a using ty_ind'; intros b; destruct b; cbn [ty_eqb]; try (split; congruence).
  - rewrite prim_eqb_spec. split; congruence.
  - rewrite name_eqb_spec. split; congruence.
  - rewrite IHa. split; congruence.
  - rewrite IHa. split; congruence.
  - revert fs0. induction H as [|[i s] r1 Hs _ IH]; intros [|[j t] r2]; try (split; congruence).
    cbn in Hs. rewrite !andb_true_iff, N.eqb_eq, Hs. specialize (IH r2).
    split.
    + intros [[-> ->] Hr]. apply IH in Hr. congruence.
    + intros Hx. inversion Hx; subst. repeat split; auto. apply IH. reflexivity.
  - revert fs0. induction H as [|[i s] r1 Hs _ IH]; intros [|[j t] r2]; try (split; congruence).
    cbn in Hs. rewrite !andb_true_iff, N.eqb_eq, Hs. specialize (IH r2).
    split.
    + intros [[-> ->] Hr]. apply IH in Hr. congruence.
    + intros Hx. inversion Hx; subst. repeat split; auto. apply IH. reflexivity.
  - assert (HL : forall l1, Forall (fun a => forall b, ty_eqb a b = true <-> a = b) l1 -> forall l2,
      (fix go (l1 l2 : list ty) : bool :=
         match l1, l2 with [], [] => true | s :: x, t :: y => ty_eqb s t && go x y | _, _ => false end) l1 l2 = true
      <-> l1 = l2).
    { clear. induction 1 as [|s x Hs _ IH]; intros [|t y]; try (split; congruence).
      rewrite andb_true_iff, Hs, IH. split; [intros [-> ->]; reflexivity|intros Hx; inversion Hx; auto]. }
    rewrite !andb_true_iff, (HL a H args), (HL r H0 rets), nlist_eqb_spec.
    split; [intros [[-> ->] ->]; reflexivity|intros Hx; inversion Hx; auto].
  - revert ms0. induction H as [|[i s] r1 Hs _ IH]; intros [|[j t] r2]; try (split; congruence).
    cbn in Hs. rewrite !andb_true_iff, name_eqb_spec, Hs. specialize (IH r2).
    split.
    + intros [[-> ->] Hr]. apply IH in Hr. congruence.
    + intros Hx. inversion Hx; subst. repeat split; auto. apply IH. reflexivity.
  - assert (HL : forall l1, Forall (fun a => forall b, ty_eqb a b = true <-> a = b) l1 -> forall l2,
      (fix go (l1 l2 : list ty) : bool :=
         match l1, l2 with [], [] => true | s :: x, t :: y => ty_eqb s t && go x y | _, _ => false end) l1 l2 = true
      <-> l1 = l2).
    { clear. induction 1 as [|s x Hs _ IH]; intros [|t y]; try (split; congruence).
      rewrite andb_true_iff, Hs, IH. split; [intros [-> ->]; reflexivity|intros Hx; inversion Hx; auto]. }
    rewrite andb_true_iff, (HL a H args), IHa. split; [intros [-> ->]; reflexivity|intros Hx; inversion Hx; auto].
Qed.
Lemma ty_eqb_refl a : ty_eqb a a = true.
Proof. now apply ty_eqb_spec. Qed.

Lemma pair_eqb_spec (p q : pair) : pair_eqb p q = true <-> p = q.
Proof.
  destruct p as [a b], q as [c d]. unfold pair_eqb. cbn [fst snd].
  rewrite andb_true_iff, !ty_eqb_spec. split; [intros [-> ->]; reflexivity|intros H; inversion H; auto].
Qed.

(* ---------- sub-terms ---------- *)
Lemma subterms_self t : In t (subterms t).
Proof. destruct t; cbn; auto. Qed.

Lemma tuple_from_subterms ts : forall i,
  flat_map (fun f : N * ty => subterms (snd f)) (tuple_from i ts) = flat_map subterms ts.
Proof. induction ts as [|t r IH]; intros i; cbn; [reflexivity|]. now rewrite IH. Qed.

Lemma subterms_tuple ts : subterms (tuple ts) = tuple ts :: flat_map subterms ts.
Proof. unfold tuple. cbn [subterms]. now rewrite tuple_from_subterms. Qed.

Lemma in_flat_map_fields {K} (fs : list (K * ty)) u :
  In u (flat_map (fun f => subterms (snd f)) fs) <-> exists f, In f fs /\ In u (subterms (snd f)).
Proof. apply in_flat_map. Qed.

Lemma subterms_trans t : forall s, In s (subterms t) -> forall u, In u (subterms s) -> In u (subterms t).
Proof.
  induction t using ty_ind'; intros s Hs u Hu.
  - cbn in Hs. destruct Hs as [<-|[]]. exact Hu.
  - cbn in Hs. destruct Hs as [<-|[]]. exact Hu.
  - cbn [subterms] in Hs. destruct Hs as [<-|Hs]; [exact Hu|]. cbn [subterms]. right. eapply IHt; eauto.
  - cbn [subterms] in Hs. destruct Hs as [<-|Hs]; [exact Hu|]. cbn [subterms]. right. eapply IHt; eauto.
  - cbn [subterms] in Hs. destruct Hs as [<-|Hs]; [exact Hu|]. cbn [subterms]. right.
    apply in_flat_map in Hs as [f [Hf Hs]]. apply in_flat_map. exists f. split; [exact Hf|].
    rewrite Forall_forall in H. eapply H; eauto.
  - cbn [subterms] in Hs. destruct Hs as [<-|Hs]; [exact Hu|]. cbn [subterms]. right.
    apply in_flat_map in Hs as [f [Hf Hs]]. apply in_flat_map. exists f. split; [exact Hf|].
    rewrite Forall_forall in H. eapply H; eauto.
  - cbn [subterms] in Hs. destruct Hs as [<-|[<-|[<-|Hs]]]; [exact Hu| | |].
    + rewrite subterms_tuple in Hu. cbn [subterms]. destruct Hu as [<-|Hu]; [right; left; reflexivity|].
      right. right. right. apply in_or_app. left. exact Hu.
    + rewrite subterms_tuple in Hu. cbn [subterms]. destruct Hu as [<-|Hu]; [right; right; left; reflexivity|].
      right. right. right. apply in_or_app. right. exact Hu.
    + cbn [subterms]. right. right. right. apply in_app_or in Hs. apply in_or_app.
      destruct Hs as [Hs|Hs]; [left|right]; apply in_flat_map in Hs as [x [Hx Hs]]; apply in_flat_map; exists x;
        (split; [exact Hx|]).
      * rewrite Forall_forall in H. eapply H; eauto.
      * rewrite Forall_forall in H0. eapply H0; eauto.
  - cbn [subterms] in Hs. destruct Hs as [<-|Hs]; [exact Hu|]. cbn [subterms]. right.
    apply in_flat_map in Hs as [f [Hf Hs]]. apply in_flat_map. exists f. split; [exact Hf|].
    rewrite Forall_forall in H. eapply H; eauto.
  - cbn [subterms] in Hs. destruct Hs as [<-|[<-|Hs]]; [exact Hu| |].
    + rewrite subterms_tuple in Hu. cbn [subterms]. destruct Hu as [<-|Hu]; [right; left; reflexivity|].
      right. right. apply in_or_app. left. exact Hu.
    + cbn [subterms]. right. right.
      apply in_app_or in Hs. apply in_or_app. destruct Hs as [Hs|Hs]; [left|right].
      * apply in_flat_map in Hs as [x [Hx Hs]]. apply in_flat_map. exists x. split; [exact Hx|].
        rewrite Forall_forall in H. eapply H; eauto.
      * eapply IHt; eauto.
  - cbn in Hs. destruct Hs as [<-|[]]. exact Hu.
Qed.

(* the node set of an environment is closed under sub-terms and under looking names up *)
Lemma nodes_closed E ts n : In n (nodes E ts) -> incl (subterms n) (nodes E ts).
Proof.
  intros Hn u Hu. unfold nodes in *. apply in_app_or in Hn. apply in_or_app. destruct Hn as [Hn|Hn]; [left|right].
  - apply in_flat_map in Hn as [t [Ht Hn]]. apply in_flat_map. exists t. split; [exact Ht|].
    eapply subterms_trans; eauto.
  - apply in_flat_map in Hn as [d [Hd Hn]]. apply in_flat_map. exists d. split; [exact Hd|].
    destruct Hn as [<-|Hn].
    + cbn in Hu. destruct Hu as [<-|[]]. left. reflexivity.
    + right. eapply subterms_trans; eauto.
Qed.

Lemma lookup_In E x t : lookup E x = Some t -> exists y, In (y, t) E.
Proof.
  induction E as [|[y t'] r IH]; [discriminate|]. cbn [lookup]. destruct (name_eqb x y).
  - intros [= <-]. exists y. now left.
  - intros H. destruct (IH H) as [z Hz]. exists z. now right.
Qed.

Lemma lookup_nodes E ts x t : lookup E x = Some t -> In t (nodes E ts).
Proof.
  intros H. destruct (lookup_In _ _ _ H) as [y Hy]. unfold nodes. apply in_or_app. right.
  apply in_flat_map. exists (y, t). split; [exact Hy|]. right. apply subterms_self.
Qed.

Lemma trace_f_nodes E ts f : forall n n', In n (nodes E ts) -> trace_f f E n = Some n' -> In n' (nodes E ts).
Proof.
  induction f as [|f IH]; intros n n' Hn Ht; destruct n; cbn [trace_f] in Ht; try (inversion Ht; subst; exact Hn); try discriminate.
  destruct (lookup E x) as [t|] eqn:Hl; [|discriminate].
  eapply IH; [|exact Ht]. eapply lookup_nodes; eauto.
Qed.
Lemma trace_nodes E ts n n' : In n (nodes E ts) -> trace E n = Some n' -> In n' (nodes E ts).
Proof. apply trace_f_nodes. Qed.

Lemma find_field_In i fs t : find_field i fs = Some t -> In (i, t) fs.
Proof.
  induction fs as [|[j u] r IH]; [discriminate|]. cbn [find_field]. destruct (N.eqb_spec i j).
  - intros [= <-]. subst. now left.
  - intros H. right. now apply IH.
Qed.
Lemma find_meth_In i ms t : find_meth i ms = Some t -> In (i, t) ms.
Proof.
  induction ms as [|[j u] r IH]; [discriminate|]. cbn [find_meth]. destruct (name_eqb i j) eqn:E.
  - intros [= <-]. apply name_eqb_spec in E. subst. now left.
  - intros H. right. now apply IH.
Qed.
