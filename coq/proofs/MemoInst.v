(* MemoInst.v -- the relation decided by the memoising checkers is the specification's:
   [MRel plan_sub] is [Sub] and [MRel plan_eq] is [TyEq].  With MemoProofs.history_correct: every answer of
   subtype / subtype_with_config(Silence | Warning) / equal along any history sharing one gamma is [sub_dec] / [eq_dec]. *)
From Coq Require Import Lia.
From CandidV Require Import model.Memo proofs.TyProofs proofs.SubProofs proofs.MemoProofs.
Open Scope N_scope.

Definition prem_ok (R : pair -> Prop) (v : verdict) : Prop :=
  match v with VTrue => True | VFalse => False | VPrem qs => Forall R qs end.
Lemma prem_ok_mono (R R' : pair -> Prop) v : (forall q, R q -> R' q) -> prem_ok R v -> prem_ok R' v.
Proof. intros H. destruct v; cbn; auto. apply Forall_impl, H. Qed.

Lemma apply_rule_prem (R : pair -> Prop) v :
  (exists S : pair -> bool, (forall q, S q = true -> R q) /\ apply_rule v S = true) <-> prem_ok R v.
Proof.
  split.
  - intros [S [HS HF]]. destruct v; cbn in *; [exact I|discriminate|].
    rewrite forallb_forall in HF. apply Forall_forall. intros q Hq. apply HS, HF, Hq.
  - intros H. destruct v; cbn in *.
    + exists (fun _ => false). split; [discriminate|reflexivity].
    + destruct H.
    + exists (gmem qs). split.
      * intros q Hq. rewrite Forall_forall in H. apply H. apply gmem_In. exact Hq.
      * apply forallb_forall. intros q Hq. apply gmem_In. exact Hq.
Qed.

(* the relations of Sub.v, with premises as propositions *)
Lemma Sub_alt E a b :
  Sub E a b <-> exists R : pair -> Prop, R (a, b) /\ forall p, R p -> prem_ok R (rule E p).
Proof.
  unfold Sub, stepb. split; intros [R [Hab HR]]; exists R; (split; [exact Hab|]); intros p Hp.
  - apply apply_rule_prem. apply HR, Hp.
  - apply apply_rule_prem. apply HR, Hp.
Qed.
Lemma TyEq_alt E a b :
  TyEq E a b <-> exists R : pair -> Prop, R (a, b) /\ forall p, R p -> prem_ok R (eq_rule E p).
Proof.
  unfold TyEq, eq_stepb. split; intros [R [Hab HR]]; exists R; (split; [exact Hab|]); intros p Hp.
  - apply apply_rule_prem. apply HR, Hp.
  - apply apply_rule_prem. apply HR, Hp.
Qed.

(* ---------- name tracing ---------- *)
Lemma trace_f_nonvar E f : forall t t', trace_f f E t = Some t' -> tvarb t' = false.
Proof.
  induction f as [|f IH]; intros t t' H; destruct t; cbn in H; try (injection H as <-; reflexivity); try discriminate.
  destruct (lookup E x); [|discriminate]. eapply IH, H.
Qed.
Lemma trace_nonvar E t t' : trace E t = Some t' -> tvarb t' = false.
Proof. apply trace_f_nonvar. Qed.
Lemma trace_self E t : tvarb t = false -> trace E t = Some t.
Proof. destruct t; cbn; intros H; try reflexivity; discriminate. Qed.

(* ---------- one structural arm: the visit plan says what the rule function says ---------- *)
Lemma items_lookup {X} (R : pair -> Prop) (look : X -> option ty) (mk : X -> ty -> pair) (dflt : X -> bool) (fs : list X) :
  Forall (item_holds R) (map (fun f => match look f with Some t => IPrem (mk f t) | None => IGuard (dflt f) end) fs)
  <-> prem_ok R (if forallb (fun f => match look f with Some _ => true | None => dflt f end) fs
                 then VPrem (flat_map (fun f => match look f with Some t => [mk f t] | None => [] end) fs)
                 else VFalse).
Proof.
  induction fs as [|f fs IH]; cbn [map forallb flat_map].
  - cbn. split; constructor.
  - destruct (look f) as [t|] eqn:Hl.
    + cbn [andb app]. destruct (forallb _ fs) eqn:Hf.
      * cbn in IH |- *. split; intros H; inversion H; subst; constructor; try assumption; apply IH; assumption.
      * cbn in IH |- *. split; [|intros []]. intros H. inversion H; subst. apply IH. assumption.
    + destruct (dflt f) eqn:Hd; cbn [andb app].
      * destruct (forallb _ fs) eqn:Hf.
        -- cbn in IH |- *. split; intros H.
           ++ inversion H; subst. apply IH. assumption.
           ++ constructor; [reflexivity|apply IH; assumption].
        -- cbn in IH |- *. split; [|intros []]. intros H. inversion H; subst. apply IH. assumption.
      * cbn. split; [|intros []]. intros H. inversion H; subst. cbn in H2. discriminate.
Qed.

Lemma plan_sub_arms E (R : pair -> Prop) a b :
  tvarb a = false -> tvarb b = false -> plan_holds R (plan_sub E a b) <-> prem_ok R (arms E a b).
Proof.
  intros Ha Hb.
  destruct a as [pa|xa|ta|ta|fa|fa|aa ra ma|msa|ia ta|]; try discriminate;
  destruct b as [pb|xb|tb|tb|fb|fb|ab rb mb|msb|ib tb|]; try discriminate;
    try destruct pa; try destruct pb; cbn [plan_sub arms plan_holds prem_ok];
    try (split; intros _; [exact I|constructor]; fail);
    try (split; intros H; try exact I; try (inversion H; subst; cbn in *; discriminate); try destruct H; fail);
    try (split; intros H; [inversion H; subst; constructor; [assumption|constructor]|inversion H; subst; constructor; [assumption|constructor]]; fail).
  all: try (destruct (list_eqb N.eqb ma mb); cbn [plan_holds prem_ok];
            [split; intros H; inversion H as [|? ? H1 H2]; subst; inversion H2; subst; repeat constructor; assumption
            |split; intros H; [inversion H; subst; cbn in *; discriminate|destruct H]]; fail).
  - exact (items_lookup R (fun f => find_field (fst f) fa) (fun f t => (t, snd f)) (fun f => optlike E (snd f)) fb).
  - exact (items_lookup R (fun f => find_field (fst f) fb) (fun f t => (snd f, t)) (fun _ => false) fa).
  - exact (items_lookup R (fun m => find_meth (fst m) msa) (fun m t => (t, snd m)) (fun _ => false) msb).
Qed.

(* ---------- MRel plan_sub = Sub ---------- *)
Section SubInst.
  Variable E : env.
  Notation MR := (MRel plan_sub E).

  Lemma mrel_trace_l a b : MR (a, b) -> ty_eqb a b = false ->
    exists a', trace E a = Some a' /\ MR (a', b).
  Proof.
    intros H Hne. destruct (tvarb a) eqn:Hv.
    - apply MRel_unfold in H. unfold mrule in H. cbn [fst snd] in H. rewrite Hne, Hv in H.
      destruct (trace E a) as [a'|]; [|destruct H]. exists a'. split; [reflexivity|exact H].
    - exists a. split; [apply trace_self, Hv|exact H].
  Qed.
  Lemma mrel_trace_r a b : MR (a, b) -> tvarb a = false -> ty_eqb a b = false ->
    exists b', trace E b = Some b' /\ MR (a, b').
  Proof.
    intros H Ha Hne. destruct (tvarb b) eqn:Hv.
    - apply MRel_unfold in H. unfold mrule in H. cbn [fst snd] in H. rewrite Hne, Ha, Hv in H.
      destruct (trace E b) as [b'|]; [|destruct H]. exists b'. split; [reflexivity|exact H].
    - exists b. split; [apply trace_self, Hv|exact H].
  Qed.

  Lemma mrel_rule p : MR p -> prem_ok MR (rule E p).
  Proof.
    destruct p as [a b]. intros H. unfold rule.
    destruct (ty_eqb a b) eqn:Hab; [exact I|].
    destruct (mrel_trace_l a b H Hab) as [a' [Ta Ha']]. rewrite Ta.
    pose proof (trace_nonvar E a a' Ta) as Hva.
    destruct (ty_eqb a' b) eqn:Ha'b.
    { apply ty_eqb_spec in Ha'b. subst b. rewrite (trace_self E a' Hva), ty_eqb_refl. exact I. }
    destruct (mrel_trace_r a' b Ha' Hva Ha'b) as [b' [Tb Hb']]. rewrite Tb.
    pose proof (trace_nonvar E b b' Tb) as Hvb.
    destruct (ty_eqb a' b') eqn:Hab'; [exact I|].
    apply MRel_unfold in Hb'. unfold mrule in Hb'. cbn [fst snd] in Hb'. rewrite Hab', Hva, Hvb in Hb'.
    apply plan_sub_arms; assumption.
  Qed.

  (* Sub is closed under tracing either side *)
  Lemma sub_trace_l a b a' : Sub E a b -> ty_eqb a b = false -> trace E a = Some a' -> Sub E a' b.
  Proof.
    intros H Hne Ta. apply Sub_alt. apply Sub_alt in H. destruct H as [R [Hab HR]].
    exists (fun p => R p \/ p = (a', b)). split; [right; reflexivity|].
    intros p [Hp| ->].
    - eapply prem_ok_mono; [|apply HR, Hp]. intros q Hq. left. exact Hq.
    - pose proof (HR _ Hab) as H0. unfold rule in H0 |- *. rewrite Hne, Ta in H0.
      destruct (ty_eqb a' b) eqn:E1; [exact I|].
      rewrite (trace_self E a' (trace_nonvar E a a' Ta)).
      eapply prem_ok_mono; [|exact H0]. intros q Hq. left. exact Hq.
  Qed.
  Lemma sub_trace_r a b b' : Sub E a b -> tvarb a = false -> ty_eqb a b = false -> trace E b = Some b' -> Sub E a b'.
  Proof.
    intros H Ha Hne Tb. apply Sub_alt. apply Sub_alt in H. destruct H as [R [Hab HR]].
    exists (fun p => R p \/ p = (a, b')). split; [right; reflexivity|].
    intros p [Hp| ->].
    - eapply prem_ok_mono; [|apply HR, Hp]. intros q Hq. left. exact Hq.
    - pose proof (HR _ Hab) as H0. unfold rule in H0 |- *. rewrite Hne, (trace_self E a Ha), Tb in H0. cbv beta iota in H0.
      destruct (ty_eqb a b') eqn:E1; [exact I|].
      rewrite (trace_self E a Ha), (trace_self E b' (trace_nonvar E b b' Tb)). cbv beta iota. rewrite E1.
      try rewrite E1 in H0. eapply prem_ok_mono; [|exact H0]. intros q Hq. left. exact Hq.
  Qed.

  Lemma sub_mrule p : Sub E (fst p) (snd p) -> mrule plan_sub E (fun q => Sub E (fst q) (snd q)) p.
  Proof.
    destruct p as [a b]. cbn [fst snd]. intros H. unfold mrule. cbn [fst snd].
    destruct (ty_eqb a b) eqn:Hab; [exact I|].
    assert (H0 : prem_ok (fun q => Sub E (fst q) (snd q)) (rule E (a, b))).
    { pose proof H as H'. apply Sub_alt in H'. destruct H' as [R [HRab HR]].
      eapply prem_ok_mono; [|apply HR, HRab]. intros [x y] Hq. cbn. apply Sub_alt. exists R. split; [exact Hq|exact HR]. }
    unfold rule in H0. rewrite Hab in H0.
    destruct (trace E a) as [a'|] eqn:Ta; [|destruct H0].
    destruct (trace E b) as [b'|] eqn:Tb; [|destruct H0].
    destruct (tvarb a) eqn:Hva.
    { cbn. exact (sub_trace_l a b a' H Hab Ta). }
    destruct (tvarb b) eqn:Hvb.
    { cbn. exact (sub_trace_r a b b' H Hva Hab Tb). }
    rewrite (trace_self E a Hva) in Ta. injection Ta as <-.
    rewrite (trace_self E b Hvb) in Tb. injection Tb as <-.
    rewrite Hab in H0. apply plan_sub_arms; assumption.
  Qed.

  Theorem mrel_sub a b : MR (a, b) <-> Sub E a b.
  Proof.
    split.
    - intros H. apply Sub_alt. exists MR. split; [exact H|]. intros p Hp. apply mrel_rule, Hp.
    - intros H. apply (MRel_coind plan_sub E (fun q => Sub E (fst q) (snd q))); [|exact H].
      intros q Hq. apply sub_mrule, Hq.
  Qed.
End SubInst.

(* ---------- MRel plan_eq = TyEq ---------- *)
Lemma zip_items_fields {K} (keq : K -> K -> bool) (R : pair -> Prop) (l1 : list (K * ty)) : forall l2,
  length l1 = length l2 ->
  (Forall (item_holds R) (zip_items keq l1 l2) <->
   prem_ok R (match zip_fields keq l1 l2 with Some qs => VPrem qs | None => VFalse end)).
Proof.
  induction l1 as [|[i s] r1 IH]; intros [|[j t] r2] Hl; cbn in Hl; try discriminate.
  - cbn. split; constructor.
  - cbn [zip_items zip_fields]. injection Hl as Hl. specialize (IH r2 Hl).
    destruct (keq i j).
    + destruct (zip_fields keq r1 r2) as [qs|]; cbn in IH |- *.
      * split; intros H.
        -- inversion H as [|? ? _ H2]; subst. inversion H2; subst. constructor; [assumption|]. apply IH. assumption.
        -- inversion H; subst. constructor; [reflexivity|]. constructor; [assumption|]. apply IH. assumption.
      * split; [|intros []]. intros H. inversion H as [|? ? _ H2]; subst. inversion H2; subst. apply IH. assumption.
    + cbn. split; [|intros []]. intros H. inversion H as [|? ? H1 _]; subst. cbn in H1. discriminate.
Qed.
Lemma zip_fields_length {K} (keq : K -> K -> bool) (l1 : list (K * ty)) : forall l2 qs,
  zip_fields keq l1 l2 = Some qs -> length l1 = length l2.
Proof.
  induction l1 as [|[i s] r1 IH]; intros [|[j t] r2] qs H; cbn in H; try discriminate; [reflexivity|].
  destruct (keq i j); [|discriminate]. destruct (zip_fields keq r1 r2) eqn:Hz; [|discriminate].
  cbn. f_equal. eapply IH. exact Hz.
Qed.
Lemma zip_plan_fields {K} (keq : K -> K -> bool) (R : pair -> Prop) (l1 l2 : list (K * ty)) :
  plan_holds R (zip_plan keq l1 l2) <->
  prem_ok R (match zip_fields keq l1 l2 with Some qs => VPrem qs | None => VFalse end).
Proof.
  unfold zip_plan. destruct (Nat.eqb (length l1) (length l2)) eqn:Hl.
  - apply Nat.eqb_eq in Hl. cbn [plan_holds]. apply zip_items_fields, Hl.
  - apply Nat.eqb_neq in Hl. destruct (zip_fields keq l1 l2) as [qs|] eqn:Hz.
    + exfalso. apply Hl. eapply zip_fields_length. exact Hz.
    + cbn. split; [|intros []]. intros H. inversion H as [|? ? H1 _]; subst. cbn in H1. discriminate.
Qed.

Definition eq_arms (a b : ty) : verdict :=
  match a, b with
  | TOpt x, TOpt y | TVec x, TVec y => VPrem [(x, y)]
  | TRec f1, TRec f2 | TVariant f1, TVariant f2 =>
      match zip_fields N.eqb f1 f2 with Some qs => VPrem qs | None => VFalse end
  | TServ m1, TServ m2 =>
      match zip_fields name_eqb m1 m2 with Some qs => VPrem qs | None => VFalse end
  | TFunc a1 r1 m1, TFunc a2 r2 m2 =>
      if list_eqb N.eqb m1 m2 then VPrem [(tuple a1, tuple a2); (tuple r1, tuple r2)] else VFalse
  | TClass i1 t1, TClass i2 t2 => VPrem [(tuple i1, tuple i2); (t1, t2)]
  | _, _ => VFalse
  end.
Lemma eq_rule_arms E a b : eq_rule E (a, b) =
  if ty_eqb a b then VTrue else
  match trace E a, trace E b with
  | Some a', Some b' => if ty_eqb a' b' then VTrue else eq_arms a' b'
  | _, _ => VFalse
  end.
Proof. reflexivity. Qed.

Lemma plan_eq_arms E (R : pair -> Prop) a b : plan_holds R (plan_eq E a b) <-> prem_ok R (eq_arms a b).
Proof.
  destruct a as [pa|xa|ta|ta|fa|fa|aa ra ma|msa|ia ta|], b as [pb|xb|tb|tb|fb|fb|ab rb mb|msb|ib tb|];
    cbn [plan_eq eq_arms plan_holds prem_ok];
    try (split; intros H; [inversion H; subst; cbn in *; discriminate|destruct H]; fail);
    try (split; intros H; [inversion H; subst; constructor; [assumption|constructor]|inversion H; subst; constructor; [assumption|constructor]]; fail);
    try apply zip_plan_fields.
  - destruct (list_eqb N.eqb ma mb); cbn [plan_holds prem_ok];
      [split; intros H; inversion H as [|? ? H1 H2]; subst; inversion H2; subst; repeat constructor; assumption
      |split; intros H; [inversion H; subst; cbn in *; discriminate|destruct H]].
  - split; intros H; inversion H as [|? ? H1 H2]; subst; inversion H2; subst; repeat constructor; assumption.
Qed.

Section EqInst.
  Variable E : env.
  Notation MR := (MRel plan_eq E).

  Lemma mreq_trace_l a b : MR (a, b) -> ty_eqb a b = false -> exists a', trace E a = Some a' /\ MR (a', b).
  Proof.
    intros H Hne. destruct (tvarb a) eqn:Hv.
    - apply MRel_unfold in H. unfold mrule in H. cbn [fst snd] in H. rewrite Hne, Hv in H.
      destruct (trace E a) as [a'|]; [|destruct H]. exists a'. split; [reflexivity|exact H].
    - exists a. split; [apply trace_self, Hv|exact H].
  Qed.
  Lemma mreq_trace_r a b : MR (a, b) -> tvarb a = false -> ty_eqb a b = false -> exists b', trace E b = Some b' /\ MR (a, b').
  Proof.
    intros H Ha Hne. destruct (tvarb b) eqn:Hv.
    - apply MRel_unfold in H. unfold mrule in H. cbn [fst snd] in H. rewrite Hne, Ha, Hv in H.
      destruct (trace E b) as [b'|]; [|destruct H]. exists b'. split; [reflexivity|exact H].
    - exists b. split; [apply trace_self, Hv|exact H].
  Qed.
  Lemma mreq_rule p : MR p -> prem_ok MR (eq_rule E p).
  Proof.
    destruct p as [a b]. intros H. rewrite eq_rule_arms.
    destruct (ty_eqb a b) eqn:Hab; [exact I|].
    destruct (mreq_trace_l a b H Hab) as [a' [Ta Ha']]. rewrite Ta.
    pose proof (trace_nonvar E a a' Ta) as Hva.
    destruct (ty_eqb a' b) eqn:Ha'b.
    { apply ty_eqb_spec in Ha'b. subst b. rewrite (trace_self E a' Hva), ty_eqb_refl. exact I. }
    destruct (mreq_trace_r a' b Ha' Hva Ha'b) as [b' [Tb Hb']]. rewrite Tb.
    pose proof (trace_nonvar E b b' Tb) as Hvb.
    destruct (ty_eqb a' b') eqn:Hab'; [exact I|].
    apply MRel_unfold in Hb'. unfold mrule in Hb'. cbn [fst snd] in Hb'. rewrite Hab', Hva, Hvb in Hb'.
    apply (plan_eq_arms E). exact Hb'.
  Qed.

  Lemma tyeq_trace_l a b a' : TyEq E a b -> ty_eqb a b = false -> trace E a = Some a' -> TyEq E a' b.
  Proof.
    intros H Hne Ta. apply TyEq_alt. apply TyEq_alt in H. destruct H as [R [Hab HR]].
    exists (fun p => R p \/ p = (a', b)). split; [right; reflexivity|].
    intros p [Hp| ->].
    - eapply prem_ok_mono; [|apply HR, Hp]. intros q Hq. left. exact Hq.
    - pose proof (HR _ Hab) as H0. rewrite eq_rule_arms in H0 |- *. rewrite Hne, Ta in H0.
      destruct (ty_eqb a' b) eqn:E1; [exact I|].
      rewrite (trace_self E a' (trace_nonvar E a a' Ta)).
      eapply prem_ok_mono; [|exact H0]. intros q Hq. left. exact Hq.
  Qed.
  Lemma tyeq_trace_r a b b' : TyEq E a b -> tvarb a = false -> ty_eqb a b = false -> trace E b = Some b' -> TyEq E a b'.
  Proof.
    intros H Ha Hne Tb. apply TyEq_alt. apply TyEq_alt in H. destruct H as [R [Hab HR]].
    exists (fun p => R p \/ p = (a, b')). split; [right; reflexivity|].
    intros p [Hp| ->].
    - eapply prem_ok_mono; [|apply HR, Hp]. intros q Hq. left. exact Hq.
    - pose proof (HR _ Hab) as H0. rewrite eq_rule_arms in H0 |- *. rewrite Hne, (trace_self E a Ha), Tb in H0. cbv beta iota in H0.
      destruct (ty_eqb a b') eqn:E1; [exact I|].
      rewrite (trace_self E a Ha), (trace_self E b' (trace_nonvar E b b' Tb)). cbv beta iota. rewrite E1.
      try rewrite E1 in H0. eapply prem_ok_mono; [|exact H0]. intros q Hq. left. exact Hq.
  Qed.
  Lemma tyeq_mrule p : TyEq E (fst p) (snd p) -> mrule plan_eq E (fun q => TyEq E (fst q) (snd q)) p.
  Proof.
    destruct p as [a b]. cbn [fst snd]. intros H. unfold mrule. cbn [fst snd].
    destruct (ty_eqb a b) eqn:Hab; [exact I|].
    assert (H0 : prem_ok (fun q => TyEq E (fst q) (snd q)) (eq_rule E (a, b))).
    { pose proof H as H'. apply TyEq_alt in H'. destruct H' as [R [HRab HR]].
      eapply prem_ok_mono; [|apply HR, HRab]. intros [x y] Hq. cbn. apply TyEq_alt. exists R. split; [exact Hq|exact HR]. }
    rewrite eq_rule_arms in H0. rewrite Hab in H0.
    destruct (trace E a) as [a'|] eqn:Ta; [|destruct H0].
    destruct (trace E b) as [b'|] eqn:Tb; [|destruct H0].
    destruct (tvarb a) eqn:Hva.
    { cbn. exact (tyeq_trace_l a b a' H Hab Ta). }
    destruct (tvarb b) eqn:Hvb.
    { cbn. exact (tyeq_trace_r a b b' H Hva Hab Tb). }
    rewrite (trace_self E a Hva) in Ta. injection Ta as <-.
    rewrite (trace_self E b Hvb) in Tb. injection Tb as <-.
    rewrite Hab in H0. apply (plan_eq_arms E). exact H0.
  Qed.
  Theorem mrel_tyeq a b : MR (a, b) <-> TyEq E a b.
  Proof.
    split.
    - intros H. apply TyEq_alt. exists MR. split; [exact H|]. intros p Hp. apply mreq_rule, Hp.
    - intros H. apply (MRel_coind plan_eq E (fun q => TyEq E (fst q) (snd q))); [|exact H].
      intros q Hq. apply tyeq_mrule, Hq.
  Qed.
End EqInst.

(* ---------- the statements used by props/C05.v ---------- *)
Lemma Forall2_imp {A B} (P Q : A -> B -> Prop) l l' : (forall a b, P a b -> Q a b) -> Forall2 P l l' -> Forall2 Q l l'.
Proof. intros H HF. induction HF; constructor; auto. Qed.
Definition sound_memo (E : env) (g : list pair) : Prop := forall x, In x g -> Sub E (fst x) (snd x).

Theorem sub_history_correct E f qs g :
  sound_memo E g ->
  let o := sub_history E false f g qs in
  forallb answered (snd o) = true ->
  Forall2 (fun q r => (r = MOk <-> sub_dec E (fst q) (snd q) = true)) qs (snd o) /\ sound_memo E (fst o).
Proof.
  intros Hg o Hans.
  assert (Hg' : forall x, In x g -> MRel plan_sub E x).
  { intros [a b] Hx. apply mrel_sub. exact (Hg _ Hx). }
  destruct (history_correct plan_sub E f qs g Hg' Hans) as [HF Hinv]. split.
  - eapply Forall2_imp; [|exact HF]. intros [a b] r Hr. cbn [fst snd]. rewrite sub_dec_correct, <- mrel_sub. exact Hr.
  - intros [a b] Hx. cbn. apply mrel_sub. exact (Hinv _ Hx).
Qed.

Theorem sub_query_strict_sound E f g a b :
  sound_memo E g -> snd (query plan_sub E true f g a b) = MOk -> Sub E a b.
Proof.
  intros Hg H.
  assert (Hg' : forall x, In x g -> MRel plan_sub E x).
  { intros [x y] Hx. apply mrel_sub. exact (Hg _ Hx). }
  apply mrel_sub. exact (proj1 (query_correct plan_sub E true f g a b Hg') H).
Qed.

Definition sound_eq_memo (E : env) (g : list pair) : Prop := forall x, In x g -> TyEq E (fst x) (snd x).
Theorem eq_history_correct E f qs g :
  sound_eq_memo E g ->
  let o := eq_history E f g qs in
  forallb answered (snd o) = true ->
  Forall2 (fun q r => (r = MOk <-> eq_dec E (fst q) (snd q) = true)) qs (snd o) /\ sound_eq_memo E (fst o).
Proof.
  intros Hg o Hans.
  assert (Hg' : forall x, In x g -> MRel plan_eq E x).
  { intros [a b] Hx. apply mrel_tyeq. exact (Hg _ Hx). }
  destruct (history_correct plan_eq E f qs g Hg' Hans) as [HF Hinv]. split.
  - eapply Forall2_imp; [|exact HF]. intros [a b] r Hr. cbn [fst snd]. rewrite eq_dec_correct, <- mrel_tyeq. exact Hr.
  - intros [a b] Hx. cbn. apply mrel_tyeq. exact (Hinv _ Hx).
Qed.
