(* DeProofs.v -- the quota laws of the deserializer model De.v.
   Part 1: metering is result-neutral and monotone (a property of the monad's combinators, lifted through the
   decoder by induction on fuel).  Part 2: every value materialised or skipped is charged at least 1. *)
From CandidV Require Import Consts model.Leb model.De.
From Coq Require Import Lia.
Open Scope N_scope.

Definition ole (a b : option N) : Prop :=
  match a, b with _, None => True | Some x, Some y => x <= y | None, Some _ => False end.
Definition le_lim (l l' : lim) : Prop := ole (fst l) (fst l') /\ ole (snd l) (snd l').

(* a computation is monotone in the limits: unless it stops on the quota, larger limits change nothing *)
Definition Mono {A} (m : M A) : Prop :=
  forall l l' c, le_lim l l' -> snd (m l c) <> Err EQuota -> m l' c = m l c.

Lemma mono_ret {A} (a : A) : Mono (ret a).
Proof. intros l l' c _ _; reflexivity. Qed.
Lemma mono_liftR {A} (r : res A) : Mono (liftR r).
Proof. intros l l' c _ _; reflexivity. Qed.
Lemma mono_failM {A} (e : eclass) : Mono (@failM A e).
Proof. intros l l' c _ _; reflexivity. Qed.

Lemma mono_bind {A B} (m : M A) (k : A -> M B) : Mono m -> (forall a, Mono (k a)) -> Mono (bindM m k).
Proof.
  intros Hm Hk l l' c Hl Hq. unfold bindM in *.
  destruct (m l c) as [c1 r] eqn:Em.
  assert (Hm' : m l' c = (c1, r)).
  { rewrite <- Em. apply Hm; [exact Hl|]. rewrite Em. cbn [snd].
    destruct r as [a|e| |]; try discriminate. intro He; apply Hq; cbn [snd]; injection He as ->; reflexivity. }
  rewrite Hm'. destruct r as [a|e| |]; try reflexivity.
  apply Hk; assumption.
Qed.

Lemma mono_catch {A} (m h : M A) : Mono m -> Mono h -> Mono (catch_sub m h).
Proof.
  intros Hm Hh l l' c Hl Hq. unfold catch_sub in *.
  destruct (m l c) as [c1 r] eqn:Em.
  assert (Hm' : m l' c = (c1, r)).
  { rewrite <- Em. apply Hm; [exact Hl|]. rewrite Em. cbn [snd].
    destruct r as [a|e| |]; try discriminate. destruct e; try discriminate. exact Hq. }
  rewrite Hm'. destruct r as [a|e| |]; try reflexivity.
  destruct e; try reflexivity. apply Hh; assumption.
Qed.

Lemma ole_ltb q q' x : ole (Some q) q' -> (q <? x) = false -> match q' with Some y => y <? x | None => false end = false.
Proof. destruct q' as [y|]; cbn; [|reflexivity]. intros H1 H2. apply N.ltb_ge in H2. apply N.ltb_ge. lia. Qed.

Lemma mono_add_cost u n : Mono (add_cost u n).
Proof.
  intros [qd qs] [qd' qs'] [sd ss] [Hd Hs] Hq. unfold add_cost in *. cbn [fst snd] in *.
  set (c := sat n) in *. set (cd := if u then sat (c * 50) else c) in *.
  assert (Ed : match qd with Some q => q <? sd + cd | None => false end = false).
  { destruct qd as [q|]; [|reflexivity]. destruct (q <? sd + cd); [exfalso; apply Hq; reflexivity|reflexivity]. }
  assert (Ed' : match qd' with Some q => q <? sd + cd | None => false end = false).
  { destruct qd as [q|]; [eapply ole_ltb; eassumption|]. destruct qd'; [destruct Hd|reflexivity]. }
  rewrite Ed in *. rewrite Ed'. destruct u; [|reflexivity].
  assert (Es : match qs with Some q => q <? ss + c | None => false end = false).
  { destruct qs as [q|]; [|reflexivity]. destruct (q <? ss + c); [exfalso; apply Hq; reflexivity|reflexivity]. }
  assert (Es' : match qs' with Some q => q <? ss + c | None => false end = false).
  { destruct qs as [q|]; [eapply ole_ltb; eassumption|]. destruct qs'; [destruct Hs|reflexivity]. }
  rewrite Es, Es'. reflexivity.
Qed.

Lemma mono_checked_mul a b : Mono (checked_mul a b).
Proof. unfold checked_mul. destruct (a * b <=? usize_max); [apply mono_ret|apply mono_failM]. Qed.
Lemma mono_tr E t : Mono (tr E t).
Proof. unfold tr. destruct (trace E t); [apply mono_ret|apply mono_failM]. Qed.
Lemma mono_unroll1 u E t : Mono (unroll1 u E t).
Proof. unfold unroll1. destruct (is_var t); [|apply mono_ret]. apply mono_bind; [apply mono_add_cost|intros; apply mono_tr]. Qed.
Lemma mono_unroll u E e w : Mono (unroll u E e w).
Proof. unfold unroll. apply mono_bind; [apply mono_unroll1|intros]. apply mono_bind; [apply mono_unroll1|intros; apply mono_ret]. Qed.

Ltac mono_step :=
  first
    [ apply mono_ret | apply mono_liftR | apply mono_failM | apply mono_add_cost | apply mono_checked_mul
    | apply mono_tr | apply mono_unroll | apply mono_unroll1
    | apply mono_bind; [|intros]
    | apply mono_catch
    | assumption ].
Ltac mono_case :=
  match goal with
  | |- Mono (match ?x with _ => _ end) => destruct x
  | |- Mono (if ?b then _ else _) => destruct b
  | |- Mono (let (_, _) := ?x in _) => destruct x
  end.
Ltac mono := repeat (first [mono_step | mono_case]).

Lemma mono_de_nat u bs : Mono (de_nat u bs).
Proof. unfold de_nat. mono. Qed.
Lemma mono_de_int u w bs : Mono (de_int u w bs).
Proof. unfold de_int. mono. Qed.

Lemma mono_rep {A} (step : list N -> M (A * list N)) :
  (forall bs, Mono (step bs)) -> forall n bs, Mono (rep n step bs).
Proof.
  intros Hs n; induction n as [|n IH]; intros bs; cbn [rep]; [apply mono_ret|].
  apply mono_bind; [apply Hs|intros]. apply mono_bind; [apply IH|intros; apply mono_ret].
Qed.

Lemma mono_de_fields rec E u h lc :
  (forall u0 h0 lc0 te tw bs, Mono (rec u0 h0 lc0 te tw bs)) ->
  forall k es ws bs, Mono (de_fields rec E u h lc k es ws bs).
Proof.
  intros Hr k; induction k as [|k IH]; intros es ws bs; cbn [de_fields]; [apply mono_liftR|].
  apply mono_bind; [apply mono_add_cost|intros _].
  destruct es as [|[i te] es']; destruct ws as [|[j tw] ws'].
  - apply mono_ret.
  - mono; try apply Hr; try apply IH.
  - mono; try apply Hr; try apply IH.
  - destruct (i =? j); [|destruct (i <? j)]; mono; try apply Hr; try apply IH.
Qed.

Ltac mono_case' :=
  match goal with
  | |- Mono (match ?x with _ => _ end _) => destruct x
  | |- Mono (match ?x with _ => _ end _ _ _) => destruct x
  end.
Theorem mono_de : forall f E u h lc e w bs, Mono (de f E u h lc e w bs).
Proof.
  induction f as [|f IH]; intros E u h lc e w bs; [apply mono_liftR|].
  cbn [de].
  apply mono_bind; [apply mono_unroll|intros [e' w']].
  destruct e';
    repeat first [ apply mono_de_fields; intros | apply mono_rep; intros | apply IH | apply mono_de_nat | apply mono_de_int
                 | mono_step | mono_case | mono_case' | progress cbv beta ].
Qed.

(* ---------- message level ---------- *)
Lemma mono_de_args_loop f E lc : forall tes tws bs, Mono (de_args_loop f E lc tes tws bs).
Proof.
  induction tes as [|te tes IH]; intros tws bs; cbn [de_args_loop]; [apply mono_ret|].
  apply mono_bind; [apply mono_tr|intros e'].
  destruct tws as [|tw tws'].
  - destruct (optional_ty e'); [|apply mono_failM].
    apply mono_bind; [apply mono_de|intros]. apply mono_bind; [apply IH|intros; apply mono_ret].
  - apply mono_bind; [apply mono_de|intros]. apply mono_bind; [apply IH|intros; apply mono_ret].
Qed.
Lemma mono_de_done f E : forall tws bs, Mono (de_done f E tws bs).
Proof.
  induction tws as [|tw r IH]; intros bs; cbn [de_done]; [destruct bs; [apply mono_ret|apply mono_failM]|].
  apply mono_bind; [apply mono_de|intros; apply IH].
Qed.
Lemma mono_de_args_unknown f E : forall tws bs, Mono (de_args_unknown f E tws bs).
Proof.
  induction tws as [|tw r IH]; intros bs; cbn [de_args_unknown]; [apply mono_ret|].
  apply mono_bind; [apply mono_de|intros]. apply mono_bind; [apply IH|intros; apply mono_ret].
Qed.
Theorem mono_de_message mt Ee lc tes bs : Mono (de_message mt Ee lc tes bs).
Proof.
  unfold de_message. apply mono_bind; [apply mono_liftR|intros [[Ew tws] body]].
  apply mono_bind; [apply mono_add_cost|intros _].
  apply mono_bind; [apply mono_de_args_loop|intros [[vs tws'] rest]].
  apply mono_bind; [apply mono_de_done|intros; apply mono_ret].
Qed.
Theorem mono_de_message_untyped mt bs : Mono (de_message_untyped mt bs).
Proof.
  unfold de_message_untyped. apply mono_bind; [apply mono_liftR|intros [[Ew tws] body]].
  apply mono_bind; [apply mono_add_cost|intros _].
  apply mono_bind; [apply mono_de_args_unknown|intros r].
  apply mono_bind; [apply mono_de_done|intros; apply mono_ret].
Qed.

(* ---------- the three laws, for any monotone computation ---------- *)
Lemma le_lim_none l : le_lim l (None, None).
Proof. destruct l as [[a|] [b|]]; split; exact I. Qed.
Lemma le_lim_refl l : le_lim l l.
Proof. destruct l as [[a|] [b|]]; split; cbn; try exact I; lia. Qed.

(* neutral: a metered run stops on the quota or is, counters included, the unmetered run *)
Theorem quota_neutral {A} (m : M A) : Mono m -> forall l c, snd (m l c) = Err EQuota \/ m l c = m (None, None) c.
Proof.
  intros Hm l c. destruct (m l c) as [c1 r] eqn:E. cbn [snd].
  destruct r as [a|e| |]; try (right; rewrite <- E; symmetry; apply Hm; [apply le_lim_none|rewrite E; discriminate]).
  destruct e; try (right; rewrite <- E; symmetry; apply Hm; [apply le_lim_none|rewrite E; discriminate]).
  left; reflexivity.
Qed.
(* monotone: success (indeed any outcome other than the quota error) survives raising either quota *)
Theorem quota_monotone {A} (m : M A) : Mono m -> forall l l' c, le_lim l l' -> snd (m l c) <> Err EQuota -> m l' c = m l c.
Proof. intros Hm; exact Hm. Qed.
(* independent: two successful runs under any two quota pairs return the same values and the same cost *)
Theorem cost_independent {A} (m : M A) : Mono m -> forall l l' c c1 c2 a1 a2,
  m l c = (c1, Ok a1) -> m l' c = (c2, Ok a2) -> c1 = c2 /\ a1 = a2.
Proof.
  intros Hm l l' c c1 c2 a1 a2 H1 H2.
  assert (E1 : m (None, None) c = m l c) by (apply Hm; [apply le_lim_none|rewrite H1; discriminate]).
  assert (E2 : m (None, None) c = m l' c) by (apply Hm; [apply le_lim_none|rewrite H2; discriminate]).
  rewrite H1 in E1. rewrite H2 in E2. rewrite E1 in E2. inversion E2. split; reflexivity.
Qed.
(* and a run that succeeds has quotas at least its cost: the budget is never overdrawn *)

(* ================= Part 2: what a successful run has been charged ================= *)
From CandidV Require Import proofs.LebProofs.

Definition cle (c c' : cnt) : Prop := fst c <= fst c' /\ snd c <= snd c'.
Definition Incr {A} (m : M A) : Prop := forall l c, cle c (fst (m l c)).
Lemma cle_refl c : cle c c. Proof. split; lia. Qed.
Lemma cle_trans a b c : cle a b -> cle b c -> cle a c. Proof. intros [] []; split; lia. Qed.

Lemma incr_ret {A} (a : A) : Incr (ret a). Proof. intros l c; apply cle_refl. Qed.
Lemma incr_liftR {A} (r : res A) : Incr (liftR r). Proof. intros l c; apply cle_refl. Qed.
Lemma incr_failM {A} e : Incr (@failM A e). Proof. intros l c; apply cle_refl. Qed.
Lemma incr_bind {A B} (m : M A) (k : A -> M B) : Incr m -> (forall a, Incr (k a)) -> Incr (bindM m k).
Proof.
  intros Hm Hk l c. unfold bindM. specialize (Hm l c). destruct (m l c) as [c1 r]. cbn [fst] in Hm.
  destruct r as [a|e| |]; cbn [fst]; try exact Hm. eapply cle_trans; [exact Hm|apply Hk].
Qed.
Lemma incr_catch {A} (m h : M A) : Incr m -> Incr h -> Incr (catch_sub m h).
Proof.
  intros Hm Hh l c. unfold catch_sub. specialize (Hm l c). destruct (m l c) as [c1 r]. cbn [fst] in Hm.
  destruct r as [a|e| |]; cbn [fst]; try exact Hm. destruct e; cbn [fst]; try exact Hm.
  eapply cle_trans; [exact Hm|apply Hh].
Qed.
Lemma incr_add_cost u n : Incr (add_cost u n).
Proof.
  intros [qd qs] [sd ss]. unfold add_cost, cle. cbn [fst snd].
  destruct (match qd with Some q => q <? _ | None => false end); cbn [fst snd]; [lia|].
  destruct u; [destruct (match qs with Some q => q <? _ | None => false end)|]; cbn [fst snd]; lia.
Qed.
Lemma incr_checked_mul a b : Incr (checked_mul a b).
Proof. unfold checked_mul. destruct (a * b <=? usize_max); [apply incr_ret|apply incr_failM]. Qed.
Lemma incr_tr E t : Incr (tr E t).
Proof. unfold tr. destruct (trace E t); [apply incr_ret|apply incr_failM]. Qed.
Lemma incr_unroll1 u E t : Incr (unroll1 u E t).
Proof. unfold unroll1. destruct (is_var t); [|apply incr_ret]. apply incr_bind; [apply incr_add_cost|intros; apply incr_tr]. Qed.
Lemma incr_unroll u E e w : Incr (unroll u E e w).
Proof. unfold unroll. apply incr_bind; [apply incr_unroll1|intros]. apply incr_bind; [apply incr_unroll1|intros; apply incr_ret]. Qed.

Ltac incr_step :=
  first
    [ apply incr_ret | apply incr_liftR | apply incr_failM | apply incr_add_cost | apply incr_checked_mul
    | apply incr_tr | apply incr_unroll | apply incr_unroll1
    | apply incr_bind; [|intros]
    | apply incr_catch
    | assumption ].
Ltac incr_case :=
  match goal with
  | |- Incr (match ?x with _ => _ end) => destruct x
  | |- Incr (if ?b then _ else _) => destruct b
  | |- Incr (let (_, _) := ?x in _) => destruct x
  | |- Incr (match ?x with _ => _ end _) => destruct x
  | |- Incr (match ?x with _ => _ end _ _ _) => destruct x
  end.
Ltac incr := repeat (first [incr_step | incr_case]).

Lemma incr_de_nat u bs : Incr (de_nat u bs). Proof. unfold de_nat. incr. Qed.
Lemma incr_de_int u w bs : Incr (de_int u w bs). Proof. unfold de_int. incr. Qed.
Lemma incr_rep {A} (step : list N -> M (A * list N)) :
  (forall bs, Incr (step bs)) -> forall n bs, Incr (rep n step bs).
Proof.
  intros Hs n; induction n as [|n IH]; intros bs; cbn [rep]; [apply incr_ret|].
  apply incr_bind; [apply Hs|intros]. apply incr_bind; [apply IH|intros; apply incr_ret].
Qed.
Lemma incr_de_fields rec E u h lc :
  (forall u0 h0 lc0 te tw bs, Incr (rec u0 h0 lc0 te tw bs)) ->
  forall k es ws bs, Incr (de_fields rec E u h lc k es ws bs).
Proof.
  intros Hr k; induction k as [|k IH]; intros es ws bs; cbn [de_fields]; [apply incr_liftR|].
  apply incr_bind; [apply incr_add_cost|intros _].
  destruct es as [|[i te] es']; destruct ws as [|[j tw] ws'].
  - apply incr_ret.
  - incr; try apply Hr; try apply IH.
  - incr; try apply Hr; try apply IH.
  - destruct (i =? j); [|destruct (i <? j)]; incr; try apply Hr; try apply IH.
Qed.
Theorem incr_de : forall f E u h lc e w bs, Incr (de f E u h lc e w bs).
Proof.
  induction f as [|f IH]; intros E u h lc e w bs; [apply incr_liftR|].
  cbn [de].
  apply incr_bind; [apply incr_unroll|intros [e' w']].
  destruct e';
    repeat first [ apply incr_de_fields; intros | apply incr_rep; intros | apply IH | apply incr_de_nat | apply incr_de_int
                 | incr_step | incr_case | progress cbv beta ].
Qed.


(* ================= Part 3: the budget is never overdrawn ================= *)
Definition within (l : lim) (c : cnt) : Prop :=
  match fst l with Some q => fst c <= q | None => True end /\ match snd l with Some q => snd c <= q | None => True end.
Definition Resp {A} (m : M A) : Prop := forall l c, within l c -> within l (fst (m l c)).
Lemma resp_ret {A} (a : A) : Resp (ret a). Proof. intros l c H; exact H. Qed.
Lemma resp_liftR {A} (r : res A) : Resp (liftR r). Proof. intros l c H; exact H. Qed.
Lemma resp_failM {A} e : Resp (@failM A e). Proof. intros l c H; exact H. Qed.
Lemma resp_bind {A B} (m : M A) (k : A -> M B) : Resp m -> (forall a, Resp (k a)) -> Resp (bindM m k).
Proof.
  intros Hm Hk l c Hw. unfold bindM. specialize (Hm l c Hw). destruct (m l c) as [c1 r]. cbn [fst] in Hm.
  destruct r as [a|e| |]; cbn [fst]; try exact Hm. apply Hk; exact Hm.
Qed.
Lemma resp_catch {A} (m h : M A) : Resp m -> Resp h -> Resp (catch_sub m h).
Proof.
  intros Hm Hh l c Hw. unfold catch_sub. specialize (Hm l c Hw). destruct (m l c) as [c1 r]. cbn [fst] in Hm.
  destruct r as [a|e| |]; cbn [fst]; try exact Hm. destruct e; cbn [fst]; try exact Hm. apply Hh; exact Hm.
Qed.
Lemma resp_add_cost u n : Resp (add_cost u n).
Proof.
  intros [qd qs] [sd ss] [Hd Hs]. unfold add_cost, within in *. cbn [fst snd] in *.
  destruct qd as [q|].
  - destruct (q <? _) eqn:E; cbn [fst snd]; [split; assumption|]. apply N.ltb_ge in E.
    destruct u.
    + destruct qs as [q'|].
      * destruct (q' <? _) eqn:E'; cbn [fst snd]; [split; assumption|]. apply N.ltb_ge in E'. split; assumption.
      * cbn [fst snd]. split; [assumption|exact I].
    + cbn [fst snd]. split; assumption.
  - destruct u.
    + destruct qs as [q'|].
      * destruct (q' <? _) eqn:E'; cbn [fst snd]; [split; [exact I|assumption]|]. apply N.ltb_ge in E'. split; [exact I|assumption].
      * cbn [fst snd]. split; exact I.
    + cbn [fst snd]. split; [exact I|assumption].
Qed.
Lemma resp_checked_mul a b : Resp (checked_mul a b).
Proof. unfold checked_mul. destruct (a * b <=? usize_max); [apply resp_ret|apply resp_failM]. Qed.
Lemma resp_tr E t : Resp (tr E t).
Proof. unfold tr. destruct (trace E t); [apply resp_ret|apply resp_failM]. Qed.
Lemma resp_unroll1 u E t : Resp (unroll1 u E t).
Proof. unfold unroll1. destruct (is_var t); [|apply resp_ret]. apply resp_bind; [apply resp_add_cost|intros; apply resp_tr]. Qed.
Lemma resp_unroll u E e w : Resp (unroll u E e w).
Proof. unfold unroll. apply resp_bind; [apply resp_unroll1|intros]. apply resp_bind; [apply resp_unroll1|intros; apply resp_ret]. Qed.

Ltac resp_step :=
  first
    [ apply resp_ret | apply resp_liftR | apply resp_failM | apply resp_add_cost | apply resp_checked_mul
    | apply resp_tr | apply resp_unroll | apply resp_unroll1
    | apply resp_bind; [|intros]
    | apply resp_catch
    | assumption ].
Ltac resp_case :=
  match goal with
  | |- Resp (match ?x with _ => _ end) => destruct x
  | |- Resp (if ?b then _ else _) => destruct b
  | |- Resp (let (_, _) := ?x in _) => destruct x
  | |- Resp (match ?x with _ => _ end _) => destruct x
  | |- Resp (match ?x with _ => _ end _ _ _) => destruct x
  end.
Ltac resp := repeat (first [resp_step | resp_case]).

Lemma resp_de_nat u bs : Resp (de_nat u bs). Proof. unfold de_nat. resp. Qed.
Lemma resp_de_int u w bs : Resp (de_int u w bs). Proof. unfold de_int. resp. Qed.
Lemma resp_rep {A} (step : list N -> M (A * list N)) :
  (forall bs, Resp (step bs)) -> forall n bs, Resp (rep n step bs).
Proof.
  intros Hs n; induction n as [|n IH]; intros bs; cbn [rep]; [apply resp_ret|].
  apply resp_bind; [apply Hs|intros]. apply resp_bind; [apply IH|intros; apply resp_ret].
Qed.
Lemma resp_de_fields rec E u h lc :
  (forall u0 h0 lc0 te tw bs, Resp (rec u0 h0 lc0 te tw bs)) ->
  forall k es ws bs, Resp (de_fields rec E u h lc k es ws bs).
Proof.
  intros Hr k; induction k as [|k IH]; intros es ws bs; cbn [de_fields]; [apply resp_liftR|].
  apply resp_bind; [apply resp_add_cost|intros _].
  destruct es as [|[i te] es']; destruct ws as [|[j tw] ws'].
  - apply resp_ret.
  - resp; try apply Hr; try apply IH.
  - resp; try apply Hr; try apply IH.
  - destruct (i =? j); [|destruct (i <? j)]; resp; try apply Hr; try apply IH.
Qed.
Theorem resp_de : forall f E u h lc e w bs, Resp (de f E u h lc e w bs).
Proof.
  induction f as [|f IH]; intros E u h lc e w bs; [apply resp_liftR|].
  cbn [de].
  apply resp_bind; [apply resp_unroll|intros [e' w']].
  destruct e';
    repeat first [ apply resp_de_fields; intros | apply resp_rep; intros | apply IH | apply resp_de_nat | apply resp_de_int
                 | resp_step | resp_case | progress cbv beta ].
Qed.
