(* DeCost.v -- every value a successful run materialises or skips has been charged at least 1, to the decoding
   budget always and to the skipping budget whenever the run is in skipping mode (is_untyped). *)
From CandidV Require Import Consts model.Leb model.De proofs.LebProofs proofs.DeProofs.
From Coq Require Import Lia.
Open Scope N_scope.

Definition charged (u : bool) (c c' : cnt) (n : N) : Prop :=
  fst c + n <= fst c' /\ (if u then snd c + n <= snd c' else snd c <= snd c').
Definition fits (bs : list N) : Prop := N.of_nat (length bs) < usize_max.
Definition shorter (r bs : list N) : Prop := (length r <= length bs)%nat.

Lemma charged_0 u c : charged u c c 0. Proof. unfold charged; destruct u; lia. Qed.
Lemma charged_cle u c c' n : charged u c c' n -> cle c c'. Proof. unfold charged, cle; destruct u; lia. Qed.
Lemma cle_charged u c c' : cle c c' -> charged u c c' 0. Proof. unfold charged, cle; destruct u; lia. Qed.
Lemma charged_trans u a b c n m : charged u a b n -> charged u b c m -> charged u a c (n + m).
Proof. unfold charged; destruct u; lia. Qed.
Lemma charged_le u a b n m : m <= n -> charged u a b n -> charged u a b m.
Proof. unfold charged; destruct u; lia. Qed.
Lemma charged_true u a b n : charged true a b n -> charged u a b n.
Proof. unfold charged; destruct u; lia. Qed.
Lemma fits_shorter r bs : shorter r bs -> fits bs -> fits r. Proof. unfold shorter, fits; lia. Qed.
Lemma shorter_refl bs : shorter bs bs. Proof. unfold shorter; lia. Qed.
Lemma shorter_trans a b c : shorter a b -> shorter b c -> shorter a c. Proof. unfold shorter; lia. Qed.

Lemma bind_ok {A B} (m : M A) (k : A -> M B) l c c' b :
  bindM m k l c = (c', Ok b) -> exists a c1, m l c = (c1, Ok a) /\ k a l c1 = (c', Ok b).
Proof. unfold bindM. destruct (m l c) as [c1 [a|e| |]]; try discriminate. intros H; exists a, c1; split; [reflexivity|exact H]. Qed.
Lemma ret_ok {A} (a b : A) l c c' : ret a l c = (c', Ok b) -> c' = c /\ b = a.
Proof. unfold ret; intros H; inversion H; split; reflexivity. Qed.
Lemma liftR_ok {A} (r : res A) b l c c' : liftR r l c = (c', Ok b) -> c' = c /\ r = Ok b.
Proof. unfold liftR; intros H; inversion H; split; reflexivity. Qed.
Lemma failM_ok {A} e (b : A) l c c' : failM e l c = (c', Ok b) -> False.
Proof. unfold failM; discriminate. Qed.
Lemma incr_ok {A} (m : M A) l c c' r : Incr m -> m l c = (c', r) -> cle c c'.
Proof. intros Hm H. specialize (Hm l c). rewrite H in Hm. exact Hm. Qed.
Lemma sat_le n : sat n <= n. Proof. unfold sat; lia. Qed.
Lemma sat_id n : n <= usize_max -> sat n = n. Proof. unfold sat; lia. Qed.
Lemma sat_ge1 n : 1 <= n -> 1 <= sat n. Proof. unfold sat, usize_max; cbn; lia. Qed.
Lemma add_cost_ok u n l c c' t : add_cost u n l c = (c', Ok t) -> charged u c c' (sat n).
Proof.
  destruct l as [qd qs], c as [sd ss]. unfold add_cost, charged. cbn [fst snd].
  destruct (match qd with Some q => q <? _ | None => false end); [discriminate|].
  destruct u.
  - destruct (match qs with Some q => q <? _ | None => false end); [discriminate|].
    intros H; inversion H; subst; cbn [fst snd].
    assert (sat n <= sat (sat n * 50)) by (unfold sat, usize_max; cbn; lia). lia.
  - intros H; inversion H; subst; cbn [fst snd]. lia.
Qed.
Lemma checked_mul_ok a b l c c' x : checked_mul a b l c = (c', Ok x) -> c' = c /\ x = a * b /\ a * b <= usize_max.
Proof.
  unfold checked_mul. destruct (a * b <=? usize_max) eqn:E; [|intros H; exfalso; exact (failM_ok _ _ _ _ _ H)].
  intros H; apply ret_ok in H as [-> ->]. apply N.leb_le in E. auto.
Qed.
Lemma tr_ok E t l c c' t' : tr E t l c = (c', Ok t') -> c' = c.
Proof. unfold tr. destruct (trace E t); [intros H; apply ret_ok in H as [-> _]; reflexivity|intros H; exfalso; exact (failM_ok _ _ _ _ _ H)]. Qed.
Lemma catch_ok {A} (m h : M A) l c c' a : Incr m ->
  catch_sub m h l c = (c', Ok a) -> m l c = (c', Ok a) \/ exists c1, cle c c1 /\ h l c1 = (c', Ok a).
Proof.
  intros Hm. unfold catch_sub. destruct (m l c) as [c1 r] eqn:E.
  destruct r as [x|e| |]; try discriminate; [intros H; left; exact H|].
  destruct e; try discriminate. intros H; right; exists c1; split; [eapply incr_ok; eassumption|exact H].
Qed.

(* ---------- lengths ---------- *)
Lemma split_leb_len bs p r : split_leb bs = Some (p, r) -> (length bs = length p + length r)%nat /\ (1 <= length p)%nat.
Proof.
  intros H. apply split_leb_sound in H as [-> Ht]. rewrite app_length. split; [reflexivity|].
  destruct p; [discriminate Ht|cbn; lia].
Qed.
Lemma read_u64_len bs n r : read_u64 bs = Ok (n, r) -> shorter r bs /\ n < 2 ^ 64.
Proof.
  unfold read_u64. destruct (split_leb bs) as [[p rest]|] eqn:E; [|discriminate].
  destruct ((N.of_nat (length p) <=? 10) && (leb_val p <? 2 ^ 64)) eqn:C; [|discriminate].
  intros H; inversion H; subst. apply split_leb_len in E as [E _]. apply andb_true_iff in C as [_ C]. apply N.ltb_lt in C.
  unfold shorter. split; [lia|exact C].
Qed.
Lemma take_bytes_len k bs a r : take_bytes k bs = Ok (a, r) -> N.of_nat (length a) = k /\ (length bs = length a + length r)%nat.
Proof.
  unfold take_bytes. destruct (k <=? N.of_nat (length bs)) eqn:E; [|discriminate]. apply N.leb_le in E.
  intros H; inversion H; subst. rewrite firstn_length, skipn_length. split; lia.
Qed.
Lemma dec_principal_len bs a r : dec_principal_bytes bs = Ok (a, r) -> shorter r bs.
Proof.
  unfold dec_principal_bytes. destruct bs as [|b bs']; [discriminate|].
  destruct b as [|[| |]]; try discriminate. unfold bind.
  destruct (read_u64 bs') as [[n r1]|e| |] eqn:E; try discriminate. cbn [fst snd].
  destruct (n <=? principal_max_len); [|discriminate]. intros H.
  apply read_u64_len in E as [E _]. apply take_bytes_len in H as [_ H]. unfold shorter in *. cbn [length]. lia.
Qed.
Lemma read_prim_len p bs v r : read_prim p bs = Ok (v, r) -> nodes v = 1 /\ shorter r bs.
Proof.
  unfold read_prim, shorter.
  assert (T : forall k f, (do xr <- take_bytes k bs; Ok (f xr, snd xr)) = Ok (v, r) -> (length r <= length bs)%nat).
  { intros k f H. unfold bind in H. destruct (take_bytes k bs) as [[a r']|e| |] eqn:E; try discriminate.
    inversion H; subst. apply take_bytes_len in E as [_ E]. cbn [snd]. lia. }
  destruct p; cbn [prim_bits];
    try discriminate;
    try (intros H; unfold bind in H;
         match type of H with context [take_bytes ?k bs] => destruct (take_bytes k bs) as [[a r']|e| |] eqn:E; try discriminate end;
         cbn [fst snd] in H; try (destruct (le_val a <? _)); inversion H; subst; apply take_bytes_len in E as [_ E]; split; [reflexivity|lia]).
  (* bool *)
  all: try (destruct bs as [|b bs']; [discriminate|]; destruct b as [|[| |]]; try discriminate; intros H; inversion H; subst; cbn [length]; split; try reflexivity; lia).
  all: intros H; split; [unfold bind in H; destruct (take_bytes _ bs) as [[a r']|e| |]; try discriminate; inversion H; reflexivity | eapply T; exact H].
Qed.

From Coq Require Import ZifyBool ZifyNat ZifyN.

Definition nodes_fields (fs : list (N * val)) : N := fold_right (fun f a => nodes (snd f) + a) 0 fs.
Lemma nodes_vec vs : nodes (VVec vs) = 1 + nodes_list vs. Proof. reflexivity. Qed.
Lemma nodes_rec fs : nodes (VRec fs) = 1 + nodes_fields fs. Proof. reflexivity. Qed.
Lemma nodes_blob l : nodes_list (map (VNatN 8) l) = N.of_nat (length l).
Proof. induction l as [|x l IH]; [reflexivity|]. cbn [map nodes_list fold_right length nodes] in *. unfold nodes_list in IH. rewrite IH. lia. Qed.
Lemma read_n_prim p : forall n bs vs r, read_n (read_prim p) n bs = Ok (vs, r) -> nodes_list vs = N.of_nat n /\ shorter r bs.
Proof.
  induction n as [|n IH]; intros bs vs r H; cbn [read_n] in H.
  - inversion H; subst. split; [reflexivity|apply shorter_refl].
  - unfold bind in H. destruct (read_prim p bs) as [[v r1]|e| |] eqn:E1; try discriminate. cbn [fst snd] in H.
    destruct (read_n (read_prim p) n r1) as [[vs' r2]|e| |] eqn:E2; try discriminate. cbn [fst snd] in H.
    inversion H; subst. apply read_prim_len in E1 as [N1 S1]. apply IH in E2 as [N2 S2].
    cbn [nodes_list fold_right]. unfold nodes_list in N2. rewrite N1, N2. unfold shorter in *. split; lia.
Qed.

Ltac inv1 :=
  match goal with
  | H : bindM _ _ _ _ = (_, Ok _) |- _ => apply bind_ok in H; destruct H as (? & ? & ? & ?)
  | H : ret _ _ _ = (_, Ok _) |- _ => apply ret_ok in H; destruct H as [? ?]; subst
  | H : liftR _ _ _ = (_, Ok _) |- _ => apply liftR_ok in H; destruct H as [? ?]; subst; try discriminate
  | H : failM _ _ _ = (_, Ok _) |- _ => exfalso; exact (failM_ok _ _ _ _ _ H)
  | H : add_cost _ _ _ _ = (_, Ok _) |- _ => apply add_cost_ok in H
  | H : checked_mul _ _ _ _ = (_, Ok _) |- _ => apply checked_mul_ok in H; destruct H as (? & ? & ?); subst
  | H : tr _ _ _ _ = (_, Ok _) |- _ => apply tr_ok in H; subst
  | H : catch_sub _ _ _ _ = (_, Ok _) |- _ =>
      apply catch_ok in H; [destruct H as [H | (? & ? & H)] | repeat first [apply incr_de | incr_step | incr_case]]
  | H : (_, _) = (_, _) |- _ => inversion H; subst; clear H
  | H : (if ?b then _ else _) _ _ = (_, Ok _) |- _ => destruct b eqn:?
  | H : (match ?x with _ => _ end) _ _ = (_, Ok _) |- _ => destruct x eqn:?
  | H : (let (_, _) := ?x in _) _ _ = (_, Ok _) |- _ => destruct x eqn:?
  end.
Ltac inv := repeat inv1.

Lemma de_nat_lower u bs l c c' v r : de_nat u bs l c = (c', Ok (v, r)) -> charged u c c' (nodes v) /\ shorter r bs.
Proof.
  unfold de_nat. intros H. destruct (split_leb bs) as [[p rest]|] eqn:E; [|exfalso; exact (failM_ok _ _ _ _ _ H)].
  inv. apply split_leb_len in E as [E1 E2]. cbn [nodes].
  match goal with H : charged _ _ _ (sat ?n) |- _ => assert (1 <= sat n) by (apply sat_ge1; lia) end.
  unfold charged, shorter in *. destruct u; split; lia.
Qed.
Lemma de_int_lower u w bs l c c' v r : de_int u w bs l c = (c', Ok (v, r)) -> charged u c c' (nodes v) /\ shorter r bs.
Proof.
  unfold de_int. intros H.
  destruct w as [[]| | | | | | | | |]; try (exfalso; exact (failM_ok _ _ _ _ _ H));
  (destruct (split_leb bs) as [[p rest]|] eqn:E; [|exfalso; exact (failM_ok _ _ _ _ _ H)]);
  inv; apply split_leb_len in E as [E1 E2]; cbn [nodes];
  match goal with H : charged _ _ _ (sat ?n) |- _ => assert (1 <= sat n) by (apply sat_ge1; lia) end;
  unfold charged, shorter in *; destruct u; split; lia.
Qed.

Lemma rep_lower u (step : list N -> M (val * list N)) :
  (forall bs l c c' v r, fits bs -> step bs l c = (c', Ok (v, r)) -> charged u c c' (nodes v) /\ shorter r bs) ->
  forall n bs l c c' vs r, fits bs -> rep n step bs l c = (c', Ok (vs, r)) -> charged u c c' (nodes_list vs) /\ shorter r bs.
Proof.
  intros Hs n; induction n as [|n IH]; intros bs l c c' vs r Hf H; cbn [rep] in H.
  - inv. split; [apply charged_0|apply shorter_refl].
  - inv. destruct x as [v1 r1]. cbn [fst snd] in *. destruct x1 as [vs2 r2]. cbn [fst snd] in *.
    match goal with H : step _ _ _ = _ |- _ => apply Hs in H; [destruct H as [C1 S1]|exact Hf] end.
    match goal with H : rep _ _ _ _ _ = _ |- _ => apply IH in H; [destruct H as [C2 S2]|eapply fits_shorter; eassumption] end.
    cbn [nodes_list fold_right]. split; [eapply charged_trans; eassumption|eapply shorter_trans; eassumption].
Qed.

Ltac split_pairs := repeat match goal with x : (_ * _)%type |- _ => destruct x end; cbn [fst snd] in *.
Ltac fields_fin rec Hr IH Hf :=
  split_pairs;
  match goal with H : rec _ _ _ _ _ _ _ _ = _ |- _ => apply Hr in H; [destruct H as [?C1 ?S1]|exact Hf] end;
  match goal with H : de_fields _ _ _ _ _ _ _ _ _ _ _ = _ |- _ => apply IH in H; [destruct H as [?C2 ?S2]|eapply fits_shorter; eassumption] end;
  unfold nodes_fields in *; cbn [fold_right snd] in *;
  split; [|eapply shorter_trans; eassumption]; unfold charged, cle in *; cbn [fst snd] in *;
  match goal with u : bool |- _ => destruct u; lia end.

Lemma de_fields_lower rec E u h lc :
  (forall te tw bs l c c' v r, fits bs -> rec u h lc te tw bs l c = (c', Ok (v, r)) -> charged u c c' (nodes v) /\ shorter r bs) ->
  forall k es ws bs l c c' fs r, fits bs ->
    de_fields rec E u h lc k es ws bs l c = (c', Ok (fs, r)) -> charged u c c' (nodes_fields fs) /\ shorter r bs.
Proof.
  intros Hr k; induction k as [|k IH]; intros es ws bs l c c' fs r Hf H; cbn [de_fields] in H; [inv|].
  apply bind_ok in H as (t0 & c0 & H0 & H). apply add_cost_ok in H0. apply charged_cle in H0.
  assert (G : charged u c0 c' (nodes_fields fs) /\ shorter r bs ->  charged u c c' (nodes_fields fs) /\ shorter r bs).
  { intros [G1 G2]; split; [|exact G2]. unfold charged, cle in *. destruct u; lia. }
  apply G. clear G H0 c t0.
  destruct es as [|[i te] es']; destruct ws as [|[j tw] ws'].
  - inv. split; [apply charged_0|apply shorter_refl].
  - inv. fields_fin rec Hr IH Hf.
  - inv. fields_fin rec Hr IH Hf.
  - destruct (i =? j); [|destruct (i <? j)]; inv; fields_fin rec Hr IH Hf.
Qed.

Lemma usize_max_val : usize_max = 18446744073709551615. Proof. reflexivity. Qed.
Lemma prim_size_ge1 p : 1 <= prim_size p. Proof. destruct p; cbn; lia. Qed.
Lemma mul_ge a b : 1 <= b -> a <= a * b. Proof. intros; nia. Qed.

Ltac lens :=
  repeat match goal with
  | H : read_u64 _ = Ok (_, _) |- _ => apply read_u64_len in H; destruct H as [? ?]
  | H : take_bytes _ _ = Ok (_, _) |- _ => apply take_bytes_len in H; destruct H as [? ?]
  | H : dec_principal_bytes _ = Ok (_, _) |- _ => apply dec_principal_len in H
  | H : read_prim _ _ = Ok (_, _) |- _ => apply read_prim_len in H; destruct H as [? ?]
  | H : read_n (read_prim _) _ _ = Ok (_, _) |- _ => apply read_n_prim in H; destruct H as [? ?]
  end.
Ltac arith :=
  unfold charged, cle, shorter, fits, sat, principal_cost in *; rewrite ?usize_max_val in *; cbn [fst snd length] in *;
  match goal with
  | u : bool |- _ => destruct u; split; lia
  | _ => split; lia
  end.

Ltac side := first [assumption | unfold fits, shorter in *; cbn [length] in *; lia].
Ltac use_ih IH IHskip :=
  repeat match goal with
  | H : de _ _ true HI no_names _ _ _ _ _ = (_, Ok (_, _)) |- _ => apply IHskip in H; [destruct H as [? ?]|side]
  | H : de _ _ _ HV _ _ _ _ _ _ = (_, Ok (_, _)) |- _ => apply IH in H; [destruct H as [? ?]|side]
  end.
Ltac prim_facts :=
  repeat match goal with H : context [prim_size ?p] |- _ => lazymatch goal with _ : 1 <= prim_size p |- _ => fail | _ => pose proof (prim_size_ge1 p) end end.
Ltac leaf IH IHskip := inv; split_pairs; lens; use_ih IH IHskip; prim_facts; cbn [nodes]; arith.

Theorem de_lower : forall f E u h lc e w bs l c c' v r,
  fits bs -> de f E u h lc e w bs l c = (c', Ok (v, r)) -> charged u c c' (nodes v) /\ shorter r bs.
Proof.
  induction f as [|f IH]; intros E u h lc e w bs l c c' v r Hf H; cbn [de] in H; [inv|].
  apply bind_ok in H as ([e' w'] & c0 & H0 & H).
  apply (incr_ok _ _ _ _ _ (incr_unroll _ _ _ _)) in H0.
  assert (G : charged u c0 c' (nodes v) /\ shorter r bs -> charged u c c' (nodes v) /\ shorter r bs).
  { intros [G1 G2]; split; [|exact G2]. unfold charged, cle in *. destruct u; lia. }
  apply G. clear G H0 c e w.
  assert (IHskip : forall tw bs l c c' v r, fits bs -> de f E true HI no_names tw tw bs l c = (c', Ok (v, r)) ->
                   charged u c c' (nodes v) /\ shorter r bs).
  { intros tw bs0 l0 c1 c2 v0 r0 Hf0 H0. apply IH in H0; [|exact Hf0]. destruct H0; split; [apply charged_true|]; assumption. }
  assert (IHsub : forall te tw bs l c c' v r, fits bs ->
            match h with HV => de f E u HV lc te tw bs | HI => de f E true HI no_names tw tw bs end l c = (c', Ok (v, r)) ->
            charged u c c' (nodes v) /\ shorter r bs).
  { intros te tw bs0 l0 c1 c2 v0 r0 Hf0 H0. destruct h; [apply IH in H0; assumption|apply IHskip in H0; assumption]. }
  destruct e' as [p|x|t2|te|es|es|aa ra ma|ms|ia ta|].
  - (* prim *)
    destruct p; try (inv; fail).
    all: try (apply de_int_lower in H; exact H).
    all: try (destruct w' as [[]| | | | | | | | |]; try (inv; fail); apply de_nat_lower in H; exact H).
    all: try (leaf IH IHskip; fail).
  - inv.
  - (* opt *) leaf IH IHskip.
  - (* vec *)
    destruct (is_blob E (TVec te) && is_blob E w') eqn:Eb.
    + inv; split_pairs; lens. rewrite nodes_vec, nodes_blob. arith.
    + inv; split_pairs; lens.
      * (* primitive vector *)
        rewrite nodes_vec.
        match goal with H : nodes_list _ = _ |- _ => rewrite H end.
        match goal with H : ?a * (3 + prim_size ?p) <= usize_max |- _ => pose proof (mul_ge a (3 + prim_size p)) end.
        arith.
      * (* big-number fast path *)
        match goal with H : rep _ ?step _ _ _ = _ |- _ => apply (rep_lower u step) in H; [destruct H as [? ?]| |side] end.
        { rewrite nodes_vec. arith. }
        { intros bs1 l1' c1 c2 v1 r1 _ Hs. destruct b; [apply de_nat_lower in Hs|apply de_int_lower in Hs|apply de_int_lower in Hs]; exact Hs. }
      * (* element by element *)
        match goal with H : rep _ ?step _ _ _ = _ |- _ => apply (rep_lower u step) in H; [destruct H as [? ?]| |side] end.
        { rewrite nodes_vec. arith. }
        { intros bs1 l1' c1 c2 v1 r1 Hf1 Hs. apply bind_ok in Hs as (t1 & c3 & Hs1 & Hs2). apply add_cost_ok in Hs1.
          apply IHsub in Hs2; [|exact Hf1]. destruct Hs2 as [Hs2 Hs3]. split; [|exact Hs3].
          apply charged_cle in Hs1. unfold charged, cle in *. destruct u; lia. }
  - (* record *)
    inv; split_pairs.
    match goal with H : de_fields ?rec _ _ _ _ _ _ _ _ _ _ = _ |- _ => apply (de_fields_lower rec) in H; [destruct H as [? ?]| |side] end.
    + rewrite nodes_rec. arith.
    + intros ? ? ? ? ? ? ? ? Hf1 Hs. destruct h; [apply IH in Hs|apply IHskip in Hs]; assumption.
  - (* variant *) leaf IH IHskip.
  - (* func *) leaf IH IHskip.
  - (* service *) leaf IH IHskip.
  - inv.
  - (* future *) leaf IH IHskip.
Qed.

(* ---------- message level ---------- *)
Lemma de_args_loop_lower f E lc : forall tes tws bs l c c' vs tws' r, fits bs ->
  de_args_loop f E lc tes tws bs l c = (c', Ok (vs, tws', r)) -> charged true c c' (nodes_list vs) /\ shorter r bs.
Proof.
  induction tes as [|te tes IH]; intros tws bs l c c' vs tws' r Hf H; cbn [de_args_loop] in H.
  - inv. split; [apply charged_0|apply shorter_refl].
  - destruct tws as [|tw tws0]; inv; split_pairs;
      match goal with H : de _ _ _ _ _ _ _ _ _ _ = _ |- _ => apply de_lower in H; [destruct H as [? ?]|assumption] end;
      match goal with H : de_args_loop _ _ _ _ _ _ _ _ = _ |- _ => apply IH in H; [destruct H as [? ?]|eapply fits_shorter; eassumption] end;
      unfold nodes_list in *; cbn [fold_right] in *; (split; [|eapply shorter_trans; eassumption]);
      unfold charged in *; cbn [fst snd] in *; lia.
Qed.
Lemma de_args_unknown_lower f E : forall tws bs l c c' vs r, fits bs ->
  de_args_unknown f E tws bs l c = (c', Ok (vs, r)) -> charged true c c' (nodes_list vs) /\ shorter r bs.
Proof.
  induction tws as [|tw tws IH]; intros bs l c c' vs r Hf H; cbn [de_args_unknown] in H.
  - inv. split; [apply charged_0|apply shorter_refl].
  - inv; split_pairs.
    match goal with H : de _ _ _ _ _ _ _ _ _ _ = _ |- _ => apply de_lower in H; [destruct H as [? ?]|assumption] end.
    match goal with H : de_args_unknown _ _ _ _ _ _ = _ |- _ => apply IH in H; [destruct H as [? ?]|eapply fits_shorter; eassumption] end.
    unfold nodes_list in *; cbn [fold_right] in *. split; [|eapply shorter_trans; eassumption].
    unfold charged in *; cbn [fst snd] in *; lia.
Qed.
(* what done() skips is charged as well: at least one unit per skipped value, to both budgets *)
Lemma de_done_incr f E : forall tws bs, Incr (de_done f E tws bs).
Proof.
  induction tws as [|tw r IH]; intros bs; cbn [de_done]; [destruct bs; [apply incr_ret|apply incr_failM]|].
  apply incr_bind; [apply incr_de|intros; apply IH].
Qed.

(* every reader of the header only consumes: what it leaves is no longer than what it was given *)
Definition Consumes {A} (rd : list N -> res (A * list N)) : Prop := forall bs a r, rd bs = Ok (a, r) -> shorter r bs.
Lemma consumes_read_u64 : Consumes read_u64.
Proof. intros bs a r H. apply read_u64_len in H as [H _]. exact H. Qed.
Lemma consumes_read_i64 : Consumes read_i64.
Proof.
  intros bs a r H. unfold read_i64 in H. destruct (split_leb bs) as [[p rest]|] eqn:E; [|discriminate].
  destruct (_ && _); [|discriminate]. inversion H; subst. apply split_leb_len in E as [E _]. unfold shorter; lia.
Qed.
Lemma consumes_bind {A B} (rd : list N -> res (A * list N)) (k : A -> list N -> res (B * list N)) :
  Consumes rd -> (forall a, Consumes (k a)) -> Consumes (fun bs => do xr <- rd bs; k (fst xr) (snd xr)).
Proof.
  intros H1 H2 bs b r H. unfold bind in H. destruct (rd bs) as [[a r1]|e| |] eqn:E; try discriminate.
  cbn [fst snd] in H. apply H1 in E. apply H2 in H. eapply shorter_trans; eassumption.
Qed.
Lemma consumes_read_n {A} (rd : list N -> res (A * list N)) : Consumes rd -> forall k, Consumes (read_n rd k).
Proof.
  intros Hr k; induction k as [|k IH]; intros bs a r H; cbn [read_n] in H.
  - inversion H; subst. apply shorter_refl.
  - unfold bind in H. destruct (rd bs) as [[x r1]|e| |] eqn:E1; try discriminate. cbn [fst snd] in H.
    destruct (read_n rd k r1) as [[xs r2]|e| |] eqn:E2; try discriminate. cbn [fst snd] in H. inversion H; subst.
    apply Hr in E1. apply IH in E2. eapply shorter_trans; eassumption.
Qed.
Lemma consumes_read_nN {A} (rd : list N -> res (A * list N)) k : Consumes rd -> Consumes (read_nN rd k).
Proof. intros Hr bs a r H. unfold read_nN in H. destruct (_ <? k); [discriminate|]. eapply consumes_read_n; eassumption. Qed.
Lemma consumes_read_index : Consumes read_index.
Proof.
  intros bs a r H. unfold read_index, bind in H. destruct (read_i64 bs) as [[i r1]|e| |] eqn:E; try discriminate. cbn [fst snd] in H.
  apply consumes_read_i64 in E. destruct (0 <=? i)%Z; [inversion H; subst; exact E|].
  destruct (prim_of_code _); [inversion H; subst; exact E|discriminate].
Qed.
Lemma consumes_read_u32 : Consumes read_u32.
Proof.
  intros bs a r H. unfold read_u32, bind in H. destruct (read_u64 bs) as [[i r1]|e| |] eqn:E; try discriminate. cbn [fst] in H.
  destruct (i <? 2 ^ 32); [|discriminate]. inversion H; subst. apply consumes_read_u64 in E. exact E.
Qed.
Lemma consumes_read_field : Consumes read_field.
Proof.
  intros bs a r H. unfold read_field, bind in H. destruct (read_u32 bs) as [[i r1]|e| |] eqn:E1; try discriminate. cbn [fst snd] in H.
  destruct (read_index r1) as [[t r2]|e| |] eqn:E2; try discriminate. cbn [fst snd] in H. inversion H; subst.
  apply consumes_read_u32 in E1. apply consumes_read_index in E2. eapply shorter_trans; eassumption.
Qed.
Lemma consumes_read_fields : Consumes read_fields.
Proof.
  intros bs a r H. unfold read_fields, bind in H. destruct (read_u32 bs) as [[i r1]|e| |] eqn:E1; try discriminate. cbn [fst snd] in H.
  apply consumes_read_u32 in E1. apply (consumes_read_nN _ _ consumes_read_field) in H. eapply shorter_trans; eassumption.
Qed.
Lemma consumes_take k : Consumes (take_bytes k).
Proof. intros bs a r H. apply take_bytes_len in H as [_ H]. unfold shorter; lia. Qed.
Lemma consumes_read_meth : Consumes read_meth.
Proof.
  intros bs a r H. unfold read_meth, read_count, bind in H. destruct (read_u64 bs) as [[n r1]|e| |] eqn:E1; try discriminate. cbn [fst snd] in H.
  destruct (take_bytes n r1) as [[nm r2]|e| |] eqn:E2; try discriminate. cbn [fst snd] in H.
  destruct (utf8_valid nm); [|discriminate].
  destruct (read_index r2) as [[t r3]|e| |] eqn:E3; try discriminate. cbn [fst snd] in H. inversion H; subst.
  apply consumes_read_u64 in E1. apply consumes_take in E2. apply consumes_read_index in E3.
  eapply shorter_trans; [eassumption|]. eapply shorter_trans; eassumption.
Qed.
Lemma consumes_read_mode : Consumes read_mode.
Proof. intros bs a r H. unfold read_mode in H. destruct bs as [|m r0]; [discriminate|]. destruct (_ && _); [|discriminate]. inversion H; subst. unfold shorter; cbn; lia. Qed.
Lemma shorter_cons b r bs : shorter r bs -> shorter r (b :: bs). Proof. unfold shorter; cbn; lia. Qed.
Lemma consumes_read_entry : Consumes read_entry.
Proof.
  intros bs a r H. unfold read_entry in H. destruct bs as [|b r0]; [discriminate|].
  repeat match type of H with (if ?c then _ else _) = _ => destruct c end.
  - unfold bind in H. destruct (read_index r0) as [[x r1]|e| |] eqn:E; try discriminate. inversion H; subst. apply shorter_cons. eapply consumes_read_index; eassumption.
  - unfold bind in H. destruct (read_index r0) as [[x r1]|e| |] eqn:E; try discriminate. inversion H; subst. apply shorter_cons. eapply consumes_read_index; eassumption.
  - unfold bind in H. destruct (read_fields r0) as [[x r1]|e| |] eqn:E; try discriminate. inversion H; subst. apply shorter_cons. eapply consumes_read_fields; eassumption.
  - unfold bind in H. destruct (read_fields r0) as [[x r1]|e| |] eqn:E; try discriminate. inversion H; subst. apply shorter_cons. eapply consumes_read_fields; eassumption.
  - unfold bind, read_count in H.
    destruct (read_u64 r0) as [[na r1]|e| |] eqn:E1; try discriminate. cbn [fst snd] in H.
    destruct (read_nN read_index na r1) as [[aa r2]|e| |] eqn:E2; try discriminate. cbn [fst snd] in H.
    destruct (read_u64 r2) as [[nr r3]|e| |] eqn:E3; try discriminate. cbn [fst snd] in H.
    destruct (read_nN read_index nr r3) as [[rr r4]|e| |] eqn:E4; try discriminate. cbn [fst snd] in H.
    destruct r4 as [|n r5]; [discriminate|]. destruct (n <=? 1); [|discriminate].
    destruct (read_n read_mode (N.to_nat n) r5) as [[mm r6]|e| |] eqn:E5; try discriminate. cbn [fst snd] in H. inversion H; subst.
    apply consumes_read_u64 in E1. apply (consumes_read_nN _ _ consumes_read_index) in E2. apply consumes_read_u64 in E3.
    apply (consumes_read_nN _ _ consumes_read_index) in E4. apply (consumes_read_n _ consumes_read_mode) in E5.
    unfold shorter in *. cbn [length] in *. lia.
  - unfold bind, read_count in H.
    destruct (read_u64 r0) as [[n r1]|e| |] eqn:E1; try discriminate. cbn [fst snd] in H.
    destruct (read_nN read_meth n r1) as [[ms r2]|e| |] eqn:E2; try discriminate. cbn [fst snd] in H. inversion H; subst.
    apply consumes_read_u64 in E1. apply (consumes_read_nN _ _ consumes_read_meth) in E2. unfold shorter in *. cbn [length] in *. lia.
  - unfold bind in H.
    destruct (read_i64 (b :: r0)) as [[oc r1]|e| |] eqn:E1; try discriminate. cbn [fst snd] in H.
    destruct (oc <? -24)%Z; [|discriminate].
    destruct (read_u64 r1) as [[n r2]|e| |] eqn:E2; try discriminate. cbn [fst snd] in H.
    destruct (take_bytes n r2) as [[bl r3]|e| |] eqn:E3; try discriminate. cbn [fst snd] in H. inversion H; subst.
    apply consumes_read_i64 in E1. apply consumes_read_u64 in E2. apply consumes_take in E3. unfold shorter in *. cbn [length] in *. lia.
Qed.
Lemma dec_header_shorter rp mt bs E ts body : dec_header_gen rp mt bs = Ok (E, ts, body) -> shorter body bs.
Proof.
  unfold dec_header_gen. intros H.
  destruct bs as [|b0 bs]; [discriminate|]. destruct b0 as [|p0]; [discriminate|].
  do 7 (destruct p0 as [p0|p0|]; try discriminate).
  destruct bs as [|b1 bs]; [discriminate|]. destruct b1 as [|p1]; [discriminate|].
  do 7 (destruct p1 as [p1|p1|]; try discriminate).
  destruct bs as [|b2 bs]; [discriminate|]. destruct b2 as [|p2]; [discriminate|].
  do 7 (destruct p2 as [p2|p2|]; try discriminate).
  destruct bs as [|b3 bs]; [discriminate|]. destruct b3 as [|p3]; [discriminate|].
  do 7 (destruct p3 as [p3|p3|]; try discriminate).
  unfold bind, read_count in H.
  destruct (read_u64 bs) as [[n r1]|e| |] eqn:E1; try discriminate. cbn [fst snd] in H.
  destruct (mt <? n); [discriminate|].
  destruct (read_nN read_entry n r1) as [[es r2]|e| |] eqn:E2; try discriminate. cbn [fst snd] in H.
  destruct (read_u64 r2) as [[na r3]|e| |] eqn:E3; try discriminate. cbn [fst snd] in H.
  destruct (read_nN read_index na r3) as [[args r4]|e| |] eqn:E4; try discriminate. cbn [fst snd] in H.
  destruct (conv_table n 0 es); [|discriminate]. destruct (meths_are_funcs _); [|discriminate].
  destruct (conv_refs n args); [|discriminate]. inversion H; subst.
  apply consumes_read_u64 in E1. apply (consumes_read_nN _ _ consumes_read_entry) in E2. apply consumes_read_u64 in E3.
  apply (consumes_read_nN _ _ consumes_read_index) in E4. unfold shorter in *. cbn [length] in *. lia.
Qed.

(* C07, lower bound: a successful untyped decode has been charged, on BOTH budgets, at least the number of values it
   returns (every node of every returned value counts 1, zero-sized ones included). *)
Theorem de_message_lower mt Ee lc tes bs l c c' vs :
  fits bs -> de_message mt Ee lc tes bs l c = (c', Ok vs) ->
  fst c + nodes_list vs <= fst c' /\ snd c + nodes_list vs <= snd c'.
Proof.
  intros Hf H. unfold de_message in H.
  apply bind_ok in H as ([[Ew tws] body] & c0 & H0 & H). apply liftR_ok in H0 as [-> H0].
  apply bind_ok in H as (t1 & c1 & H1 & H). apply add_cost_ok in H1. apply charged_cle in H1.
  apply bind_ok in H as ([[vs0 tws'] rest] & c2 & H2 & H).
  apply bind_ok in H as (t3 & c3 & H3 & H). apply ret_ok in H as [-> ->].
  apply (incr_ok _ _ _ _ _ (de_done_incr _ _ _ _)) in H3.
  assert (Hb : fits body) by (eapply fits_shorter; [eapply dec_header_shorter; exact H0|exact Hf]).
  apply de_args_loop_lower in H2 as [H2 _]; [|exact Hb].
  unfold charged, cle in *. cbn [fst snd] in *. lia.
Qed.

Theorem de_message_untyped_lower mt bs l c c' vs :
  fits bs -> de_message_untyped mt bs l c = (c', Ok vs) ->
  fst c + nodes_list vs <= fst c' /\ snd c + nodes_list vs <= snd c'.
Proof.
  intros Hf H. unfold de_message_untyped in H.
  apply bind_ok in H as ([[Ew tws] body] & c0 & H0 & H). apply liftR_ok in H0 as [-> H0].
  apply bind_ok in H as (t1 & c1 & H1 & H). apply add_cost_ok in H1. apply charged_cle in H1.
  apply bind_ok in H as ([vs0 rest] & c2 & H2 & H).
  apply bind_ok in H as (t3 & c3 & H3 & H). apply ret_ok in H as [-> ->].
  apply (incr_ok _ _ _ _ _ (de_done_incr _ _ _ _)) in H3.
  assert (Hb : fits body) by (eapply fits_shorter; [eapply dec_header_shorter; exact H0|exact Hf]).
  apply de_args_unknown_lower in H2 as [H2 _]; [|exact Hb].
  unfold charged, cle in *. cbn [fst snd] in *. lia.
Qed.

(* ---------- the budget is never overdrawn, message level ---------- *)
Lemma resp_de_args_loop f E lc : forall tes tws bs, Resp (de_args_loop f E lc tes tws bs).
Proof.
  induction tes as [|te tes IH]; intros tws bs; cbn [de_args_loop]; [apply resp_ret|].
  apply resp_bind; [apply resp_tr|intros e'].
  destruct tws as [|tw tws'].
  - destruct (optional_ty e'); [|apply resp_failM].
    apply resp_bind; [apply resp_de|intros]. apply resp_bind; [apply IH|intros; apply resp_ret].
  - apply resp_bind; [apply resp_de|intros]. apply resp_bind; [apply IH|intros; apply resp_ret].
Qed.
Lemma resp_de_done f E : forall tws bs, Resp (de_done f E tws bs).
Proof.
  induction tws as [|tw r IH]; intros bs; cbn [de_done]; [destruct bs; [apply resp_ret|apply resp_failM]|].
  apply resp_bind; [apply resp_de|intros; apply IH].
Qed.
Lemma resp_de_args_unknown f E : forall tws bs, Resp (de_args_unknown f E tws bs).
Proof.
  induction tws as [|tw r IH]; intros bs; cbn [de_args_unknown]; [apply resp_ret|].
  apply resp_bind; [apply resp_de|intros]. apply resp_bind; [apply IH|intros; apply resp_ret].
Qed.
Theorem resp_de_message mt Ee lc tes bs : Resp (de_message mt Ee lc tes bs).
Proof.
  unfold de_message. apply resp_bind; [apply resp_liftR|intros [[Ew tws] body]].
  apply resp_bind; [apply resp_add_cost|intros _].
  apply resp_bind; [apply resp_de_args_loop|intros [[vs tws'] rest]].
  apply resp_bind; [apply resp_de_done|intros; apply resp_ret].
Qed.
Theorem resp_de_message_untyped mt bs : Resp (de_message_untyped mt bs).
Proof.
  unfold de_message_untyped. apply resp_bind; [apply resp_liftR|intros [[Ew tws] body]].
  apply resp_bind; [apply resp_add_cost|intros _].
  apply resp_bind; [apply resp_de_args_unknown|intros r].
  apply resp_bind; [apply resp_de_done|intros; apply resp_ret].
Qed.

(* the work bound: under a skipping quota q (resp. decoding quota q) a successful decode from fresh counters returns at
   most q values in total -- zero-sized elements included *)
Theorem de_message_values_bounded mt Ee lc tes bs qd qs c' vs :
  fits bs -> de_message mt Ee lc tes bs (qd, qs) (0, 0) = (c', Ok vs) ->
  match qd with Some q => nodes_list vs <= q | None => True end /\
  match qs with Some q => nodes_list vs <= q | None => True end.
Proof.
  intros Hf H. pose proof (de_message_lower _ _ _ _ _ _ _ _ _ Hf H) as [L1 L2].
  pose proof (resp_de_message mt Ee lc tes bs (qd, qs) (0, 0)) as R. rewrite H in R. cbn [fst snd] in *.
  assert (W : within (qd, qs) (0, 0)) by (unfold within; cbn [fst snd]; destruct qd, qs; split; try exact I; lia).
  specialize (R W). unfold within in R. cbn [fst snd] in R. destruct R as [R1 R2].
  destruct qd, qs; split; try exact I; lia.
Qed.
