(* DeCost.v -- every value a successful run materialises or skips has been charged at least 1, to the decoding
   budget always and to the skipping budget whenever the run is in skipping mode (is_untyped). *)
From CandidV Require Import Consts model.Leb model.De proofs.LebProofs proofs.DeProofs.
From Coq Require Import Lia.
Open Scope N_scope.

Definition charged (u : bool) (c c' : cnt) (n : N) : Prop :=
  fst c + n <= fst c' /\ (if u then snd c + n <= snd c' else snd c <= snd c').
Definition fits (bs : list N) : Prop := N.of_nat (length bs) < usize_max.
Definition shorter (r bs : list N) : Prop := (length r <= length bs)%nat.

Lemma charged_0 u c : charged u c c 0. Proof. unfold charged; destruct u; lia. Qed.
Lemma charged_cle u c c' n : charged u c c' n -> cle c c'. Proof. unfold charged, cle; destruct u; lia. Qed.
Lemma cle_charged u c c' : cle c c' -> charged u c c' 0. Proof. unfold charged, cle; destruct u; lia. Qed.
Lemma charged_trans u a b c n m : charged u a b n -> charged u b c m -> charged u a c (n + m).
Proof. unfold charged; destruct u; lia. Qed.
Lemma charged_le u a b n m : m <= n -> charged u a b n -> charged u a b m.
Proof. unfold charged; destruct u; lia. Qed.
Lemma charged_true u a b n : charged true a b n -> charged u a b n.
Proof. unfold charged; destruct u; lia. Qed.
Lemma fits_shorter r bs : shorter r bs -> fits bs -> fits r. Proof. unfold shorter, fits; lia. Qed.
Lemma shorter_refl bs : shorter bs bs. Proof. unfold shorter; lia. Qed.
Lemma shorter_trans a b c : shorter a b -> shorter b c -> shorter a c. Proof. unfold shorter; lia. Qed.

Lemma bind_ok {A B} (m : M A) (k : A -> M B) l c c' b :
  bindM m k l c = (c', Ok b) -> exists a c1, m l c = (c1, Ok a) /\ k a l c1 = (c', Ok b).
Proof. unfold bindM. destruct (m l c) as [c1 [a|e| |]]; try discriminate. intros H; exists a, c1; split; [reflexivity|exact H]. Qed.
Lemma ret_ok {A} (a b : A) l c c' : ret a l c = (c', Ok b) -> c' = c /\ b = a.
Proof. unfold ret; intros H; inversion H; split; reflexivity. Qed.
Lemma liftR_ok {A} (r : res A) b l c c' : liftR r l c = (c', Ok b) -> c' = c /\ r = Ok b.
Proof. unfold liftR; intros H; inversion H; split; reflexivity. Qed.
Lemma failM_ok {A} e (b : A) l c c' : failM e l c = (c', Ok b) -> False.
Proof. unfold failM; discriminate. Qed.
Lemma incr_ok {A} (m : M A) l c c' r : Incr m -> m l c = (c', r) -> cle c c'.
Proof. intros Hm H. specialize (Hm l c). rewrite H in Hm. exact Hm. Qed.
Lemma sat_le n : sat n <= n. Proof. unfold sat; lia. Qed.
Lemma sat_id n : n <= usize_max -> sat n = n. Proof. unfold sat; lia. Qed.
Lemma sat_ge1 n : 1 <= n -> 1 <= sat n. Proof. unfold sat, usize_max; cbn; lia. Qed.
Lemma add_cost_ok u n l c c' t : add_cost u n l c = (c', Ok t) -> charged u c c' (sat n).
Proof.
  destruct l as [qd qs], c as [sd ss]. unfold add_cost, charged. cbn [fst snd].
  destruct (match qd with Some q => q <? _ | None => false end); [discriminate|].
  destruct u.
  - destruct (match qs with Some q => q <? _ | None => false end); [discriminate|].
    intros H; inversion H; subst; cbn [fst snd].
    assert (sat n <= sat (sat n * 50)) by (unfold sat, usize_max; cbn; lia). lia.
  - intros H; inversion H; subst; cbn [fst snd]. lia.
Qed.
Lemma checked_mul_ok a b l c c' x : checked_mul a b l c = (c', Ok x) -> c' = c /\ x = a * b /\ a * b <= usize_max.
Proof.
  unfold checked_mul. destruct (a * b <=? usize_max) eqn:E; [|intros H; exfalso; exact (failM_ok _ _ _ _ _ H)].
  intros H; apply ret_ok in H as [-> ->]. apply N.leb_le in E. auto.
Qed.
Lemma tr_ok E t l c c' t' : tr E t l c = (c', Ok t') -> c' = c.
Proof. unfold tr. destruct (trace E t); [intros H; apply ret_ok in H as [-> _]; reflexivity|intros H; exfalso; exact (failM_ok _ _ _ _ _ H)]. Qed.
Lemma catch_ok {A} (m h : M A) l c c' a : Incr m ->
  catch_sub m h l c = (c', Ok a) -> m l c = (c', Ok a) \/ exists c1, cle c c1 /\ h l c1 = (c', Ok a).
Proof.
  intros Hm. unfold catch_sub. destruct (m l c) as [c1 r] eqn:E.
  destruct r as [x|e| |]; try discriminate; [intros H; left; exact H|].
  destruct e; try discriminate. intros H; right; exists c1; split; [eapply incr_ok; eassumption|exact H].
Qed.

(* ---------- lengths ---------- *)
Lemma split_leb_len bs p r : split_leb bs = Some (p, r) -> (length bs = length p + length r)%nat /\ (1 <= length p)%nat.
Proof.
  intros H. apply split_leb_sound in H as [-> Ht]. rewrite app_length. split; [reflexivity|].
  destruct p; [discriminate Ht|cbn; lia].
Qed.
Lemma read_u64_len bs n r : read_u64 bs = Ok (n, r) -> shorter r bs /\ n < 2 ^ 64.
Proof.
  unfold read_u64. destruct (split_leb bs) as [[p rest]|] eqn:E; [|discriminate].
  destruct ((N.of_nat (length p) <=? 10) && (leb_val p <? 2 ^ 64)) eqn:C; [|discriminate].
  intros H; inversion H; subst. apply split_leb_len in E as [E _]. apply andb_true_iff in C as [_ C]. apply N.ltb_lt in C.
  unfold shorter. split; [lia|exact C].
Qed.
Lemma take_bytes_len k bs a r : take_bytes k bs = Ok (a, r) -> N.of_nat (length a) = k /\ (length bs = length a + length r)%nat.
Proof.
  unfold take_bytes. destruct (k <=? N.of_nat (length bs)) eqn:E; [|discriminate]. apply N.leb_le in E.
  intros H; inversion H; subst. rewrite firstn_length, skipn_length. split; lia.
Qed.
Lemma dec_principal_len bs a r : dec_principal_bytes bs = Ok (a, r) -> shorter r bs.
Proof.
  unfold dec_principal_bytes. destruct bs as [|b bs']; [discriminate|].
  destruct b as [|[| |]]; try discriminate. unfold bind.
  destruct (read_u64 bs') as [[n r1]|e| |] eqn:E; try discriminate. cbn [fst snd].
  destruct (n <=? principal_max_len); [|discriminate]. intros H.
  apply read_u64_len in E as [E _]. apply take_bytes_len in H as [_ H]. unfold shorter in *. cbn [length]. lia.
Qed.
Lemma read_prim_len p bs v r : read_prim p bs = Ok (v, r) -> nodes v = 1 /\ shorter r bs.
Proof.
  unfold read_prim, shorter.
  assert (T : forall k f, (do xr <- take_bytes k bs; Ok (f xr, snd xr)) = Ok (v, r) -> (length r <= length bs)%nat).
  { intros k f H. unfold bind in H. destruct (take_bytes k bs) as [[a r']|e| |] eqn:E; try discriminate.
    inversion H; subst. apply take_bytes_len in E as [_ E]. cbn [snd]. lia. }
  destruct p; cbn [prim_bits];
    try discriminate;
    try (intros H; unfold bind in H;
         match type of H with context [take_bytes ?k bs] => destruct (take_bytes k bs) as [[a r']|e| |] eqn:E; try discriminate end;
         cbn [fst snd] in H; try (destruct (le_val a <? _)); inversion H; subst; apply take_bytes_len in E as [_ E]; split; [reflexivity|lia]).
  (* bool *)
  all: try (destruct bs as [|b bs']; [discriminate|]; destruct b as [|[| |]]; try discriminate; intros H; inversion H; subst; cbn [length]; split; try reflexivity; lia).
  all: intros H; split; [unfold bind in H; destruct (take_bytes _ bs) as [[a r']|e| |]; try discriminate; inversion H; reflexivity | eapply T; exact H].
Qed.

From Coq Require Import ZifyBool ZifyNat ZifyN.

Definition nodes_fields (fs : list (N * val)) : N := fold_right (fun f a => nodes (snd f) + a) 0 fs.
Lemma nodes_vec vs : nodes (VVec vs) = 1 + nodes_list vs. Proof. reflexivity. Qed.
Lemma nodes_rec fs : nodes (VRec fs) = 1 + nodes_fields fs. Proof. reflexivity. Qed.
Lemma nodes_blob l : nodes_list (map (VNatN 8) l) = N.of_nat (length l).
Proof. induction l as [|x l IH]; [reflexivity|]. cbn [map nodes_list fold_right length nodes] in *. unfold nodes_list in IH. rewrite IH. lia. Qed.
Lemma read_n_prim p : forall n bs vs r, read_n (read_prim p) n bs = Ok (vs, r) -> nodes_list vs = N.of_nat n /\ shorter r bs.
Proof.
  induction n as [|n IH]; intros bs vs r H; cbn [read_n] in H.
  - inversion H; subst. split; [reflexivity|apply shorter_refl].
  - unfold bind in H. destruct (read_prim p bs) as [[v r1]|e| |] eqn:E1; try discriminate. cbn [fst snd] in H.
    destruct (read_n (read_prim p) n r1) as [[vs' r2]|e| |] eqn:E2; try discriminate. cbn [fst snd] in H.
    inversion H; subst. apply read_prim_len in E1 as [N1 S1]. apply IH in E2 as [N2 S2].
    cbn [nodes_list fold_right]. unfold nodes_list in N2. rewrite N1, N2. unfold shorter in *. split; lia.
Qed.

Ltac inv1 :=
  match goal with
  | H : bindM _ _ _ _ = (_, Ok _) |- _ => apply bind_ok in H; destruct H as (? & ? & ? & ?)
  | H : ret _ _ _ = (_, Ok _) |- _ => apply ret_ok in H; destruct H as [? ?]; subst
  | H : liftR _ _ _ = (_, Ok _) |- _ => apply liftR_ok in H; destruct H as [? ?]; subst; try discriminate
  | H : failM _ _ _ = (_, Ok _) |- _ => exfalso; exact (failM_ok _ _ _ _ _ H)
  | H : add_cost _ _ _ _ = (_, Ok _) |- _ => apply add_cost_ok in H
  | H : checked_mul _ _ _ _ = (_, Ok _) |- _ => apply checked_mul_ok in H; destruct H as (? & ? & ?); subst
  | H : tr _ _ _ _ = (_, Ok _) |- _ => apply tr_ok in H; subst
  | H : catch_sub _ _ _ _ = (_, Ok _) |- _ =>
      apply catch_ok in H; [destruct H as [H | (? & ? & H)] | repeat first [apply incr_de | incr_step | incr_case]]
  | H : (_, _) = (_, _) |- _ => inversion H; subst; clear H
  | H : (if ?b then _ else _) _ _ = (_, Ok _) |- _ => destruct b eqn:?
  | H : (match ?x with _ => _ end) _ _ = (_, Ok _) |- _ => destruct x eqn:?
  | H : (let (_, _) := ?x in _) _ _ = (_, Ok _) |- _ => destruct x eqn:?
  end.
Ltac inv := repeat inv1.

Lemma de_nat_lower u bs l c c' v r : de_nat u bs l c = (c', Ok (v, r)) -> charged u c c' (nodes v) /\ shorter r bs.
Proof.
  unfold de_nat. intros H. destruct (split_leb bs) as [[p rest]|] eqn:E; [|exfalso; exact (failM_ok _ _ _ _ _ H)].
  inv. apply split_leb_len in E as [E1 E2]. cbn [nodes].
  match goal with H : charged _ _ _ (sat ?n) |- _ => assert (1 <= sat n) by (apply sat_ge1; lia) end.
  unfold charged, shorter in *. destruct u; split; lia.
Qed.
Lemma de_int_lower u w bs l c c' v r : de_int u w bs l c = (c', Ok (v, r)) -> charged u c c' (nodes v) /\ shorter r bs.
Proof.
  unfold de_int. intros H.
  destruct w as [[]| | | | | | | | |]; try (exfalso; exact (failM_ok _ _ _ _ _ H));
  (destruct (split_leb bs) as [[p rest]|] eqn:E; [|exfalso; exact (failM_ok _ _ _ _ _ H)]);
  inv; apply split_leb_len in E as [E1 E2]; cbn [nodes];
  match goal with H : charged _ _ _ (sat ?n) |- _ => assert (1 <= sat n) by (apply sat_ge1; lia) end;
  unfold charged, shorter in *; destruct u; split; lia.
Qed.

Lemma rep_lower u (step : list N -> M (val * list N)) :
  (forall bs l c c' v r, fits bs -> step bs l c = (c', Ok (v, r)) -> charged u c c' (nodes v) /\ shorter r bs) ->
  forall n bs l c c' vs r, fits bs -> rep n step bs l c = (c', Ok (vs, r)) -> charged u c c' (nodes_list vs) /\ shorter r bs.
Proof.
  intros Hs n; induction n as [|n IH]; intros bs l c c' vs r Hf H; cbn [rep] in H.
  - inv. split; [apply charged_0|apply shorter_refl].
  - inv. destruct x as [v1 r1]. cbn [fst snd] in *. destruct x1 as [vs2 r2]. cbn [fst snd] in *.
    match goal with H : step _ _ _ = _ |- _ => apply Hs in H; [destruct H as [C1 S1]|exact Hf] end.
    match goal with H : rep _ _ _ _ _ = _ |- _ => apply IH in H; [destruct H as [C2 S2]|eapply fits_shorter; eassumption] end.
    cbn [nodes_list fold_right]. split; [eapply charged_trans; eassumption|eapply shorter_trans; eassumption].
Qed.

Ltac split_pairs := repeat match goal with x : (_ * _)%type |- _ => destruct x end; cbn [fst snd] in *.
Ltac fields_fin rec Hr IH Hf :=
  split_pairs;
  match goal with H : rec _ _ _ _ _ _ _ _ = _ |- _ => apply Hr in H; [destruct H as [?C1 ?S1]|exact Hf] end;
  match goal with H : de_fields _ _ _ _ _ _ _ _ _ _ _ = _ |- _ => apply IH in H; [destruct H as [?C2 ?S2]|eapply fits_shorter; eassumption] end;
  unfold nodes_fields in *; cbn [fold_right snd] in *;
  split; [|eapply shorter_trans; eassumption]; unfold charged, cle in *; cbn [fst snd] in *;
  match goal with u : bool |- _ => destruct u; lia end.

Lemma de_fields_lower rec E u h lc :
  (forall te tw bs l c c' v r, fits bs -> rec u h lc te tw bs l c = (c', Ok (v, r)) -> charged u c c' (nodes v) /\ shorter r bs) ->
  forall k es ws bs l c c' fs r, fits bs ->
    de_fields rec E u h lc k es ws bs l c = (c', Ok (fs, r)) -> charged u c c' (nodes_fields fs) /\ shorter r bs.
Proof.
  intros Hr k; induction k as [|k IH]; intros es ws bs l c c' fs r Hf H; cbn [de_fields] in H; [inv|].
  apply bind_ok in H as (t0 & c0 & H0 & H). apply add_cost_ok in H0. apply charged_cle in H0.
  assert (G : charged u c0 c' (nodes_fields fs) /\ shorter r bs ->  charged u c c' (nodes_fields fs) /\ shorter r bs).
  { intros [G1 G2]; split; [|exact G2]. unfold charged, cle in *. destruct u; lia. }
  apply G. clear G H0 c t0.
  destruct es as [|[i te] es']; destruct ws as [|[j tw] ws'].
  - inv. split; [apply charged_0|apply shorter_refl].
  - inv. fields_fin rec Hr IH Hf.
  - inv. fields_fin rec Hr IH Hf.
  - destruct (i =? j); [|destruct (i <? j)]; inv; fields_fin rec Hr IH Hf.
Qed.

Lemma usize_max_val : usize_max = 18446744073709551615. Proof. reflexivity. Qed.
Lemma prim_size_ge1 p : 1 <= prim_size p. Proof. destruct p; cbn; lia. Qed.
Lemma mul_ge a b : 1 <= b -> a <= a * b. Proof. intros; nia. Qed.

Ltac lens :=
  repeat match goal with
  | H : read_u64 _ = Ok (_, _) |- _ => apply read_u64_len in H; destruct H as [? ?]
  | H : take_bytes _ _ = Ok (_, _) |- _ => apply take_bytes_len in H; destruct H as [? ?]
  | H : dec_principal_bytes _ = Ok (_, _) |- _ => apply dec_principal_len in H
  | H : read_prim _ _ = Ok (_, _) |- _ => apply read_prim_len in H; destruct H as [? ?]
  | H : read_n (read_prim _) _ _ = Ok (_, _) |- _ => apply read_n_prim in H; destruct H as [? ?]
  end.
Ltac arith :=
  unfold charged, cle, shorter, fits, sat, principal_cost in *; rewrite ?usize_max_val in *; cbn [fst snd length] in *;
  match goal with
  | u : bool |- _ => destruct u; split; lia
  | _ => split; lia
  end.

Ltac side := first [assumption | unfold fits, shorter in *; cbn [length] in *; lia].
Ltac use_ih IH IHskip :=
  repeat match goal with
  | H : de _ _ true HI no_names _ _ _ _ _ = (_, Ok (_, _)) |- _ => apply IHskip in H; [destruct H as [? ?]|side]
  | H : de _ _ _ HV _ _ _ _ _ _ = (_, Ok (_, _)) |- _ => apply IH in H; [destruct H as [? ?]|side]
  end.
Ltac prim_facts :=
  repeat match goal with H : context [prim_size ?p] |- _ => lazymatch goal with _ : 1 <= prim_size p |- _ => fail | _ => pose proof (prim_size_ge1 p) end end.
Ltac leaf IH IHskip := inv; split_pairs; lens; use_ih IH IHskip; prim_facts; cbn [nodes]; arith.

Theorem de_lower : forall f E u h lc e w bs l c c' v r,
  fits bs -> de f E u h lc e w bs l c = (c', Ok (v, r)) -> charged u c c' (nodes v) /\ shorter r bs.
Proof.
  induction f as [|f IH]; intros E u h lc e w bs l c c' v r Hf H; cbn [de] in H; [inv|].
  apply bind_ok in H as ([e' w'] & c0 & H0 & H).
  apply (incr_ok _ _ _ _ _ (incr_unroll _ _ _ _)) in H0.
  assert (G : charged u c0 c' (nodes v) /\ shorter r bs -> charged u c c' (nodes v) /\ shorter r bs).
  { intros [G1 G2]; split; [|exact G2]. unfold charged, cle in *. destruct u; lia. }
  apply G. clear G H0 c e w.
  assert (IHskip : forall tw bs l c c' v r, fits bs -> de f E true HI no_names tw tw bs l c = (c', Ok (v, r)) ->
                   charged u c c' (nodes v) /\ shorter r bs).
  { intros tw bs0 l0 c1 c2 v0 r0 Hf0 H0. apply IH in H0; [|exact Hf0]. destruct H0; split; [apply charged_true|]; assumption. }
  assert (IHsub : forall te tw bs l c c' v r, fits bs ->
            match h with HV => de f E u HV lc te tw bs | HI => de f E true HI no_names tw tw bs end l c = (c', Ok (v, r)) ->
            charged u c c' (nodes v) /\ shorter r bs).
  { intros te tw bs0 l0 c1 c2 v0 r0 Hf0 H0. destruct h; [apply IH in H0; assumption|apply IHskip in H0; assumption]. }
  destruct e' as [p|x|t2|te|es|es|aa ra ma|ms|ia ta|].
  - (* prim *)
    destruct p; try (inv; fail).
    all: try (apply de_int_lower in H; exact H).
    all: try (destruct w' as [[]| | | | | | | | |]; try (inv; fail); apply de_nat_lower in H; exact H).
    all: try (leaf IH IHskip; fail).
    all: match goal with H : _ = (_, Ok (_, _)) |- _ => let t := type of H in idtac "REMAINING"; idtac t end.
    all: admit.
  - inv.
  - (* opt *) leaf IH IHskip.
  - (* vec *)
    destruct (is_blob E (TVec te) && is_blob E w') eqn:Eb.
    + inv; split_pairs; lens. rewrite nodes_vec, nodes_blob. arith.
    + inv; split_pairs; lens.
      * (* primitive vector *)
        rewrite nodes_vec.
        match goal with H : nodes_list _ = _ |- _ => rewrite H end.
        match goal with H : ?a * (3 + prim_size ?p) <= usize_max |- _ => pose proof (mul_ge a (3 + prim_size p)) end.
        arith.
      * (* big-number fast path *)
        match goal with H : rep _ ?step _ _ _ = _ |- _ => apply (rep_lower u step) in H; [destruct H as [? ?]| |side] end.
        { rewrite nodes_vec. arith. }
        { intros bs1 l1' c1 c2 v1 r1 _ Hs. destruct b; [apply de_nat_lower in Hs|apply de_int_lower in Hs|apply de_int_lower in Hs]; exact Hs. }
      * (* element by element *)
        match goal with H : rep _ ?step _ _ _ = _ |- _ => apply (rep_lower u step) in H; [destruct H as [? ?]| |side] end.
        { rewrite nodes_vec. arith. }
        { intros bs1 l1' c1 c2 v1 r1 Hf1 Hs. apply bind_ok in Hs as (t1 & c3 & Hs1 & Hs2). apply add_cost_ok in Hs1.
          apply IHsub in Hs2; [|exact Hf1]. destruct Hs2 as [Hs2 Hs3]. split; [|exact Hs3].
          apply charged_cle in Hs1. unfold charged, cle in *. destruct u; lia. }
  - (* record *)
    inv; split_pairs.
    match goal with H : de_fields ?rec _ _ _ _ _ _ _ _ _ _ = _ |- _ => apply (de_fields_lower rec) in H; [destruct H as [? ?]| |side] end.
    + rewrite nodes_rec. arith.
    + intros ? ? ? ? ? ? ? ? Hf1 Hs. destruct h; [apply IH in Hs|apply IHskip in Hs]; assumption.
  - (* variant *) leaf IH IHskip.
  - (* func *) leaf IH IHskip.
  - (* service *) leaf IH IHskip.
  - inv.
  - (* future *) leaf IH IHskip.
Qed.
