(* Correctness of the iterated-filter greatest fixed point (model/Gfp.v). *)
From Coq Require Import List Bool Arith Lia.
Import ListNotations.
From CandidV Require Import model.Gfp.

Section GfpProofs.
  Variable A : Type.
  Variable eqb : A -> A -> bool.
  Hypothesis eqb_spec : forall x y, eqb x y = true <-> x = y.
  Variable F : (A -> bool) -> A -> bool.
  Hypothesis F_mono : forall (S S' : A -> bool) x,
      (forall y, S y = true -> S' y = true) -> F S x = true -> F S' x = true.

  Notation mem := (mem A eqb).
  Notation round := (round A eqb F).
  Notation iter := (iter A eqb F).
  Notation gfp := (gfp A eqb F).

  Lemma mem_In l x : mem l x = true <-> In x l.
  Proof.
    unfold Gfp.mem. rewrite existsb_exists. split.
    - intros [y [Hy He]]. apply eqb_spec in He. now subst.
    - intros H. exists x. split; [exact H|]. now apply eqb_spec.
  Qed.

  Lemma round_incl l : incl (round l) l.
  Proof. intros x H. unfold Gfp.round in H. apply filter_In in H. tauto. Qed.

  Lemma filter_len_le (P : A -> bool) m : length (filter P m) <= length m.
  Proof. induction m as [|a m IH]; cbn; [lia|]. destruct (P a); cbn; lia. Qed.

  Lemma filter_same_length (P : A -> bool) m : length (filter P m) = length m -> filter P m = m.
  Proof.
    induction m as [|a m IH]; cbn; [reflexivity|].
    destruct (P a); cbn; intros H.
    - f_equal. apply IH. lia.
    - pose proof (filter_len_le P m). lia.
  Qed.

  Lemma iter_incl n : forall l, incl (iter n l) l.
  Proof.
    induction n as [|n IH]; intros l; cbn [Gfp.iter]; [apply incl_refl|].
    destruct (Nat.eqb _ _); [apply incl_refl|].
    eapply incl_tran; [apply IH|apply round_incl].
  Qed.

  Lemma iter_fix n : forall l, length l <= n -> round (iter n l) = iter n l.
  Proof.
    induction n as [|n IH]; intros l Hl.
    - destruct l; [reflexivity|cbn in Hl; lia].
    - cbn [Gfp.iter]. destruct (Nat.eqb (length (round l)) (length l)) eqn:E.
      + apply Nat.eqb_eq in E. unfold Gfp.round in *. apply filter_same_length. exact E.
      + apply Nat.eqb_neq in E. apply IH.
        pose proof (filter_len_le (F (mem l)) l). unfold Gfp.round in *. lia.
  Qed.

  (* (1) the result is consistent: every member is justified by one rule application from members *)
  Theorem gfp_consistent U x : In x (gfp U) -> F (mem (gfp U)) x = true.
  Proof.
    intros H. unfold Gfp.gfp in *.
    pose proof (iter_fix (length U) U (le_n _)) as Hfix.
    rewrite <- Hfix in H. unfold Gfp.round in H. apply filter_In in H. tauto.
  Qed.

  Theorem gfp_sub U : incl (gfp U) U.
  Proof. apply iter_incl. Qed.

  (* (2) every consistent set (a Prop-level one, justified pointwise by boolean premises) inside U survives *)
  Section Greatest.
    Variable R : A -> Prop.
    Variable U : list A.
    Hypothesis R_cons : forall x, R x -> In x U /\ exists S : A -> bool, (forall y, S y = true -> R y) /\ F S x = true.

    Lemma round_keeps l : (forall x, R x -> In x l) -> forall x, R x -> In x (round l).
    Proof.
      intros Hl x Hx. unfold Gfp.round. apply filter_In. split; [apply Hl, Hx|].
      destruct (R_cons x Hx) as [_ [S [HS HF]]].
      apply (F_mono S); [|exact HF]. intros y Hy. apply mem_In. apply Hl, HS, Hy.
    Qed.

    Lemma iter_keeps n : forall l, (forall x, R x -> In x l) -> forall x, R x -> In x (iter n l).
    Proof.
      induction n as [|n IH]; intros l Hl x Hx; cbn [Gfp.iter]; [apply Hl, Hx|].
      destruct (Nat.eqb _ _); [apply Hl, Hx|].
      apply IH; [|exact Hx]. intros y Hy. apply round_keeps; assumption.
    Qed.

    Theorem gfp_greatest : forall x, R x -> In x (gfp U).
    Proof. intros x Hx. unfold Gfp.gfp. apply iter_keeps; [|exact Hx]. intros y Hy. apply R_cons, Hy. Qed.
  End Greatest.
End GfpProofs.
