(* DeSpec.v -- the single-pass decoder as it is (De.v: fast paths, cost accounting, back-tracking) at a type that is the
   wire type up to names returns exactly what the specification's M^-1 returns.  With dec_enc_val: decoding what was encoded
   at the same type gives the value back, THROUGH the model of the real decoder. *)
From CandidV Require Import Consts model.Leb model.De proofs.LebProofs proofs.TyProofs proofs.SubProofs proofs.WireProofs proofs.CoerceProofs proofs.DeProofs proofs.DeCost proofs.DeFast.
From Coq Require Import Lia ZifyBool ZifyNat ZifyN.
Open Scope N_scope.

Lemma bindM_ok {A B} (m : M A) (k : A -> M B) l c c1 x : m l c = (c1, Ok x) -> bindM m k l c = k x l c1.
Proof. intros H. unfold bindM. rewrite H. reflexivity. Qed.
Lemma bindM_liftR {A B} (x : A) (k : A -> M B) l c : bindM (liftR (Ok x)) k l c = k x l c.
Proof. reflexivity. Qed.
Lemma bindM_ret {A B} (x : A) (k : A -> M B) l c : bindM (ret x) k l c = k x l c.
Proof. reflexivity. Qed.

Lemma unroll1_nolim u E t a c : trace E t = Some a -> exists c', unroll1 u E t nolim c = (c', Ok a).
Proof.
  intros H. unfold unroll1. destruct (De.is_var t) eqn:V; cbv beta iota.
  - destruct (add_cost_nolim u 1 c) as [c1 Hc].  rewrite (bindM_ok _ _ _ _ _ _ Hc). unfold tr. rewrite H. eexists; reflexivity.
  - destruct t; try discriminate V; unfold trace in H; cbn [trace_f] in H; inversion H; subst; eexists; reflexivity.
Qed.
Lemma unroll_nolim u E e w a c : trace E e = Some a -> trace E w = Some a -> exists c', unroll u E e w nolim c = (c', Ok (a, a)).
Proof.
  intros He Hw. unfold unroll.
  destruct (unroll1_nolim u E e a c He) as [c1 H1]. rewrite (bindM_ok _ _ _ _ _ _ H1).
  destruct (unroll1_nolim u E w a c1 Hw) as [c2 H2]. rewrite (bindM_ok _ _ _ _ _ _ H2). eexists; reflexivity.
Qed.

(* one step of rewriting an [exists c', (bindM m k) nolim c = (c', R)] goal *)
Ltac cost :=
  match goal with
  | |- exists c', bindM (add_cost ?u ?n) _ nolim ?c = _ =>
      let c1 := fresh "c" in let Hc := fresh "Hc" in
      destruct (add_cost_nolim u n c) as [c1 Hc]; rewrite (bindM_ok _ _ _ _ _ _ Hc); clear Hc
  end.
Ltac done_ret := eexists; reflexivity.

Lemma dec_val_trace f E t a bs : trace E t = Some a -> dec_val f E t bs = dec_val f E a bs.
Proof. intros H. destruct f; [reflexivity|]. cbn [dec_val]. rewrite H, (trace_idem _ _ _ H). reflexivity. Qed.

(* the generic element loop of De (rep) follows the loop of M^-1 (read_n) when each step does *)
Lemma rep_follows (dv : list N -> res (val * list N)) (step : list N -> M (val * list N)) :
  (forall bs v r c, dv bs = Ok (v, r) -> exists c', step bs nolim c = (c', Ok (v, r))) ->
  forall k bs vs r c, read_n dv k bs = Ok (vs, r) -> exists c', rep k step bs nolim c = (c', Ok (vs, r)).
Proof.
  intros Hs k; induction k as [|k IH]; intros bs vs r c H; cbn [read_n rep] in *.
  - inversion H; subst. eexists; reflexivity.
  - unfold bind in H. destruct (dv bs) as [[v1 r1]| | |] eqn:E1; try discriminate. cbn [fst snd] in H.
    destruct (read_n dv k r1) as [[vs2 r2]| | |] eqn:E2; try discriminate. cbn [fst snd] in H. inversion H; subst.
    destruct (Hs bs v1 r1 c E1) as [c1 H1]. rewrite (bindM_ok _ _ _ _ _ _ H1). cbn [fst snd].
    destruct (IH r1 vs2 r c1 E2) as [c2 H2]. rewrite (bindM_ok _ _ _ _ _ _ H2). cbn [fst snd]. eexists; reflexivity.
Qed.
Lemma read_n_ext {A} (f g : list N -> res (A * list N)) : (forall bs, f bs = g bs) -> forall k bs, read_n f k bs = read_n g k bs.
Proof. intros H k; induction k as [|k IH]; intros bs; cbn [read_n]; [reflexivity|]. rewrite H. unfold bind. destruct (g bs) as [[x r]| | |]; try reflexivity. cbn [fst snd]. rewrite IH. reflexivity. Qed.

(* M^-1 at a fixed-width primitive type is read_prim *)
Lemma dec_val_fixed f E p bs : fixed p = true -> dec_val (S f) E (TPrim p) bs = read_prim p bs.
Proof. intros Hp. destruct p; try discriminate Hp; reflexivity. Qed.

(* a fixed-width read consumes exactly its width *)
Lemma read_prim_exact p bs v r : fixed p = true -> read_prim p bs = Ok (v, r) -> N.of_nat (length bs) = prim_size p + N.of_nat (length r).
Proof.
  intros Hp H.
  assert (T : forall k f, (do xr <- take_bytes k bs; Ok (f xr, snd xr)) = Ok (v, r) -> N.of_nat (length bs) = k + N.of_nat (length r)).
  { intros k f0 H0. unfold bind in H0. destruct (take_bytes k bs) as [[a r']| | |] eqn:E; try discriminate. inversion H0; subst.
    apply take_bytes_len in E as [E1 E2]. cbn [snd]. lia. }
  destruct p; try discriminate Hp; unfold read_prim in H; cbn [prim_bits] in H;
    try (apply T in H; exact H);
    try (unfold bind in H; match type of H with context [take_bytes ?k bs] => destruct (take_bytes k bs) as [[a r']| | |] eqn:E; try discriminate end;
         cbn [fst snd] in H; apply take_bytes_len in E as [E1 E2];
         first [ destruct (le_val a <? _) in H; inversion H; subst; cbn [prim_size]; lia | inversion H; subst; cbn [prim_size]; lia ]).
  destruct bs as [|b bs']; [discriminate|]. destruct b as [|[| |]]; try discriminate; inversion H; subst; cbn [length prim_size]; lia.
Qed.
Lemma read_n_prim_total p : fixed p = true -> forall n bs vs r, read_n (read_prim p) n bs = Ok (vs, r) ->
  N.of_nat (length bs) = N.of_nat n * prim_size p + N.of_nat (length r).
Proof.
  intros Hp n; induction n as [|n IH]; intros bs vs r H; cbn [read_n] in H.
  - inversion H; subst. lia.
  - unfold bind in H. destruct (read_prim p bs) as [[v1 r1]| | |] eqn:E1; try discriminate. cbn [fst snd] in H.
    destruct (read_n (read_prim p) n r1) as [[vs2 r2]| | |] eqn:E2; try discriminate. cbn [fst snd] in H. inversion H; subst.
    apply (read_prim_exact p _ _ _ Hp) in E1. apply IH in E2. lia.
Qed.

Lemma read_n_nofuel {A} (dv : list N -> res (A * list N)) : (forall bs, dv bs = OutOfFuel) ->
  forall k bs vs r, read_n dv k bs = Ok (vs, r) -> k = 0%nat /\ vs = [] /\ r = bs.
Proof. intros H k bs vs r Hr. destruct k; cbn [read_n] in Hr; [inversion Hr; auto|]. rewrite H in Hr. discriminate. Qed.
Lemma take_bytes_firstn n bs : n <= N.of_nat (length bs) -> take_bytes n bs = Ok (firstn (N.to_nat n) bs, skipn (N.to_nat n) bs).
Proof. intros H. unfold take_bytes. apply N.leb_le in H. rewrite H. reflexivity. Qed.
Lemma max_count_val : max_count = 2000000. Proof. reflexivity. Qed.
Lemma prim_size_le p : prim_size p <= 8. Proof. destruct p; cbn; lia. Qed.
Lemma vec_go_read_n (dv : list N -> res (val * list N)) : forall k bs,
  (fix go (k : nat) (bs : list N) {struct k} : res (list val * list N) :=
     match k with
     | 0%nat => Ok ([], bs)
     | S k' => do wr <- dv bs; do rr <- go k' (snd wr); Ok (fst wr :: fst rr, snd rr)
     end) k bs = read_n dv k bs.
Proof.
  induction k as [|k IH]; intros bs; cbn [read_n]; [reflexivity|].
  unfold bind. destruct (dv bs) as [[v r]| | |]; try reflexivity. cbn [fst snd]. rewrite IH. reflexivity.
Qed.

(* records: the field loop of M^-1, and the field merge of De when expected and wire fields are the same list *)
Fixpoint rec_loop (dv : ty -> list N -> res (val * list N)) (ts : list (N * ty)) (bs : list N) : res (list (N * val) * list N) :=
  match ts with
  | [] => Ok ([], bs)
  | (i, ti) :: tr => do wr <- dv ti bs; do rr <- rec_loop dv tr (snd wr); Ok ((i, fst wr) :: fst rr, snd rr)
  end.
Lemma rec_go_loop (dv : ty -> list N -> res (val * list N)) : forall ts bs,
  (fix go (ts : list (N * ty)) (bs : list N) {struct ts} : res (list (N * val) * list N) :=
     match ts with
     | [] => Ok ([], bs)
     | (i, ti) :: tr => do wr <- dv ti bs; do rr <- go tr (snd wr); Ok ((i, fst wr) :: fst rr, snd rr)
     end) ts bs = rec_loop dv ts bs.
Proof.
  induction ts as [|[i ti] tr IH]; intros bs; cbn [rec_loop]; [reflexivity|].
  unfold bind. destruct (dv ti bs) as [[v r]| | |]; try reflexivity. cbn [fst snd]. rewrite IH. reflexivity.
Qed.
Lemma de_fields_same rec E u h lc (dv : ty -> list N -> res (val * list N)) :
  forall fs,
  (forall i t bs v r c, In (i, t) fs -> dv t bs = Ok (v, r) -> exists c', rec u h lc t t bs nolim c = (c', Ok (v, r))) ->
  forall k bs vs r c, (length fs < k)%nat -> rec_loop dv fs bs = Ok (vs, r) ->
  exists c', de_fields rec E u h lc k fs fs bs nolim c = (c', Ok (vs, r)).
Proof.
  induction fs as [|[i t] fs IH]; intros Hr k bs vs r c Hk H; (destruct k as [|k]; [cbn in Hk; lia|]); cbn [de_fields rec_loop] in *.
  - inversion H; subst. destruct (add_cost_nolim u 4 c) as [c1 Hc1]. rewrite (bindM_ok _ _ _ _ _ _ Hc1). eexists; reflexivity.
  - unfold bind in H. destruct (dv t bs) as [[v1 r1]| | |] eqn:E1; try discriminate. cbn [fst snd] in H.
    destruct (rec_loop dv fs r1) as [[vs2 r2]| | |] eqn:E2; try discriminate. cbn [fst snd] in H. inversion H; subst.
    destruct (add_cost_nolim u 4 c) as [c1 Hc1]. rewrite (bindM_ok _ _ _ _ _ _ Hc1). rewrite N.eqb_refl.
    destruct (add_cost_nolim u (rec_label_cost lc i) c1) as [c2 Hc2]. rewrite (bindM_ok _ _ _ _ _ _ Hc2).
    destruct (add_cost_nolim u 1 c2) as [c3 Hc3]. rewrite (bindM_ok _ _ _ _ _ _ Hc3).
    destruct (Hr i t bs v1 r1 c3 (or_introl eq_refl) E1) as [c4 H4]. rewrite (bindM_ok _ _ _ _ _ _ H4). cbn [fst snd].
    assert (Hr' : forall i0 t0 bs0 v0 r0 c0, In (i0, t0) fs -> dv t0 bs0 = Ok (v0, r0) -> exists c', rec u h lc t0 t0 bs0 nolim c0 = (c', Ok (v0, r0))).
    { intros; eapply Hr; [right; eassumption|eassumption]. }
    destruct (IH Hr' k r1 vs2 r c4 ltac:(cbn in Hk; lia) E2) as [c5 H5]. rewrite (bindM_ok _ _ _ _ _ _ H5). cbn [fst snd]. eexists; reflexivity.
Qed.

(* ---------- the main theorem ---------- *)
(* For every environment, fuel, input and pair of expected / wire types that are the same type up to names: whenever the
   specification's M^-1 returns a value, the decoder as it is returns that value and the same remaining input. *)
Theorem de_at_wire_type_host : forall f E u h lc e w a bs v r c,
  wf_env E = true -> trace E e = Some a -> trace E w = Some a -> ty_closed E a = true ->
  dec_val f E a bs = Ok (v, r) ->
  exists c', de f E u h lc e w bs nolim c = (c', Ok (v, r)).
Proof.
  induction f as [|f IH]; intros E u h lc e w a bs v r c Hwf He Hw Hc H; [discriminate|].
  assert (IHs : forall u h lc t bs v r c, ty_closed E t = true -> dec_val f E t bs = Ok (v, r) -> exists c', de f E u h lc t t bs nolim c = (c', Ok (v, r))).
  { intros u1 h1 lc1 t bs1 v1 r1 c1 Hct Hd. destruct (trace_closed E t Hwf Hct) as (a1 & Ta & Hca & _). rewrite (dec_val_trace _ _ _ _ _ Ta) in Hd. eapply IH; eassumption. }
  cbn [de].
  destruct (unroll_nolim u E e w a c He Hw) as [c0 Hu]. rewrite (bindM_ok _ _ _ _ _ _ Hu). clear Hu c.
  cbn [dec_val] in H. rewrite (trace_idem _ _ _ He) in H.
  destruct a as [p|x|t1|t1|fs|fs|aa ra ma|ms|ia ta|].
  - (* prim *)
    destruct p; cbn [prim_eqb].
    all: try (inversion H; subst; repeat cost; done_ret).
    + (* nat *) unfold de_nat. destruct (split_leb bs) as [[p r0]|]; [|discriminate]. inversion H; subst. cost. done_ret.
    + (* int *) unfold de_int. destruct (split_leb bs) as [[p r0]|]; [|discriminate]. inversion H; subst. cost. done_ret.
    + (* text *) unfold bind in H. destruct (read_u64 bs) as [[n r1]| | |] eqn:E1; try discriminate. cbn [fst snd] in H.
      destruct (take_bytes n r1) as [[s r2]| | |] eqn:E2; try discriminate. cbn [fst snd] in H.
      rewrite bindM_liftR. cbn [fst snd]. cost. rewrite E2. rewrite bindM_liftR. cbn [fst snd].
      destruct (utf8_valid s); [|discriminate]. inversion H; subst. done_ret.
    + (* reserved *) inversion H; subst. rewrite bindM_ret. cost. done_ret.
    + (* principal *) destruct (dec_principal_bytes bs) as [[pb r1]| | |] eqn:E1; try discriminate. cbn [bind fst snd] in H. inversion H; subst.
      rewrite bindM_liftR. cbn [fst snd]. cost. done_ret.
  - exfalso. apply trace_nonvar in He. discriminate.
  - (* opt *) cbn [ty_closed] in Hc. cost.
    destruct bs as [|b r0]; [discriminate|]. destruct b as [|[| |]]; try discriminate.
    + inversion H; subst. done_ret.
    + unfold bind in H. destruct (dec_val f E t1 r0) as [[w0 r1]| | |] eqn:E1; try discriminate. cbn [fst snd] in H. inversion H; subst.
      unfold catch_sub. destruct h.
      * destruct (IHs u HV lc t1 r0 w0 r c Hc E1) as [c2 H2]. rewrite (bindM_ok _ _ _ _ _ _ H2). cbn [fst snd]. done_ret.
      * destruct (IHs true HI no_names t1 r0 w0 r c Hc E1) as [c2 H2]. rewrite (bindM_ok _ _ _ _ _ _ H2). cbn [fst snd]. done_ret.
  - (* vec *) cbn [ty_closed] in Hc.
    unfold bind in H. destruct (read_u64 bs) as [[len r1]| | |] eqn:E1; try discriminate. cbn [fst snd] in H.
    destruct (max_count <? len) eqn:Em; [discriminate|]. apply N.ltb_ge in Em. rewrite max_count_val in Em.
    match type of H with context [match ?x with Ok _ => _ | Err _ => _ | Panic => _ | OutOfFuel => _ end] => destruct x as [[vs r2]| | |] eqn:E2; try discriminate end.
    cbn [fst snd] in H. inversion H; subst v r. clear H.
    rewrite (vec_go_read_n (dec_val f E t1)) in E2.
    destruct (trace_closed E t1 Hwf Hc) as (a1 & Ta & Hca & Hnv).
    assert (Hdv : forall bs0, dec_val f E t1 bs0 = dec_val f E a1 bs0) by (intros; apply dec_val_trace; exact Ta).
    unfold is_blob. rewrite Ta.
    destruct (match a1 with TPrim PNat8 => true | _ => false end) eqn:Eb.
    + (* blob *)
      assert (a1 = TPrim PNat8) by (destruct a1 as [[]| | | | | | | | |]; try discriminate; reflexivity). subst a1. cbn [andb].
      rewrite bindM_liftR. cbn [fst snd]. cost.
      destruct f as [|f'].
      * destruct (read_n_nofuel _ (fun _ => eq_refl) _ _ _ _ E2) as (K & -> & ->).
        assert (len = 0) by lia. subst len. rewrite take_bytes_firstn by lia. rewrite bindM_liftR. cbn. done_ret.
      * rewrite (read_n_ext _ (read_prim PNat8)) in E2 by (intros; rewrite Hdv; apply dec_val_fixed; reflexivity).
        pose proof (read_n_prim_total PNat8 eq_refl _ _ _ _ E2) as Ht. cbn [prim_size] in Ht.
        rewrite blob_is_elementwise in E2 by lia. inversion E2; subst.
        rewrite take_bytes_firstn by lia. rewrite bindM_liftR. cbn [fst snd]. done_ret.
    + (* not a blob *)
      cbn [andb]. cost. unfold tr. rewrite Ta. rewrite bindM_ret. rewrite bindM_liftR. cbn [fst snd].
      destruct (exact_prim t1 a1) as [p|] eqn:Ex.
      * apply exact_prim_same in Ex as (-> & -> & Hp).
        unfold checked_mul.
        assert (B1 : len * (3 + prim_size p) <=? usize_max = true) by (apply N.leb_le; rewrite usize_max_val; pose proof (prim_size_le p); nia).
        assert (B2 : len * prim_size p <=? usize_max = true) by (apply N.leb_le; rewrite usize_max_val; pose proof (prim_size_le p); nia).
        rewrite B1. rewrite bindM_ret. cost. rewrite B2. rewrite bindM_ret.
        destruct f as [|f'].
        -- destruct (read_n_nofuel _ (fun _ => eq_refl) _ _ _ _ E2) as (K & -> & ->).
           assert (len = 0) by lia. subst len.
           assert (B3 : N.of_nat (length r1) <? 0 * prim_size p = false) by (apply N.ltb_ge; lia).
           rewrite B3. change (N.to_nat 0) with 0%nat. cbn [read_n]. rewrite bindM_liftR. cbn [fst snd]. done_ret.
        -- rewrite (read_n_ext _ (read_prim p)) in E2 by (intros; apply dec_val_fixed; exact Hp).
           pose proof (read_n_prim_total p Hp _ _ _ _ E2) as Ht.
           assert (B3 : N.of_nat (length r1) <? len * prim_size p = false) by (apply N.ltb_ge; lia).
           rewrite B3. rewrite E2. rewrite bindM_liftR. cbn [fst snd]. done_ret.
      * assert (B0 : max_count <? len = false) by (apply N.ltb_ge; rewrite max_count_val; exact Em). rewrite B0.
        destruct (big_fast t1 a1) as [b|] eqn:Eg.
        -- unfold checked_mul.
           assert (B1 : len * 3 <=? usize_max = true) by (apply N.leb_le; rewrite usize_max_val; lia).
           rewrite B1. rewrite bindM_ret. cost.
           assert (Hstep : forall bs0 v0 r0 cx, dec_val f E t1 bs0 = Ok (v0, r0) ->
                     exists c', (match b with BNat => de_nat u | _ => de_int u a1 end) bs0 nolim cx = (c', Ok (v0, r0))).
           { intros bs0 v0 r0 cx Hd. destruct f as [|f']; [discriminate|].
             unfold big_fast in Eg. destruct t1 as [[]| | | | | | | | |]; try discriminate; destruct a1 as [[]| | | | | | | | |]; try discriminate;
               inversion Eg; subst b; cbn [dec_val] in Hd; unfold trace in Hd; cbn [trace_f] in Hd;
               unfold de_nat, de_int; (destruct (split_leb bs0) as [[p0 rr]|]; [|discriminate]); inversion Hd; subst.
             all: try (destruct (add_cost_nolim u (N.of_nat (length p0)) cx) as [c2 Hc2]; rewrite (bindM_ok _ _ _ _ _ _ Hc2); eexists; reflexivity).
             all: unfold trace in Ta; cbn [trace_f] in Ta; discriminate. }
           match goal with |- exists c', bindM (rep _ _ _) _ nolim ?cc = _ => destruct (rep_follows _ _ Hstep _ _ _ _ cc E2) as [c2 H2] end. rewrite (bindM_ok _ _ _ _ _ _ H2). cbn [fst snd]. done_ret.
        -- destruct h.
           ++ assert (Hstep : forall bs0 v0 r0 cx, dec_val f E t1 bs0 = Ok (v0, r0) ->
                     exists c', (dom _ <- add_cost u 3; de f E u HV lc t1 a1 bs0) nolim cx = (c', Ok (v0, r0))).
              { intros bs0 v0 r0 cx Hd. destruct (add_cost_nolim u 3 cx) as [c2 Hc2]. rewrite (bindM_ok _ _ _ _ _ _ Hc2).
                rewrite Hdv in Hd. eapply IH; [exact Hwf|exact Ta|eapply trace_idem; exact Ta|exact Hca|exact Hd]. }
              match goal with |- exists c', bindM (rep _ _ _) _ nolim ?cc = _ => destruct (rep_follows (dec_val f E t1) (fun bs0 => dom _ <- add_cost u 3; de f E u HV lc t1 a1 bs0) Hstep _ _ _ _ cc E2) as [c2 H2] end. rewrite (bindM_ok _ _ _ _ _ _ H2). cbn [fst snd]. done_ret.
           ++ assert (Hstep : forall bs0 v0 r0 cx, dec_val f E t1 bs0 = Ok (v0, r0) ->
                     exists c', (dom _ <- add_cost u 3; de f E true HI no_names a1 a1 bs0) nolim cx = (c', Ok (v0, r0))).
              { intros bs0 v0 r0 cx Hd. destruct (add_cost_nolim u 3 cx) as [c2 Hc2]. rewrite (bindM_ok _ _ _ _ _ _ Hc2).
                rewrite Hdv in Hd. eapply IH; [exact Hwf|eapply trace_idem; exact Ta|eapply trace_idem; exact Ta|exact Hca|exact Hd]. }
              match goal with |- exists c', bindM (rep _ _ _) _ nolim ?cc = _ => destruct (rep_follows (dec_val f E t1) (fun bs0 => dom _ <- add_cost u 3; de f E true HI no_names a1 a1 bs0) Hstep _ _ _ _ cc E2) as [c2 H2] end. rewrite (bindM_ok _ _ _ _ _ _ H2). cbn [fst snd]. done_ret.
  - (* record *) cbn [ty_closed] in Hc. apply andb_true_iff in Hc as [Hcf Hu].
    rewrite (rec_go_loop (dec_val f E)) in H.
    unfold bind in H. destruct (rec_loop (dec_val f E) fs bs) as [[vs r2]| | |] eqn:E2; try discriminate. cbn [fst snd] in H. inversion H; subst v r. clear H.
    cost.
    match goal with |- exists c', bindM (de_fields ?rc _ _ _ _ ?k _ _ _) _ nolim ?cc = _ =>
      assert (HR : forall i t bs0 v0 r0 cx, In (i, t) fs -> dec_val f E t bs0 = Ok (v0, r0) -> exists c', rc u h lc t t bs0 nolim cx = (c', Ok (v0, r0)));
      [ intros i t bs0 v0 r0 cx Hin Hd; destruct h; apply IHs; try exact Hd; rewrite forallb_forall in Hcf; exact (Hcf (i, t) Hin)
      | destruct (de_fields_same rc E u h lc (dec_val f E) fs HR k bs vs r2 cc ltac:(lia) E2) as [c2 H2] ]
    end.
    rewrite (bindM_ok _ _ _ _ _ _ H2). cbn [fst snd]. done_ret.
  - (* variant *) cbn [ty_closed] in Hc. apply andb_true_iff in Hc as [Hcf Hu].
    unfold bind in H. destruct (read_u64 bs) as [[idx r1]| | |] eqn:E1; try discriminate. cbn [fst snd] in H.
    destruct (idx <? N.of_nat (length fs)) eqn:El; [|discriminate].
    destruct (nth_error fs (N.to_nat idx)) as [[i ti]|] eqn:En; [|discriminate].
    destruct (dec_val f E ti r1) as [[w0 r2]| | |] eqn:E2; try discriminate. cbn [fst snd] in H. inversion H; subst v r. clear H.
    cost. rewrite bindM_liftR. cbn [fst snd]. rewrite El. rewrite En.
    pose proof (nth_error_In _ _ En) as Hin.
    rewrite (uniq_find i ti fs Hu Hin).
    assert (Hct : ty_closed E ti = true) by (rewrite forallb_forall in Hcf; exact (Hcf (i, ti) Hin)).
    cost. cost.
    destruct h; [|cost; match goal with |- exists c', bindM (de _ _ ?uu ?hh ?ll ?t _ ?bb) _ nolim ?cc = _ => destruct (IHs uu hh ll t bb w0 r2 cc Hct E2) as [c5 H5] end; rewrite (bindM_ok _ _ _ _ _ _ H5); cbn [fst snd]; done_ret].
    destruct ti as [[]| | | | | | | | |];
      try (cost; match goal with |- exists c', bindM (de _ _ ?uu ?hh ?ll ?t _ ?bb) _ nolim ?cc = _ => destruct (IHs uu hh ll t bb w0 r2 cc Hct E2) as [c5 H5] end; rewrite (bindM_ok _ _ _ _ _ _ H5); cbn [fst snd]; done_ret).
    (* the unit payload: checked structurally, decoded to null *)
    destruct f as [|f']; [discriminate|]. cbn [dec_val] in E2. unfold trace in E2. cbn [trace_f] in E2. inversion E2; subst. cost. done_ret.
  - (* func *)
    assert (Hs : sub_dec_fast E (TFunc aa ra ma) (TFunc aa ra ma) = true) by (apply sub_dec_fast_correct; apply sub_refl).
    cost. rewrite Hs.
    destruct bs as [|b0 r0]; [discriminate|]. destruct b0 as [|[| |]]; try discriminate.
    unfold bind in H. destruct (dec_principal_bytes r0) as [[pb r1]| | |] eqn:E1; try discriminate. cbn [fst snd] in H.
    destruct (read_u64 r1) as [[n r2]| | |] eqn:E2; try discriminate. cbn [fst snd] in H.
    destruct (take_bytes n r2) as [[m r3]| | |] eqn:E3; try discriminate. cbn [fst snd] in H.
    destruct (utf8_valid m) eqn:Eu; [|discriminate]. inversion H; subst v r. clear H.
    rewrite bindM_liftR. cbn [fst snd]. rewrite E2. rewrite bindM_liftR. cbn [fst snd]. rewrite E3. rewrite bindM_liftR. cbn [fst snd].
    cost. rewrite Eu. done_ret.
  - (* service *)
    assert (Hs : sub_dec_fast E (TServ ms) (TServ ms) = true) by (apply sub_dec_fast_correct; apply sub_refl).
    cost. rewrite Hs.
    unfold bind in H. destruct (dec_principal_bytes bs) as [[pb r1]| | |] eqn:E1; try discriminate. cbn [fst snd] in H. inversion H; subst v r. clear H.
    rewrite bindM_liftR. cbn [fst snd]. cost. done_ret.
  - discriminate.
  - (* a future type: length, reference count, bytes *)
    unfold bind in H. destruct (read_u64 bs) as [[n r1]| | |] eqn:E1; try discriminate. cbn [fst snd] in H.
    destruct (read_u64 r1) as [[m r2]| | |] eqn:E2; try discriminate. cbn [fst snd] in H.
    destruct (take_bytes n r2) as [[sk r3]| | |] eqn:E3; try discriminate. cbn [fst snd] in H. inversion H; subst v r. clear H.
    rewrite bindM_liftR. cbn [fst snd]. cost. rewrite E2. rewrite bindM_liftR. cbn [fst snd]. rewrite E3. rewrite bindM_liftR. cbn [fst snd]. done_ret.
Qed.


Theorem de_at_wire_type : forall f E u lc e w a bs v r c,
  wf_env E = true -> trace E e = Some a -> trace E w = Some a -> ty_closed E a = true ->
  dec_val f E a bs = Ok (v, r) ->
  exists c', de f E u HV lc e w bs nolim c = (c', Ok (v, r)).
Proof. intros. eapply de_at_wire_type_host; eassumption. Qed.

(* round trip through the model of the real decoder: what M writes for v at t, the decoder reads back as v at t *)
Theorem de_roundtrip : forall v E t out f rest u lc c,
  wf_env E = true -> ty_closed E t = true ->
  has_type E v t = true -> enc_val E v t = Some out -> (vdepth v < f)%nat ->
  exists c', de f E u HV lc t t (out ++ rest) nolim c = (c', Ok (v, rest)).
Proof.
  intros v E t out f rest u lc c Hwf Hc Ht He Hf.
  pose proof (dec_enc_val v E t out f rest Ht He Hf) as Hd.
  destruct (trace_closed E t Hwf Hc) as (a & Ta & Hca & _).
  rewrite (dec_val_trace _ _ _ _ _ Ta) in Hd.
  eapply de_at_wire_type; eassumption.
Qed.

(* whole argument lists with no expected types (IDLArgs::from_bytes): the decoder follows M^-1 argument by argument *)
Lemma de_args_unknown_follows f E : wf_env E = true -> forall tws bs vs r c,
  forallb (ty_closed E) tws = true -> dec_vals f E tws bs = Ok (vs, r) ->
  exists c', de_args_unknown f E tws bs nolim c = (c', Ok (vs, r)).
Proof.
  intros Hwf tws; induction tws as [|tw tws IH]; intros bs vs r c Hc H; cbn [dec_vals de_args_unknown] in *.
  - inversion H; subst. eexists; reflexivity.
  - apply andb_true_iff in Hc as [Hc1 Hc2].
    unfold bind in H. destruct (dec_val f E tw bs) as [[v1 r1]| | |] eqn:E1; try discriminate. cbn [fst snd] in H.
    destruct (dec_vals f E tws r1) as [[vs2 r2]| | |] eqn:E2; try discriminate. cbn [fst snd] in H. inversion H; subst.
    destruct (trace_closed E tw Hwf Hc1) as (a & Ta & Hca & _).
    rewrite (dec_val_trace _ _ _ _ _ Ta) in E1.
    destruct (de_at_wire_type f E true no_names tw tw a bs v1 r1 c Hwf Ta Ta Hca E1) as [c1 H1].
    rewrite (bindM_ok _ _ _ _ _ _ H1). cbn [fst snd].
    destruct (IH r1 vs2 r c1 Hc2 E2) as [c2 H2]. rewrite (bindM_ok _ _ _ _ _ _ H2). cbn [fst snd]. eexists; reflexivity.
Qed.
Theorem de_message_untyped_is_spec bs Ew tws vs c :
  spec_decode_untyped bs = Ok (Ew, tws, vs) -> wf_env Ew = true -> forallb (ty_closed Ew) tws = true ->
  exists c', de_message_untyped max_type_table_len bs nolim c = (c', Ok vs).
Proof.
  intros H Hwf Hc. unfold spec_decode_untyped in H. unfold de_message_untyped.
  unfold bind in H. destruct (dec_header max_type_table_len bs) as [[[Ew0 tws0] body]| | |] eqn:Eh; try discriminate.
  destruct (dec_vals (decode_fuel Ew0 bs) Ew0 tws0 body) as [[vs0 rest]| | |] eqn:Ev; try discriminate. cbn [fst snd] in H.
  destruct rest as [|x rest']; [|discriminate]. inversion H; subst Ew0 tws0 vs0. clear H.
  rewrite bindM_liftR.
  destruct (add_cost_nolim false (sat (consumed bs body * 4)) c) as [c1 Hc1]. rewrite (bindM_ok _ _ _ _ _ _ Hc1).
  change (de_fuel Ew bs) with (decode_fuel Ew bs).
  destruct (de_args_unknown_follows (decode_fuel Ew bs) Ew Hwf tws body vs [] c1 Hc Ev) as [c2 H2].
  rewrite (bindM_ok _ _ _ _ _ _ H2). cbn [fst snd de_done]. rewrite bindM_ret. eexists; reflexivity.
Qed.
