(* AnalysisProofs.v -- the definition order is declare-before-use up to the recursive set; the chase is closed and
   duplicate-free; the JavaScript escaping is injective. *)
From CandidV Require Import model.Analysis proofs.TyProofs.
From Coq Require Import Lia.

Lemma name_eqb_eq a b : name_eqb a b = true <-> a = b.
Proof.
  unfold name_eqb. revert b; induction a as [|x a IH]; intros [|y b]; cbn [list_eqb]; split; intros H; try discriminate; try reflexivity.
  - apply andb_true_iff in H as [H1 H2]. apply N.eqb_eq in H1. apply IH in H2. subst; reflexivity.
  - inversion H; subst. apply andb_true_iff; split; [apply N.eqb_refl|apply IH; reflexivity].
Qed.
Lemma mem_name_in x l : mem_name x l = true <-> In x l.
Proof.
  unfold mem_name. rewrite existsb_exists. split.
  - intros (y & Hy & E). apply name_eqb_eq in E. subst; exact Hy.
  - intros H; exists x; split; [exact H|apply name_eqb_eq; reflexivity].
Qed.

(* ---------- infer_rec ---------- *)
Lemma scan_spec xs : forall seen rc s1 rc1, scan seen rc xs = (s1, rc1) ->
  (forall x, In x seen -> In x s1) /\ (forall x, In x rc -> In x rc1) /\
  (forall x, In x xs -> In x seen \/ In x rc1) /\ (forall x, In x s1 -> In x seen \/ In x rc1).
Proof.
  induction xs as [|y r IH]; intros seen rc s1 rc1 H; cbn [scan] in H.
  - inversion H; subst. repeat split; auto. intros x [].
  - destruct (mem_name y seen) eqn:M.
    + apply IH in H as (A & B & C & D). repeat split; auto.
      intros x [->|Hx]; [left; apply mem_name_in; exact M|apply C; exact Hx].
    + apply IH in H as (A & B & C & D). repeat split.
      * intros x Hx; apply A; right; exact Hx.
      * intros x Hx; apply B; apply in_or_app; left; exact Hx.
      * intros x [->|Hx]; [right; apply B; apply in_or_app; right; left; reflexivity|].
        destruct (C x Hx) as [[->|S]|R]; [right; apply B; apply in_or_app; right; left; reflexivity|left; exact S|right; exact R].
      * intros x Hx. destruct (D x Hx) as [[->|S]|R]; [right; apply B; apply in_or_app; right; left; reflexivity|left; exact S|right; exact R].
Qed.

Lemma infer_loop_mono E defs : forall seen rc x, In x rc -> In x (infer_loop E seen rc defs).
Proof.
  induction defs as [|d r IH]; intros seen rc x Hx; cbn [infer_loop]; [exact Hx|].
  destruct (scan seen rc _) as [s1 rc1] eqn:S. apply IH. apply scan_spec in S as (_ & B & _). apply B; exact Hx.
Qed.

(* every name used by the k-th definition is defined earlier in the list, or is in the recursive set *)
Lemma infer_loop_covers E defs : forall seen rc pre,
  (forall x, In x seen -> In x pre \/ In x rc) ->
  forall k d b x, nth_error defs k = Some d -> lookup E d = Some b -> In x (vars b) ->
  In x (pre ++ firstn k defs) \/ In x (infer_loop E seen rc defs).
Proof.
  induction defs as [|d0 r IH]; intros seen rc pre Hs k d b x Hk Hb Hx; [destruct k; discriminate|].
  cbn [infer_loop]. destruct (scan seen rc (match lookup E d0 with Some b0 => vars b0 | None => [] end)) as [s1 rc1] eqn:S.
  pose proof (scan_spec _ _ _ _ _ S) as (A & B & C & D).
  destruct k as [|k].
  - cbn in Hk. inversion Hk; subst d0. rewrite Hb in *. cbn [firstn]. rewrite app_nil_r.
    destruct (C x Hx) as [Hseen|Hr]; [|right; apply infer_loop_mono; exact Hr].
    destruct (Hs x Hseen) as [P|R]; [left; exact P|right; apply infer_loop_mono; apply B; exact R].
  - cbn [nth_error] in Hk. cbn [firstn].
    assert (Hs' : forall y, In y (d0 :: s1) -> In y (pre ++ [d0]) \/ In y rc1).
    { intros y [->|Hy]; [left; apply in_or_app; right; left; reflexivity|].
      destruct (D y Hy) as [Hseen|R]; [|right; exact R].
      destruct (Hs y Hseen) as [P|R]; [left; apply in_or_app; left; exact P|right; apply B; exact R]. }
    destruct (IH (d0 :: s1) rc1 (pre ++ [d0]) Hs' k d b x Hk Hb Hx) as [P|R]; [left|right; exact R].
    rewrite <- app_assoc in P. exact P.
Qed.

Theorem infer_rec_covers E defs k d b x :
  nth_error defs k = Some d -> lookup E d = Some b -> In x (vars b) ->
  In x (firstn k defs) \/ In x (infer_rec E defs).
Proof.
  intros Hk Hb Hx. unfold infer_rec.
  apply (infer_loop_covers E defs [] [] [] (fun y (H : In y []) => match H with end) k d b x Hk Hb Hx).
Qed.

(* ---------- chase: closed and duplicate-free ---------- *)
Lemma nodup_app {A} (l1 l2 : list A) : NoDup l1 -> NoDup l2 -> (forall x, In x l1 -> ~ In x l2) -> NoDup (l1 ++ l2).
Proof.
  induction l1 as [|a l1 IH]; intros H1 H2 Hd; [exact H2|]. cbn [app]. inversion H1; subst. constructor.
  - intros Hin. apply in_app_or in Hin as [Hin|Hin]; [contradiction|]. apply (Hd a); [left; reflexivity|exact Hin].
  - apply IH; [assumption|assumption|]. intros x Hx. apply Hd. right; exact Hx.
Qed.

Lemma chase_spec f E : forall seen res xs s1 r1,
  chase f E seen res xs = Some (s1, r1) ->
  exists extra, r1 = res ++ extra /\
    (forall x, In x seen -> In x s1) /\ (forall x, In x xs -> In x s1) /\
    (forall x, In x s1 -> In x seen \/ In x extra) /\
    (forall x, In x extra -> In x s1 /\ ~ In x seen /\ exists b, lookup E x = Some b /\ forall y, In y (vars b) -> In y s1) /\
    NoDup extra.
Proof.
  induction f as [|f IH]; intros seen res xs s1 r1 H; [discriminate|]. cbn [chase] in H.
  destruct xs as [|x r].
  - inversion H; subst. exists []. rewrite app_nil_r.
    split; [reflexivity|]. split; [auto|]. split; [intros y Hy; destruct Hy|]. split; [intros y Hy; left; exact Hy|].
    split; [intros y Hy; destruct Hy|constructor].
  - destruct (mem_name x seen) eqn:M.
    + apply IH in H as (extra & Er & A & C & D & G & N). exists extra.
      split; [exact Er|]. split; [exact A|].
      split; [intros y [->|Hy]; [apply A; apply mem_name_in; exact M|apply C; exact Hy]|].
      split; [exact D|]. split; [exact G|exact N].
    + destruct (lookup E x) as [b|] eqn:L; [|discriminate].
      destruct (chase f E (x :: seen) res (vars b)) as [[s2 r2]|] eqn:H1; [|discriminate].
      apply IH in H1 as (e1 & Er1 & A1 & C1 & D1 & G1 & N1).
      apply IH in H as (e2 & Er2 & A2 & C2 & D2 & G2 & N2).
      assert (Mn : ~ In x seen) by (intros Hin; apply mem_name_in in Hin; rewrite Hin in M; discriminate).
      exists (e1 ++ [x] ++ e2). split; [|split; [|split; [|split; [|split]]]].
      * subst r2. rewrite Er2. rewrite <- !app_assoc. reflexivity.
      * intros y Hy. apply A2, A1. right; exact Hy.
      * intros y [->|Hy]; [apply A2, A1; left; reflexivity|apply C2; exact Hy].
      * intros y Hy. destruct (D2 y Hy) as [S2|R]; [|right; apply in_or_app; right; apply in_or_app; right; exact R].
        destruct (D1 y S2) as [[->|S]|R2]; [right; apply in_or_app; right; left; reflexivity|left; exact S|right; apply in_or_app; left; exact R2].
      * intros y Hy. apply in_app_or in Hy as [Hy|Hy]; [|apply in_app_or in Hy as [[->|[]]|Hy]].
        { destruct (G1 y Hy) as (S & Ns & by0 & Lb & Vb). split; [apply A2; exact S|]. split; [intros Hs; apply Ns; right; exact Hs|].
          exists by0; split; [exact Lb|intros z Hz; apply A2; apply Vb; exact Hz]. }
        { split; [apply A2, A1; left; reflexivity|]. split; [exact Mn|]. exists b; split; [exact L|intros z Hz; apply A2, C1; exact Hz]. }
        { destruct (G2 y Hy) as (S & Ns & by0 & Lb & Vb). split; [exact S|]. split; [intros Hs; apply Ns, A1; right; exact Hs|].
          exists by0; split; [exact Lb|exact Vb]. }
      * apply nodup_app; [exact N1| |].
        { cbn [app]. constructor; [|exact N2]. intros Hin. destruct (G2 x Hin) as (_ & Ns & _). apply Ns, A1. left; reflexivity. }
        { intros y Hy Hin. cbn [app] in Hin. destruct Hin as [->|Hin].
          - destruct (G1 y Hy) as (_ & Ns & _). apply Ns. left; reflexivity.
          - destruct (G2 y Hin) as (_ & Ns & _). destruct (G1 y Hy) as (S & _). apply Ns. exact S. }
Qed.

(* C17 / C19: the list chase_actor returns is closed (it contains every name the main service mentions and every name any
   listed definition mentions), every listed name is bound, and no name is listed twice *)
Theorem chase_actor_closed E t defs : chase_actor E t = Some defs ->
  (forall x, In x (vars t) -> In x defs) /\
  (forall d, In d defs -> exists b, lookup E d = Some b /\ forall x, In x (vars b) -> In x defs) /\
  NoDup defs.
Proof.
  unfold chase_actor. destruct (chase _ E [] [] (vars t)) as [[s1 r1]|] eqn:H; [|discriminate].
  cbn [option_map snd]. intros Hd; inversion Hd; subst defs. apply chase_spec in H as (extra & Er & A & C & D & G & N).
  cbn [app] in Er. subst extra.
  assert (S : forall x, In x s1 -> In x r1) by (intros x Hx; destruct (D x Hx) as [[]|R]; exact R).
  repeat split.
  - intros x Hx. apply S, C; exact Hx.
  - intros d Hdin. destruct (G d Hdin) as (_ & _ & b & Lb & Vb). exists b; split; [exact Lb|intros x Hx; apply S, Vb; exact Hx].
  - exact N.
Qed.

(* C17: with the list of chase_actor, every definition's body uses only names defined earlier in the list or names in the
   recursive set (which the JavaScript binding declares with IDL.Rec() before all definitions) *)
Theorem js_declare_before_use E t defs k d b x : chase_actor E t = Some defs ->
  nth_error defs k = Some d -> lookup E d = Some b -> In x (vars b) ->
  In x (firstn k defs) \/ In x (infer_rec E defs).
Proof. intros _. apply infer_rec_covers. Qed.

(* ---------- JavaScript identifiers ---------- *)
Lemma strip_us_rev_app l : strip_us_rev (95 :: l) = strip_us_rev l.
Proof. reflexivity. Qed.
Lemma trim_us_snoc s : trim_us (s ++ [95]) = trim_us s.
Proof. unfold trim_us. rewrite rev_app_distr. cbn [rev app]. reflexivity. Qed.

(* the escaping is injective: two different names never become the same identifier *)
Theorem js_ident_injective kw a b : js_ident kw a = js_ident kw b -> a = b.
Proof.
  unfold js_ident. destruct (mem_name (trim_us a) kw) eqn:Ka; destruct (mem_name (trim_us b) kw) eqn:Kb; intros H.
  - apply app_inj_tail in H as [H _]. exact H.
  - exfalso. subst b. rewrite trim_us_snoc in Kb. rewrite Ka in Kb. discriminate.
  - exfalso. subst a. rewrite trim_us_snoc in Ka. rewrite Kb in Ka. discriminate.
  - exact H.
Qed.
Lemma strip_us_rev_other c l : c <> 95 -> strip_us_rev (c :: l) = c :: l.
Proof.
  intros Hn. destruct c as [|p]; [reflexivity|].
  do 8 (try (destruct p as [p|p|]; try reflexivity)). exfalso; apply Hn; reflexivity.
Qed.
Lemma strip_us_rev_len l : (length (strip_us_rev l) <= length l)%nat.
Proof.
  induction l as [|c l IH]; [cbn; lia|].
  destruct (N.eq_dec c 95) as [->|Hn]; [cbn [strip_us_rev length]; lia|].
  rewrite strip_us_rev_other by exact Hn. lia.
Qed.
Lemma trim_us_len s : (length (trim_us s) <= length s)%nat.
Proof. unfold trim_us. rewrite rev_length. pose proof (strip_us_rev_len (rev s)) as H. rewrite rev_length in H. exact H. Qed.

(* and an escaped name is never a reserved word (no reserved word ends in an underscore) *)
Theorem js_ident_not_reserved kw s : (forall k, In k kw -> trim_us k = k) -> mem_name (js_ident kw s) kw = false.
Proof.
  intros Hk. unfold js_ident. destruct (mem_name (trim_us s) kw) eqn:K.
  - destruct (mem_name (s ++ [95]) kw) eqn:M; [|reflexivity]. exfalso. apply mem_name_in in M. apply Hk in M.
    rewrite trim_us_snoc in M. pose proof (trim_us_len s) as L. rewrite M in L. rewrite app_length in L. cbn in L. lia.
  - destruct (mem_name s kw) eqn:M; [|reflexivity]. exfalso. apply mem_name_in in M. pose proof (Hk s M) as T.
    rewrite T in K. apply mem_name_in in M. rewrite M in K. discriminate.
Qed.
