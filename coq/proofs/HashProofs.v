From Coq Require Import Lia Sorting.Sorted Sorting.Permutation.
From CandidV Require Import Consts model.Hash.
Open Scope N_scope.

(* Horner form without reduction *)
Fixpoint horner (m : N) (s : N) (bs : list N) : N :=
  match bs with [] => s | b :: r => horner m (s * m + b) r end.

Lemma horner_sum s bs : horner 223 s bs = s * 223 ^ (N.of_nat (length bs)) + hash_sum bs.
Proof.
  revert s; induction bs as [|b r IH]; intros s; cbn [horner hash_sum length].
  - change (N.of_nat 0) with 0. rewrite N.pow_0_r. lia.
  - rewrite IH, Nat2N.inj_succ, N.pow_succ_r'. lia.
Qed.

Lemma fold_mod m bits bs : 2 ^ bits <> 0 -> forall s,
  fold_left (hash_step m bits) bs (s mod 2 ^ bits) = horner m s bs mod 2 ^ bits.
Proof.
  intros Hnz. induction bs as [|b r IH]; intros s; cbn [fold_left horner].
  - reflexivity.
  - rewrite <- IH. f_equal. unfold hash_step.
    rewrite <- (N.add_mod_idemp_l (s mod 2 ^ bits * m)) by exact Hnz.
    rewrite N.mul_mod_idemp_l by exact Hnz.
    rewrite N.add_mod_idemp_l by exact Hnz. reflexivity.
Qed.

Lemma idl_hash_with_spec bs : idl_hash_with 223 32 bs = hash_spec bs.
Proof.
  unfold idl_hash_with, hash_spec.
  change 0 with (0 mod 2 ^ 32) at 1.
  rewrite fold_mod by (cbv; discriminate).
  rewrite horner_sum. f_equal.
Qed.

Theorem hash_impl_is_spec bs : idl_hash bs = hash_spec bs.
Proof. unfold idl_hash. exact (idl_hash_with_spec bs). Qed.

Theorem hash_copies_agree bs : idl_hash bs = idl_hash_derive bs.
Proof. reflexivity. Qed.

Lemma hash_lt bs : idl_hash bs < 2 ^ 32.
Proof. rewrite hash_impl_is_spec. unfold hash_spec. apply N.mod_lt. cbv; discriminate. Qed.

(* label laws: equality, order and hash factor through get_id *)
Lemma label_eqb_refl a : label_eqb a a = true.
Proof. unfold label_eqb. apply N.eqb_refl. Qed.
Lemma label_eqb_sym a b : label_eqb a b = label_eqb b a.
Proof. unfold label_eqb. apply N.eqb_sym. Qed.
Lemma label_eqb_trans a b c : label_eqb a b = true -> label_eqb b c = true -> label_eqb a c = true.
Proof. unfold label_eqb. rewrite !N.eqb_eq. congruence. Qed.
Lemma label_eq_hash a b : label_eqb a b = true -> label_hash a = label_hash b.
Proof. unfold label_eqb, label_hash. now rewrite N.eqb_eq. Qed.
Lemma label_cmp_eq a b : label_cmp a b = Eq <-> label_eqb a b = true.
Proof. unfold label_cmp, label_eqb. rewrite N.compare_eq_iff, N.eqb_eq. tauto. Qed.
Lemma label_cmp_antisym a b : label_cmp b a = CompOpp (label_cmp a b).
Proof. unfold label_cmp. apply N.compare_antisym. Qed.
Lemma label_cmp_trans a b c : label_cmp a b = Lt -> label_cmp b c = Lt -> label_cmp a c = Lt.
Proof. unfold label_cmp. rewrite !N.compare_lt_iff. lia. Qed.
Lemma named_is_id s : label_eqb (LNamed s) (LId (idl_hash s)) = true
                      /\ label_cmp (LNamed s) (LId (idl_hash s)) = Eq
                      /\ label_hash (LNamed s) = label_hash (LId (idl_hash s)).
Proof. unfold label_eqb, label_cmp, label_hash. cbn. rewrite N.eqb_refl, N.compare_refl. auto. Qed.

(* sorting *)
Lemma insert_perm i l : Permutation (i :: l) (insert_id i l).
Proof.
  induction l as [|j r IH]; cbn; [apply Permutation_refl|].
  destruct (i <=? j); [apply Permutation_refl|].
  eapply perm_trans; [apply perm_swap|]. now apply perm_skip.
Qed.
Lemma sort_perm l : Permutation l (sort_ids l).
Proof.
  induction l as [|i r IH]; cbn; [constructor|].
  eapply perm_trans; [apply perm_skip, IH|apply insert_perm].
Qed.

Inductive sorted : list N -> Prop :=
| sorted_nil : sorted []
| sorted_one i : sorted [i]
| sorted_cons i j r : i <= j -> sorted (j :: r) -> sorted (i :: j :: r).

Lemma insert_sorted i l : sorted l -> sorted (insert_id i l).
Proof.
  induction 1 as [|j|j k r Hjk Hs IH]; cbn.
  - constructor.
  - destruct (N.leb_spec i j); constructor; try lia; constructor.
  - destruct (N.leb_spec i j).
    + constructor; [lia|]. now constructor.
    + cbn in IH. destruct (N.leb_spec i k).
      * constructor; [lia|]. exact IH.
      * constructor; [exact Hjk|]. exact IH.
Qed.
Lemma sort_sorted l : sorted (sort_ids l).
Proof. induction l as [|i r IH]; cbn; [constructor|]. now apply insert_sorted. Qed.

Lemma sorted_head_le i l : sorted (i :: l) -> forall x, In x l -> i <= x.
Proof.
  revert i; induction l as [|j r IH]; intros i Hs x Hx; [destruct Hx|].
  inversion Hs; subst. destruct Hx as [->|Hx]; [assumption|].
  assert (j <= x) by (apply IH; assumption). lia.
Qed.

Lemma check_unique_sorted_nodup l : sorted l ->
  forall p, (forall q, p = Some q -> forall x, In x l -> q <= x) ->
  (check_unique p l = true <-> NoDup l /\ (forall q, p = Some q -> ~ In q l)).
Proof.
  induction 1 as [|i|i j r Hij Hs IH]; intros p Hp.
  - cbn. split; [intros _; split; [constructor|intros q _ []]|reflexivity].
  - cbn [check_unique]. destruct p as [q|].
    + destruct (N.eqb_spec i q) as [->|Hne].
      * split; [discriminate|]. intros [_ H]. exfalso. apply (H q eq_refl). now left.
      * split; [|reflexivity]. intros _. split; [repeat constructor; intros []|].
        intros q' [= <-] [H|[]]. congruence.
    + split; [|reflexivity]. intros _. split; [repeat constructor; intros []|discriminate].
  - assert (Htail : check_unique (Some i) (j :: r) = true <-> NoDup (j :: r) /\ ~ In i (j :: r)).
    { rewrite IH.
      - split; intros [H1 H2]; split; auto. intros q [= <-]. exact H2.
      - intros q [= <-] x Hx. destruct Hx as [<-|Hx]; [exact Hij|].
        pose proof (sorted_head_le j r Hs x Hx). lia. }
    change (check_unique p (i :: j :: r)) with
      (match p with Some q => if i =? q then false else check_unique (Some i) (j :: r)
                  | None => check_unique (Some i) (j :: r) end).
    destruct p as [q|].
    + destruct (N.eqb_spec i q) as [->|Hne].
      * split; [discriminate|]. intros [_ H]. exfalso. apply (H q eq_refl). now left.
      * rewrite Htail. split.
        -- intros [Hnd Hni]. split; [now constructor|].
           intros q' [= <-] [H|H]; [congruence|].
           assert (q <= i) by (apply (Hp q eq_refl); now left).
           assert (i <= q). { destruct H as [<-|H]; [exact Hij|]. pose proof (sorted_head_le j r Hs q H). lia. }
           lia.
        -- intros [Hnd _]. inversion Hnd; subst. split; assumption.
    + rewrite Htail. split.
      * intros [Hnd Hni]. split; [now constructor|discriminate].
      * intros [Hnd _]. inversion Hnd; subst. split; assumption.
Qed.

Theorem unique_after_sort_spec ids : unique_after_sort ids = true <-> NoDup ids.
Proof.
  unfold unique_after_sort.
  rewrite (check_unique_sorted_nodup _ (sort_sorted ids) None) by discriminate.
  split.
  - intros [H _]. eapply Permutation_NoDup; [apply Permutation_sym, sort_perm|exact H].
  - intros H. split; [|discriminate]. eapply Permutation_NoDup; [apply sort_perm|exact H].
Qed.

(* strictly ascending lists are exactly the sorted duplicate-free ones *)
Lemma strictly_ascending_spec l : forall p,
  strictly_ascending p l = true <->
  (sorted l /\ NoDup l /\ forall q, p = Some q -> forall x, In x l -> q < x).
Proof.
  induction l as [|i r IH]; intros p.
  - cbn. split; [intros _; repeat split; try constructor; intros q _ x []|reflexivity].
  - cbn [strictly_ascending].
    assert (Hcore : strictly_ascending (Some i) r = true <->
                    sorted (i :: r) /\ NoDup (i :: r)).
    { rewrite IH. split.
      - intros (Hs & Hnd & Hlt). split.
        + destruct r as [|j r']; [constructor|]. constructor; [|exact Hs].
          specialize (Hlt i eq_refl j (or_introl eq_refl)). lia.
        + constructor; [|exact Hnd]. intros Hin. specialize (Hlt i eq_refl i Hin). lia.
      - intros (Hs & Hnd). inversion Hnd as [|? ? Hni Hnd']; subst.
        split; [|split; [exact Hnd'|]].
        + inversion Hs; subst; [constructor|assumption].
        + intros q [= <-] x Hx. pose proof (sorted_head_le i r Hs x Hx).
          assert (i <> x) by (intros ->; contradiction). lia. }
    destruct p as [q|].
    + destruct (N.leb_spec i q) as [Hle|Hgt].
      * split; [discriminate|]. intros (_ & _ & H). specialize (H q eq_refl i (or_introl eq_refl)). lia.
      * rewrite Hcore. split.
        -- intros [Hs Hnd]. repeat split; try assumption.
           intros q' [= <-] x [<-|Hx]; [exact Hgt|].
           pose proof (sorted_head_le i r Hs x Hx). lia.
        -- intros (Hs & Hnd & _). split; assumption.
    + rewrite Hcore. split.
      * intros [Hs Hnd]. repeat split; try assumption. discriminate.
      * intros (Hs & Hnd & _). split; assumption.
Qed.

(* what the serializer emits for a checked field list (sorted + unique) is what the header parser accepts *)
Theorem sorted_unique_is_ascending ids :
  unique_after_sort ids = true -> strictly_ascending None (sort_ids ids) = true.
Proof.
  intros H. apply strictly_ascending_spec. split; [apply sort_sorted|]. split; [|discriminate].
  apply unique_after_sort_spec in H.
  eapply Permutation_NoDup; [apply sort_perm|exact H].
Qed.
Theorem ascending_is_fixed_by_sort ids :
  strictly_ascending None ids = true -> unique_after_sort ids = true.
Proof.
  intros H. apply strictly_ascending_spec in H as (_ & Hnd & _).
  now apply unique_after_sort_spec.
Qed.
