(* The decision procedure [sub_dec] is correct for the co-inductively defined relation [Sub]. *)
From Coq Require Import Lia.
From CandidV Require Import model.Sub proofs.TyProofs proofs.GfpProofs.
Open Scope N_scope.

Lemma forallb_impl {A} (f g : A -> bool) l : (forall x, In x l -> f x = true -> g x = true) -> forallb f l = true -> forallb g l = true.
Proof.
  intros H. rewrite !forallb_forall. intros Hf x Hx. apply H; [exact Hx|apply Hf, Hx].
Qed.

Lemma apply_rule_mono v (S S' : pair -> bool) :
  (forall q, S q = true -> S' q = true) -> apply_rule v S = true -> apply_rule v S' = true.
Proof.
  intros H. destruct v; cbn [apply_rule]; auto. apply forallb_impl. intros x _. apply H.
Qed.
Lemma stepb_mono E (S S' : pair -> bool) p :
  (forall q, S q = true -> S' q = true) -> stepb E S p = true -> stepb E S' p = true.
Proof. apply apply_rule_mono. Qed.
Lemma eq_stepb_mono E (S S' : pair -> bool) p :
  (forall q, S q = true -> S' q = true) -> eq_stepb E S p = true -> eq_stepb E S' p = true.
Proof. apply apply_rule_mono. Qed.

(* only premises inside a given set matter *)
Lemma apply_rule_local v (S : pair -> bool) (P : pair -> bool) :
  (forall qs, v = VPrem qs -> forall q, In q qs -> P q = true) ->
  apply_rule v S = true -> apply_rule v (fun q => S q && P q) = true.
Proof.
  intros H. destruct v; cbn [apply_rule]; auto. intros Hf. apply forallb_forall. intros q Hq.
  rewrite forallb_forall in Hf. rewrite (Hf q Hq), (H qs eq_refl q Hq). reflexivity.
Qed.

(* ---------- components of a node are nodes ---------- *)
Section Nodes.
  Variable E : env.
  Variable ts : list ty.
  Notation N := (nodes E ts).

  Lemma node_sub n u : In n N -> In u (subterms n) -> In u N.
  Proof. intros Hn Hu. eapply nodes_closed; eauto. Qed.

  Lemma node_opt x : In (TOpt x) N -> In x N.
  Proof. intros H. eapply node_sub; [exact H|]. cbn. right. apply subterms_self. Qed.
  Lemma node_vec x : In (TVec x) N -> In x N.
  Proof. intros H. eapply node_sub; [exact H|]. cbn. right. apply subterms_self. Qed.
  Lemma node_rec fs i t : In (TRec fs) N -> In (i, t) fs -> In t N.
  Proof.
    intros H Hf. eapply node_sub; [exact H|]. cbn [subterms]. right. apply in_flat_map. exists (i, t). split; [exact Hf|apply subterms_self].
  Qed.
  Lemma node_variant fs i t : In (TVariant fs) N -> In (i, t) fs -> In t N.
  Proof.
    intros H Hf. eapply node_sub; [exact H|]. cbn [subterms]. right. apply in_flat_map. exists (i, t). split; [exact Hf|apply subterms_self].
  Qed.
  Lemma node_serv ms i t : In (TServ ms) N -> In (i, t) ms -> In t N.
  Proof.
    intros H Hf. eapply node_sub; [exact H|]. cbn [subterms]. right. apply in_flat_map. exists (i, t). split; [exact Hf|apply subterms_self].
  Qed.
  Lemma node_func_args a r m : In (TFunc a r m) N -> In (tuple a) N /\ In (tuple r) N.
  Proof.
    intros H. split; (eapply node_sub; [exact H|]); cbn [subterms].
    - right. left. reflexivity.
    - right. right. left. reflexivity.
  Qed.
  Lemma node_func_a a r m : In (TFunc a r m) N -> In (tuple a) N.
  Proof. intros H. apply (node_func_args a r m H). Qed.
  Lemma node_func_r a r m : In (TFunc a r m) N -> In (tuple r) N.
  Proof. intros H. apply (node_func_args a r m H). Qed.
  Lemma node_class a t : In (TClass a t) N -> In t N.
  Proof. intros H. eapply node_sub; [exact H|]. cbn [subterms]. right. right. apply in_or_app. right. apply subterms_self. Qed.
  Lemma node_class_init a t : In (TClass a t) N -> In (tuple a) N.
  Proof. intros H. eapply node_sub; [exact H|]. cbn [subterms]. right. left. reflexivity. Qed.

  Definition inN (q : pair) : Prop := In (fst q) N /\ In (snd q) N.

  Lemma rule_premises a b qs : In a N -> In b N -> rule E (a, b) = VPrem qs -> forall q, In q qs -> inN q.
  Proof.
    intros Ha Hb. unfold rule.
    destruct (ty_eqb a b); [discriminate|].
    destruct (trace E a) as [a'|] eqn:Ta; [|discriminate].
    destruct (trace E b) as [b'|] eqn:Tb; [|discriminate].
    destruct (ty_eqb a' b'); [discriminate|].
    pose proof (trace_nodes E ts a a' Ha Ta) as Ha'.
    pose proof (trace_nodes E ts b b' Hb Tb) as Hb'.
    clear Ta Tb Ha Hb a b. unfold arms.
    destruct a' as [pa|xa|ta|ta|fa|fa|aa ra ma|msa|ia ta|], b' as [pb|xb|tb|tb|fb|fb|ab rb mb|msb|ib tb|];
      try destruct pa; try destruct pb; try discriminate;
      intros Hv q Hq; unfold inN;
      try (match type of Hv with (if ?c then _ else _) = _ => destruct c; [|discriminate] end);
      injection Hv as <-;
      try (cbn [In] in Hq;
           repeat match goal with H : _ \/ _ |- _ => destruct H as [H|H] end; try contradiction; subst q; cbn [fst snd];
           split; first [assumption | eapply node_vec; eassumption | eapply node_class; eassumption
                        | eapply node_func_a; eassumption | eapply node_func_r; eassumption ]).
    all: apply in_flat_map in Hq as [f [Hf Hq]].
    - (* record *) destruct (find_field (fst f) fa) as [t1|] eqn:Hff; [|destruct Hq].
      destruct Hq as [<-|[]]. cbn [fst snd]. split.
      + eapply node_rec; [exact Ha'|]. eapply find_field_In; eauto.
      + destruct f as [i t]. eapply node_rec; [exact Hb'|exact Hf].
    - (* variant *) destruct (find_field (fst f) fb) as [t2|] eqn:Hff; [|destruct Hq].
      destruct Hq as [<-|[]]. cbn [fst snd]. split.
      + destruct f as [i t]. eapply node_variant; [exact Ha'|exact Hf].
      + eapply node_variant; [exact Hb'|]. eapply find_field_In; eauto.
    - (* service *) destruct (find_meth (fst f) msa) as [t1|] eqn:Hff; [|destruct Hq].
      destruct Hq as [<-|[]]. cbn [fst snd]. split.
      + eapply node_serv; [exact Ha'|]. eapply find_meth_In; eauto.
      + destruct f as [i t]. eapply node_serv; [exact Hb'|exact Hf].
  Qed.
End Nodes.

(* ---------- the decision procedure decides the greatest fixed point ---------- *)
Lemma in_universe E a b q : In q (universe E a b) <-> inN E [a; b] q.
Proof. unfold universe, inN. destruct q as [x y]. cbn [fst snd]. apply in_prod_iff. Qed.

Lemma roots_in_nodes E a b : In a (nodes E [a; b]) /\ In b (nodes E [a; b]).
Proof.
  unfold nodes. cbn [flat_map]. split; apply in_or_app; left; apply in_or_app.
  - left. apply subterms_self.
  - right. apply in_or_app. left. apply subterms_self.
Qed.

(* deciding by the greatest fixed point over ANY finite set that contains the pair and is closed under premises *)
Theorem gfp_decides E (U : list pair) a b :
  In (a, b) U ->
  (forall p, In p U -> forall qs, rule E p = VPrem qs -> forall q, In q qs -> In q U) ->
  (mem pair pair_eqb (gfp pair pair_eqb (stepb E) U) (a, b) = true <-> Sub E a b).
Proof.
  intros HabU Hclosed. rewrite (mem_In pair pair_eqb pair_eqb_spec). split.
  - intros Hin. exists (fun p => In p (gfp pair pair_eqb (stepb E) U)). split; [exact Hin|].
    intros p Hp. exists (mem pair pair_eqb (gfp pair pair_eqb (stepb E) U)). split.
    + intros q Hq. apply (mem_In pair pair_eqb pair_eqb_spec). exact Hq.
    + apply gfp_consistent. exact Hp.
  - intros [R [Hab HR]].
    apply (gfp_greatest pair pair_eqb pair_eqb_spec (stepb E) (stepb_mono E) (fun p => R p /\ In p U) U).
    + intros x [Hx HxU]. split; [exact HxU|].
      destruct (HR x Hx) as [S [HS HF]].
      exists (fun q => S q && mem pair pair_eqb U q). split.
      * intros q Hq. apply andb_true_iff in Hq as [H1 H2]. split; [apply HS, H1|].
        apply (mem_In pair pair_eqb pair_eqb_spec). exact H2.
      * unfold stepb in *. apply apply_rule_local; [|exact HF].
        intros qs Hqs q Hq. apply (mem_In pair pair_eqb pair_eqb_spec). eapply Hclosed; eauto.
    + split; [exact Hab|exact HabU].
Qed.

Theorem sub_dec_correct E a b : sub_dec E a b = true <-> Sub E a b.
Proof.
  unfold sub_dec. apply gfp_decides.
  - apply in_universe. apply roots_in_nodes.
  - intros [xa xb] HxU qs Hqs q Hq. apply in_universe. apply in_universe in HxU. destruct HxU as [Hxa Hxb].
    cbn [fst snd] in Hxa, Hxb. exact (rule_premises E [a; b] xa xb qs Hxa Hxb Hqs q Hq).
Qed.

Theorem sub_dec_fast_correct E a b : sub_dec_fast E a b = true <-> Sub E a b.
Proof.
  unfold sub_dec_fast.
  set (U := reach (reach_fuel E a b) E [(a, b)] []).
  destruct (closedb E U && mem pair pair_eqb U (a, b)) eqn:Hc; [|apply sub_dec_correct].
  apply andb_true_iff in Hc as [Hcl Hm]. apply gfp_decides.
  - apply (mem_In pair pair_eqb pair_eqb_spec). exact Hm.
  - intros p Hp qs Hqs q Hq. unfold closedb in Hcl. rewrite forallb_forall in Hcl.
    specialize (Hcl p Hp). unfold prems in Hcl. rewrite Hqs in Hcl. rewrite forallb_forall in Hcl.
    apply (mem_In pair pair_eqb pair_eqb_spec). apply Hcl. exact Hq.
Qed.

(* ---------- basic meta-theory of the relation ---------- *)
Theorem sub_refl E a : Sub E a a.
Proof.
  exists (fun p => fst p = snd p). split; [reflexivity|].
  intros [x y] Hp. cbn in Hp. subst y. exists (fun _ => false). split; [discriminate|].
  unfold stepb, rule. now rewrite ty_eqb_refl.
Qed.

(* the relation is consistent: every member is justified by one rule application from members *)
Theorem sub_unfold E a b : Sub E a b -> exists S : pair -> bool, (forall q, S q = true -> Sub E (fst q) (snd q)) /\ stepb E S (a, b) = true.
Proof.
  intros [R [Hab HR]]. destruct (HR _ Hab) as [S [HS HF]]. exists S. split; [|exact HF].
  intros [x y] Hq. exists R. split; [apply HS, Hq|exact HR].
Qed.

(* transitivity fails already for the rule set of the specification *)
Definition cex_a : ty := TRec [(102, TPrim PNat)].
Definition cex_b : ty := TRec [].
Definition cex_c : ty := TRec [(102, TPrim PNull)].
Theorem sub_trans_refuted : Sub [] cex_a cex_b /\ Sub [] cex_b cex_c /\ ~ Sub [] cex_a cex_c.
Proof.
  repeat split.
  - apply sub_dec_correct. vm_compute. reflexivity.
  - apply sub_dec_correct. vm_compute. reflexivity.
  - intros H. apply sub_dec_correct in H. vm_compute in H. discriminate.
Qed.

(* ---------- type equality: same development for [eq_rule] ---------- *)
Lemma zip_fields_In {K} (keq : K -> K -> bool) (l1 : list (K * ty)) : forall l2 qs,
  zip_fields keq l1 l2 = Some qs -> forall q, In q qs -> exists i j, In (i, fst q) l1 /\ In (j, snd q) l2.
Proof.
  induction l1 as [|[i s] r1 IH]; intros [|[j t] r2] qs H q Hq; cbn [zip_fields] in H; try discriminate.
  - inversion H; subst. destruct Hq.
  - destruct (keq i j); [|discriminate].
    destruct (zip_fields keq r1 r2) as [qs'|] eqn:Hz; [|discriminate]. inversion H; subst.
    destruct Hq as [<-|Hq].
    + exists i, j. cbn. auto.
    + destruct (IH _ _ Hz q Hq) as (i' & j' & H1 & H2). exists i', j'. cbn. auto.
Qed.

Section NodesEq.
  Variable E : env.
  Variable ts : list ty.
  Notation N := (nodes E ts).
  Lemma eq_rule_premises a b qs : In a N -> In b N -> eq_rule E (a, b) = VPrem qs -> forall q, In q qs -> inN E ts q.
  Proof.
    intros Ha Hb. unfold eq_rule.
    destruct (ty_eqb a b); [discriminate|].
    destruct (trace E a) as [a'|] eqn:Ta; [|discriminate].
    destruct (trace E b) as [b'|] eqn:Tb; [|discriminate].
    destruct (ty_eqb a' b'); [discriminate|].
    pose proof (trace_nodes E ts a a' Ha Ta) as Ha'.
    pose proof (trace_nodes E ts b b' Hb Tb) as Hb'.
    clear Ta Tb Ha Hb a b.
    destruct a' as [pa|xa|ta|ta|fa|fa|aa ra ma|msa|ia ta|], b' as [pb|xb|tb|tb|fb|fb|ab rb mb|msb|ib tb|];
      try discriminate; intros Hv q Hq; unfold inN;
      try (match type of Hv with (if ?c then _ else _) = _ => destruct c; [|discriminate] end);
      try (injection Hv as <-; cbn [In] in Hq;
           repeat match goal with H : _ \/ _ |- _ => destruct H as [H|H] end; try contradiction; subst q; cbn [fst snd];
           split; first [assumption | eapply node_vec; eassumption | eapply node_opt; eassumption | eapply node_class; eassumption
                        | eapply node_class_init; eassumption
                        | eapply node_func_a; eassumption | eapply node_func_r; eassumption ]).
    all: match type of Hv with match ?z with _ => _ end = _ => destruct z as [qs'|] eqn:Hz; [|discriminate] end;
         injection Hv as <-; destruct (zip_fields_In _ _ _ _ Hz q Hq) as (i & j & H1 & H2).
    - split; [exact (node_rec E ts _ _ _ Ha' H1)|exact (node_rec E ts _ _ _ Hb' H2)].
    - split; [exact (node_variant E ts _ _ _ Ha' H1)|exact (node_variant E ts _ _ _ Hb' H2)].
    - split; [exact (node_serv E ts _ _ _ Ha' H1)|exact (node_serv E ts _ _ _ Hb' H2)].
  Qed.
End NodesEq.

Theorem eq_dec_correct E a b : eq_dec E a b = true <-> TyEq E a b.
Proof.
  unfold eq_dec. rewrite (mem_In pair pair_eqb pair_eqb_spec). split.
  - intros Hin. exists (fun p => In p (gfp pair pair_eqb (eq_stepb E) (universe E a b))). split; [exact Hin|].
    intros p Hp. exists (mem pair pair_eqb (gfp pair pair_eqb (eq_stepb E) (universe E a b))). split.
    + intros q Hq. apply (mem_In pair pair_eqb pair_eqb_spec). exact Hq.
    + apply gfp_consistent. exact Hp.
  - intros [R [Hab HR]].
    set (U := universe E a b).
    apply (gfp_greatest pair pair_eqb pair_eqb_spec (eq_stepb E) (eq_stepb_mono E) (fun p => R p /\ In p U) U).
    + intros x [Hx HxU]. split; [exact HxU|].
      destruct (HR x Hx) as [S [HS HF]].
      exists (fun q => S q && mem pair pair_eqb U q). split.
      * intros q Hq. apply andb_true_iff in Hq as [H1 H2]. split; [apply HS, H1|].
        apply (mem_In pair pair_eqb pair_eqb_spec). exact H2.
      * unfold eq_stepb in *. apply apply_rule_local; [|exact HF].
        intros qs Hqs q Hq. apply (mem_In pair pair_eqb pair_eqb_spec). apply in_universe.
        destruct x as [xa xb]. apply in_universe in HxU. destruct HxU as [Hxa Hxb]. cbn [fst snd] in Hxa, Hxb.
        exact (eq_rule_premises E [a; b] xa xb qs Hxa Hxb Hqs q Hq).
    + split; [exact Hab|]. apply in_universe. apply roots_in_nodes.
Qed.

Theorem tyeq_refl E a : TyEq E a a.
Proof.
  exists (fun p => fst p = snd p). split; [reflexivity|].
  intros [x y] Hp. cbn in Hp. subst y. exists (fun _ => false). split; [discriminate|].
  unfold eq_stepb, eq_rule. now rewrite ty_eqb_refl.
Qed.
