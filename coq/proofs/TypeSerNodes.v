(* TypeSerNodes.v -- every key of the type-table builder's map is a node of the input (a sub-term of an argument type or
   of a definition): the side conditions of [enc_header_reads] can be stated on the INPUT instead of the builder's state. *)
From Coq Require Import Lia.
From CandidV Require Import Consts model.Leb model.Hash model.TypeSer proofs.TyProofs proofs.TypeSerProofs.
Open Scope N_scope.

Definition keys_in (nd : list ty) (s : tstate) : Prop := forall t i, tm_find (fst s) t = Some i -> In t nd.

Lemma components_subterms a c : In c (components a) -> In c (subterms a).
Proof.
  destruct a; cbn [components subterms]; intros H; try (destruct H as [<-|[]]; right; apply subterms_self); try contradiction.
  - right. apply in_map_iff in H as [f [<- Hf]]. apply in_flat_map. exists f. split; [exact Hf|apply subterms_self].
  - right. apply in_map_iff in H as [f [<- Hf]]. apply in_flat_map. exists f. split; [exact Hf|apply subterms_self].
  - right. right. right. apply in_or_app. apply in_app_or in H as [H|H]; [left|right]; apply in_flat_map; exists c; split; auto using subterms_self.
  - right. apply in_map_iff in H as [f [<- Hf]]. apply in_flat_map. exists f. split; [exact Hf|apply subterms_self].
Qed.

Lemma actual_nodes E ts t a : In t (nodes E ts) -> actual E t = Some a -> In a (nodes E ts).
Proof.
  intros Hn H. destruct t; cbn [actual] in H; try (injection H as <-; exact Hn). eapply trace_nodes; eauto.
Qed.

Section Keys.
Variable E : env.
Variable ts0 : list ty.
Let nd := nodes E ts0.

Definition keys_ok (bt : tstate -> ty -> option tstate) : Prop :=
  forall s t s', bt s t = Some s' -> keys_in nd s -> In t nd -> keys_in nd s'.

Lemma fold_keys bt : keys_ok bt -> forall cs s s', fold_build bt s cs = Some s' -> keys_in nd s -> (forall c, In c cs -> In c nd) -> keys_in nd s'.
Proof.
  intros Hbt. induction cs as [|c r IH]; cbn [fold_build]; intros s s' H HK Hcs.
  - injection H as <-. exact HK.
  - destruct (bt s c) as [s1|] eqn:Hc; [|discriminate]. eapply IH; [exact H| |intros x Hx; apply Hcs; now right].
    eapply Hbt; eauto. apply Hcs. now left.
Qed.

Lemma build_keys f : keys_ok (build f E).
Proof.
  induction f as [|f IH]; intros s t s' H HK Ht; [discriminate|]. cbn [build] in H.
  destruct (tm_find (fst s) t) as [i|] eqn:Hf; [injection H as <-; exact HK|].
  destruct (actual E t) as [a|] eqn:Ha; [|discriminate].
  destruct (composite a) eqn:Hcomp; [|destruct a; try discriminate; injection H as <-; exact HK].
  assert (H' : match fold_build (build f E) ((t, length (snd s)) :: fst s, snd s ++ [[]]) (components a) with
               | Some s2 => match enc_entry E (fst s2) a with Some buf => Some (fst s2, set_nth (length (snd s)) buf (snd s2)) | None => None end
               | None => None end = Some s') by (destruct a; try discriminate; exact H).
  clear H. destruct (fold_build (build f E) _ (components a)) as [s2|] eqn:Hfold; [|discriminate].
  destruct (enc_entry E (fst s2) a) as [buf|]; [|discriminate]. injection H' as <-.
  assert (Han : In a nd) by (eapply actual_nodes; eauto).
  assert (K2 : keys_in nd s2).
  { eapply fold_keys; [exact IH|exact Hfold| |].
    - intros u i Hu. cbn [fst] in Hu. rewrite tm_find_cons in Hu. destruct (ty_eqb u t) eqn:Eq; [apply ty_eqb_spec in Eq; subst u; exact Ht|eapply HK; eauto].
    - intros c Hc. eapply nodes_closed; [exact Han|]. apply components_subterms, Hc. }
  intros u i Hu. cbn [fst] in Hu. eapply K2; eauto.
Qed.

Theorem build_all_keys s : build_all (build_fuel E ts0) E ([], []) ts0 = Some s -> keys_in nd s.
Proof.
  intros H. unfold build_all in H. eapply fold_keys; [apply build_keys|exact H| |].
  - intros t i Hf. discriminate.
  - intros c Hc. unfold nd, nodes. apply in_or_app. left. apply in_flat_map. exists c. split; [exact Hc|apply subterms_self].
Qed.
End Keys.

(* the read-back theorem with its side condition on the input: every node of (E, ts) respects the grammar's numeric limits *)
Theorem enc_header_reads_input E ts h :
  enc_header E ts = Some h ->
  (forall a, In a (nodes E ts) -> wf_ser a) ->
  (forall s, build_all (build_fuel E ts) E ([], []) ts = Some s -> (Z.of_nat (len s) < 2 ^ 63)%Z) ->
  lenN ts < 2 ^ 64 ->
  exists n es rs,
    length es = n /\ Forall (entry_ok n) es /\ length rs = length ts /\ Forall (idx_ok n) rs /\
    forall rest, read_header_raw (h ++ rest) = Ok (es, rs, rest).
Proof.
  intros H Hwf Hlen Hts. eapply enc_header_reads; eauto.
  intros s Hs. split; [|apply Hlen, Hs].
  intros t i a Hf Ha. apply Hwf. eapply actual_nodes; [|exact Ha]. eapply build_all_keys; eauto.
Qed.

(* the table is no longer than the node list: distinct slots belong to distinct keys, and keys are nodes *)
Lemma table_len_le_nodes E ts s : Inv E s [] -> keys_in (nodes E ts) s -> (len s <= length (nodes E ts))%nat.
Proof.
  intros [HK HC] Hin.
  assert (H : forall n, (n <= len s)%nat -> exists l, length l = n /\ NoDup l /\ incl l (nodes E ts) /\
                                              forall t, In t l -> exists i, (i < n)%nat /\ tm_find (fst s) t = Some i).
  { induction n as [|n IH]; intros Hn.
    - exists []. repeat split; [constructor|intros x []|intros t []].
    - destruct (IH ltac:(lia)) as (l & Hl & Hnd & Hincl & Hidx). destruct (HC n ltac:(lia)) as [t Ht].
      exists (t :: l). split; [cbn; now rewrite Hl|]. split.
      + constructor; [|exact Hnd]. intros Hc. destruct (Hidx _ Hc) as (i & Hi & Hf). rewrite Hf in Ht. injection Ht as ->. lia.
      + split; [intros x [<-|Hx]; [eapply Hin; eauto|apply Hincl, Hx]|].
        intros x [<-|Hx]; [exists n; split; [lia|exact Ht]|]. destruct (Hidx _ Hx) as (i & Hi & Hf). exists i. split; [lia|exact Hf]. }
  destruct (H (len s) (le_n _)) as (l & Hl & Hnd & Hincl & _). rewrite <- Hl. apply NoDup_incl_length; assumption.
Qed.

Theorem enc_header_reads_closed E ts h :
  enc_header E ts = Some h ->
  (forall a, In a (nodes E ts) -> wf_ser a) ->
  (Z.of_nat (length (nodes E ts)) < 2 ^ 63)%Z ->
  lenN ts < 2 ^ 64 ->
  exists n es rs,
    length es = n /\ Forall (entry_ok n) es /\ length rs = length ts /\ Forall (idx_ok n) rs /\
    forall rest, read_header_raw (h ++ rest) = Ok (es, rs, rest).
Proof.
  intros H Hwf Hlen Hts. eapply enc_header_reads_input; eauto.
  intros s Hs. destruct (build_all_inv _ _ _ _ Hs) as [Hinv _].
  pose proof (table_len_le_nodes E ts s Hinv (build_all_keys E ts s Hs)). lia.
Qed.
