(* TypeSerProofs.v -- the type-table builder (model/TypeSer.v) keeps its map and its table consistent:
   indices are allocated densely, never reused, every slot is filled with the entry of the type it was reserved for,
   written against a map that only grows afterwards; hence every table entry is composite, every reference in it is a
   primitive code or an index below the table length, and the header parser of the specification reads the table back. *)
From Coq Require Import Lia.
From CandidV Require Import Consts model.Leb model.Hash model.TypeSer proofs.TyProofs proofs.LebProofs proofs.SlebProofs proofs.WireProofs.
Open Scope N_scope.

(* ---------- the map ---------- *)
Lemma tm_find_cons m t k i : tm_find ((k, i) :: m) t = if ty_eqb t k then Some i else tm_find m t.
Proof. reflexivity. Qed.

Definition len (s : tstate) : nat := length (snd s).

(* s' extends s: the table only grows, keys keep their index, new keys get indices past the old table *)
Definition ext (s s' : tstate) : Prop :=
  (len s <= len s')%nat /\
  (forall t i, tm_find (fst s) t = Some i -> tm_find (fst s') t = Some i) /\
  (forall t i, tm_find (fst s') t = Some i -> tm_find (fst s) t = None -> (len s <= i)%nat) /\
  (forall i, (i < len s)%nat -> nth_error (snd s') i = nth_error (snd s) i).

Lemma ext_refl s : ext s s.
Proof. repeat split; auto. intros t i H H0. congruence. Qed.

Lemma ext_trans a b c : ext a b -> ext b c -> ext a c.
Proof.
  intros (L1 & K1 & F1 & T1) (L2 & K2 & F2 & T2). repeat split.
  - lia.
  - auto.
  - intros t i Hc Ha. destruct (tm_find (fst b) t) as [j|] eqn:Hb.
    + specialize (K2 _ _ Hb). rewrite K2 in Hc. injection Hc as <-. eapply F1; eauto.
    + specialize (F2 _ _ Hc Hb). lia.
  - intros i Hi. rewrite T2 by lia. apply T1, Hi.
Qed.

(* ---------- references are stable under extension ---------- *)
Lemma enc_ref_ext E s s' t bs : ext s s' -> enc_ref E (fst s) t = Some bs -> enc_ref E (fst s') t = Some bs.
Proof.
  intros (_ & K & _ & _) H.
  assert (Hm : forall u, option_map enc_idx (tm_find (fst s) u) = Some bs -> option_map enc_idx (tm_find (fst s') u) = Some bs).
  { intros u Hu. destruct (tm_find (fst s) u) as [i|] eqn:Hf; [|discriminate]. now rewrite (K _ _ Hf). }
  destruct t; cbn [enc_ref] in *; auto.
  destruct (trace E (TVar x)) as [a|]; [|exact H]. destruct a; auto.
Qed.

Lemma enc_refs_ext E s s' ts : ext s s' -> forall bs, enc_refs E (fst s) ts = Some bs -> enc_refs E (fst s') ts = Some bs.
Proof.
  intros He. induction ts as [|t r IH]; cbn [enc_refs]; intros bs H; [exact H|].
  destruct (enc_ref E (fst s) t) as [a|] eqn:Ha; [|discriminate]. destruct (enc_refs E (fst s) r) as [b|] eqn:Hb; [|discriminate].
  now rewrite (enc_ref_ext _ _ _ _ _ He Ha), (IH _ eq_refl).
Qed.
Lemma enc_fields_ext E s s' fs : ext s s' -> forall bs, enc_fields E (fst s) fs = Some bs -> enc_fields E (fst s') fs = Some bs.
Proof.
  intros He. induction fs as [|[i t] r IH]; cbn [enc_fields]; intros bs H; [exact H|].
  destruct (enc_ref E (fst s) t) as [a|] eqn:Ha; [|discriminate]. destruct (enc_fields E (fst s) r) as [b|] eqn:Hb; [|discriminate].
  now rewrite (enc_ref_ext _ _ _ _ _ He Ha), (IH _ eq_refl).
Qed.
Lemma enc_meths_ext E s s' ms : ext s s' -> forall bs, enc_meths E (fst s) ms = Some bs -> enc_meths E (fst s') ms = Some bs.
Proof.
  intros He. induction ms as [|[i t] r IH]; cbn [enc_meths]; intros bs H; [exact H|].
  destruct (enc_ref E (fst s) t) as [a|] eqn:Ha; [|discriminate]. destruct (enc_meths E (fst s) r) as [b|] eqn:Hb; [|discriminate].
  now rewrite (enc_ref_ext _ _ _ _ _ He Ha), (IH _ eq_refl).
Qed.
Lemma enc_entry_ext E s s' a bs : ext s s' -> enc_entry E (fst s) a = Some bs -> enc_entry E (fst s') a = Some bs.
Proof.
  intros He H. destruct a; cbn [enc_entry] in *; try discriminate.
  - destruct (enc_ref E (fst s) a) eqn:Hr; [|discriminate]. now rewrite (enc_ref_ext _ _ _ _ _ He Hr).
  - destruct (enc_ref E (fst s) a) eqn:Hr; [|discriminate]. now rewrite (enc_ref_ext _ _ _ _ _ He Hr).
  - destruct (enc_fields E (fst s) fs) eqn:Hr; [|discriminate]. now rewrite (enc_fields_ext _ _ _ _ He _ Hr).
  - destruct (enc_fields E (fst s) fs) eqn:Hr; [|discriminate]. now rewrite (enc_fields_ext _ _ _ _ He _ Hr).
  - destruct (enc_refs E (fst s) args) eqn:Ha; [|discriminate]. destruct (enc_refs E (fst s) rets) eqn:Hr; [|discriminate].
    now rewrite (enc_refs_ext _ _ _ _ He _ Ha), (enc_refs_ext _ _ _ _ He _ Hr).
  - destruct (enc_meths E (fst s) ms) eqn:Hr; [|discriminate]. now rewrite (enc_meths_ext _ _ _ _ He _ Hr).
Qed.

(* ---------- set_nth ---------- *)
Lemma set_nth_length {A} (x : A) l : forall n, length (set_nth n x l) = length l.
Proof. induction l as [|y r IH]; intros [|n]; cbn; auto. Qed.
Lemma set_nth_other {A} (x : A) l : forall n i, i <> n -> nth_error (set_nth n x l) i = nth_error l i.
Proof.
  induction l as [|y r IH]; intros [|n] [|i] Hne; cbn; auto; try congruence.
Qed.
Lemma set_nth_same {A} (x : A) l : forall n, (n < length l)%nat -> nth_error (set_nth n x l) n = Some x.
Proof. induction l as [|y r IH]; intros [|n] Hn; cbn in *; try lia; auto. apply IH. lia. Qed.

(* ---------- the invariant ---------- *)
(* slot i holds the finished entry of key t, written against the current map *)
Definition finished (E : env) (s : tstate) (t : ty) (i : nat) : Prop :=
  exists a buf, actual E t = Some a /\ composite a = true /\ enc_entry E (fst s) a = Some buf /\ nth_error (snd s) i = Some buf.

(* P: the slots reserved but not yet filled (the types under construction) *)
Definition Inv (E : env) (s : tstate) (P : list nat) : Prop :=
  (forall t i, tm_find (fst s) t = Some i -> (i < len s)%nat /\ (In i P \/ finished E s t i)) /\
  (forall i, (i < len s)%nat -> exists t, tm_find (fst s) t = Some i).

Lemma finished_ext E s s' t i : ext s s' -> (i < len s)%nat -> finished E s t i -> finished E s' t i.
Proof.
  intros He Hi (a & buf & Ha & Hc & He' & Hn). exists a, buf. repeat split; auto.
  - eapply enc_entry_ext; eauto.
  - destruct He as (_ & _ & _ & T). now rewrite T.
Qed.

(* what one call establishes about its argument: afterwards it can be referred to *)
Definition referable (E : env) (s : tstate) (t : ty) : Prop :=
  (exists i, tm_find (fst s) t = Some i) \/ (exists p, actual E t = Some (TPrim p)).

Section Build.
Variable E : env.

Definition build_ok (bt : tstate -> ty -> option tstate) : Prop :=
  forall s t s' P, bt s t = Some s' -> Inv E s P -> Inv E s' P /\ ext s s' /\ referable E s' t.

Lemma fold_build_ok bt : build_ok bt -> forall cs s s' P, fold_build bt s cs = Some s' -> Inv E s P ->
  Inv E s' P /\ ext s s' /\ Forall (referable E s') cs.
Proof.
  intros Hbt. induction cs as [|c r IH]; cbn [fold_build]; intros s s' P H HI.
  - injection H as <-. split; [exact HI|split; [apply ext_refl|constructor]].
  - destruct (bt s c) as [s1|] eqn:Hc; [|discriminate].
    destruct (Hbt _ _ _ _ Hc HI) as (I1 & E1 & R1). destruct (IH _ _ _ H I1) as (I2 & E2 & R2).
    split; [exact I2|]. split; [eapply ext_trans; eauto|]. constructor; [|exact R2].
    destruct R1 as [[i Hi]|Hp]; [left|right; exact Hp]. exists i. destruct E2 as (_ & K & _). auto.
Qed.

Lemma build_is_ok f : build_ok (build f E).
Proof.
  induction f as [|f IH]; intros s t s' P H HI; [discriminate|]. cbn [build] in H.
  destruct (tm_find (fst s) t) as [i|] eqn:Hf.
  { injection H as <-. split; [exact HI|split; [apply ext_refl|left; eauto]]. }
  destruct (actual E t) as [a|] eqn:Ha; [|discriminate].
  assert (Hprim : forall p, a = TPrim p -> Some s = Some s' -> Inv E s' P /\ ext s s' /\ referable E s' t).
  { intros p -> Hs. injection Hs as <-. split; [exact HI|split; [apply ext_refl|right; eauto]]. }
  destruct (composite a) eqn:Hcomp; [|destruct a; try discriminate; eapply Hprim; eauto].
  assert (H' : match fold_build (build f E) ((t, length (snd s)) :: fst s, snd s ++ [[]]) (components a) with
               | Some s2 => match enc_entry E (fst s2) a with Some buf => Some (fst s2, set_nth (length (snd s)) buf (snd s2)) | None => None end
               | None => None end = Some s') by (destruct a; try discriminate; exact H).
  clear H Hprim. set (idx := length (snd s)) in *. set (s1 := ((t, idx) :: fst s, snd s ++ [[]]) : tstate) in *.
  destruct (fold_build (build f E) s1 (components a)) as [s2|] eqn:Hfold; [|discriminate].
  destruct (enc_entry E (fst s2) a) as [buf|] eqn:Hbuf; [|discriminate]. injection H' as <-.
  destruct HI as [HK HC].
  (* s1 extends s *)
  assert (E01 : ext s s1).
  { unfold ext, len, s1; cbn [fst snd]. rewrite app_length; cbn [length]. repeat split.
    - lia.
    - intros u i Hu. rewrite tm_find_cons. destruct (ty_eqb u t) eqn:Eq; [|exact Hu].
      apply ty_eqb_spec in Eq. subst u. congruence.
    - intros u i Hu Hn. rewrite tm_find_cons in Hu. destruct (ty_eqb u t); [injection Hu as <-; fold idx; lia|congruence].
    - intros i Hi. now rewrite nth_error_app1. }
  assert (I1 : Inv E s1 (idx :: P)).
  { split.
    - intros u i Hu. unfold s1 in Hu; cbn [fst] in Hu. rewrite tm_find_cons in Hu. destruct (ty_eqb u t) eqn:Eq.
      + injection Hu as <-. split; [unfold len, s1; cbn [snd]; rewrite app_length; cbn; fold idx; lia|left; now left].
      + destruct (HK _ _ Hu) as [Hl Hd]. split; [destruct E01 as (L & _); unfold len in *; lia|].
        destruct Hd as [Hp|Hfin]; [left; now right|right]. eapply finished_ext; eauto.
    - intros i Hi. unfold len, s1 in Hi; cbn [snd] in Hi. rewrite app_length in Hi; cbn in Hi.
      destruct (Nat.eq_dec i idx) as [->|Hne].
      + exists t. unfold s1; cbn [fst]. rewrite tm_find_cons, ty_eqb_refl. reflexivity.
      + assert (Hlt : (i < len s)%nat) by (unfold len; fold idx; lia). destruct (HC _ Hlt) as [u Hu]. exists u.
        destruct E01 as (_ & K & _). apply K, Hu. }
  destruct (fold_build_ok _ IH _ _ _ _ Hfold I1) as (I2 & E12 & _).
  set (s3 := (fst s2, set_nth idx buf (snd s2)) : tstate).
  assert (Hlen3 : len s3 = len s2) by (unfold len, s3; cbn [snd]; apply set_nth_length).
  assert (Hidx2 : (idx < len s2)%nat).
  { destruct E12 as (L & _). unfold len, s1 in L; cbn [snd] in L. rewrite app_length in L; cbn in L. fold idx in L. unfold len. lia. }
  assert (E23 : forall i, i <> idx -> nth_error (snd s3) i = nth_error (snd s2) i) by (intros i Hi; apply set_nth_other, Hi).
  (* the only key with index idx is t *)
  assert (Huniq : forall u, tm_find (fst s2) u = Some idx -> u = t).
  { intros u Hu. destruct (tm_find (fst s1) u) as [j|] eqn:H1.
    - destruct E12 as (_ & K & _). rewrite (K _ _ H1) in Hu. injection Hu as ->.
      unfold s1 in H1; cbn [fst] in H1. rewrite tm_find_cons in H1. destruct (ty_eqb u t) eqn:Eq; [now apply ty_eqb_spec|].
      destruct (HK _ _ H1) as [Hl _]. unfold len in Hl. fold idx in Hl. lia.
    - destruct E12 as (_ & _ & F & _). specialize (F _ _ Hu H1). unfold len, s1 in F; cbn [snd] in F.
      rewrite app_length in F; cbn in F. fold idx in F. lia. }
  assert (E02 : ext s s2) by (eapply ext_trans; eauto).
  assert (E03 : ext s s3).
  { destruct E02 as (L & K & F & T). unfold ext. rewrite Hlen3. repeat split; auto.
    intros i Hi. rewrite E23 by (unfold len in Hi; fold idx in Hi; lia). apply T, Hi. }
  split; [|split; [exact E03|]].
  - destruct I2 as [HK2 HC2]. split.
    + intros u i Hu. change (fst s3) with (fst s2) in Hu. destruct (HK2 _ _ Hu) as [Hl Hd]. rewrite Hlen3. split; [exact Hl|].
      destruct (Nat.eq_dec i idx) as [->|Hne].
      * right. rewrite (Huniq _ Hu). exists a, buf. repeat split; auto. unfold s3; cbn [snd]. apply set_nth_same. exact Hidx2.
      * destruct Hd as [[Hp|Hp]|Hfin]; [congruence|left; exact Hp|right].
        destruct Hfin as (a' & buf' & Ha' & Hc' & He' & Hn'). exists a', buf'. repeat split; auto. now rewrite E23.
    + intros i Hi. rewrite Hlen3 in Hi. exact (HC2 _ Hi).
  - left. exists idx. change (fst s3) with (fst s2). destruct E12 as (_ & K & _). apply K.
    unfold s1; cbn [fst]. now rewrite tm_find_cons, ty_eqb_refl.
Qed.
End Build.

Theorem build_all_inv E f ts s : build_all f E ([], []) ts = Some s -> Inv E s [] /\ Forall (referable E s) ts.
Proof.
  intros H. unfold build_all in H.
  assert (I0 : Inv E ([], []) []).
  { split; [intros t i Hf; discriminate|intros i Hi; unfold len in Hi; cbn in Hi; lia]. }
  destruct (fold_build_ok E _ (build_is_ok E f) _ _ _ _ H I0) as (I & _ & R). split; assumption.
Qed.

(* ---------- reading the numbers back ---------- *)
Lemma read_i64_enc z rest : (- 2 ^ 63 <= z < 2 ^ 63)%Z -> read_i64 (enc_s z ++ rest) = Ok (z, rest).
Proof.
  intros H. unfold read_i64. rewrite split_leb_app by apply enc_s_terminated. rewrite enc_s_value.
  assert (Hl : (length (enc_s z) <= 10)%nat).
  { unfold enc_s. apply (enc_s_fuel_length _ z 9); [apply enc_s_fuel_ok|].
    unfold srange. change (64 * 128 ^ Z.of_nat 9)%Z with (2 ^ 69)%Z. split; [|eapply Z.lt_le_trans; [apply H|]].
    - apply Z.le_trans with (- 2 ^ 63)%Z; [|apply H]. apply -> Z.opp_le_mono. apply Z.pow_le_mono_r; lia.
    - apply Z.pow_le_mono_r; lia. }
  assert (E1 : N.of_nat (length (enc_s z)) <=? 10 = true) by (apply N.leb_le; lia).
  assert (E2 : (- 2 ^ 63 <=? z)%Z = true) by (apply Z.leb_le; lia).
  assert (E3 : (z <? 2 ^ 63)%Z = true) by (apply Z.ltb_lt; lia).
  now rewrite E1, E2, E3.
Qed.

Lemma prim_code_inv p : prim_of_code (prim_code p) = Some p /\ 0 < prim_code p < 64.
Proof. destruct p; vm_compute; repeat split; reflexivity. Qed.

Lemma read_index_code p rest : read_index (enc_code (prim_code p) ++ rest) = Ok (RPrim p, rest).
Proof.
  destruct (prim_code_inv p) as [Hp [H0 H1]]. unfold read_index, enc_code.
  rewrite read_i64_enc by (split; [apply Z.le_trans with (- 64)%Z; [vm_compute; discriminate|lia]|lia]).
  cbn [bind fst snd].
  assert (E1 : (0 <=? - Z.of_N (prim_code p))%Z = false) by (apply Z.leb_gt; lia). rewrite E1.
  rewrite Z.opp_involutive, N2Z.id, Hp. reflexivity.
Qed.

Lemma read_index_idx i rest : (Z.of_nat i < 2 ^ 63)%Z -> read_index (enc_idx i ++ rest) = Ok (RIdx (N.of_nat i), rest).
Proof.
  intros H. unfold read_index, enc_idx. rewrite read_i64_enc by lia. cbn [bind fst snd].
  assert (E1 : (0 <=? Z.of_nat i)%Z = true) by (apply Z.leb_le; lia). rewrite E1.
  now rewrite <- nat_N_Z, N2Z.id.
Qed.

(* ---------- the raw reference a written reference denotes ---------- *)
Definition idx_ok (bound : nat) (r : rawty) : Prop := match r with RPrim _ => True | RIdx i => i < N.of_nat bound end.

Section Read.
Variable E : env.
Variable s : tstate.
Hypothesis Hinv : Inv E s [].
Hypothesis Hsmall : (Z.of_nat (len s) < 2 ^ 63)%Z.

Lemma enc_ref_read t bs : enc_ref E (fst s) t = Some bs ->
  exists r, idx_ok (len s) r /\ forall rest, read_index (bs ++ rest) = Ok (r, rest).
Proof.
  intros H.
  assert (Hidx : forall u, option_map enc_idx (tm_find (fst s) u) = Some bs ->
                 exists r, idx_ok (len s) r /\ forall rest, read_index (bs ++ rest) = Ok (r, rest)).
  { intros u Hu. destruct (tm_find (fst s) u) as [i|] eqn:Hf; [|discriminate]. injection Hu as <-.
    destruct Hinv as [HK _]. destruct (HK _ _ Hf) as [Hl _]. exists (RIdx (N.of_nat i)). split; [cbn; lia|].
    intros rest. apply read_index_idx. lia. }
  assert (Hprim : forall p, Some (enc_code (prim_code p)) = Some bs ->
                  exists r, idx_ok (len s) r /\ forall rest, read_index (bs ++ rest) = Ok (r, rest)).
  { intros p Hp. injection Hp as <-. exists (RPrim p). split; [exact I|]. intros rest. apply read_index_code. }
  destruct t; cbn [enc_ref] in H; eauto; try discriminate.
  destruct (trace E (TVar x)) as [a|]; [|discriminate]. destruct a; eauto; discriminate.
Qed.

Lemma enc_refs_read ts : forall bs, enc_refs E (fst s) ts = Some bs ->
  exists rs, Forall (idx_ok (len s)) rs /\ length rs = length ts /\
             forall rest, read_n read_index (length ts) (bs ++ rest) = Ok (rs, rest).
Proof.
  induction ts as [|t r IH]; cbn [enc_refs]; intros bs H.
  - injection H as <-. exists []. repeat split; auto.
  - destruct (enc_ref E (fst s) t) as [a|] eqn:Ha; [|discriminate]. destruct (enc_refs E (fst s) r) as [b|] eqn:Hb; [|discriminate].
    injection H as <-. destruct (enc_ref_read _ _ Ha) as (x & Hx & Rx). destruct (IH _ eq_refl) as (rs & Hrs & Hl & Rrs).
    exists (x :: rs). split; [constructor; assumption|]. split; [cbn; now rewrite Hl|].
    intros rest. cbn [length read_n]. rewrite <- app_assoc, Rx. cbn [bind fst snd]. rewrite Rrs. reflexivity.
Qed.
End Read.

(* ---------- counts ---------- *)
Lemma term_len bs : terminated bs = true -> (1 <= length bs)%nat.
Proof. destruct bs; [discriminate|cbn; lia]. Qed.
Lemma enc_u_len1 n : (1 <= length (enc_u n))%nat. Proof. apply term_len, enc_u_terminated. Qed.
Lemma enc_s_len1 z : (1 <= length (enc_s z))%nat. Proof. apply term_len, enc_s_terminated. Qed.

Lemma read_nN_ok {A} (rd : list N -> res (A * list N)) k bs : (k <= length bs)%nat -> read_nN rd (N.of_nat k) bs = read_n rd k bs.
Proof.
  intros H. unfold read_nN. assert (E1 : N.of_nat (length bs) <? N.of_nat k = false) by (apply N.ltb_ge; lia).
  now rewrite E1, Nat2N.id.
Qed.

Lemma enc_ref_len E m t bs : enc_ref E m t = Some bs -> (1 <= length bs)%nat.
Proof.
  assert (Hi : forall u, option_map enc_idx (tm_find m u) = Some bs -> (1 <= length bs)%nat).
  { intros u Hu. destruct (tm_find m u); [|discriminate]. injection Hu as <-. apply enc_s_len1. }
  assert (Hp : forall p, Some (enc_code (prim_code p)) = Some bs -> (1 <= length bs)%nat).
  { intros p Hq. injection Hq as <-. apply enc_s_len1. }
  intros H. destruct t; cbn [enc_ref] in H; eauto; try discriminate.
  destruct (trace E (TVar x)) as [a|]; [|discriminate]. destruct a; eauto; discriminate.
Qed.
Lemma enc_refs_len E m ts : forall bs, enc_refs E m ts = Some bs -> (length ts <= length bs)%nat.
Proof.
  induction ts as [|t r IH]; cbn [enc_refs]; intros bs H; [cbn; lia|].
  destruct (enc_ref E m t) as [a|] eqn:Ha; [|discriminate]. destruct (enc_refs E m r) as [b|] eqn:Hb; [|discriminate].
  injection H as <-. rewrite app_length. cbn [length]. pose proof (enc_ref_len _ _ _ _ Ha). pose proof (IH _ eq_refl). lia.
Qed.
Lemma enc_fields_len E m fs : forall bs, enc_fields E m fs = Some bs -> (length fs <= length bs)%nat.
Proof.
  induction fs as [|[i t] r IH]; cbn [enc_fields]; intros bs H; [cbn; lia|].
  destruct (enc_ref E m t) as [a|] eqn:Ha; [|discriminate]. destruct (enc_fields E m r) as [b|] eqn:Hb; [|discriminate].
  injection H as <-. rewrite !app_length. cbn [length]. pose proof (enc_u_len1 i). pose proof (IH _ eq_refl). lia.
Qed.
Lemma enc_meths_len E m ms : forall bs, enc_meths E m ms = Some bs -> (length ms <= length bs)%nat.
Proof.
  induction ms as [|[i t] r IH]; cbn [enc_meths]; intros bs H; [cbn; lia|].
  destruct (enc_ref E m t) as [a|] eqn:Ha; [|discriminate]. destruct (enc_meths E m r) as [b|] eqn:Hb; [|discriminate].
  injection H as <-. rewrite !app_length. cbn [length]. pose proof (enc_u_len1 (N.of_nat (length i))). pose proof (IH _ eq_refl). lia.
Qed.

(* ---------- what the builder can write so that the parser's numeric limits are met ---------- *)
Definition wf_ser (a : ty) : Prop :=
  match a with
  | TRec fs | TVariant fs => lenN fs < 2 ^ 32 /\ Forall (fun f => fst f < 2 ^ 32) fs
  | TFunc args rets modes => lenN args < 2 ^ 64 /\ lenN rets < 2 ^ 64 /\ (modes = [] \/ modes = [1] \/ modes = [2] \/ modes = [3])
  | TServ ms => lenN ms < 2 ^ 64 /\ Forall (fun m => utf8_valid (fst m) = true /\ lenN (fst m) < 2 ^ 64) ms
  | _ => True
  end.

Definition entry_ok (bound : nat) (e : rawentry) : Prop :=
  match e with
  | EOpt r | EVec r => idx_ok bound r
  | ERec fs | EVariant fs => Forall (fun f => idx_ok bound (snd f)) fs
  | EFunc a r _ => Forall (idx_ok bound) a /\ Forall (idx_ok bound) r
  | EServ ms => Forall (fun f => idx_ok bound (snd f)) ms
  | EFuture => False
  end.

Section ReadEntry.
Variable E : env.
Variable s : tstate.
Hypothesis Hinv : Inv E s [].
Hypothesis Hsmall : (Z.of_nat (len s) < 2 ^ 63)%Z.

Lemma enc_fields_read fs : Forall (fun f => fst f < 2 ^ 32) fs -> forall bs, enc_fields E (fst s) fs = Some bs ->
  exists rs, Forall (fun f => idx_ok (len s) (snd f)) rs /\ map fst rs = map fst fs /\
             forall rest, read_n read_field (length fs) (bs ++ rest) = Ok (rs, rest).
Proof.
  induction fs as [|[i t] r IH]; cbn [enc_fields]; intros Hid bs H.
  - injection H as <-. exists []. repeat split; auto.
  - destruct (enc_ref E (fst s) t) as [a|] eqn:Ha; [|discriminate]. destruct (enc_fields E (fst s) r) as [b|] eqn:Hb; [|discriminate].
    injection H as <-. inversion Hid as [|? ? Hi Hr]; subst. cbn [fst] in Hi.
    destruct (enc_ref_read E s Hinv Hsmall _ _ Ha) as (x & Hx & Rx). destruct (IH Hr _ eq_refl) as (rs & Hrs & Hm & Rrs).
    exists ((i, x) :: rs). split; [constructor; assumption|]. split; [cbn; now rewrite Hm|].
    intros rest. cbn [length read_n]. unfold read_field at 1, read_u32. rewrite <- !app_assoc.
    rewrite read_u64_enc by (eapply N.lt_trans; [exact Hi|reflexivity]). cbn [bind fst snd].
    assert (E1 : i <? 2 ^ 32 = true) by (apply N.ltb_lt; exact Hi). rewrite E1. cbn [bind fst snd].
    rewrite Rx. cbn [bind fst snd]. rewrite Rrs. reflexivity.
Qed.

Lemma enc_meths_read ms : Forall (fun m => utf8_valid (fst m) = true /\ lenN (fst m) < 2 ^ 64) ms ->
  forall bs, enc_meths E (fst s) ms = Some bs ->
  exists rs, Forall (fun f => idx_ok (len s) (snd f)) rs /\ map fst rs = map fst ms /\
             forall rest, read_n read_meth (length ms) (bs ++ rest) = Ok (rs, rest).
Proof.
  induction ms as [|[n t] r IH]; cbn [enc_meths]; intros Hid bs H.
  - injection H as <-. exists []. repeat split; auto.
  - destruct (enc_ref E (fst s) t) as [a|] eqn:Ha; [|discriminate]. destruct (enc_meths E (fst s) r) as [b|] eqn:Hb; [|discriminate].
    injection H as <-. inversion Hid as [|? ? [Hu Hl] Hr]; subst. cbn [fst] in Hu, Hl.
    destruct (enc_ref_read E s Hinv Hsmall _ _ Ha) as (x & Hx & Rx). destruct (IH Hr _ eq_refl) as (rs & Hrs & Hm & Rrs).
    exists ((n, x) :: rs). split; [constructor; assumption|]. split; [cbn; now rewrite Hm|].
    intros rest. cbn [length read_n]. unfold read_meth at 1, read_count. rewrite <- !app_assoc.
    rewrite read_u64_enc by exact Hl. cbn [bind fst snd]. rewrite take_bytes_app. cbn [bind fst snd]. rewrite Hu.
    rewrite Rx. cbn [bind fst snd]. rewrite Rrs. reflexivity.
Qed.
End ReadEntry.

Lemma enc_code_byte c : 0 < c < 64 -> enc_code c = [128 - c].
Proof.
  intros H. assert (Hc : c = 1 \/ c = 2 \/ exists k, c = k + 3 /\ k < 61) by (destruct (N.eq_dec c 1); [auto|destruct (N.eq_dec c 2); [auto|right; right; exists (c - 3); lia]]).
  assert (forall k, (k < 64)%nat -> (0 < k)%nat -> enc_code (N.of_nat k) = [128 - N.of_nat k]).
  { clear. intros k Hk H0. do 64 (destruct k as [|k]; [try lia; vm_compute; reflexivity|]). lia. }
  rewrite <- (N2Nat.id c). apply H0; lia.
Qed.

Lemma enc_mode_byte md : md = 1 \/ md = 2 \/ md = 3 -> enc_s (Z.of_N md) = [md].
Proof. intros [->|[->| ->]]; vm_compute; reflexivity. Qed.

Lemma op_codes : op_opt = 18 /\ op_vec = 19 /\ op_record = 20 /\ op_variant = 21 /\ op_func = 22 /\ op_service = 23.
Proof. vm_compute. repeat split; reflexivity. Qed.

Lemma some_inj {A} (x y : A) : Some x = Some y -> x = y.
Proof. congruence. Qed.

Section ReadEntry2.
Variable E : env.
Variable s : tstate.
Hypothesis Hinv : Inv E s [].
Hypothesis Hsmall : (Z.of_nat (len s) < 2 ^ 63)%Z.

Lemma enc_entry_read a buf : composite a = true -> wf_ser a -> enc_entry E (fst s) a = Some buf ->
  exists e, entry_ok (len s) e /\ forall rest, read_entry (buf ++ rest) = Ok (e, rest).
Proof.
  destruct op_codes as (O1 & O2 & O3 & O4 & O5 & O6).
  intros Hc Hwf H. destruct a; try discriminate; cbn [enc_entry wf_ser] in *.
  - destruct (enc_ref E (fst s) a) as [r|] eqn:Hr; [|discriminate]. cbn [option_map] in H. apply some_inj in H. subst buf.
    destruct (enc_ref_read E s Hinv Hsmall _ _ Hr) as (x & Hx & Rx). exists (EOpt x). split; [exact Hx|]. intros rest.
    rewrite enc_code_byte by (rewrite O1; lia). cbn [app read_entry]. rewrite O1.
    change (128 - 18 =? 128 - 18) with true. cbv iota. rewrite Rx. reflexivity.
  - destruct (enc_ref E (fst s) a) as [r|] eqn:Hr; [|discriminate]. cbn [option_map] in H. apply some_inj in H. subst buf.
    destruct (enc_ref_read E s Hinv Hsmall _ _ Hr) as (x & Hx & Rx). exists (EVec x). split; [exact Hx|]. intros rest.
    rewrite enc_code_byte by (rewrite O2; lia). cbn [app read_entry]. rewrite O1, O2.
    change (128 - 19 =? 128 - 18) with false. change (128 - 19 =? 128 - 19) with true. cbv iota. rewrite Rx. reflexivity.
  - destruct (enc_fields E (fst s) fs) as [r|] eqn:Hr; [|discriminate]. cbn [option_map] in H. apply some_inj in H. subst buf. destruct Hwf as [Hl Hid].
    destruct (enc_fields_read E s Hinv Hsmall _ Hid _ Hr) as (x & Hx & _ & Rx). exists (ERec x). split; [exact Hx|]. intros rest.
    rewrite enc_code_byte by (rewrite O3; lia). cbn [app read_entry]. rewrite O1, O2, O3.
    change (128 - 20 =? 128 - 18) with false. change (128 - 20 =? 128 - 19) with false. change (128 - 20 =? 128 - 20) with true. cbv iota.
    unfold read_fields, read_u32. rewrite <- app_assoc. rewrite read_u64_enc by (eapply N.lt_trans; [exact Hl|reflexivity]). cbn [bind fst snd].
    assert (E1 : lenN fs <? 2 ^ 32 = true) by (apply N.ltb_lt; exact Hl). rewrite E1. cbn [bind fst snd].
    unfold lenN. rewrite read_nN_ok by (rewrite app_length; pose proof (enc_fields_len _ _ _ _ Hr); lia). rewrite Rx. reflexivity.
  - destruct (enc_fields E (fst s) fs) as [r|] eqn:Hr; [|discriminate]. cbn [option_map] in H. apply some_inj in H. subst buf. destruct Hwf as [Hl Hid].
    destruct (enc_fields_read E s Hinv Hsmall _ Hid _ Hr) as (x & Hx & _ & Rx). exists (EVariant x). split; [exact Hx|]. intros rest.
    rewrite enc_code_byte by (rewrite O4; lia). cbn [app read_entry]. rewrite O1, O2, O3, O4.
    change (128 - 21 =? 128 - 18) with false. change (128 - 21 =? 128 - 19) with false. change (128 - 21 =? 128 - 20) with false.
    change (128 - 21 =? 128 - 21) with true. cbv iota.
    unfold read_fields, read_u32. rewrite <- app_assoc. rewrite read_u64_enc by (eapply N.lt_trans; [exact Hl|reflexivity]). cbn [bind fst snd].
    assert (E1 : lenN fs <? 2 ^ 32 = true) by (apply N.ltb_lt; exact Hl). rewrite E1. cbn [bind fst snd].
    unfold lenN. rewrite read_nN_ok by (rewrite app_length; pose proof (enc_fields_len _ _ _ _ Hr); lia). rewrite Rx. reflexivity.
  - destruct (enc_refs E (fst s) args) as [ra|] eqn:Ha; [|discriminate]. destruct (enc_refs E (fst s) rets) as [rr|] eqn:Hr; [|discriminate].
    apply some_inj in H. subst buf. destruct Hwf as (Hla & Hlr & Hm).
    destruct (enc_refs_read E s Hinv Hsmall _ _ Ha) as (xa & Hxa & _ & Rxa). destruct (enc_refs_read E s Hinv Hsmall _ _ Hr) as (xr & Hxr & _ & Rxr).
    exists (EFunc xa xr modes). split; [split; assumption|]. intros rest.
    rewrite enc_code_byte by (rewrite O5; lia). cbn [app read_entry]. rewrite O1, O2, O3, O4, O5.
    change (128 - 22 =? 128 - 18) with false. change (128 - 22 =? 128 - 19) with false. change (128 - 22 =? 128 - 20) with false.
    change (128 - 22 =? 128 - 21) with false. change (128 - 22 =? 128 - 22) with true. cbv iota.
    unfold read_count. rewrite <- !app_assoc. rewrite read_u64_enc by exact Hla. cbn [bind fst snd].
    unfold lenN at 1. rewrite read_nN_ok by (rewrite app_length; pose proof (enc_refs_len _ _ _ _ Ha); lia). rewrite Rxa. cbn [bind fst snd].
    rewrite read_u64_enc by exact Hlr. cbn [bind fst snd].
    unfold lenN at 1. rewrite read_nN_ok by (rewrite app_length; pose proof (enc_refs_len _ _ _ _ Hr); lia). rewrite Rxr. cbn [bind fst snd].
    destruct Hm as [->|[->|[->| ->]]]; vm_compute; reflexivity.
  - destruct (enc_meths E (fst s) ms) as [r|] eqn:Hr; [|discriminate]. cbn [option_map] in H. apply some_inj in H. subst buf. destruct Hwf as [Hl Hid].
    destruct (enc_meths_read E s Hinv Hsmall _ Hid _ Hr) as (x & Hx & _ & Rx). exists (EServ x). split; [exact Hx|]. intros rest.
    rewrite enc_code_byte by (rewrite O6; lia). cbn [app read_entry]. rewrite O1, O2, O3, O4, O5, O6.
    change (128 - 23 =? 128 - 18) with false. change (128 - 23 =? 128 - 19) with false. change (128 - 23 =? 128 - 20) with false.
    change (128 - 23 =? 128 - 21) with false. change (128 - 23 =? 128 - 22) with false. change (128 - 23 =? 128 - 23) with true. cbv iota.
    unfold read_count. rewrite <- app_assoc. rewrite read_u64_enc by exact Hl. cbn [bind fst snd].
    unfold lenN. rewrite read_nN_ok by (rewrite app_length; pose proof (enc_meths_len _ _ _ _ Hr); lia). rewrite Rx. reflexivity.
Qed.
End ReadEntry2.

(* ---------- the whole table ---------- *)
Lemma read_n_concat {A} (rd : list N -> res (A * list N)) (P : A -> Prop) (l : list (list N)) :
  Forall (fun buf => exists e, P e /\ forall rest, rd (buf ++ rest) = Ok (e, rest)) l ->
  exists es, Forall P es /\ length es = length l /\ forall rest, read_n rd (length l) (concat l ++ rest) = Ok (es, rest).
Proof.
  induction 1 as [|buf l (e & He & Re) _ (es & Hes & Hl & Res)].
  - exists []. repeat split; auto.
  - exists (e :: es). split; [constructor; assumption|]. split; [cbn; now rewrite Hl|].
    intros rest. cbn [length concat read_n]. rewrite <- app_assoc, Re. cbn [bind fst snd]. rewrite Res. reflexivity.
Qed.

(* the header up to (not including) the conversion of the raw table: magic is handled by the caller *)
Definition read_header_raw (bs : list N) : res (list rawentry * list rawty * list N) :=
  do n <- read_u64 bs;
  do es <- read_nN read_entry (fst n) (snd n);
  do na <- read_count (snd es);
  do args <- read_nN read_index (fst na) (snd na);
  Ok (fst es, fst args, snd args).

(* every key of the final map stands for a type the parser's numeric limits allow *)
Definition keys_wf (E : env) (s : tstate) : Prop :=
  forall t i a, tm_find (fst s) t = Some i -> actual E t = Some a -> wf_ser a.

Theorem enc_header_reads E ts h :
  enc_header E ts = Some h ->
  (forall s, build_all (build_fuel E ts) E ([], []) ts = Some s -> keys_wf E s /\ (Z.of_nat (len s) < 2 ^ 63)%Z) ->
  lenN ts < 2 ^ 64 ->
  exists n es rs,
    length es = n /\ Forall (entry_ok n) es /\ length rs = length ts /\ Forall (idx_ok n) rs /\
    forall rest, read_header_raw (h ++ rest) = Ok (es, rs, rest).
Proof.
  unfold enc_header. intros H Hs Hts. destruct (build_all (build_fuel E ts) E ([], []) ts) as [s|] eqn:Hb; [|discriminate].
  destruct (Hs _ eq_refl) as [Hwf Hsmall]. destruct (build_all_inv _ _ _ _ Hb) as [Hinv _].
  destruct (enc_refs E (fst s) ts) as [args|] eqn:Ha; [|discriminate]. apply some_inj in H. subst h.
  assert (Hslots : Forall (fun buf => exists e, entry_ok (len s) e /\ forall rest, read_entry (buf ++ rest) = Ok (e, rest)) (snd s)).
  { apply Forall_forall. intros buf Hin. destruct (In_nth_error _ _ Hin) as [i Hi].
    assert (Hlt : (i < len s)%nat) by (unfold len; apply nth_error_Some; congruence).
    destruct Hinv as [HK HC]. destruct (HC _ Hlt) as [t Ht]. destruct (HK _ _ Ht) as [_ [[]|(a & buf' & Hact & Hc & He & Hn)]].
    rewrite Hi in Hn. apply some_inj in Hn. subst buf'.
    eapply enc_entry_read; eauto. split; assumption. }
  destruct (read_n_concat _ _ _ Hslots) as (es & Hes & Hl & Res).
  destruct (enc_refs_read E s Hinv Hsmall _ _ Ha) as (rs & Hrs & Hlr & Rrs).
  exists (len s), es, rs. repeat split; auto.
  intros rest. unfold read_header_raw, read_count. rewrite <- !app_assoc.
  rewrite read_u64_enc.
  2:{ unfold lenN. fold (len s). apply N2Z.inj_lt. rewrite nat_N_Z. eapply Z.lt_trans; [exact Hsmall|reflexivity]. }
  cbn [bind fst snd]. unfold lenN at 1.
  rewrite read_nN_ok.
  2:{ rewrite app_length. assert (length (snd s) <= length (concat (snd s)))%nat; [|lia].
      clear -Hslots. induction Hslots as [|buf l (e & _ & Re) _ IH]; [cbn; lia|]. cbn [concat length]. rewrite app_length.
      destruct buf; [|cbn [length]; lia]. specialize (Re []). cbn in Re. discriminate. }
  rewrite Res. cbn [bind fst snd]. rewrite read_u64_enc by exact Hts. cbn [bind fst snd]. unfold lenN.
  rewrite read_nN_ok by (rewrite app_length; pose proof (enc_refs_len _ _ _ _ Ha); lia). rewrite Rrs. reflexivity.
Qed.
