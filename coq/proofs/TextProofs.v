(* Round trip at the character level: what the printers emit for text, labels, blobs and numbers lexes back. *)
From Coq Require Import Lia.
From CandidV Require Import model.Text.
Open Scope N_scope.

(* ---------- hexadecimal ---------- *)
Definition hv (c : N) : N := match hex_val c with Some d => d | None => 0 end.
Definition hexval (ds : list N) (a : N) : N := fold_left (fun a d => a * 16 + hv d) ds a.

Lemma hex_digit_val d : d < 16 -> hex_val (hex_digit d) = Some d /\ hex_digit d <> 125 /\ hex_digit d <> 95 /\ hex_digit d <> 117.
Proof.
  intros H. unfold hex_digit, hex_val.
  assert (Hc : d = 0 \/ d = 1 \/ d = 2 \/ d = 3 \/ d = 4 \/ d = 5 \/ d = 6 \/ d = 7 \/ d = 8 \/ d = 9 \/ d = 10 \/ d = 11 \/ d = 12
               \/ d = 13 \/ d = 14 \/ d = 15) by lia.
  repeat (destruct Hc as [->|Hc]; [vm_compute; repeat split; congruence|]). subst. vm_compute. repeat split; congruence.
Qed.

Lemma hex_of_f_app f : forall n acc, hex_of_f f n acc = hex_of_f f n [] ++ acc.
Proof.
  induction f as [|f IH]; intros n acc; cbn [hex_of_f]; [reflexivity|].
  destruct (n <? 16); [reflexivity|]. rewrite IH, (IH _ [_]), <- app_assoc. reflexivity.
Qed.

Definition hexdigit_ok (c : N) : Prop := hex_val c <> None /\ c <> 125 /\ c <> 95.

Lemma hex_of_f_spec f : forall n, n < 16 ^ N.of_nat (S f) ->
  hexval (hex_of_f (S f) n []) 0 = n /\ Forall hexdigit_ok (hex_of_f (S f) n []) /\ hex_of_f (S f) n [] <> [].
Proof.
  induction f as [|f IH]; intros n Hn.
  - change (16 ^ N.of_nat 1) with 16 in Hn. cbn [hex_of_f]. apply N.ltb_lt in Hn as Hb. rewrite Hb.
    destruct (hex_digit_val n Hn) as (H1 & H2 & H3 & _). unfold hexval, hv. cbn [fold_left]. rewrite H1. cbv beta iota.
    split; [lia|]. split; [|discriminate]. constructor; [|constructor]. unfold hexdigit_ok. rewrite H1. split; [discriminate|]. split; assumption.
  - change (hex_of_f (S (S f)) n []) with (if n <? 16 then [hex_digit n] else hex_of_f (S f) (n / 16) [hex_digit (n mod 16)]).
    destruct (N.ltb_spec n 16) as [Hlt|Hge].
    + destruct (hex_digit_val n Hlt) as (H1 & H2 & H3 & _). unfold hexval, hv. cbn [fold_left]. rewrite H1. cbv beta iota.
      split; [lia|]. split; [|discriminate]. constructor; [|constructor]. unfold hexdigit_ok. rewrite H1. split; [discriminate|]. split; assumption.
    + rewrite hex_of_f_app.
      assert (Hd : n / 16 < 16 ^ N.of_nat (S f)).
      { rewrite (Nat2N.inj_succ (S f)), N.pow_succ_r' in Hn. apply N.div_lt_upper_bound; lia. }
      destruct (IH _ Hd) as (Hv & Hall & Hne).
      assert (Hm : n mod 16 < 16) by (apply N.mod_lt; discriminate).
      destruct (hex_digit_val _ Hm) as (H1 & H2 & H3 & _).
      repeat split.
      * unfold hexval in *. rewrite fold_left_app, Hv. cbn [fold_left]. unfold hv. rewrite H1. cbv beta iota.
        pose proof (N.div_mod n 16). lia.
      * apply Forall_app. split; [exact Hall|]. constructor; [|constructor]. unfold hexdigit_ok. rewrite H1. repeat split; congruence.
      * destruct (hex_of_f (S f) (n / 16) []); [congruence|discriminate].
Qed.

Lemma hex_of_spec n : hexval (hex_of n) 0 = n /\ Forall hexdigit_ok (hex_of n) /\ hex_of n <> [].
Proof.
  unfold hex_of. apply hex_of_f_spec.
  change 16 with (2 ^ 4). rewrite <- N.pow_mul_r.
  eapply N.lt_le_trans; [apply N.size_gt|]. apply N.pow_le_mono_r; lia.
Qed.

Lemma scan_digits_gen ds : Forall hexdigit_ok ds -> forall a s more,
  scan_codepoint (ds ++ more) a s = scan_codepoint more (hexval ds a) (s || match ds with [] => false | _ => true end).
Proof.
  induction 1 as [|d r Hd Hr IH]; intros a s more.
  - cbn [app hexval fold_left]. now rewrite orb_false_r.
  - destruct Hd as (Hh & H125 & H95). cbn [app scan_codepoint].
    apply N.eqb_neq in H125, H95. rewrite H125, H95.
    destruct (hex_val d) as [v|] eqn:Hv; [|congruence].
    rewrite IH. unfold hexval. cbn [fold_left]. replace (hv d) with v by (unfold hv; now rewrite Hv). rewrite orb_true_r. reflexivity.
Qed.
Lemma scan_digits ds : Forall hexdigit_ok ds -> forall a s more, ds <> [] ->
  scan_codepoint (ds ++ more) a s = scan_codepoint more (hexval ds a) true.
Proof.
  intros H a s more Hne. rewrite scan_digits_gen by exact H. destruct ds; [congruence|]. now rewrite orb_true_r.
Qed.

(* ---------- text ---------- *)
Lemma lex_str_escape f c lit tail : is_scalar c = true ->
  lex_str (S f) (escape_char c lit ++ tail) = (do x <- lex_str f tail; Ok (utf8_char c ++ fst x, snd x)).
Proof.
  intros Hsc. unfold escape_char.
  destruct (N.eqb_spec c 0) as [->|H0]; [reflexivity|].
  destruct (N.eqb_spec c 9) as [->|H9]; [reflexivity|].
  destruct (N.eqb_spec c 13) as [->|H13]; [reflexivity|].
  destruct (N.eqb_spec c 10) as [->|H10]; [reflexivity|].
  destruct (N.eqb_spec c 92) as [->|H92]; [reflexivity|].
  destruct (N.eqb_spec c 34) as [->|H34]; [reflexivity|].
  destruct (N.eqb_spec c 39) as [->|H39]; [reflexivity|].
  destruct lit.
  - cbn [app lex_str]. apply N.eqb_neq in H34, H92. now rewrite H34, H92.
  - destruct (hex_of_spec c) as (Hv & Hall & Hne).
    cbn [app lex_str]. change (92 =? 34) with false. change (92 =? 92) with true. cbv iota.
    change (117 =? 117) with true. cbv iota.
    rewrite <- app_assoc. cbn [app].
    rewrite (scan_digits _ Hall 0 false (125 :: tail) Hne). cbn [scan_codepoint]. change (125 =? 125) with true. cbv iota.
    rewrite Hv.
    assert (Hlt : c <? 2 ^ 32 = true).
    { apply N.ltb_lt. unfold is_scalar in Hsc. apply orb_true_iff in Hsc as [H|H].
      - apply N.ltb_lt in H. eapply N.lt_trans; [exact H|reflexivity].
      - apply andb_true_iff in H as [_ H]. apply N.ltb_lt in H. eapply N.lt_trans; [exact H|reflexivity]. }
    rewrite Hlt, Hsc. reflexivity.
Qed.

Theorem lex_escape_text s : Forall (fun cl => is_scalar (fst cl) = true) s -> forall f rest, (length s < f)%nat ->
  lex_str f (escape_text s ++ 34 :: rest) = Ok (utf8 (map fst s), rest).
Proof.
  induction 1 as [|[c lit] r Hc Hr IH]; intros f rest Hf; (destruct f as [|f]; [cbn in Hf; lia|]).
  - reflexivity.
  - unfold escape_text. cbn [flat_map fst snd]. rewrite <- app_assoc.
    rewrite lex_str_escape by exact Hc. fold (escape_text r).
    rewrite IH by (cbn in Hf; lia). reflexivity.
Qed.

Lemma escape_char_length c lit : (1 <= length (escape_char c lit))%nat.
Proof.
  unfold escape_char.
  repeat match goal with |- context [if ?b then _ else _] => destruct b end; cbn [length app]; try lia.
Qed.

Lemma escape_text_length s : (length s <= length (escape_text s))%nat.
Proof.
  induction s as [|[c l] r IH]; [cbn; lia|]. unfold escape_text. cbn [flat_map fst snd length]. rewrite app_length.
  pose proof (escape_char_length c l). fold (escape_text r). lia.
Qed.

(* printing a text (any scalars, any literal/escape decisions) and lexing it gives back its UTF-8 bytes and the rest *)
Theorem lex_pp_text s rest : Forall (fun cl => is_scalar (fst cl) = true) s ->
  lex_string (pp_text s ++ rest) = Ok (utf8 (map fst s), rest).
Proof.
  intros H. unfold pp_text, lex_string. cbn [app]. rewrite <- app_assoc. cbn [app].
  apply lex_escape_text; [exact H|]. rewrite app_length. cbn [length]. pose proof (escape_text_length s). lia.
Qed.

(* ---------- blobs ---------- *)
Lemma lex_byte_hex f v tail : v < 256 ->
  lex_str (S f) (92 :: hex2 v ++ tail) = (do x <- lex_str f tail; Ok (v :: fst x, snd x)).
Proof.
  intros Hv. unfold hex2.
  assert (H1 : v / 16 < 16) by (apply N.div_lt_upper_bound; lia).
  assert (H2 : v mod 16 < 16) by (apply N.mod_lt; discriminate).
  destruct (hex_digit_val _ H1) as (Ha & _ & _ & Hu). destruct (hex_digit_val _ H2) as (Hb & _).
  cbn [app lex_str]. change (92 =? 34) with false. change (92 =? 92) with true. cbv iota.
  apply N.eqb_neq in Hu. rewrite Hu, Ha, Hb.
  replace (v / 16 * 16 + v mod 16) with v by (pose proof (N.div_mod v 16); lia). reflexivity.
Qed.

Lemma lex_byte_char f v tail : v < 256 ->
  lex_str (S f) (pp_byte_char v ++ tail) = (do x <- lex_str f tail; Ok (v :: fst x, snd x)).
Proof.
  intros Hv. unfold pp_byte_char.
  destruct ((32 <=? v) && (v <=? 126) && negb (v =? 34) && negb (v =? 39) && negb (v =? 96) && negb (v =? 92)) eqn:E.
  - repeat (apply andb_true_iff in E as [E ?]). apply N.leb_le in E.
    repeat match goal with H : negb _ = true |- _ => apply negb_true_iff in H end.
    cbn [app lex_str]. rewrite H2, H. unfold utf8_char.
    assert (Hl : v <? 128 = true) by (apply N.ltb_lt; apply N.leb_le in H3; lia). rewrite Hl. reflexivity.
  - apply lex_byte_hex. exact Hv.
Qed.

Lemma lex_bytes_gen (pp : N -> list N) :
  (forall f v tail, v < 256 -> lex_str (S f) (pp v ++ tail) = (do x <- lex_str f tail; Ok (v :: fst x, snd x))) ->
  forall bs, Forall (fun b => b < 256) bs -> forall f rest, (length bs < f)%nat ->
  lex_str f (flat_map pp bs ++ 34 :: rest) = Ok (bs, rest).
Proof.
  intros Hpp. induction 1 as [|b r Hb Hr IH]; intros f rest Hf; (destruct f as [|f]; [cbn in Hf; lia|]).
  - reflexivity.
  - cbn [flat_map]. rewrite <- app_assoc, Hpp by exact Hb. rewrite IH by (cbn in Hf; lia). reflexivity.
Qed.

Lemma flat_map_length_ge {A} (pp : A -> list N) l : (forall x, 1 <= length (pp x))%nat -> (length l <= length (flat_map pp l))%nat.
Proof.
  intros H. induction l as [|x r IH]; [cbn; lia|]. cbn [flat_map length]. rewrite app_length. pose proof (H x). lia.
Qed.

Theorem lex_pp_blob bs rest : Forall (fun b => b < 256) bs -> lex_string (pp_blob bs ++ rest) = Ok (bs, rest).
Proof.
  intros H. unfold pp_blob, lex_string. cbn [app]. rewrite <- app_assoc. cbn [app].
  destruct (forallb blob_ascii bs).
  - apply (lex_bytes_gen pp_byte_char lex_byte_char bs H). rewrite app_length. cbn [length].
    assert (length bs <= length (flat_map pp_byte_char bs))%nat.
    { apply flat_map_length_ge. intros x. unfold pp_byte_char. destruct (_ && _); cbn; lia. }
    lia.
  - apply (lex_bytes_gen (fun b => 92 :: hex2 b) lex_byte_hex bs H). rewrite app_length. cbn [length].
    assert (length bs <= length (flat_map (fun b : N => 92%N :: hex2 b) bs))%nat by (apply flat_map_length_ge; intros x; cbn; lia).
    lia.
Qed.

(* ---------- numbers ---------- *)
Lemma strip_group3 ds : Forall (fun d => d <> 95) ds -> forall k, strip_underscores (group3 ds k) = ds.
Proof.
  induction 1 as [|d r Hd Hr IH]; intros k; [reflexivity|].
  apply N.eqb_neq in Hd. destruct k; cbn [group3 strip_underscores filter]; fold strip_underscores.
  - change (95 =? 95) with true. cbn [negb]. rewrite Hd. cbn [negb]. f_equal. apply IH.
  - rewrite Hd. cbn [negb]. f_equal. apply IH.
Qed.

Theorem strip_pp_num ds : Forall (fun d => d <> 95) ds -> strip_underscores (pp_num_str ds) = ds.
Proof. intros H. unfold pp_num_str. destruct (length ds mod 3)%nat; apply strip_group3; exact H. Qed.
