From Coq Require Import Lia ZArith.
From CandidV Require Import Consts model.Principal.
Open Scope N_scope.

(* ---------- positional notation ---------- *)
Lemma to_digits_length b k : forall n, length (to_digits b k n) = k.
Proof. induction k as [|k IH]; intros n; cbn [to_digits length]; [reflexivity|now rewrite IH]. Qed.

Lemma pow_succ_nat b k : b ^ N.of_nat (S k) = b * b ^ N.of_nat k.
Proof. rewrite Nat2N.inj_succ, N.pow_succ_r'. reflexivity. Qed.

Lemma be_val_to_digits b k : b <> 0 -> forall n, n < b ^ N.of_nat k -> be_val b (to_digits b k n) = n.
Proof.
  intros Hb. induction k as [|k IH]; intros n Hn.
  - change (b ^ N.of_nat 0) with 1 in Hn. cbn. lia.
  - cbn [to_digits be_val]. rewrite to_digits_length.
    assert (Hp : b ^ N.of_nat k <> 0) by (apply N.pow_nonzero; exact Hb).
    rewrite IH by (apply N.mod_lt; exact Hp).
    pose proof (N.div_mod n (b ^ N.of_nat k) Hp). lia.
Qed.

Lemma to_digits_lt b k : b <> 0 -> forall n, n < b ^ N.of_nat k -> Forall (fun d => d < b) (to_digits b k n).
Proof.
  intros Hb. induction k as [|k IH]; intros n Hn; cbn [to_digits]; constructor.
  - rewrite pow_succ_nat in Hn. apply N.div_lt_upper_bound; [apply N.pow_nonzero; exact Hb|lia].
  - apply IH. apply N.mod_lt. apply N.pow_nonzero. exact Hb.
Qed.

Lemma be_val_lt b ds : Forall (fun d => d < b) ds -> be_val b ds < b ^ N.of_nat (length ds).
Proof.
  induction 1 as [|d r Hd Hr IH].
  - cbn. lia.
  - cbn [be_val length]. rewrite pow_succ_nat. nia.
Qed.

Lemma to_digits_be_val b ds : Forall (fun d => d < b) ds -> to_digits b (length ds) (be_val b ds) = ds.
Proof.
  induction 1 as [|d r Hd Hr IH]; [reflexivity|].
  assert (Hb : b <> 0) by lia.
  assert (Hp : b ^ N.of_nat (length r) <> 0) by (apply N.pow_nonzero; exact Hb).
  pose proof (be_val_lt b r Hr) as Hlt.
  cbn [length to_digits be_val]. f_equal.
  - rewrite N.div_add_l by exact Hp. rewrite N.div_small by exact Hlt. lia.
  - rewrite N.add_comm, N.mod_add by exact Hp. rewrite N.mod_small by exact Hlt. exact IH.
Qed.

(* ---------- base32 ---------- *)
Lemma b32_val_alpha v : v < 32 -> b32_val (b32_alpha v) = Some v.
Proof.
  intros Hv. unfold b32_alpha, b32_val.
  destruct (N.ltb_spec v 26).
  - assert (E : (65 <=? 65 + v) && (65 + v <=? 90) = true) by (apply andb_true_iff; split; apply N.leb_le; lia).
    rewrite E. f_equal. lia.
  - assert (E1 : (65 <=? 24 + v) && (24 + v <=? 90) = false).
    { apply andb_false_iff. left. apply N.leb_gt. lia. }
    assert (E2 : (50 <=? 24 + v) && (24 + v <=? 55) = true) by (apply andb_true_iff; split; apply N.leb_le; lia).
    rewrite E1, E2. f_equal. lia.
Qed.

Lemma map_opt_alpha ds : Forall (fun d => d < 32) ds -> map_opt b32_val (map b32_alpha ds) = Some ds.
Proof.
  induction 1 as [|d r Hd Hr IH]; [reflexivity|].
  cbn [map map_opt]. now rewrite b32_val_alpha, IH.
Qed.

Lemma nchars_form l : exists k r c, l = 5 * k + r /\ nchars l = 8 * k + c /\
  ((r = 0 /\ c = 0) \/ (r = 1 /\ c = 2) \/ (r = 2 /\ c = 4) \/ (r = 3 /\ c = 5) \/ (r = 4 /\ c = 7)).
Proof.
  unfold nchars.
  assert (Hl : l = 5 * (l / 5) + l mod 5) by (apply N.div_mod; discriminate).
  assert (Hr : l mod 5 < 5) by (apply N.mod_lt; discriminate).
  set (k := l / 5) in *. set (r := l mod 5) in *. clearbody k r. subst l.
  exists k, r.
  assert (H : r = 0 \/ r = 1 \/ r = 2 \/ r = 3 \/ r = 4) by lia.
  destruct H as [H|[H|[H|[H|H]]]]; subst r.
  - exists 0. split; [reflexivity|]. split; [symmetry; apply N.div_unique with 4; lia|tauto].
  - exists 2. split; [reflexivity|]. split; [symmetry; apply N.div_unique with 2; lia|tauto].
  - exists 4. split; [reflexivity|]. split; [symmetry; apply N.div_unique with 0; lia|tauto].
  - exists 5. split; [reflexivity|]. split; [symmetry; apply N.div_unique with 3; lia|tauto].
  - exists 7. split; [reflexivity|]. split; [symmetry; apply N.div_unique with 1; lia|tauto].
Qed.
Lemma nchars_facts l :
  8 * l <= 5 * nchars l /\ 5 * nchars l - 8 * l < 5 /\ 5 * nchars l / 8 = l
  /\ nchars l mod 8 <> 1 /\ nchars l mod 8 <> 3 /\ nchars l mod 8 <> 6.
Proof.
  destruct (nchars_form l) as (k & r & c & H1 & H2 & H3). rewrite H2. subst l.
  assert (Hmod : (8 * k + c) mod 8 = c mod 8) by (rewrite N.add_comm, N.mul_comm, N.mod_add by discriminate; reflexivity).
  rewrite Hmod.
  destruct H3 as [[? ?]|[[? ?]|[[? ?]|[[? ?]|[? ?]]]]]; subst r c; cbn [N.modulo];
   (split; [lia|split; [lia|split; [|split; [|split]]; try (vm_compute; discriminate)]]).
  - symmetry. apply N.div_unique with 0; lia.
  - symmetry. apply N.div_unique with 2; lia.
  - symmetry. apply N.div_unique with 4; lia.
  - symmetry. apply N.div_unique with 1; lia.
  - symmetry. apply N.div_unique with 3; lia.
Qed.

Lemma bytes_ok_forall bs : bytes_ok bs = true -> Forall (fun d => d < 256) bs.
Proof.
  unfold bytes_ok. rewrite forallb_forall. intros H. apply Forall_forall. intros x Hx.
  specialize (H x Hx). unfold is_byte in H. now apply N.ltb_lt.
Qed.

Theorem b32_roundtrip bs : bytes_ok bs = true -> b32_decode (b32_encode bs) = Some bs.
Proof.
  intros Hok. apply bytes_ok_forall in Hok.
  unfold b32_encode, b32_decode. cbv zeta.
  set (l := N.of_nat (length bs)).
  destruct (nchars_facts l) as (H1 & H2 & H3 & H4 & H5 & H6).
  set (nc := nchars l) in *. set (pad := 5 * nc - 8 * l) in *.
  set (v := be_val 256 bs).
  assert (Hv : v < 256 ^ l) by (apply be_val_lt; exact Hok).
  assert (Hx : v * 2 ^ pad < 32 ^ N.of_nat (N.to_nat nc)).
  { rewrite N2Nat.id. change 32 with (2 ^ 5). rewrite <- N.pow_mul_r.
    replace (5 * nc) with (8 * l + pad) by lia. rewrite N.pow_add_r, N.pow_mul_r. change (2 ^ 8) with 256.
    assert (0 < 2 ^ pad) by (apply N.neq_0_lt_0, N.pow_nonzero; discriminate). nia. }
  rewrite map_opt_alpha by (apply to_digits_lt; [discriminate|exact Hx]).
  rewrite map_length, to_digits_length, N2Nat.id.
  assert (E : (nc mod 8 =? 1) || (nc mod 8 =? 3) || (nc mod 8 =? 6) = false).
  { apply orb_false_iff; split; [apply orb_false_iff; split|]; apply N.eqb_neq; assumption. }
  rewrite E, H3. fold pad.
  rewrite be_val_to_digits by (try discriminate; exact Hx).
  assert (Hp : 2 ^ pad <> 0) by (apply N.pow_nonzero; discriminate).
  rewrite N.mod_mul, N.eqb_refl, N.div_mul by exact Hp.
  unfold l. rewrite Nat2N.id. unfold v. now rewrite to_digits_be_val.
Qed.

(* ---------- characters ---------- *)
Definition is_b32 (c : N) : bool := ((65 <=? c) && (c <=? 90)) || ((50 <=? c) && (c <=? 55)).
Lemma alpha_is_b32 v : v < 32 -> is_b32 (b32_alpha v) = true.
Proof.
  intros Hv. unfold is_b32, b32_alpha. destruct (N.ltb_spec v 26); apply orb_true_iff; [left|right];
    apply andb_true_iff; split; apply N.leb_le; lia.
Qed.
Lemma is_b32_cases c : is_b32 c = true -> (65 <= c <= 90) \/ (50 <= c <= 55).
Proof.
  unfold is_b32. rewrite orb_true_iff, !andb_true_iff, !N.leb_le. tauto.
Qed.
Lemma upper_lower_b32 c : is_b32 c = true -> upper (lower c) = c.
Proof.
  intros H. apply is_b32_cases in H. unfold upper, lower.
  destruct ((65 <=? c) && (c <=? 90)) eqn:E.
  - apply andb_true_iff in E as [E1 E2]. apply N.leb_le in E1, E2.
    assert (E3 : (97 <=? c + 32) && (c + 32 <=? 122) = true) by (apply andb_true_iff; split; apply N.leb_le; lia).
    rewrite E3. lia.
  - assert (E3 : (97 <=? c) && (c <=? 122) = false).
    { apply andb_false_iff. destruct H as [H|H]; [|left; apply N.leb_gt; lia].
      apply andb_false_iff in E as [E|E]; apply N.leb_gt in E; lia. }
    now rewrite E3.
Qed.
Lemma upper_lower c : upper (lower c) = upper c.
Proof.
  unfold upper, lower.
  destruct ((65 <=? c) && (c <=? 90)) eqn:E.
  - apply andb_true_iff in E as [E1 E2]. apply N.leb_le in E1, E2.
    assert (E3 : (97 <=? c + 32) && (c + 32 <=? 122) = true) by (apply andb_true_iff; split; apply N.leb_le; lia).
    assert (E4 : (97 <=? c) && (c <=? 122) = false) by (apply andb_false_iff; left; apply N.leb_gt; lia).
    rewrite E3, E4. lia.
  - reflexivity.
Qed.
Lemma lower_lower c : lower (lower c) = lower c.
Proof.
  unfold lower. destruct ((65 <=? c) && (c <=? 90)) eqn:E; [|now rewrite E].
  apply andb_true_iff in E as [E1 E2]. apply N.leb_le in E1, E2.
  assert (E3 : (65 <=? c + 32) && (c + 32 <=? 90) = false) by (apply andb_false_iff; right; apply N.leb_gt; lia).
  now rewrite E3.
Qed.

(* ---------- dash grouping ---------- *)
Lemma map_dash5_fuel (f : N -> N) : f dash = dash -> forall k s, map f (dash5_fuel k s) = dash5_fuel k (map f s).
Proof.
  intros Hf. induction k as [|k IH]; intros s; cbn [dash5_fuel]; [reflexivity|].
  rewrite map_length. destruct (5 <? length s)%nat; [|reflexivity].
  rewrite map_app. cbn [map]. rewrite Hf, IH, firstn_map, skipn_map. reflexivity.
Qed.
Lemma map_dash5 (f : N -> N) s : f dash = dash -> map f (dash5 s) = dash5 (map f s).
Proof. intros Hf. unfold dash5. rewrite map_length. apply map_dash5_fuel. exact Hf. Qed.

Definition nodash (c : N) : bool := negb (c =? dash).
Lemma strip_dash5_fuel k : forall s, forallb nodash s = true -> filter nodash (dash5_fuel k s) = s.
Proof.
  induction k as [|k IH]; intros s Hs; cbn [dash5_fuel].
  - clear -Hs. induction s as [|c r IH]; [reflexivity|]. cbn in *. apply andb_true_iff in Hs as [H1 H2].
    rewrite H1. f_equal. apply IH. exact H2.
  - assert (Hall : forall t, forallb nodash t = true -> filter nodash t = t).
    { clear. induction t as [|c r IH]; [reflexivity|]. cbn. intros H. apply andb_true_iff in H as [H1 H2].
      rewrite H1. f_equal. apply IH. exact H2. }
    destruct (5 <? length s)%nat; [|apply Hall; exact Hs].
    rewrite <- (firstn_skipn 5 s) in Hs. rewrite forallb_app in Hs. apply andb_true_iff in Hs as [H1 H2].
    rewrite filter_app. cbn [filter]. change (nodash dash) with false. cbv iota.
    rewrite Hall by exact H1. rewrite IH by exact H2. apply firstn_skipn.
Qed.
Lemma strip_dash5 s : forallb nodash s = true -> filter nodash (dash5 s) = s.
Proof. apply strip_dash5_fuel. Qed.

(* ---------- from_text / to_text ---------- *)
Lemma be32_length x : length (be32 x) = 4%nat.
Proof. unfold be32. apply to_digits_length. Qed.
Lemma be32_bytes x : bytes_ok (be32 x) = true.
Proof.
  unfold bytes_ok. apply forallb_forall. intros d Hd. unfold is_byte. apply N.ltb_lt.
  assert (H : Forall (fun d => d < 256) (be32 x)).
  { unfold be32. apply to_digits_lt; [discriminate|]. change (256 ^ N.of_nat 4) with (2 ^ 32). apply N.mod_lt. discriminate. }
  rewrite Forall_forall in H. apply H. exact Hd.
Qed.

Lemma list_eqb_refl l : list_eqb N.eqb l l = true.
Proof. induction l as [|a r IH]; [reflexivity|]. cbn. now rewrite N.eqb_refl, IH. Qed.
Lemma list_eqb_eq l1 : forall l2, list_eqb N.eqb l1 l2 = true -> l1 = l2.
Proof.
  induction l1 as [|a r IH]; intros [|b s] H; try discriminate; [reflexivity|].
  cbn in H. apply andb_true_iff in H as [H1 H2]. apply N.eqb_eq in H1. subst. f_equal. now apply IH.
Qed.

Lemma encode_chars bs : bytes_ok bs = true -> forallb is_b32 (b32_encode bs) = true.
Proof.
  intros Hok. apply bytes_ok_forall in Hok. unfold b32_encode. cbv zeta.
  set (l := N.of_nat (length bs)).
  destruct (nchars_facts l) as (H1 & H2 & _).
  set (nc := nchars l) in *. set (pad := 5 * nc - 8 * l) in *.
  assert (Hv : be_val 256 bs < 256 ^ l) by (apply be_val_lt; exact Hok).
  assert (Hx : be_val 256 bs * 2 ^ pad < 32 ^ N.of_nat (N.to_nat nc)).
  { rewrite N2Nat.id. change 32 with (2 ^ 5). rewrite <- N.pow_mul_r.
    replace (5 * nc) with (8 * l + pad) by lia. rewrite N.pow_add_r, N.pow_mul_r. change (2 ^ 8) with 256.
    assert (0 < 2 ^ pad) by (apply N.neq_0_lt_0, N.pow_nonzero; discriminate). nia. }
  apply forallb_forall. intros c Hc. apply in_map_iff in Hc as [d [<- Hd]].
  apply alpha_is_b32.
  pose proof (to_digits_lt 32 (N.to_nat nc) ltac:(discriminate) _ Hx) as Hall.
  rewrite Forall_forall in Hall. apply Hall. exact Hd.
Qed.

Lemma upper_pipeline bs : bytes_ok bs = true ->
  filter nodash (map upper (to_text bs)) = b32_encode (be32 (crc32 bs) ++ bs).
Proof.
  intros Hok. unfold to_text.
  set (E := b32_encode (be32 (crc32 bs) ++ bs)).
  assert (HE : forallb is_b32 E = true).
  { apply encode_chars. unfold bytes_ok. rewrite forallb_app. apply andb_true_iff. split; [apply be32_bytes|exact Hok]. }
  rewrite map_dash5 by reflexivity. rewrite map_map.
  assert (Hid : map (fun c => upper (lower c)) E = E).
  { rewrite forallb_forall in HE. rewrite <- (map_id E) at 2. apply map_ext_in. intros c Hc. apply upper_lower_b32, HE, Hc. }
  rewrite Hid. apply strip_dash5.
  apply forallb_forall. intros c Hc. rewrite forallb_forall in HE. specialize (HE c Hc).
  apply is_b32_cases in HE. unfold nodash, dash. apply negb_true_iff, N.eqb_neq. lia.
Qed.

Lemma to_text_lower bs : map lower (to_text bs) = to_text bs.
Proof.
  unfold to_text. rewrite map_dash5 by reflexivity. rewrite map_map. f_equal.
  apply map_ext. intros c. apply lower_lower.
Qed.

Theorem from_text_complete s bs :
  bytes_ok bs = true -> (length bs <= max_len)%nat -> map lower s = to_text bs -> from_text s = inl bs.
Proof.
  intros Hok Hlen Hs. unfold from_text. cbv zeta.
  assert (Hu : map upper s = map upper (to_text bs)).
  { rewrite <- Hs, map_map. apply map_ext. intros c. symmetry. apply upper_lower. }
  change (fun c => negb (c =? dash)) with nodash.
  rewrite Hu, upper_pipeline by exact Hok.
  rewrite b32_roundtrip.
  2:{ unfold bytes_ok. rewrite forallb_app. apply andb_true_iff. split; [apply be32_bytes|exact Hok]. }
  assert (Hc4 : crc_len = 4%nat) by reflexivity. rewrite Hc4.
  rewrite app_length, be32_length.
  assert (E1 : (4 + length bs <? 4)%nat = false) by (apply Nat.ltb_ge; lia). rewrite E1.
  assert (Hf : firstn 4 (be32 (crc32 bs) ++ bs) = be32 (crc32 bs)).
  { rewrite <- (be32_length (crc32 bs)) at 1. rewrite firstn_app, Nat.sub_diag, firstn_all. cbn [firstn]. apply app_nil_r. }
  assert (Hk : skipn 4 (be32 (crc32 bs) ++ bs) = bs).
  { rewrite <- (be32_length (crc32 bs)) at 1. rewrite skipn_app, Nat.sub_diag, skipn_all. reflexivity. }
  rewrite Hf, Hk.
  assert (E2 : (max_len <? length bs)%nat = false) by (apply Nat.ltb_ge; exact Hlen). rewrite E2.
  rewrite list_eqb_refl. cbn [negb]. rewrite Hs, list_eqb_refl. reflexivity.
Qed.

Theorem from_text_sound s bs :
  from_text s = inl bs -> map lower s = to_text bs /\ (length bs <= max_len)%nat.
Proof.
  unfold from_text. cbv zeta.
  destruct (b32_decode _) as [bytes|]; [|discriminate].
  destruct (length bytes <? crc_len)%nat; [discriminate|].
  destruct (max_len <? length (skipn crc_len bytes))%nat eqn:E; [discriminate|].
  destruct (negb _); [discriminate|].
  destruct (list_eqb N.eqb (map lower s) (to_text (skipn crc_len bytes))) eqn:E2; [|discriminate].
  intros H. inversion H; subst. split; [apply list_eqb_eq; exact E2|apply Nat.ltb_ge; exact E].
Qed.

Theorem to_from_text bs : bytes_ok bs = true -> (length bs <= max_len)%nat -> from_text (to_text bs) = inl bs.
Proof. intros Hok Hlen. apply from_text_complete; [exact Hok|exact Hlen|apply to_text_lower]. Qed.

(* from_text depends on its argument only up to letter case *)
Lemma from_text_case_insensitive s1 s2 : map lower s1 = map lower s2 -> from_text s1 = from_text s2.
Proof.
  intros Hl.
  assert (Hu : map upper s1 = map upper s2).
  { transitivity (map upper (map lower s1)).
    - rewrite map_map. apply map_ext. intros c. symmetry. apply upper_lower.
    - rewrite Hl, map_map. apply map_ext. intros c. apply upper_lower. }
  unfold from_text. rewrite Hu, Hl. reflexivity.
Qed.

(* one text never denotes two principals; two accepted texts of one principal differ only in letter case *)
Theorem from_text_injective s1 s2 b1 b2 :
  from_text s1 = inl b1 -> from_text s2 = inl b2 -> map lower s1 = map lower s2 -> b1 = b2.
Proof.
  intros H1 H2 Hl. rewrite (from_text_case_insensitive s1 s2 Hl) in H1. congruence.
Qed.

Theorem try_from_slice_spec bs : try_from_slice bs = if (length bs <=? 29)%nat then inl bs else inr PBytesTooLong.
Proof. reflexivity. Qed.
