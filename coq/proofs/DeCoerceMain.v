(* DeCoerceMain.v -- the decoder as it is = coercion after M^-1 (see DeCoerce.v for the vocabulary). *)
From CandidV Require Import Consts model.Leb model.De proofs.LebProofs proofs.TyProofs proofs.SubProofs proofs.WireProofs proofs.CoerceProofs proofs.DeProofs proofs.DeCost proofs.DeFast proofs.DeSpec proofs.DeCoerce.
From Coq Require Import Lia ZifyBool ZifyNat ZifyN.
Open Scope N_scope.

Lemma unroll_nolim2 u E e w b a c : trace E e = Some b -> trace E w = Some a -> exists c', unroll u E e w nolim c = (c', Ok (b, a)).
Proof.
  intros He Hw. unfold unroll.
  destruct (unroll1_nolim u E e b c He) as [c1 H1]. rewrite (bindM_ok _ _ _ _ _ _ H1).
  destruct (unroll1_nolim u E w a c1 Hw) as [c2 H2]. rewrite (bindM_ok _ _ _ _ _ _ H2). eexists; reflexivity.
Qed.
Ltac unroll_with He Hw :=
  match goal with |- exists c', bindM (unroll ?u ?E ?e ?w) _ nolim ?c = _ =>
    let c0 := fresh "c" in let Hu := fresh "Hu" in
    destruct (unroll_nolim2 u E e w _ _ c He Hw) as [c0 Hu]; rewrite (bindM_ok _ _ _ _ _ _ Hu); clear Hu; cbv beta iota end.
Lemma bindM_err {A B} (m : M A) (k : A -> M B) l c c1 e : m l c = (c1, Err e) -> bindM m k l c = (c1, Err e).
Proof. intros H. unfold bindM. rewrite H. reflexivity. Qed.
Ltac done_err := eexists; reflexivity.
Lemma bindM_assoc {A B C} (m : M A) (k1 : A -> M B) (k2 : B -> M C) l c :
  bindM (bindM m k1) k2 l c = bindM m (fun x => bindM (k1 x) k2) l c.
Proof. unfold bindM. destruct (m l c) as [c1 [x|e| |]]; reflexivity. Qed.

(* a missing field / argument: the decoder is run at the wire type null *)
Lemma de_default g E u lc te bs d c : wf_env E = true -> default_of E te = Some d -> (2 <= g)%nat ->
  exists c', de g E u HV lc te (TPrim PNull) bs nolim c = (c', Ok (d, bs)).
Proof.
  intros Hwf Hd Hg. destruct g as [|g]; try lia. unfold default_of in Hd.
  destruct (trace E te) as [t'|] eqn:Te; [|discriminate].
  cbn [de]. unroll_with Te (eq_refl : trace E (TPrim PNull) = Some (TPrim PNull)).
  destruct t' as [[]| | | | | | | | |]; try discriminate; inversion Hd; subst.
  - cost. done_ret.
  - destruct (de_at_wire_type_host g E true HI no_names (TPrim PNull) (TPrim PNull) (TPrim PNull) bs VNull bs c0) as [c1 H1];
      try reflexivity; try exact Hwf.
    { destruct g; [lia|reflexivity]. }
    rewrite bindM_assoc. rewrite (bindM_ok _ _ _ _ _ _ H1). cbn [fst snd]. rewrite bindM_ret. cost. done_ret.
  - cost. done_ret.
Qed.

Lemma sub_null_ref E b : (match b with TFunc _ _ _ | TServ _ => True | _ => False end) -> sub_dec_fast E (TPrim PNull) b = false.
Proof.
  intros Hb. destruct (sub_dec_fast E (TPrim PNull) b) eqn:H; [|reflexivity]. exfalso.
  apply sub_fast_nonvar in H; [|reflexivity|destruct b; try contradiction; reflexivity].
  destruct b; try contradiction; destruct H as [H|H]; try discriminate H; apply H; reflexivity.
Qed.

Lemma de_nondefault g E W u lc te bs c : ty_closed E te = true -> wf_env E = true -> sides W E -> side W false te = true ->
  default_of E te = None -> (1 <= g)%nat ->
  exists c', de g E u HV lc te (TPrim PNull) bs nolim c = (c', Err ESub).
Proof.
  intros Hc Hwf HS Hs Hd Hg. destruct g as [|g]; try lia. unfold default_of in Hd.
  destruct (trace_closed E te Hwf Hc) as (t' & Te & Hct & Hnv). rewrite Te in Hd.
  destruct (side_trace W E false te t' HS Hs Te) as [Hs' _].
  cbn [de]. unroll_with Te (eq_refl : trace E (TPrim PNull) = Some (TPrim PNull)).
  destruct t' as [[]| | | | | | | | |]; try discriminate; cbn [prim_eqb de_int]; try done_err; try (cost; done_err).
  - (* vec *) unfold is_blob at 2. cbn [trace trace_f]. rewrite Bool.andb_false_r. cost. done_err.
  - cost. rewrite sub_null_ref by exact I. done_err.
  - cost. rewrite sub_null_ref by exact I. done_err.
Qed.

(* ---------- records: the field loop of the coercion function and the merge of the decoder ---------- *)
Fixpoint crec (cv : val -> ty -> ty -> res val) (E : env) (fs1 : list (N * ty)) (vs : list (N * val)) (fs2 : list (N * ty))
  : res (list (N * val)) :=
  match fs2 with
  | [] => Ok []
  | (i, te) :: r =>
      do w' <- match find_field i fs1, find_val i vs with
               | Some tw, Some w => cv w tw te
               | None, None => match default_of E te with Some d => Ok d | None => Err ESub end
               | _, _ => Err EOther
               end;
      do r' <- crec cv E fs1 vs r; Ok ((i, w') :: r')
  end.
Lemma coerce_go_crec cv E fs1 vs : forall fs2,
  (fix go (fs2 : list (N * ty)) : res (list (N * val)) :=
     match fs2 with
     | [] => Ok []
     | (i, te) :: r =>
         do w' <- match find_field i fs1, find_val i vs with
                  | Some tw, Some w => cv w tw te
                  | None, None => match default_of E te with Some d => Ok d | None => Err ESub end
                  | _, _ => Err EOther
                  end;
         do r' <- go r; Ok ((i, w') :: r')
     end) fs2 = crec cv E fs1 vs fs2.
Proof.
  induction fs2 as [|[i te] r IH]; cbn [crec]; [reflexivity|]. rewrite IH. reflexivity.
Qed.
Lemma crec_drop cv E j tw v ws vs : forall es, (forall i te, In (i, te) es -> i <> j) ->
  crec cv E ((j, tw) :: ws) ((j, v) :: vs) es = crec cv E ws vs es.
Proof.
  induction es as [|[i te] es IH]; intros H; cbn [crec find_field find_val]; [reflexivity|].
  assert (Hij : (i =? j) = false) by (apply N.eqb_neq; apply (H i te); left; reflexivity).
  rewrite Hij. rewrite IH by (intros i0 te0 Hin; apply (H i0 te0); right; exact Hin). reflexivity.
Qed.
Lemma find_field_none i (fs : list (N * ty)) : (forall k, In k (map fst fs) -> i < k) -> find_field i fs = None.
Proof.
  induction fs as [|[j t] fs IH]; intros H; cbn [find_field]; [reflexivity|].
  assert (i < j) by (apply H; left; reflexivity). assert (Hij : (i =? j) = false) by (apply N.eqb_neq; lia).
  rewrite Hij. apply IH. intros k Hk. apply H. right. exact Hk.
Qed.
Lemma find_val_none i (vs : list (N * val)) : (forall k, In k (map fst vs) -> i < k) -> find_val i vs = None.
Proof.
  induction vs as [|[j t] vs IH]; intros H; cbn [find_val]; [reflexivity|].
  assert (i < j) by (apply H; left; reflexivity). assert (Hij : (i =? j) = false) by (apply N.eqb_neq; lia).
  rewrite Hij. apply IH. intros k Hk. apply H. right. exact Hk.
Qed.
Lemma rec_loop_ids dv : forall ws bs vs r, rec_loop dv ws bs = Ok (vs, r) -> map fst vs = map fst ws.
Proof.
  induction ws as [|[j tw] ws IH]; intros bs vs r H; cbn [rec_loop] in H; [inversion H; reflexivity|].
  unfold bind in H. destruct (dv tw bs) as [[v1 r1]| | |]; try discriminate. cbn [fst snd] in H.
  destruct (rec_loop dv ws r1) as [[vs2 r2]| | |] eqn:E2; try discriminate. cbn [fst snd] in H. inversion H; subst.
  cbn [map fst]. rewrite (IH _ _ _ E2). reflexivity.
Qed.

Definition agrees {A} (cr : res A) (m : cnt * res (A * list N)) (r : list N) : Prop :=
  match cr with
  | Ok x => snd m = Ok (x, r)
  | Err ESub => snd m = Err ESub
  | _ => True
  end.

Section FieldsCoerce.
  Variable rec : bool -> host -> (N -> option N) -> ty -> ty -> list N -> M (val * list N).
  Variables (E : env) (u : bool) (lc : N -> option N).
  Variable cv : val -> ty -> ty -> res val.
  Variable dv : ty -> list N -> res (val * list N).
  Variable P : val -> Prop.
  Variables (es0 ws0 : list (N * ty)).
  Hypothesis Hmatch : forall i te tw bs v r c, In (i, te) es0 -> In (i, tw) ws0 -> dv tw bs = Ok (v, r) -> P v ->
    agrees (cv v tw te) (rec u HV lc te tw bs nolim c) r.
  Hypothesis Hskip : forall j tw bs v r c, In (j, tw) ws0 -> dv tw bs = Ok (v, r) -> P v ->
    exists c' v0, rec u HV lc (TPrim PReserved) tw bs nolim c = (c', Ok (v0, r)).
  Hypothesis Hdef : forall te bs d c, default_of E te = Some d ->
    exists c', rec u HV lc te (TPrim PNull) bs nolim c = (c', Ok (d, bs)).
  Hypothesis Hnodef : forall i te bs c, In (i, te) es0 -> default_of E te = None ->
    exists c', rec u HV lc te (TPrim PNull) bs nolim c = (c', Err ESub).
  Hypothesis Htr : forall i te, In (i, te) es0 -> exists t', trace E te = Some t'.

  Lemma default_traced te t' : trace E te = Some t' -> default_of E t' = default_of E te /\ (optional_ty t' = true <-> default_of E te <> None).
  Proof.
    intros H. unfold default_of. rewrite H, (trace_idem _ _ _ H). split; [reflexivity|].
    destruct t' as [[]| | | | | | | | |]; cbn [optional_ty]; split; intros X; try discriminate; try reflexivity; try (exfalso; apply X; reflexivity).
  Qed.

  Lemma de_fields_coerce : forall k es ws vs bs r c,
    (length es + length ws < k)%nat -> incl es es0 -> incl ws ws0 ->
    sorted_ids (map fst es) = true -> sorted_ids (map fst ws) = true ->
    rec_loop dv ws bs = Ok (vs, r) -> Forall (fun iv => P (snd iv)) vs ->
    match crec cv E ws vs es with
    | Ok out => exists c', de_fields rec E u HV lc k es ws bs nolim c = (c', Ok (out, r))
    | Err ESub => exists c', de_fields rec E u HV lc k es ws bs nolim c = (c', Err ESub)
    | _ => True
    end.
  Proof.
    induction k as [|k IH]; intros es ws vs bs r c Hk Ies Iws Ses Sws Hl HP; [lia|].
    assert (SURPLUS : forall j tw ws' , ws = (j, tw) :: ws' -> (forall i te, In (i, te) es -> i <> j) -> forall cx,
              match crec cv E ws vs es with
              | Ok out => exists c', (dom _ <- add_cost u 1; dom _ <- add_cost u 1; dom vr <- rec u HV lc (TPrim PReserved) tw bs; de_fields rec E u HV lc k es ws' (snd vr)) nolim cx = (c', Ok (out, r))
              | Err ESub => exists c', (dom _ <- add_cost u 1; dom _ <- add_cost u 1; dom vr <- rec u HV lc (TPrim PReserved) tw bs; de_fields rec E u HV lc k es ws' (snd vr)) nolim cx = (c', Err ESub)
              | _ => True
              end).
    { intros j tw ws' -> Hne cx. cbn [rec_loop] in Hl. unfold bind in Hl.
      destruct (dv tw bs) as [[v1 r1]| | |] eqn:E1; try discriminate. cbn [fst snd] in Hl.
      destruct (rec_loop dv ws' r1) as [[vs2 r2]| | |] eqn:E2; try discriminate. cbn [fst snd] in Hl. inversion Hl; subst vs r. clear Hl.
      rewrite crec_drop by exact Hne.
      inversion HP as [|x l HP1 HP2]; subst. cbn [snd] in HP1.
      assert (Hk' : (length es + length ws' < k)%nat) by (cbn [length] in Hk; lia).
      assert (Iws' : incl ws' ws0) by (intros x Hx; apply Iws; right; exact Hx).
      specialize (IH es ws' vs2 r1 r2).
      destruct (crec cv E ws' vs2 es) as [out|[]| |] eqn:EC; try exact I.
      - cost. cost. destruct (Hskip j tw bs v1 r1 c1 (Iws _ (or_introl eq_refl)) E1 HP1) as (c2 & v0 & H2). rewrite (bindM_ok _ _ _ _ _ _ H2). cbn [fst snd].
        apply (IH c2 Hk' Ies Iws' Ses (sorted_tl _ _ Sws) E2 HP2).
      - cost. cost. destruct (Hskip j tw bs v1 r1 c1 (Iws _ (or_introl eq_refl)) E1 HP1) as (c2 & v0 & H2). rewrite (bindM_ok _ _ _ _ _ _ H2). cbn [fst snd].
        apply (IH c2 Hk' Ies Iws' Ses (sorted_tl _ _ Sws) E2 HP2). }
    assert (MISSING : forall i te es' (strict : bool), es = (i, te) :: es' -> find_field i ws = None -> find_val i vs = None ->
              forall K : ty -> M (val * list N),
              (forall te' c0, (if strict then trace E te = Some te' else te' = te) -> K te' nolim c0 = rec u HV lc te' (TPrim PNull) bs nolim c0) -> forall cx,
              match crec cv E ws vs es with
              | Ok out => exists c', (dom te' <- (if strict then dom t' <- tr E te; if optional_ty t' then ret t' else failM ESub else ret te);
                                       dom _ <- add_cost u (rec_label_cost lc i); dom _ <- add_cost u 1;
                                       dom vr <- rec u HV lc te' (TPrim PNull) bs;
                                       dom rr <- de_fields rec E u HV lc k es' ws (snd vr);
                                       ret ((i, fst vr) :: fst rr, snd rr)) nolim cx = (c', Ok (out, r))
              | Err ESub => exists c', (dom te' <- (if strict then dom t' <- tr E te; if optional_ty t' then ret t' else failM ESub else ret te);
                                       dom _ <- add_cost u (rec_label_cost lc i); dom _ <- add_cost u 1;
                                       dom vr <- rec u HV lc te' (TPrim PNull) bs;
                                       dom rr <- de_fields rec E u HV lc k es' ws (snd vr);
                                       ret ((i, fst vr) :: fst rr, snd rr)) nolim cx = (c', Err ESub)
              | _ => True
              end).
    { intros i te es' strict -> Hf Hv K _ cm. cbn [crec]. rewrite Hf, Hv.
      destruct (Htr i te (Ies _ (or_introl eq_refl))) as [t' Tt].
      destruct (default_traced te t' Tt) as [D1 D2].
      assert (Hk' : (length es' + length ws < k)%nat) by (cbn [length] in Hk; lia).
      assert (Ies' : incl es' es0) by (intros x Hx; apply Ies; right; exact Hx).
      specialize (IH es' ws vs bs r).
      destruct (default_of E te) as [d|] eqn:Ed.
      - assert (Ho : optional_ty t' = true) by (apply D2; discriminate).
        cbn [bind]. 
        assert (PRE : exists te', (if strict then trace E te = Some te' else te' = te) /\ default_of E te' = Some d /\
                  forall (k0 : ty -> M (list (N * val) * list N)) cx, (dom x <- (if strict then dom t0 <- tr E te; if optional_ty t0 then ret t0 else failM ESub else ret te); k0 x) nolim cx = k0 te' nolim cx).
        { destruct strict.
          - exists t'. split; [exact Tt|]. split; [rewrite D1; reflexivity|]. intros k0 cx. unfold tr. rewrite Tt. rewrite bindM_assoc. rewrite bindM_ret. rewrite Ho. rewrite bindM_ret. reflexivity.
          - exists te. split; [reflexivity|]. split; [exact Ed|]. intros k0 cx. rewrite bindM_ret. reflexivity. }
        destruct PRE as (te' & _ & Hd' & Hpre).
        destruct (crec cv E ws vs es') as [out|[]| |] eqn:EC; cbn [bind]; try exact I.
        + rewrite Hpre. cost. cost. destruct (Hdef te' bs d c1 Hd') as [c2 H2]. rewrite (bindM_ok _ _ _ _ _ _ H2). cbn [fst snd].
          destruct (IH c2 Hk' Ies' Iws (sorted_tl _ _ Ses) Sws Hl HP) as [c3 H3]. rewrite (bindM_ok _ _ _ _ _ _ H3). cbn [fst snd]. done_ret.
        + rewrite Hpre. cost. cost. destruct (Hdef te' bs d c1 Hd') as [c2 H2]. rewrite (bindM_ok _ _ _ _ _ _ H2). cbn [fst snd].
          destruct (IH c2 Hk' Ies' Iws (sorted_tl _ _ Ses) Sws Hl HP) as [c3 H3]. rewrite (bindM_err _ _ _ _ _ _ H3). done_err.
      - cbn [bind]. assert (Ho : optional_ty t' = false) by (destruct (optional_ty t') eqn:X; [exfalso; apply D2; reflexivity|reflexivity]).
        destruct strict.
        + unfold tr. rewrite Tt. rewrite bindM_assoc. rewrite bindM_ret. rewrite Ho. done_err.
        + rewrite bindM_ret. cost. cost. destruct (Hnodef i te bs c1 (Ies _ (or_introl eq_refl)) Ed) as [c2 H2]. rewrite (bindM_err _ _ _ _ _ _ H2). done_err. }
    cbn [de_fields]. destruct (add_cost_nolim u 4 c) as [c1 Hc1].
    assert (STEP : forall (K : M (list (N * val) * list N)) R, (exists c', K nolim c1 = (c', R)) -> exists c', (dom _ <- add_cost u 4; K) nolim c = (c', R)).
    { intros K R [c' HK]. rewrite (bindM_ok _ _ _ _ _ _ Hc1). eauto. }
    destruct es as [|[i te] es']; destruct ws as [|[j tw] ws'].
    - cbn [rec_loop] in Hl. inversion Hl; subst. cbn [crec]. apply STEP. done_ret.
    - pose proof (SURPLUS j tw ws' eq_refl (fun i te (X : In (i, te) []) => match X with end) c1) as S.
      destruct (crec cv E ((j, tw) :: ws') vs []) as [out|[]| |]; try exact I; apply STEP; exact S.
    - assert (Hvs : vs = []) by (cbn [rec_loop] in Hl; inversion Hl; reflexivity).
      pose proof (MISSING i te es' false eq_refl eq_refl ltac:(rewrite Hvs; reflexivity) (fun t => rec u HV lc t (TPrim PNull) bs) ltac:(intros; reflexivity) c1) as S.
      destruct (crec cv E [] vs ((i, te) :: es')) as [out|[]| |]; try exact I; apply STEP; exact S.
    - destruct (i =? j) eqn:Eij.
      + (* matched *) apply N.eqb_eq in Eij. subst j.
        cbn [rec_loop] in Hl. unfold bind in Hl.
        destruct (dv tw bs) as [[v1 r1]| | |] eqn:E1; try discriminate. cbn [fst snd] in Hl.
        destruct (rec_loop dv ws' r1) as [[vs2 r2]| | |] eqn:E2; try discriminate. cbn [fst snd] in Hl. inversion Hl; subst vs r. clear Hl.
        inversion HP as [|x l HP1 HP2]; subst. cbn [snd] in HP1.
        cbn [crec find_field find_val]. rewrite N.eqb_refl.
        cbn [map fst] in Ses, Sws.
        rewrite crec_drop by (intros i0 te0 Hin; pose proof (sorted_lt _ _ Ses i0 (in_map fst _ _ Hin)); cbn [fst] in *; lia).
        pose proof (Hmatch i te tw bs v1 r1) as HM.
        assert (Hk' : (length es' + length ws' < k)%nat) by (cbn [length] in Hk; lia).
        assert (Ies' : incl es' es0) by (intros x Hx; apply Ies; right; exact Hx).
        assert (Iws' : incl ws' ws0) by (intros x Hx; apply Iws; right; exact Hx).
        specialize (IH es' ws' vs2 r1 r2).
        destruct (cv v1 tw te) as [w'|[]| |] eqn:ECV; cbn [bind]; try exact I.
        * destruct (crec cv E ws' vs2 es') as [out|[]| |] eqn:EC; cbn [bind]; try exact I.
          -- apply STEP. cost. cost. specialize (HM c2 (Ies _ (or_introl eq_refl)) (Iws _ (or_introl eq_refl)) E1 HP1). cbn [agrees] in HM.
             destruct (rec u HV lc te tw bs nolim c2) as [c3 rr] eqn:ER. cbn [snd] in HM. subst rr. rewrite (bindM_ok _ _ _ _ _ _ ER). cbn [fst snd].
             destruct (IH c3 Hk' Ies' Iws' (sorted_tl _ _ Ses) (sorted_tl _ _ Sws) E2 HP2) as [c4 H4]. rewrite (bindM_ok _ _ _ _ _ _ H4). cbn [fst snd]. done_ret.
          -- apply STEP. cost. cost. specialize (HM c2 (Ies _ (or_introl eq_refl)) (Iws _ (or_introl eq_refl)) E1 HP1). cbn [agrees] in HM.
             destruct (rec u HV lc te tw bs nolim c2) as [c3 rr] eqn:ER. cbn [snd] in HM. subst rr. rewrite (bindM_ok _ _ _ _ _ _ ER). cbn [fst snd].
             destruct (IH c3 Hk' Ies' Iws' (sorted_tl _ _ Ses) (sorted_tl _ _ Sws) E2 HP2) as [c4 H4]. rewrite (bindM_err _ _ _ _ _ _ H4). done_err.
        * apply STEP. cost. cost. specialize (HM c2 (Ies _ (or_introl eq_refl)) (Iws _ (or_introl eq_refl)) E1 HP1). cbn [agrees] in HM.
          destruct (rec u HV lc te tw bs nolim c2) as [c3 rr] eqn:ER. cbn [snd] in HM. subst rr. rewrite (bindM_err _ _ _ _ _ _ ER). done_err.
      + destruct (i <? j) eqn:Elt.
        * (* missing *) apply N.ltb_lt in Elt.
          pose proof (rec_loop_ids _ _ _ _ _ Hl) as Hids.
          assert (F1 : find_field i ((j, tw) :: ws') = None).
          { apply find_field_none. cbn [map fst]. intros k0 [<-|Hk0]; [exact Elt|]. cbn [map fst] in Sws. pose proof (sorted_lt _ _ Sws k0 Hk0). lia. }
          assert (F2 : find_val i vs = None).
          { apply find_val_none. rewrite Hids. cbn [map fst]. intros k0 [<-|Hk0]; [exact Elt|]. cbn [map fst] in Sws. pose proof (sorted_lt _ _ Sws k0 Hk0). lia. }
          pose proof (MISSING i te es' true eq_refl F1 F2 (fun t => rec u HV lc t (TPrim PNull) bs) ltac:(intros; reflexivity) c1) as S.
          destruct (crec cv E ((j, tw) :: ws') vs ((i, te) :: es')) as [out|[]| |]; try exact I; apply STEP; exact S.
        * (* surplus *) apply N.ltb_ge in Elt. apply N.eqb_neq in Eij.
          assert (Hne : forall i0 te0, In (i0, te0) ((i, te) :: es') -> i0 <> j).
          { intros i0 te0 [X|X].
            - inversion X; subst. lia.
            - cbn [map fst] in Ses. pose proof (sorted_lt _ _ Ses i0 (in_map fst _ _ X)). cbn [fst] in *. lia. }
          pose proof (SURPLUS j tw ws' eq_refl Hne c1) as S.
          destruct (crec cv E ((j, tw) :: ws') vs ((i, te) :: es')) as [out|[]| |]; try exact I; apply STEP; exact S.
  Qed.
End FieldsCoerce.

(* ---------- vectors: the element loop of the coercion function and the element loop of the decoder ---------- *)
Fixpoint cvec (cv : val -> res val) (vs : list val) : res (list val) :=
  match vs with [] => Ok [] | w :: r => do w' <- cv w; do r' <- cvec cv r; Ok (w' :: r') end.
Lemma coerce_go_cvec cv : forall vs,
  (fix go (vs : list val) : res (list val) :=
     match vs with [] => Ok [] | w :: r => do w' <- cv w; do r' <- go r; Ok (w' :: r') end) vs = cvec cv vs.
Proof. induction vs as [|w r IH]; cbn [cvec]; [reflexivity|]. rewrite IH. reflexivity. Qed.

Lemma snd_ex {A} (m : cnt * res A) X : snd m = X <-> exists c', m = (c', X).
Proof. destruct m as [c0 r0]. cbn [snd]. split; [intros ->; eexists; reflexivity|intros [c' H]; inversion H; reflexivity]. Qed.

Lemma rep_coerce (cv : val -> res val) (dv : list N -> res (val * list N)) (step : list N -> M (val * list N)) (P : val -> Prop) :
  (forall bs v r c, dv bs = Ok (v, r) -> P v -> agrees (cv v) (step bs nolim c) r) ->
  forall n bs vs r c, read_n dv n bs = Ok (vs, r) -> Forall P vs ->
  match cvec cv vs with
  | Ok ws => exists c', rep n step bs nolim c = (c', Ok (ws, r))
  | Err ESub => exists c', rep n step bs nolim c = (c', Err ESub)
  | _ => True
  end.
Proof.
  intros Hs. induction n as [|n IH]; intros bs vs r c H HP; cbn [read_n rep] in *.
  - inversion H; subst. cbn [cvec]. done_ret.
  - unfold bind in H. destruct (dv bs) as [[v1 r1]| | |] eqn:E1; try discriminate. cbn [fst snd] in H.
    destruct (read_n dv n r1) as [[vs2 r2]| | |] eqn:E2; try discriminate. cbn [fst snd] in H. inversion H; subst vs r. clear H.
    inversion HP as [|x l HP1 HP2]; subst. cbn [cvec].
    pose proof (Hs bs v1 r1 c E1 HP1) as HM.
    destruct (cv v1) as [w'|[]| |] eqn:ECV; cbn [bind]; try exact I; cbn [agrees] in HM; apply snd_ex in HM as [c1 HM].
    + specialize (IH r1 vs2 r2 c1 E2 HP2).
      destruct (cvec cv vs2) as [ws|[]| |]; cbn [bind]; try exact I.
      * rewrite (bindM_ok _ _ _ _ _ _ HM). cbn [fst snd]. destruct IH as [c2 H2]. rewrite (bindM_ok _ _ _ _ _ _ H2). cbn [fst snd]. done_ret.
      * rewrite (bindM_ok _ _ _ _ _ _ HM). cbn [fst snd]. destruct IH as [c2 H2]. rewrite (bindM_err _ _ _ _ _ _ H2). done_err.
    + rewrite (bindM_err _ _ _ _ _ _ HM). done_err.
Qed.

(* ---------- the statement ---------- *)
Definition Spec (f g : nat) (E : env) (W : name -> bool) : Prop :=
  forall u lc e w bs v r c g0,
  ty_closed E e = true -> ty_closed E w = true -> side W false e = true -> side W true w = true ->
  dec_val g0 E w bs = Ok (v, r) -> (f + vdepth v < g)%nat ->
  agrees (coerce f E v w e) (de g E u HV lc e w bs nolim c) r.

(* mismatching primitive types: the decoder refuses with a subtype-class error *)
Lemma de_prim_mismatch g E u lc e w p q bs c : trace E e = Some (TPrim q) -> trace E w = Some (TPrim p) ->
  prim_eqb p q = false -> q <> PReserved -> (p = PNat /\ q = PInt -> False) ->
  exists c', de (S g) E u HV lc e w bs nolim c = (c', Err ESub).
Proof.
  intros He Hw Hpq Hr Hni. cbn [de]. unroll_with He Hw.
  destruct q; try (exfalso; apply Hr; reflexivity); destruct p; try discriminate Hpq; try (exfalso; apply Hni; split; reflexivity); done_err.
Qed.

Lemma sub_to_ref E a b : De.is_var a = false -> (match b with TFunc _ _ _ | TServ _ => True | _ => False end) ->
  sub_dec_fast E a b = true ->
  match a, b with
  | TFunc _ _ _, TFunc _ _ _ | TServ _, TServ _ | TPrim PEmpty, _ | TClass _ _, _ => True
  | _, _ => False
  end.
Proof.
  intros Va Hb H. apply sub_fast_nonvar in H; [|exact Va|destruct b; try contradiction; reflexivity].
  destruct H as [H|H].
  - apply ty_eqb_spec in H. subst a. destruct b; try contradiction; exact I.
  - destruct b; try contradiction; destruct a as [[]| | | | | | | | |]; try exact I; try discriminate Va; apply H; reflexivity.
Qed.

Lemma de_prim_nonprim g E u lc e w a q bs c : trace E e = Some (TPrim q) -> trace E w = Some a ->
  (match a with TPrim _ | TVar _ => False | _ => True end) -> q <> PReserved ->
  (match a with TServ _ => q <> PPrincipal | _ => True end) ->
  exists c', de (S g) E u HV lc e w bs nolim c = (c', Err ESub).
Proof.
  intros He Hw Ha Hr Hp. cbn [de]. unroll_with He Hw.
  destruct q; try (exfalso; apply Hr; reflexivity); destruct a; try contradiction; try (exfalso; apply Hp; reflexivity); done_err.
Qed.

Definition optres (cr : res val) : res val :=
  match cr with
  | Ok w' => Ok (VOpt (Some w')) | Err ESub => Ok (VOpt None)
  | Err EMal => Err EMal | Err EQuota => Err EQuota | Err EOther => Err EOther | Panic => Panic | OutOfFuel => OutOfFuel
  end.
Lemma recoverable_agrees (cr : res val) (m sk : M (val * list N)) u r c v0 :
  agrees cr (m nolim c) r -> (forall cx, exists c', sk nolim cx = (c', Ok (v0, r))) ->
  agrees (optres cr)
         (catch_sub (dom vr <- m; ret (VOpt (Some (fst vr)), snd vr)) (dom _ <- add_cost u 10; dom vr <- sk; ret (VOpt None, snd vr)) nolim c) r.
Proof.
  intros Hm Hs. destruct cr as [w'|[]| |]; cbn [agrees optres] in *; try exact I.
  - destruct (m nolim c) as [c1 rr] eqn:Em. cbn [snd] in Hm. subst rr. unfold catch_sub, bindM. rewrite Em. reflexivity.
  - destruct (m nolim c) as [c1 rr] eqn:Em. cbn [snd] in Hm. subst rr. unfold catch_sub. rewrite (bindM_err _ _ _ _ _ _ Em).
    apply snd_ex. cost. destruct (Hs c0) as [c2 H2]. rewrite (bindM_ok _ _ _ _ _ _ H2). cbn [fst snd]. done_ret.
Qed.
Lemma agrees_step {A} (cr : res A) (K : M (A * list N)) (k : unit -> M (A * list N)) u n r c :
  (forall cx, agrees cr (k tt nolim cx) r) -> agrees cr ((dom x <- add_cost u n; k x) nolim c) r.
Proof. intros H. destruct (add_cost_nolim u n c) as [c1 Hc]. rewrite (bindM_ok _ _ _ _ _ _ Hc). apply H. Qed.

Definition optwire (a : ty) : bool := match a with TPrim PNull | TPrim PReserved | TOpt _ => true | _ => false end.
Lemma de_opt_general g E u lc e w t2 a bs c : trace E e = Some (TOpt t2) -> trace E w = Some a -> optwire a = false ->
  exists c1, de (S g) E u HV lc e w bs nolim c =
    (dom t2'' <- tr E t2; catch_sub (dom vr <- de g E u HV lc t2'' a bs; ret (VOpt (Some (fst vr)), snd vr))
                                    (dom _ <- add_cost u 10; dom vr <- de g E true HI no_names a a bs; ret (VOpt None, snd vr))) nolim c1.
Proof.
  intros He Hw Ho. cbn [de].
  destruct (unroll_nolim2 u E e w _ _ c He Hw) as [c0 Hu]. rewrite (bindM_ok _ _ _ _ _ _ Hu). cbv beta iota.
  destruct (add_cost_nolim u 1 c0) as [c1 Hc1]. rewrite (bindM_ok _ _ _ _ _ _ Hc1).
  exists c1. destruct a as [[]| | | | | | | | |]; try discriminate Ho; reflexivity.
Qed.

Lemma de_head_mismatch g E u lc e w b a bs c : trace E e = Some b -> trace E w = Some a ->
  (match b, a with
   | TVec _, TVec _ | TRec _, TRec _ | TVariant _, TVariant _ => False
   | (TVec _ | TRec _ | TVariant _), TVar _ => False
   | (TVec _ | TRec _ | TVariant _), _ => True
   | _, _ => False
   end) ->
  exists c', de (S g) E u HV lc e w bs nolim c = (c', Err ESub).
Proof.
  intros He Hw Hm. cbn [de]. unroll_with He Hw.
  destruct b; try contradiction; destruct a as [[]| | | | | | | | |]; try contradiction;
    try (cost; done_err);
    unfold is_blob at 2; rewrite Bool.andb_false_r; cost; done_err.
Qed.

Lemma vdepth_vec_elem x vs : In x vs -> (vdepth x < vdepth (VVec vs))%nat.
Proof. intros H. cbn [vdepth]. pose proof (fold_max_le vdepth vs x H). lia. Qed.
Lemma vdepth_rec_elem (x : N * val) vs : In x vs -> (vdepth (snd x) < vdepth (VRec vs))%nat.
Proof. intros H. cbn [vdepth]. pose proof (fold_max_le (fun f0 : N * val => vdepth (snd f0)) vs x H). cbn beta in *. lia. Qed.

Lemma cvec_id (cv : val -> res val) vs : (forall w, In w vs -> cv w = Ok w \/ cv w = OutOfFuel) ->
  match cvec cv vs with Ok ws => ws = vs | OutOfFuel => True | _ => False end.
Proof.
  induction vs as [|w r IH]; intros H; cbn [cvec]; [reflexivity|].
  destruct (H w (or_introl eq_refl)) as [-> | ->]; cbn [bind]; [|exact I].
  specialize (IH (fun x Hx => H x (or_intror Hx))). destruct (cvec cv r) as [ws| | |]; cbn [bind]; try contradiction; try exact I. subst. reflexivity.
Qed.
Lemma coerce_prim_id f E v t1 t2 p : trace E t1 = Some (TPrim p) -> trace E t2 = Some (TPrim p) ->
  p <> PReserved -> p <> PEmpty -> coerce f E v t1 t2 = Ok v \/ coerce f E v t1 t2 = OutOfFuel.
Proof.
  intros H1 H2 Hr He. destruct f; [right; reflexivity|left]. cbn [coerce]. rewrite H1, H2.
  destruct p; try (exfalso; apply Hr; reflexivity); try (exfalso; apply He; reflexivity); reflexivity.
Qed.

Lemma de_reserved g g0 E u lc tw bs v r c : wf_env E = true -> ty_closed E tw = true ->
  dec_val g0 E tw bs = Ok (v, r) -> (S (vdepth v) < g)%nat ->
  exists c', de g E u HV lc (TPrim PReserved) tw bs nolim c = (c', Ok (VReserved, r)).
Proof.
  intros Hwf Hc H Hg. destruct g as [|g]; [lia|].
  destruct (trace_closed E tw Hwf Hc) as (a & Ta & Hca & Hva).
  assert (SK : forall cx, exists c', de g E true HI no_names a a bs nolim cx = (c', Ok (v, r))).
  { intros cx. rewrite (dec_val_trace _ _ _ _ _ Ta) in H. eapply skip_is_dec; try eassumption. lia. }
  cbn [de]. unroll_with (eq_refl : trace E (TPrim PReserved) = Some (TPrim PReserved)) Ta.
  destruct a as [[]| | | | | | | | |]; try discriminate Hva;
    try (rewrite bindM_assoc; match goal with |- exists c', bindM (de _ _ _ _ _ _ _ _) _ nolim ?cc = _ => destruct (SK cc) as [c1 S1] end;
         rewrite (bindM_ok _ _ _ _ _ _ S1); cbn [fst snd]; rewrite bindM_ret; cost; done_ret).
  rewrite (dec_val_trace _ _ _ _ _ Ta) in H. destruct g0; [discriminate|]. cbn [dec_val trace trace_f] in H. inversion H; subst. rewrite bindM_ret. cost. done_ret.
Qed.

Lemma de_ref_mismatch g E u lc e w b a bs c : trace E e = Some b -> trace E w = Some a ->
  (match b with TFunc _ _ _ | TServ _ => True | _ => False end) -> sub_dec_fast E a b = false ->
  exists c', de (S g) E u HV lc e w bs nolim c = (c', Err ESub).
Proof.
  intros He Hw Hb Hs. cbn [de]. unroll_with He Hw.
  destruct b; try contradiction; cost; rewrite Hs; done_err.
Qed.
Lemma coerce_to_null f E w0 tw a' : trace E tw = Some a' -> a' <> TPrim PNull ->
  match coerce f E w0 tw (TPrim PNull) with Ok _ => False | _ => True end.
Proof.
  intros Ht Hn. destruct f; [exact I|]. cbn [coerce]. rewrite Ht. cbn [trace trace_f].
  destruct a' as [[]| | | | | | | | |]; try exact I; try (exfalso; apply Hn; reflexivity); cbn [prim_eqb]; try exact I; destruct w0; exact I.
Qed.

Theorem de_is_coerce E W : wf_env E = true -> sides W E -> forall f g, Spec f g E W.
Proof.
  intros Hwf HS. induction f as [|f IH]; intros g u lc e w bs v r c g0 Hce Hcw Hse Hsw H Hg; [exact I|].
  destruct g as [|g]; [lia|].
  destruct (trace_closed E e Hwf Hce) as (b & He & Hcb & Hvb).
  destruct (trace_closed E w Hwf Hcw) as (a & Hw & Hca & Hva).
  destruct (side_trace W E false e b HS Hse He) as [Hsb _].
  destruct (side_trace W E true w a HS Hsw Hw) as [Hsa Hnn].
  rewrite (dec_val_trace _ _ _ _ _ Hw) in H.
  assert (Hdep : (vdepth v < g)%nat) by lia.
  assert (Hfg : (f + vdepth v < g)%nat) by lia.
  assert (SKIP : forall cx, exists c', de g E true HI no_names a a bs nolim cx = (c', Ok (v, r))).
  { intros cx. eapply skip_is_dec; eassumption. }
  destruct g0 as [|g0]; [discriminate|].
  assert (Ta : trace E a = Some a) by (eapply trace_idem; exact Hw).
  cbn [coerce]. rewrite Hw, He.
  destruct b as [q| |t2|t2|es|es|ea er em|ems| |]; try discriminate Hvb; try discriminate Hsb; try discriminate Hcb.
  - (* expected: a primitive type *)
    destruct (prim_eqb q PReserved) eqn:Eres.
    + (* reserved: the value is skipped *)
      apply prim_eqb_spec in Eres. subst q. cbn [agrees]. apply snd_ex. cbn [de]. unroll_with He Hw.
      destruct a as [[]| | | | | | | | |]; try discriminate Hva;
        try (rewrite bindM_assoc; match goal with |- exists c', bindM (de _ _ _ _ _ _ _ _) _ nolim ?cc = _ => destruct (SKIP cc) as [c1 S1] end;
             rewrite (bindM_ok _ _ _ _ _ _ S1); cbn [fst snd]; rewrite bindM_ret; cost; done_ret).
      cbn [dec_val trace trace_f] in H. inversion H; subst. rewrite bindM_ret. cost. done_ret.
    + assert (Hqr : q <> PReserved) by (intros ->; discriminate Eres).
      destruct a as [p| |t1|t1|ws|ws|wa wr wm|wms| |]; try discriminate Hva; try discriminate Hca;
        try (assert (HD : exists c', de (S g) E u HV lc e w bs nolim c = (c', Err ESub)) by (eapply de_prim_nonprim; try eassumption; exact I);
                destruct q; try (exfalso; apply Hqr; reflexivity); cbn [agrees]; apply snd_ex; exact HD).
      * (* wire: a primitive type *)
        destruct (prim_eqb p q) eqn:Epq.
        -- apply prim_eqb_spec in Epq. subst p.
           assert (HD : exists c', de (S g) E u HV lc e w bs nolim c = (c', Ok (v, r))).
           { eapply de_at_wire_type_host; try eassumption; apply (dec_val_fuel _ _ _ _ _ _ H); lia. }
           destruct q; try (exfalso; apply Hqr; reflexivity); cbn [prim_eqb agrees]; try exact I; apply snd_ex; exact HD.
        -- destruct (prim_eqb p PNat && prim_eqb q PInt) eqn:Eni.
           ++ apply andb_true_iff in Eni as [E1 E2]. apply prim_eqb_spec in E1. apply prim_eqb_spec in E2. subst p q.
              cbn [dec_val trace trace_f] in H. destruct (split_leb bs) as [[pp rr]|] eqn:Es; [|discriminate]. inversion H; subst v r.
              cbn [agrees]. apply snd_ex. cbn [de]. unroll_with He Hw. cbn [de_int]. rewrite Es. cost. done_ret.
           ++ assert (HD : exists c', de (S g) E u HV lc e w bs nolim c = (c', Err ESub)).
              { eapply de_prim_mismatch; try eassumption. intros [-> ->]. discriminate Eni. }
              destruct q; try (exfalso; apply Hqr; reflexivity); destruct p; try discriminate Epq; try discriminate Eni; cbn [prim_eqb agrees]; try exact I;
                try (apply snd_ex; exact HD); destruct v; cbn [agrees]; apply snd_ex; exact HD.
      * (* a service reference read as a principal *)
      destruct (prim_eqb q PPrincipal) eqn:Epp.
      -- apply prim_eqb_spec in Epp. subst q.
        cbn [dec_val trace trace_f] in H. unfold bind in H. destruct (dec_principal_bytes bs) as [[pb r1]| | |] eqn:E1; try discriminate. cbn [fst snd] in H. inversion H; subst.
        cbn [agrees]. apply snd_ex. cbn [de]. unroll_with He Hw. rewrite E1. rewrite bindM_liftR. cbn [fst snd]. cost. done_ret.
      -- assert (HD : exists c', de (S g) E u HV lc e w bs nolim c = (c', Err ESub)).
        { eapply de_prim_nonprim; try eassumption; try exact I. intros ->. discriminate Epp. }
        destruct q; try (exfalso; apply Hqr; reflexivity); try discriminate Epp; cbn [agrees]; apply snd_ex; exact HD.
  - (* expected: opt *)
    cbn [ty_closed] in Hcb. cbn [side] in Hsb.
    destruct (trace_closed E t2 Hwf Hcb) as (t2' & T2 & Hc2 & Hv2).
    destruct (side_trace W E false t2 t2' HS Hsb T2) as [Hs2 _].
    assert (GEN : forall cx, agrees (optres (coerce f E v a t2))
              ((dom t2'' <- tr E t2; catch_sub (dom vr <- de g E u HV lc t2'' a bs; ret (VOpt (Some (fst vr)), snd vr))
                                               (dom _ <- add_cost u 10; dom vr <- de g E true HI no_names a a bs; ret (VOpt None, snd vr))) nolim cx) r).
    { intros cx. unfold tr. rewrite T2. rewrite bindM_ret. rewrite (coerce_trace f E v a t2 a t2' Ta T2).
      pose proof (IH g u lc t2' a bs v r cx (S g0) Hc2 Hca Hs2 Hsa H Hfg) as HI.
      exact (recoverable_agrees _ _ _ u r cx v HI SKIP). }
    destruct a as [p| |t1|t1|ws|ws|wa wr wm|wms| |]; try discriminate Hva; try discriminate Hca.
    + destruct p; try (destruct (de_opt_general g E u lc e w t2 _ bs c He Hw eq_refl) as [c1 ->]; apply GEN).
      * cbn [dec_val trace trace_f] in H. inversion H; subst. cbn [agrees]. apply snd_ex. cbn [de]. unroll_with He Hw. cost. done_ret.
      * cbn [dec_val trace trace_f] in H. inversion H; subst. cbn [agrees]. apply snd_ex. cbn [de]. unroll_with He Hw. cost. done_ret.
    + (* opt on the wire *)
      cbn [ty_closed] in Hca. cbn [side] in Hsa.
      cbn [dec_val trace trace_f] in H. destruct bs as [|b0 r0]; [discriminate|]. destruct b0 as [|[| |]]; try discriminate.
      * inversion H; subst. cbn [agrees]. apply snd_ex. cbn [de]. unroll_with He Hw. cost. done_ret.
      * unfold bind in H. destruct (dec_val g0 E t1 r0) as [[w0 r1]| | |] eqn:E1; try discriminate. cbn [fst snd] in H. inversion H; subst v r.
        cbn [de]. destruct (unroll_nolim2 u E e w _ _ c He Hw) as [c0 Hu]. rewrite (bindM_ok _ _ _ _ _ _ Hu). cbv beta iota.
        destruct (add_cost_nolim u 1 c0) as [c1 Hc1]. rewrite (bindM_ok _ _ _ _ _ _ Hc1).
        assert (F1 : (f + vdepth w0 < g)%nat) by (clear - Hfg; cbn [vdepth] in Hfg; lia).
        assert (F2 : (vdepth w0 < g)%nat) by (clear - Hdep; cbn [vdepth] in Hdep; lia).
        pose proof (IH g u lc t2 t1 r0 w0 r1 c1 g0 Hcb Hca Hsb Hsa E1 F1) as HI.
        assert (SK : forall cx, exists c', de g E true De.HI no_names t1 t1 r0 nolim cx = (c', Ok (w0, r1))) by (intros cx; eapply skip_is_dec; eassumption).
        exact (recoverable_agrees _ _ _ u r1 c1 w0 HI SK).
    + destruct (de_opt_general g E u lc e w t2 _ bs c He Hw eq_refl) as [c1 ->]; apply GEN.
    + destruct (de_opt_general g E u lc e w t2 _ bs c He Hw eq_refl) as [c1 ->]; apply GEN.
    + destruct (de_opt_general g E u lc e w t2 _ bs c He Hw eq_refl) as [c1 ->]; apply GEN.
    + destruct (de_opt_general g E u lc e w t2 _ bs c He Hw eq_refl) as [c1 ->]; apply GEN.
    + destruct (de_opt_general g E u lc e w t2 _ bs c He Hw eq_refl) as [c1 ->]; apply GEN.
    + destruct (de_opt_general g E u lc e w t2 _ bs c He Hw eq_refl) as [c1 ->]; apply GEN.
  - (* expected: vec *)
    cbn [ty_closed] in Hcb. cbn [side] in Hsb.
    destruct a as [p| |t1|t1|ws|ws|wa wr wm|wms| |]; try discriminate Hva; try discriminate Hca;
      try (assert (HD : exists c', de (S g) E u HV lc e w bs nolim c = (c', Err ESub)) by (eapply de_head_mismatch; try eassumption; exact I);
           try (destruct p); cbn [agrees]; try exact I; apply snd_ex; exact HD).
    cbn [ty_closed] in Hca. cbn [side] in Hsa.
    destruct (trace_closed E t1 Hwf Hca) as (t1' & T1 & Hc1 & Hv1).
    destruct (side_trace W E true t1 t1' HS Hsa T1) as [Hs1 _].
    destruct (trace_closed E t2 Hwf Hcb) as (t2' & T2 & Hc2 & Hv2).
    cbn [dec_val] in H. rewrite Ta in H. unfold bind in H.
    destruct (read_u64 bs) as [[len r1]| | |] eqn:E1; try discriminate. cbn [fst snd] in H.
    destruct (max_count <? len) eqn:Em; [discriminate|].
    rewrite (vec_go_read_n (dec_val g0 E t1)) in H.
    destruct (read_n (dec_val g0 E t1) (N.to_nat len) r1) as [[vs r2]| | |] eqn:E2; try discriminate. cbn [fst snd] in H. inversion H; subst v r. clear H.
    rewrite (coerce_go_cvec (fun w0 => coerce f E w0 t1 t2)).
    assert (Hdv : forall bs0, dec_val g0 E t1 bs0 = dec_val g0 E t1' bs0) by (intros; apply dec_val_trace; exact T1).
    assert (FD : Forall (fun x => (f + vdepth x < g)%nat) vs).
    { apply Forall_forall. intros x Hx. pose proof (vdepth_vec_elem x vs Hx) as Hlt. clear - Hfg Hlt. lia. }
    assert (Hlen : len <= 2000000) by (apply N.ltb_ge in Em; rewrite max_count_val in Em; exact Em).
    cbn [de]. destruct (unroll_nolim2 u E e w _ _ c He Hw) as [c0 Hu]. rewrite (bindM_ok _ _ _ _ _ _ Hu). cbv beta iota. clear Hu.
    unfold is_blob. rewrite T1, T2.
    destruct (match t2' with TPrim PNat8 => true | _ => false end && match t1' with TPrim PNat8 => true | _ => false end) eqn:Eb.
    + (* both blobs *)
      apply andb_true_iff in Eb as [B2 B1].
      assert (t2' = TPrim PNat8) by (destruct t2' as [[]| | | | | | | | |]; try discriminate; reflexivity). subst t2'.
      assert (t1' = TPrim PNat8) by (destruct t1' as [[]| | | | | | | | |]; try discriminate; reflexivity). subst t1'.
      assert (HV : vs = map (VNatN 8) (firstn (N.to_nat len) r1) /\ r2 = skipn (N.to_nat len) r1 /\ len <= N.of_nat (length r1)).
      { destruct g0 as [|g0'].
        - destruct (read_n_nofuel _ (fun _ => eq_refl) _ _ _ _ E2) as (K & -> & ->). assert (len = 0) by (clear - K; lia). subst len. repeat split; try reflexivity. apply N.le_0_l.
        - rewrite (read_n_ext _ (read_prim PNat8)) in E2 by (intros; rewrite Hdv; apply dec_val_fixed; reflexivity).
          pose proof (read_n_prim_total PNat8 eq_refl _ _ _ _ E2) as Ht. cbn [prim_size] in Ht.
          rewrite blob_is_elementwise in E2 by (clear - Ht; lia). inversion E2; subst. repeat split; try reflexivity. clear - Ht; lia. }
      destruct HV as (-> & -> & Hle).
      pose proof (cvec_id (fun w0 => coerce f E w0 t1 t2) (map (VNatN 8) (firstn (N.to_nat len) r1))
                    (fun w0 _ => coerce_prim_id f E w0 t1 t2 PNat8 T1 T2 ltac:(discriminate) ltac:(discriminate))) as HC.
      destruct (cvec (fun w0 => coerce f E w0 t1 t2) (map (VNatN 8) (firstn (N.to_nat len) r1))) as [ws'| | |]; try contradiction; cbn [bind agrees]; try exact I.
      subst ws'. apply snd_ex. rewrite E1. rewrite bindM_liftR. cbn [fst snd]. cost. rewrite take_bytes_firstn by exact Hle. rewrite bindM_liftR. cbn [fst snd]. done_ret.
    + (* element by element, or one of the bulk paths *)
      destruct (add_cost_nolim u 1 c0) as [c1 Hk1]. rewrite (bindM_ok _ _ _ _ _ _ Hk1). clear Hk1. unfold tr. rewrite T1. rewrite bindM_ret. rewrite E1. rewrite bindM_liftR. cbn [fst snd].
      destruct (exact_prim t2 t1') as [p|] eqn:Ex.
      * (* fixed-width elements: the bulk path *)
        apply exact_prim_same in Ex as (-> & -> & Hp).
        assert (T2' : trace E (TPrim p) = Some (TPrim p)) by reflexivity.
        pose proof (cvec_id (fun w0 => coerce f E w0 t1 (TPrim p)) vs
                      (fun w0 _ => coerce_prim_id f E w0 t1 (TPrim p) p T1 T2' ltac:(intros ->; discriminate Hp) ltac:(intros ->; discriminate Hp))) as HC.
        destruct (cvec (fun w0 => coerce f E w0 t1 (TPrim p)) vs) as [ws'| | |]; try contradiction; cbn [bind agrees]; try exact I.
        subst ws'. apply snd_ex. unfold checked_mul.
        assert (B1 : len * (3 + prim_size p) <=? usize_max = true) by (apply N.leb_le; rewrite usize_max_val; pose proof (prim_size_le p) as PS; clear - Hlen PS; nia).
        assert (B2 : len * prim_size p <=? usize_max = true) by (apply N.leb_le; rewrite usize_max_val; pose proof (prim_size_le p) as PS; clear - Hlen PS; nia).
        rewrite B1. rewrite bindM_ret. cost. rewrite B2. rewrite bindM_ret.
        destruct g0 as [|g0'].
        -- destruct (read_n_nofuel _ (fun _ => eq_refl) _ _ _ _ E2) as (K & -> & ->).
           assert (len = 0) by (clear - K; lia). subst len.
           assert (B3 : N.of_nat (length r1) <? 0 * prim_size p = false) by (apply N.ltb_ge; clear; lia).
           rewrite B3. change (N.to_nat 0) with 0%nat. cbn [read_n]. rewrite bindM_liftR. cbn [fst snd]. done_ret.
        -- rewrite (read_n_ext _ (read_prim p)) in E2 by (intros; rewrite Hdv; apply dec_val_fixed; exact Hp).
           pose proof (read_n_prim_total p Hp _ _ _ _ E2) as Ht.
           assert (B3 : N.of_nat (length r1) <? len * prim_size p = false) by (apply N.ltb_ge; clear - Ht; lia).
           rewrite B3. rewrite E2. rewrite bindM_liftR. cbn [fst snd]. done_ret.
      * assert (B0 : max_count <? len = false) by exact Em. rewrite B0.
        assert (g0pos : forall bs0 v0 r0, dec_val g0 E t1 bs0 = Ok (v0, r0) -> exists g0', g0 = S g0').
        { intros bs0 v0 r0 Hd. destruct g0; [discriminate|eauto]. }
        destruct (big_fast t2 t1') as [bf|] eqn:Eg.
        -- (* big numbers: the element step is de_nat / de_int *)
           unfold checked_mul.
           assert (B1 : len * 3 <=? usize_max = true) by (apply N.leb_le; rewrite usize_max_val; clear - Hlen; lia).
           rewrite B1. rewrite bindM_ret. destruct (add_cost_nolim u (len * 3) c1) as [c2 Hk2]. rewrite (bindM_ok _ _ _ _ _ _ Hk2). clear Hk2.
           assert (Hstep : forall bs0 v0 r0 cx, dec_val g0 E t1 bs0 = Ok (v0, r0) -> True ->
                     agrees (coerce f E v0 t1 t2) ((match bf with BNat => de_nat u | _ => de_int u t1' end) bs0 nolim cx) r0).
           { intros bs0 v0 r0 cx Hd _. destruct (g0pos _ _ _ Hd) as [g0' ->]. rewrite Hdv in Hd.
             destruct f as [|f']; [exact I|]. cbn [coerce]. rewrite T1.
             unfold big_fast in Eg. destruct t2 as [[]| | | | | | | | |]; try discriminate; destruct t1' as [[]| | | | | | | | |]; try discriminate;
               inversion Eg; subst bf; cbn [trace trace_f]; cbn [dec_val trace trace_f] in Hd;
               (destruct (split_leb bs0) as [[p0 rr]|] eqn:Es; [|discriminate]); inversion Hd; subst; cbn [prim_eqb agrees]; apply snd_ex;
               unfold de_nat, de_int; rewrite Es; cost; done_ret. }
           pose proof (rep_coerce (fun w0 => coerce f E w0 t1 t2) (dec_val g0 E t1) (match bf with BNat => de_nat u | _ => de_int u t1' end) (fun _ => True) Hstep (N.to_nat len) r1 vs r2 c2 E2 ltac:(apply Forall_forall; intros; exact I)) as HR.
           destruct (cvec (fun w0 => coerce f E w0 t1 t2) vs) as [ws'|[]| |]; cbn [bind agrees]; try exact I; apply snd_ex; destruct HR as [c3 H3].
           ++ rewrite (bindM_ok _ _ _ _ _ _ H3). cbn [fst snd]. done_ret.
           ++ rewrite (bindM_err _ _ _ _ _ _ H3). done_err.
        -- (* the generic path *)
           assert (Hstep : forall bs0 v0 r0 cx, dec_val g0 E t1 bs0 = Ok (v0, r0) -> (f + vdepth v0 < g)%nat ->
                     agrees (coerce f E v0 t1 t2) ((dom _ <- add_cost u 3; de g E u HV lc t2 t1' bs0) nolim cx) r0).
           { intros bs0 v0 r0 cx Hd Hv0. destruct (add_cost_nolim u 3 cx) as [c2 Hk2]. rewrite (bindM_ok _ _ _ _ _ _ Hk2).
             rewrite Hdv in Hd. rewrite (coerce_trace f E v0 t1 t2 t1' t2' T1 T2). rewrite <- (coerce_trace f E v0 t1' t2 t1' t2' (trace_idem _ _ _ T1) T2).
             exact (IH g u lc t2 t1' bs0 v0 r0 c2 g0 Hcb Hc1 Hsb Hs1 Hd Hv0). }
           pose proof (rep_coerce (fun w0 => coerce f E w0 t1 t2) (dec_val g0 E t1) (fun bs0 => dom _ <- add_cost u 3; de g E u HV lc t2 t1' bs0) (fun x => (f + vdepth x < g)%nat) Hstep (N.to_nat len) r1 vs r2 c1 E2 FD) as HR.
           destruct (cvec (fun w0 => coerce f E w0 t1 t2) vs) as [ws'|[]| |]; cbn [bind agrees]; try exact I; apply snd_ex; destruct HR as [c3 H3].
           ++ rewrite (bindM_ok _ _ _ _ _ _ H3). cbn [fst snd]. done_ret.
           ++ rewrite (bindM_err _ _ _ _ _ _ H3). done_err.
  - (* expected: record *)
    cbn [ty_closed] in Hcb. cbn [side] in Hsb. apply andb_true_iff in Hcb as [Hcf Hue]. apply andb_true_iff in Hsb as [Sse Hsf].
    destruct a as [p| |t1|t1|ws|ws|wa wr wm|wms| |]; try discriminate Hva; try discriminate Hca;
      try (assert (HD : exists c', de (S g) E u HV lc e w bs nolim c = (c', Err ESub)) by (eapply de_head_mismatch; try eassumption; exact I);
           try (destruct p); cbn [agrees]; try exact I; apply snd_ex; exact HD).
    cbn [ty_closed] in Hca. cbn [side] in Hsa. apply andb_true_iff in Hca as [Hcw' Huw]. apply andb_true_iff in Hsa as [Ssw Hsw'].
    cbn [dec_val] in H. rewrite Ta in H. rewrite (rec_go_loop (dec_val g0 E)) in H. unfold bind in H.
    destruct (rec_loop (dec_val g0 E) ws bs) as [[vs r2]| | |] eqn:E2; try discriminate. cbn [fst snd] in H. inversion H; subst v r. clear H.
    rewrite (coerce_go_crec (coerce f E) E ws vs).
    assert (G2 : (2 <= g)%nat) by (clear - Hfg; cbn [vdepth] in Hfg; lia).
    assert (FD : Forall (fun iv : N * val => (f + S (vdepth (snd iv)) < g)%nat) vs).
    { apply Forall_forall. intros x Hx. pose proof (vdepth_rec_elem x vs Hx) as Hlt. clear - Hfg Hlt. lia. }
    rewrite forallb_forall in Hcf, Hsf, Hcw', Hsw'.
    cbn [de]. destruct (unroll_nolim2 u E e w _ _ c He Hw) as [c0 Hu]. rewrite (bindM_ok _ _ _ _ _ _ Hu). cbv beta iota. clear Hu.
    destruct (add_cost_nolim u 1 c0) as [c1 Hk1]. rewrite (bindM_ok _ _ _ _ _ _ Hk1). clear Hk1.
    match goal with |- agrees _ (bindM (de_fields ?RC _ _ _ _ ?k _ _ _) _ nolim _) _ =>
      pose proof (de_fields_coerce RC E u lc (coerce f E) (dec_val g0 E) (fun x => (f + S (vdepth x) < g)%nat) es ws) as DF end.
    cbv beta iota in DF.
    assert (DF' := fun H1 H2 H3 H4 H5 => DF H1 H2 H3 H4 H5 (S (length es + length ws)) es ws vs bs r2 c1 (Nat.lt_succ_diag_r _) (incl_refl _) (incl_refl _) Sse Ssw E2 FD). clear DF.
    assert (DR : match crec (coerce f E) E ws vs es with
                 | Ok out => exists c', de_fields (fun u0 h0 lc0 => match h0 with HV => de g E u0 HV lc0 | HI => fun _ tw => de g E true HI no_names tw tw end) E u HV lc (S (length es + length ws)) es ws bs nolim c1 = (c', Ok (out, r2))
                 | Err ESub => exists c', de_fields (fun u0 h0 lc0 => match h0 with HV => de g E u0 HV lc0 | HI => fun _ tw => de g E true HI no_names tw tw end) E u HV lc (S (length es + length ws)) es ws bs nolim c1 = (c', Err ESub)
                 | _ => True end).
    { apply DF'.
      - intros i te tw bs0 v0 r0 cx Hie Hiw Hd Hv0.
        apply (IH g u lc te tw bs0 v0 r0 cx g0 (Hcf _ Hie) (Hcw' _ Hiw) (Hsf _ Hie) (Hsw' _ Hiw) Hd). clear - Hv0. lia.
      - intros j tw bs0 v0 r0 cx Hiw Hd Hv0.
        destruct (de_reserved g g0 E u lc tw bs0 v0 r0 cx Hwf (Hcw' _ Hiw) Hd ltac:(clear - Hv0; lia)) as [c' Hc']. exists c', VReserved. exact Hc'.
      - intros te bs0 d cx Hd. exact (de_default g E u lc te bs0 d cx Hwf Hd G2).
      - intros i te bs0 cx Hie Hd. exact (de_nondefault g E W u lc te bs0 cx (Hcf _ Hie) Hwf HS (Hsf _ Hie) Hd ltac:(clear - G2; lia)).
      - intros i te Hie. destruct (trace_closed E te Hwf (Hcf _ Hie)) as (t' & Tt & _). exists t'. exact Tt. }
    destruct (crec (coerce f E) E ws vs es) as [out|[]| |]; cbn [bind agrees]; try exact I; apply snd_ex; destruct DR as [c3 H3].
    + rewrite (bindM_ok _ _ _ _ _ _ H3). cbn [fst snd]. done_ret.
    + rewrite (bindM_err _ _ _ _ _ _ H3). done_err.
  - (* expected: variant *)
    cbn [ty_closed] in Hcb. cbn [side] in Hsb. apply andb_true_iff in Hcb as [Hcf Hue].
    destruct a as [p| |t1|t1|ws|ws|wa wr wm|wms| |]; try discriminate Hva; try discriminate Hca;
      try (assert (HD : exists c', de (S g) E u HV lc e w bs nolim c = (c', Err ESub)) by (eapply de_head_mismatch; try eassumption; exact I);
           try (destruct p); cbn [agrees]; try exact I; apply snd_ex; exact HD).
    cbn [ty_closed] in Hca. cbn [side] in Hsa. apply andb_true_iff in Hca as [Hcw' Huw].
    cbn [dec_val] in H. rewrite Ta in H. unfold bind in H.
    destruct (read_u64 bs) as [[idx r1]| | |] eqn:E1; try discriminate. cbn [fst snd] in H.
    destruct (idx <? N.of_nat (length ws)) eqn:El; [|discriminate].
    destruct (nth_error ws (N.to_nat idx)) as [[i ti]|] eqn:En; [|discriminate].
    destruct (dec_val g0 E ti r1) as [[w0 r2]| | |] eqn:E2; try discriminate. cbn [fst snd] in H. inversion H; subst v r. clear H.
    pose proof (nth_error_In _ _ En) as Hin.
    rewrite (uniq_find i ti ws Huw Hin).
    rewrite forallb_forall in Hcf, Hsb, Hcw', Hsa.
    assert (F1 : (f + vdepth w0 < g)%nat) by (clear - Hfg; cbn [vdepth] in Hfg; lia).
    cbn [de]. destruct (unroll_nolim2 u E e w _ _ c He Hw) as [c0 Hu]. rewrite (bindM_ok _ _ _ _ _ _ Hu). cbv beta iota. clear Hu.
    destruct (add_cost_nolim u 1 c0) as [c1 Hk1]. rewrite (bindM_ok _ _ _ _ _ _ Hk1). clear Hk1.
    rewrite E1. rewrite bindM_liftR. cbn [fst snd]. rewrite El. rewrite En.
    destruct (find_field i es) as [te|] eqn:Fe; [|cbn [agrees]; reflexivity].
    apply find_field_In in Fe.
    destruct (add_cost_nolim u 4 c1) as [c2 Hk2]. rewrite (bindM_ok _ _ _ _ _ _ Hk2). clear Hk2.
    destruct (add_cost_nolim u (var_label_cost lc u i te) c2) as [c3 Hk3]. rewrite (bindM_ok _ _ _ _ _ _ Hk3). clear Hk3.
    assert (GENV : agrees (do w' <- coerce f E w0 ti te; Ok (VVariant i w'))
                     ((dom _ <- add_cost u 1; dom vr <- de g E u HV lc te ti r1; ret (VVariant i (fst vr), snd vr)) nolim c3) r2).
    { destruct (add_cost_nolim u 1 c3) as [c4 Hk4]. rewrite (bindM_ok _ _ _ _ _ _ Hk4). clear Hk4.
      pose proof (IH g u lc te ti r1 w0 r2 c4 g0 (Hcf _ Fe) (Hcw' _ Hin) (Hsb _ Fe) (Hsa _ Hin) E2 F1) as HI.
      destruct (coerce f E w0 ti te) as [w'|[]| |]; cbn [bind agrees] in *; try exact I; apply snd_ex in HI as [c5 H5]; apply snd_ex.
      - rewrite (bindM_ok _ _ _ _ _ _ H5). cbn [fst snd]. done_ret.
      - rewrite (bindM_err _ _ _ _ _ _ H5). done_err. }
    destruct te as [[]| | | | | | | | |]; try exact GENV.
    (* the unit payload: both sides must be null as written *)
    clear GENV. destruct (ty_eqb ti (TPrim PNull)) eqn:Etn.
    + apply ty_eqb_spec in Etn. subst ti. destruct g0 as [|g0']; [discriminate|]. cbn [dec_val trace trace_f] in E2. inversion E2; subst.
      destruct f as [|f']; [exact I|]. cbn [coerce trace trace_f prim_eqb bind agrees]. apply snd_ex. cost. done_ret.
    + assert (Hnn' : forall a', trace E ti = Some a' -> a' <> TPrim PNull).
      { intros a' Ta'. destruct (side_trace W E true ti a' HS (Hsa _ Hin) Ta') as [_ Hx].
        destruct (De.is_var ti) eqn:Vt; [apply Hx; reflexivity|].
        intros ->. destruct ti; try discriminate Vt; cbn [trace trace_f] in Ta'; inversion Ta'; subst. rewrite ty_eqb_refl in Etn. discriminate. }
      destruct (trace_closed E ti Hwf (Hcw' _ Hin)) as (a' & Ta' & _).
      pose proof (coerce_to_null f E w0 ti a' Ta' (Hnn' a' Ta')) as HN.
      assert (HD : exists c', (match ti with TPrim PNull => dom _ <- add_cost u 1; ret (VVariant i VNull, r1) | _ => failM ESub end) nolim c3 = (c', Err ESub)).
      { destruct ti as [[]| | | | | | | | |]; try done_err. rewrite ty_eqb_refl in Etn. discriminate. }
      destruct (coerce f E w0 ti (TPrim PNull)) as [w'|[]| |]; cbn [bind agrees]; try exact I; try contradiction. apply snd_ex. exact HD.
  - (* expected: a function reference *)
    destruct (sub_dec_fast E a (TFunc ea er em)) eqn:Esub.
    + pose proof (sub_to_ref E a (TFunc ea er em) Hva I Esub) as Hshape.
      destruct a as [[]| | | | | | | | |]; try contradiction; try discriminate Hca; try (cbn [agrees]; exact I).
      cbn [dec_val] in H. rewrite Ta in H.
      destruct bs as [|b0 r0]; [discriminate|]. destruct b0 as [|[| |]]; try discriminate.
      unfold bind in H. destruct (dec_principal_bytes r0) as [[pb r1]| | |] eqn:E1; try discriminate. cbn [fst snd] in H.
      destruct (read_u64 r1) as [[n r2]| | |] eqn:E2; try discriminate. cbn [fst snd] in H.
      destruct (take_bytes n r2) as [[m r3]| | |] eqn:E3; try discriminate. cbn [fst snd] in H.
      destruct (utf8_valid m) eqn:Eu; [|discriminate]. inversion H; subst v r. clear H.
      cbv beta iota. cbn [agrees]. apply snd_ex. cbn [de]. unroll_with He Hw. cost. rewrite Esub.
      rewrite E1. rewrite bindM_liftR. cbn [fst snd]. rewrite E2. rewrite bindM_liftR. cbn [fst snd]. rewrite E3. rewrite bindM_liftR. cbn [fst snd].
      cost. rewrite Eu. done_ret.
    + assert (HD : exists c', de (S g) E u HV lc e w bs nolim c = (c', Err ESub)) by (eapply de_ref_mismatch; try eassumption; exact I).
      destruct a as [[]| | | | | | | | |]; try (cbn [agrees]; try exact I; apply snd_ex; exact HD).
      destruct v; cbv beta iota; try rewrite Esub; cbn [agrees]; apply snd_ex; exact HD.
  - (* expected: a service reference *)
    destruct (sub_dec_fast E a (TServ ems)) eqn:Esub.
    + pose proof (sub_to_ref E a (TServ ems) Hva I Esub) as Hshape.
      destruct a as [[]| | | | | | | | |]; try contradiction; try discriminate Hca; try (cbn [agrees]; exact I).
      cbn [dec_val] in H. rewrite Ta in H.
      unfold bind in H. destruct (dec_principal_bytes bs) as [[pb r1]| | |] eqn:E1; try discriminate. cbn [fst snd] in H. inversion H; subst v r. clear H.
      cbv beta iota. cbn [agrees]. apply snd_ex. cbn [de]. unroll_with He Hw. cost. rewrite Esub.
      rewrite E1. rewrite bindM_liftR. cbn [fst snd]. cost. done_ret.
    + assert (HD : exists c', de (S g) E u HV lc e w bs nolim c = (c', Err ESub)) by (eapply de_ref_mismatch; try eassumption; exact I).
      destruct a as [[]| | | | | | | | |]; try (cbn [agrees]; try exact I; apply snd_ex; exact HD).
      destruct v; cbv beta iota; try rewrite Esub; cbn [agrees]; apply snd_ex; exact HD.
Qed.
