(* MemoProofs.v -- the memoising checker of subtype.rs ([Memo.chk]) decides the greatest relation closed under the
   rule function it implements, for EVERY history of queries sharing one gamma, whatever probes failed on the way.

   Method (parameterised co-induction): for a set A of assumptions, [G A] is the greatest relation whose members
   are justified by one rule application from members and assumptions.  Invariant of a call with in-progress
   assumptions A (the pairs being unfolded further up the stack): every pair in gamma is an assumption or in [G A].
   A pair whose unfolding succeeds is in [G (A + pair)], hence (accumulation) in [G A]; when it fails everything
   inserted since its mark is removed, which restores gamma.  With no assumption in progress [G] is the relation. *)
From Coq Require Import Lia.
From CandidV Require Import model.Memo proofs.TyProofs proofs.SubProofs.
Open Scope N_scope.

Lemma gmem_In g p : gmem g p = true <-> In p g.
Proof.
  unfold gmem, Gfp.mem. rewrite existsb_exists. split.
  - intros [x [Hx He]]. apply pair_eqb_spec in He. subst. exact Hx.
  - intros H. exists p. split; [exact H|]. apply pair_eqb_spec. reflexivity.
Qed.
Lemma gremove_In g p x : In x (gremove g p) <-> In x g /\ x <> p.
Proof.
  unfold gremove. rewrite filter_In. split; intros [H1 H2]; split; auto.
  - intros ->. rewrite (proj2 (pair_eqb_spec p p) eq_refl) in H2. discriminate.
  - destruct (pair_eqb p x) eqn:He; [|reflexivity]. apply pair_eqb_spec in He. congruence.
Qed.
Lemma fold_gremove_In l : forall g x, In x (fold_left gremove l g) <-> In x g /\ ~ In x l.
Proof.
  induction l as [|p l IH]; intros g x; cbn [fold_left].
  - cbn. tauto.
  - rewrite IH, gremove_In. cbn [In]. intuition congruence.
Qed.

Section MemoProofs.
  Variable planf : env -> ty -> ty -> plan.
  Variable E : env.

  Definition item_holds (R : pair -> Prop) (i : item) : Prop :=
    match i with IPrem q => R q | IGuard b => b = true end.
  Definition plan_holds (R : pair -> Prop) (p : plan) : Prop :=
    match p with PItems its => Forall (item_holds R) its | _ => True end.
  (* the rule function the algorithm implements: one call of subtype_ / equal_impl *)
  Definition mrule (R : pair -> Prop) (p : pair) : Prop :=
    if ty_eqb (fst p) (snd p) then True
    else if tvarb (fst p) then match trace E (fst p) with Some a' => R (a', snd p) | None => False end
    else if tvarb (snd p) then match trace E (snd p) with Some b' => R (fst p, b') | None => False end
    else plan_holds R (planf E (fst p) (snd p)).

  Lemma item_holds_mono (R R' : pair -> Prop) i : (forall q, R q -> R' q) -> item_holds R i -> item_holds R' i.
  Proof. destruct i; cbn; auto. Qed.
  Lemma plan_holds_mono (R R' : pair -> Prop) p : (forall q, R q -> R' q) -> plan_holds R p -> plan_holds R' p.
  Proof.
    intros H. destruct p; cbn; auto. intros HF. eapply Forall_impl; [|exact HF]. intros i. apply item_holds_mono, H.
  Qed.
  Lemma mrule_mono (R R' : pair -> Prop) p : (forall q, R q -> R' q) -> mrule R p -> mrule R' p.
  Proof.
    intros H. unfold mrule. destruct (ty_eqb (fst p) (snd p)); [auto|].
    destruct (tvarb (fst p)). { destruct (trace E (fst p)); auto. }
    destruct (tvarb (snd p)). { destruct (trace E (snd p)); auto. }
    apply plan_holds_mono, H.
  Qed.

  (* greatest relation justified from itself and the assumptions A *)
  Definition G (A : pair -> Prop) (p : pair) : Prop :=
    exists R : pair -> Prop, R p /\ forall q, R q -> mrule (fun x => R x \/ A x) q.
  Definition MRel : pair -> Prop := G (fun _ => False).

  Lemma G_unfold A p : G A p -> mrule (fun x => G A x \/ A x) p.
  Proof.
    intros [R [Hp HR]]. eapply mrule_mono; [|apply HR, Hp].
    intros q [Hq|Hq]; [left; exists R; split; assumption|right; exact Hq].
  Qed.
  Lemma G_fold A p : mrule (fun x => G A x \/ A x) p -> G A p.
  Proof.
    intros H. exists (fun x => G A x \/ x = p). split; [right; reflexivity|].
    intros q [Hq| ->].
    - eapply mrule_mono; [|apply G_unfold, Hq]. intros x [Hx|Hx]; [left; left; exact Hx|right; exact Hx].
    - eapply mrule_mono; [|exact H]. intros x [Hx|Hx]; [left; left; exact Hx|right; exact Hx].
  Qed.
  Lemma G_mono (A A' : pair -> Prop) p : (forall x, A x -> A' x) -> G A p -> G A' p.
  Proof.
    intros HA [R [Hp HR]]. exists R. split; [exact Hp|]. intros q Hq.
    eapply mrule_mono; [|apply HR, Hq]. intros x [Hx|Hx]; [left; exact Hx|right; apply HA, Hx].
  Qed.
  (* accumulation: an assumption that is itself justified can be discharged *)
  Lemma G_acc A p : G (fun x => A x \/ x = p) p -> forall q, G (fun x => A x \/ x = p) q -> G A q.
  Proof.
    intros Hp q Hq. exists (G (fun x => A x \/ x = p)). split; [exact Hq|].
    intros x Hx. eapply mrule_mono; [|apply G_unfold, Hx].
    intros y [Hy|[Hy| ->]]; [left; exact Hy|right; exact Hy|left; exact Hp].
  Qed.
  Lemma MRel_unfold p : MRel p -> mrule MRel p.
  Proof. intros H. eapply mrule_mono; [|apply G_unfold, H]. intros q [Hq|[]]. exact Hq. Qed.
  Lemma MRel_coind (R : pair -> Prop) : (forall q, R q -> mrule R q) -> forall p, R p -> MRel p.
  Proof.
    intros HR p Hp. exists R. split; [exact Hp|]. intros q Hq. eapply mrule_mono; [|apply HR, Hq]. intros x Hx. left. exact Hx.
  Qed.

  (* ------------------------------------------------------------------------------------------------------ *)
  Variable strict : bool.
  Notation chk := (Memo.chk planf E strict).

  Definition InvA (A : pair -> Prop) (g : list pair) : Prop := forall x, In x g -> A x \/ G A x.
  (* what one call guarantees, when it returns an answer *)
  Definition spec (A : pair -> Prop) (s : mst) (a b : ty) (o : mst * mres) : Prop :=
    (snd o = MOk \/ snd o = MErr) ->
    (exists new, snd (fst o) = new ++ snd s /\ forall x, In x (fst (fst o)) -> In x (fst s) \/ In x new)
    /\ InvA A (fst (fst o))
    /\ (snd o = MOk -> A (a, b) \/ G A (a, b))
    /\ (snd o = MErr -> strict = false -> ~ MRel (a, b)).

  Lemma spec_items (c : mst -> ty -> ty -> mst * mres) :
    (forall A s a b, InvA A (fst s) -> spec A s a b (c s a b)) ->
    forall its A s, InvA A (fst s) ->
      let o := run_items c its s in
      (snd o = MOk \/ snd o = MErr) ->
      (exists new, snd (fst o) = new ++ snd s /\ forall x, In x (fst (fst o)) -> In x (fst s) \/ In x new)
      /\ InvA A (fst (fst o))
      /\ (snd o = MOk -> Forall (item_holds (fun x => G A x \/ A x)) its)
      /\ (snd o = MErr -> strict = false -> ~ Forall (item_holds MRel) its).
  Proof.
    intros Hc. induction its as [|i its IH]; intros A s HI; cbn [run_items].
    - cbn. intros _. split; [exists []; split; [reflexivity|auto]|]. split; [exact HI|]. split; [constructor|discriminate].
    - destruct i as [q|[|]].
      + pose proof (Hc A s (fst q) (snd q) HI) as Hs. destruct (c s (fst q) (snd q)) as [s' r] eqn:Hcq.
        destruct r; cbn zeta.
        * (* MOk: continue *)
          destruct (Hs (or_introl eq_refl)) as [[n1 [Ht1 Hg1]] [HI1 [Hok1 _]]]. cbn [fst snd] in *.
          intros Ho. destruct (IH A s' HI1 Ho) as [[n2 [Ht2 Hg2]] [HI2 [Hok2 Herr2]]].
          split.
          { exists (n2 ++ n1). split; [rewrite Ht2, Ht1, app_assoc; reflexivity|].
            intros x Hx. destruct (Hg2 x Hx) as [Hx1|Hx2].
            - destruct (Hg1 x Hx1); [left; assumption|right; apply in_or_app; right; assumption].
            - right. apply in_or_app. left. exact Hx2. }
          split; [exact HI2|]. split.
          { intros Hk. constructor; [|apply Hok2, Hk]. cbn. destruct q. destruct (Hok1 eq_refl); [right|left]; assumption. }
          { intros Hk Hst HF. inversion HF; subst. exact (Herr2 Hk Hst H2). }
        * (* MErr *)
          intros _. destruct (Hs (or_intror eq_refl)) as [Hst1 [HI1 [_ Herr1]]]. cbn [fst snd] in *.
          split; [exact Hst1|]. split; [exact HI1|]. split; [discriminate|].
          intros _ Hst HF. inversion HF; subst. cbn in H1. destruct q. exact (Herr1 eq_refl Hst H1).
        * cbn. intros [H|H]; discriminate.
        * cbn. intros [H|H]; discriminate.
      + intros Ho. destruct (IH A s HI Ho) as [Hst [HI2 [Hok2 Herr2]]].
        split; [exact Hst|]. split; [exact HI2|]. split.
        * intros Hk. constructor; [reflexivity|apply Hok2, Hk].
        * intros Hk Hs HF. inversion HF; subst. exact (Herr2 Hk Hs H2).
      + cbn. intros _. split; [exists []; split; [reflexivity|auto]|]. split; [exact HI|]. split; [discriminate|].
        intros _ _ HF. inversion HF; subst. cbn in H1. discriminate.
  Qed.

  Lemma forget_spec (s s2 : mst) p new :
    snd s2 = new ++ p :: snd s ->
    (forall x, In x (fst s2) -> In x (p :: fst s) \/ In x new) ->
    let s' := forget_since s2 (length (snd s)) in
    snd s' = snd s /\ forall x, In x (fst s') -> In x (fst s).
  Proof.
    intros Ht Hg. unfold forget_since. cbn [fst snd]. rewrite Ht.
    assert (Hk : (length (new ++ p :: snd s) - length (snd s))%nat = length (new ++ [p])).
    { rewrite !app_length. cbn [length]. lia. }
    rewrite Hk. replace (new ++ p :: snd s) with ((new ++ [p]) ++ snd s) by (rewrite <- app_assoc; reflexivity).
    rewrite firstn_app, skipn_app, firstn_all, skipn_all, Nat.sub_diag. cbn [firstn skipn]. rewrite app_nil_r. cbn [app].
    split; [reflexivity|]. intros x Hx. apply fold_gremove_In in Hx. destruct Hx as [Hx Hn].
    destruct (Hg x Hx) as [[->|H]|H]; [exfalso; apply Hn, in_or_app; right; left; reflexivity|exact H|].
    exfalso. apply Hn, in_or_app. left. exact H.
  Qed.

  Lemma chk_spec : forall f A s a b, InvA A (fst s) -> spec A s a b (chk f s a b).
  Proof.
    induction f as [|f IH]; intros A s a b HI.
    { cbn. intros [H|H]; discriminate. }
    cbn [Memo.chk].
    destruct (ty_eqb a b) eqn:Eab.
    { (* t1 == t2 *)
      intros _. cbn [fst snd]. split; [exists []; split; [reflexivity|auto]|]. split; [exact HI|]. split; [|discriminate].
      intros _. right. apply G_fold. unfold mrule. cbn [fst snd]. rewrite Eab. exact I. }
    destruct (tvarb a || tvarb b) eqn:Ev.
    { (* a name on either side *)
      destruct (gmem (fst s) (a, b)) eqn:Em.
      { intros _. cbn [fst snd]. split; [exists []; split; [reflexivity|auto]|]. split; [exact HI|]. split; [|discriminate].
        intros _. apply gmem_In in Em. destruct (HI _ Em); [left|right]; assumption. }
      set (p := (a, b)). set (s1 := (p :: fst s, p :: snd s)).
      set (nx := if tvarb a then match trace E a with Some a' => Some (a', b) | None => None end
                 else match trace E b with Some b' => Some (a, b') | None => None end).
      destruct nx as [q|] eqn:Enx; [|cbn; intros [H|H]; discriminate].
      set (A' := fun x => A x \/ x = p).
      assert (HI1 : InvA A' (fst s1)).
      { intros x [<-|Hx]; [left; right; reflexivity|]. destruct (HI x Hx) as [H|H]; [left; left; exact H|].
        right. eapply G_mono; [|exact H]. intros y Hy. left. exact Hy. }
      pose proof (IH A' s1 (fst q) (snd q) HI1) as Hs.
      (* the premise of the unfolding step *)
      assert (Hstep : forall R : pair -> Prop, R q -> mrule R p).
      { intros R Hq. unfold mrule, p. cbn [fst snd]. rewrite Eab. subst nx.
        destruct (tvarb a).
        - destruct (trace E a); [|discriminate]. injection Enx as <-. exact Hq.
        - cbn in Ev. rewrite Ev. destruct (trace E b); [|discriminate]. injection Enx as <-. exact Hq. }
      assert (Hstep' : forall R : pair -> Prop, mrule R p -> R q).
      { intros R. unfold mrule, p. cbn [fst snd]. rewrite Eab. subst nx.
        destruct (tvarb a).
        - destruct (trace E a); [|discriminate]. injection Enx as <-. auto.
        - cbn in Ev. rewrite Ev. destruct (trace E b); [|discriminate]. injection Enx as <-. auto. }
      destruct (chk f s1 (fst q) (snd q)) as [s2 r] eqn:Hc. destruct r.
      - (* success: discharge the assumption *)
        intros _. destruct (Hs (or_introl eq_refl)) as [[new [Ht Hg]] [HI2 [Hok _]]]. cbn [fst snd] in *.
        assert (Hp : G A' p).
        { apply G_fold. apply Hstep. destruct q. destruct (Hok eq_refl); [right|left]; assumption. }
        split.
        { exists (new ++ [p]). split; [rewrite Ht, <- app_assoc; reflexivity|].
          intros x Hx. destruct (Hg x Hx) as [[<-|H]|H].
          - right. apply in_or_app. right. left. reflexivity.
          - left. exact H.
          - right. apply in_or_app. left. exact H. }
        split.
        { intros x Hx. destruct (HI2 x Hx) as [[H| ->]|H].
          - left. exact H.
          - right. exact (G_acc A p Hp p Hp).
          - right. exact (G_acc A p Hp x H). }
        split; [|discriminate]. intros _. right. exact (G_acc A p Hp p Hp).
      - (* failure: forget *)
        intros _. destruct (Hs (or_intror eq_refl)) as [[new [Ht Hg]] [_ [_ Herr]]]. cbn [fst snd] in *.
        destruct (forget_spec s s2 p new Ht Hg) as [Ht' Hg'].
        split; [exists []; split; [exact Ht'|intros x Hx; left; apply Hg', Hx]|].
        split; [intros x Hx; apply HI, Hg', Hx|]. split; [discriminate|].
        intros _ Hst HR. apply MRel_unfold in HR. apply Hstep' in HR. destruct q. exact (Herr eq_refl Hst HR).
      - cbn. intros [H|H]; discriminate.
      - cbn. intros [H|H]; discriminate. }
    (* structural arms *)
    assert (Hnv : tvarb a = false /\ tvarb b = false) by (destruct (tvarb a), (tvarb b); cbn in Ev; auto; discriminate).
    destruct Hnv as [Hva Hvb].
    assert (Hmr : forall R : pair -> Prop, mrule R (a, b) <-> plan_holds R (planf E a b)).
    { intros R. unfold mrule. cbn [fst snd]. rewrite Eab, Hva, Hvb. tauto. }
    (* the second probe and the warning arm *)
    assert (Hsecond : forall t2 s0, InvA A (fst s0) -> plan_holds (fun _ => True) (planf E a b) ->
              (forall R, plan_holds R (planf E a b)) ->
              spec A s0 a b (match chk f s0 a t2 with
                             | (s2, MOk) => (s2, if strict && optlike E t2 then MErr else MOk)
                             | (s2, MErr) => (s2, if strict then MErr else MOk)
                             | o => o end)).
    { intros t2 s0 HI0 _ Hall. pose proof (IH A s0 a t2 HI0) as Hs.
      destruct (chk f s0 a t2) as [s2 r] eqn:Hc. destruct r.
      - destruct (Hs (or_introl eq_refl)) as [Hst [HI2 _]]. cbn [fst snd] in *.
        intros _. cbn [fst snd]. split; [exact Hst|]. split; [exact HI2|]. split.
        + intros _. right. apply G_fold. apply Hmr, Hall.
        + destruct strict; [intros _ Hf; discriminate|cbn; discriminate].
      - destruct (Hs (or_intror eq_refl)) as [Hst [HI2 _]]. cbn [fst snd] in *.
        intros _. cbn [fst snd]. split; [exact Hst|]. split; [exact HI2|]. split.
        + intros _. right. apply G_fold. apply Hmr, Hall.
        + destruct strict; [intros _ Hf; discriminate|discriminate].
      - cbn. intros [H|H]; discriminate.
      - cbn. intros [H|H]; discriminate. }
    destruct (planf E a b) as [its|t1 t2|t2] eqn:Hp.
    - (* premises in order *)
      intros Ho. destruct (spec_items (chk f) (fun A s a b HI => IH A s a b HI) its A s HI Ho) as [Hst [HI2 [Hok Herr]]].
      split; [exact Hst|]. split; [exact HI2|]. split.
      + intros Hk. right. apply G_fold, Hmr. cbn. apply Hok, Hk.
      + intros Hk Hs HR. apply MRel_unfold, Hmr in HR. exact (Herr Hk Hs HR).
    - (* opt / opt: first probe *)
      pose proof (IH A s t1 t2 HI) as Hs. destruct (chk f s t1 t2) as [s1 r] eqn:Hc. destruct r.
      + destruct (Hs (or_introl eq_refl)) as [Hst [HI2 _]]. cbn [fst snd] in *.
        intros _. cbn [fst snd]. split; [exact Hst|]. split; [exact HI2|]. split; [|discriminate].
        intros _. right. apply G_fold, Hmr. exact I.
      + destruct (Hs (or_intror eq_refl)) as [[n1 [Ht1 Hg1]] [HI2 _]]. cbn [fst snd] in *.
        intros Ho. destruct (Hsecond t2 s1 HI2 I (fun _ => I) Ho) as [[n2 [Ht2 Hg2]] [HI3 [Hok Herr]]].
        split.
        { exists (n2 ++ n1). split; [rewrite Ht2, Ht1, app_assoc; reflexivity|].
          intros x Hx. destruct (Hg2 x Hx) as [Hx1|Hx2].
          - destruct (Hg1 x Hx1); [left; assumption|right; apply in_or_app; right; assumption].
          - right. apply in_or_app. left. exact Hx2. }
        split; [exact HI3|]. split; assumption.
      + cbn. intros [H|H]; discriminate.
      + cbn. intros [H|H]; discriminate.
    - exact (Hsecond t2 s HI I (fun _ => I)).
  Qed.

  (* ---------- one top-level query, and whole histories ---------- *)
  Theorem query_correct f g a b :
    (forall x, In x g -> MRel x) ->
    let o := query planf E strict f g a b in
    (snd o = MOk -> MRel (a, b)) /\
    (snd o = MErr -> strict = false -> ~ MRel (a, b)) /\
    (snd o = MOk \/ snd o = MErr -> forall x, In x (fst o) -> MRel x).
  Proof.
    intros Hg. unfold query. pose proof (chk_spec f (fun _ => False) (g, []) a b) as Hs.
    destruct (chk f (g, []) a b) as [[g' t'] r] eqn:Hc. cbn [fst snd] in *.
    assert (HI : InvA (fun _ => False) g) by (intros x Hx; right; apply Hg, Hx).
    specialize (Hs HI). unfold spec in Hs. cbn [fst snd] in Hs.
    split; [|split].
    - intros ->. destruct (Hs (or_introl eq_refl)) as [_ [_ [Hok _]]]. destruct (Hok eq_refl) as [[]|H]. exact H.
    - intros -> Hst. destruct (Hs (or_intror eq_refl)) as [_ [_ [_ Herr]]]. exact (Herr eq_refl Hst).
    - intros Hr x Hx. destruct (Hs Hr) as [_ [HI2 _]]. destruct (HI2 x Hx) as [[]|H]. exact H.
  Qed.
End MemoProofs.

Definition answered (r : mres) : bool := match r with MOk | MErr => true | _ => false end.

(* every answer given along a history of queries that share one memo is the right one, provided no call ran out of
   fuel or hit an unbound name before it (OptReport::Silence / Warning) *)
Theorem history_correct planf E f : forall qs g,
  (forall x, In x g -> MRel planf E x) ->
  let o := history planf E false f g qs in
  forallb answered (snd o) = true ->
  Forall2 (fun q r => (r = MOk <-> MRel planf E q)) qs (snd o) /\ forall x, In x (fst o) -> MRel planf E x.
Proof.
  induction qs as [|q qs IH]; intros g Hg; cbn [history].
  - cbn. intros _. split; [constructor|exact Hg].
  - pose proof (query_correct planf E false f g (fst q) (snd q) Hg) as Hq.
    destruct (query planf E false f g (fst q) (snd q)) as [g1 x] eqn:Eq. cbn [fst snd] in Hq.
    destruct Hq as [Hok [Herr Hinv]].
    destruct (history planf E false f g1 qs) as [g2 xs] eqn:Eh. cbn [fst snd].
    intros Hans. cbn [forallb] in Hans. apply andb_true_iff in Hans. destruct Hans as [Hx Hxs].
    assert (Hr : x = MOk \/ x = MErr) by (destruct x; cbn in Hx; auto; discriminate).
    specialize (IH g1 (Hinv Hr)). rewrite Eh in IH. cbn [fst snd] in IH. destruct (IH Hxs) as [HF Hg2].
    split; [|exact Hg2]. constructor; [|exact HF].
    destruct q as [a b]. cbn [fst snd] in *. split; [exact Hok|].
    intros HR. destruct Hr as [->| ->]; [reflexivity|]. exfalso. exact (Herr eq_refl eq_refl HR).
Qed.
