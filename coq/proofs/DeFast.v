(* DeFast.v -- the specialised paths of the decoder model read what the generic element-by-element path reads:
   the primitive-vector bulk path, the big-number path and the blob path never produce a value the generic path
   would not (they differ in what they charge, not in what they return). *)
From CandidV Require Import Consts model.Leb model.De proofs.DeProofs proofs.DeCost.
From Coq Require Import Lia ZifyBool ZifyNat ZifyN.
Open Scope N_scope.

Definition nolim : lim := (None, None).

Lemma add_cost_nolim u n c : exists c', add_cost u n nolim c = (c', Ok tt).
Proof. unfold add_cost, nolim. cbn [fst snd]. destruct u; eexists; reflexivity. Qed.

(* the generic element step at equal fixed-width primitive types is read_prim *)
Definition fixed (p : prim) : bool := match exact_prim (TPrim p) (TPrim p) with Some _ => true | None => false end.

Lemma de_prim_elem f E u h lc p bs c : fixed p = true ->
  snd (de (S f) E u h lc (TPrim p) (TPrim p) bs nolim c) = read_prim p bs.
Proof.
  intros Hp. cbn [de]. unfold unroll, unroll1, bindM, ret. cbn [is_var].
  destruct p; try discriminate Hp; cbn [prim_eqb];
    match goal with |- context [add_cost u ?n nolim c] => destruct (add_cost_nolim u n c) as [c' Hc]; rewrite Hc end;
    reflexivity.
Qed.

Lemma exact_prim_same e w p : exact_prim e w = Some p -> e = TPrim p /\ w = TPrim p /\ fixed p = true.
Proof.
  unfold exact_prim. destruct e as [q| | | | | | | | |]; try discriminate. destruct w as [q'| | | | | | | | |]; try discriminate.
  destruct (prim_eqb q q') eqn:E; [|discriminate].
  assert (q = q') by (destruct q, q'; try discriminate; reflexivity). subst q'.
  intros H. assert (q = p) by (destruct q; try discriminate; inversion H; reflexivity). subst q.
  repeat split. unfold fixed, exact_prim. rewrite E. destruct p; try discriminate; reflexivity.
Qed.

(* C08: the bulk path for primitive vectors returns exactly what decoding the elements one by one returns *)
Theorem prim_vec_fast_is_generic f E u h lc e w p : exact_prim e w = Some p ->
  forall n bs c,
  snd (rep n (fun bs => dom _ <- add_cost u 3; de (S f) E u h lc e w bs) bs nolim c) = read_n (read_prim p) n bs.
Proof.
  intros Hx. apply exact_prim_same in Hx as (-> & -> & Hp).
  induction n as [|n IH]; intros bs c; cbn [rep read_n]; [reflexivity|].
  unfold bindM at 1. unfold bindM at 1. destruct (add_cost_nolim u 3 c) as [c1 ->].
  pose proof (de_prim_elem f E u h lc p bs c1 Hp) as Hd.
  destruct (de (S f) E u h lc (TPrim p) (TPrim p) bs nolim c1) as [c2 r] eqn:Ed. cbn [snd] in Hd. subst r.
  unfold bind. destruct (read_prim p bs) as [[v r1]|e| |]; try reflexivity. cbn [fst snd].
  unfold bindM. specialize (IH r1 c2). destruct (rep n _ r1 nolim c2) as [c3 rr]. cbn [snd] in IH. subst rr.
  destruct (read_n (read_prim p) n r1) as [[vs r2]|e| |]; reflexivity.
Qed.

(* the big-number path: the element step at (nat,nat), (int,int), (int,nat) is de_nat / de_int *)
Theorem big_fast_is_generic f E u h lc e w b : big_fast e w = Some b ->
  forall bs c,
  snd (de (S f) E u h lc e w bs nolim c) = snd ((match b with BNat => de_nat u | _ => de_int u w end) bs nolim c).
Proof.
  intros Hb bs c. unfold big_fast in Hb.
  destruct e as [[]| | | | | | | | |]; try discriminate; destruct w as [[]| | | | | | | | |]; try discriminate;
    inversion Hb; subst b; cbn [de]; unfold unroll, unroll1; cbn [is_var]; unfold bindM, ret; reflexivity.
Qed.

(* the blob path: one bulk read equals reading that many nat8 elements *)
Lemma read_prim_nat8 b r : read_prim PNat8 (b :: r) = Ok (VNatN 8 b, r).
Proof.
  unfold read_prim. cbn [prim_bits]. unfold take_bytes, bind.
  replace (8 / 8) with 1 by reflexivity.
  assert (E : (1 <=? N.of_nat (length (b :: r))) = true) by (apply N.leb_le; cbn [length]; lia).
  rewrite E. change (N.to_nat 1) with 1%nat. cbn [firstn skipn fst snd le_val].
  replace (b + 256 * 0) with b by lia. reflexivity.
Qed.
Theorem blob_is_elementwise : forall n bs, (n <= length bs)%nat ->
  read_n (read_prim PNat8) n bs = Ok (map (VNatN 8) (firstn n bs), skipn n bs).
Proof.
  induction n as [|n IH]; intros bs Hn; cbn [read_n firstn skipn map]; [reflexivity|].
  destruct bs as [|b r]; [cbn in Hn; lia|]. rewrite read_prim_nat8. unfold bind. cbn [fst snd].
  rewrite IH by (cbn in Hn; lia). reflexivity.
Qed.
