(* What the type checker accepts is closed, productive, class-free and has unique ids: exactly the hypotheses
   ([wf_env], [ty_closed]) under which name tracing, subtyping, coercion and annotation are proved to behave. *)
From Coq Require Import Lia.
From CandidV Require Import model.Check model.Coerce proofs.TyProofs proofs.CoerceProofs.
Open Scope N_scope.

Lemma uniq_ids_same ids : Check.uniq_ids ids = CoerceProofs.uniq_ids ids.
Proof. induction ids as [|i r IH]; [reflexivity|]. cbn. now rewrite IH. Qed.

Lemma productive_trace E x t : productive E = true -> lookup E x = Some t -> trace E (TVar x) <> None.
Proof.
  intros Hp Hl. unfold productive in Hp. rewrite forallb_forall in Hp.
  (* the definition found by lookup is the first one named x; tracing TVar x only depends on lookup *)
  destruct (lookup_In _ _ _ Hl) as [y Hy].
  assert (Hfirst : exists d, In d E /\ name_eqb x (fst d) = true).
  { clear -Hl. induction E as [|[z u] r IH]; [discriminate|]. cbn [lookup] in Hl. destruct (name_eqb x z) eqn:Ez.
    - exists (z, u). split; [now left|exact Ez].
    - destruct (IH Hl) as [d [Hd He]]. exists d. split; [now right|exact He]. }
  destruct Hfirst as [d [Hd He]]. apply name_eqb_spec in He. subst x.
  specialize (Hp d Hd). destruct (trace E (TVar (fst d))); [discriminate|discriminate Hp].
Qed.

Lemma check_type_closed E : productive E = true -> forall t, check_type E t = true -> ty_closed E t = true.
Proof.
  intros Hp. induction t using ty_ind'; cbn [check_type ty_closed]; intros Hc; try reflexivity; try discriminate.
  - destruct (lookup E x) as [t|] eqn:Hl; [|discriminate].
    pose proof (productive_trace E x t Hp Hl) as Hn. destruct (trace E (TVar x)); [reflexivity|congruence].
  - auto.
  - auto.
  - apply andb_true_iff in Hc as [Hf Hu]. rewrite <- uniq_ids_same, Hu, andb_true_r.
    rewrite forallb_forall in Hf |- *. rewrite Forall_forall in H. intros f Hin. apply H; [exact Hin|apply Hf, Hin].
  - apply andb_true_iff in Hc as [Hf Hu]. rewrite <- uniq_ids_same, Hu, andb_true_r.
    rewrite forallb_forall in Hf |- *. rewrite Forall_forall in H. intros f Hin. apply H; [exact Hin|apply Hf, Hin].
  - apply andb_true_iff in Hc as [Hc _]. apply andb_true_iff in Hc as [Hc _]. apply andb_true_iff in Hc as [Ha Hr].
    rewrite forallb_forall in Ha, Hr. rewrite Forall_forall in H, H0.
    apply andb_true_iff. split; apply forallb_forall; intros x Hx; [apply H|apply H0]; auto.
  - apply andb_true_iff in Hc as [Hf _]. rewrite forallb_forall in Hf |- *. rewrite Forall_forall in H.
    intros f Hin. specialize (Hf f Hin). apply andb_true_iff in Hf as [Hf _]. apply H; assumption.
Qed.

Theorem check_decs_wf E : check_decs E = true -> wf_env E = true.
Proof.
  unfold check_decs, wf_env. intros H. apply andb_true_iff in H as [H Hp]. apply andb_true_iff in H as [_ Hc].
  rewrite forallb_forall in Hc |- *. intros d Hd. apply check_type_closed; [exact Hp|apply Hc, Hd].
Qed.

(* every name in an accepted program traces to a type constructor: tracing cannot fail *)
Theorem check_decs_traces E x t : check_decs E = true -> lookup E x = Some t -> exists a, trace E (TVar x) = Some a.
Proof.
  intros H Hl. unfold check_decs in H. apply andb_true_iff in H as [_ Hp].
  pose proof (productive_trace E x t Hp Hl). destruct (trace E (TVar x)) as [a|]; [eauto|congruence].
Qed.

Theorem check_prog_actor_closed E a t : check_prog E (Some a) = true ->
  (a = t \/ exists args, a = TClass args t) -> (forall args u, t <> TClass args u) -> ty_closed E t = true.
Proof.
  unfold check_prog. intros H Ha Hnc. apply andb_true_iff in H as [Hd Hact].
  unfold check_decs in Hd. apply andb_true_iff in Hd as [_ Hp].
  destruct Ha as [->|[args ->]].
  - cbn [check_actor] in Hact. destruct t; try (apply andb_true_iff in Hact as [Hc _]; apply check_type_closed; assumption).
    exfalso. eapply Hnc. reflexivity.
  - cbn [check_actor] in Hact. apply andb_true_iff in Hact as [Hc _]. apply andb_true_iff in Hc as [_ Hc].
    apply check_type_closed; assumption.
Qed.
