(* DeMessage.v -- whole messages: IDLArgs::from_bytes_with_types as it is (De.de_message) against the specification-level
   decoder (Coerce.spec_decode): header, M^-1 at the wire types, coercion of the argument sequence. *)
From CandidV Require Import Consts model.Leb model.De proofs.LebProofs proofs.TyProofs proofs.SubProofs proofs.WireProofs proofs.CoerceProofs proofs.DeProofs proofs.DeCost proofs.DeFast proofs.DeSpec proofs.DeCoerce proofs.DeCoerceMain.
From Coq Require Import Lia ZifyBool ZifyNat ZifyN.
Open Scope N_scope.

(* ---------- the table's environment extended by the expected types' environment ---------- *)
Lemma lookup_app E1 E2 x t : lookup E1 x = Some t -> lookup (E1 ++ E2) x = Some t.
Proof. induction E1 as [|[y u] E1 IH]; cbn [lookup app]; [discriminate|]. destruct (name_eqb x y); [auto|exact IH]. Qed.
Lemma trace_f_app E1 E2 : forall f t a, trace_f f E1 t = Some a -> forall f', (f <= f')%nat -> trace_f f' (E1 ++ E2) t = Some a.
Proof.
  induction f as [|f IH]; intros t a H f' Hf; destruct t; cbn [trace_f] in H; try discriminate;
    try (inversion H; subst; destruct f'; reflexivity).
  destruct f' as [|f']; [lia|]. cbn [trace_f]. destruct (lookup E1 x) as [t1|] eqn:Hl; [|discriminate].
  rewrite (lookup_app _ E2 _ _ Hl). apply (IH _ _ H). lia.
Qed.
Lemma trace_app E1 E2 t a : trace E1 t = Some a -> trace (E1 ++ E2) t = Some a.
Proof. intros H. unfold trace in *. eapply trace_f_app; [exact H|]. rewrite app_length. lia. Qed.

Lemma dec_val_app E1 E2 : forall g t bs v r, dec_val g E1 t bs = Ok (v, r) -> dec_val g (E1 ++ E2) t bs = Ok (v, r).
Proof.
  induction g as [|g IH]; intros t bs v r H; [discriminate|].
  cbn [dec_val] in *. destruct (trace E1 t) as [a|] eqn:Ta; [|discriminate]. rewrite (trace_app _ E2 _ _ Ta).
  destruct a as [p|x|t1|t1|fs|fs|aa ra ma|ms|ia ta|]; try exact H; try discriminate.
  - destruct bs as [|b r0]; [discriminate|]. destruct b as [|[| |]]; try discriminate; [exact H|].
    unfold bind in *. destruct (dec_val g E1 t1 r0) as [[w0 r1]| | |] eqn:E1'; try discriminate. rewrite (IH _ _ _ _ E1'). exact H.
  - unfold bind in *. destruct (read_u64 bs) as [[len r1]| | |]; try discriminate. cbn [fst snd] in *.
    destruct (max_count <? len); [discriminate|].
    rewrite (vec_go_read_n (dec_val g E1 t1)) in H. rewrite (vec_go_read_n (dec_val g (E1 ++ E2) t1)).
    destruct (read_n (dec_val g E1 t1) (N.to_nat len) r1) as [[vs r2]| | |] eqn:E2'; try discriminate.
    assert (G : forall k bs0 vs0 r0, read_n (dec_val g E1 t1) k bs0 = Ok (vs0, r0) -> read_n (dec_val g (E1 ++ E2) t1) k bs0 = Ok (vs0, r0)).
    { induction k as [|k IHk]; intros bs0 vs0 r0 Hk; cbn [read_n] in *; [exact Hk|].
      unfold bind in *. destruct (dec_val g E1 t1 bs0) as [[w1 r3]| | |] eqn:E3; try discriminate. rewrite (IH _ _ _ _ E3). cbn [fst snd] in *.
      destruct (read_n (dec_val g E1 t1) k r3) as [[vs4 r4]| | |] eqn:E4; try discriminate. rewrite (IHk _ _ _ E4). exact Hk. }
    rewrite (G _ _ _ _ E2'). exact H.
  - rewrite (rec_go_loop (dec_val g E1)) in H. rewrite (rec_go_loop (dec_val g (E1 ++ E2))).
    unfold bind in *. destruct (rec_loop (dec_val g E1) fs bs) as [[vs r2]| | |] eqn:E2'; try discriminate.
    assert (G : forall ts bs0 vs0 r0, rec_loop (dec_val g E1) ts bs0 = Ok (vs0, r0) -> rec_loop (dec_val g (E1 ++ E2)) ts bs0 = Ok (vs0, r0)).
    { induction ts as [|[i ti] ts IHk]; intros bs0 vs0 r0 Hk; cbn [rec_loop] in *; [exact Hk|].
      unfold bind in *. destruct (dec_val g E1 ti bs0) as [[w1 r3]| | |] eqn:E3; try discriminate. rewrite (IH _ _ _ _ E3). cbn [fst snd] in *.
      destruct (rec_loop (dec_val g E1) ts r3) as [[vs4 r4]| | |] eqn:E4; try discriminate. rewrite (IHk _ _ _ E4). exact Hk. }
    rewrite (G _ _ _ _ E2'). exact H.
  - unfold bind in *. destruct (read_u64 bs) as [[idx r1]| | |]; try discriminate. cbn [fst snd] in *.
    destruct (idx <? N.of_nat (length fs)); [|discriminate].
    destruct (nth_error fs (N.to_nat idx)) as [[i ti]|]; [|discriminate].
    destruct (dec_val g E1 ti r1) as [[w0 r2]| | |] eqn:E2'; try discriminate. rewrite (IH _ _ _ _ E2'). exact H.
Qed.

(* a value that M^-1 returns with fuel g is at most g deep *)
Lemma fold_max_bound {A} (h : A -> nat) (l : list A) n : (forall x, In x l -> (h x <= n)%nat) -> (fold_right (fun w a => Nat.max (h w) a) O l <= n)%nat.
Proof. induction l as [|y l IH]; intros H; cbn [fold_right]; [lia|]. pose proof (H y (or_introl eq_refl)). specialize (IH (fun x Hx => H x (or_intror Hx))). lia. Qed.
Lemma dec_val_depth : forall g E t bs v r, dec_val g E t bs = Ok (v, r) -> (vdepth v <= g)%nat.
Proof.
  induction g as [|g IH]; intros E t bs v r H; [discriminate|].
  cbn [dec_val] in H. destruct (trace E t) as [a|]; [|discriminate].
  destruct a as [p|x|t1|t1|fs|fs|aa ra ma|ms|ia ta|]; try discriminate.
  - destruct p; try discriminate; try (inversion H; subst; cbn [vdepth]; lia);
      try (destruct bs as [|[|[| |]] ?]; try discriminate; inversion H; subst; cbn [vdepth]; lia);
      try (destruct (split_leb bs) as [[? ?]|]; try discriminate; inversion H; subst; cbn [vdepth]; lia);
      try (unfold bind in H; cbn [prim_bits] in H; match type of H with context [take_bytes ?k bs] => destruct (take_bytes k bs) as [[? ?]| | |]; try discriminate end;
           cbn [fst snd] in H; try (match type of H with context [if ?c then _ else _] => destruct c end); inversion H; subst; cbn [vdepth]; lia).
    + unfold bind in H. destruct (read_u64 bs) as [[? ?]| | |]; try discriminate. cbn [fst snd] in H.
      match type of H with context [take_bytes ?k ?l] => destruct (take_bytes k l) as [[? ?]| | |]; try discriminate end. cbn [fst snd] in H.
      match type of H with context [if ?c then _ else _] => destruct c end; try discriminate. inversion H; subst; cbn [vdepth]; lia.
    + unfold bind in H. destruct (dec_principal_bytes bs) as [[? ?]| | |]; try discriminate. inversion H; subst; cbn [vdepth]; lia.
  - destruct bs as [|b r0]; [discriminate|]. destruct b as [|[| |]]; try discriminate; [inversion H; subst; cbn [vdepth]; lia|].
    unfold bind in H. destruct (dec_val g E t1 r0) as [[w0 r1]| | |] eqn:E1; try discriminate. inversion H; subst. apply IH in E1. cbn [vdepth]. lia.
  - unfold bind in H. destruct (read_u64 bs) as [[len r1]| | |]; try discriminate. cbn [fst snd] in H.
    destruct (max_count <? len); [discriminate|]. rewrite (vec_go_read_n (dec_val g E t1)) in H.
    destruct (read_n (dec_val g E t1) (N.to_nat len) r1) as [[vs r2]| | |] eqn:E2; try discriminate. inversion H; subst.
    assert (G : forall k bs0 vs0 r0, read_n (dec_val g E t1) k bs0 = Ok (vs0, r0) -> forall x, In x vs0 -> (vdepth x <= g)%nat).
    { induction k as [|k IHk]; intros bs0 vs0 r0 Hk x Hx; cbn [read_n] in Hk; [inversion Hk; subst; destruct Hx|].
      unfold bind in Hk. destruct (dec_val g E t1 bs0) as [[w1 r3]| | |] eqn:E3; try discriminate. cbn [fst snd] in Hk.
      destruct (read_n (dec_val g E t1) k r3) as [[vs4 r4]| | |] eqn:E4; try discriminate. inversion Hk; subst.
      destruct Hx as [<-|Hx]; [eapply IH; exact E3|eapply IHk; eassumption]. }
    cbn [vdepth fst]. pose proof (fold_max_bound vdepth vs g (G _ _ _ _ E2)). lia.
  - rewrite (rec_go_loop (dec_val g E)) in H. unfold bind in H.
    destruct (rec_loop (dec_val g E) fs bs) as [[vs r2]| | |] eqn:E2; try discriminate. inversion H; subst.
    assert (G : forall ts bs0 vs0 r0, rec_loop (dec_val g E) ts bs0 = Ok (vs0, r0) -> forall x, In x vs0 -> (vdepth (snd x) <= g)%nat).
    { induction ts as [|[i ti] ts IHk]; intros bs0 vs0 r0 Hk x Hx; cbn [rec_loop] in Hk; [inversion Hk; subst; destruct Hx|].
      unfold bind in Hk. destruct (dec_val g E ti bs0) as [[w1 r3]| | |] eqn:E3; try discriminate. cbn [fst snd] in Hk.
      destruct (rec_loop (dec_val g E) ts r3) as [[vs4 r4]| | |] eqn:E4; try discriminate. inversion Hk; subst.
      destruct Hx as [<-|Hx]; [cbn [snd]; eapply IH; exact E3|eapply IHk; eassumption]. }
    cbn [vdepth fst]. pose proof (fold_max_bound (fun f0 : N * val => vdepth (snd f0)) vs g (G _ _ _ _ E2)). lia.
  - unfold bind in H. destruct (read_u64 bs) as [[idx r1]| | |]; try discriminate. cbn [fst snd] in H.
    destruct (idx <? N.of_nat (length fs)); [|discriminate].
    destruct (nth_error fs (N.to_nat idx)) as [[i ti]|]; [|discriminate].
    destruct (dec_val g E ti r1) as [[w0 r2]| | |] eqn:E2; try discriminate. inversion H; subst. apply IH in E2. cbn [vdepth]. lia.
  - destruct bs as [|b0 r0]; [discriminate|]. destruct b0 as [|[| |]]; try discriminate.
    unfold bind in H. destruct (dec_principal_bytes r0) as [[? ?]| | |]; try discriminate. cbn [fst snd] in H.
    match type of H with context [read_u64 ?l] => destruct (read_u64 l) as [[? ?]| | |]; try discriminate end. cbn [fst snd] in H.
    match type of H with context [take_bytes ?k ?l] => destruct (take_bytes k l) as [[? ?]| | |]; try discriminate end. cbn [fst snd] in H.
    match type of H with context [if ?c then _ else _] => destruct c end; try discriminate. inversion H; subst; cbn [vdepth]; lia.
  - unfold bind in H. destruct (dec_principal_bytes bs) as [[? ?]| | |]; try discriminate. inversion H; subst; cbn [vdepth]; lia.
  - unfold bind in H. destruct (read_u64 bs) as [[? ?]| | |]; try discriminate. cbn [fst snd] in H.
    match type of H with context [read_u64 ?l] => destruct (read_u64 l) as [[? ?]| | |]; try discriminate end. cbn [fst snd] in H.
    match type of H with context [take_bytes ?k ?l] => destruct (take_bytes k l) as [[? ?]| | |]; try discriminate end. inversion H; subst; cbn [vdepth]; lia.
Qed.

Lemma dec_vals_cons g E tw tws bs vs r : dec_vals g E (tw :: tws) bs = Ok (vs, r) ->
  exists v vs' r1, vs = v :: vs' /\ dec_val g E tw bs = Ok (v, r1) /\ dec_vals g E tws r1 = Ok (vs', r).
Proof.
  cbn [dec_vals]. unfold bind. destruct (dec_val g E tw bs) as [[v r1]| | |]; try discriminate. cbn [fst snd].
  destruct (dec_vals g E tws r1) as [[vs' r2]| | |] eqn:E2; try discriminate. cbn [fst snd]. intros H. inversion H; subst.
  exists v, vs', r1. repeat split. exact E2.
Qed.
Lemma dec_vals_app E1 E2 g : forall ts bs vs r, dec_vals g E1 ts bs = Ok (vs, r) -> dec_vals g (E1 ++ E2) ts bs = Ok (vs, r).
Proof.
  induction ts as [|t ts IH]; intros bs vs r H; [exact H|].
  apply dec_vals_cons in H as (v & vs' & r1 & -> & H1 & H2). cbn [dec_vals]. rewrite (dec_val_app _ E2 _ _ _ _ _ H1). cbn [bind fst snd].
  rewrite (IH _ _ _ H2). reflexivity.
Qed.
Lemma dec_vals_depth g E : forall ts bs vs r, dec_vals g E ts bs = Ok (vs, r) -> forall v, In v vs -> (vdepth v <= g)%nat.
Proof.
  induction ts as [|t ts IH]; intros bs vs r H v Hv; [cbn [dec_vals] in H; inversion H; subst; destruct Hv|].
  apply dec_vals_cons in H as (v1 & vs' & r1 & -> & H1 & H2). destruct Hv as [<-|Hv]; [eapply dec_val_depth; exact H1|eapply IH; eassumption].
Qed.

(* the argument loop *)
Lemma de_args_coerce E W lc f g : wf_env E = true -> sides W E -> (2 <= g)%nat ->
  forall tes tws vs bs r c g0,
  forallb (ty_closed E) tes = true -> forallb (side W false) tes = true ->
  forallb (ty_closed E) tws = true -> forallb (side W true) tws = true ->
  dec_vals g0 E tws bs = Ok (vs, r) -> (forall v, In v vs -> (f + vdepth v < g)%nat) ->
  match coerce_args f E vs tws tes with
  | Ok out => exists c' tws' rest vs', de_args_loop g E lc tes tws bs nolim c = (c', Ok (out, tws', rest)) /\
                dec_vals g0 E tws' rest = Ok (vs', r) /\ incl vs' vs /\ incl tws' tws
  | Err ESub => exists c' e, de_args_loop g E lc tes tws bs nolim c = (c', Err e)
  | _ => True
  end.
Proof.
  intros Hwf HS G2. induction tes as [|te tes IH]; intros tws vs bs r c g0 Hce Hse Hcw Hsw Hd Hdep.
  - cbn [coerce_args de_args_loop]. exists c, tws, bs, vs. repeat split; try assumption; apply incl_refl.
  - cbn [forallb] in Hce, Hse. apply andb_true_iff in Hce as [Hce1 Hce2]. apply andb_true_iff in Hse as [Hse1 Hse2].
    destruct (trace_closed E te Hwf Hce1) as (e' & Te & Hc' & Hv').
    destruct (side_trace W E false te e' HS Hse1 Te) as [Hs' _].
    cbn [coerce_args de_args_loop]. unfold tr. rewrite Te. repeat rewrite bindM_ret.
    destruct tws as [|tw tws].
    + cbn [dec_vals] in Hd. inversion Hd; subst vs r. clear Hd.
      destruct (default_traced E te e' Te) as [D1 D2].
      destruct (default_of E te) as [d|] eqn:Ed.
      * assert (Ho : optional_ty e' = true) by (apply D2; discriminate). rewrite Ho.
        specialize (IH [] [] bs bs). cbn [dec_vals] in IH.
        destruct (coerce_args f E [] [] tes) as [out|[]| |] eqn:EC; cbn [bind]; try exact I.
        -- destruct (de_default g E true lc e' bs d c Hwf D1 G2) as [c1 H1].
           destruct (IH c1 g0 Hce2 Hse2 eq_refl eq_refl eq_refl Hdep) as (c2 & tws' & rest & vs' & H2 & H3 & H4 & H5).
           exists c2, tws', rest, vs'. split; [|repeat split; assumption].
           rewrite (bindM_ok _ _ _ _ _ _ H1). cbn [fst snd]. rewrite (bindM_ok _ _ _ _ _ _ H2). reflexivity.
        -- destruct (de_default g E true lc e' bs d c Hwf D1 G2) as [c1 H1].
           destruct (IH c1 g0 Hce2 Hse2 eq_refl eq_refl eq_refl Hdep) as (c2 & e0 & H2).
           exists c2, e0. rewrite (bindM_ok _ _ _ _ _ _ H1). cbn [fst snd]. rewrite (bindM_err _ _ _ _ _ _ H2). reflexivity.
      * assert (Ho : optional_ty e' = false) by (destruct (optional_ty e') eqn:X; [exfalso; apply D2; reflexivity|reflexivity]).
        rewrite Ho. eexists; eexists; reflexivity.
    + cbn [forallb] in Hcw, Hsw. apply andb_true_iff in Hcw as [Hcw1 Hcw2]. apply andb_true_iff in Hsw as [Hsw1 Hsw2].
      apply dec_vals_cons in Hd as (v & vs' & r1 & -> & H1 & H2).
      assert (Hv : (f + vdepth v < g)%nat) by (apply Hdep; left; reflexivity).
      pose proof (de_is_coerce E W Hwf HS f g true lc e' tw bs v r1 c g0 Hc' Hcw1 Hs' Hsw1 H1 Hv) as HM.
      destruct (trace_closed E tw Hwf Hcw1) as (a & Tw & _).
      rewrite (coerce_trace f E v tw te a e' Tw Te). rewrite <- (coerce_trace f E v tw e' a e' Tw (trace_idem _ _ _ Te)).
      specialize (IH tws vs' r1 r).
      destruct (coerce f E v tw e') as [v'|[]| |]; cbn [bind agrees] in *; try exact I; apply snd_ex in HM as [c1 HM].
      * destruct (coerce_args f E vs' tws tes) as [out|[]| |] eqn:EC; cbn [bind]; try exact I.
        -- destruct (IH c1 g0 Hce2 Hse2 Hcw2 Hsw2 H2 (fun x Hx => Hdep x (or_intror Hx))) as (c2 & tws' & rest & vs2 & K2 & K3 & K4 & K5).
           exists c2, tws', rest, vs2. split; [|repeat split; try assumption].
           ++ rewrite (bindM_ok _ _ _ _ _ _ HM). cbn [fst snd]. rewrite (bindM_ok _ _ _ _ _ _ K2). reflexivity.
           ++ intros x Hx. right. apply K4. exact Hx.
           ++ intros x Hx. right. apply K5. exact Hx.
        -- destruct (IH c1 g0 Hce2 Hse2 Hcw2 Hsw2 H2 (fun x Hx => Hdep x (or_intror Hx))) as (c2 & e0 & K2).
           exists c2, e0. rewrite (bindM_ok _ _ _ _ _ _ HM). cbn [fst snd]. rewrite (bindM_err _ _ _ _ _ _ K2). reflexivity.
      * exists c1, ESub. rewrite (bindM_err _ _ _ _ _ _ HM). reflexivity.
Qed.

(* done(): what is left of the arguments is skipped, then the input must be at its end *)
Lemma de_done_skips E g g0 : wf_env E = true -> forall tws bs vs c,
  forallb (ty_closed E) tws = true -> dec_vals g0 E tws bs = Ok (vs, []) -> (forall v, In v vs -> (vdepth v < g)%nat) ->
  exists c', de_done g E tws bs nolim c = (c', Ok tt).
Proof.
  intros Hwf. induction tws as [|tw tws IH]; intros bs vs c Hc Hd Hdep.
  - cbn [dec_vals] in Hd. inversion Hd; subst. cbn [de_done]. eexists; reflexivity.
  - cbn [forallb] in Hc. apply andb_true_iff in Hc as [Hc1 Hc2].
    apply dec_vals_cons in Hd as (v & vs' & r1 & -> & H1 & H2). cbn [de_done].
    destruct (skip_is_dec g g0 E true HI no_names tw bs v r1 c Hwf Hc1 H1 (Hdep v (or_introl eq_refl))) as [c1 S1].
    rewrite (bindM_ok _ _ _ _ _ _ S1). cbn [fst snd]. apply (IH r1 vs' c1 Hc2 H2). intros x Hx. apply Hdep. right. exact Hx.
Qed.

(* ---------- the whole message ---------- *)
Theorem de_message_is_coercion Ee lc te tes bs Ew tws vs W c :
  spec_decode_untyped bs = Ok (Ew, tws, vs) ->
  wf_env (Ew ++ Ee) = true -> sides W (Ew ++ Ee) ->
  forallb (ty_closed (Ew ++ Ee)) (te :: tes) = true -> forallb (side W false) (te :: tes) = true ->
  forallb (ty_closed (Ew ++ Ee)) tws = true -> forallb (side W true) tws = true ->
  match coerce_args (decode_fuel (Ew ++ Ee) bs) (Ew ++ Ee) vs tws (te :: tes) with
  | Ok out => exists c', de_message max_type_table_len Ee lc (te :: tes) bs nolim c = (c', Ok out)
  | Err ESub => exists c' e, de_message max_type_table_len Ee lc (te :: tes) bs nolim c = (c', Err e)
  | _ => True
  end.
Proof.
  intros Hu Hwf HS Hce Hse Hcw Hsw. unfold spec_decode_untyped in Hu. unfold de_message.
  destruct (dec_header max_type_table_len bs) as [[[Ew0 tws0] body]| | |] eqn:Hh; try discriminate. cbn [bind] in Hu.
  destruct (dec_vals (decode_fuel Ew0 bs) Ew0 tws0 body) as [[vs0 rest]| | |] eqn:Ev; try discriminate. cbn [bind fst snd] in Hu.
  destruct rest as [|x rest']; [|discriminate]. inversion Hu; subst Ew0 tws0 vs0. clear Hu.
  rewrite bindM_liftR. cbv beta iota.
  pose proof (dec_vals_depth _ _ _ _ _ _ Ev) as Hdep.
  apply (dec_vals_app Ew Ee) in Ev.
  set (E := Ew ++ Ee) in *. set (F := decode_fuel E bs). set (G := (2 * de_fuel E bs + 2)%nat).
  assert (HFG : forall v, In v vs -> (F + vdepth v < G)%nat).
  { intros v Hv. specialize (Hdep v Hv). unfold F, G, de_fuel, decode_fuel, E in *. rewrite app_length. clear - Hdep. lia. }
  assert (G2 : (2 <= G)%nat) by (unfold G; clear; lia).
  destruct (add_cost_nolim false (sat (consumed bs body * 4)) c) as [c1 Hc1].
  pose proof (de_args_coerce E W lc F G Hwf HS G2 (te :: tes) tws vs body [] c1 (decode_fuel Ew bs) Hce Hse Hcw Hsw Ev HFG) as HA.
  destruct (coerce_args F E vs tws (te :: tes)) as [out|[]| |]; try exact I.
  - destruct HA as (c2 & tws' & rest & vs' & H2 & H3 & H4 & H5).
    assert (Hc' : forallb (ty_closed E) tws' = true).
    { apply forallb_forall. intros x Hx. rewrite forallb_forall in Hcw. apply Hcw. apply H5. exact Hx. }
    destruct (de_done_skips E G (decode_fuel Ew bs) Hwf tws' rest vs' c2 Hc' H3) as [c3 H6].
    { intros v Hv. specialize (HFG v (H4 v Hv)). clear - HFG. lia. }
    exists c3. rewrite (bindM_ok _ _ _ _ _ _ Hc1). rewrite (bindM_ok _ _ _ _ _ _ H2). cbv beta iota. rewrite (bindM_ok _ _ _ _ _ _ H6). reflexivity.
  - destruct HA as (c2 & e0 & H2). exists c2, e0. rewrite (bindM_ok _ _ _ _ _ _ Hc1). rewrite (bindM_err _ _ _ _ _ _ H2). reflexivity.
Qed.

(* whenever the specification's decoder returns values at the expected types, so does the decoder as it is, the same ones *)
Corollary de_message_is_spec Ee lc te tes bs Ew tws vs0 vs W c :
  spec_decode_untyped bs = Ok (Ew, tws, vs0) ->
  wf_env (Ew ++ Ee) = true -> sides W (Ew ++ Ee) ->
  forallb (ty_closed (Ew ++ Ee)) (te :: tes) = true -> forallb (side W false) (te :: tes) = true ->
  forallb (ty_closed (Ew ++ Ee)) tws = true -> forallb (side W true) tws = true ->
  spec_decode Ee (te :: tes) bs = Ok vs ->
  exists c', de_message max_type_table_len Ee lc (te :: tes) bs nolim c = (c', Ok vs).
Proof.
  intros Hu Hwf HS Hce Hse Hcw Hsw Hs.
  pose proof (de_message_is_coercion Ee lc te tes bs Ew tws vs0 W c Hu Hwf HS Hce Hse Hcw Hsw) as HM.
  unfold spec_decode in Hs. rewrite Hu in Hs. cbn [bind] in Hs. cbv beta iota in Hs. rewrite Hs in HM. exact HM.
Qed.

(* the side conditions as a boolean test, so that they can be evaluated on a decoded header *)
Definition sidesb (W : name -> bool) (E : env) : bool :=
  forallb (fun d => side W (W (fst d)) (snd d) && (negb (W (fst d)) || negb (ty_eqb (snd d) (TPrim PNull)))) E.
Lemma sidesb_sides W E : sidesb W E = true -> sides W E.
Proof.
  intros H x t Hl. destruct (lookup_In _ _ _ Hl) as [y Hy].
  unfold sidesb in H. rewrite forallb_forall in H.
  assert (Hx : exists y', In (y', t) E /\ W y' = W x).
  { clear H y Hy. induction E as [|[z u] E IH]; cbn [lookup] in Hl; [discriminate|].
    destruct (name_eqb x z) eqn:Ez.
    - apply name_eqb_spec in Ez. subst z. inversion Hl; subst. exists x. split; [left; reflexivity|reflexivity].
    - destruct (IH Hl) as (y' & Hin & Hw). exists y'. split; [right; exact Hin|exact Hw]. }
  destruct Hx as (y' & Hin & Hw). specialize (H _ Hin). cbn [fst snd] in H. apply andb_true_iff in H as [H1 H2]. rewrite Hw in *.
  split; [exact H1|]. intros HW ->. rewrite HW in H2. cbn in H2. discriminate.
Qed.
Definition wire_names (Ew : env) : name -> bool := fun x => mem name name_eqb (map fst Ew) x.
