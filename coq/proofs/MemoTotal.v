(* MemoTotal.v -- the memoising checkers terminate and do not panic: with N the (finite) set of sub-term nodes of the
   environment and of the types asked about, every call whose fuel exceeds
        (number of node pairs not yet in gamma) * (2 * largest node + 2) + size of the two types
   returns an answer, provided every name among the nodes is bound (traces to a constructor).
   Why: the pairs being unfolded along one call stack are distinct members of N x N that were not in gamma (each is
   inserted when its unfolding starts and stays while it is in progress), and between two of them the structural arms
   only descend into strictly smaller types.  The depth of the recursion -- what the fuel and the implementation's stack
   guard count -- is therefore bounded; with MemoProofs.history_correct the answers are the specification's. *)
From Coq Require Import Lia Arith.
From CandidV Require Import model.Memo proofs.TyProofs proofs.SubProofs proofs.MemoProofs proofs.MemoInst.
Open Scope nat_scope.

Fixpoint sz (t : ty) : nat :=
  match t with
  | TOpt x | TVec x => S (sz x)
  | TRec fs | TVariant fs => S (fold_right (fun f a => sz (snd f) + a) 0 fs)
  | TFunc a r _ => 3 + fold_right (fun x acc => sz x + acc) 0 a + fold_right (fun x acc => sz x + acc) 0 r
  | TServ ms => S (fold_right (fun f a => sz (snd f) + a) 0 ms)
  | TClass a x => 2 + fold_right (fun y acc => sz y + acc) 0 a + sz x
  | _ => 1
  end.
Lemma sz_pos t : 1 <= sz t.
Proof. destruct t; cbn; lia. Qed.
Lemma sz_tuple_from l : forall i, fold_right (fun (f : N * ty) a => sz (snd f) + a) 0 (tuple_from i l) = fold_right (fun x acc => sz x + acc) 0 l.
Proof. induction l as [|t r IH]; intros i; cbn; [reflexivity|]. rewrite IH. reflexivity. Qed.
Lemma sz_tuple l : sz (tuple l) = S (fold_right (fun x acc => sz x + acc) 0 l).
Proof. unfold tuple. cbn [sz]. rewrite sz_tuple_from. reflexivity. Qed.
Lemma sz_field {K} (fs : list (K * ty)) i t : In (i, t) fs -> sz t <= fold_right (fun f a => sz (snd f) + a) 0 fs.
Proof.
  induction fs as [|[j u] r IH]; intros H; [destruct H|]. cbn. destruct H as [H|H]; [inversion H; subst; lia|].
  specialize (IH H). lia.
Qed.

Definition grows (s s' : mst) : Prop :=
  (forall x, In x (fst s) -> In x (fst s')) /\
  exists new, snd s' = new ++ snd s /\ (forall x, In x new -> ~ In x (fst s)) /\
              (forall x, In x (fst s') -> In x (fst s) \/ In x new).
Lemma grows_refl s : grows s s.
Proof. split; [auto|]. exists []. split; [reflexivity|]. split; [intros x []|auto]. Qed.
Lemma grows_trans s1 s2 s3 : grows s1 s2 -> grows s2 s3 -> grows s1 s3.
Proof.
  intros [M1 [n1 [T1 [F1 G1]]]] [M2 [n2 [T2 [F2 G2]]]]. split; [auto|].
  exists (n2 ++ n1). split; [rewrite T2, T1, app_assoc; reflexivity|]. split.
  - intros x Hx. apply in_app_or in Hx. destruct Hx as [Hx|Hx]; [|apply F1, Hx].
    intros Hg. apply (F2 x Hx). apply M1, Hg.
  - intros x Hx. destruct (G2 x Hx) as [H|H].
    + destruct (G1 x H); [left; assumption|right; apply in_or_app; right; assumption].
    + right. apply in_or_app. left. exact H.
Qed.

Lemma forget_keep (s s2 : mst) p n x :
  snd s2 = n ++ p :: snd s -> In x (fst s2) -> ~ In x n -> x <> p -> In x (fst (forget_since s2 (length (snd s)))).
Proof.
  intros T Hx Hn Hp. unfold forget_since. cbn [fst snd]. rewrite T.
  assert (Hk : length (n ++ p :: snd s) - length (snd s) = length (n ++ [p])).
  { rewrite !app_length. cbn [length]. lia. }
  rewrite Hk. replace (n ++ p :: snd s) with ((n ++ [p]) ++ snd s) by (rewrite <- app_assoc; reflexivity).
  rewrite firstn_app, firstn_all, Nat.sub_diag. cbn [firstn]. rewrite app_nil_r.
  apply fold_gremove_In. split; [exact Hx|].
  intros Hin. apply in_app_or in Hin. destruct Hin as [Hin|[<-|[]]]; [exact (Hn Hin)|]. apply Hp. reflexivity.
Qed.

Section Total.
  Variable planf : env -> ty -> ty -> plan.
  Variable E : env.
  Variable strict : bool.
  Notation chk := (Memo.chk planf E strict).

  (* ---------- gamma only grows along an answered call; what a failed unfolding removes is what it added ---------- *)
  Lemma items_grows (c : mst -> ty -> ty -> mst * mres) :
    (forall s a b, answered (snd (c s a b)) = true -> grows s (fst (c s a b))) ->
    forall its s, answered (snd (run_items c its s)) = true -> grows s (fst (run_items c its s)).
  Proof.
    intros Hc. induction its as [|i its IH]; intros s; cbn [run_items].
    - intros _. apply grows_refl.
    - destruct i as [q|[|]].
      + pose proof (Hc s (fst q) (snd q)) as H1. destruct (c s (fst q) (snd q)) as [s' r]. destruct r; cbn [fst snd] in *.
        * intros H. eapply grows_trans; [apply H1; reflexivity|apply IH, H].
        * intros _. apply H1. reflexivity.
        * discriminate.
        * discriminate.
      + apply IH.
      + intros _. apply grows_refl.
  Qed.

  Lemma chk_grows : forall f s a b, answered (snd (chk f s a b)) = true -> grows s (fst (chk f s a b)).
  Proof.
    induction f as [|f IH]; intros s a b; [cbn; discriminate|].
    cbn [Memo.chk].
    destruct (ty_eqb a b); [intros _; apply grows_refl|].
    destruct (tvarb a || tvarb b).
    { destruct (gmem (fst s) (a, b)) eqn:Em; [intros _; apply grows_refl|].
      set (p := (a, b)). set (s1 := (p :: fst s, p :: snd s)).
      destruct (if tvarb a then match trace E a with Some a' => Some (a', b) | None => None end
                else match trace E b with Some b' => Some (a, b') | None => None end) as [q|]; [|cbn; discriminate].
      pose proof (IH s1 (fst q) (snd q)) as H1. destruct (chk f s1 (fst q) (snd q)) as [s2 r]. cbn [fst snd] in H1.
      assert (Hp : ~ In p (fst s)). { intros Hin. apply gmem_In in Hin. unfold p in Hin. congruence. }
      destruct r; cbn [fst snd].
      - intros _. destruct (H1 eq_refl) as [M1 [n [T [F G]]]]. cbn [fst snd] in *. split.
        + intros x Hx. apply M1. right. exact Hx.
        + exists (n ++ [p]). split; [rewrite T, <- app_assoc; reflexivity|]. split.
          * intros x Hx. apply in_app_or in Hx. destruct Hx as [Hx|[<-|[]]]; [|exact Hp].
            intros Hg. apply (F x Hx). right. exact Hg.
          * intros x Hx. destruct (G x Hx) as [[<-|H]|H].
            -- right. apply in_or_app. right. left. reflexivity.
            -- left. exact H.
            -- right. apply in_or_app. left. exact H.
      - intros _. destruct (H1 eq_refl) as [M1 [n [T [F G]]]]. cbn [fst snd] in *.
        destruct (forget_spec s s2 p n T G) as [T' G']. split.
        + intros x Hx. apply (forget_keep s s2 p n x T).
          * apply M1. right. exact Hx.
          * intros Hin. apply (F x Hin). right. exact Hx.
          * intros ->. exact (Hp Hx).
        + exists []. split; [exact T'|]. split; [intros x []|]. intros x Hx. left. apply G', Hx.
      - discriminate.
      - discriminate. }
    assert (Hsecond : forall t2 s0, answered (snd (match chk f s0 a t2 with
                             | (s2, MOk) => (s2, if strict && optlike E t2 then MErr else MOk)
                             | (s2, MErr) => (s2, if strict then MErr else MOk)
                             | o => o end)) = true ->
                       grows s0 (fst (match chk f s0 a t2 with
                             | (s2, MOk) => (s2, if strict && optlike E t2 then MErr else MOk)
                             | (s2, MErr) => (s2, if strict then MErr else MOk)
                             | o => o end))).
    { intros t2 s0. pose proof (IH s0 a t2) as H1. destruct (chk f s0 a t2) as [s2 r]. destruct r; cbn [fst snd] in *.
      - intros _. apply H1. reflexivity.
      - intros _. apply H1. reflexivity.
      - discriminate.
      - discriminate. }
    destruct (planf E a b) as [its|t1 t2|t2].
    - apply items_grows. intros s0 x y. apply IH.
    - pose proof (IH s t1 t2) as H1. destruct (chk f s t1 t2) as [s1 r]. destruct r; cbn [fst snd] in *.
      + intros _. apply H1. reflexivity.
      + intros H. eapply grows_trans; [apply H1; reflexivity|apply Hsecond, H].
      + discriminate.
      + discriminate.
    - apply Hsecond.
  Qed.

  (* ---------- the node set ---------- *)
  Variable ND : list ty.
  Hypothesis ND_trace : forall t t', In t ND -> trace E t = Some t' -> In t' ND.
  Definition inP (q : pair) : Prop := In (fst q) ND /\ In (snd q) ND.
  Definition plan_wf (a b : ty) (p : plan) : Prop :=
    match p with
    | PItems its => forall q, In (IPrem q) its -> inP q /\ sz (fst q) + sz (snd q) < sz a + sz b
    | POptOpt t1 t2 => In t1 ND /\ In t2 ND /\ sz t1 + sz t2 < sz a + sz b /\ sz t2 < sz b
    | POptAny t2 => In t2 ND /\ sz t2 < sz b
    end.
  Hypothesis plan_ok : forall a b, In a ND -> In b ND -> tvarb a = false -> tvarb b = false -> plan_wf a b (planf E a b).

  Definition UP : list pair := list_prod ND ND.
  Definition nfree (g : list pair) : nat := length (filter (fun p => negb (gmem g p)) UP).
  Lemma filter_len_mono {A} (P Q : A -> bool) l : (forall x, P x = true -> Q x = true) -> length (filter P l) <= length (filter Q l).
  Proof.
    intros H. induction l as [|x l IH]; cbn; [lia|]. destruct (P x) eqn:HP.
    - rewrite (H x HP). cbn. lia.
    - destruct (Q x); cbn; lia.
  Qed.
  Lemma filter_len_lt {A} (P Q : A -> bool) l y : (forall x, P x = true -> Q x = true) -> In y l -> P y = false -> Q y = true ->
    length (filter P l) < length (filter Q l).
  Proof.
    intros H. induction l as [|x l IH]; intros Hin HP HQ; [destruct Hin|]. cbn. destruct Hin as [->|Hin].
    - rewrite HP, HQ. cbn. pose proof (filter_len_mono P Q l H). lia.
    - specialize (IH Hin HP HQ). destruct (P x) eqn:HPx.
      + rewrite (H x HPx). cbn. lia.
      + destruct (Q x); cbn; lia.
  Qed.
  Lemma gmem_false g p : gmem g p = false <-> ~ In p g.
  Proof. rewrite <- gmem_In. destruct (gmem g p); split; intros; congruence. Qed.
  Lemma nfree_mono g g' : (forall x, In x g -> In x g') -> nfree g' <= nfree g.
  Proof.
    intros H. apply filter_len_mono. intros x Hx. apply negb_true_iff in Hx. apply negb_true_iff.
    apply gmem_false. apply gmem_false in Hx. intros Hin. apply Hx, H, Hin.
  Qed.
  Lemma nfree_insert g p : In p UP -> gmem g p = false -> nfree (p :: g) < nfree g.
  Proof.
    intros Hin Hm. apply (filter_len_lt _ _ UP p); [|exact Hin| |].
    - intros x Hx. apply negb_true_iff in Hx. apply negb_true_iff. apply gmem_false. apply gmem_false in Hx.
      intros H. apply Hx. right. exact H.
    - apply negb_false_iff. apply gmem_In. left. reflexivity.
    - rewrite Hm. reflexivity.
  Qed.

  Definition Mx : nat := list_max (map sz ND).
  Lemma sz_le_Mx t : In t ND -> sz t <= Mx.
  Proof.
    intros H. unfold Mx. assert (Hl : list_max (map sz ND) <= list_max (map sz ND)) by lia.
    apply list_max_le in Hl. rewrite Forall_forall in Hl. apply Hl. apply in_map. exact H.
  Qed.
  Definition K : nat := 2 * Mx + 2.

  Definition fits (f : nat) (s : mst) (a b : ty) : Prop := nfree (fst s) * K + sz a + sz b < f.

  Lemma items_nofuel (c : mst -> ty -> ty -> mst * mres) f B :
    (forall s a b, In a ND -> In b ND -> fits f s a b -> snd (c s a b) <> MFuel) ->
    (forall s a b, answered (snd (c s a b)) = true -> grows s (fst (c s a b))) ->
    forall its s, (forall q, In (IPrem q) its -> inP q /\ sz (fst q) + sz (snd q) < B) ->
      nfree (fst s) * K + B <= f ->
      snd (run_items c its s) <> MFuel.
  Proof.
    intros Hc Hg. induction its as [|i its IH]; intros s Hq Hf; cbn [run_items]; [discriminate|].
    destruct i as [q|[|]].
    - destruct (Hq q (or_introl eq_refl)) as [[Hq1 Hq2] Hsz].
      pose proof (Hc s (fst q) (snd q) Hq1 Hq2) as H1. pose proof (Hg s (fst q) (snd q)) as H2.
      destruct (c s (fst q) (snd q)) as [s' r]. cbn [fst snd] in *.
      assert (Hfit : fits f s (fst q) (snd q)) by (unfold fits; lia).
      destruct r; cbn [snd]; try discriminate.
      + apply IH; [intros q' Hq'; apply Hq; right; exact Hq'|].
        destruct (H2 eq_refl) as [M1 _]. pose proof (nfree_mono (fst s) (fst s') M1).
        assert (nfree (fst s') * K <= nfree (fst s) * K) by (apply Nat.mul_le_mono_r; assumption). lia.
      + exact (H1 Hfit).
    - apply IH; [intros q' Hq'; apply Hq; right; exact Hq'|exact Hf].
    - discriminate.
  Qed.

  Lemma chk_nofuel : forall f s a b, In a ND -> In b ND -> fits f s a b -> snd (chk f s a b) <> MFuel.
  Proof.
    induction f as [|f IH]; intros s a b Ha Hb Hfit; [unfold fits in Hfit; lia|].
    cbn [Memo.chk].
    destruct (ty_eqb a b); [discriminate|].
    destruct (tvarb a || tvarb b) eqn:Ev.
    { destruct (gmem (fst s) (a, b)) eqn:Em; [discriminate|].
      set (p := (a, b)). set (s1 := (p :: fst s, p :: snd s)).
      destruct (if tvarb a then match trace E a with Some a' => Some (a', b) | None => None end
                else match trace E b with Some b' => Some (a, b') | None => None end) as [q|] eqn:Enx; [|discriminate].
      assert (Hq : In (fst q) ND /\ In (snd q) ND).
      { destruct (tvarb a).
        - destruct (trace E a) as [a'|] eqn:Ta; [|discriminate]. injection Enx as <-. cbn. split; [exact (ND_trace a a' Ha Ta)|exact Hb].
        - destruct (trace E b) as [b'|] eqn:Tb; [|discriminate]. injection Enx as <-. cbn. split; [exact Ha|exact (ND_trace b b' Hb Tb)]. }
      destruct Hq as [Hq1 Hq2].
      assert (Hin : In p UP) by (apply in_prod; assumption).
      pose proof (nfree_insert (fst s) p Hin Em) as Hlt.
      assert (Hfit1 : nfree (p :: fst s) * K + sz (fst q) + sz (snd q) < f).
      { unfold fits in *. pose proof (sz_le_Mx _ Hq1). pose proof (sz_le_Mx _ Hq2).
        pose proof (sz_pos a). pose proof (sz_pos b).
        assert (nfree (p :: fst s) * K + K <= nfree (fst s) * K).
        { replace (nfree (p :: fst s) * K + K) with ((nfree (p :: fst s) + 1) * K) by ring. apply Nat.mul_le_mono_r. rewrite Nat.add_1_r. exact Hlt. }
        pose proof (eq_refl : K = 2 * Mx + 2) as HK. lia. }
      pose proof (IH s1 (fst q) (snd q) Hq1 Hq2 Hfit1) as H1.
      destruct (chk f s1 (fst q) (snd q)) as [s2 r]. cbn [snd] in H1. destruct r; cbn [snd]; try discriminate. exact H1. }
    assert (Hnv : tvarb a = false /\ tvarb b = false) by (destruct (tvarb a), (tvarb b); cbn in Ev; auto; discriminate).
    destruct Hnv as [Hva Hvb].
    pose proof (plan_ok a b Ha Hb Hva Hvb) as Hwf.
    assert (Hfit' : nfree (fst s) * K + (sz a + sz b) <= f) by (unfold fits in Hfit; lia).
    assert (Hsecond : forall t2 s0, In t2 ND -> sz t2 < sz b -> nfree (fst s0) <= nfree (fst s) ->
              snd (match chk f s0 a t2 with
                   | (s2, MOk) => (s2, if strict && optlike E t2 then MErr else MOk)
                   | (s2, MErr) => (s2, if strict then MErr else MOk)
                   | o => o end) <> MFuel).
    { intros t2 s0 Ht2 Hsz Hn.
      assert (Hf0 : fits f s0 a t2).
      { unfold fits. assert (nfree (fst s0) * K <= nfree (fst s) * K) by (apply Nat.mul_le_mono_r; assumption). lia. }
      pose proof (IH s0 a t2 Ha Ht2 Hf0) as H1. destruct (chk f s0 a t2) as [s2 r]. cbn [snd] in H1.
      destruct r; cbn [snd]; try discriminate.
      - destruct (strict && optlike E t2); discriminate.
      - destruct strict; discriminate.
      - exact H1. }
    destruct (planf E a b) as [its|t1 t2|t2]; cbn [plan_wf] in Hwf.
    - apply (items_nofuel (chk f) f (sz a + sz b)); [exact IH|intros s0 x y; apply chk_grows|exact Hwf|exact Hfit'].
    - destruct Hwf as [Ht1 [Ht2 [Hs1 Hs2]]].
      assert (Hf0 : fits f s t1 t2) by (unfold fits; lia).
      pose proof (IH s t1 t2 Ht1 Ht2 Hf0) as H1. pose proof (chk_grows f s t1 t2) as H2.
      destruct (chk f s t1 t2) as [s1 r]. cbn [fst snd] in *. destruct r; cbn [snd]; try discriminate.
      + apply Hsecond; [exact Ht2|exact Hs2|]. destruct (H2 eq_refl) as [M1 _]. apply nfree_mono, M1.
      + exact H1.
    - destruct Hwf as [Ht2 Hs2]. apply Hsecond; [exact Ht2|exact Hs2|lia].
  Qed.

  (* ---------- no unbound name among the nodes: no panic ---------- *)
  Hypothesis names_bound : forall t, In t ND -> trace E t <> None.

  Lemma items_nopanic (c : mst -> ty -> ty -> mst * mres) :
    (forall s a b, In a ND -> In b ND -> snd (c s a b) <> MPanic) ->
    forall its s, (forall q, In (IPrem q) its -> inP q) -> snd (run_items c its s) <> MPanic.
  Proof.
    intros Hc. induction its as [|i its IH]; intros s Hq; cbn [run_items]; [discriminate|].
    destruct i as [q|[|]].
    - destruct (Hq q (or_introl eq_refl)) as [Hq1 Hq2]. pose proof (Hc s (fst q) (snd q) Hq1 Hq2) as H1.
      destruct (c s (fst q) (snd q)) as [s' r]. cbn [snd] in H1. destruct r; cbn [snd]; try discriminate.
      + apply IH. intros q' Hq'. apply Hq. right. exact Hq'.
      + exact H1.
    - apply IH. intros q' Hq'. apply Hq. right. exact Hq'.
    - discriminate.
  Qed.

  Lemma chk_nopanic : forall f s a b, In a ND -> In b ND -> snd (chk f s a b) <> MPanic.
  Proof.
    induction f as [|f IH]; intros s a b Ha Hb; [cbn; discriminate|].
    cbn [Memo.chk].
    destruct (ty_eqb a b); [discriminate|].
    destruct (tvarb a || tvarb b) eqn:Ev.
    { destruct (gmem (fst s) (a, b)); [discriminate|].
      destruct (if tvarb a then match trace E a with Some a' => Some (a', b) | None => None end
                else match trace E b with Some b' => Some (a, b') | None => None end) as [q|] eqn:Enx.
      - assert (Hq : In (fst q) ND /\ In (snd q) ND).
        { destruct (tvarb a).
          - destruct (trace E a) as [a'|] eqn:Ta; [|discriminate]. injection Enx as <-. cbn. split; [exact (ND_trace a a' Ha Ta)|exact Hb].
          - destruct (trace E b) as [b'|] eqn:Tb; [|discriminate]. injection Enx as <-. cbn. split; [exact Ha|exact (ND_trace b b' Hb Tb)]. }
        destruct Hq as [Hq1 Hq2]. pose proof (IH ((a, b) :: fst s, (a, b) :: snd s) (fst q) (snd q) Hq1 Hq2) as H1.
        destruct (chk f _ (fst q) (snd q)) as [s2 r]. cbn [snd] in H1. destruct r; cbn [snd]; try discriminate. exact H1.
      - exfalso. destruct (tvarb a).
        + destruct (trace E a) eqn:Ta; [discriminate|]. exact (names_bound a Ha Ta).
        + destruct (trace E b) eqn:Tb; [discriminate|]. exact (names_bound b Hb Tb). }
    assert (Hnv : tvarb a = false /\ tvarb b = false) by (destruct (tvarb a), (tvarb b); cbn in Ev; auto; discriminate).
    destruct Hnv as [Hva Hvb].
    pose proof (plan_ok a b Ha Hb Hva Hvb) as Hwf.
    assert (Hsecond : forall t2 s0, In t2 ND ->
              snd (match chk f s0 a t2 with
                   | (s2, MOk) => (s2, if strict && optlike E t2 then MErr else MOk)
                   | (s2, MErr) => (s2, if strict then MErr else MOk)
                   | o => o end) <> MPanic).
    { intros t2 s0 Ht2. pose proof (IH s0 a t2 Ha Ht2) as H1. destruct (chk f s0 a t2) as [s2 r]. cbn [snd] in H1.
      destruct r; cbn [snd]; try discriminate.
      - destruct (strict && optlike E t2); discriminate.
      - destruct strict; discriminate.
      - exact H1. }
    destruct (planf E a b) as [its|t1 t2|t2]; cbn [plan_wf] in Hwf.
    - apply (items_nopanic (chk f)); [exact IH|]. intros q Hq. apply (Hwf q Hq).
    - destruct Hwf as [Ht1 [Ht2 _]]. pose proof (IH s t1 t2 Ht1 Ht2) as H1.
      destruct (chk f s t1 t2) as [s1 r]. cbn [snd] in H1. destruct r; cbn [snd]; try discriminate.
      + apply Hsecond, Ht2.
      + exact H1.
    - destruct Hwf as [Ht2 _]. apply Hsecond, Ht2.
  Qed.

  Theorem chk_total f s a b : In a ND -> In b ND -> fits f s a b -> answered (snd (chk f s a b)) = true.
  Proof.
    intros Ha Hb Hf. pose proof (chk_nofuel f s a b Ha Hb Hf). pose proof (chk_nopanic f s a b Ha Hb).
    destruct (snd (chk f s a b)); try reflexivity; congruence.
  Qed.

  (* a fuel that is enough for every query over these nodes, whatever gamma holds *)
  Definition enough : nat := S (length UP * K + 2 * Mx).
  Lemma nfree_le g : nfree g <= length UP.
  Proof. unfold nfree. induction UP as [|x l IH]; cbn; [lia|]. destruct (negb (gmem g x)); cbn; lia. Qed.
  Theorem query_total g a b f : In a ND -> In b ND -> enough <= f -> answered (snd (query planf E strict f g a b)) = true.
  Proof.
    intros Ha Hb Hf. unfold query.
    assert (Hfit : fits f (g, []) a b).
    { unfold fits, enough in *. cbn [fst]. pose proof (nfree_le g). pose proof (sz_le_Mx _ Ha). pose proof (sz_le_Mx _ Hb).
      assert (nfree g * K <= length UP * K) by (apply Nat.mul_le_mono_r; assumption). lia. }
    pose proof (chk_total f (g, []) a b Ha Hb Hfit) as H. destruct (chk f (g, []) a b) as [[g' t'] r]. exact H.
  Qed.
  Theorem history_total f : enough <= f -> forall qs g, (forall q, In q qs -> inP q) ->
    forallb answered (snd (history planf E strict f g qs)) = true.
  Proof.
    intros Hf. induction qs as [|q qs IH]; intros g Hq; cbn [history]; [reflexivity|].
    destruct (Hq q (or_introl eq_refl)) as [Hq1 Hq2].
    pose proof (query_total g (fst q) (snd q) f Hq1 Hq2 Hf) as H1.
    destruct (query planf E strict f g (fst q) (snd q)) as [g1 x]. cbn [snd] in H1.
    assert (IH' := IH g1 (fun q' Hq' => Hq q' (or_intror Hq'))).
    destruct (history planf E strict f g1 qs) as [g2 xs]. cbn [snd forallb] in *. rewrite H1, IH'. reflexivity.
  Qed.
End Total.

(* ---------- the two checkers: their plans stay inside the node set and descend ---------- *)
Section Instances.
  Variable E : env.
  Variable ts : list ty.
  Notation ND := (nodes E ts).

  Lemma items_in_map {X} (look : X -> option ty) (mk : X -> ty -> pair) (dflt : X -> bool) (fs : list X) q :
    In (IPrem q) (map (fun f => match look f with Some t => IPrem (mk f t) | None => IGuard (dflt f) end) fs) ->
    exists f t, In f fs /\ look f = Some t /\ q = mk f t.
  Proof.
    intros H. apply in_map_iff in H. destruct H as [f [Hf Hin]]. destruct (look f) as [t|] eqn:Hl; [|discriminate].
    injection Hf as <-. exists f, t. auto.
  Qed.

  Ltac triv_items := intros q Hq; cbn [In] in Hq; repeat (destruct Hq as [Hq|Hq]; try discriminate Hq); try contradiction.

  Lemma plan_sub_ok a b : In a ND -> In b ND -> tvarb a = false -> tvarb b = false -> plan_wf ND a b (plan_sub E a b).
  Proof.
    intros Ha Hb Hva Hvb.
    destruct a as [pa|xa|ta|ta|fa|fa|aa ra ma|msa|ia ta|]; try discriminate;
    destruct b as [pb|xb|tb|tb|fb|fb|ab rb mb|msb|ib tb|]; try discriminate;
      try destruct pa; try destruct pb; cbn [plan_sub plan_wf];
      try (triv_items; fail);
      (* a service constructor on the left, anything on the right *)
      try (intros q [Hq|[]]; injection Hq as <-; cbn [fst snd]; split;
           [split; [exact (node_class E ts _ _ Ha)|exact Hb]|cbn [sz]; lia]; fail);
      (* ... or on the right *)
      try (intros q [Hq|[]]; injection Hq as <-; cbn [fst snd]; split;
           [split; [exact Ha|exact (node_class E ts _ _ Hb)]|cbn [sz]; lia]; fail);
      (* anything at an option *)
      try (split; [exact (node_opt E ts _ Hb)|cbn [sz]; lia]; fail).
    - (* opt / opt *)
      split; [exact (node_opt E ts _ Ha)|]. split; [exact (node_opt E ts _ Hb)|]. cbn [sz]. lia.
    - (* vec / vec *)
      intros q [Hq|[]]. injection Hq as <-. cbn [fst snd]. split; [split; [exact (node_vec E ts _ Ha)|exact (node_vec E ts _ Hb)]|cbn [sz]; lia].
    - (* record / record *)
      intros q Hq. apply (items_in_map (fun f => find_field (fst f) fa) (fun f t => (t, snd f)) (fun f => optlike E (snd f))) in Hq.
      destruct Hq as [[i u] [t [Hf [Hl ->]]]]. cbn [fst snd] in *. apply find_field_In in Hl. split.
      + split; [exact (node_rec E ts _ _ _ Ha Hl)|exact (node_rec E ts _ _ _ Hb Hf)].
      + pose proof (sz_field _ _ _ Hl). pose proof (sz_field _ _ _ Hf). cbn [sz]. lia.
    - (* variant / variant *)
      intros q Hq. apply (items_in_map (fun f => find_field (fst f) fb) (fun f t => (snd f, t)) (fun _ => false)) in Hq.
      destruct Hq as [[i u] [t [Hf [Hl ->]]]]. cbn [fst snd] in *. apply find_field_In in Hl. split.
      + split; [exact (node_variant E ts _ _ _ Ha Hf)|exact (node_variant E ts _ _ _ Hb Hl)].
      + pose proof (sz_field _ _ _ Hl). pose proof (sz_field _ _ _ Hf). cbn [sz]. lia.
    - (* func / func *)
      destruct (list_eqb N.eqb ma mb); [|triv_items].
      intros q [Hq|[Hq|[]]]; injection Hq as <-; cbn [fst snd]; (split; [split|rewrite !sz_tuple; cbn [sz]; lia]).
      + exact (node_func_a E ts _ _ _ Hb).
      + exact (node_func_a E ts _ _ _ Ha).
      + exact (node_func_r E ts _ _ _ Ha).
      + exact (node_func_r E ts _ _ _ Hb).
    - (* service / service *)
      intros q Hq. apply (items_in_map (fun m => find_meth (fst m) msa) (fun m t => (t, snd m)) (fun _ => false)) in Hq.
      destruct Hq as [[i u] [t [Hf [Hl ->]]]]. cbn [fst snd] in *. apply find_meth_In in Hl. split.
      + split; [exact (node_serv E ts _ _ _ Ha Hl)|exact (node_serv E ts _ _ _ Hb Hf)].
      + pose proof (sz_field _ _ _ Hl). pose proof (sz_field _ _ _ Hf). cbn [sz]. lia.
  Qed.

  Lemma zip_items_in {K} (keq : K -> K -> bool) (l1 : list (K * ty)) : forall l2 q,
    In (IPrem q) (zip_items keq l1 l2) -> exists i j, In (i, fst q) l1 /\ In (j, snd q) l2.
  Proof.
    induction l1 as [|[i s] r1 IH]; intros [|[j t] r2] q H; cbn [zip_items] in H; try (destruct H; fail).
    destruct H as [H|[H|H]]; [discriminate| |].
    - injection H as <-. exists i, j. cbn. auto.
    - destruct (IH r2 q H) as (i' & j' & H1 & H2). exists i', j'. cbn. auto.
  Qed.

  Lemma plan_eq_ok a b : In a ND -> In b ND -> tvarb a = false -> tvarb b = false -> plan_wf ND a b (plan_eq E a b).
  Proof.
    intros Ha Hb Hva Hvb.
    destruct a as [pa|xa|ta|ta|fa|fa|aa ra ma|msa|ia ta|]; try discriminate;
    destruct b as [pb|xb|tb|tb|fb|fb|ab rb mb|msb|ib tb|]; try discriminate;
      cbn [plan_eq plan_wf]; try (triv_items; fail).
    - intros q [Hq|[]]. injection Hq as <-. cbn [fst snd]. split; [split; [exact (node_opt E ts _ Ha)|exact (node_opt E ts _ Hb)]|cbn [sz]; lia].
    - intros q [Hq|[]]. injection Hq as <-. cbn [fst snd]. split; [split; [exact (node_vec E ts _ Ha)|exact (node_vec E ts _ Hb)]|cbn [sz]; lia].
    - unfold zip_plan. destruct (Nat.eqb (length fa) (length fb)); cbn [plan_wf]; [|triv_items].
      intros q Hq. destruct (zip_items_in _ _ _ _ Hq) as (i & j & H1 & H2). split.
      + split; [exact (node_rec E ts _ _ _ Ha H1)|exact (node_rec E ts _ _ _ Hb H2)].
      + pose proof (sz_field _ _ _ H1). pose proof (sz_field _ _ _ H2). cbn [sz]. lia.
    - unfold zip_plan. destruct (Nat.eqb (length fa) (length fb)); cbn [plan_wf]; [|triv_items].
      intros q Hq. destruct (zip_items_in _ _ _ _ Hq) as (i & j & H1 & H2). split.
      + split; [exact (node_variant E ts _ _ _ Ha H1)|exact (node_variant E ts _ _ _ Hb H2)].
      + pose proof (sz_field _ _ _ H1). pose proof (sz_field _ _ _ H2). cbn [sz]. lia.
    - destruct (list_eqb N.eqb ma mb); [|triv_items].
      intros q [Hq|[Hq|[]]]; injection Hq as <-; cbn [fst snd]; (split; [split|rewrite !sz_tuple; cbn [sz]; lia]).
      + exact (node_func_a E ts _ _ _ Ha).
      + exact (node_func_a E ts _ _ _ Hb).
      + exact (node_func_r E ts _ _ _ Ha).
      + exact (node_func_r E ts _ _ _ Hb).
    - unfold zip_plan. destruct (Nat.eqb (length msa) (length msb)); cbn [plan_wf]; [|triv_items].
      intros q Hq. destruct (zip_items_in _ _ _ _ Hq) as (i & j & H1 & H2). split.
      + split; [exact (node_serv E ts _ _ _ Ha H1)|exact (node_serv E ts _ _ _ Hb H2)].
      + pose proof (sz_field _ _ _ H1). pose proof (sz_field _ _ _ H2). cbn [sz]. lia.
    - intros q [Hq|[Hq|[]]]; injection Hq as <-; cbn [fst snd].
      + split; [split; [exact (node_class_init E ts _ _ Ha)|exact (node_class_init E ts _ _ Hb)]|rewrite !sz_tuple; cbn [sz]; lia].
      + split; [split; [exact (node_class E ts _ _ Ha)|exact (node_class E ts _ _ Hb)]|cbn [sz]; lia].
  Qed.
End Instances.

(* ---------- total correctness of the checkers: no hypothesis about fuel or panics left ---------- *)
Definition query_types (qs : list pair) : list ty := flat_map (fun q => [fst q; snd q]) qs.
Definition bound_nodes (E : env) (ts : list ty) : bool :=
  forallb (fun t => match trace E t with Some _ => true | None => false end) (nodes E ts).
Lemma bound_nodes_spec E ts : bound_nodes E ts = true -> forall t, In t (nodes E ts) -> trace E t <> None.
Proof. unfold bound_nodes. rewrite forallb_forall. intros H t Ht. specialize (H t Ht). destruct (trace E t); [discriminate|discriminate]. Qed.
Lemma query_types_nodes E qs q : In q qs -> inP (nodes E (query_types qs)) q.
Proof.
  intros H. unfold inP, nodes. split; apply in_or_app; left; apply in_flat_map.
  - exists (fst q). split; [|apply subterms_self]. unfold query_types. apply in_flat_map. exists q. split; [exact H|left; reflexivity].
  - exists (snd q). split; [|apply subterms_self]. unfold query_types. apply in_flat_map. exists q. split; [exact H|right; left; reflexivity].
Qed.

(* how much fuel (= nesting of calls, what the implementation's stack guard counts) any history over these types needs *)
Definition fuel_bound (E : env) (qs : list pair) : nat := enough (nodes E (query_types qs)).

Theorem sub_checker_total_correct E qs g f :
  bound_nodes E (query_types qs) = true -> sound_memo E g -> fuel_bound E qs <= f ->
  let o := sub_history E false f g qs in
  Forall2 (fun q r => (r = MOk <-> sub_dec E (fst q) (snd q) = true) /\ (r = MErr <-> sub_dec E (fst q) (snd q) = false)) qs (snd o)
  /\ sound_memo E (fst o).
Proof.
  intros Hb Hg Hf o.
  assert (Hans : forallb answered (snd o) = true).
  { apply (history_total plan_sub E false (nodes E (query_types qs))).
    - intros t t'. apply trace_nodes.
    - apply plan_sub_ok.
    - apply bound_nodes_spec, Hb.
    - exact Hf.
    - intros q. apply query_types_nodes. }
  destruct (sub_history_correct E f qs g Hg Hans) as [HF Hs]. split; [|exact Hs].
  fold o in HF. clear - HF Hans. revert HF Hans. generalize (snd o). induction qs as [|q qs IH]; intros rs HF Hans; inversion HF; subst; constructor.
  - cbn [forallb] in Hans. apply andb_true_iff in Hans as [Hy _]. split; [assumption|].
    destruct y; cbn in Hy; try discriminate.
    + split; [discriminate|]. intros Hd. destruct H1 as [H1 _]. rewrite (H1 eq_refl) in Hd. discriminate.
    + split; [intros _|reflexivity]. destruct (sub_dec E (fst q) (snd q)) eqn:Hd; [|reflexivity]. destruct H1 as [_ H1]. specialize (H1 eq_refl). discriminate.
  - apply IH; [assumption|]. cbn [forallb] in Hans. apply andb_true_iff in Hans as [_ Hy]. exact Hy.
Qed.

Theorem eq_checker_total_correct E qs g f :
  bound_nodes E (query_types qs) = true -> sound_eq_memo E g -> fuel_bound E qs <= f ->
  let o := eq_history E f g qs in
  Forall2 (fun q r => (r = MOk <-> eq_dec E (fst q) (snd q) = true) /\ (r = MErr <-> eq_dec E (fst q) (snd q) = false)) qs (snd o)
  /\ sound_eq_memo E (fst o).
Proof.
  intros Hb Hg Hf o.
  assert (Hans : forallb answered (snd o) = true).
  { apply (history_total plan_eq E false (nodes E (query_types qs))).
    - intros t t'. apply trace_nodes.
    - apply plan_eq_ok.
    - apply bound_nodes_spec, Hb.
    - exact Hf.
    - intros q. apply query_types_nodes. }
  destruct (eq_history_correct E f qs g Hg Hans) as [HF Hs]. split; [|exact Hs].
  fold o in HF. clear - HF Hans. revert HF Hans. generalize (snd o). induction qs as [|q qs IH]; intros rs HF Hans; inversion HF; subst; constructor.
  - cbn [forallb] in Hans. apply andb_true_iff in Hans as [Hy _]. split; [assumption|].
    destruct y; cbn in Hy; try discriminate.
    + split; [discriminate|]. intros Hd. destruct H1 as [H1 _]. rewrite (H1 eq_refl) in Hd. discriminate.
    + split; [intros _|reflexivity]. destruct (eq_dec E (fst q) (snd q)) eqn:Hd; [|reflexivity]. destruct H1 as [_ H1]. specialize (H1 eq_refl). discriminate.
  - apply IH; [assumption|]. cbn [forallb] in Hans. apply andb_true_iff in Hans as [_ Hy]. exact Hy.
Qed.

(* OptReport::Error terminates and does not panic either (it is sound, and stricter by design) *)
Theorem strict_checker_total E qs g f :
  bound_nodes E (query_types qs) = true -> fuel_bound E qs <= f ->
  forallb answered (snd (sub_history E true f g qs)) = true.
Proof.
  intros Hb Hf. apply (history_total plan_sub E true (nodes E (query_types qs))).
  - intros t t'. apply trace_nodes.
  - apply plan_sub_ok.
  - apply bound_nodes_spec, Hb.
  - exact Hf.
  - intros q. apply query_types_nodes.
Qed.
