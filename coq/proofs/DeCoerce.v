(* DeCoerce.v -- the single-pass decoder as it is (De.v) at an expected type that is a PROPER supertype of the wire type:
   whenever M^-1 is defined on the input at the wire type, the decoder returns exactly what the specification's coercion
   function returns on that value (a value, or the subtype-class failure that an enclosing opt turns into null). *)
From CandidV Require Import Consts model.Leb model.De proofs.LebProofs proofs.TyProofs proofs.SubProofs proofs.WireProofs proofs.CoerceProofs proofs.DeProofs proofs.DeCost proofs.DeFast proofs.DeSpec.
From Coq Require Import Lia ZifyBool ZifyNat ZifyN.
Open Scope N_scope.

(* ---------- fuel of M^-1 is irrelevant beyond the depth of the value ---------- *)
Lemma fold_max_le {A} (g : A -> nat) (l : list A) x : In x l -> (g x <= fold_right (fun w a => Nat.max (g w) a) O l)%nat.
Proof. induction l as [|y l IH]; intros H; [destruct H|]. cbn [fold_right]. destruct H as [->|H]; [lia|]. specialize (IH H). lia. Qed.

Lemma dec_val_fuel : forall g E t bs v r, dec_val g E t bs = Ok (v, r) -> forall f, (vdepth v < f)%nat -> dec_val f E t bs = Ok (v, r).
Proof.
  induction g as [|g IH]; intros E t bs v r H f Hf; [discriminate|].
  destruct f as [|f]; [lia|].
  cbn [dec_val] in *. destruct (trace E t) as [a|]; [|discriminate].
  destruct a as [p|x|t1|t1|fs|fs|aa ra ma|ms|ia ta|]; try exact H; try discriminate.
  - (* opt *) destruct bs as [|b r0]; [discriminate|]. destruct b as [|[| |]]; try discriminate; [exact H|].
    unfold bind in *. destruct (dec_val g E t1 r0) as [[w0 r1]| | |] eqn:E1; try discriminate. cbn [fst snd] in H. inversion H; subst.
    rewrite (IH _ _ _ _ _ E1 f) by (cbn [vdepth] in Hf; lia). reflexivity.
  - (* vec *) unfold bind in *. destruct (read_u64 bs) as [[len r1]| | |]; try discriminate. cbn [fst snd] in *.
    destruct (max_count <? len); [discriminate|].
    rewrite (vec_go_read_n (dec_val g E t1)) in H. rewrite (vec_go_read_n (dec_val f E t1)).
    destruct (read_n (dec_val g E t1) (N.to_nat len) r1) as [[vs r2]| | |] eqn:E2; try discriminate. cbn [fst snd] in H. inversion H; subst v r. clear H.
    assert (G : forall k bs0 vs0 r0, read_n (dec_val g E t1) k bs0 = Ok (vs0, r0) -> (forall w, In w vs0 -> (vdepth w < f)%nat) -> read_n (dec_val f E t1) k bs0 = Ok (vs0, r0)).
    { induction k as [|k IHk]; intros bs0 vs0 r0 Hk Hd; cbn [read_n] in *; [exact Hk|].
      unfold bind in *. destruct (dec_val g E t1 bs0) as [[w1 r3]| | |] eqn:E3; try discriminate. cbn [fst snd] in Hk.
      destruct (read_n (dec_val g E t1) k r3) as [[vs4 r4]| | |] eqn:E4; try discriminate. cbn [fst snd] in Hk. inversion Hk; subst.
      rewrite (IH _ _ _ _ _ E3 f) by (apply Hd; left; reflexivity). cbn [fst snd].
      rewrite (IHk _ _ _ E4) by (intros w Hw; apply Hd; right; exact Hw). reflexivity. }
    rewrite (G _ _ _ _ E2); [reflexivity|].
    intros w Hw. cbn [vdepth] in Hf. pose proof (fold_max_le vdepth vs w Hw). lia.
  - (* record *) rewrite (rec_go_loop (dec_val g E)) in H. rewrite (rec_go_loop (dec_val f E)).
    unfold bind in *. destruct (rec_loop (dec_val g E) fs bs) as [[vs r2]| | |] eqn:E2; try discriminate. cbn [fst snd] in H. inversion H; subst v r. clear H.
    assert (G : forall ts bs0 vs0 r0, rec_loop (dec_val g E) ts bs0 = Ok (vs0, r0) -> (forall w, In w vs0 -> (vdepth (snd w) < f)%nat) -> rec_loop (dec_val f E) ts bs0 = Ok (vs0, r0)).
    { induction ts as [|[i ti] ts IHk]; intros bs0 vs0 r0 Hk Hd; cbn [rec_loop] in *; [exact Hk|].
      unfold bind in *. destruct (dec_val g E ti bs0) as [[w1 r3]| | |] eqn:E3; try discriminate. cbn [fst snd] in Hk.
      destruct (rec_loop (dec_val g E) ts r3) as [[vs4 r4]| | |] eqn:E4; try discriminate. cbn [fst snd] in Hk. inversion Hk; subst.
      rewrite (IH _ _ _ _ _ E3 f) by (apply (Hd (i, w1)); left; reflexivity). cbn [fst snd].
      rewrite (IHk _ _ _ E4) by (intros w Hw; apply Hd; right; exact Hw). reflexivity. }
    rewrite (G _ _ _ _ E2); [reflexivity|].
    intros w Hw. cbn [vdepth] in Hf. pose proof (fold_max_le (fun f0 : N * val => vdepth (snd f0)) vs w Hw). cbn beta in H. lia.
  - (* variant *) unfold bind in *. destruct (read_u64 bs) as [[idx r1]| | |]; try discriminate. cbn [fst snd] in *.
    destruct (idx <? N.of_nat (length fs)); [|discriminate].
    destruct (nth_error fs (N.to_nat idx)) as [[i ti]|]; [|discriminate].
    destruct (dec_val g E ti r1) as [[w0 r2]| | |] eqn:E2; try discriminate. cbn [fst snd] in H. inversion H; subst.
    rewrite (IH _ _ _ _ _ E2 f) by (cbn [vdepth] in Hf; lia). reflexivity.
Qed.

(* ---------- the two sides of a decoding problem ----------
   [W x] says that x is a name of the wire table.  Wire types mention wire names only, expected types mention the others only;
   record fields are in strictly ascending order on both sides (the header parser and the type constructors establish it);
   a table entry is never the primitive null (the table holds composite types; replace_empty may turn one into empty);
   a future type occurs on the wire side only; service constructors are not data types. *)
Fixpoint sorted_ids (l : list N) : bool :=
  match l with [] => true | i :: r => match r with [] => true | j :: _ => i <? j end && sorted_ids r end.
Fixpoint side (W : name -> bool) (b : bool) (t : ty) : bool :=
  match t with
  | TPrim _ => true
  | TVar x => Bool.eqb (W x) b
  | TOpt t | TVec t => side W b t
  | TRec fs => sorted_ids (map fst fs) && forallb (fun f => side W b (snd f)) fs
  | TVariant fs => forallb (fun f => side W b (snd f)) fs
  | TFunc _ _ _ | TServ _ => true
  | TClass _ _ => false
  | TFuture => b
  end.
Definition sides (W : name -> bool) (E : env) : Prop :=
  forall x t, lookup E x = Some t -> side W (W x) t = true /\ (W x = true -> t <> TPrim PNull).

Lemma sorted_lt i r : sorted_ids (i :: r) = true -> forall j, In j r -> i < j.
Proof.
  revert i. induction r as [|k r IH]; intros i H j Hj; [destruct Hj|].
  cbn [sorted_ids] in H. apply andb_true_iff in H as [H1 H2]. apply N.ltb_lt in H1.
  destruct Hj as [->|Hj]; [exact H1|]. specialize (IH k H2 j Hj). lia.
Qed.
Lemma sorted_tl i r : sorted_ids (i :: r) = true -> sorted_ids r = true.
Proof. cbn [sorted_ids]. intros H. apply andb_true_iff in H as [_ H]. exact H. Qed.

Lemma side_trace_f W E : sides W E -> forall f b t a, side W b t = true -> trace_f f E t = Some a ->
  side W b a = true /\ (b = true -> De.is_var t = true -> a <> TPrim PNull).
Proof.
  intros HS. induction f as [|f IH]; intros b t a Hs H; destruct t; cbn [trace_f] in H; try discriminate;
    try (inversion H; subst; split; [exact Hs|intros _ V; discriminate V]).
  destruct (lookup E x) as [t1|] eqn:Hl; [|discriminate].
  cbn [side] in Hs. apply Bool.eqb_prop in Hs. destruct (HS x t1 Hl) as [S1 S2]. rewrite Hs in S1.
  destruct (IH b t1 a S1 H) as [I1 I2]. split; [exact I1|].
  intros -> _. destruct t1; try (apply I2; reflexivity); destruct f; cbn [trace_f] in H; inversion H; subst; try discriminate.
  all: apply S2; exact Hs.
Qed.
Lemma side_trace W E b t a : sides W E -> side W b t = true -> trace E t = Some a ->
  side W b a = true /\ (b = true -> De.is_var t = true -> a <> TPrim PNull).
Proof. intros HS. apply side_trace_f. exact HS. Qed.

(* ---------- coercion looks at the traced forms only ---------- *)
Lemma coerce_trace f E v t t' a b : trace E t = Some a -> trace E t' = Some b -> coerce f E v t t' = coerce f E v a b.
Proof. intros Ha Hb. destruct f; [reflexivity|]. cbn [coerce]. rewrite Ha, Hb, (trace_idem _ _ _ Ha), (trace_idem _ _ _ Hb). reflexivity. Qed.

(* ---------- skipping a value = M^-1 at its wire type ---------- *)
Lemma skip_is_dec g g0 E u h lc w bs v r c : wf_env E = true -> ty_closed E w = true ->
  dec_val g0 E w bs = Ok (v, r) -> (vdepth v < g)%nat ->
  exists c', de g E u h lc w w bs nolim c = (c', Ok (v, r)).
Proof.
  intros Hwf Hc H Hg. apply (dec_val_fuel _ _ _ _ _ _ H g) in Hg.
  destruct (trace_closed E w Hwf Hc) as (a & Ta & Hca & _). rewrite (dec_val_trace _ _ _ _ _ Ta) in Hg.
  eapply de_at_wire_type_host; eassumption.
Qed.

(* ---------- references: the subtype test on traced forms ---------- *)
Lemma sub_fast_nonvar E a b : De.is_var a = false -> De.is_var b = false -> sub_dec_fast E a b = true ->
  ty_eqb a b = true \/ arms E a b <> VFalse.
Proof.
  intros Va Vb H. apply sub_dec_fast_correct in H. apply sub_unfold in H as (S & _ & HS).
  unfold stepb, rule in HS. destruct (ty_eqb a b) eqn:Eq; [left; reflexivity|right].
  assert (Ta : trace E a = Some a) by (destruct a; try reflexivity; discriminate).
  assert (Tb : trace E b = Some b) by (destruct b; try reflexivity; discriminate).
  rewrite Ta, Tb, Eq in HS. intros Ha. rewrite Ha in HS. discriminate.
Qed.
